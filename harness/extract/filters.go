package main

// Generator "Filters" (property C12): dumps the classic-BPF capture filters of the *compiled*
// packets package and the filter installation sites of the four traceroute variants into
// lean/TRV/Generated/Filters.lean.
//
//   - ICMP, UDP, SYNACK: packets.VerifClassicBPF(spec) (= getClassicBPFFilter, the function
//     afPacketSource.SetPacketFilter calls).
//   - TCP tuple: VerifClassicBPF for two byte-disjoint marker configurations; the two dumps must have
//     the same shape and differ exactly in the K of the four instructions that carry the markers;
//     the program is emitted as a Lean function of (srcAddr dstAddr srcPort dstPort : Nat).
//   - dropAll: the unexported package variable packets.dropAllFilter read from the linked binary
//     through go:linkname, cross-checked against the composite literal in cbpf_filters.go (go/ast),
//     plus an AST check that SetBPFAndDrain installs exactly that variable first.
//   - filterSites: every `SetPacketFilter(packets.PacketFilterSpec{...})` call in
//     icmp/traceroute_icmp.go, udp/udp_traceroute.go, tcp/tcp_traceroute.go, sack/traceroute_sack.go
//     with its FilterType and the source text of the FilterConfig Src / Dst expressions.
//
// Every raw opcode is decoded into a constructor of the Lean `TRV.Bpf.Instr`; an opcode outside the
// modelled subset, a non-zero jt/jf on a non-jump, or a K in the ancillary (negative offset) range
// aborts the generation, which the check reports as a broken proof obligation.

import (
	"fmt"
	"go/ast"
	"go/parser"
	"go/printer"
	"go/token"
	"net/netip"
	"path/filepath"
	"sort"
	"strconv"
	"strings"
	_ "unsafe" // go:linkname

	"github.com/DataDog/datadog-traceroute/packets"
	"golang.org/x/net/bpf"
)

//go:linkname linkedDropAllFilter github.com/DataDog/datadog-traceroute/packets.dropAllFilter
var linkedDropAllFilter []bpf.RawInstruction

func init() { generators["Filters"] = genFilters }

// leanInstr decodes one raw instruction; kExpr, when non-empty, replaces the constant of a jeq.
func leanInstr(ri bpf.RawInstruction, kExpr string) (string, error) {
	k := fmt.Sprintf("0x%x", ri.K)
	noJump := func() error {
		if ri.Jt != 0 || ri.Jf != 0 {
			return fmt.Errorf("op 0x%x with jt=%d jf=%d (must be 0 on a non-jump)", ri.Op, ri.Jt, ri.Jf)
		}
		return nil
	}
	loadOff := func() error {
		if err := noJump(); err != nil {
			return err
		}
		if ri.K >= 0x1000 {
			return fmt.Errorf("op 0x%x load offset 0x%x outside the modelled range (ancillary/negative offsets are not modelled)", ri.Op, ri.K)
		}
		return nil
	}
	if kExpr != "" && ri.Op != 0x15 {
		return "", fmt.Errorf("configuration marker in op 0x%x (only jeq may carry a configured constant)", ri.Op)
	}
	switch ri.Op {
	case 0x30:
		return ".ldAbs 1 " + k, loadOff()
	case 0x28:
		return ".ldAbs 2 " + k, loadOff()
	case 0x20:
		return ".ldAbs 4 " + k, loadOff()
	case 0x50:
		return ".ldInd 1 " + k, loadOff()
	case 0x48:
		return ".ldInd 2 " + k, loadOff()
	case 0x40:
		return ".ldInd 4 " + k, loadOff()
	case 0xb1:
		return ".ldxMsh " + k, loadOff()
	case 0x15:
		if kExpr != "" {
			k = kExpr
		}
		return fmt.Sprintf(".jeq %s %d %d", k, ri.Jt, ri.Jf), nil
	case 0x45:
		return fmt.Sprintf(".jset %s %d %d", k, ri.Jt, ri.Jf), nil
	case 0x06:
		return ".ret " + k, noJump()
	}
	return "", fmt.Errorf("unknown classic-BPF opcode 0x%x (jt=%d jf=%d k=0x%x): extend TRV.Bpf.Instr/exec before trusting C12", ri.Op, ri.Jt, ri.Jf, ri.K)
}

func leanProgram(name, params, doc string, prog []bpf.RawInstruction, kExprs map[int]string) (string, error) {
	if len(prog) == 0 {
		return "", fmt.Errorf("%s: empty program", name)
	}
	var b strings.Builder
	fmt.Fprintf(&b, "/-- %s -/\ndef %s%s : List Instr := [\n", doc, name, params)
	for i, ri := range prog {
		s, err := leanInstr(ri, kExprs[i])
		if err != nil {
			return "", fmt.Errorf("%s[%d]: %w", name, i, err)
		}
		sep := ","
		if i == len(prog)-1 {
			sep = "]"
		}
		fmt.Fprintf(&b, "  %s%s  -- (%03d) op=0x%02x jt=%d jf=%d k=0x%08x\n", s, sep, i, ri.Op, ri.Jt, ri.Jf, ri.K)
	}
	return b.String(), nil
}

func tupleProg(sa, da [4]byte, sp, dp uint16) ([]bpf.RawInstruction, error) {
	return packets.VerifClassicBPF(packets.PacketFilterSpec{
		FilterType: packets.FilterTypeTCP,
		FilterConfig: packets.FilterConfig{
			Src: netip.AddrPortFrom(netip.AddrFrom4(sa), sp),
			Dst: netip.AddrPortFrom(netip.AddrFrom4(da), dp),
		},
	})
}

func be32(b [4]byte) uint32 {
	return uint32(b[0])<<24 | uint32(b[1])<<16 | uint32(b[2])<<8 | uint32(b[3])
}

// parameterizeTuple dumps the tuple filter for two marker configurations whose twelve bytes are
// pairwise distinct (within and across the configurations), checks that the dumps differ exactly in
// four K fields carrying the markers, and returns the program with the parameter positions.
func parameterizeTuple() ([]bpf.RawInstruction, map[int]string, error) {
	saA, daA, spA, dpA := [4]byte{0x81, 0x12, 0xa3, 0x34}, [4]byte{0xc5, 0x56, 0xe7, 0x78}, uint16(0x9a1b), uint16(0xbc2d)
	saB, daB, spB, dpB := [4]byte{0x41, 0xd2, 0x63, 0xf4}, [4]byte{0x05, 0x96, 0x27, 0xb8}, uint16(0x4ade), uint16(0x6cf0)
	pa, err := tupleProg(saA, daA, spA, dpA)
	if err != nil {
		return nil, nil, fmt.Errorf("tuple filter (config A): %w", err)
	}
	pb, err := tupleProg(saB, daB, spB, dpB)
	if err != nil {
		return nil, nil, fmt.Errorf("tuple filter (config B): %w", err)
	}
	if len(pa) != len(pb) {
		return nil, nil, fmt.Errorf("tuple filter length depends on the configuration: %d vs %d", len(pa), len(pb))
	}
	type mk struct {
		name string
		a, b uint32
	}
	marks := []mk{{"srcAddr", be32(saA), be32(saB)}, {"dstAddr", be32(daA), be32(daB)},
		{"srcPort", uint32(spA), uint32(spB)}, {"dstPort", uint32(dpA), uint32(dpB)}}
	exprs := map[int]string{}
	seen := map[string]int{}
	for i := range pa {
		x, y := pa[i], pb[i]
		if x.Op != y.Op || x.Jt != y.Jt || x.Jf != y.Jf {
			return nil, nil, fmt.Errorf("tuple filter shape depends on the configuration at instruction %d: %+v vs %+v", i, x, y)
		}
		if x.K == y.K {
			for _, m := range marks {
				if x.K == m.a || x.K == m.b {
					return nil, nil, fmt.Errorf("tuple filter instruction %d has the constant marker 0x%x in both dumps", i, x.K)
				}
			}
			continue
		}
		found := ""
		for _, m := range marks {
			if x.K == m.a && y.K == m.b {
				found = m.name
			}
		}
		if found == "" {
			return nil, nil, fmt.Errorf("tuple filter instruction %d: K differs (0x%x vs 0x%x) but is not one of the four configured values verbatim", i, x.K, y.K)
		}
		if j, dup := seen[found]; dup {
			return nil, nil, fmt.Errorf("tuple filter uses %s twice (instructions %d and %d)", found, j, i)
		}
		seen[found] = i
		exprs[i] = found
	}
	if len(seen) != 4 {
		var missing []string
		for _, m := range marks {
			if _, ok := seen[m.name]; !ok {
				missing = append(missing, m.name)
			}
		}
		return nil, nil, fmt.Errorf("tuple filter does not depend on %s: the two marker dumps must differ in exactly four K fields", strings.Join(missing, ","))
	}
	return pa, exprs, nil
}

// rawTablesFromAST reads the `var x = []bpf.RawInstruction{{Op:..,Jt:..,Jf:..,K:..},…}` literals.
func rawTablesFromAST(file string) (map[string][]bpf.RawInstruction, error) {
	fset := token.NewFileSet()
	f, err := parser.ParseFile(fset, file, nil, 0)
	if err != nil {
		return nil, err
	}
	out := map[string][]bpf.RawInstruction{}
	for _, d := range f.Decls {
		gd, ok := d.(*ast.GenDecl)
		if !ok || gd.Tok != token.VAR {
			continue
		}
		for _, sp := range gd.Specs {
			vs := sp.(*ast.ValueSpec)
			if len(vs.Names) != 1 || len(vs.Values) != 1 {
				continue
			}
			cl, ok := vs.Values[0].(*ast.CompositeLit)
			if !ok {
				continue
			}
			if at, ok := cl.Type.(*ast.ArrayType); !ok || exprText(fset, at.Elt) != "bpf.RawInstruction" {
				continue
			}
			var prog []bpf.RawInstruction
			for _, e := range cl.Elts {
				el, ok := e.(*ast.CompositeLit)
				if !ok {
					return nil, fmt.Errorf("%s: element of %s is not a composite literal", file, vs.Names[0].Name)
				}
				var ri bpf.RawInstruction
				for _, kv0 := range el.Elts {
					kv, ok := kv0.(*ast.KeyValueExpr)
					if !ok {
						return nil, fmt.Errorf("%s: %s uses positional fields", file, vs.Names[0].Name)
					}
					lit, ok := kv.Value.(*ast.BasicLit)
					if !ok || lit.Kind != token.INT {
						return nil, fmt.Errorf("%s: %s has a non-literal field", file, vs.Names[0].Name)
					}
					v, err := strconv.ParseUint(lit.Value, 0, 32)
					if err != nil {
						return nil, err
					}
					switch exprText(fset, kv.Key) {
					case "Op":
						ri.Op = uint16(v)
					case "Jt":
						ri.Jt = uint8(v)
					case "Jf":
						ri.Jf = uint8(v)
					case "K":
						ri.K = uint32(v)
					default:
						return nil, fmt.Errorf("%s: unknown RawInstruction field %s", file, exprText(fset, kv.Key))
					}
				}
				prog = append(prog, ri)
			}
			out[vs.Names[0].Name] = prog
		}
	}
	return out, nil
}

func exprText(fset *token.FileSet, e ast.Expr) string {
	var b strings.Builder
	printer.Fprint(&b, fset, e)
	return strings.Join(strings.Fields(b.String()), " ")
}

func sameProg(a, b []bpf.RawInstruction) bool {
	if len(a) != len(b) {
		return false
	}
	for i := range a {
		if a[i] != b[i] {
			return false
		}
	}
	return true
}

// firstSetBPFArg returns the second argument of the first SetBPF(...) call inside funcName.
func firstSetBPFArg(file, funcName string) (string, error) {
	fset := token.NewFileSet()
	f, err := parser.ParseFile(fset, file, nil, 0)
	if err != nil {
		return "", err
	}
	for _, d := range f.Decls {
		fd, ok := d.(*ast.FuncDecl)
		if !ok || fd.Name.Name != funcName || fd.Body == nil {
			continue
		}
		res := ""
		ast.Inspect(fd.Body, func(n ast.Node) bool {
			if res != "" {
				return false
			}
			if c, ok := n.(*ast.CallExpr); ok && exprText(fset, c.Fun) == "SetBPF" && len(c.Args) == 2 {
				res = exprText(fset, c.Args[1])
				return false
			}
			return true
		})
		if res == "" {
			return "", fmt.Errorf("%s: no SetBPF call in %s", file, funcName)
		}
		return res, nil
	}
	return "", fmt.Errorf("%s: func %s not found", file, funcName)
}

type filterSite struct {
	File, Kind, Src, Dst string
}

// filterSitesOf lists the SetPacketFilter(packets.PacketFilterSpec{…}) calls of one file in source order.
func filterSitesOf(repo, rel string) ([]filterSite, error) {
	fset := token.NewFileSet()
	f, err := parser.ParseFile(fset, filepath.Join(repo, rel), nil, 0)
	if err != nil {
		return nil, err
	}
	var sites []filterSite
	var ferr error
	ast.Inspect(f, func(n ast.Node) bool {
		c, ok := n.(*ast.CallExpr)
		if !ok {
			return true
		}
		sel, ok := c.Fun.(*ast.SelectorExpr)
		if !ok || sel.Sel.Name != "SetPacketFilter" {
			return true
		}
		fail := func(msg string) bool {
			if ferr == nil {
				ferr = fmt.Errorf("%s: SetPacketFilter call at %s: %s", rel, fset.Position(c.Pos()), msg)
			}
			return false
		}
		if len(c.Args) != 1 {
			return fail("expected one argument")
		}
		cl, ok := c.Args[0].(*ast.CompositeLit)
		if !ok || exprText(fset, cl.Type) != "packets.PacketFilterSpec" {
			return fail("argument is not a packets.PacketFilterSpec{…} literal (the site table cannot be extracted)")
		}
		s := filterSite{File: rel, Kind: "FilterTypeNone"}
		for _, e := range cl.Elts {
			kv, ok := e.(*ast.KeyValueExpr)
			if !ok {
				return fail("positional PacketFilterSpec fields")
			}
			switch exprText(fset, kv.Key) {
			case "FilterType":
				t := exprText(fset, kv.Value)
				if !strings.HasPrefix(t, "packets.FilterType") {
					return fail("FilterType is not a packets.FilterType* constant: " + t)
				}
				s.Kind = strings.TrimPrefix(t, "packets.")
			case "FilterConfig":
				fc, ok := kv.Value.(*ast.CompositeLit)
				if !ok || exprText(fset, fc.Type) != "packets.FilterConfig" {
					return fail("FilterConfig is not a packets.FilterConfig{…} literal")
				}
				for _, e2 := range fc.Elts {
					kv2, ok := e2.(*ast.KeyValueExpr)
					if !ok {
						return fail("positional FilterConfig fields")
					}
					switch exprText(fset, kv2.Key) {
					case "Src":
						s.Src = exprText(fset, kv2.Value)
					case "Dst":
						s.Dst = exprText(fset, kv2.Value)
					default:
						return fail("unknown FilterConfig field " + exprText(fset, kv2.Key))
					}
				}
			default:
				return fail("unknown PacketFilterSpec field " + exprText(fset, kv.Key))
			}
		}
		sites = append(sites, s)
		return true
	})
	return sites, ferr
}

var filterKindLean = map[string]string{
	"FilterTypeNone": ".none", "FilterTypeICMP": ".icmp", "FilterTypeUDP": ".udp",
	"FilterTypeTCP": ".tcp", "FilterTypeSYNACK": ".synack",
}

func genFilters(repo string) (string, error) {
	static := []struct {
		lean, goVar string
		ft          packets.PacketFilterType
		doc         string
	}{
		{"icmp", "icmpFilter", packets.FilterTypeICMP, "VerifClassicBPF(FilterTypeICMP) — packets.icmpFilter"},
		{"udp", "udpFilter", packets.FilterTypeUDP, "VerifClassicBPF(FilterTypeUDP) — packets.udpFilter"},
		{"synack", "tcpSynackFilter", packets.FilterTypeSYNACK, "VerifClassicBPF(FilterTypeSYNACK) — packets.tcpSynackFilter"},
	}
	astTables, err := rawTablesFromAST(filepath.Join(repo, "packets", "cbpf_filters.go"))
	if err != nil {
		return "", err
	}
	var b strings.Builder
	b.WriteString("import TRV.Model.Bpf\n")
	b.WriteString("/-!\n# GENERATED by harness/extract (generator \"Filters\") — do not edit\n\n")
	b.WriteString("Classic-BPF capture filters dumped from the compiled `packets` package through\n")
	b.WriteString("`packets.VerifClassicBPF` (build tag `verif`), and the filter installation sites of the four\n")
	b.WriteString("traceroute variants (go/ast). Rewritten on every check run; `TRV.Props.C12` is proved about\n")
	b.WriteString("exactly these definitions.\n-/\n")
	b.WriteString("namespace TRV.Generated.Filters\nopen TRV.Bpf\n\n")

	// drop-all: linked variable, cross-checked with the source literal and its use
	if len(linkedDropAllFilter) == 0 {
		return "", fmt.Errorf("packets.dropAllFilter is empty or not linked")
	}
	if src, ok := astTables["dropAllFilter"]; !ok || !sameProg(src, linkedDropAllFilter) {
		return "", fmt.Errorf("packets.dropAllFilter: linked value %v differs from the literal in cbpf_filters.go %v", linkedDropAllFilter, src)
	}
	arg, err := firstSetBPFArg(filepath.Join(repo, "packets", "attach_linux.go"), "SetBPFAndDrain")
	if err != nil {
		return "", err
	}
	if arg != "dropAllFilter" {
		return "", fmt.Errorf("SetBPFAndDrain installs %q first, expected dropAllFilter", arg)
	}
	s, err := leanProgram("dropAll", "", "packets.dropAllFilter (installed by SetBPFAndDrain while the socket is drained)", linkedDropAllFilter, nil)
	if err != nil {
		return "", err
	}
	b.WriteString(s + "\n")

	for _, st := range static {
		prog, err := packets.VerifClassicBPF(packets.PacketFilterSpec{FilterType: st.ft})
		if err != nil {
			return "", fmt.Errorf("VerifClassicBPF(%s): %w", st.goVar, err)
		}
		// the static programs must not depend on the FilterConfig
		prog2, err := packets.VerifClassicBPF(packets.PacketFilterSpec{FilterType: st.ft, FilterConfig: packets.FilterConfig{
			Src: netip.MustParseAddrPort("203.0.113.9:443"), Dst: netip.MustParseAddrPort("198.51.100.200:33434")}})
		if err != nil || !sameProg(prog, prog2) {
			return "", fmt.Errorf("%s depends on the FilterConfig (err=%v)", st.goVar, err)
		}
		if src, ok := astTables[st.goVar]; ok && !sameProg(src, prog) {
			return "", fmt.Errorf("%s: compiled program differs from the literal parsed from cbpf_filters.go (AST reader out of date?)", st.goVar)
		}
		s, err := leanProgram(st.lean, "", st.doc, prog, nil)
		if err != nil {
			return "", err
		}
		b.WriteString(s + "\n")
	}

	tp, exprs, err := parameterizeTuple()
	if err != nil {
		return "", err
	}
	s, err = leanProgram("tcpTuple", " (srcAddr dstAddr srcPort dstPort : Nat)",
		"VerifClassicBPF(FilterTypeTCP, cfg) = cfg.GenerateTCP4Filter(), as a function of the configuration\n"+
			"    (srcAddr/dstAddr = big-endian value of the IPv4 address, ports as numbers); obtained from two\n"+
			"    byte-disjoint marker configurations whose dumps differ exactly in the four marked constants",
		tp, exprs)
	if err != nil {
		return "", err
	}
	b.WriteString(s + "\n")
	// error behaviour of the selection function (no program is installed in these cases)
	if _, err := packets.VerifClassicBPF(packets.PacketFilterSpec{FilterType: packets.FilterTypeNone}); err == nil {
		return "", fmt.Errorf("VerifClassicBPF(FilterTypeNone) returned a program")
	}
	if _, err := packets.VerifClassicBPF(packets.PacketFilterSpec{FilterType: packets.FilterTypeTCP, FilterConfig: packets.FilterConfig{
		Src: netip.MustParseAddrPort("[2001:db8::1]:443"), Dst: netip.MustParseAddrPort("[2001:db8::2]:33434")}}); err == nil {
		return "", fmt.Errorf("VerifClassicBPF(FilterTypeTCP) returned a program for an IPv6 tuple")
	}

	// installation sites
	files := []string{"icmp/traceroute_icmp.go", "udp/udp_traceroute.go", "tcp/tcp_traceroute.go", "sack/traceroute_sack.go"}
	sort.Strings(files)
	b.WriteString("/-- which `packets.PacketFilterType` a call site installs -/\n")
	b.WriteString("inductive FilterKind where\n  | none | icmp | udp | tcp | synack\nderiving Repr, DecidableEq\n\n")
	b.WriteString("/-- one `Source.SetPacketFilter(packets.PacketFilterSpec{…})` call: file, filter type, and the Go source\n")
	b.WriteString("    text of `FilterConfig.Src` / `FilterConfig.Dst` (empty = field not set) -/\n")
	b.WriteString("structure Site where\n  file : String\n  kind : FilterKind\n  src : String\n  dst : String\nderiving Repr, DecidableEq\n\n")
	b.WriteString("/-- all filter installation sites of the four variants, per file in source order -/\n")
	b.WriteString("def filterSites : List Site := [\n")
	var all []filterSite
	for _, rel := range files {
		ss, err := filterSitesOf(repo, rel)
		if err != nil {
			return "", err
		}
		if len(ss) == 0 {
			return "", fmt.Errorf("%s: no SetPacketFilter call found", rel)
		}
		all = append(all, ss...)
	}
	for i, st := range all {
		k, ok := filterKindLean[st.Kind]
		if !ok {
			return "", fmt.Errorf("%s: unknown filter type %s", st.File, st.Kind)
		}
		sep := ","
		if i == len(all)-1 {
			sep = "]"
		}
		fmt.Fprintf(&b, "  { file := %s, kind := %s, src := %s, dst := %s }%s\n", strconv.Quote(st.File), k, strconv.Quote(st.Src), strconv.Quote(st.Dst), sep)
	}
	b.WriteString("\n/-- the program `getClassicBPFFilter` selects for a filter type (`none`: `FilterTypeNone` is an\n")
	b.WriteString("    error there; `SetPacketFilter` detaches the filter instead, i.e. every frame passes) -/\n")
	b.WriteString("def programFor (k : FilterKind) (srcAddr dstAddr srcPort dstPort : Nat) : Option (List Instr) :=\n")
	b.WriteString("  match k with\n  | .none => none\n  | .icmp => some icmp\n  | .udp => some udp\n")
	b.WriteString("  | .tcp => some (tcpTuple srcAddr dstAddr srcPort dstPort)\n  | .synack => some synack\n\n")
	b.WriteString("end TRV.Generated.Filters\n")
	return b.String(), nil
}
