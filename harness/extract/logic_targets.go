package main

import (
	"go/ast"
)

// The translated units.  One generator (= one Lean module under lean/TRV/Generated) per package.

func assignsIndexOf(name string) func(ast.Stmt) bool {
	return func(s ast.Stmt) bool {
		ifs, ok := s.(*ast.IfStmt)
		if !ok {
			return false
		}
		for _, b := range ifs.Body.List {
			if as, ok := b.(*ast.AssignStmt); ok && len(as.Lhs) == 1 {
				if ix, ok := as.Lhs[0].(*ast.IndexExpr); ok {
					if id, ok := ix.X.(*ast.Ident); ok && id.Name == name {
						return true
					}
				}
			}
		}
		return false
	}
}

// firstIfMentioning picks the first `if` statement whose condition mentions the given field name.
func firstIfMentioning(field string) func(ast.Stmt) bool {
	return func(s ast.Stmt) bool {
		ifs, ok := s.(*ast.IfStmt)
		if !ok {
			return false
		}
		found := false
		ast.Inspect(ifs.Cond, func(n ast.Node) bool {
			if sel, ok := n.(*ast.SelectorExpr); ok && sel.Sel.Name == field {
				found = true
			}
			return !found
		})
		return found
	}
}

func init() {
	registerLogic(logicUnit{Name: "LogicIcmp", Dir: "icmp", Targets: []logicTarget{
		{Fn: "icmpDriver.handleProbeLayers", Lean: "handleProbeLayers"},
		{Fn: "icmpDriver.getRTTFromRelSeq", Lean: "getRTTFromRelSeq"},
		{Fn: "nextEchoID", Lean: "nextEchoID"},
	}})
	registerLogic(logicUnit{Name: "LogicUdp", Dir: "udp", Targets: []logicTarget{
		{Fn: "udpDriver.handleProbeLayers", Lean: "handleProbeLayers"},
	}})
	registerLogic(logicUnit{Name: "LogicTcp", Dir: "tcp", Targets: []logicTarget{
		{Fn: "tcpDriver.handleProbeLayers", Lean: "handleProbeLayers"},
		{Fn: "tcpDriver.getNextPacketIDAndSeqNum", Lean: "getNextPacketIDAndSeqNum"},
	}})
	registerLogic(logicUnit{Name: "LogicSack", Dir: "sack", Targets: []logicTarget{
		{Fn: "sackDriver.handleProbeLayers", Lean: "handleProbeLayers"},
		{Fn: "sackDriver.getRTTFromRelSeq", Lean: "getRTTFromRelSeq"},
		{Fn: "getMinSack", Lean: "getMinSackStep", LoopStep: true, Pick: func(s ast.Stmt) bool {
			fs, ok := s.(*ast.ForStmt)
			return ok && fs.Init != nil && fs.Cond != nil && fs.Post != nil
		}},
	}})
	registerLogic(logicUnit{Name: "LogicRunner", Dir: "traceroute", Targets: []logicTarget{
		{Fn: "performTCPFallback", Lean: "performTCPFallback"},
		{Fn: "runE2eProbeOnce", Lean: "runE2eProbeOnce"},
		{Fn: "runTracerouteOnce", Lean: "ttlGuard", Pick: firstIfMentioning("MinTTL")},
	}})
	registerLogic(logicUnit{Name: "LogicPackets", Dir: "packets", Targets: []logicTarget{
		{Fn: "AllocPacketID", Lean: "AllocPacketID"},
		{Fn: "stripEthernetHeader", Lean: "stripEthernetHeader"},
		{Fn: "ReadAndParse", Lean: "ReadAndParse"},
		{Fn: "FrameParser.GetICMPInfo", Lean: "GetICMPInfo"},
		{Fn: "FrameParser.Parse", Lean: "Parse"},
		{Fn: "FrameParser.getParser", Lean: "getParser"},
		{Fn: "ParseTCPFirstBytes", Lean: "ParseTCPFirstBytes"},
		{Fn: "ParseUDPFirstBytes", Lean: "ParseUDPFirstBytes"},
		{Fn: "FrameParser.IsTTLExceeded", Lean: "IsTTLExceeded"},
		{Fn: "FrameParser.IsDestinationUnreachable", Lean: "IsDestinationUnreachable"},
	}})
	registerLogic(logicUnit{Name: "LogicCommon", Dir: "common", Targets: []logicTarget{
		{Fn: "TracerouteParams.validate", Lean: "validate"},
		{Fn: "TracerouteParams.validateProbe", Lean: "validateProbe"},
		{Fn: "TracerouteParams.ProbeCount", Lean: "ProbeCount"},
		{Fn: "TracerouteParallelParams.MaxTimeout", Lean: "MaxTimeout"},
		{Fn: "TracerouteParallel/writeProbe", Lean: "writeProbe"},
		{Fn: "TracerouteSerial", Lean: "serialWrite", Pick: assignsIndexOf("results")},
		{Fn: "clipResults", Lean: "clipResults"},
		{Fn: "CheckProbeRetryable", Lean: "CheckProbeRetryable"},
	}})
}
