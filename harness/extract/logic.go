package main

// Generators "Logic*": a small Go → Lean translator for the DECISION LOGIC of selected functions.
//
// A target function (or a closure assigned to a local variable, or one picked statement) is executed
// symbolically, statement by statement, into a Lean term: a tree of `if … then … else …` whose
// leaves record the return values and the side effects performed on that path.  The translator
// understands
//
//   - control flow: blocks, if/else (with init statements), switch (tag and tag-less), return,
//     assignments to locals (substituted: a local variable never appears in the output, only the
//     expression that defined it, so renaming a local changes nothing), ++/--, op=
//   - booleans: && || ! == != on booleans, comparisons of integers
//   - integers WITH THEIR GO TYPE (taken from go/types, imports read from compiler export data):
//     unsigned types are Lean `Nat` with an explicit `% 2^w` after + - * and after narrowing
//     conversions, signed types are Lean `Int` (64-bit overflow is not modelled); typed and untyped
//     constants are evaluated (`layers.ICMPv4TypeTimeExceeded` becomes `11`)
//
// Everything else — calls, field reads, comparisons of addresses, nil tests — becomes an ATOM: a field
// of the generated structure `Atoms` whose NAME is the canonical Go text of the expression
// (`«parser.GetICMPInfo().0.ICMPPair.DstAddr.Compare(s.params.Target)»`), of type Bool, Nat or Int.
// The hand-written side (lean/TRV/Proofs/Logic*.lean) must build an `Atoms` value from the model's
// state BY FIELD NAME and prove that the model's function equals the interpretation of the generated
// one for every input; if the code changes which field is compared, which constant is used, the
// order or polarity of a decisive test, an integer width or a conversion, either the structure no
// longer has the fields the proof names (it does not compile) or the equivalence is false (it does
// not prove).  Loops, goroutines, select, labels and type switches are not translated: a target
// containing them is a generation error (reported as a stale table by ./check).

import (
	"bytes"
	"encoding/json"
	"fmt"
	"go/ast"
	"go/build"
	"go/constant"
	"go/importer"
	"go/parser"
	"go/printer"
	"go/token"
	"go/types"
	"io"
	"os"
	"os/exec"
	"path/filepath"
	"regexp"
	"sort"
	"strings"
)

// logicTarget names one translated unit.
type logicTarget struct {
	Fn   string // "Func", "Recv.Method", or "Func/closureVar"
	Lean string // Lean namespace of the unit
	// Pick, when set, selects ONE statement inside Fn (first match in source order); only that
	// statement is translated, free locals being replaced by their single definition where there is one.
	Pick func(n ast.Stmt) bool
	// LoopStep: the picked statement is a 3-clause `for` loop; ONE ITERATION is translated:
	// `if cond { body; post } else { exit }`.  Variables declared outside the loop are inputs (atoms by
	// name); what the iteration assigns to them is returned as `"<name>'"` entries of the leaf.
	LoopStep bool
}

type logicUnit struct {
	Name    string // generator name = Lean module name
	Dir     string // package directory relative to the repository root
	Targets []logicTarget
}

var logicUnits = []logicUnit{}

func registerLogic(u logicUnit) {
	logicUnits = append(logicUnits, u)
	generators[u.Name] = func(repo string) (string, error) { return genLogic(repo, u) }
}

// ---------------------------------------------------------------------------------------------
// loading one package with full type information

type logicPkg struct {
	fset  *token.FileSet
	files []*ast.File
	info  *types.Info
	pkg   *types.Package
}

var exportCache = map[string]map[string]string{}

func exportFiles(repo, dir string) (map[string]string, error) {
	key := repo + "|" + dir
	if m, ok := exportCache[key]; ok {
		return m, nil
	}
	cmd := exec.Command("go", "list", "-export", "-deps", "-json=ImportPath,Export", "./"+dir)
	cmd.Dir = repo
	var errb bytes.Buffer
	cmd.Stderr = &errb
	out, err := cmd.Output()
	if err != nil {
		return nil, fmt.Errorf("go list -export ./%s: %v: %s", dir, err, errb.String())
	}
	m := map[string]string{}
	dec := json.NewDecoder(bytes.NewReader(out))
	for dec.More() {
		var p struct{ ImportPath, Export string }
		if err := dec.Decode(&p); err != nil {
			return nil, err
		}
		if p.Export != "" {
			m[p.ImportPath] = p.Export
		}
	}
	exportCache[key] = m
	return m, nil
}

func loadLogicPkg(repo, dir string) (*logicPkg, error) {
	exp, err := exportFiles(repo, dir)
	if err != nil {
		return nil, err
	}
	fset := token.NewFileSet()
	ctx := build.Default
	ctx.GOOS, ctx.GOARCH, ctx.BuildTags, ctx.CgoEnabled = "linux", "amd64", nil, false
	abs := filepath.Join(repo, dir)
	ents, err := os.ReadDir(abs)
	if err != nil {
		return nil, err
	}
	var files []*ast.File
	for _, e := range ents {
		n := e.Name()
		if e.IsDir() || !strings.HasSuffix(n, ".go") || strings.HasSuffix(n, "_test.go") {
			continue
		}
		if ok, _ := ctx.MatchFile(abs, n); !ok {
			continue
		}
		f, err := parser.ParseFile(fset, filepath.Join(abs, n), nil, 0)
		if err != nil {
			return nil, err
		}
		files = append(files, f)
	}
	imp := importer.ForCompiler(fset, "gc", func(path string) (io.ReadCloser, error) {
		p, ok := exp[path]
		if !ok {
			return nil, fmt.Errorf("no export data for %s", path)
		}
		return os.Open(p)
	})
	info := &types.Info{Types: map[ast.Expr]types.TypeAndValue{}, Defs: map[*ast.Ident]types.Object{}, Uses: map[*ast.Ident]types.Object{}, Selections: map[*ast.SelectorExpr]*types.Selection{}}
	var terrs []string
	conf := types.Config{Importer: imp, Error: func(err error) { terrs = append(terrs, err.Error()) }}
	pkg, _ := conf.Check(dir, fset, files, info)
	if len(terrs) > 0 {
		return nil, fmt.Errorf("type errors in %s: %s", dir, strings.Join(terrs[:min(3, len(terrs))], "; "))
	}
	return &logicPkg{fset, files, info, pkg}, nil
}

// ---------------------------------------------------------------------------------------------
// symbolic values

type lsort int

const (
	sOpaque lsort = iota
	sBool
	sNat // unsigned Go integer of `width` bits
	sInt // signed Go integer
	sBytes // []byte: a Lean `Bytes` (list of octets)
)

type lval struct {
	sort  lsort
	width int
	lean  string // Lean expression (sBool, sNat, sInt)
	text  string // canonical Go text (always set)
	tuple []lval // components of a multi-value call result
	cst   constant.Value // set for compile-time constants (also of variables assigned a constant)
	src   ast.Expr       // the composite literal a local was defined by (returned records are flattened through it)
}

type latom struct {
	name string
	sort lsort
}

type ltrans struct {
	p      *logicPkg
	atoms  map[string]lsort
	order  []string
	locals map[types.Object]bool // objects declared inside the translated unit (incl. parameters are NOT here)
	errs   []string
	loopStep bool
}

func (t *ltrans) errf(pos token.Pos, f string, a ...any) {
	t.errs = append(t.errs, fmt.Sprintf("%s: %s", t.p.fset.Position(pos), fmt.Sprintf(f, a...)))
}

var wsRe = regexp.MustCompile(`\s+`)

func leanQuote(s string) string {
	s = wsRe.ReplaceAllString(s, " ")
	s = strings.ReplaceAll(s, "»", ">>")
	s = strings.ReplaceAll(s, "«", "<<")
	return "«" + s + "»"
}

func (t *ltrans) atom(text string, s lsort, width int) lval {
	text = wsRe.ReplaceAllString(text, " ")
	if old, ok := t.atoms[text]; ok && old != s {
		t.errs = append(t.errs, "atom "+text+" used at two sorts")
	}
	if _, ok := t.atoms[text]; !ok {
		t.atoms[text] = s
		t.order = append(t.order, text)
	}
	return lval{sort: s, width: width, lean: "a." + leanQuote(text), text: text}
}

func sortOfType(ty types.Type) (lsort, int) {
	if ty == nil {
		return sOpaque, 0
	}
	if sl, ok := ty.Underlying().(*types.Slice); ok {
		if eb, ok := sl.Elem().Underlying().(*types.Basic); ok && eb.Kind() == types.Uint8 {
			return sBytes, 0
		}
	}
	b, ok := ty.Underlying().(*types.Basic)
	if !ok {
		return sOpaque, 0
	}
	switch b.Kind() {
	case types.Bool, types.UntypedBool:
		return sBool, 0
	case types.Uint8:
		return sNat, 8
	case types.Uint16:
		return sNat, 16
	case types.Uint32:
		return sNat, 32
	case types.Uint64, types.Uint, types.Uintptr:
		return sNat, 64
	case types.Int8:
		return sInt, 8
	case types.Int16:
		return sInt, 16
	case types.Int32:
		return sInt, 32
	case types.Int, types.Int64, types.UntypedInt, types.UntypedRune:
		return sInt, 64
	}
	return sOpaque, 0
}

type lenv map[types.Object]lval

func (e lenv) clone() lenv {
	n := make(lenv, len(e))
	for k, v := range e {
		n[k] = v
	}
	return n
}

// byType wraps canonical text as a value of the sort the Go type dictates.
func (t *ltrans) byType(text string, ty types.Type) lval {
	s, w := sortOfType(ty)
	if s == sOpaque {
		v := lval{sort: sOpaque, text: text}
		if tup, ok := ty.(*types.Tuple); ok {
			for i := 0; i < tup.Len(); i++ {
				v.tuple = append(v.tuple, t.byType(fmt.Sprintf("%s.%d", text, i), tup.At(i).Type()))
			}
		}
		return v
	}
	return t.atom(text, s, w)
}

func pow2(w int) string {
	switch w {
	case 8:
		return "256"
	case 16:
		return "65536"
	case 32:
		return "4294967296"
	}
	return "18446744073709551616"
}

func (t *ltrans) text(e ast.Expr, env lenv) string {
	switch x := e.(type) {
	case *ast.Ident:
		if obj := t.p.info.Uses[x]; obj != nil {
			if v, ok := env[obj]; ok {
				return v.text
			}
		}
		return x.Name
	case *ast.ParenExpr:
		return "(" + t.text(x.X, env) + ")"
	case *ast.SelectorExpr:
		return t.text(x.X, env) + "." + x.Sel.Name
	case *ast.StarExpr:
		return "*" + t.text(x.X, env)
	case *ast.UnaryExpr:
		return x.Op.String() + t.text(x.X, env)
	case *ast.BinaryExpr:
		return t.text(x.X, env) + " " + x.Op.String() + " " + t.text(x.Y, env)
	case *ast.IndexExpr:
		return t.text(x.X, env) + "[" + t.text(x.Index, env) + "]"
	case *ast.SliceExpr:
		s := t.text(x.X, env) + "["
		if x.Low != nil {
			s += t.text(x.Low, env)
		}
		s += ":"
		if x.High != nil {
			s += t.text(x.High, env)
		}
		if x.Max != nil {
			s += ":" + t.text(x.Max, env)
		}
		return s + "]"
	case *ast.CallExpr:
		var as []string
		for _, a := range x.Args {
			as = append(as, t.text(a, env))
		}
		return t.text(x.Fun, env) + "(" + strings.Join(as, ", ") + ")"
	case *ast.TypeAssertExpr:
		return t.text(x.X, env) + ".(" + t.raw(x.Type) + ")"
	case *ast.KeyValueExpr:
		return t.text(x.Key, env) + ": " + t.text(x.Value, env)
	case *ast.CompositeLit:
		var as []string
		for _, a := range x.Elts {
			as = append(as, t.text(a, env))
		}
		ty := ""
		if x.Type != nil {
			ty = t.raw(x.Type)
		}
		return ty + "{" + strings.Join(as, ", ") + "}"
	}
	return t.raw(e)
}

func (t *ltrans) raw(n ast.Node) string {
	var b bytes.Buffer
	printer.Fprint(&b, t.p.fset, n)
	return wsRe.ReplaceAllString(b.String(), " ")
}

func (t *ltrans) toInt(v lval) string {
	if v.sort == sNat {
		return "((" + v.lean + " : Nat) : Int)"
	}
	return v.lean
}

// eval translates an expression.
func (t *ltrans) eval(e ast.Expr, env lenv) lval {
	tv := t.p.info.Types[e]
	if tv.Value != nil {
		s, w := sortOfType(tv.Type)
		switch tv.Value.Kind() {
		case constant.Bool:
			return lval{sort: sBool, lean: fmt.Sprint(constant.BoolVal(tv.Value)), text: fmt.Sprint(constant.BoolVal(tv.Value))}
		case constant.Int:
			str := tv.Value.ExactString()
			if s == sNat {
				return lval{sort: sNat, width: w, lean: "(" + str + " : Nat)", text: str}
			}
			if s == sInt {
				return lval{sort: sInt, width: w, lean: "(" + str + " : Int)", text: str}
			}
		}
		return lval{sort: sOpaque, text: t.text(e, env), cst: tv.Value}
	}
	switch x := e.(type) {
	case *ast.ParenExpr:
		return t.eval(x.X, env)
	case *ast.Ident:
		if x.Name == "nil" {
			return lval{sort: sOpaque, text: "nil"}
		}
		if obj := t.p.info.Uses[x]; obj != nil {
			if v, ok := env[obj]; ok {
				return v
			}
		}
		return t.byType(x.Name, tv.Type)
	case *ast.UnaryExpr:
		switch x.Op {
		case token.NOT:
			v := t.eval(x.X, env)
			if v.sort == sBool {
				return lval{sort: sBool, lean: "(!" + v.lean + ")", text: "!" + v.text}
			}
		case token.SUB:
			v := t.eval(x.X, env)
			if v.sort == sInt {
				return lval{sort: sInt, width: v.width, lean: "(-" + v.lean + ")", text: "-" + v.text}
			}
		}
		return t.byType(t.text(e, env), tv.Type)
	case *ast.BinaryExpr:
		return t.binary(x, env, tv.Type)
	case *ast.CallExpr:
		if ftv, ok := t.p.info.Types[x.Fun]; ok && ftv.IsType() && len(x.Args) == 1 {
			return t.convert(x, env, tv.Type)
		}
		fn := t.raw(x.Fun)
		if len(x.Args) == 1 && (fn == "len" || fn == "binary.BigEndian.Uint16" || fn == "binary.BigEndian.Uint32") {
			if st, _ := sortOfType(t.p.info.TypeOf(x.Args[0])); st != sBytes {
				return t.byType(t.text(e, env), tv.Type)
			}
			if a := t.eval(x.Args[0], env); a.sort == sBytes {
				switch fn {
				case "len":
					return lval{sort: sInt, width: 64, lean: "((" + a.lean + ".length : Nat) : Int)", text: t.text(e, env)}
				case "binary.BigEndian.Uint16":
					return lval{sort: sNat, width: 16, lean: "(TRV.Logic.be " + a.lean + " 2)", text: t.text(e, env)}
				case "binary.BigEndian.Uint32":
					return lval{sort: sNat, width: 32, lean: "(TRV.Logic.be " + a.lean + " 4)", text: t.text(e, env)}
				}
			}
		}
		return t.byType(t.text(e, env), tv.Type)
	case *ast.SliceExpr:
		// constant-bounded sub-slices of octet strings
		if b := t.eval(x.X, env); b.sort == sBytes && x.Max == nil {
			lo, hi := "0", ""
			okc := true
			if x.Low != nil {
				if v := t.p.info.Types[x.Low].Value; v != nil {
					lo = v.ExactString()
				} else {
					okc = false
				}
			}
			if x.High != nil {
				if v := t.p.info.Types[x.High].Value; v != nil {
					hi = v.ExactString()
				} else {
					okc = false
				}
			}
			if okc {
				l := "(" + b.lean + ".drop " + lo + ")"
				if hi != "" {
					l = "(" + l + ".take (" + hi + " - " + lo + "))"
				}
				return lval{sort: sBytes, lean: l, text: t.text(e, env)}
			}
		}
		return t.byType(t.text(e, env), tv.Type)
	}
	return t.byType(t.text(e, env), tv.Type)
}

func (t *ltrans) convert(x *ast.CallExpr, env lenv, to types.Type) lval {
	v := t.eval(x.Args[0], env)
	s, w := sortOfType(to)
	text := t.text(x, env)
	if s == sOpaque || s == sBool || (v.sort != sNat && v.sort != sInt) {
		return t.byType(text, to)
	}
	switch {
	case s == sNat && v.sort == sNat:
		if v.width <= w {
			return lval{sort: sNat, width: w, lean: v.lean, text: text}
		}
		return lval{sort: sNat, width: w, lean: "(" + v.lean + " % " + pow2(w) + ")", text: text}
	case s == sNat && v.sort == sInt:
		return lval{sort: sNat, width: w, lean: "(" + v.lean + " % " + pow2(w) + ").toNat", text: text}
	case s == sInt && v.sort == sNat:
		// uintN → a signed type at least as wide as N+1 bits keeps the value; narrower ones are not needed here
		if v.width >= w {
			t.errs = append(t.errs, "unsupported narrowing conversion to a signed type: "+text)
		}
		return lval{sort: sInt, width: w, lean: t.toInt(v), text: text}
	default: // signed → signed
		if v.width > w {
			t.errs = append(t.errs, "unsupported narrowing conversion between signed types: "+text)
		}
		return lval{sort: sInt, width: w, lean: v.lean, text: text}
	}
}

func (t *ltrans) binary(x *ast.BinaryExpr, env lenv, ty types.Type) lval {
	text := t.text(x, env)
	switch x.Op {
	case token.LAND, token.LOR:
		l, r := t.eval(x.X, env), t.eval(x.Y, env)
		if l.sort == sBool && r.sort == sBool {
			op := " && "
			if x.Op == token.LOR {
				op = " || "
			}
			return lval{sort: sBool, lean: "(" + l.lean + op + r.lean + ")", text: text}
		}
	case token.EQL, token.NEQ, token.LSS, token.LEQ, token.GTR, token.GEQ:
		l, r := t.eval(x.X, env), t.eval(x.Y, env)
		num := func(v lval) bool { return v.sort == sNat || v.sort == sInt }
		if num(l) && num(r) {
			ls, rs := l.lean, r.lean
			if l.sort != r.sort {
				ls, rs = t.toInt(l), t.toInt(r)
			}
			op := map[token.Token]string{token.EQL: "==", token.NEQ: "!=", token.LSS: "<", token.LEQ: "≤", token.GTR: ">", token.GEQ: "≥"}[x.Op]
			if x.Op == token.EQL || x.Op == token.NEQ {
				return lval{sort: sBool, lean: "(" + ls + " " + op + " " + rs + ")", text: text}
			}
			return lval{sort: sBool, lean: "(decide (" + ls + " " + op + " " + rs + "))", text: text}
		}
		if l.cst != nil && r.cst != nil && l.cst.Kind() == constant.String && r.cst.Kind() == constant.String && (x.Op == token.EQL || x.Op == token.NEQ) {
			// both sides are known strings (a variable that was assigned a constant counts)
			v := constant.Compare(l.cst, x.Op, r.cst)
			return lval{sort: sBool, lean: fmt.Sprint(v), text: text}
		}
		if l.sort == sBool && r.sort == sBool && (x.Op == token.EQL || x.Op == token.NEQ) {
			op := "=="
			if x.Op == token.NEQ {
				op = "!="
			}
			return lval{sort: sBool, lean: "(" + l.lean + " " + op + " " + r.lean + ")", text: text}
		}
		if l.text == "nil" && r.text == "nil" && (x.Op == token.EQL || x.Op == token.NEQ) {
			// a variable that was assigned nil, compared with nil
			return lval{sort: sBool, lean: fmt.Sprint(x.Op == token.EQL), text: text}
		}
		if x.Op == token.NEQ {
			// normalise: a != b is the negation of the atom a == b
			v := t.atom(l.text+" == "+r.text, sBool, 0)
			return lval{sort: sBool, lean: "(!" + v.lean + ")", text: text}
		}
		if x.Op == token.EQL {
			return t.atom(l.text+" == "+r.text, sBool, 0)
		}
	case token.ADD, token.SUB, token.MUL:
		l, r := t.eval(x.X, env), t.eval(x.Y, env)
		s, w := sortOfType(ty)
		if s == sNat && l.sort == sNat && r.sort == sNat {
			m := pow2(w)
			switch x.Op {
			case token.ADD:
				return lval{sort: sNat, width: w, lean: "((" + l.lean + " + " + r.lean + ") % " + m + ")", text: text}
			case token.SUB:
				return lval{sort: sNat, width: w, lean: "((" + l.lean + " % " + m + " + " + m + " - " + r.lean + " % " + m + ") % " + m + ")", text: text}
			default:
				return lval{sort: sNat, width: w, lean: "((" + l.lean + " * " + r.lean + ") % " + m + ")", text: text}
			}
		}
		if s == sInt && l.sort == sInt && r.sort == sInt {
			return lval{sort: sInt, width: w, lean: "(" + l.lean + " " + x.Op.String() + " " + r.lean + ")", text: text}
		}
	}
	return t.byType(text, ty)
}

// ---------------------------------------------------------------------------------------------
// statements

func leanStr(s string) string {
	s = wsRe.ReplaceAllString(s, " ")
	s = strings.ReplaceAll(s, `\`, `\\`)
	s = strings.ReplaceAll(s, `"`, `\"`)
	return `"` + s + `"`
}

var ignoredCall = regexp.MustCompile(`^(log\.[A-Za-z]+|.*\.(Lock|Unlock|RLock|RUnlock))$`)

func isErrorType(ty types.Type) bool {
	if ty == nil {
		return false
	}
	if ty.String() == "error" {
		return true
	}
	n := ty.String()
	return strings.HasSuffix(strings.TrimPrefix(n, "*"), "Error")
}

func (t *ltrans) retVals(prefix string, e ast.Expr, env lenv, depth int) []string {
	if id, ok := e.(*ast.Ident); ok {
		if obj := t.p.info.Uses[id]; obj != nil {
			if v, ok := env[obj]; ok && v.src != nil {
				e = v.src // a local that holds a record built in place: flatten the record
			}
		}
	}
	tv := t.p.info.Types[e]
	if id, ok := e.(*ast.Ident); ok && id.Name == "nil" {
		return []string{fmt.Sprintf("(%s, V.nil)", leanStr(prefix))}
	}
	inner := e
	if u, ok := e.(*ast.UnaryExpr); ok && u.Op == token.AND {
		inner = u.X
	}
	if cl, ok := inner.(*ast.CompositeLit); ok {
		tyName := ""
		if cl.Type != nil {
			tyName = t.raw(cl.Type)
		}
		if strings.HasSuffix(tyName, "Error") {
			return []string{fmt.Sprintf("(%s, V.err %s)", leanStr(prefix), leanStr(tyName))}
		}
		if _, isStruct := t.p.info.Types[cl].Type.Underlying().(*types.Struct); isStruct && depth == 0 {
			out := []string{fmt.Sprintf("(%s, V.ref %s)", leanStr(prefix), leanStr("new "+tyName))}
			for _, el := range cl.Elts {
				kv, ok := el.(*ast.KeyValueExpr)
				if !ok {
					return []string{fmt.Sprintf("(%s, V.ref %s)", leanStr(prefix), leanStr(t.text(e, env)))}
				}
				out = append(out, t.retVals(prefix+"."+t.raw(kv.Key), kv.Value, env, depth+1)...)
			}
			return out
		}
	}
	if c, ok := e.(*ast.CallExpr); ok {
		fn := t.raw(c.Fun)
		if fn == "fmt.Errorf" || fn == "errors.New" {
			kind := fn
			if len(c.Args) > 0 {
				if lit, ok := c.Args[0].(*ast.BasicLit); ok && strings.Contains(lit.Value, "%w") {
					var ws []string
					for _, a := range c.Args[1:] {
						if isErrorType(t.p.info.Types[a].Type) {
							ws = append(ws, t.eval(a, env).text)
						}
					}
					kind = "fmt.Errorf %w " + strings.Join(ws, ",")
				}
			}
			return []string{fmt.Sprintf("(%s, V.err %s)", leanStr(prefix), leanStr(kind))}
		}
	}
	v := t.eval(e, env)
	switch v.sort {
	case sBool:
		return []string{fmt.Sprintf("(%s, V.bool %s)", leanStr(prefix), v.lean)}
	case sNat, sInt:
		return []string{fmt.Sprintf("(%s, V.int %s)", leanStr(prefix), t.toInt(v))}
	}
	if len(v.tuple) > 0 {
		var out []string
		for i, c := range v.tuple {
			switch c.sort {
			case sBool:
				out = append(out, fmt.Sprintf("(%s, V.bool %s)", leanStr(fmt.Sprintf("%s%d", prefix, i)), c.lean))
			case sNat, sInt:
				out = append(out, fmt.Sprintf("(%s, V.int %s)", leanStr(fmt.Sprintf("%s%d", prefix, i)), t.toInt(c)))
			default:
				out = append(out, fmt.Sprintf("(%s, V.ref %s)", leanStr(fmt.Sprintf("%s%d", prefix, i)), leanStr(c.text)))
			}
		}
		return out
	}
	if isErrorType(tv.Type) {
		return []string{fmt.Sprintf("(%s, V.err %s)", leanStr(prefix), leanStr(v.text))}
	}
	return []string{fmt.Sprintf("(%s, V.ref %s)", leanStr(prefix), leanStr(v.text))}
}

func (t *ltrans) leaf(effects []string, rets []string) string {
	var es []string
	for _, e := range effects {
		if strings.HasPrefix(e, "\x00OUT:") {
			parts := strings.SplitN(e[len("\x00OUT:"):], "\x00", 2)
			rets = append(rets, fmt.Sprintf("(%s, %s)", leanStr(parts[0]+"'"), parts[1]))
			continue
		}
		es = append(es, leanStr(e))
	}
	return "⟨[" + strings.Join(es, ", ") + "], [" + strings.Join(rets, ", ") + "]⟩"
}

func ind(n int) string { return strings.Repeat("  ", n) }

func (t *ltrans) assign(lhs ast.Expr, v lval, env lenv, effects *[]string, rhsText string) {
	if id, ok := lhs.(*ast.Ident); ok {
		if id.Name == "_" {
			return
		}
		obj := t.p.info.Defs[id]
		if obj == nil {
			obj = t.p.info.Uses[id]
		}
		if obj != nil && t.locals[obj] {
			env[obj] = v
			return
		}
	}
	if id, ok := lhs.(*ast.Ident); ok && t.loopStep {
		if obj := t.p.info.Uses[id]; obj != nil {
			if _, isVar := obj.(*types.Var); isVar && obj.Pkg() == t.p.pkg && obj.Parent() != t.p.pkg.Scope() {
				// a variable of the enclosing function, assigned by the iteration: an OUTPUT of the step;
				// later reads inside the same iteration see the new value
				env[obj] = v
				out := ""
				switch v.sort {
				case sBool:
					out = "V.bool " + v.lean
				case sNat, sInt:
					out = "V.int " + t.toInt(v)
				case sBytes:
					out = "V.ref " + leanStr(v.text)
				default:
					out = "V.ref " + leanStr(v.text)
				}
				// the latest assignment wins
				var kept []string
				for _, e := range *effects {
					if !strings.HasPrefix(e, "\x00OUT:"+id.Name+"\x00") {
						kept = append(kept, e)
					}
				}
				*effects = append(kept, "\x00OUT:"+id.Name+"\x00"+out)
				return
			}
		}
	}
	*effects = append(*effects, t.text(lhs, env)+" = "+rhsText)
}

func (t *ltrans) exec(stmts []ast.Stmt, env lenv, effects []string, depth int) string {
	if len(t.errs) > 0 {
		return "default"
	}
	if len(stmts) == 0 {
		return t.leaf(effects, nil)
	}
	s, rest := stmts[0], stmts[1:]
	switch x := s.(type) {
	case *ast.BlockStmt:
		return t.exec(append(append([]ast.Stmt{}, x.List...), rest...), env, effects, depth)
	case *ast.EmptyStmt:
		return t.exec(rest, env, effects, depth)
	case *ast.ReturnStmt:
		var rets []string
		for i, r := range x.Results {
			prefix := fmt.Sprint(i)
			if len(x.Results) == 1 {
				if _, isTuple := t.p.info.TypeOf(r).(*types.Tuple); isTuple {
					prefix = "" // `return f()`: the components are the return values
				}
			}
			rets = append(rets, t.retVals(prefix, r, env, 0)...)
		}
		return t.leaf(effects, rets)
	case *ast.ExprStmt:
		if c, ok := x.X.(*ast.CallExpr); ok && ignoredCall.MatchString(t.raw(c.Fun)) {
			return t.exec(rest, env, effects, depth)
		}
		return t.exec(rest, env, append(append([]string{}, effects...), t.text(x.X, env)), depth)
	case *ast.DeferStmt:
		if ignoredCall.MatchString(t.raw(x.Call.Fun)) {
			return t.exec(rest, env, effects, depth)
		}
		return t.exec(rest, env, append(append([]string{}, effects...), "defer "+t.text(x.Call, env)), depth)
	case *ast.DeclStmt:
		gd, ok := x.Decl.(*ast.GenDecl)
		if !ok || gd.Tok != token.VAR {
			return t.exec(rest, env, effects, depth)
		}
		env = env.clone()
		for _, sp := range gd.Specs {
			vs := sp.(*ast.ValueSpec)
			for i, n := range vs.Names {
				obj := t.p.info.Defs[n]
				t.locals[obj] = true
				if i < len(vs.Values) {
					env[obj] = t.eval(vs.Values[i], env)
					continue
				}
				st, w := sortOfType(obj.Type())
				switch st {
				case sBool:
					env[obj] = lval{sort: sBool, lean: "false", text: "false"}
				case sNat:
					env[obj] = lval{sort: sNat, width: w, lean: "(0 : Nat)", text: "0"}
				case sInt:
					env[obj] = lval{sort: sInt, width: w, lean: "(0 : Int)", text: "0"}
				default:
					env[obj] = lval{sort: sOpaque, text: "zero(" + obj.Type().String() + ")"}
				}
			}
		}
		return t.exec(rest, env, effects, depth)
	case *ast.AssignStmt:
		env = env.clone()
		eff := append([]string{}, effects...)
		if x.Tok == token.DEFINE {
			for _, l := range x.Lhs {
				if id, ok := l.(*ast.Ident); ok {
					if obj := t.p.info.Defs[id]; obj != nil {
						t.locals[obj] = true
					}
				}
			}
		}
		switch {
		case x.Tok != token.ASSIGN && x.Tok != token.DEFINE:
			// op=
			op := map[token.Token]token.Token{token.ADD_ASSIGN: token.ADD, token.SUB_ASSIGN: token.SUB, token.MUL_ASSIGN: token.MUL}[x.Tok]
			if op == 0 || len(x.Lhs) != 1 {
				t.errf(x.Pos(), "unsupported assignment operator %s", x.Tok)
				return "default"
			}
			be := &ast.BinaryExpr{X: x.Lhs[0], Op: op, Y: x.Rhs[0]}
			t.p.info.Types[be] = t.p.info.Types[x.Lhs[0]]
			v := t.binary(be, env, t.p.info.Types[x.Lhs[0]].Type)
			t.assign(x.Lhs[0], v, env, &eff, v.text)
		case len(x.Lhs) == len(x.Rhs):
			vals := make([]lval, len(x.Rhs))
			for i, r := range x.Rhs {
				vals[i] = t.eval(r, env)
				inner := r
				if u, ok := r.(*ast.UnaryExpr); ok && u.Op == token.AND {
					inner = u.X
				}
				if _, ok := inner.(*ast.CompositeLit); ok && vals[i].sort == sOpaque {
					vals[i].src = r
				}
			}
			for i, l := range x.Lhs {
				t.assign(l, vals[i], env, &eff, vals[i].text)
			}
		case len(x.Rhs) == 1:
			v := t.eval(x.Rhs[0], env)
			if len(v.tuple) != len(x.Lhs) {
				// comma-ok forms: type assertion, map index, channel receive
				v.tuple = nil
				for i, l := range x.Lhs {
					ty := t.p.info.TypeOf(l)
					if id, ok := l.(*ast.Ident); ok && id.Name == "_" {
						ty = nil
					}
					v.tuple = append(v.tuple, t.byTypeLazy(fmt.Sprintf("%s.%d", v.text, i), ty))
				}
			}
			for i, l := range x.Lhs {
				t.assign(l, v.tuple[i], env, &eff, v.tuple[i].text)
			}
		default:
			t.errf(x.Pos(), "unsupported assignment shape")
			return "default"
		}
		return t.exec(rest, env, eff, depth)
	case *ast.IncDecStmt:
		env = env.clone()
		eff := append([]string{}, effects...)
		op := token.ADD
		if x.Tok == token.DEC {
			op = token.SUB
		}
		one := &ast.BasicLit{Kind: token.INT, Value: "1"}
		t.p.info.Types[one] = types.TypeAndValue{Type: t.p.info.TypeOf(x.X), Value: constant.MakeInt64(1)}
		be := &ast.BinaryExpr{X: x.X, Op: op, Y: one}
		v := t.binary(be, env, t.p.info.TypeOf(x.X))
		t.assign(x.X, v, env, &eff, v.text)
		return t.exec(rest, env, eff, depth)
	case *ast.IfStmt:
		if x.Init != nil {
			// run the init statement, then the if without it
			cp := *x
			cp.Init = nil
			return t.exec(append([]ast.Stmt{x.Init, &cp}, rest...), env, effects, depth)
		}
		c := t.eval(x.Cond, env)
		if c.sort != sBool {
			t.errf(x.Pos(), "condition is not boolean: %s", c.text)
			return "default"
		}
		thenS := append(append([]ast.Stmt{}, x.Body.List...), rest...)
		var elseS []ast.Stmt
		if x.Else != nil {
			elseS = append([]ast.Stmt{x.Else}, rest...)
		} else {
			elseS = rest
		}
		a := t.exec(thenS, env.clone(), effects, depth+1)
		b := t.exec(elseS, env.clone(), effects, depth+1)
		if c.lean == "true" {
			return a
		}
		if c.lean == "false" {
			return b
		}
		return "if " + c.lean + " then\n" + ind(depth+1) + a + "\n" + ind(depth) + "else\n" + ind(depth+1) + b
	case *ast.SwitchStmt:
		if x.Init != nil {
			cp := *x
			cp.Init = nil
			return t.exec(append([]ast.Stmt{x.Init, &cp}, rest...), env, effects, depth)
		}
		// rewrite into an if-chain
		var def *ast.CaseClause
		var chain ast.Stmt
		var clauses []*ast.CaseClause
		for _, c := range x.Body.List {
			cc := c.(*ast.CaseClause)
			for _, b := range cc.Body {
				if br, ok := b.(*ast.BranchStmt); ok {
					t.errf(br.Pos(), "unsupported branch statement in switch")
					return "default"
				}
			}
			if cc.List == nil {
				def = cc
			} else {
				clauses = append(clauses, cc)
			}
		}
		if def != nil {
			chain = &ast.BlockStmt{List: def.Body}
		}
		for i := len(clauses) - 1; i >= 0; i-- {
			cc := clauses[i]
			var cond ast.Expr
			for _, ce := range cc.List {
				var one ast.Expr = ce
				if x.Tag != nil {
					be := &ast.BinaryExpr{X: x.Tag, Op: token.EQL, Y: ce}
					t.p.info.Types[be] = types.TypeAndValue{Type: types.Typ[types.Bool]}
					one = be
				}
				if cond == nil {
					cond = one
				} else {
					be := &ast.BinaryExpr{X: cond, Op: token.LOR, Y: one}
					t.p.info.Types[be] = types.TypeAndValue{Type: types.Typ[types.Bool]}
					cond = be
				}
			}
			ifs := &ast.IfStmt{Cond: cond, Body: &ast.BlockStmt{List: cc.Body}, Else: chain}
			chain = ifs
		}
		if chain == nil {
			return t.exec(rest, env, effects, depth)
		}
		return t.exec(append([]ast.Stmt{chain}, rest...), env, effects, depth)
	}
	t.errf(s.Pos(), "unsupported statement %T", s)
	return "default"
}

func (t *ltrans) byTypeLazy(text string, ty types.Type) lval {
	if ty == nil {
		return lval{sort: sOpaque, text: text}
	}
	s, w := sortOfType(ty)
	if s == sOpaque {
		return lval{sort: sOpaque, text: text}
	}
	// the atom is registered only when it is used: build it on demand through a closure-free trick —
	// register now (an unused atom is harmless: it is a field nobody reads)
	return t.atom(text, s, w)
}

// ---------------------------------------------------------------------------------------------
// units

func (p *logicPkg) findFunc(name string) (*ast.FuncDecl, error) {
	recv, fn := "", name
	if i := strings.Index(name, "."); i >= 0 {
		recv, fn = name[:i], name[i+1:]
	}
	for _, f := range p.files {
		for _, d := range f.Decls {
			fd, ok := d.(*ast.FuncDecl)
			if !ok || fd.Name.Name != fn || fd.Body == nil {
				continue
			}
			r := ""
			if fd.Recv != nil && len(fd.Recv.List) == 1 {
				ty := fd.Recv.List[0].Type
				if st, ok := ty.(*ast.StarExpr); ok {
					ty = st.X
				}
				if id, ok := ty.(*ast.Ident); ok {
					r = id.Name
				}
			}
			if r == recv {
				return fd, nil
			}
		}
	}
	return nil, fmt.Errorf("function %s not found", name)
}

func (t *ltrans) translate(tg logicTarget) (string, error) {
	parts := strings.SplitN(tg.Fn, "/", 2)
	fd, err := t.p.findFunc(parts[0])
	if err != nil {
		return "", err
	}
	body := fd.Body.List
	env := lenv{}
	addParams := func(ft *ast.FuncType) {
		// parameters may be assigned to like locals (their initial value is their own name)
		for _, f := range ft.Params.List {
			for _, n := range f.Names {
				if obj := t.p.info.Defs[n]; obj != nil {
					t.locals[obj] = true
				}
			}
		}
	}
	addParams(fd.Type)
	if len(parts) == 2 {
		var lit *ast.FuncLit
		ast.Inspect(fd.Body, func(n ast.Node) bool {
			if as, ok := n.(*ast.AssignStmt); ok && len(as.Lhs) == 1 && len(as.Rhs) == 1 {
				if id, ok := as.Lhs[0].(*ast.Ident); ok && id.Name == parts[1] {
					if l, ok := as.Rhs[0].(*ast.FuncLit); ok && lit == nil {
						lit = l
					}
				}
			}
			return lit == nil
		})
		if lit == nil {
			return "", fmt.Errorf("closure %s not found", tg.Fn)
		}
		body = lit.Body.List
		addParams(lit.Type)
	}
	if tg.Pick != nil {
		var picked ast.Stmt
		ast.Inspect(fd.Body, func(n ast.Node) bool {
			if s, ok := n.(ast.Stmt); ok && picked == nil && tg.Pick(s) {
				picked = s
			}
			return picked == nil
		})
		if picked == nil {
			return "", fmt.Errorf("%s: picked statement not found", tg.Fn)
		}
		body = []ast.Stmt{picked}
		if tg.LoopStep {
			fs, ok := picked.(*ast.ForStmt)
			if !ok || fs.Cond == nil || fs.Init == nil {
				return "", fmt.Errorf("%s: LoopStep needs a 3-clause for loop", tg.Fn)
			}
			t.loopStep = true
			// the loop variable of the init clause is an input like the outer variables
			iter := append(append([]ast.Stmt{}, fs.Body.List...), fs.Post)
			exit := &ast.ExprStmt{X: &ast.CallExpr{Fun: ast.NewIdent("loopExit")}}
			body = []ast.Stmt{&ast.IfStmt{Cond: fs.Cond, Body: &ast.BlockStmt{List: iter}, Else: &ast.BlockStmt{List: []ast.Stmt{exit}}}}
		}
		// locals defined exactly once in the function (by := with one value each) are substituted
		defs := map[types.Object]ast.Expr{}
		count := map[types.Object]int{}
		ast.Inspect(fd.Body, func(n ast.Node) bool {
			switch as := n.(type) {
			case *ast.AssignStmt:
				for i, l := range as.Lhs {
					id, ok := l.(*ast.Ident)
					if !ok {
						continue
					}
					obj := t.p.info.Defs[id]
					if obj == nil {
						obj = t.p.info.Uses[id]
					}
					if obj == nil {
						continue
					}
					count[obj]++
					if as.Tok == token.DEFINE && len(as.Lhs) == len(as.Rhs) {
						// containers built in place (make/new/literals) keep their variable's name
						switch r := as.Rhs[i].(type) {
						case *ast.CompositeLit, *ast.FuncLit:
							continue
						case *ast.CallExpr:
							if id, ok := r.Fun.(*ast.Ident); ok && (id.Name == "make" || id.Name == "new") {
								continue
							}
						}
						defs[obj] = as.Rhs[i]
					}
				}
			case *ast.IncDecStmt:
				if id, ok := as.X.(*ast.Ident); ok {
					count[t.p.info.Uses[id]] += 2
				}
			case *ast.RangeStmt:
				for _, l := range []ast.Expr{as.Key, as.Value} {
					if id, ok := l.(*ast.Ident); ok {
						count[t.p.info.Defs[id]] += 2
					}
				}
			}
			return true
		})
		// resolve in source order so that a definition may use earlier ones
		type od struct {
			o types.Object
			e ast.Expr
		}
		var ods []od
		for o, e := range defs {
			if count[o] == 1 && e.End() <= picked.Pos() {
				ods = append(ods, od{o, e})
			}
		}
		sort.Slice(ods, func(i, j int) bool { return ods[i].e.Pos() < ods[j].e.Pos() })
		for _, d := range ods {
			v := t.eval(d.e, env)
			env[d.o] = v
		}
	}
	term := t.exec(body, env, nil, 2)
	if len(t.errs) > 0 {
		return "", fmt.Errorf("%s: %s", tg.Fn, strings.Join(t.errs, "; "))
	}
	var b strings.Builder
	fmt.Fprintf(&b, "namespace %s\n\n", tg.Lean)
	fmt.Fprintf(&b, "/-- the uninterpreted sub-expressions of `%s` (field name = canonical Go text) -/\nstructure Atoms where\n", tg.Fn)
	if len(t.order) == 0 {
		b.WriteString("  unit : Unit := ()\n")
	}
	for _, n := range t.order {
		ty := map[lsort]string{sBool: "Bool", sNat: "Nat", sInt: "Int", sBytes: "_root_.Bytes"}[t.atoms[n]]
		fmt.Fprintf(&b, "  %s : %s\n", leanQuote(n), ty)
	}
	fmt.Fprintf(&b, "\n/-- decision tree of `%s` -/\ndef run (a : Atoms) : R :=\n    %s\n\nend %s\n\n", tg.Fn, term, tg.Lean)
	return b.String(), nil
}

func genLogic(repo string, u logicUnit) (string, error) {
	p, err := loadLogicPkg(repo, u.Dir)
	if err != nil {
		return "", err
	}
	var b strings.Builder
	fmt.Fprintf(&b, "import TRV.Basic.Logic\n/-! GENERATED by harness/extract (generator %s, logic.go) from the Go source of `%s/` — do not\n    edit; regenerated on every check that lists it.  One namespace per translated unit. -/\nnamespace TRV.Generated.%s\nopen TRV.Logic\n\n", u.Name, u.Dir, u.Name)
	// package-level error values (sentinels): name -> kind of the value they are initialised with
	{
		t := &ltrans{p: p, atoms: map[string]lsort{}, locals: map[types.Object]bool{}}
		var rows []string
		for _, f := range p.files {
			for _, d := range f.Decls {
				gd, ok := d.(*ast.GenDecl)
				if !ok || gd.Tok != token.VAR {
					continue
				}
				for _, sp := range gd.Specs {
					vs := sp.(*ast.ValueSpec)
					for i, n := range vs.Names {
						if i >= len(vs.Values) || !isErrorType(p.info.TypeOf(vs.Values[i])) {
							continue
						}
						rv := t.retVals("", vs.Values[i], lenv{}, 1)
						if len(rv) == 1 && strings.Contains(rv[0], "V.err ") {
							kind := rv[0][strings.Index(rv[0], "V.err ")+6 : len(rv[0])-1]
							rows = append(rows, fmt.Sprintf("(%s, %s)", leanStr(n.Name), kind))
						}
					}
				}
			}
		}
		sort.Strings(rows)
		fmt.Fprintf(&b, "/-- package-level error values of `%s/`: name ↦ kind of the value it is initialised with -/\ndef sentinels : List (String × String) := [%s]\n\n", u.Dir, strings.Join(rows, ", "))
	}
	for _, tg := range u.Targets {
		t := &ltrans{p: p, atoms: map[string]lsort{}, locals: map[types.Object]bool{}}
		s, err := t.translate(tg)
		if err != nil {
			return "", err
		}
		b.WriteString(s)
	}
	fmt.Fprintf(&b, "end TRV.Generated.%s\n", u.Name)
	return b.String(), nil
}
