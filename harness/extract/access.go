package main

// Generator "Access" (property C14): the shared-variable access table lean/TRV/Generated/Access.lean,
// rebuilt from the source on every run.  Purely syntactic (go/parser + go/ast over the files that
// build on linux without tags, no tests), DESIGN §C14 rules 1–4:
//
//  1. Locations.  (a) every field of icmpDriver, udpDriver, tcpDriver, sackDriver; (b) the variables of
//     TracerouteParallel, runTracerouteMulti, GetReverseDnsForIPs (locals, parameters, receiver) that
//     are referenced inside a goroutine closure (`go func(){…}()`, `g.Go(func…)`) or inside a local
//     closure such a goroutine reaches; (c) the package-level variables of packets, icmp, cache (scope
//     `pkg`; references from the whole repository, `alias.Var` included; the initialiser runs before
//     `main` and is not an access).  Declared `atomic.*` = atomic; sync.Mutex/RWMutex = mutexes; Once,
//     WaitGroup, channels, contexts, cancel functions, errgroups = synchronisation objects (no rows).
//  2. Roles.  Driver methods: SendProbe = sender/mid, ReceiveProbe = receiver/mid; ReadHandshake,
//     FakeHandshake and every function containing a composite literal of the struct (constructor) =
//     main/init; Close = main/final; each closed under calls to methods on the same receiver, inlined
//     per call site up to depth 6 (deeper = generation error), the callee inheriting the caller's role
//     and lock set.  Any other function that touches the struct = main/mid (assume the worst).
//     Engine functions: top-level statements before the first goroutine launch = main/init, after the
//     statement containing `.Wait()` on a synchronisation object = main/final, between = main/mid.  A
//     launched closure gets the role named by what it calls (accClosureRoles; anything else =
//     generation error), starts with an empty lock set, and must have a multi role if it is launched
//     inside a loop.  Nested function literals and calls of local closures are inlined into the thread
//     that reaches them.
//  3. Accesses.  Write = (base of) an assignment target, ++/--, range key/value, a composite-literal
//     key of the driver struct, first argument of delete/clear/copy, operand of `&`; element and
//     sub-field writes are attributed to the whole location.  Everything else is a read (a method
//     call through a field reads the field).  On an atomic location `.Load()` is an atomic read, any
//     other method an atomic write, a bare reference a plain read.
//  4. Lock sets.  Statements in order: `m.Lock()` adds m, `m.Unlock()` removes it, `defer m.Unlock()`
//     keeps it to the end of the function; `RLock` counts for reads only.  The lock set after a
//     compound statement is the one before it intersected with those leaving its blocks, blocks that
//     end in return/break/continue/panic excepted.
//
// The generator also evaluates the discipline itself (accPairOK = TRV.Sync.pairOK) and prints every
// offending pair; the table is written regardless: the Lean theorem `c14_table_disciplined` is what
// turns red.

import (
	"fmt"
	"go/ast"
	"go/build"
	"go/parser"
	"go/token"
	"go/types"
	"os"
	"path/filepath"
	"sort"
	"strings"
)

func init() { generators["Access"] = genAccess }

type accRow struct {
	loc, scope, role, phase, kind string
	locks                         []string
	atomic                        bool
	site, key                     string // key: sortable site
}

type accGen struct {
	fset   *token.FileSet
	repo   string
	rows   []accRow
	seen   map[string]bool
	errs   []string
	parsed map[string][]*ast.File // one parse per directory: positions identify declarations
}

// accWalker walks code on behalf of one thread role.
type accWalker struct {
	g                  *accGen
	scope, role, phase string
	depth, loops       int
	own                string                                                   // driver struct: its composite literals write its fields
	res                func(e ast.Expr) (name, class string)                    // "" = no location; class loc|func|atomic|mutex|sync
	call               func(w *accWalker, c *ast.CallExpr, locks []string) bool // inlining hook; true = handled
	launch             func(w *accWalker, lit *ast.FuncLit)                     // goroutine launch (engine functions only)
}

var (
	accMultiRole   = map[string]bool{"run": true, "e2e": true, "lookup": true}
	accDriverRoles = map[string][2]string{"SendProbe": {"sender", "mid"}, "ReceiveProbe": {"receiver", "mid"},
		"ReadHandshake": {"main", "init"}, "FakeHandshake": {"main", "init"}, "Close": {"main", "final"}}
	accClosureRoles = [][2]string{{"SendProbe", "sender"}, {"ReceiveProbe", "receiver"}, {"runTracerouteOnceFn", "run"},
		{"runE2eProbeOnce", "e2e"}, {"GetIP", "publicIP"}, {"GetReverseDnsForIP", "lookup"}}
)

func (g *accGen) site(pos token.Pos) string {
	p := g.fset.Position(pos)
	rel, _ := filepath.Rel(g.repo, p.Filename)
	return fmt.Sprintf("%s:%d:%d", filepath.ToSlash(rel), p.Line, p.Column)
}

func (g *accGen) sortKey(pos token.Pos) string {
	p := g.fset.Position(pos)
	return fmt.Sprintf("%s:%06d:%04d", p.Filename, p.Line, p.Column)
}

func (g *accGen) errf(pos token.Pos, f string, a ...any) {
	g.errs = append(g.errs, g.site(pos)+": "+fmt.Sprintf(f, a...))
}

// parseDir parses the files of a directory that build on linux/amd64 with no extra tags (no tests).
func (g *accGen) parseDir(dir string) (out []*ast.File) {
	if fs, ok := g.parsed[dir]; ok {
		return fs
	}
	defer func() { g.parsed[dir] = out }()
	ctx := build.Default
	ctx.GOOS, ctx.GOARCH, ctx.BuildTags, ctx.CgoEnabled = "linux", "amd64", nil, false
	ents, _ := os.ReadDir(dir)
	for _, e := range ents {
		n := e.Name()
		if e.IsDir() || !strings.HasSuffix(n, ".go") || strings.HasSuffix(n, "_test.go") {
			continue
		}
		if ok, _ := ctx.MatchFile(dir, n); !ok {
			continue
		}
		if f, err := parser.ParseFile(g.fset, filepath.Join(dir, n), nil, 0); err != nil {
			g.errs = append(g.errs, err.Error())
		} else {
			out = append(out, f)
		}
	}
	return
}

func accChildren(n ast.Node) (out []ast.Node) {
	ast.Inspect(n, func(c ast.Node) bool {
		if c != nil && c != n {
			out = append(out, c)
		}
		return c == n
	})
	return
}

// accClass classifies a location by its declared type or, failing that, its initialiser.
func accClass(typ, val ast.Expr) string {
	s := ""
	if typ != nil {
		s = types.ExprString(typ)
	} else if val != nil {
		if u, ok := val.(*ast.UnaryExpr); ok && u.Op == token.AND {
			val = u.X
		}
		switch x := val.(type) {
		case *ast.CompositeLit:
			s = types.ExprString(x.Type)
		case *ast.FuncLit:
			return "func"
		case *ast.CallExpr:
			if f := types.ExprString(x.Fun); f == "make" && len(x.Args) > 0 {
				s = types.ExprString(x.Args[0])
			} else if strings.HasPrefix(f, "context.With") || f == "errgroup.WithContext" || f == "signal.NotifyContext" {
				return "sync"
			}
		}
	}
	switch s = strings.TrimPrefix(s, "*"); {
	case s == "sync.Mutex" || s == "sync.RWMutex":
		return "mutex"
	case s == "sync.Once" || s == "sync.WaitGroup" || s == "errgroup.Group" || s == "context.Context" ||
		s == "context.CancelFunc" || strings.HasPrefix(s, "chan ") || strings.HasPrefix(s, "<-chan") || strings.HasPrefix(s, "chan<-"):
		return "sync"
	case strings.HasPrefix(s, "atomic."):
		return "atomic"
	}
	return "loc"
}

func (w *accWalker) emit(name, class, kind string, atomic bool, locks []string, pos token.Pos) {
	if class == "mutex" || class == "sync" {
		return
	}
	r := accRow{loc: name, scope: w.scope, role: w.role, phase: w.phase, kind: kind, atomic: atomic, site: w.g.site(pos)}
	for _, l := range locks {
		if m := strings.TrimSuffix(l, "#r"); !atomic && (m == l || kind == "rd") { // read locks protect reads only
			r.locks = append(r.locks, m)
		}
	}
	sort.Strings(r.locks)
	if key := fmt.Sprint(r); !w.g.seen[key] {
		w.g.seen[key], r.key = true, w.g.sortKey(pos)
		w.g.rows = append(w.g.rows, r)
	}
}

func accWithout(locks []string, m string) (out []string) {
	for _, l := range locks {
		if l != m && l != m+"#r" {
			out = append(out, l)
		}
	}
	return
}

func accIntersect(a, b []string) (out []string) {
	for _, x := range a {
		for _, y := range b {
			if x == y {
				out = append(out, x)
				break
			}
		}
	}
	return
}

// mutexOp recognises m.Lock() / m.Unlock() / m.RLock() / m.RUnlock() on a known mutex.
func (w *accWalker) mutexOp(e ast.Expr) (mu, op string) {
	if c, ok := e.(*ast.CallExpr); ok {
		if s, ok := c.Fun.(*ast.SelectorExpr); ok {
			if name, class := w.res(s.X); class == "mutex" {
				return name, s.Sel.Name
			}
		}
	}
	return
}

func (w *accWalker) stmts(list []ast.Stmt, locks []string) ([]string, bool) {
	for _, s := range list {
		var term bool
		if locks, term = w.stmt(s, locks); term {
			return locks, true
		}
	}
	return locks, false
}

// stmt returns the lock set after the statement and whether control leaves the enclosing block.
func (w *accWalker) stmt(s ast.Stmt, locks []string) ([]string, bool) {
	switch x := s.(type) {
	case nil:
	case *ast.ExprStmt:
		switch mu, op := w.mutexOp(x.X); op {
		case "Lock":
			return append(accWithout(locks, mu), mu), false
		case "RLock":
			return append(accWithout(locks, mu), mu+"#r"), false
		case "Unlock", "RUnlock":
			return accWithout(locks, mu), false
		}
		w.expr(x.X, locks)
		if c, ok := x.X.(*ast.CallExpr); ok && types.ExprString(c.Fun) == "panic" {
			return locks, true
		}
	case *ast.DeferStmt:
		if mu, _ := w.mutexOp(x.Call); mu == "" {
			w.expr(x.Call, locks)
		}
	case *ast.GoStmt:
		if lit, ok := x.Call.Fun.(*ast.FuncLit); ok && w.launch != nil {
			for _, a := range x.Call.Args {
				w.expr(a, locks)
			}
			w.launch(w, lit)
		} else if w.scope == "pkg" {
			w.expr(x.Call, nil) // no roles at package scope: only collect the accesses
		} else {
			w.g.errf(x.Pos(), "unsupported go statement (only `go func(){…}()` inside the engine functions)")
		}
	case *ast.AssignStmt:
		for _, r := range x.Rhs {
			w.rhs(r, locks)
		}
		for _, l := range x.Lhs {
			w.lhs(l, locks)
		}
	case *ast.DeclStmt:
		ast.Inspect(x, func(n ast.Node) bool {
			if vs, ok := n.(*ast.ValueSpec); ok {
				for _, v := range vs.Values {
					w.rhs(v, locks)
				}
				for _, n := range vs.Names {
					w.lhs(n, locks)
				}
			}
			return true
		})
	case *ast.IncDecStmt:
		w.lhs(x.X, locks)
	case *ast.ReturnStmt, *ast.BranchStmt:
		for _, c := range accChildren(s) {
			w.expr(c.(ast.Expr), locks)
		}
		return locks, true
	case *ast.BlockStmt, *ast.CaseClause, *ast.CommClause, *ast.LabeledStmt: // sequences
		for _, c := range accChildren(s) {
			if e, ok := c.(ast.Expr); ok {
				w.expr(e, locks)
			} else if term := false; true {
				if locks, term = w.stmt(c.(ast.Stmt), locks); term {
					return locks, true
				}
			}
		}
	default: // if, for, range, switch, select, send: expressions and simple statements, then the blocks as alternatives
		var alts []ast.Stmt
		r, isRange := s.(*ast.RangeStmt)
		for _, c := range accChildren(s) {
			switch y := c.(type) {
			case ast.Expr:
				if isRange && (c == r.Key || c == r.Value) {
					w.lhs(y, locks)
				} else {
					w.expr(y, locks)
				}
			case *ast.BlockStmt:
				switch s.(type) {
				case *ast.SwitchStmt, *ast.TypeSwitchStmt, *ast.SelectStmt:
					alts = append(alts, y.List...) // the clauses
				default:
					alts = append(alts, y)
				}
			case *ast.IfStmt: // else if
				alts = append(alts, y)
			case ast.Stmt:
				locks, _ = w.stmt(y, locks)
			}
		}
		_, isFor := s.(*ast.ForStmt)
		if isFor || isRange {
			w.loops++
			defer func() { w.loops-- }()
		}
		out := locks
		for _, b := range alts { // rule 4: intersect with what leaves the non-terminating alternatives
			if o, term := w.stmt(b, locks); !term {
				out = accIntersect(out, o)
			}
		}
		return out, false
	}
	return locks, false
}

// rhs: in an engine function the body of `f := func…` is walked where f is called, not where it is defined.
func (w *accWalker) rhs(e ast.Expr, locks []string) {
	if _, isLit := e.(*ast.FuncLit); !isLit || w.launch == nil {
		w.expr(e, locks)
	}
}

// lhs records a write to the location an assignable expression is based on (rule 3).
func (w *accWalker) lhs(e ast.Expr, locks []string) {
	for e != nil {
		if name, class := w.res(e); name != "" {
			w.emit(name, class, "wr", false, locks, e.Pos())
			return
		}
		switch x := e.(type) {
		case *ast.ParenExpr:
			e = x.X
		case *ast.StarExpr:
			e = x.X
		case *ast.SelectorExpr:
			e = x.X
		case *ast.IndexExpr:
			w.expr(x.Index, locks)
			e = x.X
		case *ast.SliceExpr:
			w.expr(x.Low, locks)
			w.expr(x.High, locks)
			e = x.X
		case *ast.Ident:
			return
		default:
			w.expr(e, locks)
			return
		}
	}
}

// expr walks an expression in read context.
func (w *accWalker) expr(e ast.Expr, locks []string) {
	if e == nil {
		return
	}
	if name, class := w.res(e); name != "" {
		w.emit(name, class, "rd", false, locks, e.Pos())
		return
	}
	switch x := e.(type) {
	case *ast.CallExpr:
		if w.call(w, x, locks) {
			return
		}
		args := x.Args
		if s, ok := x.Fun.(*ast.SelectorExpr); ok {
			if name, class := w.res(s.X); class == "atomic" { // atomic operation
				w.emit(name, class, map[bool]string{true: "rd", false: "wr"}[s.Sel.Name == "Load"], true, nil, x.Pos())
			} else {
				w.expr(s.X, locks)
			}
		} else if f, ok := x.Fun.(*ast.Ident); ok && (f.Name == "delete" || f.Name == "clear" || f.Name == "copy") && len(args) > 0 {
			w.lhs(args[0], locks)
			args = args[1:]
		} else {
			w.expr(x.Fun, locks)
		}
		for _, a := range args {
			w.expr(a, locks)
		}
	case *ast.SelectorExpr:
		w.expr(x.X, locks) // never the selector name itself
	case *ast.UnaryExpr:
		if _, isLit := x.X.(*ast.CompositeLit); x.Op == token.AND && !isLit {
			w.lhs(x.X, locks) // address taken: assume it is written through
		} else {
			w.expr(x.X, locks)
		}
	case *ast.FuncLit:
		w.stmts(x.Body.List, locks) // runs in the thread that reaches it
	case *ast.CompositeLit:
		own := w.own != "" && x.Type != nil && types.ExprString(x.Type) == w.own
		for _, el := range x.Elts {
			if kv, ok := el.(*ast.KeyValueExpr); !ok {
				w.expr(el, locks)
			} else {
				if k, isIdent := kv.Key.(*ast.Ident); !isIdent {
					w.expr(kv.Key, locks)
				} else if own {
					w.emit(w.own+"."+k.Name, "loc", "wr", false, locks, k.Pos())
				}
				w.expr(kv.Value, locks)
			}
		}
	case *ast.Ident, *ast.BasicLit:
	default:
		for _, c := range accChildren(e) {
			if ce, ok := c.(ast.Expr); ok {
				w.expr(ce, locks)
			}
		}
	}
}

// ---- rules 1a, 2: driver structs -----------------------------------------------------------------

func accStructOf(e ast.Expr) string { // S for `S`, `*S`, `S{…}`, `&S{…}`
	if u, ok := e.(*ast.UnaryExpr); ok && u.Op == token.AND {
		e = u.X
	}
	if cl, ok := e.(*ast.CompositeLit); ok {
		e = cl.Type
	}
	if e == nil {
		return ""
	}
	return strings.TrimPrefix(types.ExprString(e), "*")
}

func (g *accGen) driver(rel, S string) {
	fields, methods := map[string]string{}, map[string]*ast.FuncDecl{}
	var funcs []*ast.FuncDecl
	for _, f := range g.parseDir(filepath.Join(g.repo, rel)) {
		ast.Inspect(f, func(n ast.Node) bool {
			switch x := n.(type) {
			case *ast.TypeSpec:
				if st, ok := x.Type.(*ast.StructType); ok && x.Name.Name == S {
					for _, fl := range st.Fields.List {
						for _, n := range fl.Names {
							fields[n.Name] = accClass(fl.Type, nil)
						}
					}
				}
			case *ast.FuncDecl:
				if x.Body != nil {
					funcs = append(funcs, x)
					if x.Recv != nil && len(x.Recv.List) > 0 && accStructOf(x.Recv.List[0].Type) == S {
						methods[x.Name.Name] = x
					}
				}
				return false
			}
			return true
		})
	}
	if len(fields) == 0 {
		g.errs = append(g.errs, "struct "+S+" not found in "+rel)
		return
	}
	// objsOf: identifiers of fd that denote the struct (receiver, parameters of that type, locals
	// initialised with a composite literal of it); isCtor: fd contains such a literal.
	objsOf := func(fd *ast.FuncDecl) (objs map[*ast.Object]bool, isCtor bool) {
		objs = map[*ast.Object]bool{}
		for _, fl := range []*ast.FieldList{fd.Recv, fd.Type.Params} {
			if fl != nil {
				for _, f := range fl.List {
					for _, n := range f.Names {
						if accStructOf(f.Type) == S {
							objs[n.Obj] = true
						}
					}
				}
			}
		}
		ast.Inspect(fd.Body, func(n ast.Node) bool {
			switch x := n.(type) {
			case *ast.CompositeLit:
				isCtor = isCtor || accStructOf(x) == S
			case *ast.AssignStmt:
				for i, r := range x.Rhs {
					_, isName := r.(*ast.Ident)
					if id, ok := x.Lhs[min(i, len(x.Lhs)-1)].(*ast.Ident); ok && id.Obj != nil && !isName && accStructOf(r) == S {
						objs[id.Obj] = true
					}
				}
			}
			return true
		})
		return
	}
	reached := map[*ast.FuncDecl]bool{}
	var walk func(fd *ast.FuncDecl, role, phase string, depth int, locks []string)
	walk = func(fd *ast.FuncDecl, role, phase string, depth int, locks []string) {
		reached[fd] = true
		objs, _ := objsOf(fd)
		isObj := func(e ast.Expr) bool { id, ok := e.(*ast.Ident); return ok && id.Obj != nil && objs[id.Obj] }
		w := &accWalker{g: g, scope: "run", role: role, phase: phase, depth: depth, own: S}
		w.res = func(e ast.Expr) (string, string) {
			if s, ok := e.(*ast.SelectorExpr); ok && isObj(s.X) && fields[s.Sel.Name] != "" {
				return S + "." + s.Sel.Name, fields[s.Sel.Name]
			}
			return "", ""
		}
		w.call = func(w *accWalker, c *ast.CallExpr, locks []string) bool {
			s, ok := c.Fun.(*ast.SelectorExpr)
			if !ok || !isObj(s.X) || methods[s.Sel.Name] == nil {
				return false
			}
			if depth >= 6 {
				g.errf(c.Pos(), "call depth > 6 below a role entry point (%s)", s.Sel.Name)
			} else {
				walk(methods[s.Sel.Name], role, phase, depth+1, locks)
			}
			for _, a := range c.Args {
				w.expr(a, locks)
			}
			return true
		}
		w.stmts(fd.Body.List, locks)
	}
	for _, fd := range funcs { // role entry points first, then constructors, then whatever was not reached
		if rp, ok := accDriverRoles[fd.Name.Name]; ok && methods[fd.Name.Name] == fd {
			walk(fd, rp[0], rp[1], 0, nil)
		}
	}
	for _, fd := range funcs {
		if _, isCtor := objsOf(fd); isCtor {
			walk(fd, "main", "init", 0, nil)
		}
	}
	for _, fd := range funcs {
		if objs, _ := objsOf(fd); !reached[fd] && len(objs) > 0 {
			walk(fd, "main", "mid", 0, nil)
		}
	}
}

// ---- rules 1b, 2: engine functions and their goroutine closures -----------------------------------

// accGoArg: the closure of `x.Go(func…)` (errgroup), else nil.
func accGoArg(c *ast.CallExpr) *ast.FuncLit {
	if s, ok := c.Fun.(*ast.SelectorExpr); ok && s.Sel.Name == "Go" && len(c.Args) == 1 {
		fl, _ := c.Args[0].(*ast.FuncLit)
		return fl
	}
	return nil
}

func (g *accGen) engine(relFile, funcName string) {
	f, err := parser.ParseFile(g.fset, filepath.Join(g.repo, relFile), nil, 0)
	if err != nil {
		g.errs = append(g.errs, err.Error())
		return
	}
	var fn *ast.FuncDecl
	for _, d := range f.Decls {
		if fd, ok := d.(*ast.FuncDecl); ok && fd.Name.Name == funcName && fd.Body != nil {
			fn = fd
		}
	}
	if fn == nil {
		g.errs = append(g.errs, "function "+funcName+" not found in "+relFile)
		return
	}
	within := func(p token.Pos, n ast.Node) bool { return n.Pos() <= p && p < n.End() }
	// declOf: declared type and initialiser of a variable of fn
	declOf := func(o *ast.Object) (typ, val ast.Expr) {
		switch d := o.Decl.(type) {
		case *ast.Field:
			return d.Type, nil
		case *ast.ValueSpec:
			for i, n := range d.Names {
				if n.Obj == o && d.Type == nil && i < len(d.Values) {
					return nil, d.Values[i]
				}
			}
			return d.Type, nil
		case *ast.AssignStmt:
			for i, l := range d.Lhs {
				if id, ok := l.(*ast.Ident); ok && id.Obj == o {
					return nil, d.Rhs[min(i, len(d.Rhs)-1)]
				}
			}
		}
		return nil, nil
	}
	classOf := func(o *ast.Object) string { return accClass(declOf(o)) }
	localLit := func(o *ast.Object) *ast.FuncLit { _, v := declOf(o); fl, _ := v.(*ast.FuncLit); return fl }
	// the launched closures, then the variables they capture
	var work []*ast.FuncLit
	ast.Inspect(fn.Body, func(n ast.Node) bool {
		if x, ok := n.(*ast.GoStmt); ok {
			if lit, ok := x.Call.Fun.(*ast.FuncLit); ok {
				work = append(work, lit)
			}
		} else if x, ok := n.(*ast.CallExpr); ok && accGoArg(x) != nil {
			work = append(work, accGoArg(x))
		}
		return true
	})
	captured := map[*ast.Object]bool{}
	for done := map[*ast.FuncLit]bool{}; len(work) > 0; work = work[1:] {
		lit := work[0]
		if done[lit] {
			continue
		}
		done[lit] = true
		ast.Inspect(lit.Body, func(n ast.Node) bool {
			if id, ok := n.(*ast.Ident); ok && id.Obj != nil && id.Obj.Kind == ast.Var && within(id.Obj.Pos(), fn) && !within(id.Obj.Pos(), lit) {
				captured[id.Obj] = true
				if fl := localLit(id.Obj); fl != nil {
					work = append(work, fl) // a local closure the goroutine can reach
				}
			}
			return true
		})
	}
	res := func(e ast.Expr) (string, string) {
		if id, ok := e.(*ast.Ident); ok && id.Obj != nil && id.Obj.Kind == ast.Var && within(id.Obj.Pos(), fn) {
			if c := classOf(id.Obj); captured[id.Obj] || c == "mutex" {
				return funcName + "." + id.Name, c
			}
		}
		return "", ""
	}
	var call func(w *accWalker, c *ast.CallExpr, locks []string) bool
	var launch func(w *accWalker, lit *ast.FuncLit)
	launch = func(w *accWalker, lit *ast.FuncLit) {
		role := ""
		ast.Inspect(lit.Body, func(n ast.Node) bool {
			if c, ok := n.(*ast.CallExpr); ok && role == "" {
				for _, cr := range accClosureRoles {
					if name := types.ExprString(c.Fun); name == cr[0] || strings.HasSuffix(name, "."+cr[0]) {
						role = cr[1]
					}
				}
			}
			return true
		})
		switch {
		case w.role != "main":
			g.errf(lit.Pos(), "nested goroutine launch")
		case role == "":
			g.errf(lit.Pos(), "goroutine closure in %s cannot be classified", funcName)
		case w.loops > 0 && !accMultiRole[role]:
			g.errf(lit.Pos(), "closure of single-threaded role %s is launched inside a loop", role)
		default: // a new goroutine holds no locks
			(&accWalker{g: g, scope: "run", role: role, phase: "mid", res: res, call: call, launch: launch}).stmts(lit.Body.List, nil)
		}
	}
	call = func(w *accWalker, c *ast.CallExpr, locks []string) bool {
		if lit := accGoArg(c); lit != nil {
			w.expr(c.Fun.(*ast.SelectorExpr).X, locks)
			launch(w, lit)
			return true
		}
		id, ok := c.Fun.(*ast.Ident)
		if !ok || id.Obj == nil || localLit(id.Obj) == nil {
			return false
		}
		w.expr(id, locks) // call of a local closure: read the variable, then inline the body
		for _, a := range c.Args {
			w.expr(a, locks)
		}
		if w.depth >= 6 {
			g.errf(c.Pos(), "local closure call depth > 6")
		} else {
			iw := *w
			iw.depth++
			iw.stmts(localLit(id.Obj).Body.List, locks)
		}
		return true
	}
	// main thread: top-level statements in order, phase by position
	mw := &accWalker{g: g, scope: "run", role: "main", phase: "init", res: res, call: call, launch: launch}
	var locks []string
	for _, s := range fn.Body.List {
		waits := false
		ast.Inspect(s, func(n ast.Node) bool {
			switch x := n.(type) {
			case *ast.GoStmt:
				mw.phase = "mid"
			case *ast.CallExpr:
				if accGoArg(x) != nil {
					mw.phase = "mid"
				}
				if sel, ok := x.Fun.(*ast.SelectorExpr); ok && sel.Sel.Name == "Wait" {
					if id, ok := sel.X.(*ast.Ident); ok && id.Obj != nil && classOf(id.Obj) == "sync" {
						waits = true
					}
				}
			}
			return true
		})
		locks, _ = mw.stmt(s, locks)
		if waits {
			mw.phase = "final"
		}
	}
}

// ---- rule 1c: package-level variables -------------------------------------------------------------

func (g *accGen) pkgVars(module string, rels []string) {
	class := map[string]map[string]string{}      // rel -> var -> class
	declPos := map[string]map[string]token.Pos{} // rel -> var -> position of the declaring identifier
	for _, rel := range rels {
		class[rel], declPos[rel] = map[string]string{}, map[string]token.Pos{}
		for _, f := range g.parseDir(filepath.Join(g.repo, rel)) {
			for _, d := range f.Decls {
				if gd, ok := d.(*ast.GenDecl); ok && gd.Tok == token.VAR {
					for _, sp := range gd.Specs {
						vs := sp.(*ast.ValueSpec)
						for i, n := range vs.Names {
							var val ast.Expr
							if i < len(vs.Values) {
								val = vs.Values[i]
							}
							if c := accClass(vs.Type, val); n.Name != "_" && c != "sync" && c != "mutex" {
								class[rel][n.Name], declPos[rel][n.Name] = c, n.Pos()
							}
						}
					}
				}
			}
		}
	}
	filepath.WalkDir(g.repo, func(p string, d os.DirEntry, err error) error {
		if err != nil || !d.IsDir() {
			return nil
		}
		if n := d.Name(); p != g.repo && (strings.HasPrefix(n, ".") || n == "vendor" || n == "testdata") {
			return filepath.SkipDir
		}
		dirRel, _ := filepath.Rel(g.repo, p)
		dirRel = filepath.ToSlash(dirRel)
		for _, f := range g.parseDir(p) {
			alias := map[string]string{} // import name -> rel
			for _, im := range f.Imports {
				for _, rel := range rels {
					if strings.Trim(im.Path.Value, `"`) == module+"/"+rel {
						name := filepath.Base(rel)
						if im.Name != nil {
							name = im.Name.Name
						}
						alias[name] = rel
					}
				}
			}
			w := &accWalker{g: g, scope: "pkg", role: "main", phase: "mid"}
			w.call = func(*accWalker, *ast.CallExpr, []string) bool { return false }
			w.res = func(e ast.Expr) (string, string) {
				switch x := e.(type) {
				case *ast.Ident: // same package: unresolved in this file, or resolved to the top-level declaration
					if c, ok := class[dirRel][x.Name]; ok && (x.Obj == nil || x.Obj.Pos() == declPos[dirRel][x.Name]) {
						return filepath.Base(dirRel) + "." + x.Name, c
					}
				case *ast.SelectorExpr: // other package: alias.Var
					if id, ok := x.X.(*ast.Ident); ok && id.Obj == nil {
						if c, ok := class[alias[id.Name]][x.Sel.Name]; ok {
							return filepath.Base(alias[id.Name]) + "." + x.Sel.Name, c
						}
					}
				}
				return "", ""
			}
			for _, d := range f.Decls {
				if fd, ok := d.(*ast.FuncDecl); ok && fd.Body != nil && (class[dirRel] != nil || len(alias) > 0) {
					w.stmts(fd.Body.List, nil)
				}
			}
		}
		return nil
	})
}

// ---- discipline (mirror of TRV.Sync.pairOK) and output --------------------------------------------

func accPairOK(a, b accRow) bool {
	wl := func(r accRow) bool { return r.kind == "wr" || r.atomic }
	if a.loc != b.loc || !(wl(a) || wl(b)) || (a.atomic && b.atomic) {
		return true
	}
	return a.scope == "run" && b.scope == "run" && (len(accIntersect(a.locks, b.locks)) > 0 ||
		a.phase != "mid" || b.phase != "mid" || (a.role == b.role && !accMultiRole[a.role]))
}

func accIdent(s string) string { return strings.ReplaceAll(s, ".", "_") }

func genAccess(repo string) (string, error) {
	g := &accGen{fset: token.NewFileSet(), repo: repo, seen: map[string]bool{}, parsed: map[string][]*ast.File{}}
	mod, err := os.ReadFile(filepath.Join(repo, "go.mod"))
	if err != nil {
		return "", err
	}
	module := strings.TrimSpace(strings.TrimPrefix(strings.SplitN(string(mod), "\n", 2)[0], "module"))
	for _, d := range [][2]string{{"icmp", "icmpDriver"}, {"udp", "udpDriver"}, {"tcp", "tcpDriver"}, {"sack", "sackDriver"}} {
		g.driver(d[0], d[1])
	}
	g.engine("common/traceroute_parallel.go", "TracerouteParallel")
	g.engine("traceroute/traceroute.go", "runTracerouteMulti")
	g.engine("reversedns/reversedns.go", "GetReverseDnsForIPs")
	g.pkgVars(module, []string{"packets", "icmp", "cache"})
	if len(g.errs) > 0 {
		return "", fmt.Errorf("access table: %s", strings.Join(g.errs, "; "))
	}
	sort.SliceStable(g.rows, func(i, j int) bool {
		a, b := g.rows[i], g.rows[j]
		return a.loc+"\x00"+a.key+a.role+a.phase+a.kind < b.loc+"\x00"+b.key+b.role+b.phase+b.kind
	})
	locs, mus := map[string]bool{}, map[string]bool{}
	var b strings.Builder
	var tbl, bad []string
	for i, r := range g.rows {
		locs[accIdent(r.loc)] = true
		ls := make([]string, len(r.locks))
		for j, l := range r.locks {
			ls[j], mus[accIdent(l)] = "."+accIdent(l), true
		}
		tbl = append(tbl, fmt.Sprintf("  ⟨.%s, .%s, .%s, .%s, .%s, [%s], %v, %q⟩", accIdent(r.loc), r.scope, r.role, r.phase, r.kind, strings.Join(ls, ", "), r.atomic, r.site))
		for _, c := range g.rows[i:] {
			if !accPairOK(r, c) || !accPairOK(c, r) {
				bad = append(bad, fmt.Sprintf("UNDISCIPLINED %s: %s/%s %s at %s locks%v  ||  %s/%s %s at %s locks%v",
					r.loc, r.role, r.phase, r.kind, r.site, r.locks, c.role, c.phase, c.kind, c.site, c.locks))
			}
		}
	}
	enum := func(name string, set map[string]bool) string {
		ns := []string{}
		for n := range set {
			ns = append(ns, n)
		}
		if sort.Strings(ns); len(ns) == 0 {
			ns = []string{"none_"}
		}
		return "inductive " + name + "\n  | " + strings.Join(ns, "\n  | ") + "\nderiving DecidableEq, Repr\n\n"
	}
	b.WriteString("import TRV.Model.Sync\n/-! GENERATED by harness/extract/access.go from the Go source (rules at the top of that file). Do not edit. -/\n")
	b.WriteString("namespace TRV.Generated.Access\nopen TRV.Sync\n\n" + enum("Loc", locs) + enum("Mu", mus))
	b.WriteString("/-- ⟨location, scope, role, phase, kind, lock set, atomic, site⟩ -/\ndef table : List (Row Loc Mu) := [\n" + strings.Join(tbl, ",\n") + "\n]\n\n")
	for _, l := range bad {
		fmt.Println("extract Access: " + l)
		b.WriteString("-- " + l + "\n")
	}
	fmt.Fprintf(&b, "-- translator's own evaluation of the discipline: %d rows, %d offending pair(s)\n\nend TRV.Generated.Access\n", len(g.rows), len(bad))
	return b.String(), nil
}
