// Command extract is the translator: it regenerates lean/TRV/Generated/*.lean from /repo's current
// source on every run (BPF programs dumped from the compiled package, constants and facts read
// from the AST, JSON tags by reflection, the shared-variable access table). A file is rewritten
// only when its content changes, so an unchanged tree does not trigger Lean rebuilds.
package main

import (
	"bytes"
	"flag"
	"fmt"
	"os"
	"path/filepath"
	"sort"
	"strings"
)

// generators are registered by the other files of this package (one per generated Lean module).
var generators = map[string]func(repo string) (string, error){}

func main() {
	out := flag.String("out", "/verif/lean/TRV/Generated", "output directory")
	repo := flag.String("repo", "/repo", "repository root")
	only := flag.String("only", "", "comma-separated generator names (default: all)")
	flag.Parse()
	want := map[string]bool{}
	for _, n := range strings.Split(*only, ",") {
		if n != "" {
			want[n] = true
		}
	}
	if err := os.MkdirAll(*out, 0o755); err != nil {
		fmt.Println(err)
		os.Exit(1)
	}
	names := make([]string, 0, len(generators))
	for n := range generators {
		if len(want) == 0 || want[n] {
			names = append(names, n)
		}
	}
	for n := range want {
		if _, ok := generators[n]; !ok {
			fmt.Printf("extract: unknown generator %s\n", n)
			os.Exit(1)
		}
	}
	sort.Strings(names)
	failed := false
	for _, n := range names {
		src, err := generators[n](*repo)
		if err != nil {
			fmt.Printf("extract %s: %v\n", n, err)
			failed = true
			continue
		}
		p := filepath.Join(*out, n+".lean")
		old, _ := os.ReadFile(p)
		if !bytes.Equal(old, []byte(src)) {
			if err := os.WriteFile(p, []byte(src), 0o644); err != nil {
				fmt.Println(err)
				failed = true
			}
			fmt.Printf("extract %s: rewritten\n", n)
		}
	}
	if failed {
		os.Exit(1)
	}
}
