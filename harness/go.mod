module verifharness

go 1.25.6

require (
	github.com/DataDog/datadog-traceroute v0.0.0
	github.com/cenkalti/backoff/v5 v5.0.3
	github.com/google/gopacket v1.1.19
	github.com/patrickmn/go-cache v2.1.0+incompatible
	golang.org/x/net v0.49.0
	golang.org/x/sys v0.40.0
)

require (
	github.com/golang/mock v1.6.0 // indirect
	github.com/google/uuid v1.6.0 // indirect
	golang.org/x/sync v0.19.0 // indirect
)

replace github.com/DataDog/datadog-traceroute => /repo
