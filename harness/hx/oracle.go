package hx

import (
	"bufio"
	"bytes"
	"fmt"
	"os"
	"os/exec"
	"strings"
)

// Oracle runs the native Lean model driver (trv_oracle) over a batch of lines.
type Oracle struct{ Path string }

func NewOracle() *Oracle {
	p := os.Getenv("VERIF_ORACLE")
	if p == "" {
		p = "/verif/lean/.lake/build/bin/trv_oracle"
	}
	return &Oracle{Path: p}
}

// Batch feeds all lines to one oracle process and returns one answer per line.
func (o *Oracle) Batch(lines []string) ([]string, error) {
	if len(lines) == 0 {
		return nil, nil
	}
	var in bytes.Buffer
	for _, l := range lines {
		if strings.ContainsAny(l, "\n\r") {
			return nil, fmt.Errorf("oracle line contains newline: %q", l)
		}
		in.WriteString(l)
		in.WriteByte('\n')
	}
	cmd := exec.Command(o.Path)
	cmd.Stdin = &in
	var out bytes.Buffer
	cmd.Stdout = &out
	cmd.Stderr = os.Stderr
	if err := cmd.Run(); err != nil {
		return nil, fmt.Errorf("oracle %s failed: %w", o.Path, err)
	}
	res := make([]string, 0, len(lines))
	sc := bufio.NewScanner(&out)
	sc.Buffer(make([]byte, 1<<20), 1<<26)
	for sc.Scan() {
		res = append(res, sc.Text())
	}
	if len(res) != len(lines) {
		return nil, fmt.Errorf("oracle answered %d lines for %d inputs", len(res), len(lines))
	}
	return res, nil
}
