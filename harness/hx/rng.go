// Package hx is the shared core of the verification harness: PRNG, oracle client, reports.
package hx

// RNG is splitmix64; every random choice of a check derives from one RNG seeded by VERIF_SEED.
type RNG struct{ s uint64 }

func NewRNG(seed uint64) *RNG { return &RNG{s: seed*0x9E3779B97F4A7C15 + 0x1234567} }

func (r *RNG) U64() uint64 {
	r.s += 0x9E3779B97F4A7C15
	z := r.s
	z = (z ^ (z >> 30)) * 0xBF58476D1CE4E5B9
	z = (z ^ (z >> 27)) * 0x94D049BB133111EB
	return z ^ (z >> 31)
}

// Intn returns a value in [0,n).
func (r *RNG) Intn(n int) int {
	if n <= 0 {
		return 0
	}
	return int(r.U64() % uint64(n))
}

// Range returns a value in [lo,hi].
func (r *RNG) Range(lo, hi int) int { return lo + r.Intn(hi-lo+1) }

func (r *RNG) Bool() bool { return r.U64()&1 == 1 }

// Chance returns true with probability num/den.
func (r *RNG) Chance(num, den int) bool { return r.Intn(den) < num }

func (r *RNG) Bytes(n int) []byte {
	b := make([]byte, n)
	for i := range b {
		b[i] = byte(r.U64())
	}
	return b
}

// Fork derives an independent stream (so that adding draws in one generator does not shift others).
func (r *RNG) Fork() *RNG { return NewRNG(r.U64()) }

// Pick returns one element.
func Pick[T any](r *RNG, xs []T) T { return xs[r.Intn(len(xs))] }

// Perm returns a pseudo-random permutation of 0..n-1.
func (r *RNG) Perm(n int) []int {
	p := make([]int, n)
	for i := range p {
		p[i] = i
	}
	for i := n - 1; i > 0; i-- {
		j := r.Intn(i + 1)
		p[i], p[j] = p[j], p[i]
	}
	return p
}
