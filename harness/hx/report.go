package hx

import (
	"crypto/sha256"
	"encoding/hex"
	"encoding/json"
	"fmt"
	"os"
	"path/filepath"
	"sort"
	"strconv"
	"strings"
	"sync"
	"time"
)

// Env is the per-run configuration every check reads from the environment.
type Env struct {
	Tier   string // quick | thorough
	Seed   uint64
	OutDir string // where <id>.corr.json goes
	Replay string // directory for replay files
	Verif  string // /verif
}

func GetEnv() Env {
	e := Env{Tier: os.Getenv("VERIF_TIER"), OutDir: os.Getenv("VERIF_OUT"), Verif: os.Getenv("VERIF_ROOT")}
	if e.Tier == "" {
		e.Tier = "quick"
	}
	if e.Verif == "" {
		e.Verif = "/verif"
	}
	if e.OutDir == "" {
		e.OutDir = filepath.Join(e.Verif, "out")
	}
	e.Replay = filepath.Join(e.Verif, "replays")
	if s := os.Getenv("VERIF_SEED"); s != "" {
		if v, err := strconv.ParseUint(s, 10, 64); err == nil {
			e.Seed = v
		} else if v, err := strconv.ParseInt(s, 10, 64); err == nil {
			e.Seed = uint64(v)
		}
	}
	return e
}

func (e Env) Thorough() bool { return e.Tier == "thorough" }

// Scale picks the quick or thorough count.
func (e Env) Scale(quick, thorough int) int {
	if e.Thorough() {
		return thorough
	}
	return quick
}

// Violation is one reported failure. Replay is written to a file; Sig is matched against
// KNOWN_FINDINGS.jsonl signatures.
type Violation struct {
	Kind    string            `json:"kind"` // spec | correspondence | proof | tie
	What    string            `json:"what"`
	Sig     map[string]string `json:"sig"`
	Replay  any               `json:"replay"`
	NoInput bool              `json:"no_failing_input_found"`
	File    string            `json:"file,omitempty"`
}

// Report accumulates what one correspondence run covered.
type Report struct {
	mu          sync.Mutex
	Property    string         `json:"property_id"`
	Tier        string         `json:"tier"`
	Seed        uint64         `json:"seed"`
	Evaluations int            `json:"evaluations"`
	Distinct    int            `json:"distinct_nontrivial"`
	Rule        string         `json:"rule"`
	Samples     []any          `json:"samples"`
	Dist        map[string]int `json:"distribution"`
	Streams     map[string]int `json:"streams"`
	Disagree    int            `json:"disagreements"`
	Violations  []Violation    `json:"violations"`
	Known       []string       `json:"known_findings"`
	Notes       []string       `json:"notes"`
	Exhaustive  bool           `json:"exhaustive"`
	WallS       float64        `json:"wall_s"`
	start       time.Time
	seen        map[[8]byte]struct{}
	env         Env
	known       []knownFinding
}

type knownFinding struct {
	Property  string            `json:"property"`
	ID        string            `json:"id"`
	Status    string            `json:"status"`
	Signature map[string]string `json:"signature"`
	What      string            `json:"what"`
}

func NewReport(prop string, env Env, rule string) *Report {
	r := &Report{Property: prop, Tier: env.Tier, Seed: env.Seed, Rule: rule, Dist: map[string]int{},
		Streams: map[string]int{}, start: time.Now(), seen: map[[8]byte]struct{}{}, env: env}
	r.loadKnown()
	return r
}

func (r *Report) loadKnown() {
	b, err := os.ReadFile(filepath.Join(r.env.Verif, "KNOWN_FINDINGS.jsonl"))
	if err != nil {
		return
	}
	for _, line := range strings.Split(string(b), "\n") {
		line = strings.TrimSpace(line)
		if line == "" || strings.HasPrefix(line, "#") {
			continue
		}
		var k knownFinding
		if json.Unmarshal([]byte(line), &k) == nil && k.Property == r.Property {
			r.known = append(r.known, k)
		}
	}
}

// Case counts one evaluated case. key identifies it for distinctness; nontrivial says whether it
// counts by the report's rule. The first few nontrivial cases are kept as samples.
func (r *Report) Case(stream, key string, nontrivial bool, sample any) {
	r.mu.Lock()
	defer r.mu.Unlock()
	r.Evaluations++
	r.Streams[stream]++
	if !nontrivial {
		return
	}
	h := sha256.Sum256([]byte(stream + "\x00" + key))
	var k [8]byte
	copy(k[:], h[:8])
	if _, ok := r.seen[k]; ok {
		return
	}
	r.seen[k] = struct{}{}
	r.Distinct++
	if len(r.Samples) < 6 && sample != nil {
		r.Samples = append(r.Samples, sample)
	}
}

// Hit increments a distribution counter (branches, error kinds, sizes).
func (r *Report) Hit(name string) {
	r.mu.Lock()
	r.Dist[name]++
	r.mu.Unlock()
}

func (r *Report) Note(format string, a ...any) {
	r.mu.Lock()
	r.Notes = append(r.Notes, fmt.Sprintf(format, a...))
	r.mu.Unlock()
}

func sigMatches(sig, want map[string]string) bool {
	if len(want) == 0 {
		return false
	}
	for k, v := range want {
		got, ok := sig[k]
		if !ok {
			return false
		}
		if strings.HasPrefix(v, "!") {
			if got == v[1:] {
				return false
			}
		} else if got != v {
			return false
		}
	}
	return true
}

// Violate records a violation unless it matches an open known finding (then it is listed once).
// At most maxViol violations are kept with replay files; the rest are only counted.
func (r *Report) Violate(v Violation) {
	r.mu.Lock()
	defer r.mu.Unlock()
	for _, k := range r.known {
		if k.Status == "open" && sigMatches(v.Sig, k.Signature) {
			line := fmt.Sprintf("KNOWN-FINDING: property=%s %s: %s", r.Property, k.ID, k.What)
			for _, e := range r.Known {
				if e == line {
					return
				}
			}
			r.Known = append(r.Known, line)
			fmt.Println(line)
			return
		}
	}
	if v.NoInput {
		for _, e := range r.Violations {
			if e.NoInput && e.What == v.What {
				return
			}
		}
	}
	if len(r.Violations) >= 8 {
		r.Disagree++
		return
	}
	os.MkdirAll(r.env.Replay, 0o755)
	b, _ := json.MarshalIndent(map[string]any{"property": r.Property, "kind": v.Kind, "what": v.What,
		"sig": v.Sig, "replay": v.Replay, "seed": r.Seed, "tier": r.Tier,
		"no_failing_input_found": v.NoInput}, "", " ")
	h := sha256.Sum256(b)
	v.File = filepath.Join(r.env.Replay, fmt.Sprintf("%s-%s.json", r.Property, hex.EncodeToString(h[:6])))
	os.WriteFile(v.File, b, 0o644)
	r.Violations = append(r.Violations, v)
	tail := ""
	if v.NoInput {
		tail = " no-failing-input-found"
	}
	fmt.Printf("VIOLATION property=%s replay=%s%s\n", r.Property, v.File, tail)
}

// BeforeWrite, if set, runs at the start of Write (the harness uses it to turn what its runaway-loop
// guards have seen into violations).
var BeforeWrite func(r *Report)

// Write stores the report as <OutDir>/<property>.corr.json for the check driver to merge.
func (r *Report) Write() error {
	if BeforeWrite != nil {
		BeforeWrite(r)
	}
	r.mu.Lock()
	defer r.mu.Unlock()
	r.WallS = time.Since(r.start).Seconds()
	if r.Samples == nil {
		r.Samples = []any{}
	}
	if r.Violations == nil {
		r.Violations = []Violation{}
	}
	sort.Strings(r.Known)
	os.MkdirAll(r.env.OutDir, 0o755)
	b, err := json.MarshalIndent(r, "", " ")
	if err != nil {
		return err
	}
	return os.WriteFile(filepath.Join(r.env.OutDir, r.Property+".corr.json"), b, 0o644)
}

// Failed reports whether any (unknown) violation was recorded.
func (r *Report) Failed() bool {
	r.mu.Lock()
	defer r.mu.Unlock()
	return len(r.Violations) > 0
}
