package corr

// C20: the real performTCPFallback with instrumented closures over the full matrix
// method × SACK outcome (ok, NotSupported at every wrapping depth and shape, plain errors, errors
// that only *mention* NotSupported) × SYN outcome; the real runE2eProbeOnce with a capturing
// per-run function; and the real sack.RunSackTraceroute over the simulated wire + a loop-back
// listener for the capability classification. Compared with the Lean policy model and with the
// policy spec evaluated on the observations.

import (
	"context"
	"errors"
	"fmt"
	"os"
	"strings"
	"testing"
	"time"

	"github.com/DataDog/datadog-traceroute/result"
	"github.com/DataDog/datadog-traceroute/sack"
	"github.com/DataDog/datadog-traceroute/traceroute"

	"verifharness/hx"
)

// c20Msg is a wrapper layer with identity (tag) that is not a NotSupportedError.
type c20Msg struct {
	tag   int
	inner error
}

func (e *c20Msg) Error() string { return fmt.Sprintf("verif layer %d", e.tag) }
func (e *c20Msg) Unwrap() error { return e.inner }

// NotSupportedError here is a *different* type with the same name and message as sack's.
type c20FakeNotSupportedError struct{ Err error }

func (e *c20FakeNotSupportedError) Error() string {
	return fmt.Sprintf("SACK not supported for this target/source: %s", e.Err)
}
func (e *c20FakeNotSupportedError) Unwrap() error { return e.Err }

// c20Outcome is a closure outcome with the chain the model sees (errors.As visiting order).
type c20Outcome struct {
	Name  string
	Run   *result.TracerouteRun
	Err   error
	Token string // ok:<marker> | err:<chain>
}

func c20OK(marker int) c20Outcome {
	return c20Outcome{Name: "ok", Run: &result.TracerouteRun{Source: result.TracerouteSource{Port: uint16(marker)}}, Token: fmt.Sprintf("ok:%d", marker)}
}

// c20Chain builds an error from a recipe, innermost first. Recipe letters:
//
//	L<tag>  leaf errors.New                      → layer tag
//	N       &sack.NotSupportedError{Err: inner}  → layer N   (inner may be nil)
//	Z       (*sack.NotSupportedError)(nil)       → layer N   (typed nil, leaf)
//	F<tag>  fmt.Errorf("…: %w", inner)           → layer tag
//	M<tag>  &c20Msg{tag, inner}                  → layer tag
//	J<tag>  errors.Join(errors.New(..), inner)   → layers 50, tag, then inner (errors.As order)
//	K<tag>  errors.Join(inner, errors.New(..))   → layers 50, inner…, tag
//	X<tag>  leaf whose message mentions NotSupported (errors.New)
//	Y<tag>  &c20FakeNotSupportedError{inner}     → layer tag (a different type of the same name)
func c20Chain(recipe []string) (error, []string) {
	var err error
	var chain []string
	for _, step := range recipe {
		kind, tag := step[:1], ""
		if len(step) > 1 {
			tag = step[1:]
		}
		switch kind {
		case "L":
			err = errors.New("verif leaf " + tag)
			chain = []string{tag}
		case "X":
			err = errors.New("SACK not supported for this target/source: *sack.NotSupportedError (verif decoy " + tag + ")")
			chain = []string{tag}
		case "Z":
			err = (*sack.NotSupportedError)(nil)
			chain = []string{"N"}
		case "N":
			err = &sack.NotSupportedError{Err: err}
			chain = append([]string{"N"}, chain...)
		case "F":
			err = fmt.Errorf("verif wrap %s: %w", tag, err)
			chain = append([]string{tag}, chain...)
		case "M":
			var t int
			fmt.Sscan(tag, &t)
			err = &c20Msg{tag: t, inner: err}
			chain = append([]string{tag}, chain...)
		case "Y":
			err = &c20FakeNotSupportedError{Err: err}
			chain = append([]string{tag}, chain...)
		case "J":
			err = errors.Join(errors.New("verif sibling "+tag), err)
			chain = append([]string{"50", tag}, chain...)
		case "K":
			err = errors.Join(err, errors.New("verif sibling "+tag))
			chain = append(append([]string{"50"}, chain...), tag)
		}
	}
	return err, chain
}

func c20Err(name string, recipe ...string) c20Outcome {
	err, chain := c20Chain(recipe)
	return c20Outcome{Name: name, Err: err, Token: "err:" + strings.Join(chain, ",")}
}

func c20MethodToken(m string) string {
	switch m {
	case "":
		return "empty"
	case "syn", "sack", "prefer_sack", "syn_socket":
		return m
	}
	return "other"
}

type c20Obs struct {
	Res                 string
	NSyn, NSack, NSock  int
	ReturnedUnsupported bool
	Bad                 string
}

// c20Observe runs the real performTCPFallback once.
func c20Observe(method string, syn, sk, sock c20Outcome) c20Obs {
	var o c20Obs
	mk := func(out c20Outcome, n *int) func() (*result.TracerouteRun, error) {
		return func() (*result.TracerouteRun, error) {
			*n++
			return out.Run, out.Err
		}
	}
	var run *result.TracerouteRun
	var err error
	func() {
		defer func() {
			if r := recover(); r != nil {
				o.Bad = fmt.Sprintf("panic: %v", r)
			}
		}()
		run, err = traceroute.VerifPerformTCPFallback(traceroute.TCPMethod(method), mk(syn, &o.NSyn), mk(sk, &o.NSack), mk(sock, &o.NSock))
	}()
	if o.Bad != "" {
		o.Res = "err:-"
		return o
	}
	ident := func(out c20Outcome) bool { return out.Err != nil && err == out.Err }
	inner := c20SafeUnwrap(err)
	switch {
	case err == nil && run == nil:
		o.Res = "ok:0"
		o.Bad = "neither a run nor an error"
	case err == nil:
		o.Res = fmt.Sprintf("ok:%d", run.Source.Port)
		if run != syn.Run && run != sk.Run && run != sock.Run {
			o.Bad = "returned run is not one of the closures' runs"
		}
	case ident(syn):
		o.Res = syn.Token
	case ident(sk):
		o.Res = sk.Token
	case ident(sock):
		o.Res = sock.Token
	case inner != nil && sk.Err != nil && inner == sk.Err && strings.HasPrefix(err.Error(), "SACK traceroute failed fatally"):
		o.Res = "err:1," + strings.TrimPrefix(sk.Token, "err:")
	case inner == nil && strings.HasPrefix(err.Error(), "unexpected TCPMethod"):
		o.Res = "err:2"
	default:
		o.Res = "err:999"
		o.Bad = "returned error is neither a closure's error, nor the fatal wrapper around the SACK error, nor the unknown-method error: " + err.Error()
	}
	if err != nil && run != nil {
		o.Bad = "a run was returned together with an error"
	}
	var ns *sack.NotSupportedError
	o.ReturnedUnsupported = errors.As(err, &ns)
	return o
}

// c20SafeUnwrap is errors.Unwrap that tolerates a typed-nil *NotSupportedError (whose Unwrap panics).
func c20SafeUnwrap(err error) (inner error) {
	defer func() {
		if recover() != nil {
			inner = nil
		}
	}()
	return errors.Unwrap(err)
}

func c20SackOutcomes(r *hx.RNG, thorough bool) []c20Outcome {
	outs := []c20Outcome{c20OK(8)}
	// NotSupported at wrapping depth 0..4, three wrapper kinds and mixtures
	for d := 0; d <= 4; d++ {
		for _, kind := range []string{"F", "M", "J", "K"} {
			rec := []string{"L60", "N"}
			for i := 0; i < d; i++ {
				rec = append(rec, fmt.Sprintf("%s%d", kind, 40+i))
			}
			outs = append(outs, c20Err(fmt.Sprintf("ns-depth%d-%s", d, kind), rec...))
			if d == 0 {
				break
			}
		}
	}
	outs = append(outs,
		c20Err("ns-no-cause", "N"),
		c20Err("ns-typed-nil", "Z"),
		c20Err("ns-typed-nil-wrapped", "Z", "F41", "J42"),
		c20Err("ns-mixed", "L60", "F61", "N", "F40", "M41", "J42", "K43", "F44"),
		c20Err("ns-twice", "L60", "N", "F40", "N", "F41"),
		c20Err("ns-under-fake", "L60", "N", "Y64", "F40"),
		c20Err("plain", "L62"),
		c20Err("plain-wrapped", "L62", "F40", "M41"),
		c20Err("plain-joined", "L62", "J40", "K41", "F42"),
		c20Err("mentions-not-supported", "X63"),
		c20Err("mentions-not-supported-wrapped", "X63", "F40", "J41"),
		c20Err("same-name-other-type", "L62", "Y64"),
		c20Err("same-name-other-type-wrapped", "L62", "Y64", "F40", "M41", "K42"),
		// the chains RunSackTraceroute really builds (see TRV.Policy.sackChain)
		c20Err("like-dial", "L99", "F18", "F17", "N", "F10"),
		c20Err("like-no-sack-permitted", "L27", "N", "F25", "F21", "F10"),
		c20Err("like-ack-without-sack", "L32", "F31", "N", "F30", "F28", "F10"),
		c20Err("like-handshake-timeout", "L23", "F21", "F10"),
		c20Err("like-read-fault", "L99", "F30", "F28", "F10"),
	)
	n := 40
	if thorough {
		n = 4000
	}
	kinds := []string{"F", "M", "J", "K", "Y"}
	for i := 0; i < n; i++ {
		rec := []string{hx.Pick(r, []string{"L60", "X63", "Z", "L62"})}
		depth := r.Range(0, 12)
		nsAt := -1
		if r.Chance(1, 2) {
			nsAt = r.Intn(depth + 1)
		}
		for d := 0; d <= depth; d++ {
			if d == nsAt {
				rec = append(rec, "N")
			}
			if d < depth {
				rec = append(rec, fmt.Sprintf("%s%d", hx.Pick(r, kinds), 100+d))
			}
		}
		outs = append(outs, c20Err(fmt.Sprintf("random-%d", i), rec...))
	}
	return outs
}

func TestC20(t *testing.T) {
	if first := os.Getenv("C20_CHILD"); first != "" {
		c20FreshChild(t, first)
		return
	}
	env := hx.GetEnv()
	rep := hx.NewReport("C20", env, "real performTCPFallback with instrumented closures (method × SACK outcome × SYN outcome), real runE2eProbeOnce with a capturing per-run function, "+
		"real RunSackTraceroute over the simulated wire; non-trivial = a SACK-capable method with a failing SACK attempt, or an e2e probe with a SACK method, or a real SACK run; distinct by matrix cell")
	defer rep.Write()
	rng := hx.NewRNG(env.Seed ^ 0xC20)
	orc := hx.NewOracle()

	methods := []string{"", "syn", "sack", "prefer_sack", "syn_socket", "garbage", "SACK", "prefer-sack", "sack ", "Syn"}
	synOuts := []c20Outcome{c20OK(7), c20Err("syn-plain", "L70"), c20Err("syn-ns", "L71", "N", "F72")}
	sockOuts := []c20Outcome{c20OK(9), c20Err("sock-plain", "L73")}
	sackOuts := c20SackOutcomes(rng, env.Thorough())

	c20RealSack(t, rep, orc, rng)
	c20FreshProcess(t, rep)
	c20E2e(t, rep, orc)
	c20E2eReal(t, rep)

	type cell struct {
		method         string
		syn, sk, sock  c20Outcome
		obs            c20Obs
		line, specLine string
	}
	var cells []cell
	for _, m := range methods {
		for _, sk := range sackOuts {
			for _, sy := range synOuts {
				for _, so := range sockOuts {
					c := cell{method: m, syn: sy, sk: sk, sock: so}
					c.obs = c20Observe(m, sy, sk, so)
					c.line = fmt.Sprintf("pol.fallback %s %s %s %s", c20MethodToken(m), sy.Token, sk.Token, so.Token)
					c.specLine = fmt.Sprintf("pol.spec %s %s %s %s %s %d %d %d", c20MethodToken(m), sy.Token, sk.Token, so.Token,
						c.obs.Res, c.obs.NSyn, c.obs.NSack, c.obs.NSock)
					cells = append(cells, c)
				}
			}
		}
	}
	lines := make([]string, len(cells))
	specLines := make([]string, len(cells))
	for i, c := range cells {
		lines[i], specLines[i] = c.line, c.specLine
	}
	answers, err := orc.Batch(lines)
	if err != nil {
		t.Fatalf("oracle: %v", err)
	}
	specAns, err := orc.Batch(specLines)
	if err != nil {
		t.Fatalf("oracle(spec): %v", err)
	}
	for i, c := range cells {
		sample := map[string]any{"method": c.method, "sack_outcome": c.sk.Name, "sack": c.sk.Token, "syn": c.syn.Token, "syn_socket": c.sock.Token,
			"impl_result": c.obs.Res, "calls_syn_sack_sock": []int{c.obs.NSyn, c.obs.NSack, c.obs.NSock}, "oracle_line": c.line}
		mt := c20MethodToken(c.method)
		nontrivial := (mt == "sack" || mt == "prefer_sack") && c.sk.Err != nil
		rep.Case("fallback", c.line, nontrivial, sample)
		rep.Hit("method:" + mt)
		rep.Hit("sack-unsupported:" + fmt.Sprint(strings.Contains(","+strings.TrimPrefix(c.sk.Token, "err:")+",", ",N,")))
		bad := c.obs.Bad
		if bad == "" && specAns[i] != "1" {
			bad = fmt.Sprintf("method policy violated: method %q, SACK outcome %s (%s) → result %s with calls syn=%d sack=%d syn_socket=%d",
				c.method, c.sk.Name, c.sk.Token, c.obs.Res, c.obs.NSyn, c.obs.NSack, c.obs.NSock)
		}
		if bad != "" {
			rep.Violate(hx.Violation{Kind: "spec", What: bad, Sig: map[string]string{"stream": "fallback", "method": mt}, Replay: sample})
			continue
		}
		got := fmt.Sprintf("%s %d %d %d", c.obs.Res, c.obs.NSyn, c.obs.NSack, c.obs.NSock)
		wantUnsup := strings.Contains(","+strings.TrimPrefix(strings.Fields(answers[i])[0], "err:")+",", ",N,") && strings.HasPrefix(answers[i], "err:")
		if got != answers[i] || c.obs.ReturnedUnsupported != wantUnsup {
			sample["model_result"] = answers[i]
			sample["errors_as_not_supported_on_result"] = c.obs.ReturnedUnsupported
			sample["broken"] = "correspondence stream policy/fallback (Lean TRV.Policy.fallback vs traceroute.performTCPFallback)"
			rep.Violate(hx.Violation{Kind: "correspondence", NoInput: true,
				What: "policy model and performTCPFallback differ; the policy predicate holds on the implementation's observations",
				Sig:  map[string]string{"stream": "fallback"}, Replay: sample})
		}
	}

	c20DialTimeoutStream(t, rep, rng.Fork(), env)
	// the capability verdict of the handshake itself: 'not supported' only for an own SYN-ACK without SACK-permitted
	handshakeStream(t, rep, orc, rng.Fork(), env.Scale(1000, 20000))
	if rep.Failed() {
		t.Fail()
	}
}

// c20E2e: the real runE2eProbeOnce for every method and protocol; the per-run function captures the
// method it is given and feeds it to the real performTCPFallback with counting closures.
func c20E2e(t *testing.T, rep *hx.Report, orc *hx.Oracle) {
	type e2eCase struct {
		proto, method      string
		gotMethod          string
		minTTL, maxTTL     int
		nSyn, nSack, nSock int
		rtt                float64
		err                error
		line               string
		fail               string   // how the SYN run of this probe fails ("" = it succeeds)
		methods            []string // TCPMethod of every run the probe started, in order
	}
	var cases []e2eCase
	for _, proto := range []string{"tcp", "udp", "icmp", "TCP", ""} {
		for _, m := range []string{"", "syn", "sack", "prefer_sack", "syn_socket", "garbage", "SACK"} {
			for _, fail := range []string{"", "plain", "not-supported", "deadline"} {
				if fail != "" && proto != "tcp" {
					continue
				}
				c := e2eCase{proto: proto, method: m, fail: fail}
				traceroute.VerifSetRunOnce(func(ctx context.Context, p traceroute.TracerouteParams, port int) (*result.TracerouteRun, error) {
					c.methods = append(c.methods, string(p.TCPMethod))
					if len(c.methods) == 1 {
						c.gotMethod = string(p.TCPMethod)
						c.minTTL, c.maxTTL = p.MinTTL, p.MaxTTL
					}
					mk := func(marker int, n *int) func() (*result.TracerouteRun, error) {
						return func() (*result.TracerouteRun, error) {
							*n++
							if marker == 7 {
								// the SYN run of an end-to-end probe fails: the failure is the probe's outcome
								switch fail {
								case "plain":
									return nil, fmt.Errorf("verif: raw socket write failed")
								case "not-supported":
									return nil, fmt.Errorf("verif: %w", &sack.NotSupportedError{Err: fmt.Errorf("verif")})
								case "deadline":
									return nil, fmt.Errorf("verif: %w", context.DeadlineExceeded)
								}
							}
							return &result.TracerouteRun{Hops: []*result.TracerouteHop{{TTL: p.MaxTTL, RTT: float64(marker), IsDest: true}}}, nil
						}
					}
					if p.Protocol != "tcp" {
						return mk(5, new(int))()
					}
					return traceroute.VerifPerformTCPFallback(p.TCPMethod, mk(7, &c.nSyn), mk(8, &c.nSack), mk(9, &c.nSock))
				})
				c.rtt, c.err = traceroute.VerifE2eProbeOnce(context.Background(),
					traceroute.TracerouteParams{Hostname: "198.51.100.9", Protocol: proto, MinTTL: 1, MaxTTL: 30, TCPMethod: traceroute.TCPMethod(m), Timeout: time.Millisecond}, 443)
				traceroute.VerifSetRunOnce(nil)
				isTCP := "0"
				if proto == "tcp" {
					isTCP = "1"
				}
				c.line = fmt.Sprintf("pol.e2e %s %s", isTCP, c20MethodToken(m))
				cases = append(cases, c)
			}
		}
	}
	lines := make([]string, len(cases))
	for i, c := range cases {
		lines[i] = c.line
	}
	answers, err := orc.Batch(lines)
	if err != nil {
		t.Fatalf("oracle(e2e): %v", err)
	}
	for i, c := range cases {
		sample := map[string]any{"protocol": c.proto, "method": c.method, "method_passed_on": c.gotMethod, "min_ttl": c.minTTL, "max_ttl": c.maxTTL,
			"calls_syn_sack_sock": []int{c.nSyn, c.nSack, c.nSock}, "rtt": c.rtt, "oracle_line": c.line, "syn_run_fails": c.fail, "methods_of_the_runs_started": c.methods}
		mt := c20MethodToken(c.method)
		rep.Case("e2e", c.line+c.proto+c.method+c.fail, c.proto == "tcp" && (mt == "sack" || mt == "prefer_sack"), sample)
		rep.Hit("e2e-proto:" + c.proto)
		rep.Hit("e2e-syn-fails:" + c.fail)
		bad := ""
		switch {
		case c.proto == "tcp" && c.nSack != 0:
			bad = "an end-to-end probe invoked the SACK implementation"
		case c.fail != "" && (mt == "empty" || mt == "syn" || mt == "sack" || mt == "prefer_sack") && (len(c.methods) != 1 || c.nSyn != 1 || c.err == nil):
			bad = "an end-to-end TCP probe whose SYN run failed did not end with that one run's failure"
		case c.fail != "":
		case c.proto == "tcp" && (mt == "empty" || mt == "syn" || mt == "sack" || mt == "prefer_sack") && (c.nSyn != 1 || c.err != nil || c.rtt != 7):
			bad = "an end-to-end TCP probe did not use the SYN implementation exactly once"
		case c.minTTL != c.maxTTL || c.maxTTL != 30:
			bad = "an end-to-end probe did not probe the last TTL only"
		}
		if bad != "" {
			rep.Violate(hx.Violation{Kind: "spec", What: bad, Sig: map[string]string{"stream": "e2e", "method": mt}, Replay: sample})
			continue
		}
		want := answers[i]
		got := c20MethodToken(c.gotMethod)
		unchanged := want == mt
		if got != want || (unchanged && c.gotMethod != c.method) {
			sample["model_result"] = want
			sample["broken"] = "correspondence stream policy/e2e (Lean TRV.Policy.e2eMethod vs traceroute.runE2eProbeOnce)"
			rep.Violate(hx.Violation{Kind: "correspondence", NoInput: true, What: "e2e method override differs from the model; no SACK call was observed",
				Sig: map[string]string{"stream": "e2e"}, Replay: sample})
		}
	}
}
