package corr

// C20, e2e-real stream: the REAL runE2eProbeOnce → REAL runTracerouteOnce (no stub) over the
// NewSourceSink seam against a listening loop-back port, for every spelling of the protocol name the
// dispatcher might accept and every TCP method. An end-to-end probe must never run the SACK
// implementation: no TCP connection may reach the target's listener and no SYN-ACK capture filter
// may be installed. (A spelling the dispatcher rejects is fine: the request fails.)

import (
	"context"
	"fmt"
	"net"
	"testing"
	"testing/synctest"
	"time"

	"github.com/DataDog/datadog-traceroute/packets"
	"github.com/DataDog/datadog-traceroute/traceroute"

	"verifharness/hx"
)

func c20E2eReal(t *testing.T, rep *hx.Report) {
	for _, proto := range []string{"tcp", "TCP", "Tcp", "tcP", " tcp", "udp", "UDP", "icmp", "ICMP"} {
		for _, m := range []string{"", "syn", "sack", "prefer_sack", "SACK", "Prefer_Sack"} {
			ln, err := net.Listen("tcp4", "127.0.0.1:0")
			if err != nil {
				t.Fatalf("listen: %v", err)
			}
			port := ln.Addr().(*net.TCPAddr).Port
			var rtt float64
			var rerr error
			synackFilter, handles := false, 0
			synctest.Test(t, func(t *testing.T) {
				w := &bwWire{}
				defer bwInstall(w)()
				rtt, rerr = traceroute.VerifE2eProbeOnce(context.Background(), traceroute.TracerouteParams{Hostname: "127.0.0.1", Protocol: proto,
					MinTTL: 1, MaxTTL: 3, Delay: 1, Timeout: 20 * time.Millisecond, TCPMethod: traceroute.TCPMethod(m)}, port)
				w.mu.Lock()
				handles = len(w.Sources)
				for _, s := range w.Sources {
					s.mu.Lock()
					for _, f := range s.Filters {
						if f.FilterType == packets.FilterTypeSYNACK {
							synackFilter = true
						}
					}
					s.mu.Unlock()
				}
				w.mu.Unlock()
			})
			ln.(*net.TCPListener).SetDeadline(time.Now().Add(30 * time.Millisecond))
			cn, aerr := ln.Accept()
			connected := aerr == nil
			if connected {
				cn.Close()
			}
			ln.Close()
			sample := map[string]any{"stream": "e2e-real", "protocol": proto, "method": m, "rtt": rtt, "error": fmt.Sprint(rerr), "handles_opened": handles,
				"tcp_connection_reached_the_target": connected, "synack_filter_installed": synackFilter}
			rep.Case("e2e-real", proto+"|"+m, true, sample)
			rep.Hit(fmt.Sprintf("e2e-real:%q:accepted=%v", proto, rerr == nil))
			if connected || synackFilter {
				rep.Violate(hx.Violation{Kind: "spec", What: fmt.Sprintf("an end-to-end probe (protocol %q, method %q) ran the SACK implementation: TCP connection to the target=%v, SYN-ACK capture filter=%v", proto, m, connected, synackFilter),
					Sig: map[string]string{"stream": "e2e-real", "defect": "e2e-probe-uses-sack"}, Replay: sample})
			}
		}
	}
}
