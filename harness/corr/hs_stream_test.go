package corr

// The SACK capability handshake as a matcher (C11: concurrent SACK runs; C20: capability verdict).
// The REAL sackDriver.ReadHandshake reads a scripted capture: while it runs, the capture filter
// admits every SYN-ACK that reaches the machine, so the script holds SYN-ACKs of OTHER connections
// (a concurrent run to the same target and port from another local port, other targets, other
// hosts), segments of this connection that are not the SYN-ACK, option variants (SACK-permitted
// present / absent / after an end-of-list byte, timestamps whole / truncated / twice, sequence
// numbers at the 2^32 wrap), truncations and noise. The state the real driver adopts is compared
// with the Lean model TRV.Drv.hsRead (theorems c11_handshake_*, c20_handshake_*), and judged on its
// own: whatever was adopted must have been read off a SYN-ACK of this run's own 4-tuple.

import (
	"encoding/binary"
	"errors"
	"fmt"
	"net/netip"
	"strings"
	"testing"
	"time"

	"github.com/DataDog/datadog-traceroute/common"
	"github.com/DataDog/datadog-traceroute/sack"

	"verifharness/hx"
)

type hsPkt struct {
	What string
	Pkt  []byte
}

func hsOptions(r *hx.RNG, class string) []byte {
	be := func(v uint32) []byte { b := make([]byte, 4); binary.BigEndian.PutUint32(b, v); return b }
	tsv := hx.Pick(r, []uint32{1, 0, 0xffffffff, 0xffffffd0, uint32(r.U64())})
	tse := hx.Pick(r, []uint32{2, 0, 0xffffffff, 0xffffffce, 0xffffffcd, uint32(r.U64())})
	ts := append(append([]byte{8, 10}, be(tsv)...), be(tse)...)
	mss, sp, nop, ws := []byte{2, 4, 5, 0xb4}, []byte{4, 2}, []byte{1}, []byte{3, 3, 7}
	var parts [][]byte
	switch class {
	case "linux":
		parts = [][]byte{mss, sp, ts, nop, ws}
	case "sp-only":
		parts = [][]byte{sp}
	case "none":
		parts = nil
	case "no-sp":
		parts = [][]byte{mss, nop, ws, nop, nop, ts}
	case "sp-after-eol":
		parts = [][]byte{mss, {0}, sp, nop}
	case "ts-trunc6":
		parts = [][]byte{mss, sp, append([]byte{8, 6}, be(tsv)...), nop, nop}
	case "ts-trunc2-first":
		parts = [][]byte{{8, 2}, sp, mss}
	case "ts-trunc-no-sp":
		parts = [][]byte{mss, {8, 9, 1, 2, 3, 4, 5, 6, 7}, nop}
	case "ts-twice":
		parts = [][]byte{sp, ts, append(append([]byte{8, 10}, be(tse+7)...), be(tsv+9)...)}
	case "sp-twice-unknown":
		parts = [][]byte{sp, {30, 4, 9, 9}, sp, nop, nop}
	case "bad-length":
		parts = [][]byte{mss, {4, hx.Pick(r, []byte{0, 1, 40})}, sp}
	default: // random order of a random subset
		all := [][]byte{mss, sp, ts, nop, ws, nop, {30, 3, 1}}
		for _, i := range r.Perm(len(all)) {
			if r.Chance(2, 3) {
				parts = append(parts, all[i])
			}
		}
	}
	var o []byte
	for _, p := range parts {
		o = append(o, p...)
	}
	if len(o) > 40 {
		o = o[:40]
	}
	return o
}

var hsOptClasses = []string{"linux", "linux", "sp-only", "none", "no-sp", "sp-after-eol", "ts-trunc6", "ts-trunc2-first", "ts-trunc-no-sp",
	"ts-twice", "sp-twice-unknown", "bad-length", "random", "random"}

func genHsPackets(r *hx.RNG, c drvCfg) []hsPkt {
	other := func(a netip.Addr) netip.Addr {
		for {
			b := mustAddr(hx.Pick(r, v4Hosts))
			if b != a {
				return b
			}
		}
	}
	otherPort := func(p uint16) uint16 {
		switch r.Intn(4) {
		case 0:
			return p + 1
		case 1:
			return p - 1
		case 2:
			return p ^ 0x8000
		}
		for {
			q := uint16(r.Range(1, 65535))
			if q != p {
				return q
			}
		}
	}
	seq := hx.Pick(r, []uint32{0xffffffff, 0, 0xfffffffe, uint32(r.U64()), uint32(r.U64())})
	ack := hx.Pick(r, []uint32{0xffffffff, 0, 0xffffff01, uint32(r.U64()), uint32(r.U64())})
	mk := func(what string) hsPkt {
		src, dst, sp, dp := c.Target, c.Local, c.TPort, c.LPort
		flags := byte(0x12)
		cls := hx.Pick(r, hsOptClasses)
		sq, ak := seq, ack
		var ipopts []byte
		switch what {
		case "own":
		case "own-ece":
			flags = hx.Pick(r, []byte{0x52, 0xd2, 0x1a, 0x32})
		case "own-ipopts":
			ipopts = []byte{1, 1, 1, 0}
		case "other-lport": // a concurrent run to the same target and port
			dp = otherPort(dp)
			sq, ak = uint32(r.U64()), uint32(r.U64())
		case "other-tport":
			sp = otherPort(sp)
			sq, ak = uint32(r.U64()), uint32(r.U64())
		case "both-ports":
			sp, dp = otherPort(sp), otherPort(dp)
		case "swapped-ports":
			sp, dp = dp, sp
		case "other-src":
			src = other(src)
		case "other-dst":
			dst = other(dst)
		case "reversed":
			src, dst, sp, dp = dst, src, dp, sp
		case "not-synack":
			flags = hx.Pick(r, []byte{0x02, 0x10, 0x14, 0x04, 0x11, 0x18, 0x00})
		}
		seg := tcpSegment(src, dst, sp, dp, sq, ak, flags, hsOptions(r, cls), nil)
		return hsPkt{what + "/" + cls, ip4Packet(src, dst, 6, uint16(r.U64()), 60, 0, 0x4000, ipopts, seg)}
	}
	kinds := []string{"own", "own", "own", "own-ece", "own-ipopts", "other-lport", "other-lport", "other-tport", "both-ports", "swapped-ports",
		"other-src", "other-dst", "reversed", "not-synack", "not-synack", "truncated", "noise", "icmp", "udp-same-ports"}
	var out []hsPkt
	n := r.Range(1, 5)
	for i := 0; i < n; i++ {
		k := hx.Pick(r, kinds)
		if i == n-1 && r.Chance(1, 2) {
			k = "own"
		}
		switch k {
		case "truncated":
			p := mk("own")
			cut := r.Range(1, len(p.Pkt)-1)
			out = append(out, hsPkt{"truncated", p.Pkt[:cut]})
		case "noise":
			if r.Chance(1, 12) {
				out = append(out, hsPkt{"zero-length", nil})
			} else {
				out = append(out, hsPkt{"noise", r.Bytes(r.Range(1, 80))})
			}
		case "icmp":
			q := mk("own")
			out = append(out, hsPkt{"icmp-quoting-synack", ip4Packet(c.Target, c.Local, 1, 7, 60, 0, 0, nil, icmp4Msg(11, 0, [4]byte{}, q.Pkt))})
		case "udp-same-ports":
			u := make([]byte, 8+12)
			binary.BigEndian.PutUint16(u[0:], c.TPort)
			binary.BigEndian.PutUint16(u[2:], c.LPort)
			binary.BigEndian.PutUint16(u[4:], uint16(len(u)))
			out = append(out, hsPkt{"udp-same-ports", ip4Packet(c.Target, c.Local, 17, 7, 60, 0, 0, nil, u)})
		default:
			out = append(out, mk(k))
		}
	}
	return out
}

func hsReal(c drvCfg, pkts []hsPkt) (out string, st sack.VerifState) {
	wire := newMemWire()
	par := common.TracerouteParallelParams{TracerouteParams: common.TracerouteParams{
		MinTTL: uint8(c.Min), MaxTTL: uint8(c.Max), TracerouteTimeout: time.Second,
		PollFrequency: 50 * time.Millisecond, SendDelay: 10 * time.Millisecond}}
	p := sack.Params{Target: netip.AddrPortFrom(c.Target, c.TPort), ParallelParams: par, LoosenICMPSrc: c.Loosen,
		HandshakeTimeout: time.Second, FinTimeout: time.Second}
	d, err := sack.VerifNewDriver(p, c.Local, wire.Sink(), wire.Source())
	if err != nil {
		return "ctor-error", st
	}
	for _, q := range pkts {
		wire.Inject(q.Pkt)
	}
	defer func() {
		if x := recover(); x != nil {
			out = "panic"
		}
	}()
	err = sack.VerifReadHandshake(d, c.LPort)
	st, ok := sack.VerifGetState(d)
	var ns *sack.NotSupportedError
	switch {
	case err == nil && ok:
		ts := "-"
		if st.HasTS {
			ts = fmt.Sprintf("%d:%d", st.TSValue, st.TSEcr)
		}
		return fmt.Sprintf("done:%d:%d:%s", st.LocalInitSeq, st.LocalInitAck, ts), st
	case err == nil:
		return "returned-nil-without-state", st
	case errors.As(err, &ns):
		return "nosup", st
	case strings.Contains(err.Error(), "truncated timestamps"):
		return "truncts", st
	case strings.Contains(err.Error(), "timed out"):
		return "timeout", st
	}
	return "fatal", st
}

// hsOwnSynAck reads a captured packet at raw offsets (no decoder): is it a SYN-ACK of the run's own
// 4-tuple, and does it carry a SACK-permitted option before any end-of-list byte?
func hsOwnSynAck(c drvCfg, p []byte) (own bool, seq, ack uint32, sackPerm bool) {
	if len(p) < 40 || p[0]>>4 != 4 || p[9] != 6 {
		return
	}
	ihl := int(p[0]&15) * 4
	if ihl < 20 || len(p) < ihl+20 {
		return
	}
	src, _ := netip.AddrFromSlice(p[12:16])
	dst, _ := netip.AddrFromSlice(p[16:20])
	t := p[ihl:]
	if src != c.Target || dst != c.Local || binary.BigEndian.Uint16(t[0:]) != c.TPort || binary.BigEndian.Uint16(t[2:]) != c.LPort {
		return
	}
	if t[13]&0x12 != 0x12 {
		return
	}
	own, seq, ack = true, binary.BigEndian.Uint32(t[4:]), binary.BigEndian.Uint32(t[8:])
	doff := int(t[12]>>4) * 4
	if doff > len(t) {
		doff = len(t)
	}
	for o := t[20:doff]; len(o) > 0; {
		switch {
		case o[0] == 0:
			return
		case o[0] == 1:
			o = o[1:]
		case len(o) < 2 || o[1] < 2 || int(o[1]) > len(o):
			return
		default:
			if o[0] == 4 {
				sackPerm = true
			}
			o = o[o[1]:]
		}
	}
	return
}

func handshakeStream(t *testing.T, rep *hx.Report, orc *hx.Oracle, rng *hx.RNG, n int) {
	type item struct {
		c    drvCfg
		pkts []hsPkt
		impl string
		st   sack.VerifState
		line string
	}
	items := make([]item, n)
	lines := make([]string, n)
	for i := range items {
		c := genCfg(rng, "sack")
		pk := genHsPackets(rng, c)
		impl, st := hsReal(c, pk)
		toks := make([]string, len(pk))
		for k, q := range pk {
			toks[k] = hx2(q.Pkt)
		}
		items[i] = item{c, pk, impl, st, fmt.Sprintf("drv.hs %s %d %s %d %s", hx2(c.Local.AsSlice()), c.LPort, hx2(c.Target.AsSlice()), c.TPort, strings.Join(toks, " "))}
		lines[i] = items[i].line
	}
	answers, err := orc.Batch(lines)
	if err != nil {
		t.Fatalf("oracle(handshake): %v", err)
	}
	for i, it := range items {
		ans := strings.Split(answers[i], " ")
		if answers[i] == "bad-op" || len(ans) != len(it.pkts)+1 {
			t.Fatalf("oracle rejected %q: %s", it.line, answers[i])
		}
		var whats, hexes []string
		for _, q := range it.pkts {
			whats = append(whats, q.What)
			hexes = append(hexes, hx2(q.Pkt))
			rep.Hit("handshake:packet:" + strings.SplitN(q.What, "/", 2)[0])
		}
		outKind := strings.SplitN(it.impl, ":", 2)[0]
		rep.Hit("handshake:outcome:" + outKind)
		replay := map[string]any{"local": it.c.Local.String(), "local_port": it.c.LPort, "target": it.c.Target.String(), "target_port": it.c.TPort,
			"captured_in_order": whats, "packets": hexes, "implementation": it.impl, "model": ans[0], "model_per_packet": ans[1:], "oracle_line": it.line}
		rep.Case("handshake", it.line, outKind != "timeout", replay)
		// the property's own clause, on the implementation's output
		bad := ""
		switch outKind {
		case "panic":
			bad = "ReadHandshake panicked on a captured packet"
		case "done":
			found := false
			for _, q := range it.pkts {
				if own, sq, ak, _ := hsOwnSynAck(it.c, q.Pkt); own && ak == it.st.LocalInitSeq && sq+1 == it.st.LocalInitAck {
					found = true
				}
			}
			if !found {
				bad = fmt.Sprintf("the handshake adopted sequence base %d / acknowledgement %d, which no captured SYN-ACK of this run's own connection (%s:%d -> %s:%d) carries: "+
					"the state was read off another connection's segment", it.st.LocalInitSeq, it.st.LocalInitAck, it.c.Target, it.c.TPort, it.c.Local, it.c.LPort)
			}
		case "nosup":
			found := false
			for _, q := range it.pkts {
				if own, _, _, spm := hsOwnSynAck(it.c, q.Pkt); own && !spm {
					found = true
				}
			}
			if !found {
				bad = "the handshake reported 'SACK not supported' although no captured SYN-ACK of this run's own connection lacks the SACK-permitted option"
			}
		}
		if bad != "" {
			rep.Violate(hx.Violation{Kind: "spec", What: bad, Sig: map[string]string{"stream": "handshake", "outcome": outKind}, Replay: replay})
			continue
		}
		if it.impl != ans[0] {
			replay["broken"] = "correspondence stream handshake (Lean TRV.Drv.hsRead vs the real sackDriver.ReadHandshake)"
			rep.Violate(hx.Violation{Kind: "correspondence", NoInput: true,
				What: "handshake model and implementation differ (" + it.impl + " vs " + ans[0] + "); the property's own clauses hold on the implementation's output",
				Sig:  map[string]string{"stream": "handshake"}, Replay: replay})
		}
	}
}
