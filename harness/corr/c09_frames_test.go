package corr

// C09, frames stream: hostile bytes at the link layer. Every frame length 0..70 for every EtherType
// of interest (IPv4, IPv6, 802.1Q, 802.1ad, ARP, PPPoE, LLC lengths, random) and random contents goes
// through the REAL stripEthernetHeader (what the AF_PACKET and BPF capture sources run on every
// frame before the parser sees it): it must not panic, and it hands up exactly the bytes behind a
// 14-byte Ethernet II header with an IP EtherType — nothing for any other frame.

import (
	"bytes"
	"encoding/binary"
	"fmt"
	"testing"

	"github.com/DataDog/datadog-traceroute/packets"

	"verifharness/hx"
)

func c09Frames(t *testing.T, rep *hx.Report, orc *hx.Oracle, rng *hx.RNG, randomPerLen int) {
	var lines, impls []string
	var frames [][]byte
	defer func() {
		// correspondence with the Lean model of stripEthernetHeader (TRV.Link.strip)
		ans, err := orc.Batch(lines)
		if err != nil {
			t.Fatalf("oracle(link.strip): %v", err)
		}
		for i := range ans {
			if ans[i] != impls[i] {
				rep.Violate(hx.Violation{Kind: "correspondence", NoInput: true, What: "stripEthernetHeader and its model TRV.Link.strip differ; the link-layer spec holds on the implementation's output",
					Sig: map[string]string{"stream": "frames"}, Replay: map[string]any{"frame": hx2(frames[i]), "real": impls[i], "model": ans[i],
						"broken": "correspondence stream link/strip (Lean TRV.Link.strip vs packets.stripEthernetHeader)"}})
				return
			}
		}
	}()
	ets := []uint16{0x0800, 0x86dd, 0x8100, 0x88a8, 0x9100, 0x0806, 0x8864, 0x0000, 0x0040, 0x05dc, 0x0600, 0xffff}
	try := func(f []byte, what string) {
		var up []byte
		var err error
		panicked := ""
		func() {
			defer func() {
				if r := recover(); r != nil {
					panicked = fmt.Sprint(r)
				}
			}()
			up, err = packets.VerifStripEthernetHeader(f)
		}()
		if panicked == "" {
			tok := "skip"
			switch {
			case err != nil:
				tok = "error"
			case up != nil:
				tok = "pkt " + hx2(up)
			}
			lines, impls, frames = append(lines, "link.strip "+hx2(f)), append(impls, tok), append(frames, f)
		}
		et := -1
		if len(f) >= 14 {
			et = int(binary.BigEndian.Uint16(f[12:]))
		}
		rep.Case("frames", hx2(f), len(f) >= 14, nil)
		rep.Hit(fmt.Sprintf("frames:%s:ethertype=%04x", map[bool]string{true: "handed-up", false: "skipped"}[len(up) > 0], et&0xffff))
		replay := map[string]any{"frame": hx2(f), "kind": what, "handed_up": hx2(up), "error": fmt.Sprint(err), "panic": panicked}
		switch {
		case panicked != "":
			rep.Violate(hx.Violation{Kind: "spec", What: "stripEthernetHeader panics on a " + fmt.Sprint(len(f)) + "-byte frame (" + what + "): " + panicked + " — on the capture goroutine this crashes the process",
				Sig: map[string]string{"stream": "frames", "defect": "crash"}, Replay: replay})
		case (et == 0x0800 || et == 0x86dd) && err == nil && !bytes.Equal(up, f[14:]):
			rep.Violate(hx.Violation{Kind: "spec", What: "stripEthernetHeader does not hand up the bytes behind the Ethernet header of an IP frame",
				Sig: map[string]string{"stream": "frames", "defect": "wrong-payload"}, Replay: replay})
		case et != 0x0800 && et != 0x86dd && len(up) > 0:
			rep.Violate(hx.Violation{Kind: "spec", What: fmt.Sprintf("stripEthernetHeader hands a non-IP frame (EtherType %#04x) to the parser", et),
				Sig: map[string]string{"stream": "frames", "defect": "non-ip-handed-up"}, Replay: replay})
		}
	}
	for n := 0; n <= 70; n++ {
		for _, et := range ets {
			f := make([]byte, n)
			for i := range f {
				f[i] = byte(0x40 + i)
			}
			if n >= 14 {
				binary.BigEndian.PutUint16(f[12:], et)
			}
			try(f, "patterned")
			if n >= 18 && (et == 0x8100 || et == 0x88a8) { // a tag in front of an IP EtherType
				g := append([]byte(nil), f...)
				binary.BigEndian.PutUint16(g[16:], 0x0800)
				try(g, "vlan-tagged-ip")
			}
		}
		for k := 0; k < randomPerLen; k++ {
			f := rng.Bytes(n)
			if n >= 14 && rng.Chance(2, 3) {
				binary.BigEndian.PutUint16(f[12:], hx.Pick(rng, ets))
			}
			try(f, "random")
		}
	}
}
