//go:build linux

package corr

// C12, source stream: the REAL AF_PACKET Source implementation (Read + SetPacketFilter, with the
// real SetBPFAndDrain / RemoveBPF and the kernel's socket-filter execution) driven over an AF_UNIX
// datagram pair. Random sequences of SetPacketFilter calls — the same filter type twice with
// different tuples, filter removal, type changes — each followed by frames; after every call the
// Source must deliver exactly the frames the LAST requested filter accepts (reference predicate of
// the property text), stripped of the Ethernet header, and nothing else. This ties the glue around
// the generated programs (which program is attached when) to the property.

import (
	"bytes"
	"encoding/binary"
	"errors"
	"fmt"
	"net/netip"
	"os"
	"testing"
	"time"

	"github.com/DataDog/datadog-traceroute/packets"
	"golang.org/x/sys/unix"

	"verifharness/hx"
)

func c12SpecOf(c c12Filter) packets.PacketFilterSpec {
	switch c.Name {
	case "icmp":
		return packets.PacketFilterSpec{FilterType: packets.FilterTypeICMP}
	case "udp":
		return packets.PacketFilterSpec{FilterType: packets.FilterTypeUDP}
	case "synack":
		return packets.PacketFilterSpec{FilterType: packets.FilterTypeSYNACK}
	case "tcp":
		return packets.PacketFilterSpec{FilterType: packets.FilterTypeTCP, FilterConfig: packets.FilterConfig{
			Src: netip.AddrPortFrom(c12Addr(c.SA), c.SP), Dst: netip.AddrPortFrom(c12Addr(c.DA), c.DP)}}
	}
	return packets.PacketFilterSpec{FilterType: packets.FilterTypeNone}
}

func c12SourceStream(t *testing.T, rep *hx.Report, rng *hx.RNG, n int) {
	fds, err := unix.Socketpair(unix.AF_UNIX, unix.SOCK_DGRAM|unix.SOCK_NONBLOCK, 0)
	if err != nil {
		rep.Note("source stream skipped: AF_UNIX socket pair unavailable: %v", err)
		return
	}
	tx := fds[0]
	defer unix.Close(tx)
	rxFile := os.NewFile(uintptr(fds[1]), "c12-source-rx")
	src := packets.VerifAFPacketSourceFromFile(rxFile)
	defer src.Close()

	tuples := []c12Filter{
		{Name: "tcp", SA: 0xc6336407, SP: 443, DA: 0xc000020a, DP: 40002},
		{Name: "tcp", SA: 0xc6336407, SP: 443, DA: 0xc000020a, DP: 40003},
		{Name: "tcp", SA: 0xcb007109, SP: 80, DA: 0xc000020a, DP: 40002},
	}
	mac := []byte{0x02, 0, 0, 0, 0, 1, 0x02, 0, 0, 0, 0, 2}
	eth := func(et uint16, p []byte) []byte {
		f := append(append([]byte(nil), mac...), byte(et>>8), byte(et))
		return append(f, p...)
	}
	var frames [][]byte
	for _, tp := range tuples {
		s, d := c12Addr(tp.SA), c12Addr(tp.DA)
		frames = append(frames, eth(0x0800, ip4Packet(s, d, 6, 7, 60, 0, 0x4000, nil, tcpSegment(s, d, tp.SP, tp.DP, 1000, 2001, 0x12, nil, nil))))
		frames = append(frames, eth(0x0800, ip4Packet(s, d, 6, 7, 60, 0, 0, []byte{1, 1, 1, 0}, tcpSegment(s, d, tp.SP, tp.DP, 1000, 2001, 0x14, nil, nil))))
	}
	r4, l4 := netip.MustParseAddr("10.9.8.7"), c12Addr(0xc000020a)
	frames = append(frames, eth(0x0800, ip4Packet(r4, l4, 1, 9, 250, 0, 0, nil, icmp4Msg(11, 0, [4]byte{}, bytes.Repeat([]byte{0x45}, 28)))))
	frames = append(frames, eth(0x0800, ip4Packet(r4, l4, 17, 9, 60, 0, 0, nil, []byte{0, 53, 0x9c, 0x40, 0, 8, 0, 0})))
	r6, l6 := netip.MustParseAddr("2001:db8::7"), netip.MustParseAddr("2001:db8::1")
	frames = append(frames, eth(0x86dd, ip6Packet(r6, l6, 58, 60, icmp6Msg(r6, l6, 3, 0, [4]byte{}, bytes.Repeat([]byte{0x60}, 48)))))
	frames = append(frames, eth(0x0806, bytes.Repeat([]byte{0, 1}, 14))) // ARP: never handed up

	buf := make([]byte, 4096)
	peek := make([]byte, 4096)
	installed := c12Filter{Name: "none"}
	for i := 0; i < n; i++ {
		// one SetPacketFilter call
		var want c12Filter
		switch rng.Intn(6) {
		case 0:
			want = c12Filter{Name: "none"}
		case 1:
			want = c12Filter{Name: "icmp"}
		case 2:
			want = c12Filter{Name: "udp"}
		case 3:
			want = c12Filter{Name: "synack"}
		default:
			want = hx.Pick(rng, tuples)
		}
		if want.Name == "none" && installed.Name == "none" {
			want = c12Filter{Name: "icmp"} // detaching with nothing attached is an error of the kernel call (ENOENT), not a filter question
		}
		// frames that the REQUESTED filter rejects keep arriving while the filter is being changed: once
		// SetPacketFilter has returned, none of them may come out of the Source (this is what the drop-all
		// + drain sequence of SetBPFAndDrain is for; a frame that slips in between the drain and the new
		// program stays queued whatever is attached later)
		var during [][]byte
		if want.Name != "none" && rng.Chance(1, 2) {
			for _, f := range frames {
				if pass, _ := c12Spec(want, f); !pass {
					during = append(during, f)
				}
			}
		}
		stop, done := make(chan struct{}), make(chan int)
		go func() {
			n := 0
			for len(during) > 0 {
				select {
				case <-stop:
					done <- n
					return
				default:
				}
				if unix.Send(tx, during[n%len(during)], unix.MSG_DONTWAIT) == nil {
					n++
				}
			}
			<-stop
			done <- n
		}()
		if len(during) > 0 {
			time.Sleep(200 * time.Microsecond) // let the flood start before the call
		}
		err := src.SetPacketFilter(c12SpecOf(want))
		close(stop)
		sentDuring := <-done
		if err == nil && len(during) > 0 {
			rep.Hit("source:frames-arriving-during-set")
			for k := 0; k < 64; k++ {
				var m int
				rerr := readRobust(src, fds[1], func() (e error) { m, e = src.Read(buf); return })
				if rerr != nil {
					break
				}
				got := append(append([]byte(nil), mac...), 0, 0)
				got = append(got, buf[:m]...)
				binary.BigEndian.PutUint16(got[12:], map[bool]uint16{true: 0x86dd, false: 0x0800}[m > 0 && buf[0]>>4 == 6])
				if pass, _ := c12Spec(want, got); !pass {
					rep.Violate(hx.Violation{Kind: "spec",
						What:   fmt.Sprintf("after SetPacketFilter(%s) returned, the Source delivered a frame that this filter rejects: it arrived while the filter was being changed (%d frames were sent during the call) and was neither dropped nor drained", want.token(), sentDuring),
						Sig:    map[string]string{"stream": "source", "defect": "frame-from-before-the-filter-survives"},
						Replay: map[string]any{"requested_filter": want.token(), "previous_filter": installed.token(), "delivered_packet": hx2(buf[:m]), "frames_sent_during_the_call": sentDuring}})
					break
				}
			}
		}
		if err != nil {
			rep.Violate(hx.Violation{Kind: "correspondence", NoInput: true, What: "source stream: SetPacketFilter failed on the socket pair: " + err.Error(),
				Sig: map[string]string{"stream": "source"}, Replay: map[string]any{"requested": want.token(), "previous": installed.token()}})
			return
		}
		prev := installed
		installed = want
		rep.Hit("source:set:" + prev.Name + "->" + want.Name)
		if prev.Name == want.Name && prev.token() != want.token() {
			rep.Hit("source:set:same-type-other-config")
		}
		for _, fi := range rng.Perm(len(frames))[:rng.Range(3, len(frames))] {
			f := frames[fi]
			if err := unix.Send(tx, f, 0); err != nil {
				t.Fatalf("send: %v", err)
			}
			expectPass := true
			if installed.Name != "none" {
				expectPass, _ = c12Spec(installed, f)
			}
			isIP := binary.BigEndian.Uint16(f[12:]) == 0x0800 || binary.BigEndian.Uint16(f[12:]) == 0x86dd
			// is anything queued? (delivery over the socket pair is synchronous)
			_, _, perr := unix.Recvfrom(fds[1], peek, unix.MSG_DONTWAIT|unix.MSG_PEEK)
			queued := perr == nil
			got := "dropped"
			var payload []byte
			if queued {
				var m int
				rerr := readRobust(src, fds[1], func() (e error) { m, e = src.Read(buf); return })
				switch {
				case rerr == nil:
					got, payload = "delivered", append([]byte(nil), buf[:m]...)
				case errors.Is(rerr, os.ErrDeadlineExceeded):
					got = "queued-but-not-handed-up"
				default:
					got = "read-error: " + rerr.Error()
				}
			}
			wantGot := "dropped"
			switch {
			case expectPass && isIP:
				wantGot = "delivered"
			case expectPass:
				wantGot = "queued-but-not-handed-up"
			}
			key := fmt.Sprintf("%s|%s|%d", prev.token(), installed.token(), fi)
			rep.Case("source", key, true, nil)
			rep.Hit("source:" + installed.Name + ":" + got)
			if got != wantGot || (got == "delivered" && !bytes.Equal(payload, f[14:])) {
				rep.Violate(hx.Violation{Kind: "spec",
					What: fmt.Sprintf("after SetPacketFilter(%s) (previous: %s) the AF_PACKET source %s a frame that the requested filter must %s", installed.token(), prev.token(),
						map[string]string{"delivered": "delivers", "dropped": "hides", "queued-but-not-handed-up": "does not hand up"}[got], map[bool]string{true: "accept", false: "reject"}[expectPass]),
					Sig: map[string]string{"stream": "source", "defect": "attached-filter-is-not-the-requested-one"},
					Replay: map[string]any{"requested_filter": installed.token(), "previous_filter": prev.token(), "frame": hx2(f), "observed": got, "expected": wantGot,
						"payload": hx2(payload)}})
			}
		}
	}
}
