package corr

// C10 extra stream (lead): faults the enumeration of c10_test.go does not reach through the plain
// fault classes — a handle whose Close() itself fails, and a send that fails only AFTER staying in
// flight while the destination answer is being processed. Spec-on-implementation only (the
// property's own wording): error ⇒ no result and the cause is wrapped; every handle closed exactly
// once, never used after close — whatever Close returns.

import (
	"errors"
	"fmt"
	"strings"
	"testing"
	"time"

	"verifharness/hx"
)

func c10ExtraStream(t *testing.T, rep *hx.Report, rng *hx.RNG, env hx.Env) {
	for i := 0; i < env.Scale(60, 1200); i++ {
		c := genRunLevel(rng)
		c.Noise = 0
		c.Silent = map[int]bool{}
		mode := []string{"close-sink", "close-source", "close-both", "slow-send-at-dest", "slow-send", "slow-read-past-deadline"}[i%6]
		switch mode {
		case "close-sink":
			c.Faults = []wireFault{{Op: "close-sink", K: 0, Class: "fatal"}}
		case "close-source":
			c.Faults = []wireFault{{Op: "close-source", K: 0, Class: "fatal"}}
		case "close-both":
			c.Faults = []wireFault{{Op: "close-sink", K: 0, Class: "fatal"}, {Op: "close-source", K: 0, Class: "fatal"}}
		case "slow-send-at-dest":
			// the probe right after the destination's probe stays in flight for 60 ms (the destination
			// answers within 41 ms) and then fails
			if c.DestHop >= c.Max {
				c.Max = c.DestHop + 2
			}
			c.Faults = []wireFault{{Op: "write", K: c.DestHop - c.Min + 1, Class: "fatal-slow", SlowBy: 60 * time.Millisecond}}
		case "slow-read-past-deadline":
			// a capture read that is still blocked when the run's listening time is over, and then fails
			c.DestHop = c.Max + 2
			c.Faults = []wireFault{{Op: "read", K: rng.Range(0, 6), Class: "fatal-slow", SlowBy: time.Duration(rng.Range(400, 3000)) * time.Millisecond}}
		default:
			c.Faults = []wireFault{{Op: "write", K: rng.Intn(c.Max - c.Min + 1), Class: "fatal-slow", SlowBy: time.Duration(rng.Range(1, 80)) * time.Millisecond}}
		}
		o := runRunLevel(t, c)
		replay := map[string]any{"protocol": c.Proto, "target": c.Target.String(), "min": c.Min, "max": c.Max, "dest_hop": c.DestHop,
			"mode": mode, "faults": fmt.Sprint(c.Faults), "script_seed": c.Seed, "error": fmt.Sprint(o.Err), "reported_hops": hopsString(o.Hops),
			"source_closes": o.SrcClose, "sink_closes": o.SnkClose}
		rep.Case("extra/"+mode+"/"+c.Proto, fmt.Sprint(c.Proto, c.Min, c.Max, c.DestHop, c.Seed, mode), true, replay)
		rep.Hit("extra:" + mode + ":" + map[bool]string{true: "err", false: "ok"}[o.Err != nil] + map[bool]string{true: ":fault-reached", false: ""}[len(c.Faults) > 0 && ((c.Faults[0].Op == "write" && o.WriteCalls > c.Faults[0].K) || (c.Faults[0].Op == "read" && o.ReadCalls > c.Faults[0].K))])
		bad := ""
		if o.SrcClose != 1 || o.SnkClose != 1 {
			bad = fmt.Sprintf("capture handle closed %d times, send handle closed %d times (each must be closed exactly once)", o.SrcClose, o.SnkClose)
		}
		if len(o.UseAfter) > 0 {
			bad = "handle used after close: " + strings.Join(o.UseAfter, "; ")
		}
		if strings.HasPrefix(mode, "slow-send") {
			if o.WriteCalls > c.Faults[0].K { // the faulted send was actually attempted
				if o.Err == nil {
					bad = fmt.Sprintf("a probe send failed (call #%d) but the run returned a path as a success", c.Faults[0].K)
				} else if !errors.Is(o.Err, errWireInjected) {
					bad = "the error does not wrap the injected send failure: " + o.Err.Error()
				} else if o.Hops != nil {
					bad = "an error was returned together with a result"
				}
			}
		} else if mode == "slow-read-past-deadline" {
			if o.ReadCalls > c.Faults[0].K { // the faulted read was reached
				if o.Err == nil {
					bad = fmt.Sprintf("a capture read failed (call #%d, returning after the listening time was over) but the run returned a path as a success", c.Faults[0].K)
				} else if !errors.Is(o.Err, errWireInjected) {
					bad = "the error does not wrap the injected read failure: " + o.Err.Error()
				} else if o.Hops != nil {
					bad = "an error was returned together with a result"
				}
			}
		} else if o.Err != nil {
			bad = "a failing Close() made the run fail: " + o.Err.Error()
		}
		if bad != "" {
			rep.Violate(hx.Violation{Kind: "spec", What: bad, Sig: map[string]string{"stream": "extra", "mode": mode, "protocol": c.Proto}, Replay: replay})
		}
	}
}
