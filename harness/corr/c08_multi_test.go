package corr

// C08 at the level of a whole request: the REAL RunTraceroute (the fan-out of runs, end-to-end probes
// and the public-IP lookup in traceroute/traceroute.go) with stubbed per-run functions on the virtual
// clock. Every stubbed call ends — in success or in failure — by a known instant; the caller's context
// is cancelled at instants spread over the launch phase and the time calls are in flight. Whatever mix
// of successes, failures and cancellation: the request must return (a request that is still running a
// virtual minute after the last call ended never will).

import (
	"fmt"
	"testing"
	"time"

	"verifharness/hx"
)

func c08MultiStream(t *testing.T, rep *hx.Report, rng *hx.RNG, n int) {
	for i := 0; i < n; i++ {
		k := rng.Range(1, 9)
		nr := rng.Intn(k + 1)
		if i%3 == 0 && nr == k { // at least one end-to-end probe in a third of the requests
			nr = k - 1
		}
		c := c15Case{NRuns: nr, NProbes: k - nr, Rank: rng.Perm(k), Pub: hx.Pick(rng, []string{"off", "ok", "err"}),
			RDNS: rng.Chance(1, 4), PubRank: rng.Intn(k + 1), Fail: make([]bool, k), NoDest: make([]bool, k), Wrap: make([]int, k)}
		pFail := rng.Intn(5)
		for j := 0; j < k; j++ {
			c.Fail[j] = pFail > 0 && rng.Chance(pFail, 4)
			c.Wrap[j] = rng.Intn(7)
			c.NoDest[j] = j >= nr && rng.Chance(1, 5)
		}
		if i%4 != 3 {
			// calls end between 20 ms and 20 ms + k*3 ms: before, inside and after that span
			c.CancelAt = time.Duration(rng.Range(1, 60000)) * time.Microsecond
		}
		o := c15Run(t, c)
		nFail := 0
		for _, f := range c.Fail {
			if f {
				nFail++
			}
		}
		sample := map[string]any{"runs": c.NRuns, "e2e_probes": c.NProbes, "fail": c.Fail, "completion_rank": c.Rank, "public_ip": c.Pub,
			"cancel_at": c.CancelAt.String(), "how": "real RunTraceroute, per-run function stubbed with traceroute.VerifSetRunOnce, synctest virtual clock; call i ends at 20ms + rank*3.007ms"}
		rep.Case("multi", fmt.Sprint(c.NRuns, c.NProbes, c.Fail, c.Rank, c.Pub, c.CancelAt), k >= 2, sample)
		rep.Hit(fmt.Sprintf("multi:cancel=%v:failing=%v:e2e=%v", c.CancelAt > 0, nFail > 0, c.NProbes > 0))
		if o.Hung {
			rep.Violate(hx.Violation{Kind: "spec", What: fmt.Sprintf("RunTraceroute never returned (%d runs, %d e2e probes, %d failing, context cancelled at %v): every call had ended, the request was still waiting a virtual minute later",
				c.NRuns, c.NProbes, nFail, c.CancelAt), Sig: map[string]string{"stream": "multi"}, Replay: sample})
			return // nothing after a stuck request can be trusted
		}
	}
}
