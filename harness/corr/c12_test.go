package corr

// C12: capture filters. The *real* classic-BPF programs (packets.VerifClassicBPF; the unexported
// dropAllFilter through go:linkname) are executed
//   (a) by golang.org/x/net/bpf's VM, and
//   (b) by the Linux kernel: attached with the repository's own packets.SetBPF to the receiving end
//       of an AF_UNIX datagram socket pair, one datagram per frame (skipped with a note where the
//       sandbox does not allow it),
// on the equivalence-class frame set the property names, and compared with
//   - the Lean interpreter on the generated programs (oracle `bpf.run`): correspondence of the VM
//     semantics and of the translator,
//   - the Lean reference predicate (oracle `bpf.spec`) and an independent Go copy of it: the spec
//     evaluated on the real program's behaviour; a differing frame is the replay,
//   - `bpf.prog`: the generated Lean program, re-encoded, equals the compiled program instruction by
//     instruction for every configuration used (ties the "function of the configuration" claim).

import (
	"encoding/hex"
	"fmt"
	"net/netip"
	"os"
	"sort"
	"strings"
	"syscall"
	"testing"
	_ "unsafe" // go:linkname

	"github.com/DataDog/datadog-traceroute/packets"
	"golang.org/x/net/bpf"
	"golang.org/x/sys/unix"

	"verifharness/hx"
)

//go:linkname c12LinkedDropAll github.com/DataDog/datadog-traceroute/packets.dropAllFilter
var c12LinkedDropAll []bpf.RawInstruction

// c12Filter names one installed program: a static filter or the tuple filter with its configuration.
type c12Filter struct {
	Name   string // dropall | icmp | udp | synack | tcp
	SA, DA uint32
	SP, DP uint16
}

func (c c12Filter) token() string {
	if c.Name == "tcp" {
		return fmt.Sprintf("tcp %d %d %d %d", c.SA, c.DA, c.SP, c.DP)
	}
	return c.Name
}

func c12Addr(v uint32) netip.Addr {
	return netip.AddrFrom4([4]byte{byte(v >> 24), byte(v >> 16), byte(v >> 8), byte(v)})
}

func (c c12Filter) raw() ([]bpf.RawInstruction, error) {
	switch c.Name {
	case "dropall":
		if len(c12LinkedDropAll) == 0 {
			return nil, fmt.Errorf("packets.dropAllFilter not linked")
		}
		return c12LinkedDropAll, nil
	case "icmp":
		return packets.VerifClassicBPF(packets.PacketFilterSpec{FilterType: packets.FilterTypeICMP})
	case "udp":
		return packets.VerifClassicBPF(packets.PacketFilterSpec{FilterType: packets.FilterTypeUDP})
	case "synack":
		// the real call site passes the target as Src; the program must not depend on it
		return packets.VerifClassicBPF(packets.PacketFilterSpec{FilterType: packets.FilterTypeSYNACK,
			FilterConfig: packets.FilterConfig{Src: netip.AddrPortFrom(c12Addr(0xcb007109), 443)}})
	case "tcp":
		return packets.VerifClassicBPF(packets.PacketFilterSpec{FilterType: packets.FilterTypeTCP,
			FilterConfig: packets.FilterConfig{
				Src: netip.AddrPortFrom(c12Addr(c.SA), c.SP),
				Dst: netip.AddrPortFrom(c12Addr(c.DA), c.DP)}})
	}
	return nil, fmt.Errorf("unknown filter %q", c.Name)
}

// ---- Go copy of the reference predicates (TRV.Spec.Filters), from the property text ------------

func c12U8(f []byte, o int) (int, bool) {
	if o >= 0 && o < len(f) {
		return int(f[o]), true
	}
	return 0, false
}
func c12U16(f []byte, o int) (int, bool) {
	if o >= 0 && o+1 < len(f) {
		return int(f[o])<<8 | int(f[o+1]), true
	}
	return 0, false
}
func c12U32(f []byte, o int) (uint32, bool) {
	if o >= 0 && o+3 < len(f) {
		return uint32(f[o])<<24 | uint32(f[o+1])<<16 | uint32(f[o+2])<<8 | uint32(f[o+3]), true
	}
	return 0, false
}

// c12Spec returns the reference verdict and a class label (which clause decided).
func c12Spec(c c12Filter, f []byte) (bool, string) {
	et, okEt := c12U16(f, 12)
	v4 := okEt && et == 0x0800
	v6 := okEt && et == 0x86dd
	proto, okProto := c12U8(f, 23)
	nh, okNh := c12U8(f, 20)
	fnh, okFnh := c12U8(f, 54)
	icmp4 := v4 && okProto && proto == 1
	icmp6 := v6 && ((okNh && nh == 58) || (okNh && nh == 44 && okFnh && fnh == 58))
	switch c.Name {
	case "dropall":
		return false, "reject"
	case "icmp", "udp":
		switch {
		case icmp4:
			return true, "accept-icmp4"
		case icmp6 && nh == 58:
			return true, "accept-icmp6"
		case icmp6:
			return true, "accept-icmp6-frag"
		}
		if c.Name == "udp" {
			switch {
			case v4 && okProto && proto == 17:
				return true, "accept-udp4"
			case v6 && okNh && nh == 17:
				return true, "accept-udp6"
			case v6 && okNh && nh == 44 && okFnh && fnh == 17:
				return true, "accept-udp6-frag"
			}
		}
		switch {
		case !okEt:
			return false, "rej-short-ethertype"
		case v4 && !okProto, v6 && !okNh:
			return false, "rej-short-proto"
		case v6 && nh == 44 && !okFnh:
			return false, "rej-short-fraghdr"
		case v4:
			return false, "rej-proto4"
		case v6 && nh == 44:
			return false, "rej-fraghdr-next"
		case v6:
			return false, "rej-next6"
		}
		return false, "rej-ethertype"
	}
	// tcp, synack
	if !okEt {
		return false, "rej-short-ethertype"
	}
	if !v4 {
		return false, "rej-ethertype"
	}
	if !okProto {
		return false, "rej-short-proto"
	}
	if c.Name == "tcp" && proto == 1 {
		return true, "accept-icmp4"
	}
	if proto != 6 {
		return false, "rej-proto4"
	}
	fr, okFr := c12U16(f, 20)
	b0, okB0 := c12U8(f, 14)
	l4 := 14 + 4*(b0%16)
	if c.Name == "synack" {
		if !okFr || fr%8192 != 0 {
			return false, "rej-fragoffset"
		}
		fl, ok := c12U8(f, l4+13)
		if !okB0 || !ok {
			return false, "rej-short-flags"
		}
		syn, ack := (fl>>1)&1 == 1, (fl>>4)&1 == 1
		switch {
		case syn && ack:
			return true, "accept-synack"
		case !syn && !ack:
			return false, "rej-neither"
		case !syn:
			return false, "rej-no-syn"
		}
		return false, "rej-no-ack"
	}
	src, okS := c12U32(f, 26)
	dst, okD := c12U32(f, 30)
	if !okS {
		return false, "rej-short-src"
	}
	if src != c.SA {
		return false, "rej-src"
	}
	if !okD {
		return false, "rej-short-dst"
	}
	if dst != c.DA {
		return false, "rej-dst"
	}
	if !okFr || fr%8192 != 0 {
		return false, "rej-fragoffset"
	}
	sp, ok1 := c12U16(f, l4)
	if !okB0 || !ok1 {
		return false, "rej-short-sport"
	}
	if sp != int(c.SP) {
		return false, "rej-sport"
	}
	dp, ok2 := c12U16(f, l4+2)
	if !ok2 {
		return false, "rej-short-dport"
	}
	if dp != int(c.DP) {
		return false, "rej-dport"
	}
	if fr != 0 && fr&0x2000 != 0 {
		return true, "accept-tcp-first-fragment"
	}
	return true, "accept-tcp"
}

// ---- frame construction ---------------------------------------------------------------------

type c12V4 struct {
	Et       int
	B0       int // version/IHL byte
	Frag     int
	Proto    int
	Src, Dst uint32
	SP, DP   int
	Flags    int
	L4Wins   bool // for IHL < 5 the transport header overlaps the IP header: who is written last
	Trail    int
}

func c12Put16(f []byte, o, v int) {
	if o+1 < len(f) {
		f[o], f[o+1] = byte(v>>8), byte(v)
	}
}
func c12Put32(f []byte, o int, v uint32) {
	if o+3 < len(f) {
		f[o], f[o+1], f[o+2], f[o+3] = byte(v>>24), byte(v>>16), byte(v>>8), byte(v)
	}
}

func (p c12V4) build(r *hx.RNG) []byte {
	ihl := p.B0 & 0xf
	l4 := 14 + 4*ihl
	n := l4 + 20 + p.Trail
	if n < 34 {
		n = 34 + p.Trail
	}
	f := r.Bytes(n)
	writeIP := func() {
		c12Put16(f, 12, p.Et)
		f[14] = byte(p.B0)
		c12Put16(f, 20, p.Frag)
		f[23] = byte(p.Proto)
		c12Put32(f, 26, p.Src)
		c12Put32(f, 30, p.Dst)
	}
	writeL4 := func() {
		c12Put16(f, l4, p.SP)
		c12Put16(f, l4+2, p.DP)
		if l4+13 < len(f) {
			f[l4+13] = byte(p.Flags)
		}
	}
	if p.L4Wins {
		writeIP()
		writeL4()
	} else {
		writeL4()
		writeIP()
	}
	return f
}

type c12V6 struct {
	Et, Nh, FragNh int
	Trail          int
}

func (p c12V6) build(r *hx.RNG) []byte {
	f := r.Bytes(14 + 40 + 8 + 8 + p.Trail)
	c12Put16(f, 12, p.Et)
	f[14] = 0x60
	f[20] = byte(p.Nh)
	f[23] = byte(r.Intn(256)) // where an IPv4 protocol would be: must be irrelevant
	f[54] = byte(p.FragNh)
	return f
}

var c12Ets = []int{0x0800, 0x86dd, 0x0806, 0x8100, 0x0801, 0x0000, 0x88dd, 0x0008}
var c12Protos = []int{1, 6, 17, 58, 44, 0, 7, 0x86, 255}
var c12Frags = []int{0x0000, 0x2000, 0x4000, 0x0001, 0x1fff, 0x2001, 0x1000, 0xe000}
var c12Nhs = []int{58, 44, 17, 6, 0, 43, 60, 59, 1, 0xba}

func c12BoundaryCfgs() []c12Filter {
	mk := func(sa, da uint32, sp, dp uint16) c12Filter { return c12Filter{"tcp", sa, da, sp, dp} }
	return []c12Filter{
		mk(0xcb007109, 0xc00002c8, 443, 33434),
		mk(0xffffffff, 0xffffffff, 0xffff, 0xffff),
		mk(0x00000000, 0x00000000, 0, 0),
		mk(0x80000000, 0x7fffffff, 0x8000, 0x7fff),
		mk(0x7fffffff, 0x80000000, 0x7fff, 0x8000),
		mk(0x01020304, 0x04030201, 0x0102, 0x0201), // endianness
		mk(0x0a000001, 0x0a000001, 80, 80),         // src = dst
		mk(0xff000000, 0x000000ff, 0xff00, 0x00ff),
		mk(0x80808080, 0xfefefefe, 0x8080, 0xfefe),
		mk(0x00000800, 0x000086dd, 0x0800, 0x86dd),
		mk(0x06060606, 0x01010101, 0x0606, 0x0101),
		mk(0x00060001, 0x1fff2000, 0x0012, 0x1200),
	}
}

func c12RandCfg(r *hx.RNG) c12Filter {
	c := c12Filter{Name: "tcp", SA: uint32(r.U64()), DA: uint32(r.U64()), SP: uint16(r.U64()), DP: uint16(r.U64())}
	if r.Chance(1, 3) { // force high bits / boundary bytes
		c.SA |= 0x80000000
		c.DP |= 0x8000
	}
	if r.Chance(1, 6) {
		c.DA = c.SA
	}
	if r.Chance(1, 6) {
		c.DP = c.SP
	}
	return c
}

type c12Case struct {
	Stream string
	F      c12Filter
	Frame  []byte
}

type c12Prog struct {
	raw    []bpf.RawInstruction
	vm     *bpf.VM
	rawTok string
	err    error
}

func c12Compile(c c12Filter) *c12Prog {
	p := &c12Prog{}
	p.raw, p.err = c.raw()
	if p.err != nil {
		return p
	}
	toks := make([]string, len(p.raw))
	for i, ri := range p.raw {
		toks[i] = fmt.Sprintf("%d,%d,%d,%d", ri.Op, ri.Jt, ri.Jf, ri.K)
	}
	p.rawTok = strings.Join(toks, ";")
	ins, all := bpf.Disassemble(p.raw)
	if !all {
		p.err = fmt.Errorf("x/net/bpf cannot disassemble the program: %v", p.raw)
		return p
	}
	p.vm, p.err = bpf.NewVM(ins)
	return p
}

// c12Kernel runs frames through the kernel's socket filter on an AF_UNIX datagram pair.
type c12Kernel struct {
	tx, rx  int
	rxFile  *os.File
	rawConn syscall.RawConn
	cur     string
	buf     []byte
}

func c12NewKernel() (*c12Kernel, error) {
	fds, err := unix.Socketpair(unix.AF_UNIX, unix.SOCK_DGRAM|unix.SOCK_NONBLOCK, 0)
	if err != nil {
		return nil, err
	}
	k := &c12Kernel{tx: fds[0], rx: fds[1], buf: make([]byte, 4096)}
	k.rxFile = os.NewFile(uintptr(fds[1]), "c12-rx")
	k.rawConn, err = k.rxFile.SyscallConn()
	if err != nil {
		unix.Close(fds[0])
		k.rxFile.Close()
		return nil, err
	}
	return k, nil
}

func (k *c12Kernel) close() {
	unix.Close(k.tx)
	k.rxFile.Close()
}

// verdict attaches the program (the repository's SetBPF) if it is not the current one, sends the frame
// and reports whether the receiving socket got it.
func (k *c12Kernel) verdict(tok string, raw []bpf.RawInstruction, frame []byte) (bool, error) {
	if k.cur != tok {
		if err := packets.SetBPF(k.rawConn, raw); err != nil {
			return false, fmt.Errorf("kernel refused the program: %w", err)
		}
		k.cur = tok
	}
	if err := unix.Send(k.tx, frame, 0); err != nil {
		return false, fmt.Errorf("send: %w", err)
	}
	n, _, err := unix.Recvfrom(k.rx, k.buf, unix.MSG_DONTWAIT)
	if err == unix.EAGAIN || err == unix.EWOULDBLOCK {
		return false, nil
	}
	if err != nil {
		return false, fmt.Errorf("recv: %w", err)
	}
	if n != len(frame) {
		return false, fmt.Errorf("kernel delivered %d of %d bytes", n, len(frame))
	}
	return true, nil
}

// c12SiteNeeds is the Go copy of TRV.Spec.Filters.siteNeeds (what each phase of a variant must see).
var c12SiteNeeds = [][2]string{
	{"icmp/traceroute_icmp.go", "icmpAny"},
	{"sack/traceroute_sack.go", "synackFromTarget"},
	{"sack/traceroute_sack.go", "tuple"},
	{"tcp/tcp_traceroute.go", "tuple"},
	{"udp/udp_traceroute.go", "icmpAny"},
}

func c12Need(n string, cfg c12Filter, f []byte) bool {
	tuple, _ := c12Spec(cfg, f)
	switch n {
	case "icmpAny":
		v, _ := c12Spec(c12Filter{Name: "icmp"}, f)
		return v
	case "synackFromTarget":
		v, _ := c12Spec(c12Filter{Name: "synack"}, f)
		return v && tuple
	case "tuple":
		return tuple
	}
	return false
}

// c12SiteSearch: for every SetPacketFilter site (as extracted into TRV.Generated.Filters.filterSites)
// run the program that site installs on the frames its phase needs; a rejected one is the replay.
func c12SiteSearch(t *testing.T, rep *hx.Report, orc *hx.Oracle, cfg c12Filter, frames [][]byte) {
	ans, err := orc.Batch([]string{"bpf.sites"})
	if err != nil {
		t.Fatalf("oracle(sites): %v", err)
	}
	sites := strings.Split(ans[0], ";")
	if len(sites) != len(c12SiteNeeds) {
		rep.Violate(hx.Violation{Kind: "tie", NoInput: true,
			What: fmt.Sprintf("the variants install filters at %d sites, the phase table lists %d: review TRV.Spec.Filters.siteNeeds", len(sites), len(c12SiteNeeds)),
			Sig:  map[string]string{"stream": "sites"}, Replay: map[string]any{"sites": ans[0]}})
		return
	}
	for i, st := range sites {
		fld := strings.Split(st, "|")
		if len(fld) != 4 || fld[0] != c12SiteNeeds[i][0] {
			rep.Violate(hx.Violation{Kind: "tie", NoInput: true, What: "installation site table does not line up with the phase table: " + st,
				Sig: map[string]string{"stream": "sites"}, Replay: map[string]any{"sites": ans[0]}})
			continue
		}
		file, kind, need := fld[0], fld[1], c12SiteNeeds[i][1]
		rep.Hit("site:" + file + " installs " + kind + " for " + need)
		if kind == "none" {
			continue // no program attached: everything passes
		}
		inst := c12Filter{Name: kind}
		if kind == "tcp" {
			if fld[2] != "1" || fld[3] != "1" {
				rep.Violate(hx.Violation{Kind: "spec", NoInput: true, What: "tuple filter installed with an unset end at " + file,
					Sig: map[string]string{"stream": "sites", "kind": "unset-tuple-end"}, Replay: map[string]any{"site": st}})
				continue
			}
			inst = cfg
		}
		p := c12Compile(inst)
		if p.err != nil {
			rep.Violate(hx.Violation{Kind: "spec", NoInput: true, What: "program of site " + st + " unavailable: " + p.err.Error(),
				Sig: map[string]string{"stream": "sites", "kind": "program-unloadable"}, Replay: map[string]any{"site": st}})
			continue
		}
		needed := 0
		for _, f := range frames {
			if !c12Need(need, cfg, f) {
				continue
			}
			needed++
			ret, rerr := p.vm.Run(f)
			if rerr != nil || ret == 0 {
				rep.Violate(hx.Violation{Kind: "spec",
					What: fmt.Sprintf("%s installs the %s filter, which hides a frame this phase needs (%s)", file, kind, need),
					Sig:  map[string]string{"filter": kind, "kind": "site-hides-needed-frame", "file": file},
					Replay: map[string]any{"site": st, "need": need, "config": cfg.token(), "installed_program": p.rawTok,
						"frame_hex": hex.EncodeToString(f), "vm_return": ret}})
				break
			}
		}
		rep.Note("site %d (%s installs %s): %d frames needed by the phase (%s) checked against the installed program", i, file, kind, needed, need)
		if needed == 0 {
			rep.Violate(hx.Violation{Kind: "tie", NoInput: true, What: "no frame of need " + need + " in the site search set",
				Sig: map[string]string{"stream": "sites", "class": need}, Replay: map[string]any{"site": st}})
		}
	}
}

func TestC12(t *testing.T) {
	env := hx.GetEnv()
	rep := hx.NewReport("C12", env, "frames from the equivalence classes of the inspected fields (ethertype x protocol x IHL 0..15 x MF/offset bits x "+
		"per-byte equal/different addresses and ports x all 256 TCP flag bytes x every prefix length of path-exercising frames x IPv6 next headers) "+
		"run through the real program in x/net/bpf's VM and in the kernel; non-trivial = the frame carries an IPv4/IPv6 EtherType (the program goes past "+
		"its first test); distinct by (filter, configuration, frame bytes)")
	defer rep.Write()
	rng := hx.NewRNG(env.Seed ^ 0xC12)
	orc := hx.NewOracle()

	kern, kerr := c12NewKernel()
	if kerr != nil {
		rep.Note("kernel tie skipped: AF_UNIX socket pair unavailable: %v", kerr)
		kern = nil
	} else {
		defer kern.close()
	}

	// compiled programs are cached (bounded); the raw form of the first maxProgs distinct
	// configurations is kept for the instruction-by-instruction comparison with the generated file
	progs := map[string]*c12Prog{}
	maxProgs := env.Scale(40000, 200000)
	rawOf := map[string]string{}
	nameOf := map[string]string{}
	getProg := func(c c12Filter) *c12Prog {
		tok := c.token()
		if p, ok := progs[tok]; ok {
			return p
		}
		if len(progs) >= 50000 {
			progs = map[string]*c12Prog{}
		}
		p := c12Compile(c)
		progs[tok] = p
		if _, ok := rawOf[tok]; !ok && p.err == nil && len(rawOf) < maxProgs {
			rawOf[tok] = p.rawTok
			nameOf[tok] = c.Name
		}
		return p
	}

	classSeen := map[string]int{}
	kernelRuns := 0
	var pending []c12Case
	flush := func() {
		if len(pending) == 0 {
			return
		}
		lines := make([]string, 0, 2*len(pending))
		for _, cs := range pending {
			fh := "-"
			if len(cs.Frame) > 0 {
				fh = hex.EncodeToString(cs.Frame)
			}
			lines = append(lines, "bpf.run "+cs.F.token()+" "+fh, "bpf.spec "+cs.F.token()+" "+fh)
		}
		ans, err := orc.Batch(lines)
		if err != nil {
			t.Fatalf("oracle: %v", err)
		}
		for i, cs := range pending {
			model, specLean := ans[2*i], ans[2*i+1]
			p := getProg(cs.F)
			frameHex := "-"
			if len(cs.Frame) > 0 {
				frameHex = hex.EncodeToString(cs.Frame)
			}
			replay := map[string]any{"filter": cs.F.Name, "config": cs.F.token(), "frame_hex": frameHex, "frame_len": len(cs.Frame),
				"stream": cs.Stream, "oracle_run": lines[2*i], "oracle_spec": lines[2*i+1], "model_verdict": model, "spec_lean": specLean}
			if p.err != nil {
				rep.Violate(hx.Violation{Kind: "spec", What: "the installed program cannot be obtained or loaded: " + p.err.Error(),
					Sig: map[string]string{"filter": cs.F.Name, "kind": "program-unloadable"}, Replay: replay})
				continue
			}
			ret, rerr := p.vm.Run(cs.Frame)
			impl := b2s(rerr == nil && ret != 0)
			specGo, class := c12Spec(cs.F, cs.Frame)
			replay["vm_return"] = ret
			replay["impl_verdict"] = impl
			replay["spec_go"] = b2s(specGo)
			replay["class"] = class
			replay["program"] = p.rawTok
			label := cs.F.Name + ":" + class
			classSeen[label]++
			rep.Hit("class:" + label)
			et, okEt := c12U16(cs.Frame, 12)
			rep.Case(cs.Stream, cs.F.token()+" "+frameHex, okEt && (et == 0x0800 || et == 0x86dd), map[string]any{
				"filter": cs.F.token(), "frame_hex": frameHex, "verdict": impl, "class": class})
			if rerr != nil {
				rep.Violate(hx.Violation{Kind: "spec", What: "x/net/bpf VM failed on the real program: " + rerr.Error(),
					Sig: map[string]string{"filter": cs.F.Name, "kind": "vm-error"}, Replay: replay})
				continue
			}
			// kernel verdict of the same program on the same frame
			kv := ""
			if kern != nil {
				acc, err := kern.verdict(cs.F.token(), p.raw, cs.Frame)
				if err != nil {
					rep.Violate(hx.Violation{Kind: "spec", What: "kernel run of the real program failed: " + err.Error(),
						Sig: map[string]string{"filter": cs.F.Name, "kind": "kernel-error"}, Replay: replay})
					kern.cur = ""
					continue
				}
				kernelRuns++
				kv = b2s(acc)
				replay["kernel_verdict"] = kv
			}
			// spec on the real program's behaviour first
			if specLean != "0" && specLean != "1" {
				rep.Violate(hx.Violation{Kind: "correspondence", NoInput: true, What: "oracle bpf.spec did not answer 0/1: " + specLean,
					Sig: map[string]string{"filter": cs.F.Name, "stream": "bpf.spec"}, Replay: replay})
				continue
			}
			if b2s(specGo) != specLean {
				rep.Violate(hx.Violation{Kind: "correspondence", NoInput: true,
					What: "the Go copy of the reference predicate and TRV.Spec.Filters disagree (harness defect, not a property violation)",
					Sig:  map[string]string{"filter": cs.F.Name, "stream": "spec-copy"}, Replay: replay})
				continue
			}
			if impl != specLean || (kv != "" && kv != specLean) {
				what := "accepts a frame outside its specification"
				kind := "accepts-outside-spec"
				if specLean == "1" {
					what = "rejects a frame it must accept (a matchable reply would be hidden)"
					kind = "rejects-inside-spec"
				}
				where := "x/net/bpf VM"
				if impl == specLean {
					where = "Linux kernel"
				}
				rep.Violate(hx.Violation{Kind: "spec", What: fmt.Sprintf("%s filter %s [%s, class %s]", cs.F.Name, what, where, class),
					Sig: map[string]string{"filter": cs.F.Name, "kind": kind}, Replay: replay})
				continue
			}
			if model != impl {
				replay["broken"] = "correspondence stream bpf.run (Lean TRV.Bpf.exec on TRV.Generated.Filters vs x/net/bpf VM on packets.VerifClassicBPF)"
				rep.Violate(hx.Violation{Kind: "correspondence", NoInput: true,
					What: "Lean BPF model on the generated program and the VM on the real program differ; the reference predicate holds on the real program",
					Sig:  map[string]string{"filter": cs.F.Name, "stream": "bpf.run"}, Replay: replay})
			}
		}
		pending = pending[:0]
	}
	var siteFrames [][]byte // frames reused for the search over installation sites
	add := func(stream string, c c12Filter, frame []byte) {
		if (c.Name == "icmp" && stream != "random-structured" && stream != "random-bytes") || (c.Name == "synack" && stream == "flags") {
			siteFrames = append(siteFrames, frame)
		}
		pending = append(pending, c12Case{stream, c, frame})
		if len(pending) >= 100000 {
			flush()
		}
	}

	statics := []c12Filter{{Name: "dropall"}, {Name: "icmp"}, {Name: "udp"}, {Name: "synack"}}
	base := c12BoundaryCfgs()[0]
	allFilters := append(append([]c12Filter{}, statics...), base)

	// S1 grid: filter x ethertype x protocol x IHL x fragment word (tuple and flags matching)
	for _, c := range allFilters {
		for _, et := range c12Ets {
			for _, pr := range c12Protos {
				for ihl := 0; ihl < 16; ihl++ {
					for _, fr := range c12Frags {
						p := c12V4{Et: et, B0: 0x40 | ihl, Frag: fr, Proto: pr, Src: base.SA, Dst: base.DA, SP: int(base.SP), DP: int(base.DP),
							Flags: 0x12, L4Wins: ihl >= 5, Trail: 2}
						add("grid4", c, p.build(rng))
					}
				}
			}
		}
	}

	// S2 per-byte equal/different on the twelve tuple bytes, boundary and random configurations
	cfgs := c12BoundaryCfgs()
	for i := 0; i < env.Scale(12, 200); i++ {
		cfgs = append(cfgs, c12RandCfg(rng))
	}
	for _, c := range cfgs {
		for _, b0 := range []int{0x45, 0x46, 0x4f, 0x40, 0x43, 0x65} {
			for _, fr := range []int{0, 0x2000} {
				p := c12V4{Et: 0x0800, B0: b0, Frag: fr, Proto: 6, Src: c.SA, Dst: c.DA, SP: int(c.SP), DP: int(c.DP), Flags: 0x12, L4Wins: true, Trail: 1}
				good := p.build(rng)
				add("tuple-bytes", c, good)
				l4 := 14 + 4*(b0&0xf)
				offs := []int{26, 27, 28, 29, 30, 31, 32, 33, l4, l4 + 1, l4 + 2, l4 + 3}
				for _, o := range offs {
					for _, x := range []byte{0x01, 0x80, 0xff} {
						f := append([]byte(nil), good...)
						f[o] ^= x
						add("tuple-bytes", c, f)
					}
				}
				for k := 0; k < 8; k++ { // two bytes at once
					f := append([]byte(nil), good...)
					f[hx.Pick(rng, offs)] ^= byte(1 << rng.Intn(8))
					f[hx.Pick(rng, offs)] ^= byte(1 << rng.Intn(8))
					add("tuple-bytes", c, f)
				}
				// the reply direction reversed (what the probe itself looks like)
				q := p
				q.Src, q.Dst, q.SP, q.DP = p.Dst, p.Src, p.DP, p.SP
				add("tuple-bytes", c, q.build(rng))
			}
		}
	}

	// S3 all 256 TCP flag bytes
	for fl := 0; fl < 256; fl++ {
		for ihl := 0; ihl < 16; ihl++ {
			for _, fr := range []int{0, 0x2000, 0x0001} {
				p := c12V4{Et: 0x0800, B0: 0x40 | ihl, Frag: fr, Proto: 6, Src: base.SA, Dst: base.DA, SP: int(base.SP), DP: int(base.DP),
					Flags: fl, L4Wins: true}
				f := p.build(rng)
				add("flags", c12Filter{Name: "synack"}, f)
				if ihl == 5 || ihl == 15 {
					add("flags", base, f)
				}
			}
		}
	}

	// S4 every prefix length (and a few extensions) of path-exercising frames
	var bases [][]byte
	for ihl := 0; ihl < 16; ihl++ {
		for _, pr := range []int{1, 6, 17} {
			p := c12V4{Et: 0x0800, B0: 0x40 | ihl, Frag: 0, Proto: pr, Src: base.SA, Dst: base.DA, SP: int(base.SP), DP: int(base.DP),
				Flags: 0x12, L4Wins: ihl >= 5}
			bases = append(bases, p.build(rng))
		}
	}
	for _, nh := range [][2]int{{58, 0}, {44, 58}, {44, 17}, {17, 0}, {6, 0}, {44, 6}} {
		bases = append(bases, c12V6{Et: 0x86dd, Nh: nh[0], FragNh: nh[1]}.build(rng))
	}
	for _, c := range allFilters {
		for _, b := range bases {
			for n := 0; n <= len(b); n++ {
				add("lengths", c, b[:n])
			}
			add("lengths", c, append(append([]byte(nil), b...), rng.Bytes(rng.Range(1, 3))...))
		}
	}

	// S5 IPv6 next header x fragment header next header x cut before/after the fragment header
	for _, c := range allFilters {
		for _, et := range []int{0x86dd, 0x0800, 0x86dc} {
			for _, nh := range c12Nhs {
				for _, fnh := range c12Nhs {
					f := c12V6{Et: et, Nh: nh, FragNh: fnh}.build(rng)
					add("grid6", c, f)
					add("grid6", c, f[:54])
					add("grid6", c, f[:55])
				}
			}
		}
	}

	// S6 configuration read back from a structured random frame (accepting paths for every IHL,
	// including IHL < 5 where the ports overlap the IP header), then perturbed by one bit
	randV4 := func() c12V4 {
		p := c12V4{Et: 0x0800, B0: 0x40 | rng.Intn(16), Frag: hx.Pick(rng, c12Frags), Proto: 6, Src: uint32(rng.U64()), Dst: uint32(rng.U64()),
			SP: rng.Intn(65536), DP: rng.Intn(65536), Flags: rng.Intn(256), L4Wins: rng.Bool(), Trail: rng.Intn(4)}
		if rng.Chance(1, 4) {
			p.B0 = rng.Intn(256) // version nibble is not inspected
		}
		if rng.Chance(1, 3) {
			p.Frag = rng.Intn(65536)
		} else if rng.Chance(1, 2) {
			p.Frag &= 0xe000
		}
		if rng.Chance(1, 8) {
			p.Proto = hx.Pick(rng, c12Protos)
		}
		if rng.Chance(1, 12) {
			p.Et = hx.Pick(rng, c12Ets)
		}
		return p
	}
	for i := 0; i < env.Scale(30000, 600000); i++ {
		f := randV4().build(rng)
		l4 := 14 + 4*int(f[14]&0xf)
		c := c12Filter{Name: "tcp"}
		c.SA, _ = c12U32(f, 26)
		c.DA, _ = c12U32(f, 30)
		sp, _ := c12U16(f, l4)
		dp, _ := c12U16(f, l4+2)
		c.SP, c.DP = uint16(sp), uint16(dp)
		switch rng.Intn(6) {
		case 0:
			c.SA ^= 1 << rng.Intn(32)
		case 1:
			c.DA ^= 1 << rng.Intn(32)
		case 2:
			c.SP ^= 1 << rng.Intn(16)
		case 3:
			c.DP ^= 1 << rng.Intn(16)
		}
		if rng.Chance(1, 10) {
			f = f[:rng.Intn(len(f)+1)]
		}
		add("cfg-from-frame", c, f)
	}
	// S7 random points of the product space for every filter, random truncation
	pool := append([]c12Filter{}, cfgs...)
	for i := 0; i < env.Scale(60000, 1200000); i++ {
		var c c12Filter
		if rng.Chance(1, 2) {
			c = hx.Pick(rng, pool)
		} else {
			c = hx.Pick(rng, statics)
		}
		var f []byte
		if rng.Chance(1, 5) {
			f = c12V6{Et: hx.Pick(rng, c12Ets[:3]), Nh: hx.Pick(rng, c12Nhs), FragNh: hx.Pick(rng, c12Nhs), Trail: rng.Intn(3)}.build(rng)
		} else {
			p := randV4()
			if c.Name == "tcp" && rng.Chance(3, 4) {
				p.Src, p.Dst, p.SP, p.DP = c.SA, c.DA, int(c.SP), int(c.DP)
				if rng.Chance(1, 4) {
					switch rng.Intn(4) {
					case 0:
						p.Src ^= 1 << rng.Intn(32)
					case 1:
						p.Dst ^= 1 << rng.Intn(32)
					case 2:
						p.SP ^= 1 << rng.Intn(16)
					case 3:
						p.DP ^= 1 << rng.Intn(16)
					}
				}
			}
			if rng.Chance(1, 3) {
				p.Flags |= 0x12
			}
			if rng.Chance(1, 3) {
				p.Proto = hx.Pick(rng, c12Protos)
			}
			f = p.build(rng)
		}
		if rng.Chance(1, 6) {
			f = f[:rng.Intn(len(f)+1)]
		}
		add("random-structured", c, f)
	}

	// S8 unstructured bytes (half with an IP EtherType forced)
	for i := 0; i < env.Scale(15000, 300000); i++ {
		f := rng.Bytes(rng.Intn(101))
		if len(f) >= 14 && rng.Bool() {
			c12Put16(f, 12, hx.Pick(rng, c12Ets[:2]))
		}
		if len(f) >= 24 && rng.Bool() {
			f[23] = byte(hx.Pick(rng, c12Protos[:3]))
		}
		var c c12Filter
		if rng.Chance(1, 3) {
			c = hx.Pick(rng, pool)
		} else {
			c = hx.Pick(rng, statics)
		}
		add("random-bytes", c, f)
	}
	flush()

	// the generated Lean program is the compiled program, for every configuration used
	toks := make([]string, 0, len(rawOf))
	for tok := range rawOf {
		toks = append(toks, tok)
	}
	sort.Strings(toks)
	plines := make([]string, len(toks))
	for i, tok := range toks {
		plines[i] = "bpf.prog " + tok
	}
	pans, err := orc.Batch(plines)
	if err != nil {
		t.Fatalf("oracle(prog): %v", err)
	}
	for i, tok := range toks {
		rep.Hit("prog-compared:" + nameOf[tok])
		if pans[i] != rawOf[tok] {
			rep.Violate(hx.Violation{Kind: "correspondence", NoInput: true,
				What: "TRV.Generated.Filters is not the compiled program (stale generated file, or the tuple filter is not the emitted function of its configuration)",
				Sig:  map[string]string{"filter": nameOf[tok], "stream": "bpf.prog"},
				Replay: map[string]any{"config": tok, "compiled": rawOf[tok], "generated": pans[i],
					"broken": "correspondence stream bpf.prog (harness/extract Filters vs packets.VerifClassicBPF)"}})
		}
	}
	rep.Note("programs compared instruction by instruction with the generated Lean definitions: %d configurations", len(toks))
	rep.Note("kernel (AF_UNIX datagram pair, packets.SetBPF) verdicts compared: %d", kernelRuns)

	// installation sites (extracted table, via the oracle) against what each phase needs: search for
	// a needed frame that the installed program hides
	c12SiteSearch(t, rep, orc, base, siteFrames)
	c12Compose(t, rep, rng, kern, env.Scale(6, 60))
	c12SourceStream(t, rep, rng, env.Scale(400, 6000))
	c12SitesStream(t, rep, rng.Fork(), env.Scale(12, 100))

	// generator self-check: every decision class of every filter was exercised
	want := []string{
		"dropall:reject",
		"icmp:accept-icmp4", "icmp:accept-icmp6", "icmp:accept-icmp6-frag", "icmp:rej-short-ethertype", "icmp:rej-short-proto",
		"icmp:rej-short-fraghdr", "icmp:rej-proto4", "icmp:rej-fraghdr-next", "icmp:rej-next6", "icmp:rej-ethertype",
		"udp:accept-icmp4", "udp:accept-icmp6", "udp:accept-icmp6-frag", "udp:accept-udp4", "udp:accept-udp6", "udp:accept-udp6-frag",
		"udp:rej-short-ethertype", "udp:rej-short-proto", "udp:rej-short-fraghdr", "udp:rej-proto4", "udp:rej-fraghdr-next", "udp:rej-next6", "udp:rej-ethertype",
		"synack:accept-synack", "synack:rej-neither", "synack:rej-no-syn", "synack:rej-no-ack", "synack:rej-fragoffset", "synack:rej-short-flags",
		"synack:rej-proto4", "synack:rej-ethertype", "synack:rej-short-ethertype", "synack:rej-short-proto",
		"tcp:accept-icmp4", "tcp:accept-tcp", "tcp:accept-tcp-first-fragment", "tcp:rej-short-ethertype", "tcp:rej-ethertype", "tcp:rej-short-proto",
		"tcp:rej-proto4", "tcp:rej-short-src", "tcp:rej-src", "tcp:rej-short-dst", "tcp:rej-dst", "tcp:rej-fragoffset", "tcp:rej-short-sport",
		"tcp:rej-sport", "tcp:rej-short-dport", "tcp:rej-dport",
	}
	for _, w := range want {
		if classSeen[w] == 0 {
			rep.Violate(hx.Violation{Kind: "tie", NoInput: true, What: "generator coverage hole: no frame of class " + w,
				Sig: map[string]string{"stream": "coverage", "class": w}, Replay: map[string]any{"class": w}})
		}
	}
	if rep.Failed() {
		t.Fail()
	}
}
