package corr

// C18: enrichment is per-address correct, failure-tolerant, caches only successes.
//
// Real code under test, all in-process:
//   - result.(*Results).EnrichWithReverseDns / reversedns.GetReverseDnsForIPs with a scripted
//     reversedns.LookupAddrFn inside a synctest bubble (virtual delays decide the completion order),
//   - cache.GetWithExpiration sequences and concurrent callers with clock steps (bubble), plus a
//     small real-clock run on the janitor-enabled instance the package creates at init,
//   - publicip.GetPublicIP / (*PublicIPFetcher).GetIP with a scripted http.RoundTripper and
//     publicip.VerifSetIPCheckers (bubble; the back-off sleeps cost no wall time; the jittered
//     intervals are *observed* and handed to the model, so the comparison does not depend on them).
// Every observation is compared with the Lean model (oracle) and judged by the spec predicates.

import (
	"bytes"
	"context"
	"encoding/hex"
	"errors"
	"fmt"
	"io"
	"net"
	"net/http"
	"reflect"
	"sort"
	"strconv"
	"strings"
	"sync"
	"testing"
	"testing/synctest"
	"time"
	"unsafe"

	"github.com/DataDog/datadog-traceroute/cache"
	"github.com/DataDog/datadog-traceroute/publicip"
	"github.com/DataDog/datadog-traceroute/result"
	"github.com/DataDog/datadog-traceroute/reversedns"
	"github.com/cenkalti/backoff/v5"
	gocache "github.com/patrickmn/go-cache"

	"verifharness/hx"
)

// ---------------------------------------------------------------------------------------------
// shared helpers

func c18IPTok(ip net.IP) string {
	if len(ip) == 0 {
		return "-"
	}
	return hex.EncodeToString(ip)
}

// c18NormKey is the Lean model's `norm16`: the key the oracle's resolver table is indexed by.
func c18NormKey(ip net.IP) string {
	if len(ip) == 4 {
		return "00000000000000000000ffff" + hex.EncodeToString(ip)
	}
	return c18IPTok(ip)
}

func c18NamesTok(n []string) string {
	if n == nil {
		return "_"
	}
	if len(n) == 0 {
		return "-"
	}
	return hex.EncodeToString([]byte(strings.Join(n, ",")))
}

func c18CloneIP(ip net.IP) net.IP {
	if ip == nil {
		return nil
	}
	return append(net.IP{}, ip...)
}

func c18CloneStrs(s []string) []string {
	if s == nil {
		return nil
	}
	return append([]string{}, s...)
}

func c18CloneResults(r *result.Results) *result.Results {
	c := *r
	c.E2eProbe.RTTs = append([]float64(nil), r.E2eProbe.RTTs...)
	c.Traceroute.Runs = nil
	for _, run := range r.Traceroute.Runs {
		nr := run
		nr.Source.IPAddress = c18CloneIP(run.Source.IPAddress)
		nr.Destination.IPAddress = c18CloneIP(run.Destination.IPAddress)
		nr.Destination.ReverseDns = c18CloneStrs(run.Destination.ReverseDns)
		nr.Hops = nil
		for _, h := range run.Hops {
			nh := *h
			nh.IPAddress = c18CloneIP(h.IPAddress)
			nh.ReverseDns = c18CloneStrs(h.ReverseDns)
			nr.Hops = append(nr.Hops, &nh)
		}
		c.Traceroute.Runs = append(c.Traceroute.Runs, nr)
	}
	return &c
}

func c18StripNames(r *result.Results) *result.Results {
	c := c18CloneResults(r)
	for i := range c.Traceroute.Runs {
		c.Traceroute.Runs[i].Destination.ReverseDns = nil
		for _, h := range c.Traceroute.Runs[i].Hops {
			h.ReverseDns = nil
		}
	}
	return c
}

// c18DocTokens renders the document for the oracle: runs separated by "|", each "dest hop…";
// withNames adds ":names" to every address.
func c18DocTokens(r *result.Results, withNames bool) string {
	var runs []string
	for _, run := range r.Traceroute.Runs {
		toks := []string{c18IPTok(run.Destination.IPAddress)}
		if withNames {
			toks[0] += ":" + c18NamesTok(run.Destination.ReverseDns)
		}
		for _, h := range run.Hops {
			t := c18IPTok(h.IPAddress)
			if withNames {
				t += ":" + c18NamesTok(h.ReverseDns)
			}
			toks = append(toks, t)
		}
		runs = append(runs, strings.Join(toks, " "))
	}
	return strings.Join(runs, " | ")
}

func c18NamesOut(r *result.Results) string {
	var runs []string
	for _, run := range r.Traceroute.Runs {
		toks := []string{c18NamesTok(run.Destination.ReverseDns)}
		for _, h := range run.Hops {
			toks = append(toks, c18NamesTok(h.ReverseDns))
		}
		runs = append(runs, strings.Join(toks, " "))
	}
	return strings.Join(runs, " | ")
}

func c18Occurrences(r *result.Results) []net.IP {
	var ips []net.IP
	for _, run := range r.Traceroute.Runs {
		ips = append(ips, run.Destination.IPAddress)
		for _, h := range run.Hops {
			ips = append(ips, h.IPAddress)
		}
	}
	return ips
}

// c18WithFreshCache swaps the package-level cache for a janitor-less go-cache instance with the
// same default expiration for the duration of fn. The janitor of the instance created at package
// init runs outside any bubble on the real clock and would purge entries stamped with the bubble's
// virtual clock (year 2000) as "expired".
func c18WithFreshCache(fn func()) {
	orig := cache.Cache
	cache.Cache = gocache.New(c18DefaultExpiration(orig), 0)
	defer func() { cache.Cache = orig }()
	fn()
}

// c18DefaultExpiration reads go-cache's unexported defaultExpiration of the instance the
// repository configured (cache.New(defaultExpire, defaultPurge)).
func c18DefaultExpiration(c *gocache.Cache) time.Duration {
	defer func() { recover() }()
	v := reflect.ValueOf(c).Elem().FieldByName("cache").Elem().FieldByName("defaultExpiration")
	return time.Duration(v.Int())
}

// ---------------------------------------------------------------------------------------------
// reverse DNS

type c18Call struct {
	Kind  string // names | empty | error
	Names []string
	Delay time.Duration
}

type c18Beh struct {
	Calls []c18Call // per call, the last one repeats; one entry = the resolver is a function of the address
}

func (b c18Beh) flaky() bool { return len(b.Calls) > 1 }

const c18RdnsTimeout = 5 * time.Second
const c18RdnsTTL = time.Hour

// effective result of one call under a resolver that honours its context (5 s)
func (c c18Call) effective() (tok string, ok bool, dur time.Duration) {
	if c.Delay >= c18RdnsTimeout {
		return "!", false, c18RdnsTimeout
	}
	switch c.Kind {
	case "names":
		return c18NamesTok(c.Names), true, c.Delay
	case "empty":
		return "-", true, c.Delay
	}
	return "!", false, c.Delay
}

type c18CallObs struct {
	Text string
	Idx  int
	Tok  string // result token or "!"
	Done time.Duration
}

type c18Resolver struct {
	mu     sync.Mutex
	script map[string]c18Beh
	counts map[string]int
	log    []c18CallObs
	start  time.Time
}

var errC18Lookup = errors.New("verif: scripted lookup failure")

// c18LookupFailure: the shapes a failing net.Resolver.LookupAddr really returns — a *net.DNSError saying
// "no such host" (NXDOMAIN: the address has no PTR record), a time-out, a temporary server failure, the
// same wrapped once more, a transport error — next to a plain error. Every one of them is a failed lookup.
func c18LookupFailure(text string, idx int) error {
	h := idx * 7
	for _, ch := range text {
		h = h*31 + int(ch)
	}
	if h < 0 {
		h = -h
	}
	switch h % 7 {
	case 0:
		return &net.DNSError{Err: "no such host", Name: text, IsNotFound: true}
	case 1:
		return &net.DNSError{Err: "i/o timeout", Name: text, IsTimeout: true}
	case 2:
		return &net.DNSError{Err: "server misbehaving", Name: text, Server: "192.0.2.53:53", IsTemporary: true}
	case 3:
		return fmt.Errorf("lookup %s: %w", text, &net.DNSError{Err: "no such host", Name: text, IsNotFound: true})
	case 4:
		return &net.OpError{Op: "read", Net: "udp", Err: errC18Lookup}
	}
	return errC18Lookup
}

func (r *c18Resolver) lookup(ctx context.Context, text string) ([]string, error) {
	r.mu.Lock()
	idx := r.counts[text]
	r.counts[text]++
	beh, known := r.script[text]
	r.mu.Unlock()
	c := c18Call{Kind: "error"}
	if known {
		if idx < len(beh.Calls) {
			c = beh.Calls[idx]
		} else {
			c = beh.Calls[len(beh.Calls)-1]
		}
	}
	expired := false
	if c.Delay > 0 {
		tm := time.NewTimer(c.Delay)
		select {
		case <-tm.C:
		case <-ctx.Done():
			tm.Stop()
			expired = true
		}
	}
	var names []string
	var err error
	tok := "!"
	switch {
	case expired:
		err = ctx.Err()
	case c.Kind == "names":
		names = append([]string{}, c.Names...)
		tok = c18NamesTok(names)
	case c.Kind == "empty":
		names = []string{}
		tok = "-"
	default:
		err = c18LookupFailure(text, idx)
	}
	r.mu.Lock()
	r.log = append(r.log, c18CallObs{Text: text, Idx: idx, Tok: tok, Done: time.Since(r.start)})
	r.mu.Unlock()
	return names, err
}

type c18RdnsCase struct {
	Doc    *result.Results
	Script map[string]c18Beh // by ip.String()
	Flaky  bool
	Phases []string // cold | warm | expire (sleep past the TTL, then enrich)
	WarmAt time.Duration
}

type c18PhaseObs struct {
	Phase     string
	At        time.Duration
	NamesOut  string
	DocNames  string // document with names, for the spec handlers
	Counts    map[string]int
	Calls     []c18CallObs
	Elapsed   time.Duration
	RestSame  bool
	Panicked  string
	StoredAny map[string]bool
}

var c18NamePool = []string{"a.example.", "b.example.", "core1.net.", "edge-7.isp.example.", "x.", "gw.local.", "ae-1.r2.example.net."}

func c18RandIP(r *hx.RNG) net.IP {
	switch r.Intn(10) {
	case 0, 1, 2, 3:
		return net.IP{byte(r.Range(1, 223)), byte(r.Intn(256)), byte(r.Intn(256)), byte(r.Range(1, 254))}
	case 4, 5:
		return net.IPv4(byte(r.Range(1, 223)), byte(r.Intn(256)), byte(r.Intn(256)), byte(r.Range(1, 254))) // 16-byte form
	case 6, 7, 8:
		b := r.Bytes(16)
		b[0], b[1] = 0x20, 0x01
		return net.IP(b)
	default:
		return net.IP(r.Bytes(r.Range(1, 7))) // odd lengths print as ?hex
	}
}

func c18GenRdnsCase(r *hx.RNG, flaky bool) c18RdnsCase {
	c := c18RdnsCase{Script: map[string]c18Beh{}, Flaky: flaky}
	// address pool; some addresses appear in both raw forms (4 and 16 bytes)
	var pool []net.IP
	n := r.Range(1, 6)
	for i := 0; i < n; i++ {
		ip := c18RandIP(r)
		pool = append(pool, ip)
		if len(ip) == 4 && r.Chance(1, 3) && !flaky {
			pool = append(pool, net.IPv4(ip[0], ip[1], ip[2], ip[3]))
		}
	}
	usedDelay := map[time.Duration]bool{}
	delay := func(allowZero bool) time.Duration {
		for {
			var d time.Duration
			switch k := r.Intn(10); {
			case k < 3 && allowZero:
				return 0
			case k < 8:
				d = time.Duration(r.Range(1, 900)) * time.Millisecond
			case k == 8:
				d = time.Duration(r.Range(1000, 4900)) * time.Millisecond
			default:
				d = time.Duration(r.Range(5001, 9000)) * time.Millisecond // beyond the lookup timeout
			}
			d += time.Duration(2*r.Range(1, 400)+1) * time.Microsecond
			if !usedDelay[d] {
				usedDelay[d] = true
				return d
			}
		}
	}
	call := func(allowZero bool) c18Call {
		cl := c18Call{Delay: delay(allowZero)}
		switch k := r.Intn(10); {
		case k < 6:
			cl.Kind = "names"
			for i, m := 0, r.Range(1, 3); i < m; i++ {
				cl.Names = append(cl.Names, hx.Pick(r, c18NamePool))
			}
		case k == 6:
			cl.Kind = "empty"
		default:
			cl.Kind = "error"
		}
		return cl
	}
	for _, ip := range pool {
		text := ip.String()
		if _, ok := c.Script[text]; ok {
			continue
		}
		if r.Chance(1, 8) {
			continue // unknown to the resolver: error
		}
		if flaky && r.Chance(2, 3) {
			b := c18Beh{}
			for i, m := 0, r.Range(2, 4); i < m; i++ {
				b.Calls = append(b.Calls, call(false))
			}
			// the repeating tail must not collide in time with another call either
			c.Script[text] = b
		} else {
			c.Script[text] = c18Beh{Calls: []c18Call{call(!flaky)}}
		}
	}
	pick := func() net.IP {
		switch r.Intn(12) {
		case 0:
			return nil
		case 1:
			return net.IP{}
		}
		return c18CloneIP(hx.Pick(r, pool))
	}
	stale := func() []string {
		if r.Chance(1, 4) {
			return []string{"stale.example."}
		}
		return nil
	}
	doc := &result.Results{TestRunID: fmt.Sprintf("t-%d", r.Intn(1000)), Protocol: hx.Pick(r, []string{"udp", "tcp", "icmp"}),
		Source:      result.Source{PublicIP: "198.51.100.1"},
		Destination: result.Destination{Hostname: "h.example", Port: r.Intn(65536)},
		E2eProbe:    result.E2eProbe{RTTs: []float64{1.5, 2.5}, PacketsSent: 2, PacketsReceived: 2, Jitter: 1}}
	for i, nr := 0, r.Range(0, 3); i < nr; i++ {
		run := result.TracerouteRun{RunID: fmt.Sprintf("run-%d", i),
			Source:      result.TracerouteSource{IPAddress: net.IP{10, 1, 1, byte(i)}, Port: uint16(r.Intn(65536))},
			Destination: result.TracerouteDestination{IPAddress: pick(), Port: uint16(r.Intn(65536)), ReverseDns: stale()}}
		for j, nh := 0, r.Range(0, 7); j < nh; j++ {
			ip := pick()
			run.Hops = append(run.Hops, &result.TracerouteHop{TTL: j + 1, IPAddress: ip, RTT: float64(r.Intn(9000)) / 100,
				Reachable: len(ip) > 0, ReverseDns: stale(), IsDest: r.Chance(1, 9), Port: uint16(r.Intn(65536)),
				ICMPType: uint8(r.Intn(12)), ICMPCode: uint8(r.Intn(4))})
		}
		doc.Traceroute.Runs = append(doc.Traceroute.Runs, run)
	}
	doc.Traceroute.HopCount = result.HopCountStats{Avg: 2, Min: 1, Max: 3}
	c.Doc = doc
	c.Phases = []string{"cold"}
	if !flaky {
		switch r.Intn(4) {
		case 1:
			c.Phases = append(c.Phases, "warm")
		case 2:
			c.Phases = append(c.Phases, "warm", "expire")
		case 3:
			c.Phases = append(c.Phases, "expire")
		}
		c.WarmAt = time.Duration(r.Range(0, 40))*time.Minute + time.Duration(2*r.Range(0, 400)+1)*time.Microsecond
	}
	return c
}

// c18RunRdnsCase executes the phases on the real code inside one bubble (flushed cache first).
func c18RunRdnsCase(t *testing.T, c c18RdnsCase) []c18PhaseObs {
	var out []c18PhaseObs
	synctest.Test(t, func(t *testing.T) {
		c18WithFreshCache(func() {
			origFn := reversedns.LookupAddrFn
			defer func() { reversedns.LookupAddrFn = origFn }()
			t0 := time.Now()
			for _, ph := range c.Phases {
				switch ph {
				case "warm":
					time.Sleep(c.WarmAt)
				case "expire":
					time.Sleep(c18RdnsTTL + 10*time.Second + 777*time.Microsecond)
				}
				res := &c18Resolver{script: c.Script, counts: map[string]int{}, start: time.Now()}
				reversedns.LookupAddrFn = res.lookup
				doc := c18CloneResults(c.Doc)
				before := c18StripNames(doc)
				o := c18PhaseObs{Phase: ph, At: time.Since(t0)}
				func() {
					defer func() {
						if p := recover(); p != nil {
							o.Panicked = fmt.Sprint(p)
						}
					}()
					doc.EnrichWithReverseDns()
				}()
				o.Elapsed = time.Since(res.start)
				o.NamesOut = c18NamesOut(doc)
				o.DocNames = c18DocTokens(doc, true)
				o.RestSame = reflect.DeepEqual(c18StripNames(doc), before)
				res.mu.Lock()
				o.Counts = res.counts
				o.Calls = append([]c18CallObs(nil), res.log...)
				res.mu.Unlock()
				out = append(out, o)
			}
		})
	})
	return out
}

// resolver table for the oracle: norm16 key = effective success token (function-of-address mode)
func c18ResolverTable(c c18RdnsCase) string {
	seen := map[string]bool{}
	var ents []string
	for _, ip := range c18Occurrences(c.Doc) {
		if len(ip) == 0 {
			continue
		}
		k := c18NormKey(ip)
		if seen[k] {
			continue
		}
		seen[k] = true
		if beh, ok := c.Script[ip.String()]; ok {
			if tok, ok2, _ := beh.Calls[0].effective(); ok2 {
				ents = append(ents, k+"="+tok)
			}
		}
	}
	sort.Strings(ents)
	return strings.Join(ents, " ")
}

// completion order of the occurrences as the model's `order`: by the effective duration of the
// lookup (instant ones first, in collection order)
func c18OrderTokens(c c18RdnsCase) string {
	type occ struct {
		tok string
		d   time.Duration
		i   int
	}
	var os []occ
	for i, ip := range c18Occurrences(c.Doc) {
		var d time.Duration
		if len(ip) > 0 {
			if beh, ok := c.Script[ip.String()]; ok {
				_, _, d = beh.Calls[0].effective()
			}
		}
		os = append(os, occ{c18IPTok(ip), d, i})
	}
	sort.SliceStable(os, func(a, b int) bool { return os[a].d < os[b].d })
	toks := make([]string, len(os))
	for i, o := range os {
		toks[i] = o.tok
	}
	return strings.Join(toks, " ")
}

// per-call completions for the flaky mode, in completion order; addresses whose resolver is a
// function of the address contribute one completion per occurrence with that answer
func c18CompletionTokens(c c18RdnsCase, o c18PhaseObs) string {
	type comp struct {
		tok string
		at  time.Duration
	}
	var cs []comp
	rawOf := map[string]string{} // text -> raw token (flaky addresses occur in one raw form only)
	for _, ip := range c18Occurrences(c.Doc) {
		if len(ip) == 0 {
			cs = append(cs, comp{"-=!", 0})
			continue
		}
		text := ip.String()
		beh, ok := c.Script[text]
		if ok && beh.flaky() {
			rawOf[text] = c18IPTok(ip)
			continue // taken from the call log below
		}
		tok := "!"
		if ok {
			tok, _, _ = beh.Calls[0].effective()
		}
		cs = append(cs, comp{c18IPTok(ip) + "=" + tok, 0})
	}
	for _, cl := range o.Calls {
		if raw, ok := rawOf[cl.Text]; ok {
			cs = append(cs, comp{raw + "=" + cl.Tok, cl.Done})
		}
	}
	sort.SliceStable(cs, func(a, b int) bool { return cs[a].at < cs[b].at })
	toks := make([]string, len(cs))
	for i, x := range cs {
		toks[i] = x.tok
	}
	return strings.Join(toks, " ")
}

// c18CountSpec is the property's statement about invocation counts on the reverse-DNS path:
// nothing is asked for an address whose success is cached and unexpired; a failure is asked again
// by every occurrence; an occurrence never asks more than once.
func c18CountSpec(c c18RdnsCase, obs []c18PhaseObs) string {
	occ := map[string]int{}
	for _, ip := range c18Occurrences(c.Doc) {
		if len(ip) > 0 {
			occ[ip.String()]++
		}
	}
	stored := map[string]time.Duration{} // text -> time of the (last) store
	for _, o := range obs {
		for text, k := range occ {
			got := o.Counts[text]
			beh, known := c.Script[text]
			at, has := stored[text]
			if has && o.At <= at+c18RdnsTTL {
				if got != 0 {
					return fmt.Sprintf("phase %s: %d resolver calls for %s although its success is cached and unexpired", o.Phase, got, text)
				}
				continue
			}
			okAny, maxDone := false, time.Duration(0)
			allDelayed := true
			if known {
				for i := 0; i < k; i++ {
					cl := beh.Calls[len(beh.Calls)-1]
					if i < len(beh.Calls) {
						cl = beh.Calls[i]
					}
					_, ok, d := cl.effective()
					if ok {
						okAny = true
						if d > maxDone {
							maxDone = d
						}
					}
					if d == 0 {
						allDelayed = false
					}
				}
			}
			switch {
			case got > k:
				return fmt.Sprintf("phase %s: %d resolver calls for %s with only %d occurrences", o.Phase, got, text, k)
			case !known || !okAny || allDelayed:
				// failures are never cached, and delayed successes are stored only after every
				// occurrence has already missed: everybody asks
				if got != k {
					return fmt.Sprintf("phase %s: %d resolver calls for %s, expected %d (one per occurrence)", o.Phase, got, text, k)
				}
			case got < 1:
				return fmt.Sprintf("phase %s: no resolver call for %s although nothing is cached", o.Phase, text)
			}
			if okAny {
				stored[text] = o.At + maxDone
			}
		}
		for text, got := range o.Counts {
			if occ[text] == 0 && got > 0 {
				return fmt.Sprintf("phase %s: resolver asked for %s which is not in the document", o.Phase, text)
			}
		}
	}
	return ""
}

// ---------------------------------------------------------------------------------------------
// cache sequences

type c18CacheOp struct {
	Kind  string // get | sleep | flush
	Key   string
	Cb    string // value, or "!" = the callback fails
	Dur   time.Duration
	TTL   time.Duration
	Sleep time.Duration
}

type c18CacheObs struct {
	At, DoneAt int64
	Key        string
	TTL        time.Duration
	Ran        int
	CbOut      string
	Result     string
	Flush      bool
}

var errC18Cb = errors.New("verif: scripted callback failure")

func c18GenCacheOps(r *hx.RNG) []c18CacheOp {
	keys := []string{"k1", "k2", "k3"}[:r.Range(1, 3)]
	ttls := []time.Duration{-1, 0, 50 * time.Millisecond, time.Second, time.Hour, 2 * time.Hour, 1}
	n := r.Range(2, 14)
	var ops []c18CacheOp
	var lastTTL time.Duration = time.Second
	val := 0
	for i := 0; i < n; i++ {
		switch k := r.Intn(20); {
		case k < 12:
			val++
			op := c18CacheOp{Kind: "get", Key: hx.Pick(r, keys), Cb: fmt.Sprintf("v%d", val), TTL: hx.Pick(r, ttls)}
			if r.Chance(1, 4) {
				op.Cb = "!"
			}
			if r.Bool() {
				op.Dur = time.Duration(r.Range(1, 3000)) * time.Millisecond
			}
			lastTTL = op.TTL
			ops = append(ops, op)
		case k < 19:
			var d time.Duration
			switch r.Intn(6) {
			case 0: // exactly the expiry boundary of the previous store (still served)
				d = lastTTL
				if d == 0 {
					d = 5 * time.Minute
				}
			case 1: // one tick past it
				d = lastTTL + 1
				if lastTTL == 0 {
					d = 5*time.Minute + 1
				}
			case 2:
				d = time.Duration(r.Range(1, 100)) * time.Millisecond
			case 3:
				d = time.Duration(r.Range(1, 400)) * time.Second
			default:
				d = time.Duration(r.Range(1, 180)) * time.Minute
			}
			if d <= 0 {
				d = 1
			}
			ops = append(ops, c18CacheOp{Kind: "sleep", Sleep: d})
		default:
			ops = append(ops, c18CacheOp{Kind: "flush"})
		}
	}
	return ops
}

func c18RunCacheOps(t *testing.T, ops []c18CacheOp) (t0 int64, obs []c18CacheObs) {
	synctest.Test(t, func(t *testing.T) {
		c18WithFreshCache(func() {
			t0 = time.Now().UnixNano()
			for _, op := range ops {
				switch op.Kind {
				case "sleep":
					time.Sleep(op.Sleep)
				case "flush":
					cache.Cache.Flush()
					obs = append(obs, c18CacheObs{Flush: true})
				case "get":
					o := c18CacheObs{At: time.Now().UnixNano(), Key: op.Key, TTL: op.TTL, CbOut: "!"}
					res, err := cache.GetWithExpiration(op.Key, func() (string, error) {
						o.Ran++
						if op.Dur > 0 {
							time.Sleep(op.Dur)
						}
						o.DoneAt = time.Now().UnixNano()
						if op.Cb == "!" {
							return "", errC18Cb
						}
						o.CbOut = op.Cb
						return op.Cb, nil
					}, op.TTL)
					if o.Ran == 0 {
						o.DoneAt = o.At
					}
					switch {
					case err == nil:
						o.Result = res
					case errors.Is(err, errC18Cb):
						o.Result = "!"
					default:
						o.Result = "other-error"
					}
					obs = append(obs, o)
				}
			}
		})
	})
	return
}

func c18CacheSeqLine(t0 int64, ops []c18CacheOp) string {
	toks := []string{"cache.seq", strconv.FormatInt(t0, 10)}
	for _, op := range ops {
		switch op.Kind {
		case "sleep":
			toks = append(toks, fmt.Sprintf("s:%d", int64(op.Sleep)))
		case "flush":
			toks = append(toks, "f")
		case "get":
			toks = append(toks, fmt.Sprintf("g:%s:%s:%d:%d", op.Key, op.Cb, int64(op.Dur), int64(op.TTL)))
		}
	}
	return strings.Join(toks, " ")
}

func c18CacheObsOut(obs []c18CacheObs) string {
	var toks []string
	for _, o := range obs {
		if o.Flush {
			continue
		}
		if o.Ran == 0 {
			toks = append(toks, "h:"+o.Result)
		} else {
			toks = append(toks, fmt.Sprintf("m:%s:%d", o.Result, o.Ran))
		}
	}
	return strings.Join(toks, " ")
}

func c18CacheSpecLine(obs []c18CacheObs) string {
	toks := []string{"cache.spec"}
	for _, o := range obs {
		if o.Flush {
			toks = append(toks, "f")
			continue
		}
		ran := "0"
		if o.Ran > 0 {
			ran = "1"
		}
		toks = append(toks, fmt.Sprintf("c:%d:%s:%d:%s:%s:%d:%s", o.At, o.Key, int64(o.TTL), ran, o.CbOut, o.DoneAt, o.Result))
	}
	return strings.Join(toks, " ")
}

// concurrent callers of GetWithExpiration: start offsets and callback durations are scripted so
// that the atomic get/set steps interleave in a known order on the virtual clock
type c18Caller struct {
	Start time.Duration
	Key   string
	Cb    string
	Dur   time.Duration
	TTL   time.Duration
}

type c18CallerObs struct {
	Result string
	Ran    int
	GetAt  time.Duration
	DoneAt time.Duration
}

func c18GenCallers(r *hx.RNG) []c18Caller {
	n := r.Range(2, 7)
	used := map[time.Duration]bool{}
	uniq := func(d time.Duration) time.Duration {
		for used[d] {
			d += 2 * time.Microsecond
		}
		used[d] = true
		return d
	}
	ttl := hx.Pick(r, []time.Duration{-1, 200 * time.Millisecond, time.Second, time.Hour}) // one expiry per key family, as in the code
	var cs []c18Caller
	for i := 0; i < n; i++ {
		c := c18Caller{Key: hx.Pick(r, []string{"ka", "kb"}), Cb: fmt.Sprintf("w%d", i), TTL: ttl}
		if r.Chance(1, 4) {
			c.Cb = "!"
		}
		c.Start = uniq(time.Duration(r.Range(0, 1500))*time.Millisecond + time.Duration(2*r.Range(0, 300)+1)*time.Microsecond)
		c.Dur = time.Duration(r.Range(1, 800))*time.Millisecond + time.Duration(2*r.Range(0, 300))*time.Microsecond
		for used[c.Start+c.Dur] {
			c.Dur += 2 * time.Microsecond
		}
		used[c.Start+c.Dur] = true
		cs = append(cs, c)
	}
	return cs
}

func c18RunCallers(t *testing.T, cs []c18Caller) []c18CallerObs {
	obs := make([]c18CallerObs, len(cs))
	synctest.Test(t, func(t *testing.T) {
		c18WithFreshCache(func() {
			start := time.Now()
			var wg sync.WaitGroup
			for i, c := range cs {
				wg.Add(1)
				go func() {
					defer wg.Done()
					time.Sleep(c.Start)
					o := &obs[i]
					o.GetAt = time.Since(start)
					res, err := cache.GetWithExpiration(c.Key, func() (string, error) {
						o.Ran++
						time.Sleep(c.Dur)
						o.DoneAt = time.Since(start)
						if c.Cb == "!" {
							return "", errC18Cb
						}
						return c.Cb, nil
					}, c.TTL)
					switch {
					case err == nil:
						o.Result = res
					case errors.Is(err, errC18Cb):
						o.Result = "!"
					default:
						o.Result = "other-error"
					}
				}()
			}
			wg.Wait()
		})
	})
	return obs
}

// c18CallersExpected replays the atomic steps in virtual-time order on a plain map: the same
// two-step semantics as the Lean `CStep` relation (get, then — after the callback — set on
// success), which is also what the spec demands: a hit returns a stored, unexpired success and a
// failure stores nothing.
func c18CallersExpected(cs []c18Caller) []string {
	type ev struct {
		at     time.Duration
		finish bool
		i      int
	}
	var evs []ev
	for i, c := range cs {
		evs = append(evs, ev{c.Start, false, i}, ev{c.Start + c.Dur, true, i})
	}
	sort.Slice(evs, func(a, b int) bool { return evs[a].at < evs[b].at })
	type ent struct {
		v   string
		exp time.Duration
		inf bool
	}
	store := map[string]ent{}
	missed := map[int]bool{}
	out := make([]string, len(cs))
	for _, e := range evs {
		c := cs[e.i]
		if !e.finish {
			if en, ok := store[c.Key]; ok && (en.inf || e.at <= en.exp) {
				out[e.i] = "h:" + en.v
			} else {
				missed[e.i] = true
			}
			continue
		}
		if !missed[e.i] {
			continue
		}
		out[e.i] = "m:" + c.Cb
		if c.Cb != "!" {
			store[c.Key] = ent{c.Cb, e.at + c.TTL, c.TTL < 0}
		}
	}
	return out
}

// ---------------------------------------------------------------------------------------------
// public IP

type c18Attempt struct {
	Kind   byte // 't' transport error, 'b' body read error, 'r' response
	Status int
	Body   []byte
	Dur    time.Duration
	// RetryAfter, when set, is sent as the Retry-After header of the response. The property gives it
	// no meaning (a 4xx is final for the provider, a 5xx is retried on the back-off schedule), so it
	// is not part of the oracle token.
	RetryAfter string
	// UnexpectedEOF: a body read error ('b') is io.ErrUnexpectedEOF (the connection dropped before the
	// announced length arrived) instead of the scripted sentinel; with Body set, those bytes — a
	// well-formed address that is a PREFIX of what the provider was sending — arrive before the error.
	// Either way the attempt is a failed read: retryable, never an answer.
	UnexpectedEOF bool
}

func (a c18Attempt) token() string {
	switch a.Kind {
	case 't':
		return fmt.Sprintf("t:%d", int64(a.Dur))
	case 'b':
		return fmt.Sprintf("b:%d:%d", a.Status, int64(a.Dur))
	}
	body := "-"
	if len(a.Body) > 0 {
		body = hex.EncodeToString(a.Body)
	}
	return fmt.Sprintf("r:%d:%s:%d", a.Status, body, int64(a.Dur))
}

// the property's own classification, computed with the Go standard library
func (a c18Attempt) valid() net.IP {
	if a.Kind != 'r' || (a.Status >= 400 && a.Status < 500) {
		return nil
	}
	return net.ParseIP(strings.TrimSpace(string(a.Body)))
}

func (a c18Attempt) final() bool {
	return a.Kind == 'r' && ((a.Status >= 400 && a.Status < 500) || net.ParseIP(strings.TrimSpace(string(a.Body))) == nil)
}

type c18AttemptObs struct {
	Prov, Idx  int
	Start, End time.Duration
	A          c18Attempt // as executed (cut short by its context = transport error)
}

type c18Transport struct {
	mu      sync.Mutex
	start   time.Time
	hosts   map[string]int
	scripts [][]c18Attempt
	counts  []int
	obs     []c18AttemptObs
}

var errC18Transport = errors.New("verif: scripted transport failure")
var errC18Body = errors.New("verif: scripted body read failure")

type c18ErrReader struct {
	data []byte
	err  error
}

func (r *c18ErrReader) Read(p []byte) (int, error) {
	if len(r.data) > 0 {
		n := copy(p, r.data)
		r.data = r.data[n:]
		return n, nil
	}
	return 0, r.err
}

func (tr *c18Transport) RoundTrip(req *http.Request) (*http.Response, error) {
	tr.mu.Lock()
	p, ok := tr.hosts[req.URL.Host]
	if !ok {
		tr.mu.Unlock()
		return nil, fmt.Errorf("verif: unknown host %q", req.URL.Host)
	}
	i := tr.counts[p]
	tr.counts[p]++
	a := c18Attempt{Kind: 't'}
	if i < len(tr.scripts[p]) {
		a = tr.scripts[p][i]
	}
	st := time.Since(tr.start)
	tr.mu.Unlock()
	if a.Dur > 0 {
		tm := time.NewTimer(a.Dur)
		select {
		case <-tm.C:
		case <-req.Context().Done():
			tm.Stop()
			a = c18Attempt{Kind: 't', Dur: time.Since(tr.start) - st}
		}
	}
	tr.mu.Lock()
	tr.obs = append(tr.obs, c18AttemptObs{Prov: p, Idx: i, Start: st, End: time.Since(tr.start), A: a})
	tr.mu.Unlock()
	switch a.Kind {
	case 't':
		return nil, errC18Transport
	case 'b':
		return &http.Response{StatusCode: a.Status, Status: fmt.Sprintf("%d scripted", a.Status), Header: http.Header{},
			Body: io.NopCloser(&c18ErrReader{data: append([]byte{}, a.Body...), err: map[bool]error{false: errC18Body, true: io.ErrUnexpectedEOF}[a.UnexpectedEOF]}),
			Request: req, ProtoMajor: 1, ProtoMinor: 1, ContentLength: int64(len(a.Body) + 3)}, nil
	}
	hdr := http.Header{}
	if a.RetryAfter != "" {
		hdr.Set("Retry-After", a.RetryAfter)
	}
	return &http.Response{StatusCode: a.Status, Status: fmt.Sprintf("%d scripted", a.Status), Header: hdr,
		Body: io.NopCloser(bytes.NewReader(a.Body)), Request: req, ProtoMajor: 1, ProtoMinor: 1, ContentLength: int64(len(a.Body))}, nil
}

type c18PubCase struct {
	Scripts [][]c18Attempt
	Parent  time.Duration // < 0: no caller deadline
}

type c18PubObs struct {
	IP       net.IP
	Err      bool
	Obs      []c18AttemptObs
	Elapsed  time.Duration
	Panicked string
}

// c18BackoffPolicy returns the back-off policy exactly as NewPublicIPFetcher configures it
// (unexported field, read through reflection); fallback: the same constants by hand.
func c18BackoffPolicy() (pol *backoff.ExponentialBackOff) {
	defer func() {
		if recover() != nil || pol == nil {
			pol = backoff.NewExponentialBackOff()
			pol.InitialInterval = 500 * time.Millisecond
			pol.MaxInterval = 3 * time.Second
		}
	}()
	f := publicip.NewPublicIPFetcher()
	v := reflect.ValueOf(f).Elem().FieldByName("backoffPolicy")
	return (*backoff.ExponentialBackOff)(unsafe.Pointer(v.Pointer()))
}

func c18ProviderURLs(n int) ([]string, map[string]int) {
	urls := make([]string, n)
	hosts := map[string]int{}
	for i := range urls {
		h := fmt.Sprintf("p%d.c18.invalid", i)
		urls[i] = "http://" + h + "/ip"
		hosts[h] = i
	}
	return urls, hosts
}

func c18RunPubCase(t *testing.T, c c18PubCase) c18PubObs {
	var out c18PubObs
	synctest.Test(t, func(t *testing.T) {
		urls, hosts := c18ProviderURLs(len(c.Scripts))
		old := publicip.VerifSetIPCheckers(urls)
		defer publicip.VerifSetIPCheckers(old)
		tr := &c18Transport{start: time.Now(), hosts: hosts, scripts: c.Scripts, counts: make([]int, len(c.Scripts))}
		client := &http.Client{Transport: tr}
		ctx := context.Background()
		if c.Parent >= 0 {
			var cancel context.CancelFunc
			ctx, cancel = context.WithDeadline(ctx, tr.start.Add(c.Parent))
			defer cancel()
		}
		func() {
			defer func() {
				if p := recover(); p != nil {
					out.Panicked = fmt.Sprint(p)
				}
			}()
			ip, err := publicip.GetPublicIP(ctx, client, c18BackoffPolicy())
			out.IP, out.Err = ip, err != nil
		}()
		out.Elapsed = time.Since(tr.start)
		tr.mu.Lock()
		out.Obs = append([]c18AttemptObs(nil), tr.obs...)
		tr.mu.Unlock()
	})
	return out
}

var c18Bodies = [][]byte{
	[]byte("203.0.113.7"), []byte(" 203.0.113.7\n"), []byte("\t198.51.100.23\r\n"), []byte("2001:db8::17\n"),
	[]byte("  2001:DB8:0:0:8:800:200C:417A "), []byte("::ffff:192.0.2.1"), []byte(" 192.0.2.55 \n"),
	[]byte("::1"), []byte("64:ff9b::192.0.2.33\n"),
	// the longest texts an address can have: 45 characters (mixed notation, nothing compressed), and
	// a full 39-character IPv6 address behind leading white space
	[]byte("0000:0000:0000:0000:0000:ffff:203.100.113.200"), []byte("\r\n2001:0db8:0000:0000:0000:0000:0000:00a1"),
	[]byte("  ffff:ffff:ffff:ffff:ffff:ffff:255.255.255.255\n"), []byte("ffff:ffff:ffff:ffff:ffff:ffff:ffff:ffff\r\n"),
	[]byte(""), []byte("   \n"), []byte("<html><body>blocked</body></html>"), []byte("1.2.3"), []byte("1.2.3.4.5"),
	[]byte("256.1.1.1"), []byte("01.2.3.4"), []byte("1.2.3.4 5.6.7.8"), []byte("fe80::1%eth0"), []byte("1.2.3.4\x00"),
	[]byte("12345::"), []byte("1::2::3"), []byte("ip=1.2.3.4"), []byte("\xff\xfe1.2.3.4"), []byte("1.2.3.4\xc2"),
}

var c18Statuses = []int{200, 200, 200, 201, 204, 301, 302, 399, 400, 401, 403, 404, 418, 429, 499, 500, 500, 502, 503, 504, 599, 600, 100}

func c18GenAttempt(r *hx.RNG, long bool) c18Attempt {
	var a c18Attempt
	switch k := r.Intn(10); {
	case k < 3:
		a.Kind = 't'
	case k == 3:
		a.Kind, a.Status = 'b', hx.Pick(r, c18Statuses)
		if r.Chance(1, 2) {
			a.Status = 200
		}
		a.UnexpectedEOF = r.Chance(1, 2)
		if r.Chance(2, 3) {
			a.Body = hx.Pick(r, [][]byte{[]byte("192.0.2.1"), []byte("203.0.113."), []byte("2001:db8::1"), []byte("198.51.100.25")})
		}
	default:
		a.Kind, a.Status, a.Body = 'r', hx.Pick(r, c18Statuses), hx.Pick(r, c18Bodies)
		if r.Chance(3, 5) { // mostly addresses, so that retries and successes are common
			a.Body = c18Bodies[r.Intn(13)]
		}
		if a.Status >= 400 && r.Chance(1, 4) {
			a.RetryAfter = hx.Pick(r, []string{"0", "1", "2", "120", "Wed, 21 Oct 2026 07:28:00 GMT", "soon"})
		}
	}
	switch k := r.Intn(10); {
	case k < 4:
		a.Dur = 0
	case k < 8 || !long:
		a.Dur = time.Duration(r.Range(1, 120))*time.Millisecond + time.Duration(2*r.Range(0, 400)+1)*time.Microsecond
	default:
		a.Dur = time.Duration(r.Range(300, 2600))*time.Millisecond + time.Duration(2*r.Range(0, 400)+1)*time.Microsecond
	}
	return a
}

func c18GenPubCase(r *hx.RNG) c18PubCase {
	c := c18PubCase{Parent: -1}
	n := r.Range(1, 5)
	if r.Chance(1, 25) {
		n = 0
	}
	long := r.Chance(1, 4)
	for i := 0; i < n; i++ {
		var s []c18Attempt
		switch r.Intn(8) {
		case 0: // only transient failures: the budget decides
			for j := 0; j < 8; j++ {
				s = append(s, c18Attempt{Kind: 't', Dur: time.Duration(r.Range(0, 60))*time.Millisecond + time.Duration(2*r.Range(0, 400)+1)*time.Microsecond})
			}
		case 1: // transient failures then a decisive response
			for j, m := 0, r.Range(1, 3); j < m; j++ {
				s = append(s, c18Attempt{Kind: hx.Pick(r, []byte{'t', 'b'}), Status: 503, Dur: time.Duration(r.Range(0, 40))*time.Millisecond + time.Duration(2*r.Range(0, 400)+1)*time.Microsecond})
			}
			s = append(s, c18GenAttempt(r, long))
		default:
			for j, m := 0, r.Range(1, 6); j < m; j++ {
				s = append(s, c18GenAttempt(r, long))
			}
		}
		c.Scripts = append(c.Scripts, s)
	}
	if r.Chance(1, 5) {
		c.Parent = hx.Pick(r, []time.Duration{0, 300 * time.Millisecond, time.Second, 2500 * time.Millisecond, 5 * time.Second}) + time.Duration(2*r.Range(0, 400))*time.Microsecond + 500*time.Nanosecond
		if r.Chance(1, 4) {
			c.Parent = 0
		}
	}
	return c
}

// c18PubCatalog enumerates the decisive responses named by the property, each reached after 0..3
// transient failures, in front of a second provider that would answer.
func c18PubCatalog() []c18PubCase {
	decisive := []c18Attempt{
		{Kind: 'r', Status: 200, Body: []byte(" 203.0.113.7\n")},
		{Kind: 'r', Status: 200, Body: []byte("\t2001:db8::17 \r\n")},
		{Kind: 'r', Status: 200, Body: []byte("<html>captive portal</html>")},
		{Kind: 'r', Status: 404, Body: []byte("203.0.113.7")},
		{Kind: 'r', Status: 429, Body: []byte("203.0.113.7")},
		{Kind: 'r', Status: 429, Body: []byte("slow down"), RetryAfter: "0"},
		{Kind: 'r', Status: 429, Body: []byte("slow down"), RetryAfter: "1"},
		{Kind: 'r', Status: 403, Body: []byte("no"), RetryAfter: "Wed, 21 Oct 2026 07:28:00 GMT"},
		{Kind: 'r', Status: 503, Body: []byte("busy"), RetryAfter: "0"},
		{Kind: 'r', Status: 500, Body: []byte("203.0.113.7\n")},
		{Kind: 'r', Status: 503, Body: []byte("Service Unavailable")},
		{Kind: 'r', Status: 503, Body: nil},
		{Kind: 'r', Status: 301, Body: []byte("203.0.113.9")},
		{Kind: 'b', Status: 200},
		{Kind: 'b', Status: 200, UnexpectedEOF: true, Body: []byte("192.0.2.1")},
		{Kind: 't'},
	}
	var out []c18PubCase
	for _, d := range decisive {
		for k := 0; k <= 3; k++ {
			var s []c18Attempt
			for j := 0; j < k; j++ {
				s = append(s, c18Attempt{Kind: 't', Dur: time.Duration(j+1)*time.Millisecond + 333*time.Microsecond})
			}
			d.Dur = 7*time.Millisecond + 777*time.Microsecond
			s = append(s, d, c18Attempt{Kind: 'r', Status: 200, Body: []byte("198.51.100.1")})
			for _, parent := range []time.Duration{-1, 0, 900*time.Millisecond + 501*time.Nanosecond} {
				out = append(out, c18PubCase{Scripts: [][]c18Attempt{s, {{Kind: 'r', Status: 200, Body: []byte("192.0.2.99\n")}}}, Parent: parent})
			}
		}
	}
	return out
}

const c18CallTimeout = 2 * time.Second
const c18IvalSentinel = 10 * time.Second

type c18ProvObs struct {
	Attempts []c18AttemptObs
	Start    time.Duration
	Elapsed  time.Duration
	Ivals    []time.Duration
	Budget   time.Duration
}

func c18GroupPub(c c18PubCase, o c18PubObs) (provs []c18ProvObs, problem string) {
	provs = make([]c18ProvObs, len(c.Scripts))
	last := -1
	for k, a := range o.Obs {
		if a.Prov < last {
			return provs, fmt.Sprintf("attempt %d goes back to provider %d after provider %d was tried", k, a.Prov, last)
		}
		if a.Prov > last+1 && !(last == -1 && a.Prov == 0) {
			return provs, fmt.Sprintf("provider %d contacted although provider %d was skipped", a.Prov, last+1)
		}
		if last == -1 && a.Prov != 0 {
			return provs, fmt.Sprintf("first contacted provider is %d, not 0", a.Prov)
		}
		last = a.Prov
		p := &provs[a.Prov]
		if len(p.Attempts) == 0 {
			p.Start = a.Start
		} else {
			p.Ivals = append(p.Ivals, a.Start-p.Attempts[len(p.Attempts)-1].End)
		}
		p.Attempts = append(p.Attempts, a)
	}
	for i := range provs {
		if len(provs[i].Attempts) == 0 {
			provs[i].Budget = c18CallTimeout
			continue
		}
		end := o.Elapsed
		if i+1 < len(provs) && len(provs[i+1].Attempts) > 0 {
			end = provs[i+1].Start
		}
		provs[i].Elapsed = end - provs[i].Start
		provs[i].Budget = c18CallTimeout
		if c.Parent >= 0 {
			rem := c.Parent - provs[i].Start
			if rem < 0 {
				rem = 0
			}
			if rem < provs[i].Budget {
				provs[i].Budget = rem
			}
		}
	}
	return provs, ""
}

// provider sections for the oracle: attempts as executed followed by the rest of the script, the
// observed back-off intervals and a sentinel interval that outlasts any budget
func c18PubProviderTokens(c c18PubCase, provs []c18ProvObs, withBudget bool) string {
	var secs []string
	for i, s := range c.Scripts {
		var toks []string
		for _, a := range provs[i].Attempts {
			toks = append(toks, a.A.token())
		}
		for k := len(provs[i].Attempts); k < len(s); k++ {
			toks = append(toks, s[k].token())
		}
		for k := len(s); k < len(provs[i].Attempts)+2; k++ {
			toks = append(toks, "t:0") // the transport answers an exhausted script with an instant error
		}
		for _, iv := range provs[i].Ivals {
			toks = append(toks, fmt.Sprintf("i:%d", int64(iv)))
		}
		toks = append(toks, fmt.Sprintf("i:%d", int64(c18IvalSentinel)))
		if withBudget {
			toks = append(toks, fmt.Sprintf("B:%d", int64(provs[i].Budget)))
		}
		secs = append(secs, strings.Join(toks, " "))
	}
	return strings.Join(secs, " | ")
}

// c18PubSpec evaluates the property's public-IP clauses on what was observed (independent of the
// Lean model): providers in order, stop at the first valid address, client errors and invalid
// bodies final, every provider within its budget, back-off intervals on the configured schedule.
func c18PubSpec(c c18PubCase, o c18PubObs, provs []c18ProvObs) string {
	if o.Panicked != "" {
		return "GetPublicIP panicked: " + o.Panicked
	}
	winner := -1
	for i, p := range provs {
		for k, a := range p.Attempts {
			lastOfProv := k == len(p.Attempts)-1
			if winner >= 0 {
				return fmt.Sprintf("provider %d queried after provider %d had returned a valid address", i, winner)
			}
			if ip := a.A.valid(); ip != nil {
				if !lastOfProv {
					return fmt.Sprintf("provider %d queried again after a valid address", i)
				}
				winner = i
				if o.Err || !o.IP.Equal(ip) {
					return fmt.Sprintf("provider %d answered %v but the call returned %v (err=%v)", i, ip, o.IP, o.Err)
				}
			} else if a.A.final() && !lastOfProv {
				return fmt.Sprintf("provider %d retried after a client error / invalid body (attempt %d, status %d)", i, k, a.A.Status)
			}
		}
		if len(p.Attempts) == 0 {
			if winner < 0 {
				return fmt.Sprintf("provider %d never queried although no earlier provider returned an address", i)
			}
			continue
		}
		lastA := p.Attempts[len(p.Attempts)-1]
		if p.Elapsed > p.Budget+(lastA.End-lastA.Start) {
			return fmt.Sprintf("provider %d took %v, beyond its budget %v plus its last attempt %v", i, p.Elapsed, p.Budget, lastA.End-lastA.Start)
		}
		if lastA.A.valid() == nil && !lastA.A.final() && p.Elapsed < p.Budget {
			return fmt.Sprintf("provider %d abandoned after %v with only retryable failures although its budget is %v", i, p.Elapsed, p.Budget)
		}
		cur := 500 * time.Millisecond
		for k, iv := range p.Ivals {
			lo, hi := cur/2, cur+cur/2+1
			if iv < lo || iv > hi {
				return fmt.Sprintf("provider %d back-off interval %d is %v, outside [%v,%v]", i, k, iv, lo, hi)
			}
			cur = time.Duration(float64(cur) * 1.5)
			if cur > 3*time.Second {
				cur = 3 * time.Second
			}
		}
	}
	if winner < 0 && !o.Err {
		return fmt.Sprintf("the call returned %v although no provider returned a valid address", o.IP)
	}
	return ""
}

func c18PubObservedOut(o c18PubObs, provs []c18ProvObs) (res string, trace string) {
	res = "none"
	if !o.Err && len(o.Obs) > 0 {
		res = fmt.Sprintf("%d:%s", o.Obs[len(o.Obs)-1].Prov, hex.EncodeToString(o.IP.To16()))
	} else if !o.Err {
		res = "ip-without-attempt"
	}
	var tr []string
	for _, p := range provs {
		if len(p.Attempts) == 0 {
			continue
		}
		tr = append(tr, fmt.Sprintf("%d:%d", len(p.Attempts), int64(p.Elapsed)))
	}
	return res, strings.Join(tr, ",")
}

// the model's answer "res=… trace=out:attempts:elapsed,… elapsed=…" reduced to the observable part
func c18PubModelOut(ans string) (res, trace, elapsed string) {
	for _, f := range strings.Fields(ans) {
		switch {
		case strings.HasPrefix(f, "res="):
			res = f[4:]
		case strings.HasPrefix(f, "elapsed="):
			elapsed = f[8:]
		case strings.HasPrefix(f, "trace="):
			var tr []string
			for _, e := range strings.Split(f[6:], ",") {
				if e == "" {
					continue
				}
				parts := strings.Split(e, ":")
				if len(parts) == 3 {
					tr = append(tr, parts[1]+":"+parts[2])
				}
			}
			trace = strings.Join(tr, ",")
		}
	}
	return
}

// mutated bodies for the ParseIP/TrimSpace cross-check
func c18GenBody(r *hx.RNG) []byte {
	b := append([]byte(nil), hx.Pick(r, c18Bodies)...)
	alphabet := []byte("0123456789abcdefABCDEF.:% \t\n\r\v\f")
	for i, m := 0, r.Intn(4); i < m; i++ {
		switch r.Intn(5) {
		case 0:
			if len(b) > 0 {
				b[r.Intn(len(b))] = hx.Pick(r, alphabet)
			}
		case 1:
			p := r.Intn(len(b) + 1)
			b = append(b[:p], append([]byte{hx.Pick(r, alphabet)}, b[p:]...)...)
		case 2:
			if len(b) > 0 {
				p := r.Intn(len(b))
				b = append(b[:p], b[p+1:]...)
			}
		case 3:
			sp := hx.Pick(r, []string{"\u0085", "\u00a0", "\u1680", "\u2000", "\u2003", "\u200a", "\u2028", "\u2029", "\u202f", "\u205f", "\u3000", "\u200b", "\ufeff", "\u180e"})
			if r.Bool() {
				b = append([]byte(sp), b...)
			} else {
				b = append(b, sp...)
			}
		default:
			if len(b) > 0 {
				b[r.Intn(len(b))] = byte(r.Intn(256))
			}
		}
	}
	if r.Chance(1, 6) { // fully synthetic v6
		var g []string
		for i, m := 0, r.Range(1, 9); i < m; i++ {
			g = append(g, fmt.Sprintf("%x", r.Intn(0x1ffff)>>uint(r.Intn(3)*4)))
		}
		s := strings.Join(g, ":")
		if r.Bool() {
			p := r.Intn(len(s) + 1)
			s = s[:p] + "::" + s[p:]
		}
		if r.Chance(1, 3) {
			s += fmt.Sprintf(":%d.%d.%d.%d", r.Intn(300), r.Intn(256), r.Intn(256), r.Intn(256))
		}
		b = []byte(s)
	}
	return b
}

// ---------------------------------------------------------------------------------------------
// (*PublicIPFetcher).GetIP: the public IP behind the cache (2 h), through the real fetcher with its
// client's transport replaced

func c18FetcherWithTransport(rt http.RoundTripper) (f *publicip.PublicIPFetcher, ok bool) {
	defer func() {
		if recover() != nil {
			ok = false
		}
	}()
	f = publicip.NewPublicIPFetcher()
	v := reflect.ValueOf(f).Elem().FieldByName("client")
	cl := (*http.Client)(unsafe.Pointer(v.Pointer()))
	cl.Transport = rt
	return f, true
}

type c18GetIPStep struct {
	Sleep   time.Duration
	Succeed bool
}

type c18GetIPObs struct {
	At       int64
	DoneAt   int64
	Attempts int
	Result   string
}

func c18RunGetIP(t *testing.T, steps []c18GetIPStep) (obs []c18GetIPObs, ok bool) {
	synctest.Test(t, func(t *testing.T) {
		c18WithFreshCache(func() {
			urls, hosts := c18ProviderURLs(1)
			old := publicip.VerifSetIPCheckers(urls)
			defer publicip.VerifSetIPCheckers(old)
			for n, st := range steps {
				time.Sleep(st.Sleep)
				a := c18Attempt{Kind: 'r', Status: 404, Body: []byte("nope")}
				if st.Succeed {
					a = c18Attempt{Kind: 'r', Status: 200, Body: []byte(fmt.Sprintf("192.0.2.%d\n", n+1)), Dur: 3 * time.Millisecond}
				}
				tr := &c18Transport{start: time.Now(), hosts: hosts, scripts: [][]c18Attempt{{a}}, counts: make([]int, 1)}
				f, fok := c18FetcherWithTransport(tr)
				if !fok {
					return
				}
				o := c18GetIPObs{At: time.Now().UnixNano()}
				var ip net.IP
				var err error
				panicked := ""
				func() {
					defer func() {
						if p := recover(); p != nil {
							panicked = fmt.Sprint(p)
						}
					}()
					ip, err = f.GetIP(context.Background())
				}()
				o.DoneAt = time.Now().UnixNano()
				o.Attempts = len(tr.obs)
				o.Result = "!"
				if panicked != "" {
					o.Result = "panic:" + panicked // a request that collects the public IP crashed: neither result nor error
				} else if err == nil {
					o.Result = hex.EncodeToString(ip.To16())
				}
				obs = append(obs, o)
			}
			ok = true
		})
	})
	return
}

// ---------------------------------------------------------------------------------------------

type c18Item struct {
	stream   string
	line     string // oracle line
	got      string // implementation's observable in the oracle's format
	specLine string // spec handler line evaluated on the implementation's output ("" = none)
	specBad  string // Go-evaluated spec predicate verdict ("" = holds)
	nontriv  bool
	sample   map[string]any
	sig      map[string]string
}

func TestC18(t *testing.T) {
	env := hx.GetEnv()
	rep := hx.NewReport("C18", env, "scripted resolver / callback / HTTP scripts against the real enrichment, cache and public-IP code in synctest bubbles; "+
		"non-trivial = rdns: at least one name attached; cache: at least one hit and one miss; public IP: at least one provider contacted; "+
		"distinct by oracle line")
	defer rep.Write()
	rng := hx.NewRNG(env.Seed ^ 0xC18)
	orc := hx.NewOracle()
	var items []c18Item

	// ---- reverse DNS: resolver as a function of the address (cold / warm / expired phases)
	rr := rng.Fork()
	for i, n := 0, env.Scale(1500, 30000); i < n; i++ {
		flaky := i%5 == 4
		c := c18GenRdnsCase(rr, flaky)
		obs := c18RunRdnsCase(t, c)
		// tie of the model's `str`: ip.String() identifies exactly the norm16 classes
		textOf := map[string]string{}
		for _, ip := range c18Occurrences(c.Doc) {
			if len(ip) == 0 {
				continue
			}
			if prev, ok := textOf[c18NormKey(ip)]; ok && prev != ip.String() {
				rep.Violate(hx.Violation{Kind: "tie", What: "ip.String() differs within one norm16 class", NoInput: true,
					Sig: map[string]string{"stream": "rdns-str"}, Replay: map[string]any{"ip": c18IPTok(ip)}})
			}
			textOf[c18NormKey(ip)] = ip.String()
		}
		texts := map[string]string{}
		for k, v := range textOf {
			if prev, ok := texts[v]; ok && prev != k {
				rep.Violate(hx.Violation{Kind: "tie", What: "two norm16 classes print as the same ip.String()", NoInput: true,
					Sig: map[string]string{"stream": "rdns-str"}, Replay: map[string]any{"text": v}})
			}
			texts[v] = k
		}
		script := map[string]any{}
		for k, b := range c.Script {
			var cs []string
			for _, cl := range b.Calls {
				cs = append(cs, fmt.Sprintf("%s %v after %v", cl.Kind, cl.Names, cl.Delay))
			}
			script[k] = cs
		}
		countBad := c18CountSpec(c, obs)
		for _, o := range obs {
			it := c18Item{stream: "rdns", sample: map[string]any{"doc": c18DocTokens(c.Doc, true), "resolver": script, "phase": o.Phase,
				"at": o.At.String(), "impl_names": o.NamesOut, "resolver_calls": o.Counts}, sig: map[string]string{"part": "rdns", "phase": o.Phase}}
			if flaky {
				it.stream = "rdns-percall"
				comps := c18CompletionTokens(c, o)
				it.line = strings.TrimSpace("enr.with " + c18DocTokens(c.Doc, false) + " C " + comps)
				it.specLine = strings.TrimSpace("enr.same " + o.DocNames + " C " + comps)
			} else {
				tab := c18ResolverTable(c)
				it.line = strings.TrimSpace("enr.run " + c18DocTokens(c.Doc, false) + " R " + tab + " O " + c18OrderTokens(c))
				it.specLine = strings.TrimSpace("enr.spec " + o.DocNames + " R " + tab)
			}
			it.got = o.NamesOut
			it.nontriv = strings.ContainsAny(strings.NewReplacer("_", "", "|", "", " ", "").Replace(o.NamesOut), "0123456789abcdef-")
			var maxEff time.Duration
			for _, cl := range o.Calls {
				if cl.Done > maxEff {
					maxEff = cl.Done
				}
			}
			switch {
			case o.Panicked != "":
				it.specBad = "EnrichWithReverseDns panicked: " + o.Panicked
			case !o.RestSame:
				it.specBad = "enrichment altered something other than the reverse_dns fields"
			case countBad != "":
				it.specBad = countBad
			case o.Elapsed > c18RdnsTimeout:
				it.specBad = fmt.Sprintf("enrichment took %v with a resolver that honours its 5 s context", o.Elapsed)
			case o.Elapsed != maxEff:
				it.specBad = fmt.Sprintf("enrichment returned after %v, the slowest lookup after %v", o.Elapsed, maxEff)
			}
			rep.Hit("rdns:phase:" + o.Phase)
			for _, cl := range o.Calls {
				rep.Hit("rdns:call:" + map[bool]string{true: "fail", false: "ok"}[cl.Tok == "!"])
			}
			items = append(items, it)
		}
	}

	// ---- the witness of c18_names_exact_full_false on the real code: destination and hop share one
	// address, the resolver fails the earlier-completing lookup and answers the later one
	{
		ip := net.IP{10, 0, 0, 1}
		wc := c18RdnsCase{Flaky: true, Phases: []string{"cold"}, Script: map[string]c18Beh{ip.String(): {Calls: []c18Call{
			{Kind: "error", Delay: 3*time.Millisecond + 1*time.Microsecond}, {Kind: "names", Names: []string{"late.example."}, Delay: 9*time.Millisecond + 3*time.Microsecond}}}},
			Doc: &result.Results{Traceroute: result.Traceroute{Runs: []result.TracerouteRun{{
				Destination: result.TracerouteDestination{IPAddress: c18CloneIP(ip)},
				Hops:        []*result.TracerouteHop{{TTL: 1, IPAddress: c18CloneIP(ip)}}}}}}}
		wo := c18RunRdnsCase(t, wc)
		if len(wo) == 1 {
			rep.Note("witness of c18_names_exact_full_false on the real code: two occurrences of 10.0.0.1, per-call answers [error, names]: names attached = %q (both occurrences carry the later answer, although one occurrence's own lookup failed)", wo[0].NamesOut)
		}
	}

	// ---- cache: sequential operations with clock steps
	cr := rng.Fork()
	for i, n := 0, env.Scale(1500, 30000); i < n; i++ {
		ops := c18GenCacheOps(cr)
		t0, obs := c18RunCacheOps(t, ops)
		it := c18Item{stream: "cache-seq", line: c18CacheSeqLine(t0, ops), got: c18CacheObsOut(obs), specLine: c18CacheSpecLine(obs),
			sig: map[string]string{"part": "cache"}}
		hits, misses := 0, 0
		for _, o := range obs {
			switch {
			case o.Flush:
			case o.Ran == 0:
				hits++
				rep.Hit("cache:hit")
			default:
				misses++
				rep.Hit("cache:miss:" + map[bool]string{true: "cb-fails", false: "cb-ok"}[o.CbOut == "!"])
			}
			if o.Ran > 1 {
				it.specBad = "callback invoked more than once by one call"
			}
			if o.Result == "other-error" {
				it.specBad = "GetWithExpiration returned an error that is not the callback's"
			}
		}
		it.nontriv = hits > 0 && misses > 0
		it.sample = map[string]any{"ops": it.line, "impl": it.got}
		items = append(items, it)
	}

	// ---- cache: concurrent callers (two atomic steps each, interleaved on the virtual clock)
	cc := rng.Fork()
	for i, n := 0, env.Scale(800, 15000); i < n; i++ {
		cs := c18GenCallers(cc)
		obs := c18RunCallers(t, cs)
		want := c18CallersExpected(cs)
		var got, desc []string
		hits := 0
		for k, o := range obs {
			if o.Ran == 0 {
				got = append(got, "h:"+o.Result)
				hits++
			} else {
				got = append(got, "m:"+o.Result)
			}
			desc = append(desc, fmt.Sprintf("start=%v key=%s cb=%s dur=%v ttl=%v", cs[k].Start, cs[k].Key, cs[k].Cb, cs[k].Dur, cs[k].TTL))
		}
		it := c18Item{stream: "cache-conc", got: strings.Join(got, " "), nontriv: hits > 0,
			sample: map[string]any{"callers": desc, "impl": strings.Join(got, " "), "two_step_semantics": strings.Join(want, " ")},
			sig:    map[string]string{"part": "cache-conc"}}
		// spec on the observations: a hit returns the value of a successful callback for that key
		// that finished before the hit and is unexpired; a failure is never returned by a hit
		for k, o := range obs {
			if o.Ran > 0 {
				if o.Result != cs[k].Cb {
					it.specBad = fmt.Sprintf("caller %d ran its callback (%s) but got %s", k, cs[k].Cb, o.Result)
				}
				continue
			}
			okSrc := false
			for j, p := range obs {
				if p.Ran > 0 && cs[j].Key == cs[k].Key && cs[j].Cb != "!" && cs[j].Cb == o.Result && p.DoneAt < o.GetAt &&
					(cs[j].TTL < 0 || o.GetAt <= p.DoneAt+cs[j].TTL) {
					okSrc = true
				}
			}
			if !okSrc {
				it.specBad = fmt.Sprintf("caller %d got %q from the cache, which no successful unexpired callback for %s stored", k, o.Result, cs[k].Key)
			}
		}
		if it.specBad == "" && strings.Join(got, " ") != strings.Join(want, " ") {
			// not a spec violation by itself: report as correspondence (the two-step semantics is the model)
			it.line = "go:two-step"
			it.sample["model_result"] = strings.Join(want, " ")
		}
		rep.Hit(fmt.Sprintf("cache-conc:hits:%d", hits))
		items = append(items, it)
	}

	// ---- cache: the janitor-enabled instance created at package init, real clock, short expiries
	for i := 0; i < env.Scale(2, 8); i++ {
		key := fmt.Sprintf("c18-real-%d-%d", env.Seed, i)
		calls := 0
		get := func(fail bool) string {
			v, err := cache.GetWithExpiration(key, func() (string, error) {
				calls++
				if fail {
					return "", errC18Cb
				}
				return fmt.Sprintf("r%d", calls), nil
			}, 250*time.Millisecond)
			if err != nil {
				return "!"
			}
			return v
		}
		a := get(true)  // failure: not stored
		b := get(false) // miss again, stored
		c := get(false) // hit
		time.Sleep(520 * time.Millisecond)
		d := get(false) // expired: miss
		got := fmt.Sprintf("%s %s %s %s calls=%d", a, b, c, d, calls)
		it := c18Item{stream: "cache-real", got: got, nontriv: true, sample: map[string]any{"impl": got}, sig: map[string]string{"part": "cache-real"}}
		if got != "! r2 r2 r3 calls=3" {
			it.specBad = "real-clock cache sequence (fail, store, hit, expire) gave " + got
		}
		cache.Cache.Delete(key)
		items = append(items, it)
	}

	// ---- public IP
	pr := rng.Fork()
	catalog := c18PubCatalog()
	for i, n := 0, env.Scale(2500, 40000)+len(catalog); i < n; i++ {
		var c c18PubCase
		if i < len(catalog) {
			c = catalog[i]
		} else {
			c = c18GenPubCase(pr)
		}
		o := c18RunPubCase(t, c)
		provs, problem := c18GroupPub(c, o)
		parent := "D=-"
		if c.Parent >= 0 {
			parent = fmt.Sprintf("D=%d", int64(c.Parent))
		}
		it := c18Item{stream: "pubip", sig: map[string]string{"part": "pubip"}}
		var scripts []string
		for _, s := range c.Scripts {
			var toks []string
			for _, a := range s {
				toks = append(toks, a.token())
			}
			scripts = append(scripts, strings.Join(toks, " "))
		}
		var attempts []string
		for _, a := range o.Obs {
			attempts = append(attempts, fmt.Sprintf("p%d#%d %s [%v,%v]", a.Prov, a.Idx, a.A.token(), a.Start, a.End))
		}
		it.sample = map[string]any{"scripts": scripts, "parent_deadline": parent, "attempts": attempts,
			"impl_ip": o.IP.String(), "impl_err": o.Err, "elapsed": o.Elapsed.String()}
		if problem != "" {
			it.specBad = "providers not asked in list order: " + problem
			items = append(items, it)
			continue
		}
		it.specBad = c18PubSpec(c, o, provs)
		it.line = strings.TrimSpace("pubip.get " + parent + " " + c18PubProviderTokens(c, provs, false))
		res, trace := c18PubObservedOut(o, provs)
		it.got = fmt.Sprintf("res=%s trace=%s elapsed=%d", res, trace, int64(o.Elapsed))
		it.specLine = strings.TrimSpace("pubip.spec " + c18PubProviderTokens(c, provs, true))
		it.sample["spec_expect"] = res
		it.nontriv = len(o.Obs) > 0
		for _, p := range provs {
			if len(p.Attempts) > 0 {
				la := p.Attempts[len(p.Attempts)-1].A
				switch {
				case la.valid() != nil:
					rep.Hit(fmt.Sprintf("pubip:provider:ok@%d", len(p.Attempts)))
					if la.Status >= 500 {
						rep.Hit("pubip:5xx-with-address-accepted")
					}
				case la.final():
					rep.Hit(fmt.Sprintf("pubip:provider:final@%d", len(p.Attempts)))
				default:
					rep.Hit(fmt.Sprintf("pubip:provider:budget@%d", len(p.Attempts)))
				}
			}
		}
		if o.Err {
			rep.Hit("pubip:result:none")
		} else {
			rep.Hit("pubip:result:ip")
		}
		items = append(items, it)
	}

	// ---- ParseIP ∘ TrimSpace against the model's parseBody
	br := rng.Fork()
	for i, n := 0, env.Scale(6000, 120000); i < n; i++ {
		b := c18GenBody(br)
		got := "!"
		if ip := net.ParseIP(strings.TrimSpace(string(b))); ip != nil {
			got = hex.EncodeToString(ip.To16())
			rep.Hit("parse:valid")
		} else {
			rep.Hit("parse:invalid")
		}
		body := "-"
		if len(b) > 0 {
			body = hex.EncodeToString(b)
		}
		items = append(items, c18Item{stream: "pubip-parse", line: "pubip.parse " + body, got: got, nontriv: got != "!",
			sample: map[string]any{"body": string(b), "impl": got}, sig: map[string]string{"part": "parse"}})
	}

	// ---- GetIP: the public IP behind the cache
	gr := rng.Fork()
	for i, n := 0, env.Scale(60, 600); i < n; i++ {
		var steps []c18GetIPStep
		for k, m := 0, gr.Range(2, 6); k < m; k++ {
			steps = append(steps, c18GetIPStep{Sleep: hx.Pick(gr, []time.Duration{time.Millisecond, time.Minute, 59 * time.Minute, 2*time.Hour + time.Second, 3 * time.Hour}), Succeed: gr.Chance(2, 3)})
		}
		obs, ok := c18RunGetIP(t, steps)
		if !ok {
			rep.Note("GetIP stream skipped: PublicIPFetcher's client field is not reachable by reflection")
			break
		}
		toks := []string{"cache.spec"}
		var desc []string
		for k, o := range obs {
			ran, out := "0", "!"
			if o.Attempts > 0 {
				ran = "1"
				if steps[k].Succeed {
					out = o.Result
				}
			}
			toks = append(toks, fmt.Sprintf("c:%d:source_public_ip:%d:%s:%s:%d:%s", o.At, int64(2*time.Hour), ran, out, o.DoneAt, o.Result))
			desc = append(desc, fmt.Sprintf("sleep %v succeed=%v -> %s attempts=%d", steps[k].Sleep, steps[k].Succeed, o.Result, o.Attempts))
		}
		items = append(items, c18Item{stream: "pubip-getip", specLine: strings.Join(toks, " "), nontriv: true, got: strings.Join(desc, "; "),
			sample: map[string]any{"steps": desc}, sig: map[string]string{"part": "getip"}})
	}

	// ---- the stalled-provider probe of C08 (finding F9 belongs to C08; recorded here as a note)
	el, returned := c08PublicIPStallCase(t)
	rep.Note("C08 probe: GetPublicIP against 2 providers that never answer: returned=%v after %v virtual", returned, el)

	// ---- oracle batches and verdicts
	var lines, specLines []string
	var lineIdx, specIdx []int
	for i, it := range items {
		if it.line != "" && it.line != "go:two-step" {
			lines = append(lines, it.line)
			lineIdx = append(lineIdx, i)
		}
		if it.specLine != "" {
			specLines = append(specLines, it.specLine)
			specIdx = append(specIdx, i)
		}
	}
	ans, err := orc.Batch(lines)
	if err != nil {
		t.Fatalf("oracle: %v", err)
	}
	specAns, err := orc.Batch(specLines)
	if err != nil {
		t.Fatalf("oracle(spec): %v", err)
	}
	model := map[int]string{}
	for k, i := range lineIdx {
		model[i] = ans[k]
	}
	specOf := map[int]string{}
	for k, i := range specIdx {
		specOf[i] = specAns[k]
	}
	for i, it := range items {
		key := it.line
		if key == "" || key == "go:two-step" {
			key = it.stream + ":" + it.got + ":" + it.specLine
		}
		rep.Case(it.stream, key, it.nontriv, it.sample)
		specBad := it.specBad
		if sv, ok := specOf[i]; ok && specBad == "" {
			switch it.stream {
			case "pubip":
				if sv != it.sample["spec_expect"] {
					specBad = fmt.Sprintf("the call returned %v but the first provider with a valid address within its budget is %s", it.sample["spec_expect"], sv)
				}
			default:
				if sv != "1" {
					specBad = map[string]string{
						"rdns":         "a hop or destination does not carry exactly the names the resolver returns for its address",
						"rdns-percall": "a hop or destination carries names no lookup of that same address returned (or lacks names although one succeeded)",
						"cache-seq":    "a call did not return the stored success until expiry / re-queried / cached a failure",
						"pubip-getip":  "GetIP did not serve the cached public IP until expiry, or cached a failure",
					}[it.stream] + " (spec handler answered " + sv + ")"
				}
			}
		}
		if specBad != "" {
			rj := map[string]any{"stream": it.stream, "case": it.sample, "oracle_line": it.line, "spec_line": it.specLine}
			rep.Violate(hx.Violation{Kind: "spec", What: specBad, Sig: it.sig, Replay: rj})
			continue
		}
		want, hasModel := model[i]
		if it.line == "go:two-step" {
			want, hasModel = fmt.Sprint(it.sample["model_result"]), true
		}
		got := it.got
		if hasModel && it.stream == "pubip" {
			r, tr, e := c18PubModelOut(want)
			want = fmt.Sprintf("res=%s trace=%s elapsed=%s", r, tr, e)
		}
		if hasModel && want != got {
			rj := map[string]any{"stream": it.stream, "case": it.sample, "oracle_line": it.line, "model_result": want, "impl_result": got,
				"broken": "correspondence stream " + it.stream + " (Lean TRV.Enrich vs the Go code)"}
			rep.Violate(hx.Violation{Kind: "correspondence", NoInput: true,
				What: "model and implementation differ (" + it.stream + "); the spec predicates hold on the implementation output",
				Sig:  map[string]string{"stream": it.stream}, Replay: rj})
		}
	}
	if rep.Failed() {
		t.Fail()
	}
}
