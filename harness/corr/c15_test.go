package corr

// C15: the real Traceroute.RunTraceroute (runTracerouteMulti) with the per-run function replaced by
// stubs that complete in a scripted order under a virtual clock, every subset of runs/probes failing
// with unique sentinel errors, with/without public IP (ok, error) and reverse DNS; compared with the
// Lean aggregation model (exact append order) and with the all-or-error spec evaluated on the real
// (result, error).

import (
	"context"
	"errors"
	"fmt"
	"math"
	"net"
	"os"
	"runtime"
	"sort"
	"strings"
	"sync"
	"sync/atomic"
	"testing"
	"testing/synctest"
	"time"

	"github.com/DataDog/datadog-traceroute/cache"
	"github.com/DataDog/datadog-traceroute/result"
	"github.com/DataDog/datadog-traceroute/reversedns"
	"github.com/DataDog/datadog-traceroute/traceroute"

	"verifharness/hx"
)

// c15Err is a unique sentinel per failing call (identity = ID).
type c15Err struct{ ID int }

func (e *c15Err) Error() string { return fmt.Sprintf("verif: injected failure #%d", e.ID) }

type c15Fetcher struct {
	mode  string // ok | err
	delay time.Duration
	kind  int // err: which kind of error (plain, deadline, cancellation, network time-out)
}

var c15PubErr = errors.New("verif: injected public-ip failure")

func (f c15Fetcher) GetIP(ctx context.Context) (net.IP, error) {
	if f.delay > 0 {
		time.Sleep(f.delay)
	}
	if f.mode == "err" {
		// whatever KIND of error the lookup ends in — a cancellation or deadline included — the
		// request does not fail because of it
		switch f.kind % 4 {
		case 1:
			return nil, fmt.Errorf("public ip: %w", errors.Join(c15PubErr, context.DeadlineExceeded))
		case 2:
			return nil, fmt.Errorf("public ip: %w", errors.Join(c15PubErr, context.Canceled))
		case 3:
			return nil, &net.OpError{Op: "dial", Net: "tcp", Err: errors.Join(c15PubErr, os.ErrDeadlineExceeded)}
		}
		return nil, c15PubErr
	}
	return net.ParseIP("203.0.113.7"), nil
}

type c15Case struct {
	NRuns, NProbes int
	Fail           []bool // per call id: runs 0..NRuns-1, probes NRuns..NRuns+NProbes-1
	NoDest         []bool // per call id (probes only): succeeds without a destination hop → sample 0
	Wrap           []int  // per call id: how the sentinel is wrapped (0 bare, 1 %w, 2 %w twice)
	Rank           []int  // per call id: completion rank (a permutation of 0..n-1)
	Pub            string // off | ok | err
	PubRank        int    // when the public-IP fetch completes relative to the calls
	RDNS           bool
	Free           bool // no scripted order: real scheduler, only the spec is checked
	// CancelAt > 0: the caller's context is cancelled at that virtual instant, while calls are being
	// launched or are in flight. The stubs (like the UDP/TCP runs) do not look at the context and
	// succeed: the request must still return everything it was asked for, or an error.
	CancelAt time.Duration
}

func (c c15Case) n() int { return c.NRuns + c.NProbes }

// outcome token of call id in the oracle syntax
func (c c15Case) token(id int) string {
	kind, idx := "r", id
	if id >= c.NRuns {
		kind, idx = "p", id-c.NRuns
	}
	if c.Fail[id] {
		return fmt.Sprintf("%s:%d:err:%d", kind, idx, 500+id)
	}
	if kind == "r" {
		return fmt.Sprintf("r:%d:ok:%d", idx, c15Marker(id))
	}
	return fmt.Sprintf("p:%d:ok:%d", idx, c.rtt(id))
}

func c15Marker(id int) int { return 1000 + 7*id }

func (c c15Case) rtt(id int) int {
	if c.NoDest[id] {
		return 0
	}
	return 10 + 3*id
}

func (c c15Case) pubToken() string {
	if c.Pub == "ok" {
		return "ok:1"
	}
	return c.Pub
}

type c15Outcome struct {
	Res      string // canonical, same format as the oracle's showRes
	ErrIDs   []int  // sentinel ids found in the joined error, join order (nil if not decomposable)
	IsOK     map[int]bool
	Bad      string // Go-side observation that contradicts the property
	Hung     bool   // the request never returned
	Sent     int
	StubRuns int
	StubE2e  int
	E2eSeen  []string
}

// c15TimeoutErr is a net.Error with Timeout() == true that wraps the sentinel.
type c15TimeoutErr struct{ inner error }

func (e *c15TimeoutErr) Error() string   { return "verif: i/o timeout: " + e.inner.Error() }
func (e *c15TimeoutErr) Timeout() bool   { return true }
func (e *c15TimeoutErr) Temporary() bool { return true }
func (e *c15TimeoutErr) Unwrap() error   { return e.inner }

// c15Wrap dresses the sentinel up as the error kinds a real run produces: plain, wrapped with %w,
// timeout-flavoured (net.OpError with os.ErrDeadlineExceeded, context.DeadlineExceeded, a net.Error
// with Timeout()), a closed-handle error. Whatever the kind, a failing run or probe must fail the
// request and be exposed.
func c15Wrap(err error, kind int) error {
	switch kind {
	case 0, 1, 2:
		for i := 0; i < kind; i++ {
			err = fmt.Errorf("layer %d: %w", i, err)
		}
		return err
	case 3:
		return errors.Join(err, &net.OpError{Op: "read", Net: "ip4", Err: os.ErrDeadlineExceeded})
	case 4:
		return fmt.Errorf("probe failed: %w", errors.Join(context.DeadlineExceeded, err))
	case 5:
		return fmt.Errorf("read: %w", &c15TimeoutErr{inner: err})
	default:
		return fmt.Errorf("handle: %w", errors.Join(err, os.ErrClosed))
	}
}

// c15Run executes the real RunTraceroute for one case.
func c15Run(t *testing.T, c c15Case) c15Outcome {
	var out c15Outcome
	body := func(t *testing.T) {
		start := time.Now()
		var mu sync.Mutex
		nextRun, nextProbe := 0, 0
		sentinels := make([]*c15Err, c.n())
		for i := range sentinels {
			sentinels[i] = &c15Err{ID: 500 + i}
		}
		const base = 20 * time.Millisecond
		const stepD = 3*time.Millisecond + 7*time.Microsecond
		var active int32
		stub := func(ctx context.Context, p traceroute.TracerouteParams, port int) (*result.TracerouteRun, error) {
			atomic.AddInt32(&active, 1)
			defer atomic.AddInt32(&active, -1)
			isE2e := p.MinTTL == p.MaxTTL
			mu.Lock()
			var id int
			if isE2e {
				id = c.NRuns + nextProbe
				nextProbe++
				out.StubE2e++
			} else {
				id = nextRun
				nextRun++
				out.StubRuns++
			}
			mu.Unlock()
			if id >= c.n() || (isE2e && id < c.NRuns) || (!isE2e && id >= c.NRuns) {
				return nil, fmt.Errorf("verif: more calls than requested (id %d)", id)
			}
			if c.Free {
				for k := 0; k < c.Rank[id]; k++ {
					runtime.Gosched()
				}
			} else {
				at := base + time.Duration(c.Rank[id])*stepD
				time.Sleep(time.Until(start.Add(at)))
			}
			if c.Fail[id] {
				return nil, c15Wrap(sentinels[id], c.Wrap[id])
			}
			run := &result.TracerouteRun{
				Source:      result.TracerouteSource{IPAddress: net.IPv4(192, 0, 2, 2), Port: uint16(c15Marker(id))},
				Destination: result.TracerouteDestination{IPAddress: net.IPv4(198, 51, 100, 9), Port: uint16(port)},
			}
			if isE2e {
				hop := &result.TracerouteHop{TTL: p.MaxTTL, IPAddress: net.IPv4(198, 51, 100, 9), RTT: float64(c.rtt(id)), IsDest: !c.NoDest[id]}
				run.Hops = []*result.TracerouteHop{hop}
			} else {
				run.Hops = []*result.TracerouteHop{
					{TTL: 1, IPAddress: net.IPv4(10, 0, 0, 1), RTT: 1.5},
					{TTL: 2},
					{TTL: 3, IPAddress: net.IPv4(198, 51, 100, 9), RTT: 4.25, IsDest: true},
				}
			}
			return run, nil
		}
		traceroute.VerifSetRunOnce(stub)
		defer traceroute.VerifSetRunOnce(nil)

		oldLookup := reversedns.LookupAddrFn
		reversedns.LookupAddrFn = func(ctx context.Context, addr string) ([]string, error) {
			if strings.HasPrefix(addr, "10.") {
				return nil, errors.New("verif: no PTR")
			}
			return []string{"host-" + addr + "."}, nil
		}
		defer func() { reversedns.LookupAddrFn = oldLookup }()
		cache.Cache.Flush()

		fetch := c15Fetcher{mode: c.Pub, kind: c.PubRank + c.NRuns + 2*c.NProbes}
		if !c.Free {
			fetch.delay = base + time.Duration(c.PubRank)*stepD - 500*time.Microsecond
		}
		tr := traceroute.VerifNewTraceroute(fetch)
		params := traceroute.TracerouteParams{
			Hostname: "198.51.100.9", Port: 0, Protocol: "udp", MinTTL: 1, MaxTTL: 3,
			Timeout: time.Millisecond, TracerouteQueries: c.NRuns, E2eQueries: c.NProbes,
			CollectSourcePublicIP: c.Pub != "off", ReverseDns: c.RDNS,
		}
		if c.Free {
			// real clock: no time-out at all, or one so small that the whole "traceroute window"
			// (MaxTTL x Timeout) is over before the first probe is launched — legal values, and the
			// request still owes every probe it was asked for
			params.Timeout = []time.Duration{0, 0, time.Nanosecond, time.Microsecond, 50 * time.Microsecond}[(c.NRuns+3*c.NProbes+c.Rank[0])%5]
		}
		ctx, cancel := context.WithCancel(context.Background())
		defer cancel()
		if c.CancelAt > 0 && !c.Free {
			tm := time.AfterFunc(c.CancelAt, cancel)
			defer tm.Stop()
		}
		var res *result.Results
		var err error
		returned := make(chan struct{})
		go func() {
			defer close(returned)
			res, err = tr.RunTraceroute(ctx, params)
		}()
		// every stub returns within base + n steps: a request that has not returned after a minute
		// (virtual; real in the free-running stream) never will
		limit := time.Minute
		if c.Free {
			limit = 20 * time.Second
		}
		select {
		case <-returned:
		case <-time.After(limit):
			out.Hung = true
			out.Bad = fmt.Sprintf("RunTraceroute did not return within %v although every run and probe it could start returns within 100 ms (%d still executing): the request is stuck on something left behind by earlier requests of this process", limit, atomic.LoadInt32(&active))
			out.Res = "joined -"
			return
		}
		stillRunning := atomic.LoadInt32(&active)

		out.IsOK = map[int]bool{}
		if stillRunning > 0 {
			time.Sleep(5 * time.Second) // (virtual) let the stragglers finish so that the bubble can end
			// C10's clause for the request level: nothing the call started outlives it (the runs hold
			// capture and send handles)
			defer func() {
				out.Bad = fmt.Sprintf("RunTraceroute returned (error: %v) while %d run(s) / probe(s) it had started were still executing", err, stillRunning)
			}()
		}
		if err != nil {
			if res != nil {
				out.Bad = "an error was returned together with a result"
			}
			for id, s := range sentinels {
				out.IsOK[id] = errors.Is(err, s)
			}
			if errors.Is(err, c15PubErr) {
				out.Bad = "the public-IP failure is part of the returned error"
			}
			if j, ok := err.(interface{ Unwrap() []error }); ok {
				out.ErrIDs = []int{}
				for _, e := range j.Unwrap() {
					var s *c15Err
					if errors.As(e, &s) {
						out.ErrIDs = append(out.ErrIDs, s.ID)
					} else {
						out.ErrIDs = append(out.ErrIDs, 0)
					}
				}
			} else {
				// not a join (e.g. a single error returned as is): membership only
				for id := range sentinels {
					if out.IsOK[id] {
						out.ErrIDs = append(out.ErrIDs, 500+id)
					}
				}
			}
			toks := make([]string, len(out.ErrIDs))
			for i, e := range out.ErrIDs {
				toks[i] = fmt.Sprint(e)
			}
			out.Res = "joined " + c15List(toks)
			return
		}
		if res == nil {
			out.Bad = "neither a result nor an error"
			out.Res = "ok - - -"
			return
		}
		var runs, rtts []string
		for _, r := range res.Traceroute.Runs {
			runs = append(runs, fmt.Sprint(int(r.Source.Port)))
			if r.RunID == "" {
				out.Bad = "a run without run_id"
			}
			if c.RDNS && len(r.Destination.ReverseDns) == 0 {
				out.Bad = "reverse DNS requested but the destination has no name"
			}
			if !c.RDNS && len(r.Destination.ReverseDns) != 0 {
				out.Bad = "reverse DNS not requested but names are present"
			}
		}
		for _, v := range res.E2eProbe.RTTs {
			if v < 0 || v != math.Trunc(v) {
				out.Bad = fmt.Sprintf("RTT sample %v is not one of the scripted values", v)
				v = 999999
			}
			rtts = append(rtts, fmt.Sprint(int(v)))
		}
		out.Sent = res.E2eProbe.PacketsSent
		if res.E2eProbe.PacketsSent != c.NProbes {
			out.Bad = fmt.Sprintf("e2e_probe.packets_sent = %d for %d requested probes", res.E2eProbe.PacketsSent, c.NProbes)
		}
		pub := "-"
		switch res.Source.PublicIP {
		case "":
		case "203.0.113.7":
			pub = "1"
		default:
			out.Bad = "unexpected public IP " + res.Source.PublicIP
		}
		if res.Destination.Port != 33434 || res.Destination.Hostname != "198.51.100.9" || res.Protocol != "udp" {
			out.Bad = "request echo fields wrong"
		}
		out.Res = "ok " + c15List(runs) + " " + c15List(rtts) + " " + pub
		// a result stays what it was when it was returned: the caller of an EARLIER request still holds
		// its result while this request ran (a server answering, an agent batching)
		if h := c15Held; h.res != nil {
			if now := c15Snapshot(h.res); now != h.snap {
				out.Bad = fmt.Sprintf("the result returned for an earlier request changed while a later request ran: was %q, is now %q (runs / samples are no longer the ones that request collected)", h.snap, now)
			}
		}
		c15Held = c15HeldResult{res: res, snap: c15Snapshot(res)}
	}
	if c.Free {
		body(t)
	} else {
		// a request stuck on something that lives outside the bubble (a package-level semaphore, a
		// lock) stops the virtual clock as well: a real-time watchdog around the whole bubble
		fin := make(chan any, 1)
		go func() {
			defer func() { fin <- recover() }()
			synctest.Test(t, body)
		}()
		select {
		case r := <-fin:
			// a request that never returns leaves its goroutine blocked in the bubble: synctest reports
			// that as a panic when the bubble ends — the observation made inside stands
			if r != nil && !out.Hung {
				panic(r)
			}
		case <-time.After(60 * time.Second):
			out = c15Outcome{Hung: true, Res: "joined -", IsOK: map[int]bool{},
				Bad: "RunTraceroute did not return within 60 s of real time although every run and probe it could start returns within 100 virtual ms: the request is stuck on something left behind by earlier requests of this process"}
		}
	}
	return out
}

type c15HeldResult struct {
	res  *result.Results
	snap string
}

// c15Held is the most recent successful result, kept across cases on purpose.
var c15Held c15HeldResult

func c15Snapshot(res *result.Results) string {
	var runs, rtts []string
	for _, r := range res.Traceroute.Runs {
		runs = append(runs, fmt.Sprintf("%d/%s/%d", r.Source.Port, r.RunID, len(r.Hops)))
	}
	for _, v := range res.E2eProbe.RTTs {
		rtts = append(rtts, fmt.Sprint(v))
	}
	return fmt.Sprintf("runs[%s] rtts[%s] sent=%d", strings.Join(runs, ","), strings.Join(rtts, ","), res.E2eProbe.PacketsSent)
}

func c15List(xs []string) string {
	if len(xs) == 0 {
		return "-"
	}
	return strings.Join(xs, ",")
}

// c15Canon sorts the list parts of a result string (for the free-running stream where the append
// order is not scripted).
func c15Canon(s string) string {
	f := strings.Fields(s)
	for i := 1; i < len(f) && i < 3; i++ {
		if f[i] != "-" {
			p := strings.Split(f[i], ",")
			sort.Strings(p)
			f[i] = strings.Join(p, ",")
		}
	}
	return strings.Join(f, " ")
}

func c15Perms(r *hx.RNG, n, k int) [][]int {
	id := make([]int, n)
	rev := make([]int, n)
	for i := range id {
		id[i] = i
		rev[i] = n - 1 - i
	}
	out := [][]int{id}
	if n > 1 {
		out = append(out, rev)
	}
	for j := 0; j < k && n > 1; j++ {
		p := append([]int(nil), id...)
		for i := n - 1; i > 0; i-- {
			q := r.Intn(i + 1)
			p[i], p[q] = p[q], p[i]
		}
		out = append(out, p)
	}
	return out
}

func TestC15(t *testing.T) {
	env := hx.GetEnv()
	rep := hx.NewReport("C15", env, "real RunTraceroute with stubbed per-run function completing in a scripted order (virtual clock); "+
		"non-trivial = at least two calls (runs + e2e probes); distinct by (counts, failing subset, wrapping, completion order, public-IP mode, reverse DNS)")
	defer rep.Write()
	rng := hx.NewRNG(env.Seed ^ 0xC15)
	orc := hx.NewOracle()

	maxN := env.Scale(5, 7)
	nOrders := env.Scale(4, 12)
	var cases []c15Case
	for n := 0; n <= maxN; n++ {
		for nr := 0; nr <= n; nr++ {
			for mask := 0; mask < 1<<n; mask++ {
				for _, perm := range c15Perms(rng, n, nOrders) {
					for _, pub := range []string{"off", "ok", "err"} {
						c := c15Case{NRuns: nr, NProbes: n - nr, Rank: perm, Pub: pub, RDNS: rng.Bool(), PubRank: rng.Intn(n + 1),
							Fail: make([]bool, n), NoDest: make([]bool, n), Wrap: make([]int, n)}
						for i := 0; i < n; i++ {
							c.Fail[i] = mask>>i&1 == 1
							c.Wrap[i] = rng.Intn(7)
							if i >= nr && !c.Fail[i] && rng.Chance(1, 4) {
								c.NoDest[i] = true
							}
						}
						cases = append(cases, c)
					}
				}
			}
		}
	}
	// both reverse-DNS settings explicitly on a sub-grid (the dimension above is randomised)
	for _, rd := range []bool{false, true} {
		for mask := 0; mask < 16; mask++ {
			c := c15Case{NRuns: 2, NProbes: 2, Rank: []int{2, 0, 3, 1}, Pub: "ok", RDNS: rd, PubRank: 1,
				Fail: make([]bool, 4), NoDest: make([]bool, 4), Wrap: []int{0, 1, 2, 0}}
			for i := 0; i < 4; i++ {
				c.Fail[i] = mask>>i&1 == 1
			}
			cases = append(cases, c)
		}
	}
	// larger random requests (the theorems are for any n; this widens the tie)
	for i, nBig := 0, env.Scale(300, 5000); i < nBig; i++ {
		n := rng.Range(5, 24)
		nr := rng.Intn(n + 1)
		c := c15Case{NRuns: nr, NProbes: n - nr, Rank: c15Perms(rng, n, 1)[2], Pub: hx.Pick(rng, []string{"off", "ok", "err"}),
			RDNS: rng.Bool(), PubRank: rng.Intn(n + 1), Fail: make([]bool, n), NoDest: make([]bool, n), Wrap: make([]int, n)}
		pFail := rng.Intn(4) // 0: none fail
		for k := 0; k < n; k++ {
			c.Fail[k] = pFail > 0 && rng.Chance(pFail, 8)
			c.Wrap[k] = rng.Intn(7)
			c.NoDest[k] = k >= nr && rng.Chance(1, 5)
		}
		if rng.Chance(1, 3) {
			// the e2e probes are launched MaxTTL*Timeout/E2eQueries apart (here: 3 ms / NProbes): the
			// caller's context is cancelled somewhere in the launch phase or while calls are in flight
			c.CancelAt = time.Duration(rng.Range(1, 30000)) * time.Microsecond
		}
		cases = append(cases, c)
	}
	// free-running stream: real scheduler, no scripted order (spec only)
	for i, nFree := 0, env.Scale(400, 6000); i < nFree; i++ {
		n := rng.Range(2, 12)
		nr := rng.Intn(n + 1)
		c := c15Case{NRuns: nr, NProbes: n - nr, Rank: make([]int, n), Pub: hx.Pick(rng, []string{"off", "ok", "err"}),
			RDNS: rng.Chance(1, 4), Fail: make([]bool, n), NoDest: make([]bool, n), Wrap: make([]int, n), Free: true}
		for k := 0; k < n; k++ {
			c.Rank[k] = rng.Intn(6)
			c.Fail[k] = rng.Chance(1, 5)
			c.Wrap[k] = rng.Intn(7)
		}
		cases = append(cases, c)
	}

	outs := make([]c15Outcome, len(cases))
	lines := make([]string, len(cases))
	specLines := make([]string, len(cases))
	for i, c := range cases {
		if i > 0 && outs[i-1].Hung {
			// nothing after a stuck request can be trusted (and every further request would hang too)
			cases, outs, lines, specLines = cases[:i], outs[:i], lines[:i], specLines[:i]
			break
		}
		outs[i] = c15Run(t, c)
		// completions in completion order = ids sorted by rank
		order := make([]int, c.n())
		for id, rk := range c.Rank {
			if !c.Free {
				order[rk] = id
			} else {
				order[id] = id
			}
		}
		toks := make([]string, 0, c.n())
		for _, id := range order {
			toks = append(toks, c.token(id))
		}
		lines[i] = strings.TrimRight("multi.agg "+c.pubToken()+" "+strings.Join(toks, " "), " ")
		req := make([]string, c.n())
		for id := range req {
			req[id] = c.token(id)
		}
		specLines[i] = strings.TrimRight("multi.spec "+outs[i].Res+" ; "+strings.Join(req, " "), " ")
	}
	answers, err := orc.Batch(lines)
	if err != nil {
		t.Fatalf("oracle: %v", err)
	}
	specAns, err := orc.Batch(specLines)
	if err != nil {
		t.Fatalf("oracle(spec): %v", err)
	}

	for i, c := range cases {
		o := outs[i]
		stream := "scripted"
		if c.Free {
			stream = "free"
		}
		nFail := 0
		for _, f := range c.Fail {
			if f {
				nFail++
			}
		}
		sample := map[string]any{"runs": c.NRuns, "probes": c.NProbes, "fail": c.Fail, "no_dest": c.NoDest, "wrap": c.Wrap,
			"completion_rank": c.Rank, "public_ip": c.Pub, "public_ip_rank": c.PubRank, "reverse_dns": c.RDNS, "free_running": c.Free,
			"impl_result": o.Res, "oracle_line": lines[i]}
		rep.Case(stream, lines[i]+fmt.Sprint(c.RDNS, c.Wrap, c.PubRank), c.n() >= 2, sample)
		rep.Hit(fmt.Sprintf("calls:%d", min(c.n(), 7)))
		rep.Hit("pub:" + c.Pub)
		rep.Hit(fmt.Sprintf("rdns:%v", c.RDNS))
		switch {
		case nFail == 0:
			rep.Hit("failing:none")
		case nFail == c.n():
			rep.Hit("failing:all")
		default:
			rep.Hit("failing:some")
		}
		rep.Hit("result:" + strings.Fields(o.Res)[0])

		bad := o.Bad
		if bad == "" && (o.StubRuns != c.NRuns || o.StubE2e != c.NProbes) {
			bad = fmt.Sprintf("per-run function called %d times for runs and %d times for probes, requested %d and %d", o.StubRuns, o.StubE2e, c.NRuns, c.NProbes)
		}
		if bad == "" && specAns[i] != "1" {
			bad = fmt.Sprintf("all-or-error contract violated: result %q for outcomes %s", o.Res, specLines[i][strings.Index(specLines[i], ";"):])
		}
		if bad == "" && strings.HasPrefix(o.Res, "joined") {
			for id := 0; id < c.n(); id++ {
				if o.IsOK[id] != c.Fail[id] {
					bad = fmt.Sprintf("errors.Is(err, failure #%d) = %v but that call failed = %v", 500+id, o.IsOK[id], c.Fail[id])
				}
			}
		}
		if bad == "" && c.Pub == "ok" && strings.HasPrefix(o.Res, "ok") && !strings.HasSuffix(o.Res, " 1") {
			bad = "public IP was fetched successfully but is missing from the result"
		}
		if bad != "" {
			rep.Violate(hx.Violation{Kind: "spec", What: bad, Sig: map[string]string{"stream": stream, "result": strings.Fields(o.Res)[0]}, Replay: sample})
			continue
		}
		got, want := o.Res, answers[i]
		if c.Free {
			got, want = c15Canon(got), c15Canon(want)
		}
		if got != want {
			sample["model_result"] = answers[i]
			sample["broken"] = "correspondence stream multi/" + stream + " (Lean TRV.Multi.aggregate vs traceroute.runTracerouteMulti)"
			rep.Violate(hx.Violation{Kind: "correspondence", NoInput: true,
				What: "aggregation model and implementation differ (" + stream + "); the all-or-error contract holds on the implementation output",
				Sig:  map[string]string{"stream": stream}, Replay: sample})
		}
	}
	if rep.Failed() {
		t.Fail()
	}
}
