//go:build linux

package corr

// C09, capture-source stream: the bytes go in where the kernel delivers them. Frames of every length
// 0..40 (IP EtherTypes, no payload, 1..26 payload bytes, non-IP) are sent over an AF_UNIX datagram
// pair into the REAL AF_PACKET Source implementation (no filter attached) and read with the real
// ReadAndParse: whatever comes back must be "no packet" / "bad packet" (retryable) or a parsed
// packet — never an error that makes ReceiveProbe abort the run.

import (
	"encoding/binary"
	"errors"
	"fmt"
	"net/netip"
	"os"
	"testing"

	"github.com/DataDog/datadog-traceroute/common"
	"github.com/DataDog/datadog-traceroute/packets"
	"golang.org/x/sys/unix"

	"verifharness/hx"
)

func c09SourceStream(t *testing.T, rep *hx.Report, orc *hx.Oracle, rng *hx.RNG) {
	var lines, impls []string
	defer func() {
		ans, err := orc.Batch(lines)
		if err != nil {
			t.Fatalf("oracle(link.hand): %v", err)
		}
		for i := range ans {
			if ans[i] != impls[i] {
				rep.Violate(hx.Violation{Kind: "correspondence", NoInput: true, What: "afPacketSource.Read and its model TRV.Link.handUp differ on a frame; no read failed",
					Sig: map[string]string{"stream": "capture-source"}, Replay: map[string]any{"line": lines[i], "real": impls[i], "model": ans[i],
						"broken": "correspondence stream link/hand (Lean TRV.Link.handUp vs packets.afPacketSource.Read)"}})
				return
			}
		}
	}()
	fds, err := unix.Socketpair(unix.AF_UNIX, unix.SOCK_DGRAM|unix.SOCK_NONBLOCK, 0)
	if err != nil {
		rep.Note("capture-source stream skipped: AF_UNIX socket pair unavailable: %v", err)
		return
	}
	tx := fds[0]
	defer unix.Close(tx)
	src := packets.VerifAFPacketSourceFromFile(os.NewFile(uintptr(fds[1]), "c09-source-rx"))
	defer src.Close()
	parser := packets.NewFrameParser()
	buf := make([]byte, 1024)
	feed := func(f []byte, et uint16, n int, class string) {
		if err := unix.Send(tx, f, 0); err != nil {
			t.Fatalf("send: %v", err)
		}
		rerr := readRobust(src, fds[1], func() error { return packets.ReadAndParse(src, buf, parser) })
		outcome := "parsed"
		switch {
		case rerr == nil:
		case common.CheckProbeRetryable("verif", rerr):
			outcome = "skipped"
		default:
			outcome = "fatal"
		}
		// the same frame once more, read directly: tie with the model of the read loop
		if outcome != "fatal" {
			if err := unix.Send(tx, f, 0); err != nil {
				t.Fatalf("send: %v", err)
			}
			var m int
			derr := readRobust(src, fds[1], func() (e error) { m, e = src.Read(buf); return })
			tok := "none"
			switch {
			case derr == nil:
				tok = "pkt " + hx2(buf[:m])
			case !errors.Is(derr, os.ErrDeadlineExceeded):
				tok = "error " + derr.Error()
			}
			lines, impls = append(lines, "link.hand "+hx2(f)), append(impls, tok)
		}
		rep.Case("capture-source", hx2(f), n >= 14, nil)
		if class != "" {
			rep.Hit("capture-source:" + class + ":" + outcome)
		}
		rep.Hit(fmt.Sprintf("capture-source:%s:len=%d", outcome, n))
		if outcome == "fatal" && !errors.Is(rerr, os.ErrClosed) {
			rep.Violate(hx.Violation{Kind: "spec",
				What:   fmt.Sprintf("a %d-byte frame (EtherType %#04x) delivered by the kernel makes the read fail with a non-retryable error (%v): ReceiveProbe returns it and the run is aborted", n, et, rerr),
				Sig:    map[string]string{"stream": "capture-source", "defect": "frame-aborts-run"},
				Replay: map[string]any{"frame": hx2(f), "error": fmt.Sprint(rerr), "how": "AF_UNIX datagram pair → packets.afPacketSource.Read (no filter) → packets.ReadAndParse"}})
		}
	}
	for n := 1; n <= 40; n++ {
		for _, et := range []uint16{0x0800, 0x86dd, 0x0806, 0x8100} {
			for k := 0; k < 3; k++ {
				f := rng.Bytes(n)
				if n >= 14 {
					binary.BigEndian.PutUint16(f[12:], et)
				}
				if k == 1 && n > 14 {
					f[14] = 0x45
				}
				if k == 2 && n > 14 {
					f[14] = 0x60
				}
				feed(f, et, n, "")
			}
		}
	}
	// well-formed packets whose DECLARED length disagrees with the frame: total length 0 (what a NIC
	// with segmentation offload leaves behind; gopacket takes the captured length then), too short,
	// too long, and frames padded beyond the declared length (Ethernet minimum-size padding)
	mac := []byte{2, 0, 0, 0, 0, 1, 2, 0, 0, 0, 0, 2}
	r4, l4 := netip.MustParseAddr("10.9.8.7"), netip.MustParseAddr("192.0.2.2")
	r6, l6 := netip.MustParseAddr("2001:db8::7"), netip.MustParseAddr("2001:db8::1")
	p4 := ip4Packet(r4, l4, 1, 9, 250, 0, 0, nil, icmp4Msg(11, 0, [4]byte{}, ip4Packet(l4, r4, 1, 7, 1, 0, 0, nil, icmp4Msg(8, 0, [4]byte{0x12, 0x34, 0, 3}, nil))))
	p6 := ip6Packet(r6, l6, 58, 60, icmp6Msg(r6, l6, 3, 0, [4]byte{}, ip6Packet(l6, r6, 58, 1, icmp6Msg(l6, r6, 128, 0, [4]byte{0x12, 0x34, 0, 3}, nil))))
	for _, pad := range []int{0, 6, 18} {
		for _, decl := range []int{0, 1, 19, 20, 27, len(p4) - 1, len(p4), len(p4) + 1, 1500, 0xffff} {
			q := append([]byte(nil), p4...)
			binary.BigEndian.PutUint16(q[2:], uint16(decl))
			f := append(append(append([]byte(nil), mac...), 0x08, 0x00), q...)
			f = append(f, make([]byte, pad)...)
			feed(f, 0x0800, len(f), fmt.Sprintf("declared-len4=%d", decl))
		}
		for _, decl := range []int{0, 1, 7, len(p6) - 41, len(p6) - 40, len(p6) - 39, 1500, 0xffff} {
			q := append([]byte(nil), p6...)
			binary.BigEndian.PutUint16(q[4:], uint16(decl))
			f := append(append(append([]byte(nil), mac...), 0x86, 0xdd), q...)
			f = append(f, make([]byte, pad)...)
			feed(f, 0x86dd, len(f), fmt.Sprintf("declared-len6=%d", decl))
		}
	}
}
