package corr

// Hand-rolled (NOT gopacket) encoders of every reply form in the device-behaviour catalogue, plus
// the single-field perturbation lattice. Using an independent serializer avoids the "same library
// on both sides" blind spot of the repository's unit tests.

import (
	"encoding/binary"
	"net/netip"

	"verifharness/hx"
)

func csumAdd(sum uint32, b []byte) uint32 {
	for i := 0; i+1 < len(b); i += 2 {
		sum += uint32(b[i])<<8 | uint32(b[i+1])
	}
	if len(b)%2 == 1 {
		sum += uint32(b[len(b)-1]) << 8
	}
	return sum
}

func csumFold(sum uint32) uint16 {
	for sum > 0xffff {
		sum = (sum >> 16) + (sum & 0xffff)
	}
	return ^uint16(sum)
}

func pseudoSum(src, dst netip.Addr, proto byte, l int) uint32 {
	var s uint32
	s = csumAdd(s, src.AsSlice())
	s = csumAdd(s, dst.AsSlice())
	s += uint32(proto)
	s += uint32(l)
	return s
}

// ip4Packet builds an IPv4 packet around payload. opts must be a multiple of 4 bytes.
func ip4Packet(src, dst netip.Addr, proto byte, id uint16, ttl, tos byte, ff uint16, opts, payload []byte) []byte {
	ihl := 5 + len(opts)/4
	h := make([]byte, ihl*4)
	h[0] = 0x40 | byte(ihl)
	h[1] = tos
	binary.BigEndian.PutUint16(h[2:], uint16(len(h)+len(payload)))
	binary.BigEndian.PutUint16(h[4:], id)
	binary.BigEndian.PutUint16(h[6:], ff)
	h[8] = ttl
	h[9] = proto
	copy(h[12:16], src.AsSlice())
	copy(h[16:20], dst.AsSlice())
	copy(h[20:], opts)
	binary.BigEndian.PutUint16(h[10:], csumFold(csumAdd(0, h)))
	return append(h, payload...)
}

func ip6Packet(src, dst netip.Addr, nh, hop byte, payload []byte) []byte {
	h := make([]byte, 40)
	h[0] = 0x60
	binary.BigEndian.PutUint16(h[4:], uint16(len(payload)))
	h[6] = nh
	h[7] = hop
	copy(h[8:24], src.AsSlice())
	copy(h[24:40], dst.AsSlice())
	return append(h, payload...)
}

// ip6Behind: an ICMPv6 message directly after the IPv6 header, or behind an 8-byte hop-by-hop
// extension header carrying the 6 option bytes `hbh`.
func ip6Behind(hbh []byte, src, dst netip.Addr, hop byte, msg []byte) []byte {
	if len(hbh) == 0 {
		return ip6Packet(src, dst, 58, hop, msg)
	}
	ext := append([]byte{58, 0}, hbh[:6]...)
	return ip6Packet(src, dst, 0, hop, append(ext, msg...))
}

// icmp4Msg: type, code, checksum, 4 "rest of header" bytes, body.
func icmp4Msg(typ, code byte, rest [4]byte, body []byte) []byte {
	m := append([]byte{typ, code, 0, 0, rest[0], rest[1], rest[2], rest[3]}, body...)
	binary.BigEndian.PutUint16(m[2:], csumFold(csumAdd(0, m)))
	return m
}

func icmp6Msg(src, dst netip.Addr, typ, code byte, rest [4]byte, body []byte) []byte {
	m := append([]byte{typ, code, 0, 0, rest[0], rest[1], rest[2], rest[3]}, body...)
	binary.BigEndian.PutUint16(m[2:], csumFold(csumAdd(pseudoSum(src, dst, 58, len(m)), m)))
	return m
}

// tcpSegment builds a TCP segment; opts are padded with NOPs... no: with zero bytes (EOL) to 4.
func tcpSegment(src, dst netip.Addr, sport, dport uint16, seq, ack uint32, flags byte, opts, payload []byte) []byte {
	for len(opts)%4 != 0 {
		opts = append(opts, 0)
	}
	h := make([]byte, 20+len(opts))
	binary.BigEndian.PutUint16(h[0:], sport)
	binary.BigEndian.PutUint16(h[2:], dport)
	binary.BigEndian.PutUint32(h[4:], seq)
	binary.BigEndian.PutUint32(h[8:], ack)
	h[12] = byte(len(h)/4) << 4
	h[13] = flags
	binary.BigEndian.PutUint16(h[14:], 65535)
	copy(h[20:], opts)
	seg := append(h, payload...)
	binary.BigEndian.PutUint16(seg[16:], csumFold(csumAdd(pseudoSum(src, dst, 6, len(seg)), seg)))
	return seg
}

// quoteStyle says how a router quotes the expired datagram.
type quoteStyle int

const (
	quote28   quoteStyle = iota // IP header + 8 bytes (RFC 792)
	quoteFull                   // the whole datagram (RFC 1812 / Linux)
	quote4884                   // padded to 128 bytes + extension structure (RFC 4884, MPLS object)
)

// replyForm is one member of the device-behaviour catalogue.
type replyForm struct {
	Name      string
	Kind      string // te | du | echo | synack | rst | rstack | sack
	Quote     quoteStyle
	OuterOpts []byte // outer IPv4 options (multiple of 4)
	OuterHBH  []byte // IPv6: options of an outer hop-by-hop extension header (6 bytes: an 8-byte header)
	QOpts     []byte // IPv4: options present in the QUOTED header (inserted on the way; multiple of 4)
	Code      byte   // ICMP code (du)
	QTTL      int    // rewritten quoted TTL (-1 = keep)
	QTOS      int    // rewritten quoted TOS (-1 = keep)
	QCksum    int    // rewritten quoted header checksum (-1 = recomputed, -2 = keep stale)
	NATAddr   bool   // quoted source address rewritten (NAT without ICMP payload fix-up)
	NATPort   bool   // quoted source port rewritten
	TCPOpts   []byte // options on SYN-ACK/RST/SACK replies (before SACK blocks)
	SackN     int    // number of SACK blocks (sack)
	SackOrder int    // 0 = probe's block first, 1 = last, 2 = middle
	Timestamp bool
}

var natAddr4 = netip.MustParseAddr("100.64.7.7")
var natAddr6 = netip.MustParseAddr("fd00:64::7")

// catalogueFor lists the reply forms applicable to a driver variant.
func catalogueFor(variant string, v6 bool) []replyForm {
	var fs []replyForm
	rr := []byte{7, 7, 4, 0, 0, 0, 0, 0}               // record route, padded with EOL
	ts := []byte{68, 12, 5, 0, 0, 0, 0, 0, 0, 0, 0, 0} // timestamp option
	nopra := []byte{1, 1, 1, 1, 148, 4, 0, 0}          // NOPs + router alert
	addTE := func(kind string, code byte) {
		for _, q := range []quoteStyle{quote28, quoteFull, quote4884} {

			qn := map[quoteStyle]string{quote28: "q28", quoteFull: "qfull", quote4884: "q4884"}[q]
			base := replyForm{Name: kind + "/" + qn, Kind: kind, Quote: q, Code: code, QTTL: -1, QTOS: -1, QCksum: -1}
			fs = append(fs, base)
			f := base
			f.Name += "/ttl1"
			f.QTTL = 1
			fs = append(fs, f)
			f = base
			f.Name += "/ttl0-tos-stale-ck"
			f.QTTL, f.QTOS, f.QCksum = 0, 0xb8, -2
			fs = append(fs, f)
			f = base
			f.Name += "/ck-arbitrary"
			f.QCksum = 0xabcd
			fs = append(fs, f)
			if !v6 {
				for i, o := range [][]byte{rr, ts, nopra} {
					f = base
					f.Name += "/outer-opts" + string(rune('a'+i))
					f.OuterOpts = o
					fs = append(fs, f)
				}
				// the quoted header itself carries options (inserted by a box on the path): the transport
				// header follows the QUOTED header length, not byte 20
				for i, o := range [][]byte{{1, 1, 1, 0}, rr} {
					f = base
					f.Name += "/quoted-opts" + string(rune('a'+i))
					f.QOpts = o
					fs = append(fs, f)
				}
			} else {
				// the ICMPv6 error travels behind a hop-by-hop extension header (PadN / router alert + Pad1s)
				for i, o := range [][]byte{{1, 4, 0, 0, 0, 0}, {5, 2, 0, 0, 0, 0}} {
					f = base
					f.Name += "/outer-hbh" + string(rune('a'+i))
					f.OuterHBH = o
					fs = append(fs, f)
				}
			}
			if variant != "icmp" {
				f = base
				f.Name += "/nat-addr"
				f.NATAddr = true
				fs = append(fs, f)
				f = base
				f.Name += "/nat-port"
				f.NATPort = true
				fs = append(fs, f)
			}
		}
	}
	switch variant {
	case "icmp":
		addTE("te", 0)
		fs = append(fs, replyForm{Name: "te/code1", Kind: "te", Quote: quoteFull, Code: 1, QTTL: -1, QTOS: -1, QCksum: -1})
		fs = append(fs, replyForm{Name: "echo", Kind: "echo", QTTL: -1, QTOS: -1, QCksum: -1})
		if !v6 {
			fs = append(fs, replyForm{Name: "echo/outer-opts", Kind: "echo", OuterOpts: rr, QTTL: -1, QTOS: -1, QCksum: -1})
		} else {
			fs = append(fs, replyForm{Name: "echo/outer-hbh", Kind: "echo", OuterHBH: []byte{1, 4, 0, 0, 0, 0}, QTTL: -1, QTOS: -1, QCksum: -1})
		}
	case "udp":
		addTE("te", 0)
		codes := []byte{0, 1, 2, 3, 4, 9, 10, 13, 15}
		if v6 {
			codes = []byte{0, 1, 3, 4, 5, 6}
		}
		for _, c := range codes {
			fs = append(fs, replyForm{Name: "du/code" + string(rune('0'+c%10)) + string(rune('a'+c/10)), Kind: "du", Quote: quoteFull, Code: c, QTTL: -1, QTOS: -1, QCksum: -1})
		}
		fs = append(fs, replyForm{Name: "du/q28", Kind: "du", Quote: quote28, Code: 3, QTTL: 1, QTOS: -1, QCksum: -1})
	case "tcp":
		addTE("te", 0)
		mss := []byte{2, 4, 5, 180}
		full := []byte{2, 4, 5, 180, 4, 2, 8, 10, 0, 0, 0, 1, 0, 0, 0, 0, 1, 3, 3, 7}
		for _, k := range []string{"synack", "rst", "rstack"} {
			fs = append(fs, replyForm{Name: k, Kind: k, QTTL: -1, QTOS: -1, QCksum: -1})
			fs = append(fs, replyForm{Name: k + "/mss", Kind: k, TCPOpts: mss, QTTL: -1, QTOS: -1, QCksum: -1})
			fs = append(fs, replyForm{Name: k + "/opts", Kind: k, TCPOpts: full, QTTL: -1, QTOS: -1, QCksum: -1})
			fs = append(fs, replyForm{Name: k + "/outer-opts", Kind: k, OuterOpts: rr, QTTL: -1, QTOS: -1, QCksum: -1})
		}
	case "sack":
		addTE("te", 0)
		for n := 1; n <= 4; n++ {
			for ord := 0; ord < 3; ord++ {
				if n == 1 && ord > 0 || n == 2 && ord > 1 {
					continue
				}
				for _, tsOn := range []bool{false, true} {
					if tsOn && n == 4 {
						continue // 4 blocks + timestamps exceed the option space
					}
					name := "sack/" + string(rune('0'+n)) + "blk/ord" + string(rune('0'+ord))
					if tsOn {
						name += "/ts"
					}
					fs = append(fs, replyForm{Name: name, Kind: "sack", SackN: n, SackOrder: ord, Timestamp: tsOn, QTTL: -1, QTOS: -1, QCksum: -1})
				}
			}
		}
	}
	return fs
}

// flowInfo is what an encoder needs to know about the run it answers.
type flowInfo struct {
	Local, Target netip.Addr
	LPort, TPort  uint16
	ISN, IAck     uint32 // SACK
	V6            bool
}

// encode builds the reply for `probe` (the bytes the driver put on the wire) sent from `from`.
// ttl is the probed TTL (needed for SACK blocks).
func (f replyForm) encode(fl flowInfo, probe []byte, from netip.Addr, ttl int, seqOfProbe uint32) []byte {
	switch f.Kind {
	case "te", "du":
		q := append([]byte(nil), probe...)
		if !fl.V6 && len(f.QOpts) > 0 {
			h := int(q[0]&0xf) * 4
			q = append(append(append([]byte(nil), q[:h]...), f.QOpts...), q[h:]...)
			q[0] = 0x40 | byte((h+len(f.QOpts))/4)
			binary.BigEndian.PutUint16(q[2:], binary.BigEndian.Uint16(q[2:])+uint16(len(f.QOpts)))
		}
		if !fl.V6 {
			ihl := int(q[0]&0xf) * 4
			if f.QTTL >= 0 {
				q[8] = byte(f.QTTL)
			}
			if f.QTOS >= 0 {
				q[1] = byte(f.QTOS)
			}
			if f.NATAddr {
				copy(q[12:16], natAddr4.AsSlice())
			}
			if f.NATPort && len(q) >= ihl+2 {
				binary.BigEndian.PutUint16(q[ihl:], binary.BigEndian.Uint16(q[ihl:])^0x5a5a)
			}
			switch {
			case f.QCksum >= 0:
				binary.BigEndian.PutUint16(q[10:], uint16(f.QCksum))
			case f.QCksum == -1:
				q[10], q[11] = 0, 0
				binary.BigEndian.PutUint16(q[10:], csumFold(csumAdd(0, q[:ihl])))
			}
			var rest [4]byte
			switch f.Quote {
			case quote28:
				if len(q) > ihl+8 {
					q = q[:ihl+8]
				}
			case quote4884:
				for len(q) < 128 {
					q = append(q, 0)
				}
				q = q[:128]
				rest[1] = 32
				ext := []byte{0x20, 0, 0, 0, 0, 8, 1, 1, 0x00, 0x3e, 0x81, 0x01} // MPLS label stack object
				binary.BigEndian.PutUint16(ext[2:], csumFold(csumAdd(0, ext)))
				q = append(q, ext...)
			}
			typ := byte(11)
			if f.Kind == "du" {
				typ = 3
			}
			return ip4Packet(from, fl.Local, 1, 0x1234, 250, 0xc0, 0, f.OuterOpts, icmp4Msg(typ, f.Code, rest, q))
		}
		if f.QTTL >= 0 {
			q[7] = byte(f.QTTL)
		}
		if f.QTOS >= 0 {
			// the traffic class straddles the first two bytes: its upper nibble shares byte 0 with the version
			q[0] = 0x60 | byte(f.QTOS>>4)&0x0f
			q[1] = q[1]&0x0f | byte(f.QTOS&0xf)<<4
		}
		if f.NATAddr {
			copy(q[8:24], natAddr6.AsSlice())
		}
		if f.NATPort && len(q) >= 42 {
			binary.BigEndian.PutUint16(q[40:], binary.BigEndian.Uint16(q[40:])^0x5a5a)
		}
		if f.Quote == quote28 && len(q) > 48 {
			q = q[:48]
		}
		var rest6 [4]byte
		if f.Quote == quote4884 {
			// RFC 4884 for ICMPv6: the quote is padded to 128 bytes, its length in 64-bit words goes into
			// the first byte after the checksum, an extension structure (MPLS label stack) follows
			for len(q) < 128 {
				q = append(q, 0)
			}
			q = q[:128]
			rest6[0] = 16
			ext := []byte{0x20, 0, 0, 0, 0, 8, 1, 1, 0x00, 0x3e, 0x81, 0x01}
			binary.BigEndian.PutUint16(ext[2:], csumFold(csumAdd(0, ext)))
			q = append(q, ext...)
		}
		typ := byte(3)
		if f.Kind == "du" {
			typ = 1
		}
		return ip6Behind(f.OuterHBH, from, fl.Local, 60, icmp6Msg(from, fl.Local, typ, f.Code, rest6, q))
	case "echo":
		if !fl.V6 {
			ihl := int(probe[0]&0xf) * 4
			body := probe[ihl+8:]
			var rest [4]byte
			copy(rest[:], probe[ihl+4:ihl+8])
			return ip4Packet(from, fl.Local, 1, 0x4321, 57, 0, 0, f.OuterOpts, icmp4Msg(0, 0, rest, body))
		}
		var rest [4]byte
		copy(rest[:], probe[44:48])
		return ip6Behind(f.OuterHBH, from, fl.Local, 57, icmp6Msg(from, fl.Local, 129, 0, rest, probe[48:]))
	case "synack", "rst", "rstack":
		flags := map[string]byte{"synack": 0x12, "rst": 0x04, "rstack": 0x14}[f.Kind]
		ack := seqOfProbe + 1
		if f.Kind == "rst" {
			ack = 0
		}
		seg := tcpSegment(from, fl.Local, fl.TPort, fl.LPort, 0x51f3a9c7, ack, flags, f.TCPOpts, nil)
		return ip4Packet(from, fl.Local, 6, 0, 61, 0, 0x4000, f.OuterOpts, seg)
	case "sack":
		opts := append([]byte(nil), f.TCPOpts...) // option bytes in front of the SACK option (lattice stream)
		if f.Timestamp {
			opts = append(opts, 1, 1, 8, 10, 0, 0, 0x10, 0, 0, 0, 0x20, 0)
		}
		own := fl.ISN + uint32(ttl)
		blocks := make([][2]uint32, 0, f.SackN)
		for i := 0; i < f.SackN-1; i++ {
			l := fl.ISN + uint32(ttl) + uint32(1+i) // later probes of the same run (higher TTLs)
			blocks = append(blocks, [2]uint32{l, l + 1})
		}
		pos := map[int]int{0: 0, 1: len(blocks), 2: len(blocks) / 2}[f.SackOrder]
		blocks = append(blocks[:pos], append([][2]uint32{{own, own + 1}}, blocks[pos:]...)...)
		opts = append(opts, 1, 1, 5, byte(2+8*len(blocks)))
		for _, b := range blocks {
			var e [8]byte
			binary.BigEndian.PutUint32(e[0:], b[0])
			binary.BigEndian.PutUint32(e[4:], b[1])
			opts = append(opts, e[:]...)
		}
		seg := tcpSegment(from, fl.Local, fl.TPort, fl.LPort, fl.IAck, fl.ISN, 0x10, opts, nil)
		return ip4Packet(from, fl.Local, 6, 0x77, 61, 0, 0x4000, nil, seg)
	}
	return nil
}

// perturbation = one named single-field edit of a reply.
type perturbation struct {
	Name string
	Off  int // absolute byte offset
	W    int // width in bytes (1, 2, 4, 16)
	Mode string
}

// fieldsOf lists the identifying (and some non-identifying) fields of a reply as byte ranges.
func fieldsOf(pkt []byte, kind string, v6 bool) []perturbation {
	var ps []perturbation
	add := func(name string, off, w int) {
		if off >= 0 && off+w <= len(pkt) {
			for _, m := range []string{"+1", "-1", "+256", "rand", "zero"} {
				if w == 1 && m == "+256" {
					continue
				}
				ps = append(ps, perturbation{name, off, w, m})
			}
		}
	}
	if !v6 {
		oi := int(pkt[0]&0xf) * 4
		add("outer.vihl", 0, 1)
		add("outer.len", 2, 2)
		add("outer.frag", 6, 2)
		add("outer.proto", 9, 1)
		add("outer.src", 12, 4)
		add("outer.dst", 16, 4)
		switch kind {
		case "te", "du":
			add("icmp.type", oi, 1)
			add("icmp.code", oi+1, 1)
			qs := oi + 8
			if qs < len(pkt) {
				ii := int(pkt[qs]&0xf) * 4
				add("q.vihl", qs, 1)
				add("q.len", qs+2, 2)
				add("q.id", qs+4, 2)
				add("q.frag", qs+6, 2)
				add("q.proto", qs+9, 1)
				add("q.src", qs+12, 4)
				add("q.dst", qs+16, 4)
				add("q.l4.w0", qs+ii, 2)
				add("q.l4.w1", qs+ii+2, 2)
				add("q.l4.w2", qs+ii+4, 2)
				add("q.l4.w3", qs+ii+6, 2)
				add("q.l4.seq32", qs+ii+4, 4)
			}
		case "echo":
			add("icmp.type", oi, 1)
			add("icmp.id", oi+4, 2)
			add("icmp.seq", oi+6, 2)
		default: // TCP
			add("tcp.sport", oi, 2)
			add("tcp.dport", oi+2, 2)
			add("tcp.seq", oi+4, 4)
			add("tcp.ack", oi+8, 4)
			add("tcp.doff", oi+12, 1)
			add("tcp.flags", oi+13, 1)
			for o := oi + 20; o+4 <= len(pkt); o += 4 {
				add("tcp.opt", o, 4)
			}
		}
		return ps
	}
	add("outer.ver", 0, 1)
	add("outer.plen", 4, 2)
	add("outer.nh", 6, 1)
	add("outer.src", 8, 16)
	add("outer.dst", 24, 16)
	io := 40 // offset of the ICMPv6 header (behind a hop-by-hop header if there is one)
	if len(pkt) > 41 && pkt[6] == 0 {
		add("hbh.nh", 40, 1)
		add("hbh.len", 41, 1)
		add("hbh.opt", 42, 2)
		io = 40 + 8*(int(pkt[41])+1)
	}
	add("icmp.type", io, 1)
	add("icmp.code", io+1, 1)
	switch kind {
	case "te", "du":
		add("icmp.unused", io+4, 4)
		qs := io + 8
		add("q.ver", qs, 1)
		add("q.plen", qs+4, 2)
		add("q.nh", qs+6, 1)
		add("q.src", qs+8, 16)
		add("q.dst", qs+24, 16)
		add("q.l4.w0", qs+40, 2)
		add("q.l4.w1", qs+42, 2)
		add("q.l4.w2", qs+44, 2)
		add("q.l4.w3", qs+46, 2)
	case "echo":
		add("icmp.id", io+4, 2)
		add("icmp.seq", io+6, 2)
	}
	return ps
}

func (p perturbation) apply(pkt []byte, r *hx.RNG) []byte {
	out := append([]byte(nil), pkt...)
	f := out[p.Off : p.Off+p.W]
	switch p.Mode {
	case "rand":
		copy(f, r.Bytes(p.W))
	case "zero":
		for i := range f {
			f[i] = 0
		}
	case "+1", "-1", "+256":
		// big-endian arithmetic on the last ≤ 4 bytes of the field
		g := f
		if len(g) > 4 {
			g = g[len(g)-4:]
		}
		var v uint32
		for _, b := range g {
			v = v<<8 | uint32(b)
		}
		switch p.Mode {
		case "+1":
			v++
		case "-1":
			v--
		default:
			v += 256
		}
		for i := len(g) - 1; i >= 0; i-- {
			g[i] = byte(v)
			v >>= 8
		}
	}
	return out
}
