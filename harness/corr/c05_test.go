package corr

// C05 — RTT fidelity.
//
// Streams:
//   wire-par / wire-ser  the REAL drivers (every variant, constructed through the verif hooks) under the
//                        REAL engines (TracerouteParallel for icmp/udp/sack, TracerouteSerial for tcp) over the
//                        in-memory wire inside a synctest bubble, with a scripted network: every sink write
//                        schedules the replies for that probe after scripted per-hop delays (non-monotone,
//                        duplicates with larger delay, overtaking, silent hops, destination at hop k), built with
//                        the hand-rolled catalogue encoders from the probe's own bytes. Production-scale
//                        parameters. Spec on the implementation's output: every ProbeResponse handed to the
//                        engine has RTT = read instant − instant the probe was handed to the sink = the scripted
//                        delay, exactly, in virtual ns; every hop of the result reports the RTT of the first
//                        accepted reply for its TTL (destination override excepted); ToHops' float = ns/1e6.
//   wire-ser-latedup     the same for the serial engine WITH a late duplicate (finding F10, fixed by
//                        feeb434: the stream now has to be clean).
//   wire-ser-latedirect  the destination's answer to probe j arrives after window j closed, its answer to
//                        probe j+1 later: in Paris mode hop j+1 must report its own delay (the late SYN-ACK
//                        acknowledges another probe), never a time measured against another probe's send.
//   timed-par / timed-ser scripted-driver runs with per-call durations of both real engines vs the Lean timed
//                        model (result, finish time, send times must agree exactly).
//   e2e                  runE2eProbeOnce over scripted runs vs Spec.e2eSpec.
//   e2e-real             the real runE2eProbeOnce → runTracerouteOnce → driver + engine over the NewSourceSink
//                        seam; the sample must be the scripted delay of the destination's answer, 0 without one.

import (
	"context"
	"encoding/hex"
	"errors"
	"fmt"
	"math"
	"net"
	"net/netip"
	"strconv"
	"strings"
	"sync"
	"syscall"
	"testing"
	"testing/synctest"
	"time"

	"github.com/DataDog/datadog-traceroute/common"
	"github.com/DataDog/datadog-traceroute/result"
	"github.com/DataDog/datadog-traceroute/traceroute"

	"verifharness/hx"
)

// ---------------------------------------------------------------------------------------------
// engine runner with a watchdog (a run that does not return is reported, not hung on)

var errC05Killed = errors.New("verif: driver killed by the harness watchdog")

// c05Tap wraps a TracerouteDriver: it forwards every call, logs what the engine is handed, lets a
// SendProbe take scripted virtual time, and can be killed (every further call fails) so that a
// non-terminating engine can be left.
type c05Accept struct {
	TTL    int
	IP     netip.Addr
	Dest   bool
	RTT    time.Duration
	ReadAt time.Duration
}

type c05Tap struct {
	inner common.TracerouteDriver
	start time.Time

	mu      sync.Mutex
	killed  bool
	accepts []c05Accept
	sendAt  map[int]time.Duration
	sends   []int
	recvErr []string
}

func (d *c05Tap) GetDriverInfo() common.TracerouteDriverInfo { return d.inner.GetDriverInfo() }

func (d *c05Tap) kill() {
	d.mu.Lock()
	d.killed = true
	d.mu.Unlock()
}

func (d *c05Tap) SendProbe(ttl uint8) error {
	d.mu.Lock()
	if d.killed {
		d.mu.Unlock()
		return errC05Killed
	}
	if d.sendAt == nil {
		d.sendAt = map[int]time.Duration{}
	}
	d.sendAt[int(ttl)] = time.Since(d.start)
	d.sends = append(d.sends, int(ttl))
	d.mu.Unlock()
	return d.inner.SendProbe(ttl)
}

func (d *c05Tap) ReceiveProbe(timeout time.Duration) (*common.ProbeResponse, error) {
	d.mu.Lock()
	if d.killed {
		d.mu.Unlock()
		return nil, errC05Killed
	}
	d.mu.Unlock()
	p, err := d.inner.ReceiveProbe(timeout)
	d.mu.Lock()
	defer d.mu.Unlock()
	if err == nil && p != nil {
		d.accepts = append(d.accepts, c05Accept{TTL: int(p.TTL), IP: p.IP, Dest: p.IsDest, RTT: p.RTT, ReadAt: time.Since(d.start)})
	} else if err != nil && !common.CheckProbeRetryable("verif", err) {
		d.recvErr = append(d.recvErr, err.Error())
	}
	return p, err
}

type c05EngineRun struct {
	Res      []*common.ProbeResponse
	Err      error
	Elapsed  time.Duration
	TimedOut bool // the watchdog had to kill the driver
	Panic    string
}

// c05RunEngine runs one real engine inside the current bubble. limit = virtual time after which
// the watchdog gives up; cancelAt > 0 cancels the caller's context at that instant.
func c05RunEngine(engine string, d common.TracerouteDriver, kill func(), params common.TracerouteParams, cancelAt, limit time.Duration) c05EngineRun {
	var out c05EngineRun
	ctx, cancel := context.WithCancel(context.Background())
	defer cancel()
	start := time.Now()
	if cancelAt > 0 {
		tm := time.AfterFunc(cancelAt, cancel)
		defer tm.Stop()
	}
	done := make(chan struct{})
	go func() {
		defer close(done)
		defer func() {
			if r := recover(); r != nil {
				out.Panic = fmt.Sprint(r)
				out.Elapsed = time.Since(start)
			}
		}()
		if engine == "par" {
			out.Res, out.Err = common.TracerouteParallel(ctx, d, common.TracerouteParallelParams{TracerouteParams: params})
		} else {
			out.Res, out.Err = common.TracerouteSerial(ctx, d, common.TracerouteSerialParams{TracerouteParams: params})
		}
		out.Elapsed = time.Since(start)
	}()
	wd := time.NewTimer(limit)
	select {
	case <-done:
		wd.Stop()
	case <-wd.C:
		out.TimedOut = true
		kill()
		<-done
	}
	return out
}

// c05ResultString renders an engine outcome in the oracle's canonical format.
func c05ResultString(params common.TracerouteParams, r c05EngineRun) (res string, hopsTok []string, floatBad string) {
	if r.Panic != "" {
		return "err panic", nil, ""
	}
	if r.Err != nil {
		return "err " + classifyErr(r.Err), nil, ""
	}
	toks := make([]string, len(r.Res))
	for i, p := range r.Res {
		toks[i] = slotToken(p)
	}
	hops, herr := common.ToHops(params, r.Res)
	hopStr := "tohops-error"
	if herr == nil {
		hs := make([]string, len(hops))
		for i, h := range hops {
			var ns int64
			if r.Res[i] != nil {
				ns = int64(r.Res[i].RTT)
				want := float64(ns) / 1e6
				if math.Abs(h.RTT-want) > 1e-9*math.Max(math.Abs(want), 1e-300) {
					floatBad = fmt.Sprintf("hop %d: ToHops reports %v ms for %d ns", h.TTL, h.RTT, ns)
				}
			} else if h.RTT != 0 {
				floatBad = fmt.Sprintf("empty hop %d has rtt %v", h.TTL, h.RTT)
			}
			ip := "-"
			if len(h.IPAddress) > 0 {
				ip = hex.EncodeToString(h.IPAddress)
			}
			hs[i] = fmt.Sprintf("%d:%s:%d:%s", h.TTL, ip, ns, b2s(h.IsDest))
		}
		hopsTok = hs
		hopStr = strings.Join(hs, " ")
	}
	return "ok " + strings.Join(toks, ",") + " hops " + hopStr, hopsTok, floatBad
}

// ---------------------------------------------------------------------------------------------
// timed scripted-driver runs (shared with C08)

type c05TimedCase struct {
	Engine      string // par | ser
	Min, Max    int
	Timeout     time.Duration
	Delay       time.Duration
	Poll        time.Duration
	Script      []recvEntry
	SendDur     []time.Duration // per SendProbe call, in call order (missing = 0)
	SendFailTTL int             // -1 = never
	CancelAt    time.Duration   // 0 = never
	DriverOK    bool            // every scripted ReceiveProbe call lasts ≤ Poll
}

func (c c05TimedCase) sigma() time.Duration {
	var m time.Duration
	for _, d := range c.SendDur {
		if d > m {
			m = d
		}
	}
	return m
}

func (c c05TimedCase) params() common.TracerouteParams {
	return common.TracerouteParams{MinTTL: uint8(c.Min), MaxTTL: uint8(c.Max), TracerouteTimeout: c.Timeout, PollFrequency: c.Poll, SendDelay: c.Delay}
}

// c05TimedDriver: scripted outcomes AND durations for both calls.
type c05TimedDriver struct {
	c     c05TimedCase
	start time.Time

	mu     sync.Mutex
	pos    int
	nsend  int
	sends  []string
	killed bool
}

func (d *c05TimedDriver) GetDriverInfo() common.TracerouteDriverInfo {
	return common.TracerouteDriverInfo{SupportsParallel: true}
}

func (d *c05TimedDriver) kill() {
	d.mu.Lock()
	d.killed = true
	d.mu.Unlock()
}

func (d *c05TimedDriver) SendProbe(ttl uint8) error {
	d.mu.Lock()
	if d.killed {
		d.mu.Unlock()
		return errC05Killed
	}
	idx := d.nsend
	d.nsend++
	d.sends = append(d.sends, fmt.Sprintf("%d@%d", ttl, int64(time.Since(d.start))))
	d.mu.Unlock()
	if idx < len(d.c.SendDur) && d.c.SendDur[idx] > 0 {
		time.Sleep(d.c.SendDur[idx])
	}
	if int(ttl) == d.c.SendFailTTL {
		return errSendInjected
	}
	return nil
}

func (d *c05TimedDriver) ReceiveProbe(timeout time.Duration) (*common.ProbeResponse, error) {
	d.mu.Lock()
	if d.killed {
		d.mu.Unlock()
		return nil, errC05Killed
	}
	if d.pos >= len(d.c.Script) {
		d.mu.Unlock()
		time.Sleep(timeout)
		return nil, &common.ReceiveProbeNoPktError{Err: errors.New("script exhausted")}
	}
	e := d.c.Script[d.pos]
	d.pos++
	d.mu.Unlock()
	if e.Dur > 0 {
		time.Sleep(e.Dur)
	}
	switch e.Kind {
	case kAccept:
		p := e.Probe
		return &p, nil
	case kRetryNoPkt:
		return nil, common.ErrPacketDidNotMatchTraceroute
	case kRetryBadPkt:
		return nil, &common.BadPacketError{Err: errors.New("scripted bad packet")}
	case kRetryWrapped:
		return nil, fmt.Errorf("wrapped: %w", &common.BadPacketError{Err: errors.New("scripted bad packet")})
	case kFatal:
		return nil, errRecvInjected
	default:
		return nil, nil
	}
}

type c05TimedOut struct {
	Res      string
	Elapsed  time.Duration
	Sends    string
	TimedOut bool
	FloatBad string
	Err      error
}

func c05RunTimed(t *testing.T, c c05TimedCase, limit time.Duration) c05TimedOut {
	var out c05TimedOut
	synctest.Test(t, func(t *testing.T) {
		d := &c05TimedDriver{c: c, start: time.Now()}
		r := c05RunEngine(c.Engine, d, d.kill, c.params(), c.CancelAt, limit)
		out.Res, _, out.FloatBad = c05ResultString(c.params(), r)
		out.Elapsed, out.TimedOut, out.Err = r.Elapsed, r.TimedOut, r.Err
		d.mu.Lock()
		out.Sends = strings.Join(d.sends, ",")
		d.mu.Unlock()
		if out.Sends == "" {
			out.Sends = "-"
		}
	})
	return out
}

func c05OptNs(d time.Duration) string {
	if d <= 0 {
		return "-"
	}
	return strconv.FormatInt(int64(d), 10)
}

// c05TimedLine is the oracle line of a timed case (`timed.par` / `timed.ser`).
func c05TimedLine(c c05TimedCase) string {
	sds := "-"
	if len(c.SendDur) > 0 {
		xs := make([]string, len(c.SendDur))
		for i, d := range c.SendDur {
			xs[i] = strconv.FormatInt(int64(d), 10)
		}
		sds = strings.Join(xs, ",")
	}
	ft := "-"
	if c.SendFailTTL >= 0 {
		ft = strconv.Itoa(c.SendFailTTL)
	}
	calls := make([]string, len(c.Script))
	for i, e := range c.Script {
		calls[i] = fmt.Sprintf("%s@%d", e.token(), int64(e.Dur))
	}
	op := "timed.ser"
	if c.Engine == "par" {
		op = "timed.par"
	}
	return strings.TrimRight(fmt.Sprintf("%s %d %d %d %d %d %s %s %s %s", op, c.Min, c.Max, int64(c.Timeout), int64(c.Delay), int64(c.Poll),
		c05OptNs(c.CancelAt), sds, ft, strings.Join(calls, " ")), " ")
}

// c05ParseTimed splits the oracle's answer `<result> fin N sends S acc A`.
func c05ParseTimed(ans string) (res string, fin int64, sends string, ok bool) {
	i := strings.LastIndex(ans, " fin ")
	if i < 0 {
		return ans, 0, "", false
	}
	res = ans[:i]
	f := strings.Fields(ans[i+1:])
	if len(f) != 6 || f[0] != "fin" || f[2] != "sends" || f[4] != "acc" {
		return ans, 0, "", false
	}
	fin, err := strconv.ParseInt(f[1], 10, 64)
	return res, fin, f[3], err == nil
}

// c05GenTimed generates a tie-free timed case. Time residues modulo 1 µs keep the processes apart:
// every scripted duration is a multiple of 1 µs, except that the first ReceiveProbe call lasts
// k µs + 1 ns (so every later receiver instant is ≡ 1 ns, sender instants ≡ 0); the time-out is
// ≡ 250 ns and the cancellation instant ≡ 500 ns.
func c05GenTimed(r *hx.RNG, engine string, production bool) c05TimedCase {
	us := time.Microsecond
	ms := time.Millisecond
	c := c05TimedCase{Engine: engine, SendFailTTL: -1, DriverOK: true}
	if production {
		c.Min, c.Max = 1, r.Range(8, 30)
		c.Timeout, c.Delay, c.Poll = 3*time.Second, 50*ms, 100*ms
		if r.Chance(1, 4) {
			c.Delay = 10 * ms // SACK spacing
		}
	} else {
		c.Min = r.Range(1, 4)
		c.Max = c.Min + r.Range(0, 9)
		c.Timeout = time.Duration(r.Range(100, 900)) * ms
		c.Delay = time.Duration(r.Range(1, 120)) * ms
		c.Poll = time.Duration(r.Range(5, 150)) * ms
		if r.Chance(1, 5) {
			// the listening time per TTL is SHORTER than the send delay: the delay, not the window,
			// then decides when the next probe of the serial engine may leave
			c.Timeout = time.Duration(r.Range(8, 60)) * ms
			c.Delay = c.Timeout + time.Duration(r.Range(20, 250))*ms
			c.Poll = time.Duration(r.Range(2, 20)) * ms
		}
	}
	if !production {
		// boundary configurations: one probed TTL only, the last TTL an 8-bit counter holds.  (No
		// zero send delay here: with it every send and the receiver's first call fall on the same
		// instant, and the timed model — deterministic on ties by construction — says nothing about
		// which of two simultaneous events the scheduler runs first.)
		switch r.Intn(30) {
		case 0, 1:
			c.Max = c.Min
		case 2, 3:
			c.Max = 255
			c.Min = r.Range(246, 255)
		case 4, 5:
			if engine == "ser" { // one goroutine: nothing to tie with
				c.Delay = 0
			}
		}
	}
	c.Timeout += 250 * time.Nanosecond
	count := c.Max - c.Min + 1
	if r.Chance(1, 60) { // invalid parameters
		if r.Bool() {
			c.Min = 0
		} else {
			c.Min, c.Max = c.Max+1, c.Min
		}
	}
	// SendProbe durations
	switch r.Intn(4) {
	case 0: // σ = 0
	case 1:
		d := time.Duration(r.Range(1, 3000)) * us
		for i := 0; i < count; i++ {
			c.SendDur = append(c.SendDur, d)
		}
	default:
		for i := 0; i < count; i++ {
			c.SendDur = append(c.SendDur, time.Duration(r.Intn(4))*time.Duration(r.Range(1, 2500))*us)
		}
	}
	mode := r.Intn(24) // 0 send failure, 1 fatal, 2 nil, 3 out-of-range TTL, 4..7 cancellation, else clean
	destTTL := -1
	if r.Chance(2, 3) && c.Max >= c.Min {
		destTTL = r.Range(c.Min, c.Max)
	}
	n := r.Range(0, 3*count+6)
	if r.Chance(1, 10) {
		n = 0
	}
	slow := r.Chance(1, 8) // DriverOK violated: some calls outlast the poll interval
	for i := 0; i < n; i++ {
		var e recvEntry
		switch r.Intn(5) {
		case 0:
			e.Dur = 0
		case 1:
			e.Dur = c.Poll
		default:
			e.Dur = time.Duration(r.Range(1, int(c.Poll/us))) * us
		}
		if slow && r.Chance(1, 5) {
			e.Dur = c.Poll + time.Duration(r.Range(1, 400))*ms
			c.DriverOK = false
		}
		switch k := r.Intn(10); {
		case k < 5:
			e.Kind = kAccept
			ttl := c.Min
			if c.Max >= c.Min {
				ttl = r.Range(c.Min, c.Max)
			}
			p := common.ProbeResponse{TTL: uint8(ttl), IP: hx.Pick(r, addrPool), RTT: time.Duration(r.Range(1, 900_000_000))}
			if destTTL >= 0 && (ttl == destTTL && r.Chance(3, 4) || r.Chance(1, 16)) {
				p.IsDest = true
				p.IP = destAddr
			}
			e.Probe = p
		case k == 5:
			e.Kind = kRetryBadPkt
		case k == 6:
			e.Kind = kRetryWrapped
		default:
			e.Kind = kRetryNoPkt
		}
		c.Script = append(c.Script, e)
	}
	switch mode {
	case 0:
		if len(c.Script) > 0 && count > 1 {
			c.SendFailTTL = r.Range(c.Min+1, c.Max) // never the first probe: hasSent vs cancel is a genuine race there
		}
	case 1, 2, 3:
		e := recvEntry{Kind: kFatal, Dur: time.Duration(r.Range(0, int(c.Poll/us))) * us}
		if mode == 2 {
			e.Kind = kNil
		}
		if mode == 3 {
			e.Kind = kAccept
			bad := c.Max + 1 + r.Intn(3)
			if r.Bool() || bad > 255 {
				bad = c.Min - 1
			}
			if bad < 0 {
				bad = 0
			}
			e.Probe = common.ProbeResponse{TTL: uint8(bad), IP: hx.Pick(r, addrPool), RTT: 1000}
		}
		at := r.Intn(len(c.Script) + 1)
		c.Script = append(c.Script[:at], append([]recvEntry{e}, c.Script[at:]...)...)
	case 4, 5, 6, 7:
		span := c.Timeout + time.Duration(count)*c.Delay
		if engine == "ser" {
			span = time.Duration(count) * c.Timeout / 3
		}
		c.CancelAt = time.Duration(r.Range(1, int(span/us)))*us + 500*time.Nanosecond
	}
	if len(c.Script) > 0 {
		if c.Script[0].Dur < us {
			c.Script[0].Dur = time.Duration(r.Range(1, 900)) * us
		}
		c.Script[0].Dur += time.Nanosecond
	}
	return c
}

func c05TimedJSON(c c05TimedCase, o c05TimedOut, model string) map[string]any {
	script := make([]string, len(c.Script))
	for i, e := range c.Script {
		script[i] = fmt.Sprintf("%s@%s", e.token(), e.Dur)
	}
	sd := make([]string, len(c.SendDur))
	for i, d := range c.SendDur {
		sd[i] = d.String()
	}
	return map[string]any{"engine": c.Engine, "min": c.Min, "max": c.Max, "timeout": c.Timeout.String(), "delay": c.Delay.String(),
		"poll": c.Poll.String(), "script": script, "send_durations": sd, "send_fail_ttl": c.SendFailTTL, "cancel_at": c.CancelAt.String(),
		"impl_result": o.Res, "impl_elapsed_ns": int64(o.Elapsed), "impl_sends": o.Sends, "model": model, "oracle_line": c05TimedLine(c)}
}

// c05TimedLimit is the watchdog budget of a timed case: well beyond any bound of C08.
func c05TimedLimit(c c05TimedCase) time.Duration {
	n := c.Max - c.Min + 2
	if n < 2 {
		n = 2
	}
	return 3*time.Duration(n)*(c.Timeout+c.Delay+2*c.Poll+c.sigma()) + 10*time.Second
}

// c05TimedCorrespondence runs n timed cases per engine and compares with the Lean timed model.
// It returns the cases, outcomes and parsed model finish times for further (C08) judgement.
type c05TimedItem struct {
	C     c05TimedCase
	O     c05TimedOut
	Model string
	Fin   int64
}

// judge, if not nil, evaluates the property's specification on the implementation's outcomes first
// and returns the indices it reported; the model comparison is then skipped for those.
func c05TimedBatch(t *testing.T, rep *hx.Report, orc *hx.Oracle, prefix string, cases []c05TimedCase, judge func(items []c05TimedItem) map[int]bool) []c05TimedItem {
	items := make([]c05TimedItem, 0, len(cases))
	lines := make([]string, 0, len(cases))
	hung := 0
	for _, c := range cases {
		o := c05RunTimed(t, c, c05TimedLimit(c))
		items = append(items, c05TimedItem{C: c, O: o})
		lines = append(lines, c05TimedLine(c))
		if o.TimedOut {
			if hung++; hung >= 12 { // every further case would only burn the watchdog's budget again
				rep.Note("%s stream stopped after %d runs that did not return (%d of %d cases executed)", prefix, hung, len(items), len(cases))
				break
			}
		}
	}
	answers, err := orc.Batch(lines)
	if err != nil {
		t.Fatalf("oracle(timed): %v", err)
	}
	for i := range items {
		items[i].Model = answers[i]
		_, items[i].Fin, _, _ = c05ParseTimed(answers[i])
	}
	reported := map[int]bool{}
	if judge != nil {
		reported = judge(items)
	}
	for i := range items {
		it := &items[i]
		c, o := it.C, it.O
		stream := prefix + "-" + c.Engine
		kind := strings.SplitN(o.Res, " ", 3)
		rep.Hit(stream + ":" + kind[0] + func() string {
			if kind[0] == "err" {
				return " " + kind[1]
			}
			return ""
		}())
		rep.Case(stream, lines[i], len(c.Script) > 0, c05TimedJSON(c, o, answers[i]))
		if o.TimedOut {
			rep.Violate(hx.Violation{Kind: "spec", What: "engine did not return (the harness watchdog had to kill the driver)",
				Sig: map[string]string{"engine": c.Engine, "stream": stream, "defect": "no-return"}, Replay: c05TimedJSON(c, o, answers[i])})
			continue
		}
		if reported[i] {
			continue
		}
		if o.FloatBad != "" {
			rep.Violate(hx.Violation{Kind: "spec", What: "ToHops milliseconds do not correspond to the probe's duration: " + o.FloatBad,
				Sig: map[string]string{"engine": c.Engine, "stream": stream, "defect": "float-ms"}, Replay: c05TimedJSON(c, o, answers[i])})
			continue
		}
		mres, fin, sends, ok := c05ParseTimed(answers[i])
		if !ok {
			rep.Violate(hx.Violation{Kind: "correspondence", NoInput: true, What: "oracle could not evaluate a timed case: " + answers[i],
				Sig: map[string]string{"stream": stream}, Replay: c05TimedJSON(c, o, answers[i])})
			continue
		}
		if mres != o.Res || fin != int64(o.Elapsed) || sends != o.Sends {
			rj := c05TimedJSON(c, o, answers[i])
			rj["broken"] = "correspondence stream " + stream + " (Lean TRV.Timed vs common.Traceroute" + map[string]string{"par": "Parallel", "ser": "Serial"}[c.Engine] + " on a virtual clock)"
			what := "timed engine model and implementation differ (" + c.Engine + "):"
			if mres != o.Res {
				what += " result"
			}
			if fin != int64(o.Elapsed) {
				what += fmt.Sprintf(" finish time (model %d ns, implementation %d ns)", fin, int64(o.Elapsed))
			}
			if sends != o.Sends {
				what += " send times"
			}
			rep.Violate(hx.Violation{Kind: "correspondence", NoInput: true, What: what,
				Sig: map[string]string{"engine": c.Engine, "stream": stream}, Replay: rj})
		}
	}
	return items
}

// ---------------------------------------------------------------------------------------------
// the scripted network over the in-memory wire

type c05Reply struct {
	Delay time.Duration
	Form  replyForm
	From  netip.Addr
}

type c05WireCase struct {
	Stream   string
	Cfg      drvCfg
	Engine   string
	Timeout  time.Duration
	Delay    time.Duration
	Poll     time.Duration
	WriteDur time.Duration // virtual time the sink needs for one write
	// EnobufsAt >= 0: that sink write (0-based call index) fails once with ENOBUFS. The run must fail
	// with that cause — or, if an implementation chooses to retry, the RTT must still be measured from
	// the instant the probe was really handed to the network.
	EnobufsAt int
	Replies   map[int][]c05Reply
	DestAt    int // 0 = the destination never answers
}

type c05WireObs struct {
	Run      c05EngineRun
	Accepts  []c05Accept
	WriteAt  map[int]time.Duration
	Written  int
	RecvErrs []string
}

func c05ProbeTTL(pkt []byte) int { return bwParse(pkt).TTL }

func (c c05WireCase) params() common.TracerouteParams {
	return common.TracerouteParams{MinTTL: uint8(c.Cfg.Min), MaxTTL: uint8(c.Cfg.Max), TracerouteTimeout: c.Timeout, PollFrequency: c.Poll, SendDelay: c.Delay}
}

// c05RunWire executes one scripted-network case on the real driver + real engine.
// flood, if non-nil, is started inside the bubble with the wire and a stop channel (C08).
func c05RunWire(t *testing.T, c c05WireCase, cancelAt time.Duration, flood func(w *memWire, stop <-chan struct{})) c05WireObs {
	var obs c05WireObs
	synctest.Test(t, func(t *testing.T) {
		wire := newMemWire()
		wire.blockWhenEmpty = true
		if c.EnobufsAt >= 0 {
			wire.faults = []wireFault{{Op: "write", K: c.EnobufsAt, Class: "enobufs"}}
		}
		inner, err := newDriver(c.Cfg, wire)
		if err != nil {
			t.Fatalf("driver construction failed: %v", err)
		}
		tap := &c05Tap{inner: inner, start: time.Now()}
		var tmu sync.Mutex
		var timers []*time.Timer
		fl := c.Cfg.flow()
		wire.onWrite = func(pkt []byte, _ netip.AddrPort) {
			ttl := c05ProbeTTL(pkt)
			for _, rp := range c.Replies[ttl] {
				reply := rp.Form.encode(fl, pkt, rp.From, ttl, seqOfProbe(pkt))
				if reply == nil {
					continue
				}
				tm := time.AfterFunc(rp.Delay, func() { wire.Inject(reply) })
				tmu.Lock()
				timers = append(timers, tm)
				tmu.Unlock()
			}
			if c.WriteDur > 0 {
				time.Sleep(c.WriteDur)
			}
		}
		stop := make(chan struct{})
		var fwg sync.WaitGroup
		if flood != nil {
			fwg.Add(1)
			go func() {
				defer fwg.Done()
				flood(wire, stop)
			}()
		}
		count := c.Cfg.Max - c.Cfg.Min + 1
		limit := 3*(time.Duration(count)*(c.Timeout+c.Delay+c.Poll+c.WriteDur)+c.Timeout) + 10*time.Second
		obs.Run = c05RunEngine(c.Engine, tap, tap.kill, c.params(), cancelAt, limit)
		close(stop)
		fwg.Wait()
		tmu.Lock()
		for _, tm := range timers {
			tm.Stop()
		}
		tmu.Unlock()
		tap.mu.Lock()
		obs.Accepts = append([]c05Accept(nil), tap.accepts...)
		obs.RecvErrs = append([]string(nil), tap.recvErr...)
		tap.mu.Unlock()
		obs.WriteAt = map[int]time.Duration{}
		wire.log.mu.Lock()
		for _, w := range wire.log.writes {
			obs.WriteAt[c05ProbeTTL(w.Pkt)] = w.At
		}
		obs.Written = len(wire.log.writes)
		wire.log.mu.Unlock()
	})
	return obs
}

func c05EngineFor(variant string) string {
	if strings.HasPrefix(variant, "tcp") {
		return "ser"
	}
	return "par"
}

// c05DestForms / c05RouterForms: catalogue members a destination / a router answers with.
func c05Forms(c drvCfg) (router, dest []replyForm) {
	for _, f := range catalogueFor(c.kind(), c.v6()) {
		if (f.NATAddr || f.NATPort) && !c.Loosen {
			continue
		}
		switch f.Kind {
		case "te":
			router = append(router, f)
		default:
			dest = append(dest, f)
		}
	}
	if len(dest) == 0 { // sack also treats a time-exceeded from the target as the destination
		dest = router
	}
	return
}

// c05GenWire generates a scripted network for one variant at production scale.
func c05GenWire(r *hx.RNG, variant string, late string) c05WireCase {
	lateDup := late == "dup"
	ms, us := time.Millisecond, time.Microsecond
	cfg := genCfg(r, variant)
	cfg.Min, cfg.Max = 1, 30
	if r.Chance(1, 5) {
		cfg.Min = r.Range(1, 4)
		cfg.Max = cfg.Min + r.Range(3, 26)
	}
	c := c05WireCase{Cfg: cfg, Engine: c05EngineFor(variant), Timeout: 3 * time.Second, Delay: 50 * ms, Poll: 100 * ms, Replies: map[int][]c05Reply{}, EnobufsAt: -1}
	if late == "" && r.Chance(1, 12) {
		c.EnobufsAt = r.Range(0, 6)
	}
	c.Stream = "wire-" + c.Engine
	if cfg.kind() == "sack" {
		c.Delay = 10 * ms
	}
	if r.Chance(1, 2) {
		c.WriteDur = time.Duration(r.Range(1, 3)) * ms
	}
	routerForms, destForms := c05Forms(cfg)
	if r.Chance(4, 5) {
		c.DestAt = r.Range(cfg.Min, cfg.Max)
	}
	seq := 0
	// unique odd-µs residue per reply: delivery instants never coincide (send instants are on the ms grid)
	off := func() time.Duration { seq++; return time.Duration(2*seq+1) * us }
	maxDelay := 900
	if c.Engine == "ser" {
		maxDelay = 2900 // inside the reply's own window (C02 restriction of the serial engine)
	}
	for ttl := cfg.Min; ttl <= cfg.Max; ttl++ {
		isDest := c.DestAt > 0 && ttl >= c.DestAt
		if !isDest && r.Chance(1, 5) {
			continue // silent hop
		}
		if isDest && r.Chance(1, 10) {
			continue // destination drops this one
		}
		// every delay exceeds the longest sink write, so that the engine is already reading when the
		// reply arrives (the property's "within one poll interval" slack is then exactly zero)
		d := time.Duration(r.Range(4, maxDelay))*ms + off()
		if r.Chance(1, 3) {
			d = time.Duration(r.Range(4, 40))*ms + off()
		}
		var rp c05Reply
		if isDest {
			rp = c05Reply{Delay: d, Form: hx.Pick(r, destForms), From: cfg.Target}
			if cfg.kind() == "sack" && r.Chance(1, 4) {
				rp.Form = hx.Pick(r, routerForms) // time-exceeded from the target itself
			}
		} else {
			rp = c05Reply{Delay: d, Form: hx.Pick(r, routerForms), From: pickRouter(r, cfg)}
		}
		c.Replies[ttl] = append(c.Replies[ttl], rp)
		if c.Engine == "par" {
			if r.Chance(1, 4) { // duplicate with a larger delay
				dup := rp
				dup.Delay = d + time.Duration(r.Range(1, 700))*ms + off()
				c.Replies[ttl] = append(c.Replies[ttl], dup)
			}
			if isDest && r.Chance(1, 8) { // the destination answers first, a router later for the same TTL: the destination reply stays
				lateR := c05Reply{Delay: d + time.Duration(r.Range(1, 700))*ms + off(), Form: hx.Pick(r, routerForms), From: pickRouter(r, cfg)}
				c.Replies[ttl] = append(c.Replies[ttl], lateR)
			}
			if isDest && d > 8*ms && r.Chance(1, 6) { // a router answers first for the same TTL, the destination later: override
				early := c05Reply{Delay: time.Duration(r.Range(4, int(d/ms)-1))*ms + off(), Form: hx.Pick(r, routerForms), From: pickRouter(r, cfg)}
				c.Replies[ttl] = append([]c05Reply{early}, c.Replies[ttl]...)
			}
		}
	}
	if lateDup {
		c.Stream = "wire-ser-latedup"
		c.WriteDur = 0
		// hop j answers after d1; a duplicate arrives while the engine listens for hop j+1, before
		// hop j+1's own reply
		j := r.Range(cfg.Min, cfg.Max-2)
		if c.DestAt > 0 && c.DestAt <= j+2 {
			c.DestAt = 0
			for ttl := cfg.Min; ttl <= cfg.Max; ttl++ {
				delete(c.Replies, ttl)
				c.Replies[ttl] = []c05Reply{{Delay: time.Duration(r.Range(60, 300))*ms + off(), Form: hx.Pick(r, routerForms), From: pickRouter(r, cfg)}}
			}
		}
		d1 := time.Duration(r.Range(4, 45))*ms + off()
		x := time.Duration(r.Range(5, 60)) * ms
		first := c05Reply{Delay: d1, Form: hx.Pick(r, routerForms), From: pickRouter(r, cfg)}
		dup := first
		dup.Delay = c.Delay + x + off() // window j+1 starts at ws_j + max(d1, delay) = ws_j + delay
		c.Replies[j] = []c05Reply{first, dup}
		c.Replies[j+1] = []c05Reply{{Delay: x + time.Duration(r.Range(10, 200))*ms + off(), Form: hx.Pick(r, routerForms), From: pickRouter(r, cfg)}}
	}
	if late == "direct" {
		// the destination is at hop j; its answer to probe j arrives x after window j closed (while the
		// engine listens for hop j+1), its answer to probe j+1 arrives later. Paris mode: the late
		// SYN-ACK acknowledges probe j's sequence number, not the last probe's, and is ignored; hop j+1
		// reports its own delay. Default mode: the late SYN-ACK is credited to probe j+1 (the caveat of
		// C01: no per-probe identifier), measured against probe j+1's send time.
		c.Stream = "wire-ser-latedirect"
		c.WriteDur = 0
		j := r.Range(cfg.Min, cfg.Max-1)
		c.DestAt = j
		for ttl := cfg.Min; ttl <= cfg.Max; ttl++ {
			delete(c.Replies, ttl)
			if ttl < j {
				c.Replies[ttl] = []c05Reply{{Delay: time.Duration(r.Range(4, 300))*ms + off(), Form: hx.Pick(r, routerForms), From: pickRouter(r, cfg)}}
			}
		}
		x := time.Duration(r.Range(5, 400)) * ms
		lateForms := destForms
		if cfg.Variant == "tcp-paris" {
			// a bare RST acknowledges nothing and is credited to the last probe in Paris mode too
			lateForms = nil
			for _, f := range destForms {
				if f.Kind == "synack" || f.Kind == "rstack" {
					lateForms = append(lateForms, f)
				}
			}
		}
		c.Replies[j] = []c05Reply{{Delay: c.Timeout + x + off(), Form: hx.Pick(r, lateForms), From: cfg.Target}}
		c.Replies[j+1] = []c05Reply{{Delay: x + time.Duration(r.Range(10, 900))*ms + off(), Form: hx.Pick(r, destForms), From: cfg.Target}}
	}
	return c
}

// c05DelayOK: the RTT is the scripted delay of a reply to that probe — exactly, in the streams whose
// replies arrive while the engine is reading; in the late streams a reply can arrive while the serial
// engine sleeps between two probes and is then read up to one poll interval later (the property's
// "to within one poll interval"), never earlier than it arrived.
func c05DelayOK(c c05WireCase, ds map[time.Duration]bool, rtt time.Duration) bool {
	if ds[rtt] {
		return true
	}
	if c.Stream != "wire-ser-latedup" && c.Stream != "wire-ser-latedirect" {
		return false
	}
	for d := range ds {
		if d <= rtt && rtt <= d+c.Poll {
			return true
		}
	}
	return false
}

func c05AcceptToken(a c05Accept) string {
	return fmt.Sprintf("%d:%s:%d:%s", a.TTL, ipHex(a.IP), int64(a.RTT), b2s(a.Dest))
}

func c05WireJSON(c c05WireCase, o c05WireObs) map[string]any {
	rs := map[string][]string{}
	for ttl, l := range c.Replies {
		for _, rp := range l {
			rs[strconv.Itoa(ttl)] = append(rs[strconv.Itoa(ttl)], fmt.Sprintf("%s from %s after %s", rp.Form.Name, rp.From, rp.Delay))
		}
	}
	acc := make([]string, len(o.Accepts))
	for i, a := range o.Accepts {
		acc[i] = fmt.Sprintf("ttl %d rtt %s read at %s dest=%v", a.TTL, a.RTT, a.ReadAt, a.Dest)
	}
	res, _, _ := c05ResultString(c.params(), o.Run)
	return map[string]any{"stream": c.Stream, "variant": c.Cfg.Variant, "config": c.Cfg.oraclePrefix(), "engine": c.Engine,
		"timeout": c.Timeout.String(), "delay": c.Delay.String(), "poll": c.Poll.String(), "sink_write_duration": c.WriteDur.String(),
		"destination_from_ttl": c.DestAt, "replies": rs, "accepted_in_order": acc, "impl_result": res, "impl_elapsed": o.Run.Elapsed.String()}
}

// c05JudgeWire evaluates the RTT specification on one run; it returns the oracle line for the
// engine-level rule and a closure that finishes the judgement with the oracle's answer.
func c05JudgeWire(rep *hx.Report, c c05WireCase, o c05WireObs) (line string, finish func(ans string)) {
	sample := c05WireJSON(c, o)
	sig := func(defect string) map[string]string {
		return map[string]string{"engine": map[string]string{"par": "parallel", "ser": "serial"}[c.Engine], "variant": c.Cfg.Variant, "stream": c.Stream, "defect": defect}
	}
	violate := func(defect, what string) {
		rep.Violate(hx.Violation{Kind: "spec", What: what, Sig: sig(defect), Replay: sample})
	}
	nontrivial := len(o.Accepts) > 0 && o.Run.Err == nil
	key := c.Cfg.oraclePrefix() + fmt.Sprint(c.Replies, c.WriteDur)
	rep.Case(c.Stream, key, nontrivial, sample)
	rep.Hit("variant:" + c.Cfg.Variant)
	if c.EnobufsAt >= 0 && o.Run.Err != nil && !o.Run.TimedOut && o.Run.Panic == "" {
		// the injected transient send failure ended the run: it must carry its cause
		rep.Hit("enobufs:run-failed-with-cause=" + fmt.Sprint(errors.Is(o.Run.Err, syscall.ENOBUFS)))
		if !errors.Is(o.Run.Err, syscall.ENOBUFS) {
			violate("send-failure-cause-lost", fmt.Sprintf("a sink write failed with ENOBUFS and the run failed without that cause: %v", o.Run.Err))
		}
		return "", nil
	}
	if o.Run.TimedOut || o.Run.Panic != "" || o.Run.Err != nil {
		violate("run-failed", fmt.Sprintf("engine run failed on a well-behaved scripted network: timed out=%v panic=%q err=%v", o.Run.TimedOut, o.Run.Panic, o.Run.Err))
		return "", nil
	}
	// (a) driver level: what the engine is handed
	delays := map[int]map[time.Duration]bool{}
	for ttl, l := range c.Replies {
		delays[ttl] = map[time.Duration]bool{}
		for _, rp := range l {
			delays[ttl][rp.Delay] = true
		}
	}
	// a bare RST acknowledges nothing: even in Paris mode it is credited to the last probe (C01's caveat)
	bareRst := false
	for _, l := range c.Replies {
		for _, rp := range l {
			if rp.Form.Kind == "rst" {
				bareRst = true
			}
		}
	}
	for _, a := range o.Accepts {
		wa, sent := o.WriteAt[a.TTL]
		switch {
		case a.RTT < 0:
			violate("negative-rtt", fmt.Sprintf("negative RTT %s reported for TTL %d", a.RTT, a.TTL))
			return "", nil
		case !sent:
			violate("unsent-ttl", fmt.Sprintf("reply accepted for TTL %d whose probe was never written", a.TTL))
			return "", nil
		case a.RTT != a.ReadAt-wa:
			what := fmt.Sprintf("TTL %d: RTT %s but the reply was read %s after the probe was handed to the sink", a.TTL, a.RTT, a.ReadAt-wa)
			defect := "rtt-inexact"
			for other, at := range o.WriteAt {
				if other != a.TTL && a.RTT == a.ReadAt-at {
					what += fmt.Sprintf(" (it is the time since the probe for TTL %d was sent)", other)
					defect = "other-probe-send-time"
				}
			}
			violate(defect, what)
			return "", nil
		case !c05DelayOK(c, delays[a.TTL], a.RTT) && !((c.Stream == "wire-ser-latedirect" || c.Stream == "wire-ser-latedup") && a.Dest && (c.Cfg.Variant == "tcp" || (c.Cfg.Variant == "tcp-paris" && bareRst))):
			// (a direct TCP reply without a per-probe identifier — any in default mode, a bare RST in Paris
			// mode — is credited to the last probe: then, and only then, the RTT is not the delay of a
			// reply to that probe)
			violate("rtt-not-scripted-delay", fmt.Sprintf("TTL %d: RTT %s is not the scripted delay of any reply to that probe", a.TTL, a.RTT))
			return "", nil
		}
		rep.Hit("accepted:" + map[bool]string{true: "dest", false: "router"}[a.Dest])
		rep.Hit("accepted/" + c.Cfg.Variant)
	}
	for _, l := range c.Replies {
		for range l {
			rep.Hit("scripted-replies/" + c.Cfg.Variant)
		}
	}
	firstOf := map[int]c05Accept{}
	for _, a := range o.Accepts {
		if f, ok := firstOf[a.TTL]; !ok {
			firstOf[a.TTL] = a
		} else if !f.Dest && a.Dest {
			rep.Hit(c.Engine + ":destination-reply-after-router-reply-same-ttl")
		} else {
			rep.Hit(c.Engine + ":duplicate-accepted")
		}
	}
	for i := 1; i < len(o.Accepts); i++ {
		if o.Accepts[i].TTL < o.Accepts[i-1].TTL {
			rep.Hit(c.Engine + ":reply-overtook-lower-ttl")
			break
		}
	}
	// (b) engine level: first accepted reply per TTL (destination override for the parallel engine)
	toks := make([]string, len(o.Accepts))
	for i, a := range o.Accepts {
		toks[i] = c05AcceptToken(a)
	}
	// both engines follow the same slot rule (the serial one since the fix for F10): the answer is
	// Spec.expected of the accepted replies
	line = strings.TrimRight(fmt.Sprintf("spec.expected %d %d %s", c.Cfg.Min, c.Cfg.Max, strings.Join(toks, " ")), " ")
	finish = func(ans string) {
		_, _, floatBad := c05ResultString(c.params(), o.Run)
		if floatBad != "" {
			violate("float-ms", "ToHops milliseconds do not correspond to the probe's duration: "+floatBad)
			return
		}
		slots := make([]string, len(o.Run.Res))
		for k, p := range o.Run.Res {
			slots[k] = slotToken(p)
		}
		got := strings.Join(slots, ",")
		if got == ans {
			return
		}
		defect := "not-first-accepted"
		want := strings.Split(ans, ",")
		for k, p := range o.Run.Res {
			if k >= len(want) || p == nil || slotToken(p) == want[k] {
				continue
			}
			seen := 0
			for _, a := range o.Accepts {
				if a.TTL == c.Cfg.Min+k {
					seen++
					if seen > 1 && a.RTT == p.RTT {
						defect = "late-duplicate-overwrites"
					}
				}
			}
		}
		violate(defect, fmt.Sprintf("result %q is not the first-accepted (destination-overrides) selection %q of the accepted replies", got, ans))
	}
	return line, finish
}

// ---------------------------------------------------------------------------------------------
// end-to-end probe

type c05E2eCase struct {
	Hops   []result.TracerouteHop
	Fail   bool
	MaxTTL int
}

func c05RunE2e(rep *hx.Report, orc *hx.Oracle, rng *hx.RNG, n int, t *testing.T) {
	var lines []string
	var cases []c05E2eCase
	var got []float64
	var gotErr []error
	var minSeen, maxSeen []int
	errInjected := errors.New("verif: injected run failure")
	for i := 0; i < n; i++ {
		c := c05E2eCase{MaxTTL: rng.Range(1, 255), Fail: rng.Chance(1, 12)}
		nh := rng.Range(0, 4)
		if rng.Chance(2, 3) {
			nh = 1 // what a MinTTL = MaxTTL run yields
		}
		for k := 0; k < nh; k++ {
			h := result.TracerouteHop{TTL: c.MaxTTL + k, RTT: float64(rng.Range(0, 3_000_000)) / 8, IsDest: rng.Chance(1, 2)}
			if rng.Chance(1, 6) {
				h.RTT = 0
			}
			if !rng.Chance(1, 8) {
				h.IPAddress = net.IP(hx.Pick(rng, addrPool).AsSlice())
			}
			if rng.Chance(1, 4) {
				// a hop answered from the target's address: it is the destination hop only when the reply
				// proved arrival (IsDest) — e.g. a time-exceeded sourced from the target address is not
				h.IPAddress = net.ParseIP("192.0.2.9")
			}
			c.Hops = append(c.Hops, h)
		}
		var seenMin, seenMax int
		traceroute.VerifSetRunOnce(func(ctx context.Context, p traceroute.TracerouteParams, port int) (*result.TracerouteRun, error) {
			seenMin, seenMax = p.MinTTL, p.MaxTTL
			if c.Fail {
				return nil, errInjected
			}
			run := &result.TracerouteRun{}
			run.Destination.IPAddress = net.ParseIP("192.0.2.9")
			for k := range c.Hops {
				h := c.Hops[k]
				run.Hops = append(run.Hops, &h)
			}
			return run, nil
		})
		v, err := traceroute.VerifE2eProbeOnce(context.Background(), traceroute.TracerouteParams{Hostname: "192.0.2.9", Protocol: "udp", MinTTL: 1, MaxTTL: c.MaxTTL,
			Timeout: time.Second, TracerouteQueries: 1, E2eQueries: 1}, 33434)
		traceroute.VerifSetRunOnce(nil)
		cases, got, gotErr = append(cases, c), append(got, v), append(gotErr, err)
		minSeen, maxSeen = append(minSeen, seenMin), append(maxSeen, seenMax)
		toks := make([]string, len(c.Hops))
		for k, h := range c.Hops {
			ip := "-"
			if len(h.IPAddress) > 0 {
				ip = hex.EncodeToString(h.IPAddress)
			}
			toks[k] = fmt.Sprintf("%d:%s:%d:%s", h.TTL, ip, int64(h.RTT*8), b2s(h.IsDest)) // RTT in exact 1/8 ms units
		}
		lines = append(lines, strings.TrimRight("timed.e2e "+strings.Join(toks, " "), " "))
	}
	answers, err := orc.Batch(lines)
	if err != nil {
		t.Fatalf("oracle(e2e): %v", err)
	}
	for i, c := range cases {
		sample := map[string]any{"stream": "e2e", "hops": c.Hops, "run_fails": c.Fail, "max_ttl": c.MaxTTL, "impl_sample": got[i], "impl_error": fmt.Sprint(gotErr[i]),
			"min_ttl_passed": minSeen[i], "max_ttl_passed": maxSeen[i], "spec": answers[i]}
		hasDest := false
		for _, h := range c.Hops {
			hasDest = hasDest || h.IsDest
		}
		rep.Case("e2e", lines[i]+fmt.Sprint(c.Fail, c.MaxTTL), len(c.Hops) > 0 && !c.Fail, sample)
		rep.Hit("e2e:" + map[bool]string{true: "dest-hop", false: "no-dest-hop"}[hasDest])
		bad := ""
		switch {
		case minSeen[i] != c.MaxTTL || maxSeen[i] != c.MaxTTL:
			bad = fmt.Sprintf("e2e run used TTL range %d..%d instead of %d..%d", minSeen[i], maxSeen[i], c.MaxTTL, c.MaxTTL)
		case c.Fail && (!errors.Is(gotErr[i], errInjected) || got[i] != 0):
			bad = "a failed run was not passed on as an error"
		case !c.Fail && gotErr[i] != nil:
			bad = "error from a successful run"
		case !c.Fail && strconv.FormatInt(int64(got[i]*8), 10) != answers[i]:
			bad = fmt.Sprintf("e2e sample %v is not the destination hop's RTT / 0 (spec %s eighths of a ms)", got[i], answers[i])
		case !c.Fail && got[i]*8 != math.Trunc(got[i]*8):
			bad = "e2e sample is not one of the hop RTTs"
		}
		if bad != "" {
			rep.Violate(hx.Violation{Kind: "spec", What: bad, Sig: map[string]string{"stream": "e2e"}, Replay: sample})
		}
	}
}

// c05RealE2e: the real runE2eProbeOnce → real runTracerouteOnce → real driver + engine over the
// packets.NewSourceSink seam, with a network that answers the single probe after a scripted delay.
func c05RealE2e(t *testing.T, rep *hx.Report, rng *hx.RNG, n int) {
	target := netip.MustParseAddr("192.0.2.9")
	pick := func(kind string, v6 bool, name string) replyForm {
		for _, f := range catalogueFor(kind, v6) {
			if f.Name == name {
				return f
			}
		}
		return replyForm{}
	}
	destForm := map[string]replyForm{"icmp": pick("icmp", false, "echo"), "udp": pick("udp", false, "du/code3a"), "tcp": pick("tcp", false, "synack")}
	skipped := 0
	for i := 0; i < n; i++ {
		proto := []string{"icmp", "udp", "tcp"}[i%3]
		mode := []string{"dest", "dest", "router", "silent"}[rng.Intn(4)]
		maxTTL := rng.Range(1, 64)
		d := time.Duration(rng.Range(4, 2500))*time.Millisecond + time.Duration(2*rng.Range(0, 400)+1)*time.Microsecond
		var sample float64
		var rerr error
		var ttls []int
		synctest.Test(t, func(t *testing.T) {
			w := &bwWire{}
			w.Configure = func(idx int, addr netip.Addr, src *bwSource, snk *bwSink) {
				snk.OnWrite = func(p bwPacket) {
					h := bwParse(p.Data)
					if !h.OK || h.V6 || len(p.Data) < 28 {
						return
					}
					ttls = append(ttls, h.TTL)
					local, _ := netip.AddrFromSlice(p.Data[12:16])
					ihl := int(p.Data[0]&0xf) * 4
					fl := flowInfo{Local: local, Target: target}
					if proto != "icmp" {
						fl.LPort = uint16(p.Data[ihl])<<8 | uint16(p.Data[ihl+1])
						fl.TPort = uint16(p.Data[ihl+2])<<8 | uint16(p.Data[ihl+3])
					}
					var reply []byte
					switch mode {
					case "dest":
						reply = destForm[proto].encode(fl, p.Data, target, h.TTL, seqOfProbe(p.Data))
					case "router":
						reply = pick(proto, false, "te/qfull").encode(fl, p.Data, netip.MustParseAddr("10.9.8.7"), h.TTL, seqOfProbe(p.Data))
					}
					if reply != nil {
						time.AfterFunc(d, func() { src.Inject(reply) })
					}
				}
			}
			defer bwInstall(w)()
			params := traceroute.TracerouteParams{Hostname: target.String(), Port: 33434, Protocol: proto, MinTTL: 1, MaxTTL: maxTTL, Delay: 50,
				Timeout: 3 * time.Second, TCPMethod: traceroute.TCPMethod("syn"), TracerouteQueries: 1, E2eQueries: 1}
			sample, rerr = traceroute.VerifE2eProbeOnce(context.Background(), params, 33434)
		})
		if rerr != nil && len(ttls) == 0 {
			skipped++ // no route / no permission in this environment: capability, not a violation
			continue
		}
		want := 0.0
		if mode == "dest" {
			want = float64(int64(d)) / 1e6
		}
		smp := map[string]any{"stream": "e2e-real", "protocol": proto, "max_ttl": maxTTL, "network": mode, "reply_delay": d.String(),
			"impl_sample_ms": sample, "impl_error": fmt.Sprint(rerr), "probe_ttls": ttls, "spec_ms": want}
		rep.Case("e2e-real", fmt.Sprint(proto, maxTTL, mode, d), mode == "dest", smp)
		rep.Hit("e2e-real:" + proto + "/" + mode)
		bad := ""
		switch {
		case rerr != nil:
			bad = "end-to-end probe failed on a well-behaved network: " + rerr.Error()
		case len(ttls) != 1 || ttls[0] != maxTTL:
			bad = fmt.Sprintf("end-to-end probe wrote probes with TTLs %v instead of one probe with TTL %d", ttls, maxTTL)
		case math.Abs(sample-want) > 1e-9*math.Max(want, 1e-300):
			bad = fmt.Sprintf("end-to-end sample %v ms, the destination answered after %v ms (0 = no destination answer)", sample, want)
		}
		if bad != "" {
			rep.Violate(hx.Violation{Kind: "spec", What: bad, Sig: map[string]string{"stream": "e2e-real", "protocol": proto}, Replay: smp})
		}
	}
	if skipped > 0 {
		rep.Note("e2e-real: %d of %d runs could not start in this environment (no local address / route for 192.0.2.9) and were skipped", skipped, n)
	}
}

// ---------------------------------------------------------------------------------------------

func TestC05(t *testing.T) {
	env := hx.GetEnv()
	rep := hx.NewReport("C05", env, "wire-*: one case = one full run of a real driver under a real engine over the in-memory wire with a scripted network "+
		"(30 hops, 3 s timeout, 50/10 ms spacing) inside a synctest bubble, non-trivial = the run returned hops and at least one reply was accepted, "+
		"distinct by configuration + reply script; timed-*: one scripted-driver run of a real engine compared with the Lean timed model, non-trivial = non-empty script; "+
		"e2e: one runE2eProbeOnce call over a scripted run, non-trivial = the run returned hops; e2e-real: one real runE2eProbeOnce over the simulated wire, non-trivial = the destination answered")
	defer rep.Write()
	rng := hx.NewRNG(env.Seed ^ 0xC05)
	orc := hx.NewOracle()

	// wire streams
	type judged struct {
		line   string
		finish func(string)
	}
	var js []judged
	perVariant := env.Scale(250, 3000)
	for _, v := range allVariants {
		for i := 0; i < perVariant; i++ {
			c := c05GenWire(rng, v, "")
			o := c05RunWire(t, c, 0, nil)
			if line, fin := c05JudgeWire(rep, c, o); fin != nil {
				js = append(js, judged{line, fin})
			}
		}
	}
	for _, v := range []string{"tcp", "tcp-paris"} {
		for i := 0; i < env.Scale(100, 1500); i++ {
			c := c05GenWire(rng, v, hx.Pick(rng, []string{"dup", "dup", "direct"}))
			o := c05RunWire(t, c, 0, nil)
			if line, fin := c05JudgeWire(rep, c, o); fin != nil {
				js = append(js, judged{line, fin})
			}
		}
	}
	lines := make([]string, len(js))
	for i, j := range js {
		lines[i] = j.line
	}
	answers, err := orc.Batch(lines)
	if err != nil {
		t.Fatalf("oracle(wire): %v", err)
	}
	for i, j := range js {
		j.finish(answers[i])
	}

	// timed correspondence
	var tcs []c05TimedCase
	for i := 0; i < env.Scale(8000, 120000); i++ {
		eng := []string{"par", "ser"}[i%2]
		tcs = append(tcs, c05GenTimed(rng, eng, i%5 == 0))
	}
	c05TimedBatch(t, rep, orc, "timed", tcs, nil)

	// end-to-end
	c05RunE2e(rep, orc, rng, env.Scale(2000, 30000), t)
	c05RealE2e(t, rep, rng, env.Scale(300, 3000))

	if rep.Failed() {
		t.Fail()
	}
}
