package corr

// Run-level stream shared by C01/C02/C03: the PUBLIC entry points (RunICMPTraceroute,
// UDPv4.Traceroute, TCPv4.Traceroute) over the NewSourceSink seam, inside a synctest bubble, against
// a scripted path (routers answering with random catalogue forms, silent hops, a destination, plus
// noise and foreign replies injected at random instants). The reported hop list must be exactly the
// scripted path.

import (
	"context"
	"encoding/binary"
	"fmt"
	"net"
	"net/netip"
	"strings"
	"testing"
	"testing/synctest"
	"time"

	"github.com/DataDog/datadog-traceroute/common"
	"github.com/DataDog/datadog-traceroute/icmp"
	"github.com/DataDog/datadog-traceroute/packets"
	"github.com/DataDog/datadog-traceroute/result"
	"github.com/DataDog/datadog-traceroute/tcp"
	"github.com/DataDog/datadog-traceroute/udp"

	"verifharness/hx"
)

type runLevelCase struct {
	Proto    string // icmp | udp | tcp | tcp-paris
	V6       bool
	Target   netip.Addr
	Port     uint16
	Min, Max int
	DestHop  int
	Silent   map[int]bool
	Noise    int
	Seed     uint64
	Faults   []wireFault // optional injected wire faults (C10 extra stream)
	// FastReply: some routers answer while the sink write of the probe is still in progress (a slow
	// write, a very near hop): the reply is read and matched before SendProbe has returned. It arrived
	// inside the listening window and must be reported like any other.
	FastReply bool
	// TargetTE: these TTLs (below DestHop) are answered by a time-exceeded sent FROM THE TARGET ADDRESS
	// (a load balancer / NAT address that decrements the TTL): an address match without proof of
	// arrival. For ICMP and TCP SYN that hop must carry the target's address WITHOUT the destination
	// mark; for UDP any matched ICMP error from the target proves arrival (C04).
	TargetTE map[int]bool
	// RouterFirst (parallel engines): the probe that reaches the destination is answered twice — first
	// by a router's time-exceeded (a path change / a forged reply), a little later by the target's
	// proof-of-arrival reply. The hop must end up as the target's, marked as the destination.
	RouterFirst bool
	// Again: number of earlier runs on the same UDPv4 / TCPv4 object (see runRunLevel)
	Again int
	// SlowLast (parallel engines): the answer to the LAST probe of the run takes almost the whole
	// listening time (time-out minus less than one send delay): it arrives within the time-out of its
	// own probe and must be reported like the answers to the earlier probes.
	SlowLast bool
}

type runLevelOutcome struct {
	Run        *result.TracerouteRun
	Err        error
	Hops       []*result.TracerouteHop
	Probe      int
	SrcClose   int
	PortFree   string // non-empty: the source port of the live run could be bound by someone else
	WriteCalls int    // WriteTo calls including faulted ones
	ReadCalls  int
	SnkClose   int
	UseAfter   []string
	Filters    []packets.PacketFilterSpec // what the entry point asked the capture source to install, in order
	FirstProbe []byte                     // the first probe the run wrote
}

func flowOfProbe(p []byte) (flowInfo, string, int) {
	var fl flowInfo
	kind := "icmp"
	if p[0]>>4 == 4 {
		fl.Local, fl.Target = netip.AddrFrom4([4]byte(p[12:16])), netip.AddrFrom4([4]byte(p[16:20]))
		switch p[9] {
		case 6:
			kind = "tcp"
		case 17:
			kind = "udp"
		}
		if p[9] != 1 {
			fl.LPort, fl.TPort = binary.BigEndian.Uint16(p[20:]), binary.BigEndian.Uint16(p[22:])
		}
		return fl, kind, int(p[8])
	}
	fl.V6 = true
	fl.Local, fl.Target = netip.AddrFrom16([16]byte(p[8:24])), netip.AddrFrom16([16]byte(p[24:40]))
	if p[6] == 17 {
		kind = "udp"
		fl.LPort, fl.TPort = binary.BigEndian.Uint16(p[40:]), binary.BigEndian.Uint16(p[42:])
	}
	return fl, kind, int(p[7])
}

func routerAddr(v6 bool, ttl int) netip.Addr {
	if v6 {
		return netip.MustParseAddr(fmt.Sprintf("fd00:77::%x", ttl))
	}
	return netip.MustParseAddr(fmt.Sprintf("10.77.%d.1", ttl))
}

// runRunLevel executes one case and returns the reported hops.
func runRunLevel(t *testing.T, c runLevelCase) runLevelOutcome {
	var out runLevelOutcome
	r := hx.NewRNG(c.Seed)
	synctest.Test(t, func(t *testing.T) {
		var wire *memWire
		packets.VerifSetSourceSinkFactory(func(addr netip.Addr, _ bool) (packets.SourceSinkHandle, bool, error) {
			wire = newMemWire()
			wire.blockWhenEmpty = true
			wire.faults = c.Faults
			wire.onWrite = func(p []byte, _ netip.AddrPort) {
				out.Probe++
				fl, kind, ttl := flowOfProbe(p)
				if out.Probe == 1 && kind != "icmp" {
					// the run is live: its source port is an identifier no concurrent run may be handed —
					// the OS must still consider it taken
					ap := netip.AddrPortFrom(fl.Local, fl.LPort).String()
					if kind == "udp" {
						if c, err := net.ListenPacket("udp", ap); err == nil {
							c.Close()
							out.PortFree = "udp " + ap
						}
					} else if l, err := net.Listen("tcp", ap); err == nil {
						l.Close()
						out.PortFree = "tcp " + ap
					}
				}
				if c.Silent[ttl] {
					return
				}
				forms := catalogueFor(kind, fl.V6)
				var cands []replyForm
				for _, f := range forms {
					if f.NATAddr || f.NATPort || f.Kind == "sack" {
						continue // the entry points run with strict source checking
					}
					if (ttl < c.DestHop) == (f.Kind == "te") {
						cands = append(cands, f)
					}
				}
				f := hx.Pick(r, cands)
				from := fl.Target
				if ttl < c.DestHop && !c.TargetTE[ttl] {
					from = routerAddr(fl.V6, ttl)
				}
				pkt := f.encode(fl, p, from, ttl, seqOfProbe(p))
				d := time.Duration(r.Range(1, 40))*time.Millisecond + time.Duration(r.Range(1, 999))*time.Microsecond
				if c.SlowLast && ttl == c.Max && kind != "tcp" {
					d = 300*time.Millisecond - time.Duration(r.Range(100, 4900))*time.Microsecond // time-out 300 ms, send delay 5 ms
				}
				if c.RouterFirst && ttl == c.DestHop && kind != "tcp" {
					var tes []replyForm
					for _, g := range forms {
						if g.Kind == "te" && !g.NATAddr && !g.NATPort {
							tes = append(tes, g)
						}
					}
					early := hx.Pick(r, tes).encode(fl, p, routerAddr(fl.V6, ttl), ttl, seqOfProbe(p))
					d += 2 * time.Millisecond
					time.AfterFunc(d-time.Duration(r.Range(1, 1900))*time.Microsecond, func() { wire.Inject(early) })
				}
				fast := c.FastReply && r.Chance(1, 2)
				if fast {
					wire.Inject(pkt)
				} else {
					time.AfterFunc(d, func() { wire.Inject(pkt) })
				}
				if fast {
					defer time.Sleep(time.Duration(r.Range(1, 4)) * time.Millisecond) // the write returns only now
				}
				// duplicates only for the parallel engine: C02 restricts the serial engine to histories in
				// which no reply arrives after its own window (a late duplicate consumes the next window)
				if kind != "tcp" && r.Chance(1, 4) {
					time.AfterFunc(d+time.Duration(r.Range(1, 30))*time.Millisecond, func() { wire.Inject(pkt) })
				}
				for k := 0; k < c.Noise; k++ { // noise and foreign traffic around each probe
					var nz []byte
					switch r.Intn(3) {
					case 0:
						nz = r.Bytes(r.Range(1, 80))
					case 1: // reply for another flow (other target / other ports)
						fl2 := fl
						fl2.LPort ^= 0x0101
						fl2.Target = netip.MustParseAddr(map[bool]string{false: "203.0.113.250", true: "2001:db8::fa"}[fl.V6])
						q := append([]byte(nil), p...)
						if !fl.V6 {
							copy(q[16:20], fl2.Target.AsSlice())
						} else {
							copy(q[24:40], fl2.Target.AsSlice())
						}
						nz = f.encode(fl2, q, routerAddr(fl.V6, 99), ttl, seqOfProbe(p))
					default: // truncated genuine reply
						nz = pkt[:r.Intn(len(pkt))+1]
						if len(nz) == len(pkt) {
							nz = nz[:len(nz)-1]
						}
						if kind == "tcp" && len(nz) >= 28 {
							// a long enough prefix is still a valid (duplicate) reply; for the serial
							// engine that would be a reply outside its window, which C02 excludes
							nz = nz[:27]
						}
					}
					if len(nz) > 0 {
						time.AfterFunc(time.Duration(r.Range(0, 45))*time.Millisecond, func() { wire.Inject(nz) })
					}
				}
			}
			return wire.Handle(), true, nil
		})
		defer packets.VerifSetSourceSinkFactory(nil)
		var run *result.TracerouteRun
		// Again > 0 (udp, tcp): the entry-point object is run Again more times first — what is judged is
		// the LAST run on the object, which must not see anything of the earlier ones
		udpObj := udp.NewUDPv4(net.IP(c.Target.AsSlice()), c.Port, uint8(c.Min), uint8(c.Max), 5*time.Millisecond, 300*time.Millisecond, false)
		tcpObj := tcp.NewTCPv4(net.IP(c.Target.AsSlice()), c.Port, uint8(c.Min), uint8(c.Max), 5*time.Millisecond, 120*time.Millisecond, c.Proto == "tcp-paris", false)
		for k := 0; k < c.Again && c.Proto != "icmp" && !c.V6; k++ {
			if c.Proto == "udp" {
				udpObj.Traceroute()
			} else {
				tcpObj.Traceroute()
			}
			out.Probe = 0
		}
		switch c.Proto {
		case "icmp":
			run, out.Err = icmp.RunICMPTraceroute(context.Background(), icmp.Params{Target: c.Target, ParallelParams: common.TracerouteParallelParams{TracerouteParams: common.TracerouteParams{
				MinTTL: uint8(c.Min), MaxTTL: uint8(c.Max), TracerouteTimeout: 300 * time.Millisecond, PollFrequency: 20 * time.Millisecond, SendDelay: 5 * time.Millisecond}}})
		case "udp":
			run, out.Err = udpObj.Traceroute()
		default:
			run, out.Err = tcpObj.Traceroute()
		}
		if run != nil {
			out.Hops = run.Hops
			out.Run = run
		}
		if wire != nil {
			wire.mu.Lock()
			out.SrcClose, out.SnkClose, out.UseAfter = wire.srcClose, wire.snkClose, append([]string(nil), wire.useAfter...)
			wire.mu.Unlock()
			wire.log.mu.Lock()
			out.Filters = append(out.Filters, wire.log.filters...)
			if len(wire.log.writes) > 0 {
				out.FirstProbe = wire.log.writes[0].Pkt
			}
			out.WriteCalls = wire.log.counts["write"]
			out.ReadCalls = wire.log.counts["read"]
			wire.log.mu.Unlock()
		}
	})
	return out
}

func genRunLevel(r *hx.RNG) runLevelCase {
	c := runLevelCase{Proto: hx.Pick(r, []string{"icmp", "udp", "tcp", "tcp-paris", "icmp", "udp"}), Seed: r.U64(), Silent: map[int]bool{}}
	c.V6 = c.Proto != "tcp" && c.Proto != "tcp-paris" && r.Chance(1, 3)
	c.Target = netip.MustParseAddr(hx.Pick(r, []string{"198.51.100.9", "203.0.113.77", "8.8.4.4"}))
	if c.V6 {
		c.Target = netip.MustParseAddr(hx.Pick(r, []string{"2001:db8::9", "2606:4700:4700::1111"}))
	}
	c.Port = uint16(r.Range(1, 65535))
	c.Min = r.Range(1, 3)
	c.Max = c.Min + r.Range(1, 12)
	if r.Chance(1, 25) {
		// the run ends at TTL 255, the last value an 8-bit TTL can take
		c.Max = 255
		c.Min = r.Range(244, 253)
	}
	c.DestHop = r.Range(c.Min, c.Max+2)
	for k := r.Intn(3); k > 0; k-- {
		s := r.Range(c.Min, c.Max)
		if s != c.DestHop {
			c.Silent[s] = true
		}
	}
	c.Noise = r.Intn(3)
	c.FastReply = r.Chance(1, 3)
	if r.Chance(1, 4) {
		c.Again = r.Range(1, 2)
	}
	if c.Proto != "tcp" && c.Proto != "tcp-paris" && r.Chance(1, 5) {
		c.SlowLast, c.FastReply = true, false
		if r.Chance(1, 3) {
			c.Min = c.Max // an end-to-end style run: one probe
			c.Silent = map[int]bool{}
		}
		delete(c.Silent, c.Max)
		c.DestHop = r.Range(c.Max, c.Max+2)
	}
	return c
}

// expectedHops is the scripted path as the hop list the property demands.
func (c runLevelCase) expectedHops() []string {
	var hs []string
	for ttl := c.Min; ttl <= c.Max; ttl++ {
		switch {
		case c.Silent[ttl] && ttl != c.DestHop:
			hs = append(hs, fmt.Sprintf("%d:-:0", ttl))
		case ttl < c.DestHop && c.TargetTE[ttl]:
			if c.Proto == "udp" {
				hs = append(hs, fmt.Sprintf("%d:%s:1", ttl, c.Target))
				return hs
			}
			hs = append(hs, fmt.Sprintf("%d:%s:0", ttl, c.Target))
		case ttl < c.DestHop:
			hs = append(hs, fmt.Sprintf("%d:%s:0", ttl, routerAddr(c.V6, ttl)))
		default:
			hs = append(hs, fmt.Sprintf("%d:%s:1", ttl, c.Target))
			return hs
		}
	}
	return hs
}

func hopsString(hs []*result.TracerouteHop) []string {
	var out []string
	for _, h := range hs {
		ip := "-"
		if len(h.IPAddress) > 0 {
			a, _ := netip.AddrFromSlice(h.IPAddress)
			ip = a.Unmap().String()
		}
		out = append(out, fmt.Sprintf("%d:%s:%s", h.TTL, ip, b2s(h.IsDest)))
	}
	return out
}

// runLevelStream runs n cases and reports every deviation from the scripted path as a violation
// of the calling property.
func runLevelStream(t *testing.T, rep *hx.Report, rng *hx.RNG, n int) {
	for _, probe := range []string{"198.51.100.9:33434", "[2001:db8::9]:33434"} {
		if c, err := net.Dial("udp", probe); err != nil {
			rep.Note("no route for %s (LocalAddrForHost): run-level stream skipped (%v)", probe, err)
			return
		} else {
			c.Close()
		}
	}
	for i := 0; i < n; i++ {
		c := genRunLevel(rng)
		o := runRunLevel(t, c)
		want := c.expectedHops()
		got := hopsString(o.Hops)
		key := fmt.Sprintf("%s|%v|%s|%d|%d|%d|%v|%d", c.Proto, c.V6, c.Target, c.Min, c.Max, c.DestHop, c.Silent, c.Seed)
		replay := map[string]any{"protocol": c.Proto, "target": c.Target.String(), "port": c.Port, "min": c.Min, "max": c.Max,
			"dest_hop": c.DestHop, "silent": fmt.Sprint(c.Silent), "noise_per_probe": c.Noise, "script_seed": c.Seed, "fast_replies": c.FastReply, "last_probe_answered_just_before_its_timeout": c.SlowLast,
			"expected_hops": want, "reported_hops": got, "error": fmt.Sprint(o.Err)}
		rep.Case("run/"+c.Proto, key, true, replay)
		rep.Hit(fmt.Sprintf("run:%s:v6=%v", c.Proto, c.V6))
		if c.SlowLast {
			rep.Hit("run:" + c.Proto + ":slow-answer-to-the-last-probe")
		}
		if c.FastReply {
			rep.Hit("run:" + c.Proto + ":reply-during-write")
		}
		if c.Again > 0 && c.Proto != "icmp" && !c.V6 {
			rep.Hit("run:" + c.Proto + ":earlier-runs-on-the-same-object")
			replay["earlier_runs_on_the_same_object"] = c.Again
		}
		if o.PortFree != "" {
			replay["port_free"] = o.PortFree
			rep.Violate(hx.Violation{Kind: "spec", What: "the source port of a live run is not reserved: " + o.PortFree + " could be bound while the run was sending (a concurrent run can be handed the same port, and then the two runs' probes are indistinguishable)",
				Sig: map[string]string{"stream": "run", "protocol": c.Proto, "defect": "source-port-not-reserved"}, Replay: replay})
			continue
		}
		if o.Err != nil {
			rep.Violate(hx.Violation{Kind: "spec", What: "run over the simulated path failed: " + o.Err.Error(), Sig: map[string]string{"stream": "run", "protocol": c.Proto}, Replay: replay})
			continue
		}
		if strings.Join(got, " ") != strings.Join(want, " ") {
			rep.Violate(hx.Violation{Kind: "spec", What: "reported hops differ from the scripted path (every router answered inside its window, noise must not matter)",
				Sig: map[string]string{"stream": "run", "protocol": c.Proto}, Replay: replay})
		}
	}
}

// c04RunStream (C04 at run level): the public entry points over the seam against paths on which an
// address match and a proof of arrival come apart — a time-exceeded sent from the target's own
// address below the destination hop, and a destination probe answered first by a router and then by
// the target. Judged by the property's wording on the finished run: a hop carries the destination
// mark exactly when the reply used for it is the target's proof-of-arrival form (then it carries the
// target's address and that reply's RTT), and the run's destination hop (GetDestinationHop, what the
// end-to-end probes read) is a marked hop or nothing.
func c04RunStream(t *testing.T, rep *hx.Report, rng *hx.RNG, n int) {
	for _, probe := range []string{"198.51.100.9:33434", "[2001:db8::9]:33434"} {
		if c, err := net.Dial("udp", probe); err != nil {
			rep.Note("no route for %s (LocalAddrForHost): C04 run-level stream skipped (%v)", probe, err)
			return
		} else {
			c.Close()
		}
	}
	for i := 0; i < n; i++ {
		c := genRunLevel(rng)
		c.Noise = rng.Intn(2)
		c.FastReply = false
		c.TargetTE = map[int]bool{}
		switch i % 3 {
		case 0, 1:
			for k := rng.Range(1, 2); k > 0; k-- {
				if c.DestHop > c.Min {
					c.TargetTE[rng.Range(c.Min, c.DestHop-1)] = true
				}
			}
			if i%3 == 1 {
				c.DestHop = c.Max + 2 // the target never proves arrival: there is no destination hop at all
			}
		}
		c.RouterFirst = i%3 == 2 || rng.Chance(1, 3)
		for k := range c.TargetTE {
			delete(c.Silent, k)
		}
		o := runRunLevel(t, c)
		want := c.expectedHops()
		got := hopsString(o.Hops)
		key := fmt.Sprintf("c04|%s|%v|%s|%d|%d|%d|%v|%v|%v|%d", c.Proto, c.V6, c.Target, c.Min, c.Max, c.DestHop, c.Silent, c.TargetTE, c.RouterFirst, c.Seed)
		replay := map[string]any{"protocol": c.Proto, "target": c.Target.String(), "port": c.Port, "min": c.Min, "max": c.Max,
			"dest_hop": c.DestHop, "silent": fmt.Sprint(c.Silent), "time_exceeded_from_target_at": fmt.Sprint(c.TargetTE), "router_answers_destination_probe_first": c.RouterFirst,
			"noise_per_probe": c.Noise, "script_seed": c.Seed, "expected_hops": want, "reported_hops": got, "error": fmt.Sprint(o.Err)}
		rep.Case("run-dest/"+c.Proto, key, true, replay)
		rep.Hit(fmt.Sprintf("run-dest:%s:te-from-target=%v:router-first=%v", c.Proto, len(c.TargetTE) > 0, c.RouterFirst && c.Proto != "tcp" && c.Proto != "tcp-paris" && c.DestHop <= c.Max))
		sig := map[string]string{"stream": "run-dest", "protocol": c.Proto}
		if o.Err != nil || o.Run == nil {
			rep.Violate(hx.Violation{Kind: "spec", What: "run over the simulated path failed: " + fmt.Sprint(o.Err), Sig: sig, Replay: replay})
			continue
		}
		if strings.Join(got, " ") != strings.Join(want, " ") {
			rep.Violate(hx.Violation{Kind: "spec", What: "destination marking differs from the scripted path: a hop is the destination exactly when the reply used for it is the target's proof-of-arrival reply (then it carries the target's address); a time-exceeded from the target's address is not one for this protocol",
				Sig: sig, Replay: replay})
			continue
		}
		dh := o.Run.GetDestinationHop()
		marked := 0
		for _, h := range o.Hops {
			if h.IsDest {
				marked++
			}
		}
		switch {
		case dh == nil && marked > 0:
			replay["destination_hop"] = "none"
			rep.Violate(hx.Violation{Kind: "spec", What: "a hop is marked as the destination but the run reports no destination hop", Sig: sig, Replay: replay})
		case dh != nil && !dh.IsDest:
			replay["destination_hop"] = fmt.Sprintf("ttl %d %s", dh.TTL, dh.IPAddress)
			rep.Violate(hx.Violation{Kind: "spec", What: fmt.Sprintf("the run's destination hop (TTL %d, %s) is a hop without proof of arrival: its reply is a time-exceeded that merely came from the target's address", dh.TTL, dh.IPAddress),
				Sig: sig, Replay: replay})
		}
	}
}
