package corr

// Matcher-level case generation (streams) and evaluation shared by C01/C02/C04/C09.

import (
	"encoding/binary"
	"fmt"
	"net/netip"
	"sort"
	"strings"
	"testing"
	"time"

	"verifharness/hx"
)

type matcherCase struct {
	Cfg    drvCfg
	Ops    []drvOp
	Steps  []drvStep
	Judged []string // oracle's verdicts on the implementation's accepted outcomes
}

// mutateCfg returns a configuration of ANOTHER run that differs from c in exactly one identifying
// dimension (the "foreign run" stream).
func mutateCfg(r *hx.RNG, c drvCfg) (drvCfg, string) {
	d := c
	switch c.kind() {
	case "icmp":
		switch r.Intn(3) {
		case 0:
			d.EchoCounter = c.EchoCounter + uint32(r.Range(1, 3))
			return d, "echo-id"
		case 1:
			d.EchoCounter = c.EchoCounter + 256 // echo id differs in the high byte only
			return d, "echo-id+256"
		}
	default:
		switch r.Intn(4) {
		case 0:
			d.LPort = c.LPort ^ uint16(1<<uint(r.Intn(16)))
			if d.LPort == 0 {
				d.LPort = 7
			}
			return d, "local-port"
		case 1:
			d.TPort = c.TPort ^ uint16(1<<uint(r.Intn(16)))
			if d.TPort == 0 {
				d.TPort = 7
			}
			return d, "target-port"
		case 2:
			if c.kind() == "tcp" {
				d.Seq = c.Seq + 1
				d.BaseID = c.BaseID + 300
				return d, "ids"
			}
			if c.kind() == "sack" {
				d.ISN = c.ISN + 1000
				return d, "isn"
			}
		}
	}
	hosts := v4Hosts
	if c.v6() {
		hosts = v6Hosts
	}
	for {
		a := netip.MustParseAddr(hx.Pick(r, hosts))
		if a != c.Target && a != c.Local {
			if r.Bool() {
				d.Target = a
				return d, "target"
			}
			d.Local = a
			return d, "local"
		}
	}
}

func rangeTTLs(lo, hi int) []int {
	var out []int
	for i := lo; i <= hi; i++ {
		out = append(out, i)
	}
	return out
}

// genMatcherCase builds one case: a few sends interleaved with inbound packets from all streams.
func genMatcherCase(t *testing.T, r *hx.RNG, c drvCfg, weights map[string]int) matcherCase {
	paris := c.Variant == "tcp-paris"
	all := rangeTTLs(c.Min, c.Max)
	shadow := map[int][]byte{}
	if !paris {
		shadow = probeBytes(t, c, all)
	}
	foreignCfg, foreignDim := mutateCfg(r, c)
	foreign := probeBytes(t, foreignCfg, all)
	forms := catalogueFor(c.kind(), c.v6())

	// TTLs to send, increasing (engines send in increasing order); sometimes a repeat or an
	// out-of-range TTL to exercise SendProbe's own checks
	nSend := r.Range(1, 6)
	if len(all) < nSend {
		nSend = len(all)
	}
	pick := map[int]bool{}
	for len(pick) < nSend {
		pick[hx.Pick(r, all)] = true
	}
	var sendTTLs []int
	for k := range pick {
		sendTTLs = append(sendTTLs, k)
	}
	sort.Ints(sendTTLs)
	if r.Chance(1, 6) {
		sendTTLs = append(sendTTLs, hx.Pick(r, sendTTLs)) // duplicate
	}
	if r.Chance(1, 6) {
		bad := c.Max + 1
		if bad > 255 || r.Bool() {
			bad = c.Min - 1
		}
		if bad >= 0 && bad <= 255 {
			sendTTLs = append(sendTTLs, bad)
		}
	}

	streams := []string{}
	for s, w := range weights {
		for i := 0; i < w; i++ {
			streams = append(streams, s)
		}
	}
	sort.Strings(streams)

	var ops []drvOp
	sent := []int{}
	mkRecv := func() drvOp {
		stream := hx.Pick(r, streams)
		rr := r.Fork()
		sentNow := append([]int(nil), sent...)
		// Pkt is produced lazily from the probes written so far
		return drvOp{Tag: stream, Gap: time.Duration(rr.Range(0, 40)) * time.Millisecond, TTL: -1}.withMake(func(w map[int][]byte) ([]byte, map[string]string) {
			meta := map[string]string{"stream": stream}
			probeOf := func(ttl int) []byte {
				if p, ok := w[ttl]; ok {
					return p
				}
				return shadow[ttl]
			}
			pickSent := func() (int, bool) {
				if len(sentNow) == 0 {
					return 0, false
				}
				return hx.Pick(rr, sentNow), true
			}
			f := hx.Pick(rr, forms)
			meta["form"] = f.Name
			switch stream {
			case "genuine", "perturbed", "truncated", "bitflip":
				ttl, ok := pickSent()
				if !ok || probeOf(ttl) == nil {
					return rr.Bytes(rr.Range(0, 64)), map[string]string{"stream": "noise"}
				}
				from := responderFor(rr, c, f)
				pkt := f.encode(c.flow(), probeOf(ttl), from, ttl, seqOfProbe(probeOf(ttl)))
				meta["ttl"] = fmt.Sprint(ttl)
				meta["from"] = from.String()
				switch stream {
				case "perturbed":
					ps := fieldsOf(pkt, f.Kind, c.v6())
					if len(ps) > 0 {
						p := hx.Pick(rr, ps)
						meta["field"], meta["mode"] = p.Name, p.Mode
						pkt = p.apply(pkt, rr)
					}
				case "truncated":
					n := rr.Intn(len(pkt) + 1)
					meta["cut"] = fmt.Sprint(n)
					pkt = pkt[:n]
				case "bitflip":
					pkt = append([]byte(nil), pkt...)
					for k := rr.Range(1, 3); k > 0; k-- {
						pkt[rr.Intn(len(pkt))] ^= 1 << uint(rr.Intn(8))
					}
				}
				return pkt, meta
			case "unsent":
				var cand []int
				for _, x := range all {
					if _, ok := w[x]; !ok && shadow[x] != nil {
						cand = append(cand, x)
					}
				}
				if len(cand) == 0 {
					return rr.Bytes(20), map[string]string{"stream": "noise"}
				}
				ttl := hx.Pick(rr, cand)
				meta["ttl"] = fmt.Sprint(ttl)
				from := responderFor(rr, c, f)
				return f.encode(c.flow(), shadow[ttl], from, ttl, seqOfProbe(shadow[ttl])), meta
			case "foreign":
				meta["dim"] = foreignDim
				var cand []int
				for x := range foreign {
					cand = append(cand, x)
				}
				if len(cand) == 0 {
					return rr.Bytes(20), map[string]string{"stream": "noise"}
				}
				sort.Ints(cand)
				ttl := hx.Pick(rr, cand)
				if len(sentNow) > 0 && rr.Bool() {
					ttl = hx.Pick(rr, sentNow) // a TTL this run has sent too
				}
				if foreign[ttl] == nil {
					return rr.Bytes(20), map[string]string{"stream": "noise"}
				}
				meta["ttl"] = fmt.Sprint(ttl)
				from := responderFor(rr, foreignCfg, f)
				return f.encode(foreignCfg.flow(), foreign[ttl], from, ttl, seqOfProbe(foreign[ttl])), meta
			case "opts-mimic":
				// IPv4 quote whose header carries 8 option bytes EQUAL to the probe's first 8 transport
				// bytes, followed by the transport header of ANOTHER flow (ports changed): a reader that
				// takes the transport header at byte 20 of the quote sees the probe's own
				ttl, ok := pickSent()
				if !ok || probeOf(ttl) == nil || c.v6() || len(probeOf(ttl)) < 28 {
					return rr.Bytes(20), map[string]string{"stream": "noise"}
				}
				pr := probeOf(ttl)
				q := append([]byte(nil), pr[:20]...)
				q[0] = 0x47
				binary.BigEndian.PutUint16(q[2:], binary.BigEndian.Uint16(q[2:])+8)
				q = append(q, pr[20:28]...) // "options"
				other := append([]byte(nil), pr[20:]...)
				other[0] ^= 0x5a // other source port
				other[3] ^= 0x01 // other destination port
				q = append(q, other...)
				from := pickRouter(rr, c)
				meta["ttl"], meta["from"], meta["form"] = fmt.Sprint(ttl), from.String(), "te/quoted-opts-mimic"
				return ip4Packet(from, c.Local, 1, 0x2222, 250, 0, 0, nil, icmp4Msg(11, 0, [4]byte{}, q)), meta
			case "quote-ext":
				// IPv6 only: an ICMPv6 error whose QUOTED IPv6 header names an extension header (hop-by-hop,
				// routing, destination options, fragment, …) as its next header, followed by anything from
				// nothing to a few well-formed headers, with a length octet that may claim far more than the
				// router quoted. Genuine probes carry no extension headers, so whatever a matcher makes of
				// such a quote, it must not take the run down.
				ttl, ok := pickSent()
				if !ok || probeOf(ttl) == nil || !c.v6() || len(probeOf(ttl)) < 48 {
					return rr.Bytes(rr.Range(0, 64)), map[string]string{"stream": "noise"}
				}
				pr := probeOf(ttl)
				q := append([]byte(nil), pr[:40]...)
				nh := q[6]
				q[6] = hx.Pick(rr, []byte{0, 43, 60, 44, 51, 50, 135, 139, 140, 59})
				for k := rr.Range(0, 2); k >= 0; k-- {
					next := nh
					if k > 0 {
						next = hx.Pick(rr, []byte{0, 43, 60, 44})
					}
					claimed := hx.Pick(rr, []byte{0, 0, 1, 2, 5, 31, 127, 255})
					present := hx.Pick(rr, []int{0, 1, 2, 7, 8, 8, 16, 8 + 8*int(claimed)})
					if present > 200 {
						present = 8
					}
					ext := rr.Bytes(present)
					if present > 0 {
						ext[0] = next
					}
					if present > 1 {
						ext[1] = claimed
					}
					q = append(q, ext...)
				}
				if rr.Bool() {
					q = append(q, pr[40:]...)
				}
				binary.BigEndian.PutUint16(q[4:], uint16(len(q)-40))
				from := pickRouter(rr, c)
				typ, code := byte(3), byte(0)
				if c.kind() == "udp" && rr.Bool() {
					typ, code = 1, 4
					if rr.Bool() {
						from = c.Target
					}
				}
				meta["ttl"], meta["from"], meta["form"] = fmt.Sprint(ttl), from.String(), "icmp6-error/quoted-extension-headers"
				return ip6Packet(from, c.Local, 58, 250, icmp6Msg(from, c.Local, typ, code, [4]byte{}, q)), meta
			case "other-family":
				// a genuine IPv4 reply re-encapsulated in IPv6 between the IPv4-MAPPED forms of the same
				// addresses (::ffff:a.b.c.d): every identifier is right, the IP version is not. A parser
				// that normalises mapped addresses makes such a packet fill a hop of the IPv4 run.
				ttl, ok := pickSent()
				if !ok || probeOf(ttl) == nil || c.v6() {
					return rr.Bytes(20), map[string]string{"stream": "noise"}
				}
				from := responderFor(rr, c, f)
				pkt := mappedV6Of(f.encode(c.flow(), probeOf(ttl), from, ttl, seqOfProbe(probeOf(ttl))))
				if pkt == nil {
					return rr.Bytes(20), map[string]string{"stream": "noise"}
				}
				meta["ttl"], meta["from"] = fmt.Sprint(ttl), from.String()
				return pkt, meta
			case "own-synack":
				// TCP variants: a SYN-ACK on the run's OWN 4-tuple arriving mid-run with numbers of its own —
				// a stale duplicate of an earlier connection's handshake, a retransmission, or a forgery.  For
				// the SACK variant it is not a selective ACK at all and must change nothing (in particular
				// not the sequence base the later replies are decoded against); for TCP SYN it is a
				// destination answer only if it acknowledges the last probe.
				fl := c.flow()
				if fl.V6 || (c.kind() != "sack" && c.kind() != "tcp") {
					return rr.Bytes(20), map[string]string{"stream": "noise"}
				}
				seq, ack := uint32(rr.U64()), uint32(rr.U64())
				switch rr.Intn(4) {
				case 0:
					ack = fl.ISN + 1 // exactly the real handshake's acknowledgement
				case 1:
					ack = fl.ISN + uint32(rr.Range(2, 40))
				}
				var opts []byte
				if rr.Bool() {
					opts = append(opts, 4, 2) // SACK permitted
				}
				if rr.Bool() {
					opts = append(opts, 8, 10)
					opts = append(opts, rr.Bytes(8)...)
				}
				meta["form"], meta["from"] = "synack/own-tuple", fl.Target.String()
				return ip4Packet(fl.Target, fl.Local, 6, uint16(rr.Intn(65536)), 57, 0, 0x4000, nil,
					tcpSegment(fl.Target, fl.Local, fl.TPort, fl.LPort, seq, ack, 0x12, opts, nil)), meta
			case "own-probe":
				ttl, ok := pickSent()
				if !ok || probeOf(ttl) == nil {
					return rr.Bytes(20), map[string]string{"stream": "noise"}
				}
				meta["ttl"] = fmt.Sprint(ttl)
				return probeOf(ttl), meta
			case "dest-other":
				// destination-form reply with the right identifiers from a NON-target address
				ttl, ok := pickSent()
				if !ok || probeOf(ttl) == nil {
					return rr.Bytes(20), map[string]string{"stream": "noise"}
				}
				var dforms []replyForm
				for _, g := range forms {
					if g.Kind != "te" {
						dforms = append(dforms, g)
					}
				}
				g := hx.Pick(rr, dforms)
				from := pickRouter(rr, c)
				meta["form"], meta["ttl"], meta["from"] = g.Name, fmt.Sprint(ttl), from.String()
				return g.encode(c.flow(), probeOf(ttl), from, ttl, seqOfProbe(probeOf(ttl))), meta
			default: // noise
				switch rr.Intn(4) {
				case 0:
					return rr.Bytes(rr.Range(0, 90)), meta
				case 1: // plausible IPv4 header with random rest
					b := rr.Bytes(rr.Range(20, 80))
					b[0] = 0x40 | byte(rr.Range(0, 15))
					b[9] = hx.Pick(rr, []byte{1, 6, 17, 4, 41, 58, 132, 200})
					return b, meta
				case 2:
					b := rr.Bytes(rr.Range(40, 120))
					b[0] = 0x60
					b[6] = hx.Pick(rr, []byte{0, 6, 17, 58, 41, 44, 59})
					return b, meta
				default:
					return []byte{}, meta
				}
			}
		})
	}
	for _, ttl := range sendTTLs {
		for k := r.Intn(3); k > 0; k-- {
			ops = append(ops, mkRecv())
		}
		ops = append(ops, drvOp{Send: true, TTL: ttl, Gap: time.Duration(r.Range(1, 60))*time.Millisecond + time.Duration(r.Range(1, 999))*time.Microsecond})
		if ttl >= c.Min && ttl <= c.Max || c.kind() == "udp" || c.kind() == "tcp" {
			sent = append(sent, ttl)
		}
	}
	for k := r.Range(6, 24); k > 0; k-- {
		ops = append(ops, mkRecv())
	}
	return matcherCase{Cfg: c, Ops: ops}
}

func (o drvOp) withMake(mk makeFn) drvOp {
	o.make = mk
	return o
}

// runMatcherCase runs the case; lazy packets are resolved against the probes written so far.
func runMatcherCase(t *testing.T, mc *matcherCase) {
	mc.Steps = runDrvCase(t, mc.Cfg, mc.Ops)
}

func summariseOutcome(tok string) string {
	if i := strings.IndexByte(tok, ':'); i > 0 {
		return tok[:i]
	}
	return tok
}

// mappedV6Of re-encapsulates an IPv4 packet as the IPv6 packet between the IPv4-mapped forms of its
// addresses: TCP/UDP payloads are carried as they are, ICMPv4 echo replies and errors become their
// ICMPv6 counterparts (a quoted IPv4 header becomes a quoted IPv6 header between mapped addresses, a
// quoted echo request an ICMPv6 echo request). nil when the packet has no such counterpart.
func mappedV6Of(pkt []byte) []byte {
	conv := func(h []byte) (src, dst netip.Addr, proto byte, ttl byte, pl []byte, ok bool) {
		if len(h) < 20 || h[0]>>4 != 4 {
			return
		}
		ihl := int(h[0]&0xf) * 4
		if ihl < 20 || len(h) < ihl {
			return
		}
		m := func(b []byte) netip.Addr {
			var a [16]byte
			a[10], a[11] = 0xff, 0xff
			copy(a[12:], b)
			return netip.AddrFrom16(a)
		}
		return m(h[12:16]), m(h[16:20]), h[9], h[8], h[ihl:], true
	}
	src, dst, proto, ttl, pl, ok := conv(pkt)
	if !ok {
		return nil
	}
	switch proto {
	case 6, 17:
		return ip6Packet(src, dst, proto, ttl, pl)
	case 1:
		if len(pl) < 8 {
			return nil
		}
		rest := [4]byte{pl[4], pl[5], pl[6], pl[7]}
		switch pl[0] {
		case 0: // echo reply
			return ip6Packet(src, dst, 58, ttl, icmp6Msg(src, dst, 129, 0, rest, pl[8:]))
		case 11, 3:
			qs, qd, qp, qt, ql4, ok := conv(pl[8:])
			if !ok {
				return nil
			}
			if qp == 1 {
				qp = 58
				if len(ql4) >= 1 && ql4[0] == 8 {
					ql4 = append([]byte{128}, ql4[1:]...)
				}
			}
			typ, code := byte(3), byte(0) // time exceeded / hop limit
			if pl[0] == 3 {
				typ, code = 1, 4 // destination unreachable / port unreachable
			}
			return ip6Packet(src, dst, 58, ttl, icmp6Msg(src, dst, typ, code, [4]byte{}, ip6Packet(qs, qd, qp, qt, ql4)))
		}
	}
	return nil
}
