//go:build linux

package corr

// C14, scenario "filters": several runs configure their capture filters at the same time — each on
// its OWN real AF_PACKET Source (over an AF_UNIX datagram pair), with its own 4-tuple. Whatever the
// filter constructors share (templates, caches, buffers) is exercised under the race detector, and
// every goroutine checks that the program it installed is its own: a frame of its tuple is
// delivered, a frame of its neighbour's tuple is not.

import (
	"errors"
	"fmt"
	"net/netip"
	"os"
	"sync"
	"time"

	"github.com/DataDog/datadog-traceroute/packets"
	"golang.org/x/sys/unix"

	"verifharness/hx"
)

func init() { c14FiltersScenario = c14Filters }

func c14Filters(r *hx.RNG) (c14Stats, error) {
	const k = 4
	var wg sync.WaitGroup
	errs := make([]error, k)
	var st c14Stats
	var mu sync.Mutex
	mac := []byte{2, 0, 0, 0, 0, 1, 2, 0, 0, 0, 0, 2, 0x08, 0x00}
	local := netip.MustParseAddr("192.0.2.10")
	for g := 0; g < k; g++ {
		seed := r.U64()
		wg.Add(1)
		go func() {
			defer wg.Done()
			rg := hx.NewRNG(seed)
			fds, err := unix.Socketpair(unix.AF_UNIX, unix.SOCK_DGRAM|unix.SOCK_NONBLOCK, 0)
			if err != nil {
				return // no socket pairs here: nothing to exercise
			}
			defer unix.Close(fds[0])
			src := packets.VerifAFPacketSourceFromFile(os.NewFile(uintptr(fds[1]), "c14-filter-rx"))
			defer src.Close()
			buf := make([]byte, 2048)
			for i := 0; i < 12; i++ {
				target := netip.AddrFrom4([4]byte{198, 51, byte(100 + g), byte(rg.Range(1, 250))})
				tp, lp := uint16(rg.Range(1, 65535)), uint16(40000+g*1000+rg.Intn(999))
				spec := packets.PacketFilterSpec{FilterType: packets.FilterTypeTCP, FilterConfig: packets.FilterConfig{
					Src: netip.AddrPortFrom(target, tp), Dst: netip.AddrPortFrom(local, lp)}}
				if err := src.SetPacketFilter(spec); err != nil {
					errs[g] = fmt.Errorf("SetPacketFilter: %w", err)
					return
				}
				own := append(append([]byte(nil), mac...), ip4Packet(target, local, 6, 7, 60, 0, 0x4000, nil, tcpSegment(target, local, tp, lp, 1000, 2001, 0x12, nil, nil))...)
				other := append(append([]byte(nil), mac...), ip4Packet(target, local, 6, 7, 60, 0, 0x4000, nil, tcpSegment(target, local, tp, lp^0x0100, 1000, 2001, 0x12, nil, nil))...)
				for _, fr := range [][]byte{other, own} {
					if err := unix.Send(fds[0], fr, 0); err != nil {
						errs[g] = err
						return
					}
				}
				var n int
				err := readRobust(src, fds[1], func() (e error) { n, e = src.Read(buf); return })
				switch {
				case err != nil && errors.Is(err, os.ErrDeadlineExceeded):
					errs[g] = fmt.Errorf("the filter installed for %v->%v hides a frame of that very tuple (another run's program is attached)", spec.FilterConfig.Src, spec.FilterConfig.Dst)
					return
				case err != nil:
					errs[g] = err
					return
				case string(buf[:n]) != string(own[14:]):
					errs[g] = fmt.Errorf("the filter installed for %v->%v delivers a frame of another tuple", spec.FilterConfig.Src, spec.FilterConfig.Dst)
					return
				}
				// nothing else may be queued
				src.SetReadDeadline(time.Now().Add(time.Millisecond))
				if n, err := src.Read(buf); err == nil {
					errs[g] = fmt.Errorf("the filter installed for %v->%v also delivers a %d-byte frame of another tuple", spec.FilterConfig.Src, spec.FilterConfig.Dst, n)
					return
				}
				mu.Lock()
				st.runs++
				st.reads += 2
				st.accepted++
				mu.Unlock()
			}
		}()
	}
	wg.Wait()
	return st, errors.Join(errs...)
}
