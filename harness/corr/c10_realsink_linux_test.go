//go:build linux

package corr

// C10 real-sink stream: the platform's raw-socket sink (packets.NewSinkLinux — the one piece of the
// send path the simulated wire replaces) must report a datagram the kernel refused as an ERROR.  The
// wrapper models (TRV.Wrapper) take "the write failed" as an input; this ties that input to the real
// sink: a refused sendto(2) that came back as success would let a run carry on and report a path
// although a probe never left the host.

import (
	"errors"
	"fmt"
	"net/netip"
	"syscall"
	"testing"

	"github.com/DataDog/datadog-traceroute/packets"

	"verifharness/hx"
)

func c10RealSink(t *testing.T, rep *hx.Report) {
	for _, fam := range []string{"v4", "v6"} {
		addr := netip.MustParseAddr("127.0.0.1")
		if fam == "v6" {
			addr = netip.MustParseAddr("::1")
		}
		snk, err := packets.NewSinkLinux(addr)
		if err != nil {
			rep.Note("real-sink stream skipped for %s: NewSinkLinux: %v", fam, err)
			continue
		}
		dst := netip.AddrPortFrom(addr, 33434)
		type attempt struct {
			name string
			buf  []byte
		}
		var as []attempt
		if fam == "v4" {
			as = []attempt{
				{"4-byte buffer (shorter than an IPv4 header: EINVAL)", []byte{0x45, 0, 0, 4}},
				{"70000-byte buffer (longer than any IPv4 datagram: EMSGSIZE)", append([]byte{0x45, 0, 0xff, 0xff}, make([]byte, 70000-4)...)},
			}
		} else {
			as = []attempt{
				{"70000-byte payload (longer than any datagram: EMSGSIZE)", make([]byte, 70000)},
			}
		}
		for _, a := range as {
			// what the kernel says to the same bytes on a socket of our own (the oracle)
			werr := snk.WriteTo(a.buf, dst)
			rep.Case("real-sink", fam+"/"+a.name, true, map[string]any{"family": fam, "write": a.name, "error": fmt.Sprint(werr)})
			rep.Hit("real-sink:" + fam)
			if werr == nil {
				rep.Violate(hx.Violation{Kind: "spec", What: "the raw-socket sink reported success for a datagram the kernel cannot send: " + a.name,
					Sig: map[string]string{"stream": "real-sink", "family": fam}, Replay: map[string]any{"family": fam, "write": a.name, "bytes": len(a.buf)}})
				continue
			}
			var errno syscall.Errno
			if !errors.As(werr, &errno) {
				rep.Hit("real-sink:error-without-errno")
			}
		}
		_ = snk.Close()
	}
}
