package corr

// C20 extra stream (lead): "cannot connect" also means a connect that TIMES OUT (filtered port: the
// SYNs are silently dropped), not only a refused one. prefer_sack must then fall back to a SYN
// trace, and method sack must report a NotSupportedError. The dial goes to an address behind the
// sandbox's default route, where nothing answers; the capture/send handles are the simulated wire.

import (
	"context"
	"errors"
	"fmt"
	"net"
	"net/netip"
	"syscall"
	"testing"
	"time"

	"github.com/DataDog/datadog-traceroute/common"
	"github.com/DataDog/datadog-traceroute/packets"
	"github.com/DataDog/datadog-traceroute/result"
	"github.com/DataDog/datadog-traceroute/sack"
	"github.com/DataDog/datadog-traceroute/traceroute"

	"verifharness/hx"
)

// c20SilentPort stages a TCP port on 127.0.0.1 whose SYNs are silently dropped: a listening socket
// with backlog 0 whose accept queue is saturated and never drained.
func c20SilentPort() (uint16, func(), error) {
	fd, err := syscall.Socket(syscall.AF_INET, syscall.SOCK_STREAM, 0)
	if err != nil {
		return 0, nil, err
	}
	closers := []func(){func() { syscall.Close(fd) }}
	cleanup := func() {
		for _, c := range closers {
			c()
		}
	}
	if err := syscall.Bind(fd, &syscall.SockaddrInet4{Addr: [4]byte{127, 0, 0, 1}}); err != nil {
		cleanup()
		return 0, nil, err
	}
	if err := syscall.Listen(fd, 0); err != nil {
		cleanup()
		return 0, nil, err
	}
	sa, err := syscall.Getsockname(fd)
	if err != nil {
		cleanup()
		return 0, nil, err
	}
	port := uint16(sa.(*syscall.SockaddrInet4).Port)
	addr := fmt.Sprintf("127.0.0.1:%d", port)
	for i := 0; i < 8; i++ { // saturate the accept queue, then verify that a connect really times out
		d := net.Dialer{Timeout: 150 * time.Millisecond}
		c, err := d.Dial("tcp", addr)
		if err != nil {
			var ne net.Error
			if errors.As(err, &ne) && ne.Timeout() {
				return port, cleanup, nil
			}
			cleanup()
			return 0, nil, fmt.Errorf("connect fails without timing out: %w", err)
		}
		closers = append(closers, func() { c.Close() })
	}
	cleanup()
	return 0, nil, errors.New("the accept queue never filled up")
}

func c20DialTimeoutStream(t *testing.T, rep *hx.Report, rng *hx.RNG, env hx.Env) {
	port, cleanup, err := c20SilentPort()
	if err != nil {
		rep.Note("dial-timeout stream skipped: a silent port cannot be staged in this sandbox (%v)", err)
		return
	}
	defer cleanup()
	target := netip.AddrPortFrom(netip.MustParseAddr("127.0.0.1"), port)
	for i := 0; i < env.Scale(3, 20); i++ {
		packets.VerifSetSourceSinkFactory(func(addr netip.Addr, _ bool) (packets.SourceSinkHandle, bool, error) {
			w := newMemWire()
			w.blockWhenEmpty = true
			return w.Handle(), true, nil
		})
		params := sack.Params{Target: target, HandshakeTimeout: time.Duration(rng.Range(120, 250)) * time.Millisecond, FinTimeout: 100 * time.Millisecond,
			ParallelParams: common.TracerouteParallelParams{TracerouteParams: common.TracerouteParams{MinTTL: 1, MaxTTL: 3,
				TracerouteTimeout: 50 * time.Millisecond, PollFrequency: 10 * time.Millisecond, SendDelay: time.Millisecond}}, LoosenICMPSrc: true}
		_, sackErr := sack.RunSackTraceroute(context.Background(), params)
		synRuns := 0
		doSack := func() (*result.TracerouteRun, error) { return nil, sackErr }
		doSyn := func() (*result.TracerouteRun, error) {
			synRuns++
			return &result.TracerouteRun{}, nil
		}
		_, prefErr := traceroute.VerifPerformTCPFallback(traceroute.TCPConfigPreferSACK, doSyn, doSack, doSyn)
		packets.VerifSetSourceSinkFactory(nil)
		var ns *sack.NotSupportedError
		replay := map[string]any{"target": target.String(), "handshake_timeout": params.HandshakeTimeout.String(), "sack_error": fmt.Sprint(sackErr),
			"prefer_sack_error": fmt.Sprint(prefErr), "syn_runs": synRuns}
		rep.Case("extra/dial-timeout", fmt.Sprint(i, params.HandshakeTimeout), true, replay)
		rep.Hit("extra:dial-timeout")
		bad := ""
		switch {
		case sackErr == nil:
			bad = "SACK traceroute to a silent port succeeded"
		case !errors.As(sackErr, &ns):
			bad = "a connect that timed out (target cannot be connected to) is not reported as SACK-unavailable (NotSupportedError): " + sackErr.Error()
		case prefErr != nil || synRuns != 1:
			bad = fmt.Sprintf("prefer_sack did not fall back to a SYN trace for a target that cannot be connected to (syn runs %d, error %v)", synRuns, prefErr)
		}
		if bad != "" {
			rep.Violate(hx.Violation{Kind: "spec", What: bad, Sig: map[string]string{"stream": "extra", "mode": "dial-timeout"}, Replay: replay})
		}
	}
}
