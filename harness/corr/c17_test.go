package corr

// C17: the real net.IP.IsPrivate / Results.RemovePrivateHops / Traceroute.RunTraceroute / HTTP handler
// compared with the Lean model (TRV.Result.isPrivate, removePrivate, pipeline) and with the executable
// spec predicates (TRV.ResSpec.PrivateRange, RedactedRuns) evaluated on the implementation's output.

import (
	"context"
	"encoding/json"
	"errors"
	"fmt"
	"go/ast"
	"go/parser"
	"go/token"
	"hash/fnv"
	"net"
	"net/http"
	"net/http/httptest"
	"net/url"
	"os"
	"path/filepath"
	"reflect"
	"runtime"
	"sort"
	"strings"
	"sync/atomic"
	"testing"

	"github.com/DataDog/datadog-traceroute/cache"
	"github.com/DataDog/datadog-traceroute/result"
	"github.com/DataDog/datadog-traceroute/reversedns"
	"github.com/DataDog/datadog-traceroute/server"
	"github.com/DataDog/datadog-traceroute/traceroute"

	"verifharness/hx"
)

// c17PrivateText is the property's definition of "private", written independently of net.IP and of
// the Lean model, on the textual/numeric form: used for the HTTP body where only text is available.
func c17PrivateText(ip net.IP) bool {
	var v4 []byte
	switch {
	case len(ip) == 4:
		v4 = ip
	case len(ip) == 16 && strings.HasPrefix(string(ip), "\x00\x00\x00\x00\x00\x00\x00\x00\x00\x00\xff\xff"):
		v4 = ip[12:]
	}
	if v4 != nil {
		v := uint32(v4[0])<<24 | uint32(v4[1])<<16 | uint32(v4[2])<<8 | uint32(v4[3])
		return v>>24 == 10 || v>>20 == 0xAC1 || v>>16 == 0xC0A8
	}
	return len(ip) == 16 && ip[0]>>1 == 0xfc>>1
}

var c17Boundaries = []string{
	"9.255.255.255", "10.0.0.0", "10.0.0.1", "10.255.255.255", "11.0.0.0",
	"172.15.255.255", "172.16.0.0", "172.31.255.255", "172.32.0.0",
	"192.167.255.255", "192.168.0.0", "192.168.255.255", "192.169.0.0",
	"fbff:ffff:ffff:ffff:ffff:ffff:ffff:ffff", "fc00::", "fc00::1", "fdff:ffff:ffff:ffff:ffff:ffff:ffff:ffff", "fe00::",
	"fe80::1", "2001:db8::1", "::1", "::", "8.8.8.8", "100.64.0.1", "169.254.1.1", "127.0.0.1",
	"64:ff9b::a00:1", "2002:a00:1::",
}

// c17AddrPool: every boundary address in its 4-byte (where applicable), 16-byte and mapped form.
func c17AddrPool() []net.IP {
	var pool []net.IP
	for _, s := range c17Boundaries {
		ip := net.ParseIP(s)
		if v4 := ip.To4(); v4 != nil {
			pool = append(pool, append(net.IP{}, v4...), append(net.IP{}, ip.To16()...))
		} else {
			pool = append(pool, ip)
		}
	}
	return pool
}

func c17ResolverNames(addr string) ([]string, error) {
	h := fnv.New32a()
	h.Write([]byte(addr))
	switch h.Sum32() % 6 {
	case 0:
		return nil, errors.New("verif: injected lookup failure")
	case 1:
		return nil, nil
	case 2:
		return []string{"a." + addr + ".example.test.", "b." + addr + ".example.test."}, nil
	default:
		return []string{"host-" + addr + ".example.test."}, nil
	}
}

func c17GenRuns(r *hx.RNG, pool []net.IP, e2e bool) []result.TracerouteRun {
	n := r.Range(1, 3)
	if !e2e && r.Chance(1, 10) {
		n = 0
	}
	var runs []result.TracerouteRun
	for i := 0; i < n; i++ {
		run := result.TracerouteRun{Source: result.TracerouteSource{IPAddress: net.IP{192, 0, 2, 2}, Port: uint16(i + 1)},
			Destination: result.TracerouteDestination{IPAddress: net.IP{198, 51, 100, 9}, Port: 33434}}
		if r.Chance(1, 3) { // also private TARGETS: redaction must not depend on the destination address
			run.Destination.IPAddress = hx.Pick(r, pool)
			run.Destination.ReverseDns = []string{"dest.example.test."}
		}
		nh := r.Range(1, 9)
		// the listing starts at the run's FIRST TTL, which need not be 1 (MinTTL > 1, end-to-end style
		// runs): a hop's TTL is not its position + 1
		first := 1
		if r.Chance(1, 3) {
			first = r.Range(2, 200)
		}
		for j := 0; j < nh; j++ {
			h := &result.TracerouteHop{TTL: first + j}
			switch k := r.Intn(10); {
			case k == 0:
			case k == 1:
				h.IPAddress = net.IP{}
			case k < 8:
				h.IPAddress = append(net.IP{}, hx.Pick(r, pool)...)
			default:
				b := r.Bytes(hx.Pick(r, []int{4, 16}))
				if len(b) == 16 && r.Bool() {
					copy(b, "\x00\x00\x00\x00\x00\x00\x00\x00\x00\x00\xff\xff")
				}
				h.IPAddress = net.IP(b)
			}
			if len(h.IPAddress) > 0 {
				h.RTT = float64(r.Range(1, 300_000_000)) / 1e6
				h.IsDest = j == nh-1 && r.Bool()
			}
			if !e2e { // RemovePrivateHops directly: every field populated, including what Normalize/enrich set
				h.Reachable = len(h.IPAddress) > 0 || r.Chance(1, 10)
				if r.Chance(1, 2) {
					h.ReverseDns = []string{fmt.Sprintf("n%d.example.test.", r.Intn(100))}
				}
				if r.Chance(1, 4) {
					h.Port, h.ICMPType, h.ICMPCode = uint16(r.Intn(65536)), uint8(r.Intn(256)), uint8(r.Intn(256))
				}
				if !e2e && len(h.IPAddress) == 0 && r.Chance(1, 6) { // inconsistent leftovers on an empty hop stay
					h.RTT = 1.5
				}
			}
			run.Hops = append(run.Hops, h)
		}
		runs = append(runs, run)
	}
	return runs
}

func c17SortRuns(runs []result.TracerouteRun) []result.TracerouteRun {
	out := append([]result.TracerouteRun{}, runs...)
	sort.SliceStable(out, func(i, j int) bool { return out[i].Source.Port < out[j].Source.Port })
	return out
}

// c17CheckRedactedGo: the property, directly on Go values (independent of the oracle): same shape,
// TTLs kept, no private address, redacted entries carry nothing but the TTL, public entries equal.
func c17CheckRedactedGo(in, out []result.TracerouteRun) string {
	if len(in) != len(out) {
		return fmt.Sprintf("number of runs changed %d -> %d", len(in), len(out))
	}
	for i := range in {
		if len(in[i].Hops) != len(out[i].Hops) {
			return fmt.Sprintf("run %d: number of hops changed %d -> %d", i, len(in[i].Hops), len(out[i].Hops))
		}
		for j, h := range in[i].Hops {
			o := out[i].Hops[j]
			switch {
			case o == nil:
				return fmt.Sprintf("run %d hop %d is nil", i, j)
			case o.TTL != h.TTL:
				return fmt.Sprintf("run %d hop %d: TTL %d -> %d", i, j, h.TTL, o.TTL)
			case c17PrivateText(o.IPAddress):
				return fmt.Sprintf("run %d hop %d (ttl %d) still carries private address %s", i, j, o.TTL, o.IPAddress)
			case c17PrivateText(h.IPAddress) && !reflect.DeepEqual(*o, result.TracerouteHop{TTL: h.TTL}):
				return fmt.Sprintf("run %d hop %d (ttl %d, was %s) keeps derived data: %+v", i, j, h.TTL, h.IPAddress, *o)
			case !c17PrivateText(h.IPAddress) && !(len(o.IPAddress) == 0 && len(h.IPAddress) == 0 || o.IPAddress.Equal(h.IPAddress)):
				return fmt.Sprintf("run %d hop %d: public address changed %s -> %s", i, j, h.IPAddress, o.IPAddress)
			case !c17PrivateText(h.IPAddress) && (o.RTT != h.RTT || o.Reachable != h.Reachable || o.IsDest != h.IsDest || !(len(o.ReverseDns) == 0 && len(h.ReverseDns) == 0 || reflect.DeepEqual(o.ReverseDns, h.ReverseDns))):
				return fmt.Sprintf("run %d hop %d: public hop changed %+v -> %+v", i, j, *h, *o)
			}
		}
	}
	return ""
}

func c17RunsJSON(runs []result.TracerouteRun) any {
	type hop struct {
		TTL       int
		IP        string
		IPHex     string
		RTT       float64
		Reachable bool
		IsDest    bool
		Names     []string
	}
	var out [][]hop
	for _, run := range runs {
		hs := []hop{}
		for _, h := range run.Hops {
			hs = append(hs, hop{h.TTL, h.IPAddress.String(), c16IPTok(h.IPAddress), h.RTT, h.Reachable, h.IsDest, h.ReverseDns})
		}
		out = append(out, hs)
	}
	return out
}

// c17RepoRoot finds the source directory the harness was compiled against (the `replace` target).
func c17RepoRoot() string {
	f := runtime.FuncForPC(reflect.ValueOf(traceroute.NewTraceroute).Pointer())
	if f == nil {
		return ""
	}
	file, _ := f.FileLine(f.Entry())
	return filepath.Dir(filepath.Dir(file))
}

// c17CLIWired checks the regenerated fact "the CLI flag --skip-private-hops is bound to
// Args.skipPrivateHops and that field is what RunE passes as SkipPrivateHops" on cmd/root.go.
func c17CLIWired(root string) (string, bool) {
	path := filepath.Join(root, "cmd", "root.go")
	src, err := os.ReadFile(path)
	if err != nil {
		return "cannot read " + path + ": " + err.Error(), false
	}
	fset := token.NewFileSet()
	f, err := parser.ParseFile(fset, path, src, 0)
	if err != nil {
		return err.Error(), false
	}
	isArgsField := func(e ast.Expr) bool {
		if u, ok := e.(*ast.UnaryExpr); ok {
			e = u.X
		}
		s, ok := e.(*ast.SelectorExpr)
		if !ok {
			return false
		}
		x, ok := s.X.(*ast.Ident)
		return ok && x.Name == "Args" && s.Sel.Name == "skipPrivateHops"
	}
	flagBound, paramSet := false, false
	ast.Inspect(f, func(n ast.Node) bool {
		switch x := n.(type) {
		case *ast.CallExpr:
			if s, ok := x.Fun.(*ast.SelectorExpr); ok && strings.HasPrefix(s.Sel.Name, "BoolVar") && len(x.Args) >= 2 {
				if lit, ok := x.Args[1].(*ast.BasicLit); ok && lit.Value == `"skip-private-hops"` && isArgsField(x.Args[0]) {
					flagBound = true
				}
			}
		case *ast.KeyValueExpr:
			if k, ok := x.Key.(*ast.Ident); ok && k.Name == "SkipPrivateHops" && isArgsField(x.Value) {
				paramSet = true
			}
		}
		return true
	})
	if !flagBound || !paramSet {
		return fmt.Sprintf("cmd/root.go: flag bound to Args.skipPrivateHops: %v; TracerouteParams.SkipPrivateHops set from it: %v", flagBound, paramSet), false
	}
	return "", true
}

func TestC17(t *testing.T) {
	env := hx.GetEnv()
	rep := hx.NewReport("C17", env, "addresses through the real net.IP.IsPrivate; documents through the real RemovePrivateHops, RunTraceroute "+
		"(stubbed runs and resolver) and the HTTP handler; non-trivial = a private-range address, or a document with at least one private hop; "+
		"distinct by address bytes / whole document")
	defer rep.Write()
	rng := hx.NewRNG(env.Seed ^ 0xC17)
	orc := hx.NewOracle()
	pool := c17AddrPool()

	// ---------------------------------------------------------------- (a) IsPrivate on addresses
	var addrs []net.IP
	for hi := 0; hi < 65536; hi++ {
		b0, b1 := byte(hi>>8), byte(hi)
		tail := rng.Bytes(14)
		v4 := net.IP{b0, b1, tail[0], tail[1]}
		mapped := append(net.IP{0, 0, 0, 0, 0, 0, 0, 0, 0, 0, 0xff, 0xff}, v4...)
		native := append(net.IP{b0, b1}, tail...)
		addrs = append(addrs, v4, mapped, native)
	}
	addrs = append(addrs, pool...)
	for _, ip := range pool { // every single-byte perturbation of the mapped prefix, and wrong lengths
		if len(ip) == 16 && ip.To4() != nil {
			for k := 0; k < 12; k++ {
				for _, d := range []byte{1, 0x80, 0xff} {
					p := append(net.IP{}, ip...)
					p[k] ^= d
					addrs = append(addrs, p)
				}
			}
		}
		for _, l := range []int{1, 2, 3, 5, 12, 15} {
			if l < len(ip) {
				addrs = append(addrs, append(net.IP{}, ip[:l]...))
			}
		}
		addrs = append(addrs, append(append(net.IP{}, ip...), 0), append(net.IP{0}, ip...))
	}
	addrs = append(addrs, nil, net.IP{})
	lines := make([]string, len(addrs))
	for i, ip := range addrs {
		lines[i] = "res.isprivate " + c16IPTok(ip)
	}
	ans, err := orc.Batch(lines)
	if err != nil {
		t.Fatalf("oracle: %v", err)
	}
	for i, ip := range addrs {
		impl := ip.IsPrivate()
		form := fmt.Sprintf("len%d", len(ip))
		if len(ip) == 16 && ip.To4() != nil {
			form = "mapped"
		}
		rep.Hit("isprivate:" + form + "=" + b2s(impl))
		rep.Case("isprivate", lines[i], impl, map[string]any{"ip_hex": c16IPTok(ip), "ip": ip.String(), "impl": impl})
		f := strings.Fields(ans[i])
		if len(f) != 2 {
			t.Fatalf("oracle answer %q for %s", ans[i], lines[i])
		}
		rj := map[string]any{"ip_hex": c16IPTok(ip), "ip": ip.String(), "impl_IsPrivate": impl, "model_isPrivate": f[0], "spec_PrivateRange": f[1],
			"how": "net.IP(<bytes>).IsPrivate()"}
		if b2s(impl) != f[1] || impl != c17PrivateText(ip) {
			rep.Violate(hx.Violation{Kind: "spec", What: fmt.Sprintf("IsPrivate(%s) = %v but the address is %sin the private ranges", ip, impl, map[bool]string{true: "not ", false: ""}[impl]),
				Sig: map[string]string{"site": "isprivate", "form": form}, Replay: rj})
		} else if b2s(impl) != f[0] {
			rj["broken"] = "correspondence stream isprivate (Lean TRV.Result.isPrivate vs net.IP.IsPrivate)"
			rep.Violate(hx.Violation{Kind: "correspondence", NoInput: true, What: "isPrivate model and net.IP.IsPrivate differ",
				Sig: map[string]string{"site": "isprivate", "stream": "isprivate"}, Replay: rj})
		}
	}

	// ---------------------------------------------------------------- (b) RemovePrivateHops on documents
	type docCase struct {
		in, out *result.Results
	}
	nDocs := env.Scale(4000, 100000)
	var docs []docCase
	lines = lines[:0]
	for i := 0; i < nDocs; i++ {
		in := &result.Results{Protocol: "udp", TestRunID: "t", Traceroute: result.Traceroute{Runs: c17GenRuns(rng, pool, false), HopCount: result.HopCountStats{Avg: 2.5, Min: 1, Max: 4}},
			E2eProbe: result.E2eProbe{RTTs: []float64{1, 0, 2}, PacketsSent: 3, PacketsReceived: 2}}
		out := c16Clone(in)
		out.RemovePrivateHops()
		docs = append(docs, docCase{in, out})
		lines = append(lines, "res.redact "+c16RunsTok(in.Traceroute.Runs),
			"res.spec.redacted "+c16RunsTok(in.Traceroute.Runs)+" ; "+c16RunsTok(out.Traceroute.Runs))
	}
	ans, err = orc.Batch(lines)
	if err != nil {
		t.Fatalf("oracle: %v", err)
	}
	for i, d := range docs {
		model, spec := ans[2*i], ans[2*i+1]
		nPriv := 0
		for _, run := range d.in.Traceroute.Runs {
			for _, h := range run.Hops {
				if c17PrivateText(h.IPAddress) {
					nPriv++
				}
			}
		}
		rj := map[string]any{"input_runs": c17RunsJSON(d.in.Traceroute.Runs), "impl_output_runs": c17RunsJSON(d.out.Traceroute.Runs),
			"how": "Results{Traceroute.Runs: input}.RemovePrivateHops()", "oracle_line": lines[2*i]}
		rep.Case("redact", lines[2*i], nPriv > 0, rj)
		rep.Hit(fmt.Sprintf("redact:private-hops=%d", min(nPriv, 5)))
		bad := c17CheckRedactedGo(d.in.Traceroute.Runs, d.out.Traceroute.Runs)
		if bad == "" && spec != "1" {
			bad = "Redacted(input, output) is false"
		}
		if bad == "" { // nothing outside the hop lists may change
			chk := c16Clone(d.out)
			for k := range chk.Traceroute.Runs {
				chk.Traceroute.Runs[k].Hops = c16Clone(d.in).Traceroute.Runs[k].Hops
			}
			if !reflect.DeepEqual(chk, d.in) {
				bad = "RemovePrivateHops changed something other than hop entries"
			}
		}
		if bad != "" {
			rep.Violate(hx.Violation{Kind: "spec", What: bad, Sig: map[string]string{"site": "redact", "path": "library"}, Replay: rj})
			continue
		}
		if got := c16RunsTok(d.out.Traceroute.Runs); got != model {
			rj["model_output"] = model
			rj["broken"] = "correspondence stream redact (Lean TRV.Result.removePrivate vs Results.RemovePrivateHops)"
			rep.Violate(hx.Violation{Kind: "correspondence", NoInput: true, What: "removePrivate model and implementation differ; Redacted holds on the implementation output",
				Sig: map[string]string{"site": "redact", "stream": "redact"}, Replay: rj})
		}
	}

	// ---------------------------------------------------------------- (c) RunTraceroute end to end
	origLookup := reversedns.LookupAddrFn
	defer func() { reversedns.LookupAddrFn = origLookup; traceroute.VerifSetRunOnce(nil); cache.Cache.Flush() }()
	var lookups atomic.Int64
	reversedns.LookupAddrFn = func(_ context.Context, addr string) ([]string, error) {
		lookups.Add(1)
		return c17ResolverNames(addr)
	}
	cancelDuringRuns := false // the caller's context is cancelled while the runs are in flight (they still succeed)
	runPipeline := func(runs []result.TracerouteRun, rdns, skip bool) (*result.Results, error) {
		cache.Cache.Flush()
		var next atomic.Int64
		ctx, cancel := context.WithCancel(context.Background())
		defer cancel()
		traceroute.VerifSetRunOnce(func(_ context.Context, p traceroute.TracerouteParams, port int) (*result.TracerouteRun, error) {
			k := int(next.Add(1)) - 1
			if cancelDuringRuns {
				cancel()
			}
			if k >= len(runs) {
				return nil, errors.New("verif: more runs requested than scripted")
			}
			run := c16Clone(&result.Results{Traceroute: result.Traceroute{Runs: runs[k : k+1]}}).Traceroute.Runs[0]
			return &run, nil
		})
		tr := traceroute.VerifNewTraceroute(nil)
		return tr.RunTraceroute(ctx, traceroute.TracerouteParams{Hostname: "dest.example.test", Protocol: "udp", MinTTL: 1, MaxTTL: 30,
			TracerouteQueries: len(runs), E2eQueries: 0, ReverseDns: rdns, SkipPrivateHops: skip})
	}
	tableFor := func(runs []result.TracerouteRun) string {
		seen := map[string]bool{}
		var ents []string
		add := func(ip net.IP) {
			if len(ip) == 0 || seen[string(ip)] {
				return
			}
			seen[string(ip)] = true
			if names, err := c17ResolverNames(ip.String()); err == nil {
				ents = append(ents, c16IPTok(ip)+" "+c16NamesTok(names))
			}
		}
		for _, run := range runs {
			add(run.Destination.IPAddress)
			for _, h := range run.Hops {
				add(h.IPAddress)
			}
		}
		return fmt.Sprintf("%d %s", len(ents), strings.Join(ents, " "))
	}
	type e2eCase struct {
		runs     []result.TracerouteRun
		rdns     bool
		on, off  *result.Results
		pipeLine string
		specLine string
	}
	nE2E := env.Scale(600, 12000)
	var e2es []e2eCase
	lines = lines[:0]
	for i := 0; i < nE2E; i++ {
		runs := c17GenRuns(rng, pool, true)
		rdns := i%2 == 0
		// every fourth case without reverse DNS: the request's context ends while the runs are in flight;
		// the runs do not look at it and succeed, and what is returned must be redacted all the same
		cancelDuringRuns = !rdns && i%8 == 1
		if cancelDuringRuns {
			rep.Hit("pipeline:context-cancelled-during-runs")
		}
		off, err1 := runPipeline(runs, rdns, false)
		on, err2 := runPipeline(runs, rdns, true)
		cancelDuringRuns = false
		if err1 != nil || err2 != nil {
			t.Fatalf("RunTraceroute with stubbed runs failed: %v %v", err1, err2)
		}
		off.Traceroute.Runs, on.Traceroute.Runs = c17SortRuns(off.Traceroute.Runs), c17SortRuns(on.Traceroute.Runs)
		in := &result.Results{Traceroute: result.Traceroute{Runs: runs}}
		c := e2eCase{runs: runs, rdns: rdns, on: on, off: off}
		c.pipeLine = fmt.Sprintf("res.pipeline %s 1 %s %s", b2s(rdns), strings.TrimSpace(tableFor(runs)), c16DocTok(in))
		c.specLine = "res.spec.redacted " + c16RunsTok(off.Traceroute.Runs) + " ; " + c16RunsTok(on.Traceroute.Runs)
		e2es = append(e2es, c)
		lines = append(lines, c.pipeLine, c.specLine)
	}
	ans, err = orc.Batch(lines)
	if err != nil {
		t.Fatalf("oracle: %v", err)
	}
	for i, c := range e2es {
		model, spec := ans[2*i], ans[2*i+1]
		nPriv, named := 0, 0
		for _, run := range c.off.Traceroute.Runs {
			for _, h := range run.Hops {
				if c17PrivateText(h.IPAddress) {
					nPriv++
					if len(h.ReverseDns) > 0 {
						named++
					}
				}
			}
		}
		rj := map[string]any{"scripted_runs": c17RunsJSON(c.runs), "reverse_dns": c.rdns, "output_skip_off": c17RunsJSON(c.off.Traceroute.Runs),
			"output_skip_on": c17RunsJSON(c.on.Traceroute.Runs), "resolver": "LookupAddrFn(addr) = c17ResolverNames(addr) (fnv32a(addr)%6: 0 error, 1 no names, 2 two names, else one)",
			"how": "traceroute.VerifSetRunOnce(stub returning the scripted runs); RunTraceroute{TracerouteQueries:len(runs), E2eQueries:0, ReverseDns, SkipPrivateHops:true}", "oracle_line": c.pipeLine}
		rep.Case("pipeline", c.pipeLine, nPriv > 0, rj)
		rep.Hit("pipeline:rdns=" + b2s(c.rdns))
		if named > 0 {
			rep.Hit("pipeline:private-hop-had-names-before-redaction")
		}
		bad := c17CheckRedactedGo(c.off.Traceroute.Runs, c.on.Traceroute.Runs)
		if bad == "" && spec != "1" {
			bad = "Redacted(output without the flag, output with the flag) is false"
		}
		if bad == "" && nPriv > 0 && reflect.DeepEqual(c17RunsJSON(c.on.Traceroute.Runs), c17RunsJSON(c.off.Traceroute.Runs)) {
			bad = "SkipPrivateHops had no effect on a document with private hops"
		}
		if bad == "" && nPriv == 0 && c17CheckRedactedGo(c.on.Traceroute.Runs, c.off.Traceroute.Runs) != "" {
			bad = "SkipPrivateHops changed a document without private hops"
		}
		if bad != "" {
			rep.Violate(hx.Violation{Kind: "spec", What: bad, Sig: map[string]string{"site": "redact", "path": "RunTraceroute"}, Replay: rj})
			continue
		}
		got := c16RunsTok(c.on.Traceroute.Runs)
		mf := strings.SplitN(model, " | ", 2)
		if mf[0] != got {
			rj["model_output"] = model
			rj["impl_tokens"] = got
			rj["broken"] = "correspondence stream pipeline (Lean TRV.Result.pipeline vs RunTraceroute enrich→Normalize→RemovePrivateHops)"
			rep.Violate(hx.Violation{Kind: "correspondence", NoInput: true, What: "pipeline model and RunTraceroute differ; Redacted holds on the implementation output",
				Sig: map[string]string{"site": "pipeline", "stream": "pipeline"}, Replay: rj})
		}
	}
	rep.Hit(fmt.Sprintf("pipeline:lookups>0=%v", lookups.Load() > 0))

	// ---------------------------------------------------------------- (d) HTTP handler
	srv := server.NewServer()
	httpGet := func(q url.Values) (int, []byte) {
		req := httptest.NewRequest(http.MethodGet, "/traceroute?"+q.Encode(), nil)
		w := httptest.NewRecorder()
		srv.TracerouteHandler(w, req)
		return w.Code, w.Body.Bytes()
	}
	nHTTP := env.Scale(300, 5000)
	for i := 0; i < nHTTP; i++ {
		runs := c17GenRuns(rng, pool, true)
		rdns := i%3 != 0
		flag := hx.Pick(rng, []string{"true", "1", "t", "TRUE", "True"})
		do := func(skip string, fresh bool) (*result.Results, []byte, string) {
			if fresh {
				cache.Cache.Flush()
			}
			var next atomic.Int64
			traceroute.VerifSetRunOnce(func(ctx context.Context, p traceroute.TracerouteParams, port int) (*result.TracerouteRun, error) {
				k := int(next.Add(1)) - 1
				if k >= len(runs) {
					return nil, errors.New("verif: more runs requested than scripted")
				}
				run := c16Clone(&result.Results{Traceroute: result.Traceroute{Runs: runs[k : k+1]}}).Traceroute.Runs[0]
				return &run, nil
			})
			q := url.Values{"target": {"dest.example.test"}, "traceroute-queries": {fmt.Sprint(len(runs))}, "e2e-queries": {"0"}, "reverse-dns": {fmt.Sprint(rdns)}}
			if skip != "" {
				q.Set("skip-private-hops", skip)
			}
			code, body := httpGet(q)
			if code != 200 {
				return nil, body, fmt.Sprintf("HTTP %d: %s", code, body)
			}
			var res result.Results
			if err := json.Unmarshal(body, &res); err != nil {
				return nil, body, "body is not a result document: " + err.Error()
			}
			res.Traceroute.Runs = c17SortRuns(res.Traceroute.Runs)
			return &res, body, ""
		}
		// half of the pairs are what a polling client does: the same request again a moment later, now with
		// the flag, with nothing reset in between (whatever the process keeps from the first request is there)
		off, _, e1 := do(hx.Pick(rng, []string{"", "false", "0"}), true)
		on, body, e2 := do(flag, i%2 == 0)
		rep.Hit(fmt.Sprintf("http:second-request-fresh=%v", i%2 == 0))
		rj := map[string]any{"scripted_runs": c17RunsJSON(runs), "reverse_dns": rdns, "query": "skip-private-hops=" + flag, "body": string(body),
			"how": "server.NewServer().TracerouteHandler via httptest, runs stubbed with traceroute.VerifSetRunOnce, resolver c17ResolverNames"}
		rep.Case("http", string(body), true, nil)
		rep.Hit("http:flag=" + flag)
		bad := e1 + e2
		if bad == "" {
			bad = c17CheckRedactedGo(off.Traceroute.Runs, on.Traceroute.Runs)
		}
		if bad == "" { // on the JSON text itself: keys of redacted entries, and no trace of a private hop
			var generic map[string]any
			json.Unmarshal(body, &generic)
			tr, _ := generic["traceroute"].(map[string]any)
			jruns, _ := tr["runs"].([]any)
			for _, jr := range jruns {
				jhops, _ := jr.(map[string]any)["hops"].([]any)
				for _, jh := range jhops {
					h := jh.(map[string]any)
					ipText, _ := h["ip_address"].(string)
					if ipText == "" {
						_, hasNames := h["reverse_dns"]
						if h["rtt"] != 0.0 || h["reachable"] != false || hasNames {
							bad = fmt.Sprintf("entry without address carries derived data: %v", h)
						}
					} else if ip := net.ParseIP(ipText); ip == nil || c17PrivateText(ip) || c17PrivateText(ip.To4()) {
						bad = "hop entry with private or unparsable address " + ipText
					}
				}
			}
			// the destination entry of a run is not a hop entry: a private TARGET legitimately shows its
			// address and names there, so those strings are not evidence of a leaked hop
			allowed := map[string]bool{}
			for _, run := range runs {
				ds := run.Destination.IPAddress.String()
				allowed[`"`+ds+`"`] = true
				dn, _ := c17ResolverNames(ds)
				for _, n := range dn {
					allowed[n] = true
				}
			}
			for _, run := range runs {
				for _, h := range run.Hops {
					if !c17PrivateText(h.IPAddress) {
						continue
					}
					s := h.IPAddress.String()
					names, _ := c17ResolverNames(s)
					for _, needle := range append([]string{`"` + s + `"`}, names...) {
						if allowed[needle] {
							continue
						}
						if strings.Contains(string(body), needle) {
							bad = "the body contains " + needle + " of a private hop"
						}
					}
				}
			}
		}
		if bad != "" {
			rep.Violate(hx.Violation{Kind: "spec", What: bad, Sig: map[string]string{"site": "redact", "path": "http"}, Replay: rj})
		}
	}

	// ---------------------------------------------------------------- (e) CLI flag wiring (source fact)
	if root := c17RepoRoot(); root != "" {
		if what, ok := c17CLIWired(root); !ok {
			rep.Violate(hx.Violation{Kind: "spec", What: "CLI flag --skip-private-hops does not reach TracerouteParams.SkipPrivateHops: " + what,
				Sig: map[string]string{"site": "redact", "path": "cli"}, Replay: map[string]any{"file": filepath.Join(root, "cmd", "root.go"), "how": "go/ast scan for the flag binding and the params literal"}})
		} else {
			rep.Hit("cli:flag-wired")
		}
	}
	if rep.Failed() {
		t.Fail()
	}
}
