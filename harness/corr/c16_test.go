package corr

// C16: the real result.Results.Normalize() on generated documents, compared with the Lean model
// over exact rationals (TRV.Result.normalize, op res.norm) and with the executable spec predicate
// TRV.ResSpec.Consistent evaluated on the exact rationals of the implementation's own output floats
// (op res.spec.consistent). Identifiers, JSON round trip and the published key set are checked here.

import (
	_ "embed"
	"encoding"
	"encoding/base64"
	"encoding/hex"
	"encoding/json"
	"fmt"
	"math"
	"math/big"
	"net"
	"reflect"
	"strings"
	"testing"

	"github.com/DataDog/datadog-traceroute/result"

	"verifharness/hx"
)

//go:embed json_tags_golden.txt
var c16GoldenTags string

// ---- exact rationals ----

func c16Rat(f float64) (*big.Rat, bool) {
	if math.IsNaN(f) || math.IsInf(f, 0) {
		return nil, false
	}
	return new(big.Rat).SetFloat64(f), true
}

func c16RatTok(f float64) string {
	r, ok := c16Rat(f)
	if !ok {
		return "nan"
	}
	return r.String()
}

func c16ParseRat(s string) *big.Rat {
	r, ok := new(big.Rat).SetString(s)
	if !ok {
		return nil
	}
	return r
}

// c16Within reports |got-want| <= rel*|want| + abs.
func c16Within(got, want, rel, abs *big.Rat) bool {
	d := new(big.Rat).Sub(got, want)
	d.Abs(d)
	lim := new(big.Rat).Abs(want)
	lim.Mul(lim, rel)
	lim.Add(lim, abs)
	return d.Cmp(lim) <= 0
}

func c16Pow2(e int) *big.Rat {
	if e >= 0 {
		return new(big.Rat).SetInt(new(big.Int).Lsh(big.NewInt(1), uint(e)))
	}
	return new(big.Rat).SetFrac(big.NewInt(1), new(big.Int).Lsh(big.NewInt(1), uint(-e)))
}

// envelope for a float64 result of n accumulated operations: (n+2)·2⁻⁵² relative, one subnormal absolute
func c16Env64(n int) (rel, abs *big.Rat) {
	rel = new(big.Rat).Mul(big.NewRat(int64(n+2), 1), c16Pow2(-52))
	return rel, c16Pow2(-1074)
}

// ---- tokens (grammar of lean/TRV/Oracle/Result.lean) ----

func c16IPTok(ip net.IP) string {
	if len(ip) == 0 {
		return "-"
	}
	return hex.EncodeToString(ip)
}

func c16NamesTok(ns []string) string {
	if len(ns) == 0 {
		return "-"
	}
	out := make([]string, len(ns))
	for i, n := range ns {
		if n == "" {
			out[i] = "00" // never generated; keeps the token non-empty
		} else {
			out[i] = hex.EncodeToString([]byte(n))
		}
	}
	return strings.Join(out, ",")
}

func c16HopTok(h *result.TracerouteHop) string {
	return fmt.Sprintf("%d:%s:%s:%s:%s:%s:%d:%d:%d", h.TTL, c16IPTok(h.IPAddress), c16RatTok(h.RTT),
		b2s(h.Reachable), b2s(h.IsDest), c16NamesTok(h.ReverseDns), h.Port, h.ICMPType, h.ICMPCode)
}

func c16RunsTok(runs []result.TracerouteRun) string {
	var sb strings.Builder
	fmt.Fprintf(&sb, "%d", len(runs))
	for _, r := range runs {
		fmt.Fprintf(&sb, " %s %s %d", c16IPTok(r.Destination.IPAddress), c16NamesTok(r.Destination.ReverseDns), len(r.Hops))
		for _, h := range r.Hops {
			sb.WriteByte(' ')
			sb.WriteString(c16HopTok(h))
		}
	}
	return sb.String()
}

func c16DocTok(r *result.Results) string {
	var sb strings.Builder
	e := r.E2eProbe
	fmt.Fprintf(&sb, "%s %d %d %d %d %s %s %s %s %s %d", c16RatTok(r.Traceroute.HopCount.Avg), r.Traceroute.HopCount.Min,
		r.Traceroute.HopCount.Max, e.PacketsSent, e.PacketsReceived, c16RatTok(float64(e.PacketLossPercentage)),
		c16RatTok(e.Jitter), c16RatTok(e.RTT.Avg), c16RatTok(e.RTT.Min), c16RatTok(e.RTT.Max), len(e.RTTs))
	for _, s := range e.RTTs {
		sb.WriteByte(' ')
		sb.WriteString(c16RatTok(s))
	}
	sb.WriteByte(' ')
	sb.WriteString(c16RunsTok(r.Traceroute.Runs))
	return sb.String()
}

func c16HasNonFinite(r *result.Results) bool {
	fs := []float64{r.Traceroute.HopCount.Avg, float64(r.E2eProbe.PacketLossPercentage), r.E2eProbe.Jitter,
		r.E2eProbe.RTT.Avg, r.E2eProbe.RTT.Min, r.E2eProbe.RTT.Max}
	for _, f := range fs {
		if math.IsNaN(f) || math.IsInf(f, 0) {
			return true
		}
	}
	return false
}

// ---- deep copy ----

func c16CloneHop(h *result.TracerouteHop) *result.TracerouteHop {
	if h == nil {
		return nil
	}
	c := *h
	if h.IPAddress != nil {
		c.IPAddress = append(net.IP{}, h.IPAddress...)
	}
	if h.ReverseDns != nil {
		c.ReverseDns = append([]string{}, h.ReverseDns...)
	}
	return &c
}

func c16Clone(r *result.Results) *result.Results {
	c := *r
	if r.E2eProbe.RTTs != nil {
		c.E2eProbe.RTTs = append([]float64{}, r.E2eProbe.RTTs...)
	}
	if r.Traceroute.Runs != nil {
		c.Traceroute.Runs = make([]result.TracerouteRun, len(r.Traceroute.Runs))
		for i, run := range r.Traceroute.Runs {
			cr := run
			if run.Hops != nil {
				cr.Hops = make([]*result.TracerouteHop, len(run.Hops))
				for j, h := range run.Hops {
					cr.Hops[j] = c16CloneHop(h)
				}
			}
			if run.Destination.ReverseDns != nil {
				cr.Destination.ReverseDns = append([]string{}, run.Destination.ReverseDns...)
			}
			c.Traceroute.Runs[i] = cr
		}
	}
	return &c
}

// ---- generators ----

var c16AddrKinds = []string{"nil", "empty", "v4", "v6", "mapped", "odd"}

func c16GenAddr(r *hx.RNG, kind string) net.IP {
	switch kind {
	case "nil":
		return nil
	case "empty":
		return net.IP{}
	case "v4":
		b := r.Bytes(4)
		if r.Chance(1, 3) {
			b[0] = hx.Pick(r, []byte{10, 172, 192, 0})
		}
		return net.IP(b)
	case "v6":
		b := r.Bytes(16)
		if r.Chance(1, 4) {
			b[0] = hx.Pick(r, []byte{0xfc, 0xfd, 0x20, 0})
		}
		return net.IP(b)
	case "mapped":
		b := make([]byte, 16)
		b[10], b[11] = 0xff, 0xff
		copy(b[12:], r.Bytes(4))
		return net.IP(b)
	default:
		return net.IP(r.Bytes(hx.Pick(r, []int{1, 2, 3, 5, 8, 12, 15, 17, 32})))
	}
}

var c16SampleKinds = []string{"none", "allzero", "single", "huge", "tiny", "equal", "decimal", "mixed", "negative", "wide"}

func c16GenSamples(r *hx.RNG, kind string) []float64 {
	n := r.Range(1, 12)
	if r.Chance(1, 6) {
		n = r.Range(13, 60)
	}
	dec := []float64{0.1, 0.2, 0.3, 0.7, 1.1, 2.675, 0.05, 33.33, 1e-3, 19.99}
	var s []float64
	switch kind {
	case "none":
		if r.Bool() {
			return nil
		}
		return []float64{}
	case "allzero":
		for i := 0; i < n; i++ {
			s = append(s, 0)
		}
	case "single":
		s = []float64{hx.Pick(r, dec)}
		if r.Bool() {
			s[0] = float64(r.Range(1, 900000)) / 1000
		}
	case "huge":
		for i := 0; i < n; i++ {
			s = append(s, float64(r.Range(1, 9999))*math.Pow(10, float64(r.Range(280, 296))))
		}
	case "tiny":
		for i := 0; i < n; i++ {
			s = append(s, hx.Pick(r, []float64{5e-324, 1e-323, 2.5e-310, 1e-308, 2.2250738585072014e-308, 3e-300}))
		}
	case "equal":
		v := hx.Pick(r, dec)
		for i := 0; i < n; i++ {
			s = append(s, v)
		}
	case "decimal":
		for i := 0; i < n; i++ {
			s = append(s, hx.Pick(r, dec))
		}
	case "negative":
		for i := 0; i < n; i++ {
			s = append(s, float64(r.Range(-5000, 5000))/100)
		}
	case "wide": // any magnitude from subnormal to 2^990, full 53-bit mantissas
		for i := 0; i < n; i++ {
			s = append(s, math.Ldexp(float64(r.U64()>>11)/(1<<53), r.Range(-1080, 990)))
		}
	default: // mixed: realistic milliseconds with losses
		for i := 0; i < n; i++ {
			if r.Chance(1, 4) {
				s = append(s, 0)
			} else {
				s = append(s, float64(r.Range(1, 400_000_000))/1e6)
			}
		}
	}
	return s
}

type c16Case struct {
	Stream  string // fresh | stale | zerohop
	Samples string
	Doc     *result.Results // input
}

func c16GenDoc(r *hx.RNG, stream string) c16Case {
	d := &result.Results{Protocol: hx.Pick(r, []string{"udp", "tcp", "icmp"}),
		Destination: result.Destination{Hostname: "example.test", Port: r.Range(0, 65535)},
		Source:      result.Source{PublicIP: hx.Pick(r, []string{"", "203.0.113.9"})}}
	nRuns := r.Range(0, 4)
	if r.Chance(1, 10) {
		nRuns = 0
	}
	// "0..k runs": now and then a document with hundreds of runs (a long-lived collector merging
	// requests) — around the 8-bit boundaries of a run index
	manyRuns := stream == "fresh" && r.Chance(1, 250)
	if manyRuns {
		nRuns = hx.Pick(r, []int{255, 256, 257, 300, 513})
	}
	if stream == "zerohop" && nRuns == 0 {
		nRuns = r.Range(1, 4)
	}
	zeroAt := -1
	if stream == "zerohop" {
		zeroAt = r.Intn(nRuns)
	}
	for i := 0; i < nRuns; i++ {
		run := result.TracerouteRun{
			Source:      result.TracerouteSource{IPAddress: net.IP{192, 0, 2, 2}, Port: uint16(r.Range(1024, 65535))},
			Destination: result.TracerouteDestination{IPAddress: c16GenAddr(r, hx.Pick(r, []string{"v4", "v6", "mapped"})), Port: uint16(r.Range(1, 65535))},
		}
		if r.Chance(1, 4) {
			run.Destination.ReverseDns = []string{"dest.example.test."}
		}
		nh := r.Range(1, 8)
		if r.Chance(1, 12) {
			nh = r.Range(9, 40)
		}
		if manyRuns {
			nh = r.Range(1, 2)
		}
		if i == zeroAt || (stream == "zerohop" && r.Chance(1, 3)) {
			nh = 0
		}
		trailingEmpty := r.Intn(4) // runs that end with unanswered hops
		// first probed TTL: ToHops stamps hop j with MinTTL + j, and library callers (and the
		// end-to-end probes, MinTTL == MaxTTL) start above 1 — the hop's TTL is then not its index + 1
		firstTTL := 1
		if r.Chance(1, 3) {
			firstTTL = r.Range(2, 60)
		} else if r.Chance(1, 10) {
			firstTTL = 0 // hops whose TTL was never stamped
		}
		oddRun := r.Chance(1, 8) // byte strings that are not addresses (never produced by ToHops)
		allEmpty := r.Chance(1, 10)
		for j := 0; j < nh; j++ {
			kind := hx.Pick(r, c16AddrKinds[:5])
			if oddRun && r.Chance(1, 3) {
				kind = "odd"
			}
			if allEmpty || j >= nh-trailingEmpty && r.Chance(2, 3) {
				kind = hx.Pick(r, []string{"nil", "empty"})
			}
			h := &result.TracerouteHop{TTL: firstTTL + j, IPAddress: c16GenAddr(r, kind)}
			if firstTTL == 0 {
				h.TTL = 0
			}
			if len(h.IPAddress) > 0 {
				h.RTT = float64(r.Range(1, 300_000_000)) / 1e6
				h.IsDest = j == nh-1 && r.Bool()
				if r.Chance(1, 5) {
					h.ReverseDns = []string{fmt.Sprintf("h%d.example.test.", r.Intn(50))}
				}
			}
			if stream == "stale" {
				h.Reachable = r.Chance(1, 3)
			}
			run.Hops = append(run.Hops, h)
		}
		if nh == 0 && r.Bool() {
			run.Hops = []*result.TracerouteHop{}
		}
		d.Traceroute.Runs = append(d.Traceroute.Runs, run)
	}
	kind := hx.Pick(r, c16SampleKinds)
	d.E2eProbe.RTTs = c16GenSamples(r, kind)
	if stream == "stale" {
		// leftovers of an earlier Normalize: the passes that return early must leave them alone
		d.TestRunID = "stale-id"
		d.Traceroute.HopCount = result.HopCountStats{Avg: float64(r.Range(0, 90)) / 4, Min: r.Range(0, 9), Max: r.Range(0, 30)}
		d.E2eProbe.PacketsSent = r.Range(0, 9)
		d.E2eProbe.PacketsReceived = r.Range(0, 9)
		d.E2eProbe.PacketLossPercentage = float32(r.Range(0, 8)) / 8
		d.E2eProbe.Jitter = float64(r.Range(0, 80)) / 8
		d.E2eProbe.RTT = result.E2eProbeRTT{Avg: float64(r.Range(0, 800)) / 8, Min: float64(r.Range(0, 80)) / 8, Max: float64(r.Range(0, 8000)) / 8}
	}
	return c16Case{Stream: stream, Samples: kind, Doc: d}
}

// ---- JSON ----

var c16TextMarshaler = reflect.TypeOf((*encoding.TextMarshaler)(nil)).Elem()

// c16ReflectTags lists the JSON key paths of a type by reflection over its struct tags.
func c16ReflectTags(t reflect.Type, prefix string, out *[]string) {
	for t.Kind() == reflect.Pointer {
		t = t.Elem()
	}
	if t.Implements(c16TextMarshaler) || reflect.PointerTo(t).Implements(c16TextMarshaler) {
		return
	}
	switch t.Kind() {
	case reflect.Slice, reflect.Array:
		et := t.Elem()
		for et.Kind() == reflect.Pointer {
			et = et.Elem()
		}
		if et.Kind() == reflect.Struct {
			c16ReflectTags(et, prefix+"[]", out)
		}
	case reflect.Struct:
		for i := 0; i < t.NumField(); i++ {
			f := t.Field(i)
			tag := f.Tag.Get("json")
			if tag == "-" || !f.IsExported() {
				continue
			}
			name, opts, _ := strings.Cut(tag, ",")
			if name == "" {
				name = f.Name
			}
			p := name
			if prefix != "" {
				p = prefix + "." + name
			}
			line := p
			if opts != "" {
				line += " " + opts
			}
			*out = append(*out, line)
			c16ReflectTags(f.Type, p, out)
		}
	}
}

func c16JSONKeys(v any, prefix string, out map[string]bool) {
	switch x := v.(type) {
	case map[string]any:
		for k, e := range x {
			p := k
			if prefix != "" {
				p = prefix + "." + k
			}
			out[p] = true
			c16JSONKeys(e, p, out)
		}
	case []any:
		for _, e := range x {
			c16JSONKeys(e, prefix+"[]", out)
		}
	}
}

// c16Canon maps a document to the value its JSON form denotes: addresses in 16-byte form (nil when
// empty), empty name lists as nil, unpublished (json:"-") fields zeroed.
func c16Canon(r *result.Results) *result.Results {
	c := c16Clone(r)
	ip := func(a net.IP) net.IP {
		if len(a) == 0 {
			return nil
		}
		return a.To16()
	}
	for i := range c.Traceroute.Runs {
		run := &c.Traceroute.Runs[i]
		run.Source.IPAddress = ip(run.Source.IPAddress)
		run.Destination.IPAddress = ip(run.Destination.IPAddress)
		if len(run.Destination.ReverseDns) == 0 {
			run.Destination.ReverseDns = nil
		}
		if len(run.Hops) == 0 {
			run.Hops = nil
		}
		for _, h := range run.Hops {
			h.IPAddress = ip(h.IPAddress)
			if len(h.ReverseDns) == 0 {
				h.ReverseDns = nil
			}
			h.IsDest, h.Port, h.ICMPType, h.ICMPCode = false, 0, 0, 0
		}
	}
	if len(c.Traceroute.Runs) == 0 {
		c.Traceroute.Runs = nil
	}
	if len(c.E2eProbe.RTTs) == 0 {
		c.E2eProbe.RTTs = nil
	}
	return c
}

func c16AllAddrLensValid(r *result.Results) bool {
	ok := func(a net.IP) bool { return len(a) == 0 || len(a) == 4 || len(a) == 16 }
	for _, run := range r.Traceroute.Runs {
		if !ok(run.Source.IPAddress) || !ok(run.Destination.IPAddress) {
			return false
		}
		for _, h := range run.Hops {
			if !ok(h.IPAddress) {
				return false
			}
		}
	}
	return true
}

func c16ReplayDoc(c c16Case) map[string]any {
	type hop struct {
		TTL       int
		IP        string
		RTT       float64
		Reachable bool
		IsDest    bool
		Names     []string
	}
	var runs [][]hop
	for _, run := range c.Doc.Traceroute.Runs {
		hs := []hop{}
		for _, h := range run.Hops {
			hs = append(hs, hop{h.TTL, hex.EncodeToString(h.IPAddress), h.RTT, h.Reachable, h.IsDest, h.ReverseDns})
		}
		runs = append(runs, hs)
	}
	bits := make([]string, len(c.Doc.E2eProbe.RTTs))
	for i, s := range c.Doc.E2eProbe.RTTs {
		bits[i] = fmt.Sprintf("%v(0x%016x)", s, math.Float64bits(s))
	}
	return map[string]any{"stream": c.Stream, "sample_kind": c.Samples, "runs_hops_hex_ip": runs, "e2e_rtts": bits,
		"prior_hop_count": c.Doc.Traceroute.HopCount, "prior_e2e": map[string]any{"sent": c.Doc.E2eProbe.PacketsSent,
			"received": c.Doc.E2eProbe.PacketsReceived, "loss": c.Doc.E2eProbe.PacketLossPercentage, "jitter": c.Doc.E2eProbe.Jitter, "rtt": c.Doc.E2eProbe.RTT},
		"how": "build result.Results with these runs/samples, call Normalize()", "oracle_line": "res.norm " + c16DocTok(c.Doc)}
}

func TestC16(t *testing.T) {
	env := hx.GetEnv()
	rep := hx.NewReport("C16", env, "generated result documents through the real Results.Normalize(); non-trivial = at least one run "+
		"with an addressed hop or at least one positive sample; distinct by the whole input document (oracle line)")
	defer rep.Write()
	rng := hx.NewRNG(env.Seed ^ 0xC16)
	orc := hx.NewOracle()

	// ---- published key set: reflection over the built types against the golden list ----
	var tags []string
	c16ReflectTags(reflect.TypeOf(result.Results{}), "", &tags)
	golden := []string{}
	goldenKeys := map[string]bool{}
	for _, l := range strings.Split(c16GoldenTags, "\n") {
		l = strings.TrimSpace(l)
		if l == "" || strings.HasPrefix(l, "#") {
			continue
		}
		golden = append(golden, l)
		goldenKeys[strings.Fields(l)[0]] = true
	}
	if !reflect.DeepEqual(tags, golden) {
		rep.Violate(hx.Violation{Kind: "spec", What: "JSON field names of result.Results differ from the published list (json_tags_golden.txt)",
			Sig:    map[string]string{"site": "json-tags", "class": "gross"},
			Replay: map[string]any{"reflected": tags, "published": golden, "how": "reflect over result.Results struct tags"}})
	}
	rep.Hit(fmt.Sprintf("json:tags-reflected=%d", len(tags)))

	// ---- documents ----
	var cases []c16Case
	// fixed documents first: F8 witness, the Go test's document, the boundary shapes
	fixed := [][]float64{{0.1, 0.1, 0.1}, {20, 30, 40, 0, 30}, {0, 0, 0}, {5}, {0.1, 0.3}, {0.3, 0.1, 0.2}, {}, {1e300, 1e300, 1e-300}, {5e-324, 5e-324, 5e-324}}
	for _, s := range fixed {
		d := &result.Results{E2eProbe: result.E2eProbe{RTTs: s}}
		d.Traceroute.Runs = []result.TracerouteRun{{Hops: []*result.TracerouteHop{{TTL: 1, IPAddress: net.IP{10, 10, 10, 10}, RTT: 10}, {TTL: 2}, {TTL: 3, IPAddress: net.ParseIP("2001:db8::1"), RTT: 30, IsDest: true}}},
			{Hops: []*result.TracerouteHop{{TTL: 1}, {TTL: 2, IPAddress: net.ParseIP("10.0.0.1")}, {TTL: 3}, {TTL: 4}}}}
		cases = append(cases, c16Case{Stream: "fresh", Samples: "fixed", Doc: d})
	}
	cases = append(cases, c16Case{Stream: "zerohop", Samples: "fixed", Doc: &result.Results{Traceroute: result.Traceroute{Runs: []result.TracerouteRun{
		{Hops: nil}, {Hops: []*result.TracerouteHop{{TTL: 1, IPAddress: net.IP{1, 1, 1, 1}}}}}}}})
	cases = append(cases, c16Case{Stream: "stale", Samples: "fixed", Doc: &result.Results{Traceroute: result.Traceroute{Runs: []result.TracerouteRun{
		{Hops: []*result.TracerouteHop{{TTL: 1, Reachable: true}}}}}}})
	n := env.Scale(6000, 150000)
	for i := 0; i < n; i++ {
		stream := "fresh"
		switch {
		case i%10 == 8:
			stream = "stale"
		case i%10 == 9:
			stream = "zerohop"
		}
		cases = append(cases, c16GenDoc(rng, stream))
	}

	type outcome struct {
		out       *result.Results
		normLine  string
		specLine  string
		nonFinite bool
	}
	outs := make([]outcome, len(cases))
	lines := make([]string, 0, 2*len(cases))
	seenIDs := map[string]bool{}
	seenKeys := map[string]bool{}
	for i, c := range cases {
		out := c16Clone(c.Doc)
		out.Normalize()
		o := outcome{out: out, normLine: "res.norm " + c16DocTok(c.Doc)}
		o.nonFinite = c16HasNonFinite(out)
		if !o.nonFinite {
			o.specLine = "res.spec.consistent " + c16DocTok(out)
		} else {
			o.specLine = "res.isprivate -" // placeholder keeps the batch aligned
		}
		outs[i] = o
		lines = append(lines, o.normLine, o.specLine)

		// identifiers: set, 16 bytes of base64url, pairwise distinct (also across documents)
		ids := []string{out.TestRunID}
		for _, run := range out.Traceroute.Runs {
			ids = append(ids, run.RunID)
		}
		for k, id := range ids {
			raw, err := base64.RawURLEncoding.DecodeString(id)
			bad := ""
			switch {
			case err != nil || len(raw) != 16:
				bad = fmt.Sprintf("identifier %d (%q) is not the base64url form of 16 bytes", k, id)
			case seenIDs[id]:
				bad = fmt.Sprintf("identifier %d (%q) was already used", k, id)
			case k > 0 && id == c.Doc.Traceroute.Runs[k-1].RunID, k == 0 && id == c.Doc.TestRunID:
				bad = fmt.Sprintf("identifier %d (%q) was not refreshed by Normalize", k, id)
			}
			if bad != "" {
				rep.Violate(hx.Violation{Kind: "spec", What: bad, Sig: map[string]string{"site": "ids", "class": "gross"}, Replay: c16ReplayDoc(c)})
			}
			seenIDs[id] = true
		}
		rep.Hit(fmt.Sprintf("ids:per-doc=%d", len(ids)))

		// JSON round trip (addresses of a valid length only: MarshalText rejects the others)
		b, err := json.Marshal(out)
		if !c16AllAddrLensValid(out) {
			if err == nil {
				rep.Violate(hx.Violation{Kind: "correspondence", NoInput: true, What: "json.Marshal accepted an address of invalid length (harness expectation about net.IP.MarshalText is wrong)",
					Sig: map[string]string{"site": "json", "stream": "json-odd"}, Replay: c16ReplayDoc(c)})
			}
			rep.Hit("json:odd-length-address-marshal-error")
		} else {
			var back result.Results
			var generic any
			switch {
			case err != nil:
				rep.Violate(hx.Violation{Kind: "spec", What: "json.Marshal failed: " + err.Error(), Sig: map[string]string{"site": "json", "class": "gross"}, Replay: c16ReplayDoc(c)})
			case json.Unmarshal(b, &back) != nil || json.Unmarshal(b, &generic) != nil:
				rep.Violate(hx.Violation{Kind: "spec", What: "the document's own JSON does not decode", Sig: map[string]string{"site": "json", "class": "gross"}, Replay: c16ReplayDoc(c)})
			default:
				if !reflect.DeepEqual(c16Canon(out), c16Canon(&back)) {
					rj := c16ReplayDoc(c)
					rj["json"] = string(b)
					rep.Violate(hx.Violation{Kind: "spec", What: "JSON round trip changed a published value", Sig: map[string]string{"site": "json", "class": "gross"}, Replay: rj})
				}
				keys := map[string]bool{}
				c16JSONKeys(generic, "", keys)
				for k := range keys {
					seenKeys[k] = true
					if !goldenKeys[k] {
						rj := c16ReplayDoc(c)
						rj["json"] = string(b)
						rep.Violate(hx.Violation{Kind: "spec", What: "JSON output contains unpublished key " + k, Sig: map[string]string{"site": "json-tags", "class": "gross"}, Replay: rj})
					}
				}
				rep.Hit("json:roundtrip")
			}
		}
	}
	for k := range goldenKeys {
		if !seenKeys[k] {
			rep.Violate(hx.Violation{Kind: "spec", What: "published key never appeared in any generated document's JSON: " + k,
				Sig: map[string]string{"site": "json-tags", "class": "gross"}, Replay: map[string]any{"key": k, "how": "json.Marshal of normalised documents"}})
		}
	}

	answers, err := orc.Batch(lines)
	if err != nil {
		t.Fatalf("oracle: %v", err)
	}

	for i, c := range cases {
		o := outs[i]
		out := o.out
		model, specAns := answers[2*i], answers[2*i+1]
		nS := len(c.Doc.E2eProbe.RTTs)
		nPos := 0
		for _, s := range c.Doc.E2eProbe.RTTs {
			if s > 0 {
				nPos++
			}
		}
		addressed := false
		for _, run := range c.Doc.Traceroute.Runs {
			for _, h := range run.Hops {
				if len(h.IPAddress) > 0 {
					addressed = true
				}
				switch l := len(h.IPAddress); {
				case l == 0:
					rep.Hit("addr:empty")
				case l == 4:
					rep.Hit("addr:4")
				case l == 16 && h.IPAddress.To4() != nil:
					rep.Hit("addr:mapped")
				case l == 16:
					rep.Hit("addr:16")
				default:
					rep.Hit("addr:odd-length")
				}
			}
		}
		rep.Hit("stream:" + c.Stream)
		rep.Hit("samples:" + c.Samples)
		rep.Hit(fmt.Sprintf("runs:%d", len(c.Doc.Traceroute.Runs)))
		rep.Case(c.Stream, o.normLine, addressed || nPos > 0, c16ReplayDoc(c))

		if o.nonFinite {
			rep.Violate(hx.Violation{Kind: "spec", What: "a statistic is NaN or infinite", Sig: map[string]string{"site": "non-finite", "class": "gross"}, Replay: c16ReplayDoc(c)})
			continue
		}

		// ---- spec on the implementation's own output (fresh documents, every run has a hop) ----
		specFailed := false
		if c.Stream == "fresh" {
			if specAns == "bad-op" {
				t.Fatalf("oracle rejected spec line: %s", o.specLine)
			}
			if specAns != "ok" {
				e := out.E2eProbe
				avg, _ := c16Rat(e.RTT.Avg)
				mn, _ := c16Rat(e.RTT.Min)
				mx, _ := c16Rat(e.RTT.Max)
				jit, _ := c16Rat(e.Jitter)
				rel, abs := c16Env64(nPos)
				for _, clause := range strings.Split(specAns, ",") {
					site, class, what := clause, "gross", "Consistent clause "+clause+" is false on the normalised document"
					switch clause {
					case "loss":
						// float32 cannot hold (sent-received)/sent exactly: require the nearest float32
						want := big.NewRat(int64(e.PacketsSent-e.PacketsReceived), int64(max(e.PacketsSent, 1)))
						got, _ := c16Rat(float64(e.PacketLossPercentage))
						if e.PacketsSent > 0 && c16Within(got, want, c16Pow2(-24), new(big.Rat)) {
							rep.Hit("spec:loss-float32-rounded")
							continue
						}
						site = "loss"
					case "e2e-avg-le-max":
						site = "e2e-avg"
						if c16Within(avg, mx, rel, abs) {
							class = "ulp"
						}
						what = fmt.Sprintf("e2e RTT avg %v > max %v", e.RTT.Avg, e.RTT.Max)
					case "e2e-min-le-avg":
						site = "e2e-avg"
						if c16Within(avg, mn, rel, abs) {
							class = "ulp"
						}
						what = fmt.Sprintf("e2e RTT avg %v < min %v", e.RTT.Avg, e.RTT.Min)
					case "jitter-le-range":
						site = "e2e-jitter"
						span := new(big.Rat).Sub(mx, mn)
						if c16Within(jit, span, rel, abs) {
							class = "ulp"
						}
						what = fmt.Sprintf("jitter %v > max-min = %v-%v", e.Jitter, e.RTT.Max, e.RTT.Min)
					}
					rep.Hit("spec-fail:" + site + "/" + class)
					specFailed = specFailed || class != "ulp"
					rj := c16ReplayDoc(c)
					rj["impl_output"] = map[string]any{"hop_count": out.Traceroute.HopCount, "e2e": map[string]any{"sent": e.PacketsSent, "received": e.PacketsReceived,
						"loss": e.PacketLossPercentage, "jitter": e.Jitter, "rtt": e.RTT}}
					rj["failing_clauses"] = specAns
					rep.Violate(hx.Violation{Kind: "spec", What: what, Sig: map[string]string{"site": site, "class": class}, Replay: rj})
				}
			}
		} else if specAns != "ok" {
			rep.Hit("outside-quantifier-spec-false:" + c.Stream)
		}
		if specFailed {
			continue
		}

		// ---- correspondence with the exact model ----
		f := strings.Fields(model)
		diff := ""
		if len(f) < 13 || f[0] != "hc" || f[4] != "e2e" || f[12] != "reach" {
			t.Fatalf("oracle answer %q for %s", model, o.normLine)
		}
		relHC, absHC := c16Env64(len(c.Doc.Traceroute.Runs))
		relS, absS := c16Env64(nS)
		cmpF := func(name string, got float64, want string, rel, abs *big.Rat) {
			g, _ := c16Rat(got)
			w := c16ParseRat(want)
			if w == nil || !c16Within(g, w, rel, abs) {
				diff += fmt.Sprintf(" %s: impl %v (%s) model %s;", name, got, g.String(), want)
			}
		}
		cmpX := func(name string, got float64, want string) { // exact
			g, _ := c16Rat(got)
			w := c16ParseRat(want)
			if w == nil || g.Cmp(w) != 0 {
				diff += fmt.Sprintf(" %s: impl %v model %s;", name, got, want)
			}
		}
		cmpI := func(name string, got int, want string) {
			if fmt.Sprint(got) != want {
				diff += fmt.Sprintf(" %s: impl %d model %s;", name, got, want)
			}
		}
		cmpF("hop_count.avg", out.Traceroute.HopCount.Avg, f[1], relHC, absHC)
		cmpI("hop_count.min", out.Traceroute.HopCount.Min, f[2])
		cmpI("hop_count.max", out.Traceroute.HopCount.Max, f[3])
		cmpI("packets_sent", out.E2eProbe.PacketsSent, f[5])
		cmpI("packets_received", out.E2eProbe.PacketsReceived, f[6])
		cmpF("packet_loss", float64(out.E2eProbe.PacketLossPercentage), f[7], c16Pow2(-24), new(big.Rat))
		cmpF("jitter", out.E2eProbe.Jitter, f[8], relS, absS)
		cmpF("rtt.avg", out.E2eProbe.RTT.Avg, f[9], relS, absS)
		cmpX("rtt.min", out.E2eProbe.RTT.Min, f[10])
		cmpX("rtt.max", out.E2eProbe.RTT.Max, f[11])
		reach := f[13:]
		if len(reach) != len(out.Traceroute.Runs) {
			diff += " number of runs;"
		} else {
			for k, run := range out.Traceroute.Runs {
				var sb strings.Builder
				sb.WriteByte('r')
				for _, h := range run.Hops {
					sb.WriteString(b2s(h.Reachable))
				}
				if sb.String() != reach[k] {
					diff += fmt.Sprintf(" reachable(run %d): impl %s model %s;", k, sb.String(), reach[k])
				}
			}
		}
		// nothing else may change: samples, hop fields other than Reachable, run fields other than RunID
		chk := c16Clone(out)
		chk.TestRunID = c.Doc.TestRunID
		chk.Traceroute.HopCount = c.Doc.Traceroute.HopCount
		in := c16Clone(c.Doc)
		chk.E2eProbe, in.E2eProbe = result.E2eProbe{RTTs: chk.E2eProbe.RTTs}, result.E2eProbe{RTTs: in.E2eProbe.RTTs}
		for k := range chk.Traceroute.Runs {
			chk.Traceroute.Runs[k].RunID = in.Traceroute.Runs[k].RunID
			for j, h := range chk.Traceroute.Runs[k].Hops {
				h.Reachable = in.Traceroute.Runs[k].Hops[j].Reachable
			}
		}
		if !reflect.DeepEqual(chk, in) {
			diff += " Normalize changed a field the model does not touch;"
		}
		if diff != "" {
			rj := c16ReplayDoc(c)
			rj["model_result"] = model
			rj["differences"] = diff
			rj["broken"] = "correspondence stream result/" + c.Stream + " (Lean TRV.Result.normalize vs result.Results.Normalize)"
			rep.Violate(hx.Violation{Kind: "correspondence", NoInput: true,
				What: "Normalize model and implementation differ (" + c.Stream + ") beyond the rounding envelope; Consistent holds on the implementation output",
				Sig:  map[string]string{"site": "normalize", "stream": c.Stream}, Replay: rj})
		}
	}

	// ---- permutations of the sample order: the order-insensitive statistics of the real code ----
	nPerm := env.Scale(1500, 30000)
	for i := 0; i < nPerm; i++ {
		c := c16GenDoc(rng, "fresh")
		s := c.Doc.E2eProbe.RTTs
		if len(s) < 2 {
			continue
		}
		a := c16Clone(c.Doc)
		b := c16Clone(c.Doc)
		p := b.E2eProbe.RTTs
		for k := len(p) - 1; k > 0; k-- {
			j := rng.Intn(k + 1)
			p[k], p[j] = p[j], p[k]
		}
		a.Normalize()
		b.Normalize()
		ea, eb := a.E2eProbe, b.E2eProbe
		rep.Case("perm", fmt.Sprint(s, p), true, nil)
		bad := ""
		switch {
		case ea.PacketsSent != eb.PacketsSent, ea.PacketsReceived != eb.PacketsReceived, ea.PacketLossPercentage != eb.PacketLossPercentage:
			bad = "packet counts or loss depend on the sample order"
		case ea.RTT.Min != eb.RTT.Min, ea.RTT.Max != eb.RTT.Max:
			bad = "RTT min/max depend on the sample order"
		default:
			ra, ok1 := c16Rat(ea.RTT.Avg)
			rb, ok2 := c16Rat(eb.RTT.Avg)
			rel, abs := c16Env64(2 * len(s))
			if !ok1 || !ok2 || !c16Within(ra, rb, rel, abs) {
				bad = "RTT avg depends on the sample order beyond rounding"
			}
		}
		if bad != "" {
			rep.Violate(hx.Violation{Kind: "spec", What: bad, Sig: map[string]string{"site": "perm", "class": "gross"},
				Replay: map[string]any{"samples": s, "permuted": p, "a": ea, "b": eb, "how": "Normalize() on two documents whose RTTs are permutations of each other"}})
		}
	}
	c16PipelineStream(t, rep, orc, rng.Fork(), env.Scale(400, 6000))
	if rep.Failed() {
		t.Fail()
	}
}
