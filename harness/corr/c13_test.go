package corr

// C13: Linux kernel conformance (partial). Builds chains of network namespaces
// (client → r1 → … → rN → destination; veth links, ip_forward, static routes), runs the CLI built
// from the working tree — and, where the CLI does not expose a parameter (first TTL, send delay,
// the destination flag), the helper harness/cmd/c13run which calls the same RunTraceroute — INSIDE
// the client namespace, and compares every reported run with the Lean model's prediction for the
// same topology (oracle `net.trace`) and with the property predicate evaluated on the reported hops
// (oracle `net.ok`). All replies are produced by the kernel's own IP/ICMP/TCP stack.
//
// Environment: C13_REPO=<dir> builds the CLI and the helper from another checkout (mutation
// experiments on a scratch worktree); C13_RECAPTURE=1 rewrites corpus/C13/kernel_replies.txt.

import (
	"bytes"
	"encoding/hex"
	"encoding/json"
	"fmt"
	"net"
	"os"
	"os/exec"
	"path/filepath"
	"sort"
	"strconv"
	"strings"
	"sync"
	"testing"
	"time"

	"verifharness/hx"
)

const c13Port = 8080

// ---- topology ----------------------------------------------------------------------------------

type c13Topo struct {
	ID       int          `json:"id"`
	N        int          `json:"routers"`
	Silent   map[int]bool `json:"silent"` // 1-based router index
	Open     bool         `json:"port_open"`
	Sack     bool         `json:"tcp_sack"`
	ns       []string     // node 0 = client, 1..N routers, N+1 destination
	listener *exec.Cmd
}

func (tp *c13Topo) addr(link, side int) string {
	return fmt.Sprintf("10.%d.%d.%d", 100+tp.ID, link, side)
}
func (tp *c13Topo) routerAddr(k int) string { return tp.addr(k-1, 2) }
func (tp *c13Topo) destAddr() string        { return tp.addr(tp.N, 2) }
func (tp *c13Topo) clientAddr() string      { return tp.addr(0, 1) }
func (tp *c13Topo) client() string          { return tp.ns[0] }
func (tp *c13Topo) dest() string            { return tp.ns[tp.N+1] }

func (tp *c13Topo) describe() map[string]any {
	rs := []map[string]any{}
	for k := 1; k <= tp.N; k++ {
		rs = append(rs, map[string]any{"addr": tp.routerAddr(k), "silent": tp.Silent[k]})
	}
	return map[string]any{"routers": rs, "dest": tp.destAddr(), "port": c13Port, "port_open": tp.Open, "tcp_sack": tp.Sack,
		"client": tp.clientAddr(),
		"how":    "chain of network namespaces, veth links 10.x.k.0/24, ip_forward=1, rp_filter=0, icmp_ratelimit=0; silent router = `ip rule add iif lo to <client subnet> blackhole`; closed port = no listener; tcp_sack=0 via sysctl in the destination namespace"}
}

func c13IPHex(s string) string {
	if s == "" {
		return "-"
	}
	ip := net.ParseIP(s).To4()
	if ip == nil {
		return "bad"
	}
	return hex.EncodeToString(ip)
}

func c13B(b bool) string {
	if b {
		return "1"
	}
	return "0"
}

// oracle topology tokens: <dest> <open> <sack> <N> <router>…
func (tp *c13Topo) tokens() string {
	parts := []string{c13IPHex(tp.destAddr()), c13B(tp.Open), c13B(tp.Sack), strconv.Itoa(tp.N)}
	for k := 1; k <= tp.N; k++ {
		parts = append(parts, c13IPHex(tp.routerAddr(k))+":"+c13B(tp.Silent[k]))
	}
	return strings.Join(parts, " ")
}

func c13Sh(args ...string) (string, error) {
	cmd := exec.Command(args[0], args[1:]...)
	var out bytes.Buffer
	cmd.Stdout, cmd.Stderr = &out, &out
	err := cmd.Run()
	return out.String(), err
}

func c13NsPrefix() string { return fmt.Sprintf("c13-%d-", os.Getpid()) }

// c13CleanStale removes c13-* namespaces older than 10 minutes (left behind by a killed run).
func c13CleanStale() {
	out, err := c13Sh("ip", "netns", "list")
	if err != nil {
		return
	}
	for _, line := range strings.Split(out, "\n") {
		f := strings.Fields(line)
		if len(f) == 0 || !strings.HasPrefix(f[0], "c13-") || strings.HasPrefix(f[0], c13NsPrefix()) {
			continue
		}
		st, err := os.Stat("/run/netns/" + f[0])
		if err != nil || time.Since(st.ModTime()) < 10*time.Minute {
			continue
		}
		c13DeleteNs(f[0])
	}
}

func c13DeleteNs(name string) {
	if pids, err := c13Sh("ip", "netns", "pids", name); err == nil {
		for _, p := range strings.Fields(pids) {
			if pid, err := strconv.Atoi(p); err == nil {
				if pr, err := os.FindProcess(pid); err == nil {
					pr.Kill()
				}
			}
		}
	}
	c13Sh("ip", "netns", "del", name)
}

func (tp *c13Topo) destroy() {
	if tp.listener != nil && tp.listener.Process != nil {
		tp.listener.Process.Kill()
		tp.listener.Wait()
	}
	for _, ns := range tp.ns {
		c13DeleteNs(ns)
	}
	tp.ns = nil
}

// build creates the namespaces, links, addresses, routes and the destination's behaviour.
func (tp *c13Topo) build(helper string) error {
	run := func(args ...string) error {
		if out, err := c13Sh(args...); err != nil {
			return fmt.Errorf("%s: %v: %s", strings.Join(args, " "), err, strings.TrimSpace(out))
		}
		return nil
	}
	for i := 0; i <= tp.N+1; i++ {
		ns := fmt.Sprintf("%s%d-%d", c13NsPrefix(), tp.ID, i)
		if err := run("ip", "netns", "add", ns); err != nil {
			return err
		}
		tp.ns = append(tp.ns, ns)
		if err := run("ip", "-n", ns, "link", "set", "lo", "up"); err != nil {
			return err
		}
		if err := run("ip", "netns", "exec", ns, "sysctl", "-qw", "net.ipv4.ip_forward=1",
			"net.ipv4.conf.all.rp_filter=0", "net.ipv4.conf.default.rp_filter=0", "net.ipv4.icmp_ratelimit=0"); err != nil {
			return err
		}
	}
	for k := 0; k <= tp.N; k++ {
		a, b := tp.ns[k], tp.ns[k+1]
		if err := run("ip", "link", "add", "e1", "netns", a, "type", "veth", "peer", "name", "e0", "netns", b); err != nil {
			return err
		}
		for _, c := range [][]string{
			{"ip", "-n", a, "addr", "add", tp.addr(k, 1) + "/24", "dev", "e1"},
			{"ip", "-n", a, "link", "set", "e1", "up"},
			{"ip", "-n", b, "addr", "add", tp.addr(k, 2) + "/24", "dev", "e0"},
			{"ip", "-n", b, "link", "set", "e0", "up"},
			{"ip", "netns", "exec", a, "sysctl", "-qw", "net.ipv4.conf.e1.rp_filter=0"},
			{"ip", "netns", "exec", b, "sysctl", "-qw", "net.ipv4.conf.e0.rp_filter=0"},
		} {
			if err := run(c...); err != nil {
				return err
			}
		}
	}
	clientNet := tp.addr(0, 0) + "/24"
	if err := run("ip", "-n", tp.ns[0], "route", "add", "default", "via", tp.addr(0, 2)); err != nil {
		return err
	}
	for k := 1; k <= tp.N; k++ {
		if err := run("ip", "-n", tp.ns[k], "route", "add", "default", "via", tp.addr(k, 2)); err != nil {
			return err
		}
		if k >= 2 {
			if err := run("ip", "-n", tp.ns[k], "route", "add", clientNet, "via", tp.addr(k-1, 1)); err != nil {
				return err
			}
		}
		if tp.Silent[k] {
			// drops only what the router itself originates towards the client; forwarding is untouched
			if err := run("ip", "-n", tp.ns[k], "rule", "add", "iif", "lo", "to", clientNet, "blackhole"); err != nil {
				return err
			}
		}
	}
	if err := run("ip", "-n", tp.dest(), "route", "add", "default", "via", tp.addr(tp.N, 1)); err != nil {
		return err
	}
	if !tp.Sack {
		if err := run("ip", "netns", "exec", tp.dest(), "sysctl", "-qw", "net.ipv4.tcp_sack=0"); err != nil {
			return err
		}
	}
	if tp.Open {
		tp.listener = exec.Command("ip", "netns", "exec", tp.dest(), helper, "listen", fmt.Sprintf("0.0.0.0:%d", c13Port))
		if err := tp.listener.Start(); err != nil {
			return fmt.Errorf("listener: %v", err)
		}
	}
	// poll until the listener accepts (open port) / the path answers with a refusal (closed port); this
	// also resolves ARP on every link before the first probe
	target := fmt.Sprintf("%s:%d", tp.destAddr(), c13Port)
	deadline := time.Now().Add(5 * time.Second)
	for {
		out, err := c13Sh("ip", "netns", "exec", tp.client(), helper, "dial", target, "300")
		if tp.Open && err == nil {
			break
		}
		if !tp.Open && strings.Contains(out, "refused") {
			break
		}
		if time.Now().After(deadline) {
			return fmt.Errorf("destination %s not ready: %s", target, strings.TrimSpace(out))
		}
		time.Sleep(50 * time.Millisecond)
	}
	return nil
}

// ---- runs --------------------------------------------------------------------------------------

type c13Case struct {
	Scenario string `json:"scenario"`
	Via      string `json:"via"` // cli | helper
	Proto    string `json:"protocol"`
	Method   string `json:"tcp_method"`
	Min      int    `json:"min_ttl"`
	Max      int    `json:"max_ttl"`
	Queries  int    `json:"queries"`
	Paris    bool   `json:"paris"` // TCPSynParisTracerouteMode (library option, through the helper only)
	Capture  bool   `json:"-"`
	tp       *c13Topo
}

type c13ObsHop struct {
	TTL     int     `json:"ttl"`
	IP      string  `json:"ip"`
	Dest    bool    `json:"dest"`
	RTTMs   float64 `json:"rtt_ms"`
	Reach   bool    `json:"reachable"`
	HasDest bool    `json:"-"`
}

type c13Obs struct {
	Failed       bool          `json:"failed"`        // the CLI exited non-zero / the helper reported an error
	NotSupported *bool         `json:"not_supported"` // helper only: errors.As(*sack.NotSupportedError)
	ErrText      string        `json:"error_text"`
	Runs         [][]c13ObsHop `json:"runs"`
	Captured     []string      `json:"-"`
	WallMs       int64         `json:"wall_ms"`
}

const c13TimeoutMs = 600

func (c c13Case) variant() string {
	if c.Proto == "tcp" && c.Paris {
		return "tcp-" + c.Method + "-paris"
	}
	if c.Proto == "tcp" {
		return "tcp-" + c.Method
	}
	return c.Proto
}

func c13RunCLI(cli string, c c13Case) c13Obs {
	args := []string{"netns", "exec", c.tp.client(), cli, "-P", c.Proto, "-p", strconv.Itoa(c13Port),
		"-q", strconv.Itoa(c.Queries), "-Q", "0", "-m", strconv.Itoa(c.Max), "--timeout", strconv.Itoa(c13TimeoutMs)}
	if c.Proto == "tcp" {
		args = append(args, "--tcp-method", c.Method)
	}
	args = append(args, c.tp.destAddr())
	cmd := exec.Command("ip", args...)
	var stdout, stderr bytes.Buffer
	cmd.Stdout, cmd.Stderr = &stdout, &stderr
	t0 := time.Now()
	err := cmd.Run()
	obs := c13Obs{WallMs: time.Since(t0).Milliseconds()}
	if err != nil {
		obs.Failed = true
		obs.ErrText = c13Trunc(stderr.String())
		return obs
	}
	var res struct {
		Traceroute struct {
			Runs []struct {
				Hops []struct {
					TTL       int     `json:"ttl"`
					IP        string  `json:"ip_address"`
					RTT       float64 `json:"rtt"`
					Reachable bool    `json:"reachable"`
				} `json:"hops"`
			} `json:"runs"`
		} `json:"traceroute"`
	}
	if err := json.Unmarshal(stdout.Bytes(), &res); err != nil {
		obs.Failed = true
		obs.ErrText = "unparsable JSON: " + err.Error() + ": " + c13Trunc(stdout.String())
		return obs
	}
	for _, r := range res.Traceroute.Runs {
		var hops []c13ObsHop
		for i, h := range r.Hops {
			// the JSON has no destination flag: the list is cut at the destination, so the flag is
			// "last hop and its address is the target"
			d := i == len(r.Hops)-1 && h.IP == c.tp.destAddr()
			hops = append(hops, c13ObsHop{TTL: h.TTL, IP: h.IP, Dest: d, RTTMs: h.RTT, Reach: h.Reachable})
		}
		obs.Runs = append(obs.Runs, hops)
	}
	return obs
}

func c13RunHelper(helper string, c c13Case) c13Obs {
	params, _ := json.Marshal(map[string]any{"hostname": c.tp.destAddr(), "port": c13Port, "protocol": c.Proto,
		"min_ttl": c.Min, "max_ttl": c.Max, "delay_ms": 15, "timeout_ms": c13TimeoutMs, "tcp_method": c.Method,
		"queries": c.Queries, "e2e": 0, "capture": c.Capture, "paris": c.Paris})
	cmd := exec.Command("ip", "netns", "exec", c.tp.client(), helper, "trace", string(params))
	var stdout, stderr bytes.Buffer
	cmd.Stdout, cmd.Stderr = &stdout, &stderr
	t0 := time.Now()
	err := cmd.Run()
	obs := c13Obs{WallMs: time.Since(t0).Milliseconds()}
	var out struct {
		Error        string `json:"error"`
		NotSupported bool   `json:"not_supported"`
		Runs         []struct {
			Hops []struct {
				TTL       int     `json:"ttl"`
				IP        string  `json:"ip"`
				RTTMs     float64 `json:"rtt_ms"`
				IsDest    bool    `json:"is_dest"`
				Reachable bool    `json:"reachable"`
			} `json:"hops"`
		} `json:"runs"`
		Captured []struct {
			AtUs int64  `json:"at_us"`
			Hex  string `json:"hex"`
		} `json:"captured"`
	}
	if err != nil || json.Unmarshal(stdout.Bytes(), &out) != nil {
		obs.Failed = true
		obs.ErrText = "helper crashed: " + c13Trunc(stderr.String()+stdout.String())
		return obs
	}
	for _, p := range out.Captured {
		if strings.HasPrefix(p.Hex, "4") { // IPv4 only (the namespace also emits IPv6 neighbour discovery)
			obs.Captured = append(obs.Captured, fmt.Sprintf("at_us=%d %s", p.AtUs, p.Hex))
		}
	}
	if out.Error != "" {
		obs.Failed = true
		ns := out.NotSupported
		obs.NotSupported = &ns
		obs.ErrText = c13Trunc(out.Error)
		return obs
	}
	for _, r := range out.Runs {
		var hops []c13ObsHop
		for _, h := range r.Hops {
			hops = append(hops, c13ObsHop{TTL: h.TTL, IP: h.IP, Dest: h.IsDest, RTTMs: h.RTTMs, Reach: h.Reachable, HasDest: true})
		}
		obs.Runs = append(obs.Runs, hops)
	}
	return obs
}

func c13Trunc(s string) string {
	s = strings.TrimSpace(s)
	if len(s) > 600 {
		return s[:600] + "…"
	}
	return s
}

func c13ShowHops(hs []c13ObsHop) string {
	if len(hs) == 0 {
		return "hops"
	}
	parts := []string{}
	for _, h := range hs {
		parts = append(parts, fmt.Sprintf("%d:%s:%s", h.TTL, c13IPHex(h.IP), c13B(h.Dest)))
	}
	return "hops " + strings.Join(parts, " ")
}

// hop tokens for `net.ok`: <ttl>:<ip>:<dest>:<rtt ns>
func c13OkTokens(hs []c13ObsHop) string {
	parts := []string{}
	for _, h := range hs {
		parts = append(parts, fmt.Sprintf("%d:%s:%s:%d", h.TTL, c13IPHex(h.IP), c13B(h.Dest), int64(h.RTTMs*1e6)))
	}
	return strings.Join(parts, " ")
}

// c13Build builds the CLI (and the helper) from the working tree of the repository under test.
func c13Build(env hx.Env, tmp string) (cli, helper string, err error) {
	repo := os.Getenv("C13_REPO")
	if repo == "" {
		repo = "/repo"
	}
	goenv := append(os.Environ(), "GOFLAGS=-mod=mod", "GOPROXY=off")
	cli = filepath.Join(tmp, "dtr")
	cmd := exec.Command("go", "build", "-o", cli, ".")
	cmd.Dir, cmd.Env = repo, goenv
	if out, e := cmd.CombinedOutput(); e != nil {
		return "", "", fmt.Errorf("CLI does not build from %s: %v: %s", repo, e, c13Trunc(string(out)))
	}
	helper = filepath.Join(tmp, "c13run")
	harn := filepath.Join(env.Verif, "harness")
	args := []string{"build", "-o", helper}
	if repo != "/repo" {
		mod, e := os.ReadFile(filepath.Join(harn, "go.mod"))
		if e != nil {
			return "", "", e
		}
		mod = bytes.ReplaceAll(mod, []byte("=> /repo"), []byte("=> "+repo))
		sum, _ := os.ReadFile(filepath.Join(harn, "go.sum"))
		os.WriteFile(filepath.Join(tmp, "go.mod"), mod, 0o644)
		os.WriteFile(filepath.Join(tmp, "go.sum"), sum, 0o644)
		args = append(args, "-modfile="+filepath.Join(tmp, "go.mod"))
	}
	args = append(args, "./cmd/c13run")
	cmd = exec.Command("go", args...)
	cmd.Dir, cmd.Env = harn, goenv
	if out, e := cmd.CombinedOutput(); e != nil {
		return "", "", fmt.Errorf("helper does not build: %v: %s", e, c13Trunc(string(out)))
	}
	return cli, helper, nil
}

// ---- the check ---------------------------------------------------------------------------------

type c13Result struct {
	c   c13Case
	obs c13Obs
}

type c13Group struct {
	tp    *c13Topo
	steps [][]c13Case // cases of one step run at the same time
}

func TestC13(t *testing.T) {
	env := hx.GetEnv()
	rep := hx.NewReport("C13", env, "one evaluation = one traceroute run reported by the real CLI/library inside a kernel namespace chain, compared with the model's prediction and the property predicate; distinct by (topology, scenario, variant, TTL range)")
	defer rep.Write()

	c13CleanStale()
	if out, err := c13Sh("ip", "netns", "add", c13NsPrefix()+"probe"); err != nil {
		rep.Note("namespaces unavailable: reduced coverage (%s); kernel runs: 0", strings.TrimSpace(out))
		return
	}
	c13DeleteNs(c13NsPrefix() + "probe")

	tmp, err := os.MkdirTemp("", "c13-")
	if err != nil {
		t.Fatal(err)
	}
	defer os.RemoveAll(tmp)
	cli, helper, err := c13Build(env, tmp)
	if err != nil {
		rep.Violate(hx.Violation{Kind: "tie", What: err.Error(), NoInput: true, Sig: map[string]string{"stream": "build"}})
		t.Fail()
		return
	}

	thorough := env.Thorough()
	all5 := func(tp *c13Topo, scen, via string, mn, mx int) []c13Case {
		var cs []c13Case
		for _, v := range [][2]string{{"icmp", ""}, {"udp", ""}, {"tcp", "syn"}, {"tcp", "sack"}, {"tcp", "prefer_sack"}} {
			cs = append(cs, c13Case{Scenario: scen, Via: via, Proto: v[0], Method: v[1], Min: mn, Max: mx, Queries: 1, tp: tp})
		}
		return cs
	}
	seq := func(cs []c13Case) [][]c13Case {
		var st [][]c13Case
		for _, c := range cs {
			st = append(st, []c13Case{c})
		}
		return st
	}
	var groups []*c13Group
	id := 0
	newTopo := func(n int, silent []int, open, sack bool) *c13Topo {
		id++
		tp := &c13Topo{ID: id, N: n, Silent: map[int]bool{}, Open: open, Sack: sack}
		for _, k := range silent {
			tp.Silent[k] = true
		}
		return tp
	}
	maxN := env.Scale(3, 6)
	for n := 1; n <= maxN; n++ {
		// open port, every variant through the CLI
		tp := newTopo(n, nil, true, true)
		g := &c13Group{tp: tp, steps: seq(all5(tp, "open", "cli", 1, n+3))}
		if n == 2 || thorough {
			// capture the kernel's replies once per variant
			for _, c := range all5(tp, "open-capture", "helper", 1, n+3) {
				c.Capture = true
				g.steps = append(g.steps, []c13Case{c})
			}
		}
		if n == 2 || n == 3 || thorough {
			// TCP SYN in Paris mode (a library option): in a fresh process, through the kernel's send path
			g.steps = append(g.steps, []c13Case{{Scenario: "open-paris", Via: "helper", Proto: "tcp", Method: "syn", Min: 1, Max: n + 3, Queries: 1, Paris: true, tp: tp}})
		}
		if n == 3 || (thorough && n >= 2) {
			// first TTL > 1 (through the library: the CLI has no flag for it); ranges that start at a
			// router, at the last router, at the destination, beyond it, and that end before it
			ranges := [][2]int{{2, n + 3}, {n + 1, n + 3}, {n + 2, n + 4}, {n, n}}
			if thorough {
				ranges = append(ranges, [2]int{n, n + 1}, [2]int{1, n}, [2]int{2, 2}, [2]int{n + 3, n + 3})
			}
			for _, r := range ranges {
				for _, c := range all5(tp, "first-ttl", "helper", r[0], r[1]) {
					if c.Method == "prefer_sack" && !thorough {
						continue
					}
					g.steps = append(g.steps, []c13Case{c})
				}
			}
			// several traceroutes at once: three processes, and three queries inside one process
			mk := func(via, proto, method string, q int) c13Case {
				return c13Case{Scenario: "concurrent", Via: via, Proto: proto, Method: method, Min: 1, Max: n + 3, Queries: q, tp: tp}
			}
			g.steps = append(g.steps,
				[]c13Case{mk("cli", "icmp", "", 1), mk("cli", "udp", "", 1), mk("cli", "tcp", "syn", 1)},
				[]c13Case{mk("cli", "udp", "", 3)},
				[]c13Case{mk("cli", "icmp", "", 3)},
				[]c13Case{mk("cli", "tcp", "sack", 1), mk("cli", "tcp", "syn", 1), mk("helper", "udp", "", 1)},
				[]c13Case{mk("cli", "tcp", "syn", 3)},
				// SACK runs at once, to the same target and port: while each reads its handshake the capture
				// handle also delivers the SYN-ACKs of the others
				[]c13Case{mk("cli", "tcp", "sack", 3)},
				[]c13Case{mk("cli", "tcp", "sack", 1), mk("helper", "tcp", "sack", 1), mk("cli", "tcp", "prefer_sack", 1)})
		}
		groups = append(groups, g)
	}
	// closed port
	for _, n := range c13Ns(thorough, []int{2}, []int{1, 2, 4}) {
		tp := newTopo(n, nil, false, true)
		g := &c13Group{tp: tp, steps: seq(all5(tp, "closed-port", "cli", 1, n+3))}
		for _, c := range all5(tp, "closed-port", "helper", 1, n+3) {
			if c.Proto == "tcp" {
				c.Capture = c.Method == "syn"
				g.steps = append(g.steps, []c13Case{c})
			}
		}
		groups = append(groups, g)
	}
	// SACK disabled at the destination
	for _, n := range c13Ns(thorough, []int{2}, []int{1, 3}) {
		tp := newTopo(n, nil, true, false)
		g := &c13Group{tp: tp}
		for _, via := range []string{"cli", "helper"} {
			for _, c := range all5(tp, "no-sack", via, 1, n+3) {
				if c.Proto == "tcp" {
					g.steps = append(g.steps, []c13Case{c})
				}
			}
		}
		groups = append(groups, g)
	}
	// silent routers
	silents := [][2]any{{3, []int{2}}}
	if thorough {
		silents = append(silents, [2]any{4, []int{1, 3}}, [2]any{2, []int{2}}, [2]any{1, []int{1}}, [2]any{5, []int{2, 3, 4}})
	}
	for _, s := range silents {
		n := s[0].(int)
		tp := newTopo(n, s[1].([]int), true, true)
		g := &c13Group{tp: tp, steps: seq(all5(tp, "silent-router", "cli", 1, n+3))}
		for _, c := range all5(tp, "silent-router", "helper", 2, n+2) {
			if c.Method != "prefer_sack" {
				g.steps = append(g.steps, []c13Case{c})
			}
		}
		groups = append(groups, g)
	}

	// run the groups, a few topologies at a time (namespaces are isolated from each other)
	var mu sync.Mutex
	var results []c13Result
	var setupErrs []string
	sem := make(chan struct{}, 4)
	var wg sync.WaitGroup
	var cleanup []*c13Topo
	defer func() {
		for _, tp := range cleanup {
			tp.destroy()
		}
	}()
	for _, g := range groups {
		cleanup = append(cleanup, g.tp)
	}
	runCase := func(c c13Case) c13Obs {
		if c.Via == "cli" {
			return c13RunCLI(cli, c)
		}
		return c13RunHelper(helper, c)
	}
	for _, g := range groups {
		wg.Add(1)
		go func(g *c13Group) {
			defer wg.Done()
			sem <- struct{}{}
			defer func() { <-sem }()
			if err := g.tp.build(helper); err != nil {
				mu.Lock()
				setupErrs = append(setupErrs, fmt.Sprintf("topology %d (N=%d): %v", g.tp.ID, g.tp.N, err))
				mu.Unlock()
				g.tp.destroy()
				return
			}
			for _, step := range g.steps {
				obs := make([]c13Obs, len(step))
				var sw sync.WaitGroup
				for i := range step {
					sw.Add(1)
					go func(i int) { defer sw.Done(); obs[i] = runCase(step[i]) }(i)
				}
				sw.Wait()
				mu.Lock()
				for i := range step {
					results = append(results, c13Result{step[i], obs[i]})
				}
				mu.Unlock()
			}
			g.tp.destroy()
		}(g)
	}
	wg.Wait()
	for _, e := range setupErrs {
		// the sandbox could create a namespace but not this topology: not a verdict about the code
		rep.Note("topology setup failed, its runs are missing: %s", e)
	}

	// one oracle batch: prediction per case, property predicate per reported run
	var lines []string
	type ref struct{ res, run int } // run = -1: prediction line
	var refs []ref
	for i, r := range results {
		m := r.c.Method
		if m == "" {
			m = "-"
		}
		lines = append(lines, fmt.Sprintf("net.trace %s %s %d %d %s", r.c.Proto, m, r.c.Min, r.c.Max, r.c.tp.tokens()))
		refs = append(refs, ref{i, -1})
		for j, run := range r.obs.Runs {
			lines = append(lines, strings.TrimSpace(fmt.Sprintf("net.ok %d %d %s %s", r.c.Min, r.c.Max, r.c.tp.tokens(), c13OkTokens(run))))
			refs = append(refs, ref{i, j})
		}
	}
	answers, err := hx.NewOracle().Batch(lines)
	if err != nil {
		rep.Violate(hx.Violation{Kind: "tie", What: "oracle failed: " + err.Error(), NoInput: true, Sig: map[string]string{"stream": "oracle"}})
		t.Fail()
		return
	}
	pred := map[int]string{}
	okAns := map[[2]int]string{}
	for k, rf := range refs {
		if rf.run < 0 {
			pred[rf.res] = answers[k]
		} else {
			okAns[[2]int{rf.res, rf.run}] = answers[k]
		}
	}

	kernelRuns := 0
	var corpus []string
	for i, r := range results {
		c, obs, want := r.c, r.obs, pred[i]
		stream := c.Scenario + "/" + c.Via
		key := fmt.Sprintf("%s|%s|%d-%d|N=%d silent=%v open=%v sack=%v q=%d", c.Scenario, c.variant(), c.Min, c.Max, c.tp.N, c13Keys(c.tp.Silent), c.tp.Open, c.tp.Sack, c.Queries)
		replay := map[string]any{"topology": c.tp.describe(), "case": c, "observed": obs, "predicted": want,
			"rerun": "VERIF_TIER=" + env.Tier + " ./check C13 (the topology is rebuilt from this description)"}
		sig := map[string]string{"scenario": c.Scenario, "variant": c.variant(), "via": c.Via}
		rep.Hit("variant:" + c.variant())
		rep.Hit("scenario:" + c.Scenario)
		rep.Hit(fmt.Sprintf("routers:%d", c.tp.N))
		if want == "bad-op" || want == "unmodelled" || want == "failed" {
			rep.Violate(hx.Violation{Kind: "tie", What: "model has no prediction for this case: " + want, Sig: sig, Replay: replay})
			continue
		}
		if len(obs.Captured) > 0 {
			corpus = append(corpus, fmt.Sprintf("# variant=%s scenario=%s routers=%d silent=%v port=%d port_open=%v tcp_sack=%v min_ttl=%d max_ttl=%d client=%s target=%s path=%s result=%s",
				c.variant(), c.Scenario, c.tp.N, c13Keys(c.tp.Silent), c13Port, c.tp.Open, c.tp.Sack, c.Min, c.Max, c.tp.clientAddr(), c.tp.destAddr(),
				strings.ReplaceAll(c13PathString(c.tp), " ", ","), strings.ReplaceAll(c13ObsSummary(obs), " ", ",")))
			corpus = append(corpus, obs.Captured...)
		}
		if obs.Failed {
			kernelRuns++
			rep.Case(stream, key, true, map[string]any{"case": c, "topology": c.tp.tokens(), "observed": "error", "predicted": want})
			rep.Hit("outcome:error")
			if want != "notsupported" {
				rep.Violate(hx.Violation{Kind: "spec", What: fmt.Sprintf("%s on a %d-router kernel path: a trace was due (%s) but the run failed: %s", c.variant(), c.tp.N, want, obs.ErrText), Sig: sig, Replay: replay})
			} else if obs.NotSupported != nil && !*obs.NotSupported {
				rep.Violate(hx.Violation{Kind: "spec", What: fmt.Sprintf("%s: the SACK failure on a destination without SACK is not a NotSupportedError: %s", c.variant(), obs.ErrText), Sig: sig, Replay: replay})
			}
			continue
		}
		if len(obs.Runs) != c.Queries {
			rep.Violate(hx.Violation{Kind: "spec", What: fmt.Sprintf("%s: %d runs reported for %d queries", c.variant(), len(obs.Runs), c.Queries), Sig: sig, Replay: replay})
		}
		for j, run := range obs.Runs {
			kernelRuns++
			got := c13ShowHops(run)
			rep.Case(stream, key, true, map[string]any{"case": c, "topology": c.tp.tokens(), "observed": got, "predicted": want})
			rep.Hit("outcome:trace")
			rep.Hit(fmt.Sprintf("hops:%d", len(run)))
			if want == "notsupported" {
				rep.Violate(hx.Violation{Kind: "spec", What: fmt.Sprintf("%s: destination without SACK support (port_open=%v tcp_sack=%v) but a trace was reported instead of an error: %s", c.variant(), c.tp.Open, c.tp.Sack, got), Sig: sig, Replay: replay})
				continue
			}
			bad := ""
			for _, h := range run {
				if h.RTTMs < 0 {
					bad = fmt.Sprintf("negative RTT %v at TTL %d", h.RTTMs, h.TTL)
				}
				if h.Reach != (h.IP != "") {
					bad = fmt.Sprintf("reachable=%v but address %q at TTL %d", h.Reach, h.IP, h.TTL)
				}
				if h.IP != "" && h.RTTMs == 0 {
					rep.Hit("rtt:zero-on-answered-hop")
				}
			}
			if okAns[[2]int{i, j}] != "1" || bad != "" {
				if bad == "" {
					bad = "hop list differs from the path"
				}
				rep.Violate(hx.Violation{Kind: "spec", What: fmt.Sprintf("%s (%s, TTL %d..%d) on the kernel path [%s]: reported [%s], the path is [%s]: %s",
					c.variant(), c.Scenario, c.Min, c.Max, c13PathString(c.tp), got, want, bad), Sig: sig, Replay: replay})
			} else if got != want {
				rep.Violate(hx.Violation{Kind: "correspondence", What: "net.trace model and implementation differ on stream " + stream, NoInput: true, Sig: sig, Replay: replay})
			}
		}
	}
	rep.Note("kernel runs: %d (traceroute runs executed against kernel-generated replies in %d namespace topologies; %d cases)", kernelRuns, len(groups)-len(setupErrs), len(results))
	c13WriteCorpus(env, rep, corpus)
	if rep.Failed() {
		t.Fail()
	}
}

func c13Ns(thorough bool, quick, th []int) []int {
	if thorough {
		return th
	}
	return quick
}

func c13Keys(m map[int]bool) []int {
	ks := []int{}
	for k, v := range m {
		if v {
			ks = append(ks, k)
		}
	}
	sort.Ints(ks)
	return ks
}

func c13PathString(tp *c13Topo) string {
	parts := []string{}
	for k := 1; k <= tp.N; k++ {
		s := tp.routerAddr(k)
		if tp.Silent[k] {
			s += "(silent)"
		}
		parts = append(parts, s)
	}
	return strings.Join(append(parts, tp.destAddr()+"(dest)"), " ")
}

func c13ObsSummary(o c13Obs) string {
	if o.Failed {
		return "error"
	}
	if len(o.Runs) == 0 {
		return "none"
	}
	return strings.TrimPrefix(c13ShowHops(o.Runs[0]), "hops ")
}

// c13WriteCorpus stores the captured kernel packets (probes as sent and the kernel's replies, IP
// packets in hex, one per line, preceded by a `#` metadata line per run) for replay by the matcher
// checks. The committed corpus is only rewritten on request; every run leaves its capture in out/.
func c13WriteCorpus(env hx.Env, rep *hx.Report, corpus []string) {
	if len(corpus) == 0 {
		rep.Note("no kernel packets captured")
		return
	}
	head := "# C13 kernel capture: IPv4 packets seen by packets.NewAFPacketSource() in the client namespace during real traceroute runs\n" +
		"# (both directions: the probes as sent and the kernel-generated replies). One `#` line of metadata per run, then `at_us=<µs> <hex>` per packet.\n"
	body := head + strings.Join(corpus, "\n") + "\n"
	os.MkdirAll(env.OutDir, 0o755)
	os.WriteFile(filepath.Join(env.OutDir, "C13.kernel_replies.txt"), []byte(body), 0o644)
	dst := filepath.Join(env.Verif, "corpus", "C13", "kernel_replies.txt")
	if _, err := os.Stat(dst); err != nil || os.Getenv("C13_RECAPTURE") == "1" {
		os.MkdirAll(filepath.Dir(dst), 0o755)
		os.WriteFile(dst, []byte(body), 0o644)
	}
	n := 0
	for _, l := range corpus {
		if !strings.HasPrefix(l, "#") {
			n++
		}
	}
	rep.Note("captured %d kernel packets", n)
}
