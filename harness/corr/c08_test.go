package corr

// C08 — bounded termination and prompt cancellation.
//
// Streams:
//   timed-par / timed-ser   scripted-driver runs (per-call durations, send durations, failures, cancellation)
//                           of the real engines: elapsed virtual time = the Lean timed model's prediction
//                           exactly, and ≤ Spec.parallelBound / Spec.serialBound when the driver is OK.
//   cancel-par / cancel-ser the same run cancelled at every instant of a grid: context.Canceled within
//                           poll + delay + σ of the cancellation.
//   wire-*                  REAL drivers (all variants) + REAL engines over the in-memory wire at production
//                           scale: silence, scripted replies, floods of irrelevant and malformed packets (one
//                           every 1–20 ms for the whole run), bursts; with and without cancellation on a grid.
//   sack                    the real SACK wrapper (runSackTraceroute through VerifRunOnce) against a loop-back
//                           listener: handshake budgets + engine bound.
//   publicip                GetPublicIP against stalled / slow endpoints: ≤ providers × 2 s.
//   rdns                    GetReverseDnsForIPs with a resolver that blocks until its context is done: ≤ 5 s.

import (
	"context"
	"encoding/binary"
	"errors"
	"fmt"
	"net"
	"net/netip"
	"strings"
	"sync"
	"testing"
	"testing/synctest"
	"time"

	"github.com/DataDog/datadog-traceroute/packets"
	"github.com/DataDog/datadog-traceroute/reversedns"
	"github.com/DataDog/datadog-traceroute/traceroute"

	"verifharness/hx"
)

type c08Bounds struct{ Ser, Par, Cancel time.Duration }

func c08BoundsLine(min, max int, timeout, delay, poll, sigma time.Duration) string {
	return fmt.Sprintf("timed.bounds %d %d %d %d %d %d", min, max, int64(timeout), int64(delay), int64(poll), int64(sigma))
}

func c08ParseBounds(ans string) (b c08Bounds, ok bool) {
	var s, p, c int64
	n, err := fmt.Sscanf(ans, "ser %d par %d cancel %d", &s, &p, &c)
	return c08Bounds{time.Duration(s), time.Duration(p), time.Duration(c)}, err == nil && n == 3
}

func c08NoFail(c c05TimedCase) bool {
	if c.SendFailTTL >= 0 || c.Min < 1 || c.Min > c.Max {
		return false
	}
	for _, e := range c.Script {
		switch e.Kind {
		case kFatal, kNil:
			return false
		case kAccept:
			if int(e.Probe.TTL) < c.Min || int(e.Probe.TTL) > c.Max {
				return false
			}
		}
	}
	return true
}

// c08JudgeTimed applies the bound and cancellation specification to scripted-driver runs and
// returns the indices of the runs it reported.
func c08JudgeTimed(t *testing.T, rep *hx.Report, orc *hx.Oracle, items []c05TimedItem) map[int]bool {
	reported := map[int]bool{}
	lines := make([]string, len(items))
	for i, it := range items {
		lines[i] = c08BoundsLine(it.C.Min, it.C.Max, it.C.Timeout, it.C.Delay, it.C.Poll, it.C.sigma())
	}
	answers, err := orc.Batch(lines)
	if err != nil {
		t.Fatalf("oracle(bounds): %v", err)
	}
	for i, it := range items {
		c, o := it.C, it.O
		b, ok := c08ParseBounds(answers[i])
		if !ok {
			t.Fatalf("oracle(bounds) answered %q", answers[i])
		}
		if o.TimedOut || !c.DriverOK {
			if !c.DriverOK {
				rep.Hit("bound:not-applicable(driver slower than poll)")
			}
			continue
		}
		sample := c05TimedJSON(c, o, it.Model)
		sample["bounds"] = answers[i]
		bound := b.Par
		if c.Engine == "ser" {
			bound = b.Ser
		}
		engine := map[string]string{"par": "parallel", "ser": "serial"}[c.Engine]
		rep.Hit("bound:checked-" + c.Engine)
		if o.Elapsed > bound {
			rep.Violate(hx.Violation{Kind: "spec", What: fmt.Sprintf("%s engine returned after %s, bound %s", engine, o.Elapsed, bound),
				Sig: map[string]string{"site": "engine", "engine": engine, "behaviour": "exceeds-bound"}, Replay: sample})
			reported[i] = true
			continue
		}
		if c.CancelAt > 0 {
			rep.Hit("cancel:checked-" + c.Engine)
			if o.Elapsed > c.CancelAt+b.Cancel {
				rep.Violate(hx.Violation{Kind: "spec", What: fmt.Sprintf("%s engine cancelled at %s returned at %s, later than poll+delay+σ = %s after the cancellation", engine, c.CancelAt, o.Elapsed, b.Cancel),
					Sig: map[string]string{"site": "engine", "engine": engine, "behaviour": "late-cancel"}, Replay: sample})
				reported[i] = true
				continue
			}
			if c08NoFail(c) && o.Elapsed >= c.CancelAt {
				if !errors.Is(o.Err, context.Canceled) {
					rep.Violate(hx.Violation{Kind: "spec", What: fmt.Sprintf("%s engine cancelled at %s (still running) returned %q instead of context.Canceled", engine, c.CancelAt, o.Res),
						Sig: map[string]string{"site": "engine", "engine": engine, "behaviour": "no-cancel-error"}, Replay: sample})
					reported[i] = true
					continue
				}
				rep.Hit("cancel:returned-context.Canceled-" + c.Engine)
			}
		}
	}
	return reported
}

// c08CancelGrid: base runs without failures, each repeated with a cancellation at every instant of
// a grid across (and a little beyond) its uncancelled duration.
func c08CancelGrid(t *testing.T, rng *hx.RNG, nBase, grid int) []c05TimedCase {
	var out []c05TimedCase
	hung := 0
	for len(out) < nBase*grid && hung < 6 {
		eng := []string{"par", "ser"}[(len(out)/grid)%2]
		c := c05GenTimed(rng, eng, rng.Chance(1, 3))
		c.CancelAt = 0
		if !c08NoFail(c) || !c.DriverOK {
			continue
		}
		base := c05RunTimed(t, c, c05TimedLimit(c))
		if base.TimedOut {
			hung++ // reported by the timed stream; no grid can be laid over a run that does not end
			continue
		}
		if base.Elapsed <= 0 {
			continue
		}
		for k := 0; k < grid; k++ {
			cc := c
			cc.CancelAt = (base.Elapsed+c.Poll)*time.Duration(k+1)/time.Duration(grid+1)/time.Microsecond*time.Microsecond + 500*time.Nanosecond
			out = append(out, cc)
		}
	}
	return out
}

// ---------------------------------------------------------------------------------------------
// real drivers over the wire: silence, floods, bursts

// c08Noise builds the pool of irrelevant and malformed inbound packets for a configuration:
// genuine-looking replies that belong to another run, truncations, random bytes, bad header lengths.
func c08Noise(t *testing.T, r *hx.RNG, c drvCfg) [][]byte {
	other := genCfg(r, c.Variant)
	other.Min, other.Max = 1, 30
	other.LPort ^= 0x1111
	other.EchoCounter += 7777
	other.BaseID += 5000
	other.ISN += 1 << 20
	probes := probeBytes(t, other, []int{1, 2, 3, 9, 30})
	var pool [][]byte
	for ttl, p := range probes {
		for _, f := range catalogueFor(other.kind(), other.v6()) {
			from := other.Target
			if f.Kind == "te" {
				from = pickRouter(r, other)
			}
			if pkt := f.encode(other.flow(), p, from, ttl, seqOfProbe(p)); pkt != nil {
				pool = append(pool, pkt)
				if r.Chance(1, 3) && len(pkt) > 4 {
					pool = append(pool, pkt[:r.Range(1, len(pkt)-1)]) // truncated
				}
				if r.Chance(1, 6) {
					q := append([]byte(nil), pkt...)
					q[0] = q[0]&0xf0 | byte(r.Intn(5)) // IHL < 5
					pool = append(pool, q)
				}
			}
		}
	}
	for i := 0; i < 40; i++ {
		pool = append(pool, r.Bytes(r.Range(1, 120)))
	}
	pool = append(pool, []byte{0x45}, []byte{0x60, 0, 0, 0}, make([]byte, 20), make([]byte, 40))
	return pool
}

// c08Flood returns a flood function: one packet every 1–20 ms for the whole run, or bursts.
func c08Flood(seed uint64, pool [][]byte, bursts bool) func(w *memWire, stop <-chan struct{}) {
	return func(w *memWire, stop <-chan struct{}) {
		r := hx.NewRNG(seed)
		for {
			gap := time.Duration(r.Range(1, 20))*time.Millisecond + time.Duration(2*r.Range(0, 400)+1)*time.Microsecond
			n := 1
			if bursts {
				gap = time.Duration(r.Range(50, 400))*time.Millisecond + time.Duration(2*r.Range(0, 400)+1)*time.Microsecond
				n = r.Range(5, 60)
			}
			tm := time.NewTimer(gap)
			select {
			case <-stop:
				tm.Stop()
				return
			case <-tm.C:
			}
			for i := 0; i < n; i++ {
				w.Inject(hx.Pick(r, pool))
			}
		}
	}
}

func c08WireCases(t *testing.T, rep *hx.Report, orc *hx.Oracle, rng *hx.RNG, perVariant, grid int) {
	type item struct {
		c        c05WireCase
		o        c05WireObs
		mode     string
		cancelAt time.Duration
	}
	var items []item
	hung := 0
	modes := []string{"silence", "replies", "flood", "flood+replies", "bursts"}
	for _, v := range allVariants {
		for i := 0; i < perVariant; i++ {
			mode := modes[i%len(modes)]
			c := c05GenWire(rng, v, "")
			c.EnobufsAt = -1 // send failures are C05/C10 material; here every run is expected to run to its end
			c.Stream = "wire-" + mode
			if mode == "silence" || mode == "flood" || mode == "bursts" {
				c.Replies = map[int][]c05Reply{}
				c.DestAt = 0
			}
			if c.Engine == "ser" && i%3 != 0 {
				c.Cfg.Max = c.Cfg.Min + rng.Range(2, 7) // keep silent serial runs (count × 3 s of 100 ms polls) affordable
			}
			if i%7 == 6 {
				// the last TTL values a run can be asked for: the bound must hold up to MaxTTL = 255
				c.Cfg.Min, c.Cfg.Max = rng.Range(249, 254), 255
				c.Replies, c.DestAt = map[int][]c05Reply{}, 0
			}
			var flood func(w *memWire, stop <-chan struct{})
			if strings.HasPrefix(mode, "flood") || mode == "bursts" {
				flood = c08Flood(rng.U64(), c08Noise(t, rng, c.Cfg), mode == "bursts")
			}
			if hung >= 6 {
				continue
			}
			base := c05RunWire(t, c, 0, flood)
			items = append(items, item{c, base, mode, 0})
			if base.Run.TimedOut {
				hung++
			}
			if i < 2*len(modes) && !base.Run.TimedOut { // cancellation grid on the first cases of every mode
				for k := 0; k < grid; k++ {
					at := (base.Run.Elapsed+c.Poll)*time.Duration(k+1)/time.Duration(grid+1)/time.Microsecond*time.Microsecond + 500*time.Nanosecond
					if flood != nil {
						flood = c08Flood(rng.U64(), c08Noise(t, rng, c.Cfg), mode == "bursts")
					}
					cc := c
					cc.Stream = "wire-cancel-" + mode
					items = append(items, item{cc, c05RunWire(t, cc, at, flood), mode, at})
				}
			}
		}
	}
	lines := make([]string, len(items))
	for i, it := range items {
		lines[i] = c08BoundsLine(it.c.Cfg.Min, it.c.Cfg.Max, it.c.Timeout, it.c.Delay, it.c.Poll, it.c.WriteDur)
	}
	answers, err := orc.Batch(lines)
	if err != nil {
		t.Fatalf("oracle(bounds/wire): %v", err)
	}
	for i, it := range items {
		c, o := it.c, it.o
		b, ok := c08ParseBounds(answers[i])
		if !ok {
			t.Fatalf("oracle(bounds) answered %q", answers[i])
		}
		sample := c05WireJSON(c, o)
		sample["mode"], sample["cancel_at"], sample["bounds"], sample["probes_written"] = it.mode, it.cancelAt.String(), answers[i], o.Written
		engine := map[string]string{"par": "parallel", "ser": "serial"}[c.Engine]
		rep.Case(c.Stream, fmt.Sprint(c.Cfg.oraclePrefix(), c.Replies, it.cancelAt, it.mode, i), o.Written > 0, sample)
		rep.Hit("wire:" + it.mode + "/" + c.Cfg.Variant)
		bound := b.Par
		if c.Engine == "ser" {
			bound = b.Ser
		}
		sig := func(beh string) map[string]string {
			return map[string]string{"site": "engine", "engine": engine, "behaviour": beh, "variant": c.Cfg.Variant, "stream": c.Stream}
		}
		switch {
		case o.Run.TimedOut:
			rep.Violate(hx.Violation{Kind: "spec", What: engine + " engine did not return (watchdog)", Sig: sig("no-return"), Replay: sample})
		case o.Run.Panic != "":
			rep.Violate(hx.Violation{Kind: "spec", What: "panic: " + o.Run.Panic, Sig: sig("panic"), Replay: sample})
		case o.Run.Elapsed > bound:
			rep.Violate(hx.Violation{Kind: "spec", What: fmt.Sprintf("%s engine over the wire (%s) returned after %s, bound %s", engine, it.mode, o.Run.Elapsed, bound),
				Sig: sig("exceeds-bound"), Replay: sample})
		case it.cancelAt > 0 && o.Run.Elapsed > it.cancelAt+b.Cancel:
			rep.Violate(hx.Violation{Kind: "spec", What: fmt.Sprintf("%s engine cancelled at %s returned at %s, later than poll+delay+σ = %s after the cancellation", engine, it.cancelAt, o.Run.Elapsed, b.Cancel),
				Sig: sig("late-cancel"), Replay: sample})
		case it.cancelAt > 0 && o.Run.Elapsed >= it.cancelAt && len(o.RecvErrs) == 0 && !errors.Is(o.Run.Err, context.Canceled):
			rep.Violate(hx.Violation{Kind: "spec", What: fmt.Sprintf("%s engine cancelled at %s (still running) returned %v instead of context.Canceled", engine, it.cancelAt, o.Run.Err),
				Sig: sig("no-cancel-error"), Replay: sample})
		default:
			if it.cancelAt > 0 && errors.Is(o.Run.Err, context.Canceled) {
				rep.Hit("wire:returned-context.Canceled-" + c.Engine)
			}
			if o.Run.Err != nil && !errors.Is(o.Run.Err, context.Canceled) {
				rep.Hit("wire:run-error(not a time issue; C09/C10)")
			}
		}
	}
}

// ---------------------------------------------------------------------------------------------
// SACK wrapper against a loop-back listener (technique of c20_sack_test.go)

var errC08Watchdog = errors.New("verif: SACK run killed by the harness watchdog")

// what the last c08RunSack observed at the seam (read by the sites stream of C12)
var c08LastSack struct {
	Filters          []packets.PacketFilterSpec
	Port, ClientPort uint16
}

type c08SackCase struct {
	Name    string
	Listen  bool
	SynAck  bool // the SYN-ACK (SACK permitted) is captured
	Reply   bool // the target answers probes with SACK blocks
	Flood   bool // unrelated frames every few ms during handshake and engine
	Timeout time.Duration
	MaxTTL  int
}

func c08RunSack(t *testing.T, c c08SackCase) (elapsed time.Duration, err error, accepted int, firstProbeAt time.Duration) {
	firstProbeAt = -1
	var runStart time.Time
	loop := netip.MustParseAddr("127.0.0.1")
	ln, lerr := net.Listen("tcp4", "127.0.0.1:0")
	if lerr != nil {
		t.Fatalf("listen: %v", lerr)
	}
	port := uint16(ln.Addr().(*net.TCPAddr).Port)
	if !c.Listen {
		ln.Close()
	}
	var conns []net.Conn
	var cmu sync.Mutex
	accept := func(wait time.Duration) (net.Conn, bool) {
		if !c.Listen {
			return nil, false
		}
		ln.(*net.TCPListener).SetDeadline(time.Now().Add(wait))
		cn, aerr := ln.Accept()
		if aerr != nil {
			return nil, false
		}
		cmu.Lock()
		conns = append(conns, cn)
		cmu.Unlock()
		return cn, true
	}
	synctest.Test(t, func(t *testing.T) {
		w := &bwWire{}
		stop := make(chan struct{})
		var fwg sync.WaitGroup
		w.Configure = func(idx int, addr netip.Addr, src *bwSource, snk *bwSink) {
			if idx != 0 {
				return
			}
			var once sync.Once
			var clientPort uint16
			src.BeforeRead = func(s *bwSource) {
				once.Do(func() {
					if cn, ok := accept(2 * time.Second); ok {
						clientPort = uint16(cn.RemoteAddr().(*net.TCPAddr).Port)
						c08LastSack.ClientPort = clientPort
					}
					if c.Flood {
						fwg.Add(1)
						go func() {
							defer fwg.Done()
							r := hx.NewRNG(uint64(port))
							for {
								tm := time.NewTimer(time.Duration(r.Range(1, 20))*time.Millisecond + 333*time.Microsecond)
								select {
								case <-stop:
									tm.Stop()
									return
								case <-tm.C:
								}
								switch r.Intn(3) {
								case 0: // wrong port
									s.Inject(c20TCPFrame(loop, loop, port+1, clientPort, uint32(r.U64()), 2, 0x12, []byte{4, 2}))
								case 1: // plain ACK without SACK blocks for another connection
									s.Inject(c20TCPFrame(loop, loop, port, clientPort+1, 1, 2, 0x10, nil))
								default:
									s.Inject(r.Bytes(r.Range(1, 60)))
								}
							}
						}()
					}
					if c.SynAck {
						s.Inject(c20TCPFrame(loop, loop, port, clientPort, 0x00200000, c20InitSeq, 0x12, []byte{2, 4, 0x05, 0xb4, 4, 2}))
					}
				})
			}
			snk.OnWrite = func(p bwPacket) {
				h := bwParse(p.Data)
				if h.OK && h.Proto == 6 && h.Flags == 0x18 && firstProbeAt < 0 {
					firstProbeAt = time.Since(runStart) // the engine has started: its sender's first probe
				}
				if !h.OK || h.Proto != 6 || h.Flags != 0x18 || !c.Reply {
					return
				}
				left := uint32(c20InitSeq + h.TTL)
				opt := []byte{5, 10, 0, 0, 0, 0, 0, 0, 0, 0}
				binary.BigEndian.PutUint32(opt[2:], left)
				binary.BigEndian.PutUint32(opt[6:], left+1)
				frame := c20TCPFrame(loop, loop, port, clientPort, 0x00200001, c20InitSeq, 0x10, opt)
				time.AfterFunc(time.Duration(h.TTL)*7*time.Millisecond+111*time.Microsecond, func() { src.Inject(frame) })
			}
		}
		defer bwInstall(w)()
		params := traceroute.TracerouteParams{Hostname: "127.0.0.1", Protocol: "tcp", MinTTL: 1, MaxTTL: c.MaxTTL, Delay: 1,
			Timeout: c.Timeout, TCPMethod: traceroute.TCPMethod("sack")}
		start := time.Now()
		runStart = start
		// watchdog: a wrapper that does not return is unblocked by a fatal read error on its source
		wd := time.AfterFunc(3*(2*c.Timeout+time.Duration(c.MaxTTL)*10*time.Millisecond+time.Second)+10*time.Second, func() {
			w.mu.Lock()
			srcs := append([]*bwSource(nil), w.Sources...)
			w.mu.Unlock()
			for _, s := range srcs {
				s.mu.Lock()
				s.ReadErr = errC08Watchdog
				s.mu.Unlock()
				s.kick()
			}
		})
		_, err = traceroute.VerifRunOnce(context.Background(), params, int(port))
		wd.Stop()
		elapsed = time.Since(start)
		w.mu.Lock()
		c08LastSack.Filters, c08LastSack.Port = nil, port
		if len(w.Sources) > 0 {
			w.Sources[0].mu.Lock()
			c08LastSack.Filters = append(c08LastSack.Filters, w.Sources[0].Filters...)
			w.Sources[0].mu.Unlock()
		}
		w.mu.Unlock()
		close(stop)
		fwg.Wait()
	})
	for {
		if _, ok := accept(30 * time.Millisecond); !ok {
			break
		}
	}
	accepted = len(conns)
	for _, cn := range conns {
		cn.Close()
	}
	if c.Listen {
		ln.Close()
	}
	return
}

func c08Sack(t *testing.T, rep *hx.Report, orc *hx.Oracle, thorough bool) {
	var cases []c08SackCase
	for _, to := range []time.Duration{100 * time.Millisecond, 300 * time.Millisecond, 3 * time.Second} {
		for _, max := range []int{3, 30} {
			for _, flood := range []bool{false, true} {
				cases = append(cases,
					c08SackCase{Name: "silent-path", Listen: true, SynAck: true, Flood: flood, Timeout: to, MaxTTL: max},
					c08SackCase{Name: "sack-replies", Listen: true, SynAck: true, Reply: true, Flood: flood, Timeout: to, MaxTTL: max},
					c08SackCase{Name: "synack-never-captured", Listen: true, Flood: flood, Timeout: to, MaxTTL: max})
			}
			cases = append(cases, c08SackCase{Name: "port-closed", Timeout: to, MaxTTL: max})
		}
	}
	_ = thorough
	lines := make([]string, len(cases))
	for i, c := range cases {
		// makeSackParams: poll 100 ms, send delay 10 ms
		lines[i] = c08BoundsLine(1, c.MaxTTL, c.Timeout, 10*time.Millisecond, 100*time.Millisecond, 0)
	}
	answers, err := orc.Batch(lines)
	if err != nil {
		t.Fatalf("oracle(bounds/sack): %v", err)
	}
	for i, c := range cases {
		b, _ := c08ParseBounds(answers[i])
		el, rerr, acc, firstProbeAt := c08RunSack(t, c)
		// Spec.sackBound with D = HandshakeTimeout (= timeout), H = the 500 ms handshake read deadline
		bound := c.Timeout + 500*time.Millisecond + b.Par
		sample := map[string]any{"stream": "sack", "case": c.Name, "flood": c.Flood, "timeout": c.Timeout.String(), "max_ttl": c.MaxTTL,
			"elapsed": el.String(), "bound": bound.String(), "error": fmt.Sprint(rerr), "accepted_connections": acc}
		rep.Case("sack", fmt.Sprint(c), true, sample)
		rep.Hit("sack:" + c.Name)
		rep.Note("sack %s flood=%v timeout=%s maxTTL=%d: elapsed %s (bound %s), err=%v", c.Name, c.Flood, c.Timeout, c.MaxTTL, el, bound, rerr != nil)
		runawayViolation(rep, map[string]string{"site": "sack", "case": c.Name}, sample)
		if el > bound {
			rep.Violate(hx.Violation{Kind: "spec", What: fmt.Sprintf("SACK traceroute (%s) returned after %s, bound %s", c.Name, el, bound),
				Sig: map[string]string{"site": "sack", "behaviour": "exceeds-bound", "case": c.Name}, Replay: sample})
		}
		// the engine phase on its own: from the sender's first probe (the engine has started, the
		// handshake is over) the run must end within the parallel engine's bound — time the handshake
		// did not use is not the engine's to spend
		if firstProbeAt >= 0 && el-firstProbeAt > b.Par {
			sample["first_probe_at"], sample["engine_bound"] = firstProbeAt.String(), b.Par.String()
			rep.Violate(hx.Violation{Kind: "spec", What: fmt.Sprintf("SACK traceroute (%s): the engine started at %s and the run returned at %s, %s later — the parallel engine's bound is %s", c.Name, firstProbeAt, el, el-firstProbeAt, b.Par),
				Sig: map[string]string{"site": "sack", "behaviour": "engine-phase-exceeds-bound", "case": c.Name}, Replay: sample})
		}
		rep.Hit(fmt.Sprintf("sack:engine-started=%v", firstProbeAt >= 0))
		if c.Name == "synack-never-captured" && (rerr == nil || el > 500*time.Millisecond+time.Millisecond) {
			rep.Violate(hx.Violation{Kind: "spec", What: fmt.Sprintf("handshake read did not give up at its 500 ms deadline (elapsed %s, err %v)", el, rerr),
				Sig: map[string]string{"site": "sack", "behaviour": "handshake-read", "case": c.Name}, Replay: sample})
		}
	}
}

// ---------------------------------------------------------------------------------------------
// auxiliary services

func c08PublicIP(t *testing.T, rep *hx.Report, rng *hx.RNG, n int) {
	el, returned := c08PublicIPStallCase(t)
	const eps = time.Millisecond
	sample := map[string]any{"stream": "publicip", "case": "two providers that accept the request and never answer", "returned": returned, "elapsed_virtual": el.String(), "bound": "2 × 2s"}
	rep.Case("publicip", "stall", true, sample)
	if !returned || el > 2*2*time.Second+eps {
		rep.Violate(hx.Violation{Kind: "spec", What: fmt.Sprintf("GetPublicIP with stalled providers: returned=%v after %s of virtual time (bound 2 providers × 2 s)", returned, el),
			Sig: map[string]string{"site": "publicip", "behaviour": "stall"}, Replay: sample})
	}
	// hang before the headers (transport), after the headers (body read), slow body (response that
	// takes minutes), mixed with quick transient failures
	for i := 0; i < n; i++ {
		np := rng.Range(1, 4)
		c := c18PubCase{Parent: -1}
		var descr []string
		for p := 0; p < np; p++ {
			var sc []c18Attempt
			for k := rng.Range(0, 3); k > 0; k-- {
				sc = append(sc, c18Attempt{Kind: 't', Dur: time.Duration(rng.Range(1, 300))*time.Millisecond + 137*time.Microsecond})
			}
			long := time.Duration(rng.Range(3, 4000))*time.Second + 211*time.Microsecond
			switch rng.Intn(3) {
			case 0:
				sc = append(sc, c18Attempt{Kind: 't', Dur: long})
			case 1:
				sc = append(sc, c18Attempt{Kind: 'b', Status: 200, Dur: long})
			default:
				sc = append(sc, c18Attempt{Kind: 'r', Status: 200, Body: []byte("203.0.113.7"), Dur: long})
			}
			c.Scripts = append(c.Scripts, sc)
			toks := make([]string, len(sc))
			for k, a := range sc {
				toks[k] = a.token()
			}
			descr = append(descr, strings.Join(toks, " "))
		}
		o := c18RunPubCase(t, c)
		bound := time.Duration(np)*2*time.Second + eps
		sample := map[string]any{"stream": "publicip", "providers": descr, "elapsed_virtual": o.Elapsed.String(), "bound": bound.String(), "panic": o.Panicked}
		rep.Case("publicip", fmt.Sprint(descr), true, sample)
		rep.Hit("publicip:slow-or-hanging-endpoints")
		if o.Panicked != "" || o.Elapsed > bound {
			rep.Violate(hx.Violation{Kind: "spec", What: fmt.Sprintf("GetPublicIP over %d slow/hanging providers returned after %s (bound %s) panic=%q", np, o.Elapsed, bound, o.Panicked),
				Sig: map[string]string{"site": "publicip", "behaviour": "stall"}, Replay: sample})
		}
	}
}

func c08Rdns(t *testing.T, rep *hx.Report, rng *hx.RNG, n int) {
	for i := 0; i < n; i++ {
		nips := rng.Range(1, 40)
		var ips []net.IP
		for k := 0; k < nips; k++ {
			ips = append(ips, net.IPv4(10, byte(i), byte(k), byte(rng.Range(1, 254))))
		}
		// the same address several times in one call (the destination and the routers shared by the runs
		// of one request): the look-ups of one address must not queue behind each other
		if i%4 < 2 {
			for k := rng.Range(1, 6); k > 0; k-- {
				ips = append(ips, ips[rng.Intn(len(ips))])
			}
		}
		blockAll := i%2 == 0
		var elapsed time.Duration
		var calls int
		var mu sync.Mutex
		synctest.Test(t, func(t *testing.T) {
			c18WithFreshCache(func() {
				old := reversedns.LookupAddrFn
				defer func() { reversedns.LookupAddrFn = old }()
				seed := rng.U64()
				reversedns.LookupAddrFn = func(ctx context.Context, addr string) ([]string, error) {
					mu.Lock()
					calls++
					k := calls
					mu.Unlock()
					r := hx.NewRNG(seed + uint64(k))
					need := time.Duration(r.Range(1, 20000))*time.Millisecond + 77*time.Microsecond
					if blockAll {
						// a resolver that never answers but honours its context; the escape only ends the
						// bubble when the context never ends (the call is then reported as stalled)
						esc := time.NewTimer(time.Minute)
						defer esc.Stop()
						select {
						case <-ctx.Done():
							return nil, ctx.Err()
						case <-esc.C:
							return nil, errC08Watchdog
						}
					}
					tm := time.NewTimer(need)
					defer tm.Stop()
					select {
					case <-ctx.Done():
						return nil, ctx.Err()
					case <-tm.C:
						return []string{"host-" + addr + "."}, nil
					}
				}
				start := time.Now()
				_, _ = reversedns.GetReverseDnsForIPs(ips)
				elapsed = time.Since(start)
			})
		})
		sample := map[string]any{"stream": "rdns", "addresses": nips, "resolver": map[bool]string{true: "blocks until its context is done", false: "answers after 1 ms .. 20 s, honours its context"}[blockAll],
			"lookups": calls, "elapsed_virtual": elapsed.String(), "bound": "5s", "addresses_with_repeats": len(ips)}
		rep.Case("rdns", fmt.Sprint(i, nips, blockAll), true, sample)
		rep.Hit("rdns:" + map[bool]string{true: "blocking", false: "slow"}[blockAll])
		rep.Hit(fmt.Sprintf("rdns:repeated-addresses=%v", len(ips) > nips))
		if elapsed > 5*time.Second || calls < nips || calls > len(ips) || (blockAll && elapsed != 5*time.Second) {
			rep.Violate(hx.Violation{Kind: "spec", What: fmt.Sprintf("GetReverseDnsForIPs over %d addresses returned after %s with %d look-ups (bound 5 s)", nips, elapsed, calls),
				Sig: map[string]string{"site": "rdns", "behaviour": "stall"}, Replay: sample})
		}
	}
}

// ---------------------------------------------------------------------------------------------

func TestC08(t *testing.T) {
	env := hx.GetEnv()
	rep := hx.NewReport("C08", env, "timed-*/cancel-*: one scripted-driver run of a real engine on the virtual clock, compared with the Lean timed model and judged by the bound formulas "+
		"(non-trivial = non-empty script); wire-*: one full run of a real driver under a real engine over the in-memory wire at production scale with silence / replies / floods / bursts, "+
		"with and without cancellation (non-trivial = at least one probe written); sack: one real runSackTraceroute against a loop-back listener; publicip / rdns: one call against scripted endpoints")
	defer rep.Write()
	rng := hx.NewRNG(env.Seed ^ 0xC08)
	orc := hx.NewOracle()

	var tcs []c05TimedCase
	for i := 0; i < env.Scale(6000, 100000); i++ {
		tcs = append(tcs, c05GenTimed(rng, []string{"par", "ser"}[i%2], i%4 == 0))
	}
	judge := func(items []c05TimedItem) map[int]bool { return c08JudgeTimed(t, rep, orc, items) }
	c05TimedBatch(t, rep, orc, "timed", tcs, judge)

	grid := c08CancelGrid(t, rng, env.Scale(60, 1000), 20)
	c05TimedBatch(t, rep, orc, "cancel", grid, judge)

	c08WireCases(t, rep, orc, rng, env.Scale(10, 100), 20)
	c08Sack(t, rep, orc, env.Thorough())
	c08SackSilentPort(t, rep)
	c08PublicIP(t, rep, rng, env.Scale(60, 1000))
	c08Rdns(t, rep, rng, env.Scale(40, 600))
	c08MultiStream(t, rep, rng.Fork(), env.Scale(250, 4000))

	if rep.Failed() {
		t.Fail()
	}
}

// c08SackSilentPort: a SACK traceroute through the REAL parameter wiring (runTracerouteOnce →
// makeSackParams → RunSackTraceroute) to a port that silently drops SYNs.  The connect attempt is the
// handshake: it must be given up after the caller's time-out (HandshakeTimeout), not after the long
// connection-teardown allowance or the kernel's own SYN retries.  Real sockets, real time: the bound
// is generous (time-out + 3 s) and a watchdog reports a run that is still going.
func c08SackSilentPort(t *testing.T, rep *hx.Report) {
	port, cleanup, err := c20SilentPort()
	if err != nil {
		rep.Note("sack silent-port case skipped: a silent port cannot be staged in this sandbox (%v)", err)
		return
	}
	defer cleanup()
	for _, timeoutMs := range []int{200, 400} {
		packets.VerifSetSourceSinkFactory(func(addr netip.Addr, _ bool) (packets.SourceSinkHandle, bool, error) {
			w := newMemWire()
			w.blockWhenEmpty = true
			return w.Handle(), true, nil
		})
		params := traceroute.TracerouteParams{Hostname: "127.0.0.1", Protocol: "tcp", MinTTL: 1, MaxTTL: 3, Delay: 1,
			Timeout: time.Duration(timeoutMs) * time.Millisecond, TCPMethod: traceroute.TCPMethod("sack")}
		type res struct {
			err error
			el  time.Duration
		}
		done := make(chan res, 1)
		start := time.Now()
		go func() {
			_, rerr := traceroute.VerifRunOnce(context.Background(), params, int(port))
			done <- res{rerr, time.Since(start)}
		}()
		bound := params.Timeout + 3*time.Second
		sample := map[string]any{"stream": "sack", "case": "silent-port (SYNs dropped)", "timeout": params.Timeout.String(), "bound_wall_clock": bound.String()}
		select {
		case r := <-done:
			sample["elapsed_wall_clock"], sample["error"] = r.el.String(), fmt.Sprint(r.err)
			rep.Case("sack", fmt.Sprint("silent-port", timeoutMs), true, sample)
			rep.Hit("sack:silent-port")
			if r.el > bound {
				rep.Violate(hx.Violation{Kind: "spec", What: fmt.Sprintf("SACK traceroute to a port that drops SYNs returned after %s of real time, bound %s (the connect attempt must be given up at the caller's time-out)", r.el, bound),
					Sig: map[string]string{"site": "sack", "behaviour": "exceeds-bound", "case": "silent-port"}, Replay: sample})
			}
		case <-time.After(bound + 2*time.Second):
			sample["elapsed_wall_clock"] = "still running after " + (bound + 2*time.Second).String()
			rep.Case("sack", fmt.Sprint("silent-port", timeoutMs), true, sample)
			rep.Violate(hx.Violation{Kind: "spec", What: fmt.Sprintf("SACK traceroute to a port that drops SYNs did not return within %s of real time (time-out %s): the connect attempt is not bounded by the caller's time-out", bound+2*time.Second, params.Timeout),
				Sig: map[string]string{"site": "sack", "behaviour": "no-return", "case": "silent-port"}, Replay: sample})
			packets.VerifSetSourceSinkFactory(nil)
			return // the stuck run keeps its goroutine; do not start another one behind it
		}
		packets.VerifSetSourceSinkFactory(nil)
	}
}
