package corr

// C12, composition stream: "the capture filter accepts every frame that the corresponding matcher
// would turn into a hop". Every catalogue reply form (all variants, several TTLs, strict/relaxed)
// is handed to the REAL driver; whenever the driver turns it into a hop, the frame (Ethernet header
// + the packet) is run through the REAL program the variant installs at that phase (x/net/bpf VM,
// and the kernel when available). A frame the matcher accepts and the filter drops is a violation
// with the frame as replay. The Lean side (`c12_compose_*`) proves the same for the driver models.

import (
	"bytes"
	"encoding/binary"
	"fmt"
	"strings"
	"testing"

	"github.com/DataDog/datadog-traceroute/packets"

	"verifharness/hx"
)

// c12InstalledFilter is the program a variant has installed while it reads probe replies
// (TRV.Generated.Filters.filterSites: icmp and udp install the ICMP filter, tcp and the SACK probing
// phase the tuple filter with Src = target, Dst = local).
func c12InstalledFilter(c drvCfg) (c12Filter, bool) {
	switch c.kind() {
	case "icmp", "udp":
		return c12Filter{Name: "icmp"}, true
	case "tcp", "sack":
		if c.v6() {
			return c12Filter{}, false
		}
		return c12Filter{Name: "tcp", SA: binary.BigEndian.Uint32(c.Target.AsSlice()), DA: binary.BigEndian.Uint32(c.Local.AsSlice()), SP: c.TPort, DP: c.LPort}, true
	}
	return c12Filter{}, false
}

func c12Frame(pkt []byte, v6 bool) []byte {
	eth := []byte{0x02, 0, 0, 0, 0, 1, 0x02, 0, 0, 0, 0, 2, 0x08, 0x00}
	if v6 {
		eth[12], eth[13] = 0x86, 0xdd
	}
	return append(eth, pkt...)
}

func c12Compose(t *testing.T, rep *hx.Report, rng *hx.RNG, kern *c12Kernel, perVariant int) {
	progs := map[string]*c12Prog{}
	for _, v := range allVariants {
		for i := 0; i < perVariant; i++ {
			cfg := genCfg(rng, v)
			mc := genCompletenessCase(t, rng, cfg, 3)
			flt, ok := c12InstalledFilter(mc.Cfg)
			if !ok {
				continue
			}
			p := progs[flt.token()]
			if p == nil {
				p = c12Compile(flt)
				progs[flt.token()] = p
			}
			if p.err != nil {
				rep.Violate(hx.Violation{Kind: "correspondence", NoInput: true, What: "compose: the filter the variant installs cannot be compiled: " + p.err.Error(),
					Sig: map[string]string{"stream": "compose"}, Replay: map[string]any{"filter": flt.token()}})
				continue
			}
			// besides the catalogue: perturbed replies, replies to other flows (another local or target port,
			// another target), destination-form replies from other hosts — whatever the REAL matcher turns
			// into a hop, genuine or not, the installed filter must have let through
			mcWide := genMatcherCase(t, rng, mc.Cfg, map[string]int{"perturbed": 6, "foreign": 4, "genuine": 1, "dest-other": 1, "unsent": 1})
			steps := append(runDrvCase(t, mc.Cfg, mc.Ops), runDrvCase(t, mcWide.Cfg, mcWide.Ops)...)
			for _, st := range steps {
				if st.Op.Send || len(st.Op.Pkt) == 0 {
					continue
				}
				accepted := strings.HasPrefix(st.Impl, "acc:")
				form := st.Op.Meta["form"]
				frame := c12Frame(st.Op.Pkt, mc.Cfg.v6())
				rep.Case("compose/"+v, mc.Cfg.oraclePrefix()+"|"+hx2(frame), accepted, nil)
				if !accepted {
					rep.Hit("compose:" + v + ":matcher-ignores")
					continue
				}
				// the same reply in other link-layer framings: what the REAL Source hands to the matcher
				// (stripEthernetHeader) must pass the filter whenever it is the packet the matcher accepted
				for _, alt := range c12AltFramings(st.Op.Pkt, mc.Cfg.v6()) {
					up, serr := packets.VerifStripEthernetHeader(alt.frame)
					delivered := serr == nil && len(up) > 0
					rep.Hit("compose:framing:" + alt.name + ":" + map[bool]string{true: "handed-to-matcher", false: "skipped"}[delivered])
					if !delivered || !bytes.Equal(up, st.Op.Pkt) {
						continue // not handed up, or not the packet the matcher accepted
					}
					n, err := p.vm.Run(alt.frame)
					if err == nil && n > 0 {
						continue
					}
					rep.Violate(hx.Violation{Kind: "spec",
						What: fmt.Sprintf("the %s filter drops a %s frame that the Source hands to the %s matcher as a packet it turns into a hop (%s): with filtering enabled this reply is lost", flt.Name, alt.name, v, st.Impl),
						Sig:  map[string]string{"defect": map[bool]string{true: "ethertype-version-mismatch-filtered", false: "matchable-frame-filtered"}[alt.name == "ethertype-of-the-other-ip-version"], "framing": alt.name, "stream": "compose"},
						Replay: map[string]any{"variant": v, "config": mc.Cfg.oraclePrefix(), "filter": flt.token(), "frame": hx2(alt.frame), "form": form, "framing": alt.name,
							"matcher_outcome": st.Impl, "filter_verdict": "drop"}})
				}
				n, err := p.vm.Run(frame)
				pass := err == nil && n > 0
				if kern != nil {
					kp, kerr := kern.verdict(flt.token(), p.raw, frame)
					if kerr == nil && kp != pass {
						rep.Violate(hx.Violation{Kind: "correspondence", What: "compose: kernel and x/net/bpf VM disagree on a frame",
							Sig: map[string]string{"stream": "compose"}, Replay: map[string]any{"filter": flt.token(), "frame": hx2(frame)}})
					}
				}
				if pass {
					rep.Hit("compose:" + v + ":accepted-and-passed")
					continue
				}
				rep.Hit("compose:" + v + ":accepted-but-filtered")
				defect := "matchable-frame-filtered"
				if mc.Cfg.v6() && len(st.Op.Pkt) > 6 && st.Op.Pkt[6] == 0 {
					defect = "icmp6-behind-hop-by-hop-filtered"
				}
				rep.Violate(hx.Violation{Kind: "spec",
					What: fmt.Sprintf("the %s filter drops a frame (form %s) that the real %s matcher turns into a hop (%s): with filtering enabled this reply is lost", flt.Name, form, v, st.Impl),
					Sig:  map[string]string{"defect": defect, "stream": "compose"},
					Replay: map[string]any{"variant": v, "config": mc.Cfg.oraclePrefix(), "filter": flt.token(), "frame": hx2(frame), "form": form,
						"matcher_outcome": st.Impl, "filter_verdict": "drop", "local": mc.Cfg.Local.String(), "target": mc.Cfg.Target.String(),
						"responder": st.Op.Meta["from"], "ttl": st.Op.Meta["ttl"]}})
			}
		}
	}
}

type c12Framing struct {
	name  string
	frame []byte
}

// c12AltFramings wraps an IP packet in link-layer framings other than plain Ethernet II.
func c12AltFramings(pkt []byte, v6 bool) []c12Framing {
	et := []byte{0x08, 0x00}
	if v6 {
		et = []byte{0x86, 0xdd}
	}
	mac := []byte{0x02, 0, 0, 0, 0, 1, 0x02, 0, 0, 0, 0, 2}
	cat := func(parts ...[]byte) []byte {
		var out []byte
		for _, p := range parts {
			out = append(out, p...)
		}
		return out
	}
	other := []byte{0x86, 0xdd}
	if v6 {
		other = []byte{0x08, 0x00}
	}
	return []c12Framing{
		{"ethertype-of-the-other-ip-version", cat(mac, other, pkt)},
		{"vlan-802.1q", cat(mac, []byte{0x81, 0x00, 0x00, 0x64}, et, pkt)},
		{"qinq-802.1ad", cat(mac, []byte{0x88, 0xa8, 0x00, 0x0a, 0x81, 0x00, 0x00, 0x64}, et, pkt)},
		{"llc-snap", cat(mac, []byte{0, byte(8 + len(pkt)), 0xaa, 0xaa, 0x03, 0, 0, 0}, et, pkt)},
		{"pppoe-session", cat(mac, []byte{0x88, 0x64, 0x11, 0, 0, 1, 0, byte(2 + len(pkt)), 0, map[bool]byte{false: 0x21, true: 0x57}[v6]}, pkt)},
	}
}
