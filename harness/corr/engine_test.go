package corr

// C03 / C07: the real engines (common.TracerouteParallel, common.TracerouteSerial) under a scripted
// TracerouteDriver inside a synctest bubble (virtual clock), compared with the Lean engine model and
// with the executable spec predicates evaluated on the implementation's own output.

import (
	"context"
	"encoding/hex"
	"errors"
	"fmt"
	"math"
	"net/netip"
	"strings"
	"sync"
	"testing"
	"testing/synctest"
	"time"

	"github.com/DataDog/datadog-traceroute/common"

	"verifharness/hx"
)

type recvKind int

const (
	kAccept recvKind = iota
	kRetryNoPkt
	kRetryBadPkt
	kRetryWrapped
	kFatal
	kNil
)

type recvEntry struct {
	Kind  recvKind
	Probe common.ProbeResponse
	Dur   time.Duration
}

func (e recvEntry) token() string {
	switch e.Kind {
	case kAccept:
		return "a:" + probeToken(&e.Probe)
	case kFatal:
		return "f"
	case kNil:
		return "n"
	default:
		return "r"
	}
}

func ipHex(a netip.Addr) string {
	b := a.AsSlice()
	if len(b) == 0 {
		return "-"
	}
	return hex.EncodeToString(b)
}

func b2s(b bool) string {
	if b {
		return "1"
	}
	return "0"
}

func probeToken(p *common.ProbeResponse) string {
	return fmt.Sprintf("%d:%s:%d:%s", p.TTL, ipHex(p.IP), int64(p.RTT), b2s(p.IsDest))
}

var errSendInjected = errors.New("verif: injected send failure")
var errRecvInjected = errors.New("verif: injected receive failure")

// scriptDriver is a TracerouteDriver whose ReceiveProbe outcomes and durations are scripted.
type scriptDriver struct {
	parallel  bool
	script    []recvEntry
	sendErrAt int // index of the SendProbe call that fails, -1 = never
	sendDur   time.Duration
	sendDurs  []time.Duration // per-call duration of SendProbe (overrides sendDur where present)

	mu       sync.Mutex
	pos      int
	sends    []uint8
	sendAt   []time.Duration
	windows  [][]recvEntry // consumed entries grouped by the SendProbe call preceding them
	start    time.Time
	recvSeen int
}

func (d *scriptDriver) GetDriverInfo() common.TracerouteDriverInfo {
	return common.TracerouteDriverInfo{SupportsParallel: d.parallel}
}

func (d *scriptDriver) SendProbe(ttl uint8) error {
	d.mu.Lock()
	idx := len(d.sends)
	d.sends = append(d.sends, ttl)
	d.sendAt = append(d.sendAt, time.Since(d.start))
	d.windows = append(d.windows, nil)
	d.mu.Unlock()
	dur := d.sendDur
	if idx < len(d.sendDurs) {
		dur = d.sendDurs[idx]
	}
	if dur > 0 {
		time.Sleep(dur)
	}
	if idx == d.sendErrAt {
		return errSendInjected
	}
	return nil
}

func (d *scriptDriver) ReceiveProbe(timeout time.Duration) (*common.ProbeResponse, error) {
	d.mu.Lock()
	if d.pos >= len(d.script) {
		d.mu.Unlock()
		time.Sleep(timeout)
		return nil, &common.ReceiveProbeNoPktError{Err: errors.New("script exhausted")}
	}
	e := d.script[d.pos]
	d.pos++
	if len(d.windows) > 0 {
		d.windows[len(d.windows)-1] = append(d.windows[len(d.windows)-1], e)
	}
	d.mu.Unlock()
	if e.Dur > 0 {
		time.Sleep(e.Dur)
	}
	switch e.Kind {
	case kAccept:
		p := e.Probe
		return &p, nil
	case kRetryNoPkt:
		return nil, common.ErrPacketDidNotMatchTraceroute
	case kRetryBadPkt:
		return nil, &common.BadPacketError{Err: errors.New("scripted bad packet")}
	case kRetryWrapped:
		return nil, fmt.Errorf("wrapped: %w", &common.BadPacketError{Err: errors.New("scripted bad packet")})
	case kFatal:
		return nil, errRecvInjected
	default:
		return nil, nil
	}
}

type engCase struct {
	Engine    string // par | ser
	Min, Max  int
	Parallel  bool
	Script    []recvEntry
	SendErrAt int
	CancelAt  time.Duration // 0 = never
	Timeout   time.Duration
	Delay     time.Duration
	Poll      time.Duration
	SendDurs  []time.Duration // optional per-call SendProbe durations
}

type engOutcome struct {
	Res      string // canonical result string (same format as the oracle)
	Slots    []*common.ProbeResponse
	Consumed []recvEntry
	Windows  [][]recvEntry
	Sends    []uint8
	SendAt   []time.Duration
	Elapsed  time.Duration
	HopsOK   bool
	HopsTok  []string
	FloatBad string
}

func classifyErr(err error) string {
	switch {
	case errors.Is(err, errSendInjected):
		return "send-failed"
	case errors.Is(err, errRecvInjected):
		return "recv-failed"
	case errors.Is(err, context.Canceled), errors.Is(err, context.DeadlineExceeded):
		return "cancelled"
	}
	m := err.Error()
	switch {
	case strings.Contains(m, "min TTL must"):
		return "invalid-params"
	case strings.Contains(m, "doesn't support parallel"):
		return "not-parallel"
	case strings.Contains(m, "invalid TTL"), strings.Contains(m, "returned nil without an error"):
		return "bad-probe"
	}
	return "other:" + m
}

func slotToken(p *common.ProbeResponse) string {
	if p == nil {
		return "_"
	}
	return probeToken(p)
}

// runEngineCase executes the real engine on a scripted driver inside a synctest bubble.
func runEngineCase(t *testing.T, c engCase) engOutcome {
	var out engOutcome
	synctest.Test(t, func(t *testing.T) {
		d := &scriptDriver{parallel: c.Parallel, script: c.Script, sendErrAt: c.SendErrAt, sendDurs: c.SendDurs, start: time.Now()}
		ctx, cancel := context.WithCancel(context.Background())
		defer cancel()
		if c.CancelAt > 0 {
			tm := time.AfterFunc(c.CancelAt, cancel)
			defer tm.Stop()
		}
		params := common.TracerouteParams{
			MinTTL: uint8(c.Min), MaxTTL: uint8(c.Max),
			TracerouteTimeout: c.Timeout, PollFrequency: c.Poll, SendDelay: c.Delay,
		}
		var res []*common.ProbeResponse
		var err error
		func() {
			defer func() {
				if r := recover(); r != nil {
					err = fmt.Errorf("verif-panic: %v", r)
				}
			}()
			if c.Engine == "par" {
				res, err = common.TracerouteParallel(ctx, d, common.TracerouteParallelParams{TracerouteParams: params})
			} else {
				res, err = common.TracerouteSerial(ctx, d, common.TracerouteSerialParams{TracerouteParams: params})
			}
		}()
		out.Elapsed = time.Since(d.start)
		d.mu.Lock()
		out.Consumed = append([]recvEntry(nil), d.script[:d.pos]...)
		out.Windows = d.windows
		out.Sends = d.sends
		out.SendAt = d.sendAt
		d.mu.Unlock()
		if err != nil {
			if strings.HasPrefix(err.Error(), "verif-panic") {
				out.Res = "err panic"
			} else {
				out.Res = "err " + classifyErr(err)
			}
			return
		}
		out.Slots = res
		toks := make([]string, len(res))
		for i, p := range res {
			toks[i] = slotToken(p)
		}
		hops, herr := common.ToHops(params, res)
		hopStr := "tohops-error"
		if herr == nil {
			out.HopsOK = true
			hs := make([]string, len(hops))
			for i, h := range hops {
				var ns int64
				if res[i] != nil {
					ns = int64(res[i].RTT)
					want := float64(ns) / 1e6
					if math.Abs(h.RTT-want) > 1e-9*math.Max(1, math.Abs(want)) {
						out.FloatBad = fmt.Sprintf("hop %d rtt %v for %d ns", h.TTL, h.RTT, ns)
					}
				} else if h.RTT != 0 {
					out.FloatBad = fmt.Sprintf("empty hop %d has rtt %v", h.TTL, h.RTT)
				}
				ip := "-"
				if len(h.IPAddress) > 0 {
					ip = hex.EncodeToString(h.IPAddress)
				}
				hs[i] = fmt.Sprintf("%d:%s:%d:%s", h.TTL, ip, ns, b2s(h.IsDest))
			}
			out.HopsTok = hs
			hopStr = strings.Join(hs, " ")
		}
		out.Res = "ok " + strings.Join(toks, ",") + " hops " + hopStr
	})
	return out
}

var addrPool = []netip.Addr{
	netip.MustParseAddr("10.0.0.1"), netip.MustParseAddr("10.0.0.2"), netip.MustParseAddr("172.16.5.9"),
	netip.MustParseAddr("192.0.2.77"), netip.MustParseAddr("2001:db8::1"), netip.MustParseAddr("fd00::5"),
}
var destAddr = netip.MustParseAddr("198.51.100.9")

func genEngineCase(r *hx.RNG, engine string, small bool) engCase {
	c := engCase{Engine: engine, Parallel: true, SendErrAt: -1,
		Timeout: 500 * time.Millisecond, Delay: 10 * time.Millisecond, Poll: 50 * time.Millisecond}
	switch {
	case small:
		c.Min = r.Range(1, 3)
		c.Max = c.Min + r.Range(0, 4)
	case r.Chance(1, 10):
		c.Min = r.Range(1, 255)
		c.Max = r.Range(c.Min, 255)
		if r.Bool() {
			c.Max = 255 // the last TTL an 8-bit counter can hold: MaxTTL + 1 does not fit
			if r.Bool() {
				c.Min = r.Range(1, 3)
			}
		}
	default:
		c.Min = r.Range(1, 4)
		c.Max = c.Min + r.Range(0, 12)
	}
	if r.Chance(1, 40) { // invalid parameter sets
		if r.Bool() {
			c.Min = 0
		} else {
			c.Min, c.Max = c.Max+1, c.Min
		}
	}
	if engine == "par" && r.Chance(1, 60) {
		c.Parallel = false
	}
	mode := r.Intn(20) // 0: send error, 1: fatal, 2: nil probe, 3: out-of-range TTL, 4: ext cancel, else clean
	n := r.Range(0, 14)
	if c.Max-c.Min > 20 {
		n = r.Range(0, 40)
	}
	destTTL := -1
	if r.Chance(2, 3) && c.Max >= c.Min {
		destTTL = r.Range(c.Min, c.Max)
	}
	for i := 0; i < n; i++ {
		e := recvEntry{Dur: time.Duration(r.Intn(4)) * time.Duration(r.Range(1, 40)) * time.Millisecond}
		if e.Dur > 0 {
			e.Dur += time.Duration(r.Range(1, 999)) * time.Microsecond // avoid ties with timers
		}
		switch k := r.Intn(10); {
		case k < 6:
			e.Kind = kAccept
			ttl := c.Min
			if c.Max >= c.Min {
				ttl = r.Range(c.Min, c.Max)
			}
			p := common.ProbeResponse{TTL: uint8(ttl), IP: hx.Pick(r, addrPool), RTT: time.Duration(r.Range(1, 90_000_000))}
			if destTTL >= 0 && (ttl == destTTL && r.Chance(3, 4) || r.Chance(1, 12)) {
				p.IsDest = true
				p.IP = destAddr
			}
			if r.Chance(1, 50) {
				p.IP = netip.Addr{}
			}
			e.Probe = p
		case k == 6:
			e.Kind = kRetryNoPkt
		case k == 7:
			e.Kind = kRetryBadPkt
		case k == 8:
			e.Kind = kRetryWrapped
		default:
			e.Kind = kRetryNoPkt
		}
		c.Script = append(c.Script, e)
	}
	switch mode {
	case 0:
		c.SendErrAt = r.Intn(3)
	case 1, 2, 3:
		e := recvEntry{Kind: kFatal}
		if mode == 2 {
			e.Kind = kNil
		}
		if mode == 3 {
			e.Kind = kAccept
			bad := c.Max + 1 + r.Intn(3)
			if r.Bool() || bad > 255 {
				bad = c.Min - 1
			}
			if bad < 0 {
				bad = 0
			}
			e.Probe = common.ProbeResponse{TTL: uint8(bad), IP: hx.Pick(r, addrPool), RTT: 1000}
			if r.Bool() { // a destination-form reply just outside the probed range
				e.Probe.IsDest, e.Probe.IP = true, destAddr
			}
		}
		at := r.Intn(len(c.Script) + 1)
		c.Script = append(c.Script[:at], append([]recvEntry{e}, c.Script[at:]...)...)
	case 4:
		c.CancelAt = time.Duration(r.Range(1, 300))*time.Millisecond + 137*time.Microsecond
	}
	return c
}

func oracleLineFor(c engCase, o engOutcome) string {
	sendErr := o.Res == "err send-failed"
	cancelled := o.Res == "err cancelled"
	if c.Engine == "par" {
		toks := make([]string, len(o.Consumed))
		for i, e := range o.Consumed {
			toks[i] = e.token()
		}
		return strings.TrimRight(fmt.Sprintf("eng.par %d %d %s %s %s %s", c.Min, c.Max, b2s(c.Parallel), b2s(sendErr), b2s(cancelled), strings.Join(toks, " ")), " ")
	}
	var ws []string
	for _, w := range o.Windows {
		toks := make([]string, len(w))
		for i, e := range w {
			toks[i] = e.token()
		}
		ws = append(ws, strings.Join(toks, " "))
	}
	return strings.TrimRight(fmt.Sprintf("eng.ser %d %d %s %s %s", c.Min, c.Max, b2s(sendErr), b2s(cancelled), strings.Join(ws, " | ")), " ")
}

func acceptedTokens(c engCase, o engOutcome) []string {
	var toks []string
	if c.Engine == "par" {
		for _, e := range o.Consumed {
			if e.Kind == kAccept {
				toks = append(toks, probeToken(&e.Probe))
			}
		}
		return toks
	}
	// serial: the first accepted probe of each window, stopping after a destination reply
	for _, w := range o.Windows {
		for _, e := range w {
			if e.Kind == kAccept {
				toks = append(toks, probeToken(&e.Probe))
				if e.Probe.IsDest {
					return toks
				}
				break
			}
		}
	}
	return toks
}

func caseJSON(c engCase, o engOutcome) map[string]any {
	script := make([]string, len(c.Script))
	for i, e := range c.Script {
		script[i] = fmt.Sprintf("%s@%s", e.token(), e.Dur)
	}
	return map[string]any{"engine": c.Engine, "min": c.Min, "max": c.Max, "supports_parallel": c.Parallel,
		"script": script, "send_err_at": c.SendErrAt, "cancel_at": c.CancelAt.String(),
		"impl_result": o.Res, "oracle_line": oracleLineFor(c, o)}
}

// runEngineProperty drives C03 (shape) or C07 (merge) over both/one engine.
func runEngineProperty(t *testing.T, prop string) {
	env := hx.GetEnv()
	rep := hx.NewReport(prop, env, "scripted ReceiveProbe/SendProbe histories under the real engine in a synctest bubble; "+
		"non-trivial = the run returned a hop list and at least one probe was accepted; distinct by (params, consumed outcome sequence)")
	defer rep.Write()
	rng := hx.NewRNG(env.Seed ^ 0xC0307)
	orc := hx.NewOracle()

	engines := []string{"par"}
	if prop == "C03" {
		engines = []string{"par", "ser"}
	}
	type item struct {
		c engCase
		o engOutcome
	}
	var items []item
	n := env.Scale(3000, 60000)
	for i := 0; i < n; i++ {
		eng := engines[i%len(engines)]
		c := genEngineCase(rng, eng, i%3 == 0)
		o := runEngineCase(t, c)
		items = append(items, item{c, o})
	}
	// exhaustive small scope (validation of the model, not the proof): ≤ 3 TTLs, ≤ 2 replies per
	// TTL, every order of up to 4 deliveries drawn from them
	if prop == "C07" || prop == "C03" {
		for _, c := range exhaustiveSmall(env.Thorough()) {
			for _, eng := range engines {
				c.Engine = eng
				items = append(items, item{c, runEngineCase(t, c)})
			}
		}
	}

	lines := make([]string, 0, len(items)*2)
	for _, it := range items {
		lines = append(lines, oracleLineFor(it.c, it.o))
	}
	answers, err := orc.Batch(lines)
	if err != nil {
		t.Fatalf("oracle: %v", err)
	}
	// spec-on-impl lines only for successful runs
	var specLines []string
	var specIdx []int
	for i, it := range items {
		if !strings.HasPrefix(it.o.Res, "ok ") {
			continue
		}
		acc := strings.Join(acceptedTokens(it.c, it.o), " ")
		if prop == "C07" {
			specLines = append(specLines, strings.TrimRight(fmt.Sprintf("spec.expected %d %d %s", it.c.Min, it.c.Max, acc), " "))
		} else {
			specLines = append(specLines, strings.TrimRight(fmt.Sprintf("spec.shape %d %d %s ; %s", it.c.Min, it.c.Max, strings.Join(it.o.HopsTok, " "), acc), " "))
		}
		specIdx = append(specIdx, i)
	}
	specAns, err := orc.Batch(specLines)
	if err != nil {
		t.Fatalf("oracle(spec): %v", err)
	}
	specOf := map[int]string{}
	for k, i := range specIdx {
		specOf[i] = specAns[k]
	}

	for i, it := range items {
		c, o := it.c, it.o
		kind := strings.SplitN(o.Res, " ", 3)
		rep.Hit("result:" + kind[0] + " " + func() string {
			if kind[0] == "err" {
				return kind[1]
			}
			return ""
		}())
		rep.Hit("engine:" + c.Engine)
		nAcc := len(acceptedTokens(c, o))
		rep.Case(c.Engine, lines[i], kind[0] == "ok" && nAcc > 0, caseJSON(c, o))
		specBad := ""
		if sv, ok := specOf[i]; ok {
			if prop == "C07" {
				slots := make([]string, len(o.Slots))
				for k, p := range o.Slots {
					slots[k] = slotToken(p)
				}
				if got := strings.Join(slots, ","); got != sv {
					specBad = fmt.Sprintf("result %q is not the first-wins/destination-overrides merge %q of the accepted replies", got, sv)
				}
			} else {
				if !o.HopsOK {
					specBad = "ToHops failed on the engine's own result"
				} else if sv != "1" {
					specBad = "hop list violates the path shape: " + strings.Join(o.HopsTok, " ")
				}
			}
		}
		if o.FloatBad != "" && specBad == "" && prop == "C03" {
			specBad = "hop RTT does not correspond to the probe RTT: " + o.FloatBad
		}
		if o.Res == "err panic" {
			specBad = "engine panicked"
		}
		if specBad == "" && c.Engine == "par" && kind[0] == "ok" && len(o.Consumed) < len(c.Script) {
			// the parallel engine listens for timeout + (number of probes) × delay; a successful run that is
			// over before that with replies still to come has stopped reading too early: what arrives
			// later inside the listening window is not reflected in the result
			maxTimeout := c.Timeout + c.Delay*time.Duration(c.Max-c.Min+1)
			if o.Elapsed < maxTimeout {
				specBad = fmt.Sprintf("the parallel run returned after %s, before its listening time %s was over, with %d scripted deliveries still unread (e.g. %s)",
					o.Elapsed, maxTimeout, len(c.Script)-len(o.Consumed), c.Script[len(o.Consumed)].token())
			}
		}
		if specBad != "" {
			rep.Violate(hx.Violation{Kind: "spec", What: specBad, Sig: map[string]string{"engine": c.Engine, "result": kind[0]}, Replay: caseJSON(c, o)})
			continue
		}
		if answers[i] != o.Res {
			rj := caseJSON(c, o)
			rj["model_result"] = answers[i]
			rj["broken"] = "correspondence stream engine/" + c.Engine + " (Lean TRV.Engine vs common.Traceroute" + strings.Title(c.Engine) + ")"
			rep.Violate(hx.Violation{Kind: "correspondence", NoInput: true,
				What: "engine model and implementation differ (" + c.Engine + "); spec predicate holds on the implementation output",
				Sig:  map[string]string{"engine": c.Engine, "stream": "engine"}, Replay: rj})
		}
	}
	if rep.Failed() {
		t.Fail()
	}
}

// exhaustiveSmall enumerates every delivery sequence of length ≤ L over the reply alphabet
// {TTL 1..T} × {router reply, destination reply}, plus noise at every position for L ≤ 3.
func exhaustiveSmall(thorough bool) []engCase {
	T, L := 3, 4
	if thorough {
		T, L = 3, 5
	}
	var alphabet []recvEntry
	for ttl := 1; ttl <= T; ttl++ {
		alphabet = append(alphabet,
			recvEntry{Kind: kAccept, Probe: common.ProbeResponse{TTL: uint8(ttl), IP: addrPool[ttl%len(addrPool)], RTT: time.Duration(ttl) * time.Millisecond}},
			recvEntry{Kind: kAccept, Probe: common.ProbeResponse{TTL: uint8(ttl), IP: destAddr, RTT: time.Duration(ttl+10) * time.Millisecond, IsDest: true}})
	}
	alphabet = append(alphabet, recvEntry{Kind: kRetryBadPkt})
	var out []engCase
	var rec func(prefix []recvEntry)
	rec = func(prefix []recvEntry) {
		c := engCase{Min: 1, Max: T, Parallel: true, SendErrAt: -1, Script: append([]recvEntry(nil), prefix...),
			Timeout: 200 * time.Millisecond, Delay: 10 * time.Millisecond, Poll: 50 * time.Millisecond}
		out = append(out, c)
		if len(prefix) == L {
			return
		}
		for _, a := range alphabet {
			rec(append(prefix, a))
		}
	}
	rec(nil)
	return out
}

func TestC07(t *testing.T) { runEngineProperty(t, "C07") }
func TestC03(t *testing.T) { runEngineProperty(t, "C03") }
