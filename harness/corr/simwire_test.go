package corr

// In-memory packets.Source / packets.Sink (the "simulated wire") used by every driver-level check.
// Deadlines are honoured with the (virtual, inside synctest) clock. Every call is logged so that
// handle discipline (C10) and emission (C06) can be checked; faults can be injected per call index.

import (
	"bytes"
	"errors"
	"fmt"
	"net/netip"
	"os"
	"sync"
	"syscall"
	"time"

	"github.com/DataDog/datadog-traceroute/packets"
)

type wireFault struct {
	Op     string // read | write | deadline | filter | close-source | close-sink
	K      int    // k-th call of Op (0-based)
	Class  string // fatal | deadline | zero | fatal-slow (write: fails after SlowBy of virtual time)
	SlowBy time.Duration
}

var errWireInjected = errors.New("verif: injected wire fault")

// errWireDeadline is what a real capture handle returns when its read deadline has passed: the
// sentinel WRAPPED in a *os.PathError (os.File) — never the bare os.ErrDeadlineExceeded.
func errWireDeadline() error {
	return &os.PathError{Op: "read", Path: "verif-wire", Err: os.ErrDeadlineExceeded}
}

// wireTimeoutErr is an injected failure (errors.Is(err, errWireInjected)) that reports Timeout() == true.
type wireTimeoutErr struct{}

func (wireTimeoutErr) Error() string   { return "verif: injected wire fault: connection timed out" }
func (wireTimeoutErr) Timeout() bool   { return true }
func (wireTimeoutErr) Temporary() bool { return true }
func (wireTimeoutErr) Unwrap() error   { return errWireInjected }

type wireLog struct {
	mu      sync.Mutex
	calls   []string
	counts  map[string]int
	writes  []wireWrite
	filters []packets.PacketFilterSpec
	start   time.Time
}

type wireWrite struct {
	At   time.Duration
	Pkt  []byte
	Dest netip.AddrPort
}

func (l *wireLog) hit(op string) int {
	l.mu.Lock()
	defer l.mu.Unlock()
	if l.counts == nil {
		l.counts = map[string]int{}
	}
	k := l.counts[op]
	l.counts[op] = k + 1
	l.calls = append(l.calls, op)
	return k
}

// memWire is a Source+Sink pair sharing one log.
type memWire struct {
	log    *wireLog
	faults []wireFault

	mu        sync.Mutex
	cond      chan struct{} // signalled (closed+replaced) when a packet is queued or the source closed
	queue     [][]byte
	deadline  time.Time
	srcClose  int
	snkClose  int
	useAfter  []string
	idleReads int // consecutive reads that returned at once with an expired deadline
	// onWrite, if set, is called for every written packet (outside the lock); scripted routers use
	// it to schedule replies.
	onWrite func(pkt []byte, dst netip.AddrPort)
	// blockWhenEmpty: Read waits for the deadline when no packet is queued (engine runs); otherwise
	// it returns os.ErrDeadlineExceeded at once (matcher-level runs).
	blockWhenEmpty bool
	// clobbered: the buffer handed to WriteTo changed while the write was in progress (between entry
	// and return of the sink's call-back) — the caller gave away bytes it no longer owns
	clobbered []string
}

func newMemWire() *memWire {
	return &memWire{log: &wireLog{start: time.Now()}, cond: make(chan struct{})}
}

func (w *memWire) fault(op string, k int) (string, bool) {
	for _, f := range w.faults {
		if f.Op == op && f.K == k {
			return f.Class, true
		}
	}
	return "", false
}

func (w *memWire) faultRec(op string, k int) (wireFault, bool) {
	for _, f := range w.faults {
		if f.Op == op && f.K == k {
			return f, true
		}
	}
	return wireFault{}, false
}

// Inject queues an inbound packet.
func (w *memWire) Inject(pkt []byte) {
	w.mu.Lock()
	w.queue = append(w.queue, append([]byte(nil), pkt...))
	old := w.cond
	w.cond = make(chan struct{})
	w.mu.Unlock()
	close(old)
}

type memSource struct{ w *memWire }
type memSink struct{ w *memWire }

func (w *memWire) Source() packets.Source { return &memSource{w} }
func (w *memWire) Sink() packets.Sink     { return &memSink{w} }
func (w *memWire) Handle() packets.SourceSinkHandle {
	return packets.SourceSinkHandle{Source: w.Source(), Sink: w.Sink()}
}

func (s *memSource) SetReadDeadline(t time.Time) error {
	k := s.w.log.hit("deadline")
	s.w.mu.Lock()
	if s.w.srcClose > 0 {
		s.w.useAfter = append(s.w.useAfter, "SetReadDeadline after Close")
	}
	s.w.deadline = t
	s.w.mu.Unlock()
	if c, ok := s.w.fault("deadline", k); ok && c == "fatal" {
		return fmt.Errorf("set deadline: %w", errWireInjected)
	}
	return nil
}

func (s *memSource) Read(buf []byte) (int, error) {
	k := s.w.log.hit("read")
	if f, ok := s.w.faultRec("read", k); ok && f.Class == "fatal-slow" {
		time.Sleep(f.SlowBy) // the read stays blocked (e.g. past the run's deadline) and then fails
		return 0, fmt.Errorf("read: %w", errWireInjected)
	}
	if c, ok := s.w.fault("read", k); ok {
		switch c {
		case "fatal":
			return 0, fmt.Errorf("read: %w", errWireInjected)
		case "fatal-timeout":
			// a genuine read FAILURE whose error value happens to answer Timeout() == true (ETIMEDOUT in
			// a PathError, a net.OpError): it is not the read-deadline sentinel, the read did fail
			return 0, &os.PathError{Op: "read", Path: "capture", Err: wireTimeoutErr{}}
		case "zero":
			return 0, nil
		case "deadline":
			return 0, fmt.Errorf("read: %w", os.ErrDeadlineExceeded)
		}
	}
	for {
		s.w.mu.Lock()
		if s.w.srcClose > 0 {
			s.w.useAfter = append(s.w.useAfter, "Read after Close")
			s.w.mu.Unlock()
			return 0, os.ErrClosed
		}
		if len(s.w.queue) > 0 {
			p := s.w.queue[0]
			s.w.queue = s.w.queue[1:]
			s.w.mu.Unlock()
			return copy(buf, p), nil
		}
		dl := s.w.deadline
		ch := s.w.cond
		block := s.w.blockWhenEmpty
		s.w.mu.Unlock()
		if !block {
			return 0, errWireDeadline()
		}
		wait := time.Until(dl)
		if dl.IsZero() {
			wait = time.Second
		}
		if wait <= 0 {
			s.w.mu.Lock()
			s.w.idleReads++
			n := s.w.idleReads
			s.w.mu.Unlock()
			if n > wireMaxIdleReads {
				noteRunaway("more than 200000 reads in a row after the read deadline had passed")
				return 0, errRunaway
			}
			return 0, errWireDeadline()
		}
		s.w.mu.Lock()
		s.w.idleReads = 0
		s.w.mu.Unlock()
		tm := time.NewTimer(wait)
		select {
		case <-ch:
			tm.Stop()
		case <-tm.C:
			return 0, errWireDeadline()
		}
	}
}

func (s *memSource) Close() error {
	k := s.w.log.hit("close-source")
	s.w.mu.Lock()
	s.w.srcClose++
	old := s.w.cond
	s.w.cond = make(chan struct{})
	s.w.mu.Unlock()
	close(old)
	if _, ok := s.w.fault("close-source", k); ok {
		return fmt.Errorf("close source: %w", errWireInjected)
	}
	return nil
}

func (s *memSource) SetPacketFilter(spec packets.PacketFilterSpec) error {
	k := s.w.log.hit("filter")
	s.w.log.mu.Lock()
	s.w.log.filters = append(s.w.log.filters, spec)
	s.w.log.mu.Unlock()
	s.w.mu.Lock()
	if s.w.srcClose > 0 {
		s.w.useAfter = append(s.w.useAfter, "SetPacketFilter after Close")
	}
	s.w.mu.Unlock()
	if _, ok := s.w.fault("filter", k); ok {
		return fmt.Errorf("filter: %w", errWireInjected)
	}
	return nil
}

func (s *memSink) WriteTo(buf []byte, addrPort netip.AddrPort) error {
	k := s.w.log.hit("write")
	if k >= wireMaxWrites {
		noteRunaway("more than 1500 probes written to one handle")
		return errRunaway
	}
	s.w.mu.Lock()
	if s.w.snkClose > 0 {
		s.w.useAfter = append(s.w.useAfter, "WriteTo after Close")
	}
	cb := s.w.onWrite
	s.w.mu.Unlock()
	if f, ok := s.w.faultRec("write", k); ok {
		if f.Class == "fatal-slow" && f.SlowBy > 0 {
			time.Sleep(f.SlowBy) // the send is in flight while other things happen
		}
		if f.Class == "enobufs" { // transient kernel condition: this one write fails, the next would succeed
			return os.NewSyscallError("sendto", syscall.ENOBUFS)
		}
		return fmt.Errorf("write: %w", errWireInjected)
	}
	p := append([]byte(nil), buf...)
	s.w.log.mu.Lock()
	s.w.log.writes = append(s.w.log.writes, wireWrite{At: time.Since(s.w.log.start), Pkt: p, Dest: addrPort})
	s.w.log.mu.Unlock()
	if cb != nil {
		cb(p, addrPort)
		if !bytes.Equal(buf, p) {
			s.w.mu.Lock()
			s.w.clobbered = append(s.w.clobbered, fmt.Sprintf("write #%d: handed over %x, the same buffer held %x when the write returned", k, p, buf))
			s.w.mu.Unlock()
		}
	}
	return nil
}

func (s *memSink) Close() error {
	k := s.w.log.hit("close-sink")
	s.w.mu.Lock()
	s.w.snkClose++
	s.w.mu.Unlock()
	if _, ok := s.w.fault("close-sink", k); ok {
		return fmt.Errorf("close sink: %w", errWireInjected)
	}
	return nil
}

// lastWrite returns the most recent packet handed to the sink.
func (w *memWire) lastWrite() []byte {
	w.log.mu.Lock()
	defer w.log.mu.Unlock()
	if len(w.log.writes) == 0 {
		return nil
	}
	return w.log.writes[len(w.log.writes)-1].Pkt
}

func (w *memWire) writeCount() int {
	w.log.mu.Lock()
	defer w.log.mu.Unlock()
	return len(w.log.writes)
}
