package corr

// C08 (public-IP part): a provider that accepts the request and never answers. The RoundTripper
// blocks until the request's own context is done; if the request was built without the
// per-provider timeout context (finding F9) it never unblocks and GetPublicIP never returns.
// The helper detects that on the virtual clock without hanging the test binary.

import (
	"context"
	"errors"
	"net/http"
	"sync/atomic"
	"testing"
	"testing/synctest"
	"time"

	"github.com/DataDog/datadog-traceroute/publicip"
)

var errC08Released = errors.New("verif: stalled transport released by the harness")

type c08StallTransport struct {
	release chan struct{}
	calls   atomic.Int32
}

func (s *c08StallTransport) RoundTrip(req *http.Request) (*http.Response, error) {
	s.calls.Add(1)
	select {
	case <-req.Context().Done(): // nil channel (blocks forever) for a context-less request
		return nil, req.Context().Err()
	case <-s.release:
		return nil, errC08Released
	}
}

// c08PublicIPStallCase runs the real GetPublicIP against two providers that never answer and
// reports whether it returned and after how much virtual time. The bound to compare with is
// providers × (2 s + the time an attempt needs to notice its context) = 4 s. When the call does
// not return within 60 s of virtual time the transports are released through a side channel so
// that the bubble can be left; `returned` is then false and `elapsedVirtual` is the time waited.
func c08PublicIPStallCase(t *testing.T) (elapsedVirtual time.Duration, returned bool) {
	synctest.Test(t, func(t *testing.T) {
		urls, _ := c18ProviderURLs(2)
		old := publicip.VerifSetIPCheckers(urls)
		defer publicip.VerifSetIPCheckers(old)
		tr := &c08StallTransport{release: make(chan struct{})}
		client := &http.Client{Transport: tr}
		start := time.Now()
		var done atomic.Bool
		var doneAt atomic.Int64
		finished := make(chan struct{})
		go func() {
			defer close(finished)
			_, _ = publicip.GetPublicIP(context.Background(), client, c18BackoffPolicy())
			doneAt.Store(int64(time.Since(start)))
			done.Store(true)
		}()
		const limit = 60 * time.Second
		for waited := time.Duration(0); waited < limit && !done.Load(); waited += 250 * time.Millisecond {
			time.Sleep(250 * time.Millisecond)
			synctest.Wait()
		}
		if done.Load() {
			returned = true
			elapsedVirtual = time.Duration(doneAt.Load())
		} else {
			elapsedVirtual = time.Since(start)
			close(tr.release) // unblock the stalled attempts so that every goroutine of the bubble ends
		}
		<-finished
	})
	return
}
