package corr

// C20, real SACK path: traceroute.VerifRunOnce (tcp, methods sack / prefer_sack / syn) → real
// performTCPFallback → real sack.RunSackTraceroute / tcp.Traceroute over the simulated wire, with a
// real loop-back TCP listener as the target. The wire script decides the target's capability
// (SYN-ACK with/without SACK-permitted, with/without timestamps, never captured; ACKs with/without
// SACK blocks) and injects non-capability faults (filter, send, read, source/sink creation).
// Observed: probe kinds on the wire (SYN vs ACK|PSH), accepted connections, errors.As on the chain.

import (
	"context"
	"encoding/binary"
	"errors"
	"fmt"
	"net"
	"net/netip"
	"os"
	"os/exec"
	"strings"
	"sync"
	"testing"
	"testing/synctest"
	"time"

	"github.com/DataDog/datadog-traceroute/sack"
	"github.com/DataDog/datadog-traceroute/traceroute"

	"verifharness/hx"
)

var c20Fault = errors.New("verif: injected wire fault")

// c20TCPFrame builds an IPv4+TCP frame by hand (no payload).
func c20TCPFrame(src, dst netip.Addr, sport, dport uint16, seq, ack uint32, flags byte, opts []byte) []byte {
	for len(opts)%4 != 0 {
		opts = append(opts, 1) // NOP
	}
	tcpLen := 20 + len(opts)
	b := make([]byte, 20+tcpLen)
	b[0] = 0x45
	binary.BigEndian.PutUint16(b[2:], uint16(len(b)))
	binary.BigEndian.PutUint16(b[4:], 0x1234)
	b[8] = 64
	b[9] = 6
	copy(b[12:16], src.AsSlice())
	copy(b[16:20], dst.AsSlice())
	var sum uint32
	for i := 0; i < 20; i += 2 {
		sum += uint32(binary.BigEndian.Uint16(b[i:]))
	}
	for sum>>16 != 0 {
		sum = sum&0xffff + sum>>16
	}
	binary.BigEndian.PutUint16(b[10:], ^uint16(sum))
	t := b[20:]
	binary.BigEndian.PutUint16(t[0:], sport)
	binary.BigEndian.PutUint16(t[2:], dport)
	binary.BigEndian.PutUint32(t[4:], seq)
	binary.BigEndian.PutUint32(t[8:], ack)
	t[12] = byte(tcpLen/4) << 4
	t[13] = flags
	binary.BigEndian.PutUint16(t[14:], 65535)
	copy(t[20:], opts)
	return b
}

type c20SackCase struct {
	Name    string
	Failure string // TRV.Policy.SackFailure name for `pol.sack` ("" = SACK succeeds)
	Listen  bool
	SynAck  string // none | plain | sackperm | sackperm-ts | trunc-ts
	// ForeignSynAck: another connection's SYN-ACK (same target addr:port, another local port) is captured first
	ForeignSynAck bool
	Reply         string // none | sack | plain
	// faults
	FilterErrAt   int // index of the failing SetPacketFilter call on the SACK handle, -1 none
	SinkFail      bool
	ReadFault     string // "" | handshake | engine
	DeadlineFault bool
	MustClose     bool
	NewErr        bool
	// InitSeq: the connection's initial sequence number as the SYN-ACK acknowledges it (0 = c20InitSeq);
	// near 2^32 the probes' sequence numbers wrap inside the run
	InitSeq uint32
	// CtlSegments: before each selective ACK the target also sends segments that carry no SACK blocks
	// because they are not acknowledgements of data — a FIN|ACK, a retransmitted SYN-ACK, a RST for a
	// stale segment: none of them says anything about SACK support
	CtlSegments bool
}

func (c c20SackCase) isn() uint32 {
	if c.InitSeq != 0 {
		return c.InitSeq
	}
	return c20InitSeq
}

type c20SackObs struct {
	Err          error
	OK           bool
	Unsupported  bool
	NSDepth      int // number of Unwrap steps before the NotSupportedError, -1 if none
	FatalWrapped bool
	SynProbes    []int // TTLs of SYN probes seen on the wire
	SackProbes   []int // TTLs of ACK|PSH probes seen on the wire
	OtherPkts    int
	Accepted     int
	DstOK        bool
	Panic        string
	DestFound    bool // the returned run has a hop marked as the destination
}

const c20InitSeq = 0x00100000

func c20RunSack(t *testing.T, c c20SackCase, method string) c20SackObs {
	var o c20SackObs
	o.NSDepth = -1
	loop := netip.MustParseAddr("127.0.0.1")
	ln, err := net.Listen("tcp4", "127.0.0.1:0")
	if err != nil {
		t.Fatalf("listen: %v", err)
	}
	port := uint16(ln.Addr().(*net.TCPAddr).Port)
	if !c.Listen {
		ln.Close()
	}
	var conns []net.Conn
	var cmu sync.Mutex
	accept := func(wait time.Duration) (net.Conn, bool) {
		if !c.Listen {
			return nil, false
		}
		ln.(*net.TCPListener).SetDeadline(time.Now().Add(wait))
		cn, err := ln.Accept()
		if err != nil {
			return nil, false
		}
		cmu.Lock()
		conns = append(conns, cn)
		cmu.Unlock()
		return cn, true
	}

	body := func(t *testing.T) {
		w := &bwWire{MustClosePort: c.MustClose}
		if c.NewErr {
			w.NewErr = c20Fault
		}
		w.Configure = func(idx int, addr netip.Addr, src *bwSource, snk *bwSink) {
			if idx != 0 || method == "syn" {
				return // the SYN fallback's handle: a silent wire
			}
			if c.FilterErrAt >= 0 {
				src.FilterErrAt, src.FilterErr = c.FilterErrAt, c20Fault
			}
			if c.DeadlineFault {
				src.DeadlineErr = c20Fault
			}
			if c.SinkFail {
				snk.FailAt, snk.FailErr = 0, c20Fault
			}
			var once sync.Once
			var clientPort uint16
			src.BeforeRead = func(s *bwSource) {
				once.Do(func() {
					// the dial has completed before ReadHandshake starts reading: the connection is in
					// the listener's backlog and tells us the client's port
					if cn, ok := accept(2 * time.Second); ok {
						clientPort = uint16(cn.RemoteAddr().(*net.TCPAddr).Port)
					}
					if c.ReadFault == "handshake" {
						s.mu.Lock()
						s.ReadErr = c20Fault
						s.mu.Unlock()
						return
					}
					var opts []byte
					switch c.SynAck {
					case "none":
						return
					case "plain":
						opts = []byte{2, 4, 0x05, 0xb4}
					case "sackperm":
						opts = []byte{2, 4, 0x05, 0xb4, 4, 2}
					case "sackperm-ts":
						opts = []byte{2, 4, 0x05, 0xb4, 4, 2, 8, 10, 0, 0, 0x10, 0, 0, 0, 0x20, 0}
					case "trunc-ts":
						opts = []byte{4, 2, 8, 6, 0, 0, 0x10, 0}
					}
					// unrelated frames first: wrong port, then a non-SYN segment
					s.Inject(c20TCPFrame(loop, loop, port+1, clientPort, 1, 2, 0x12, []byte{4, 2}))
					s.Inject(c20TCPFrame(loop, loop, port, clientPort, 1, 2, 0x10, nil))
					if c.ForeignSynAck {
						// the SYN-ACK of ANOTHER connection of this host to the same target addr:port (another local
						// port, other sequence numbers), with SACK permitted: the handshake reader sees every
						// SYN-ACK while it waits and must not adopt this one
						s.Inject(c20TCPFrame(loop, loop, port, clientPort^1, 0x00900000, 0x00700001, 0x12, []byte{2, 4, 0x05, 0xb4, 4, 2}))
					}
					s.Inject(c20TCPFrame(loop, loop, port, clientPort, 0x00200000, c.isn(), 0x12, opts))
				})
			}
			snk.OnWrite = func(p bwPacket) {
				h := bwParse(p.Data)
				if !h.OK || h.Proto != 6 || h.Flags != 0x18 {
					return
				}
				if c.ReadFault == "engine" {
					src.mu.Lock()
					src.ReadErr = c20Fault
					src.mu.Unlock()
					src.kick()
					return
				}
				if c.CtlSegments {
					src.Inject(c20TCPFrame(loop, loop, port, clientPort, 0x00200001, c.isn(), 0x11, nil))                            // FIN|ACK
					src.Inject(c20TCPFrame(loop, loop, port, clientPort, 0x00200000, c.isn(), 0x12, []byte{2, 4, 0x05, 0xb4, 4, 2})) // retransmitted SYN-ACK
					src.Inject(c20TCPFrame(loop, loop, port, clientPort, 0x00200001, 0, 0x04, nil))                                  // RST
				}
				switch c.Reply {
				case "sack":
					left := c.isn() + uint32(h.TTL)
					opt := []byte{5, 10, 0, 0, 0, 0, 0, 0, 0, 0}
					binary.BigEndian.PutUint32(opt[2:], left)
					binary.BigEndian.PutUint32(opt[6:], left+1)
					src.Inject(c20TCPFrame(loop, loop, port, clientPort, 0x00200001, c.isn(), 0x10, opt))
				case "plain":
					src.Inject(c20TCPFrame(loop, loop, port, clientPort, 0x00200001, c20InitSeq, 0x10, nil))
				case "partial-block":
					// a SACK option that carries no complete block (kind 5, length 6: a left edge only):
					// as good as no SACK block — the target does not answer the probes with usable SACKs
					opt := []byte{5, 6, 0, 0, 0, 0}
					binary.BigEndian.PutUint32(opt[2:], uint32(c20InitSeq+h.TTL))
					src.Inject(c20TCPFrame(loop, loop, port, clientPort, 0x00200001, c20InitSeq, 0x10, opt))
				case "empty-sack-option":
					src.Inject(c20TCPFrame(loop, loop, port, clientPort, 0x00200001, c20InitSeq, 0x10, []byte{5, 2}))
				}
			}
		}
		defer bwInstall(w)()
		params := traceroute.TracerouteParams{Hostname: "127.0.0.1", Protocol: "tcp", MinTTL: 1, MaxTTL: 3, Delay: 1,
			Timeout: 30 * time.Millisecond, TCPMethod: traceroute.TCPMethod(method)}
		func() {
			defer func() {
				if r := recover(); r != nil {
					o.Panic = fmt.Sprint(r)
				}
			}()
			run, err := traceroute.VerifRunOnce(context.Background(), params, int(port))
			o.Err = err
			o.OK = err == nil && run != nil
			if run != nil {
				o.DestFound = run.GetDestinationHop() != nil
			}
		}()
		var ns *sack.NotSupportedError
		o.Unsupported = errors.As(o.Err, &ns)
		if o.Unsupported {
			d := 0
			for e := o.Err; e != nil; e = errors.Unwrap(e) {
				if _, ok := e.(*sack.NotSupportedError); ok {
					o.NSDepth = d
					break
				}
				d++
			}
		}
		o.FatalWrapped = o.Err != nil && strings.HasPrefix(o.Err.Error(), "SACK traceroute failed fatally")
		o.DstOK = true
		for _, p := range w.AllPackets() {
			h := bwParse(p.Data)
			switch {
			case h.OK && h.Proto == 6 && h.Flags == 0x02:
				o.SynProbes = append(o.SynProbes, h.TTL)
			case h.OK && h.Proto == 6 && h.Flags == 0x18:
				o.SackProbes = append(o.SackProbes, h.TTL)
			default:
				o.OtherPkts++
			}
			if h.Dst != loop || h.DstPort != int(port) || p.Dst != netip.AddrPortFrom(loop, port) {
				o.DstOK = false
			}
		}
	}
	synctest.Test(t, body)
	// connections the kernel completed but the wire script did not pick up
	for {
		if _, ok := accept(30 * time.Millisecond); !ok {
			break
		}
	}
	o.Accepted = len(conns)
	for _, cn := range conns {
		cn.Close()
	}
	if c.Listen {
		ln.Close()
	}
	return o
}

// c20SackCases: the target capabilities and injected failures of the real-SACK stream.
func c20SackCases() []c20SackCase {
	base := c20SackCase{Listen: true, SynAck: "sackperm", Reply: "sack", FilterErrAt: -1}
	mk := func(name, failure string, f func(c *c20SackCase)) c20SackCase {
		c := base
		c.Name, c.Failure = name, failure
		if f != nil {
			f(&c)
		}
		return c
	}
	cases := []c20SackCase{
		mk("sack-capable", "", nil),
		mk("sack-capable-timestamps", "", func(c *c20SackCase) { c.SynAck = "sackperm-ts" }),
		mk("sack-capable-foreign-synack-first", "", func(c *c20SackCase) { c.ForeignSynAck = true }),
		mk("sack-capable-isn-wraps", "", func(c *c20SackCase) { c.InitSeq = 0xffffffff }),
		mk("sack-capable-control-segments", "", func(c *c20SackCase) { c.CtlSegments = true }),
		mk("port-closed", "dial", func(c *c20SackCase) { c.Listen = false }),
		mk("no-sack-permitted", "no-sack-permitted", func(c *c20SackCase) { c.SynAck = "plain" }),
		mk("acks-without-sack-blocks", "ack-without-sack", func(c *c20SackCase) { c.Reply = "plain" }),
		mk("acks-without-sack-blocks-timestamps", "ack-without-sack", func(c *c20SackCase) { c.Reply = "plain"; c.SynAck = "sackperm-ts" }),
		mk("acks-with-partial-sack-block", "ack-without-sack", func(c *c20SackCase) { c.Reply = "partial-block" }),
		mk("acks-with-empty-sack-option", "ack-without-sack", func(c *c20SackCase) { c.Reply = "empty-sack-option" }),
		mk("platform-must-close-port", "must-close-port", func(c *c20SackCase) { c.MustClose = true }),
		mk("synack-never-captured", "handshake-timeout", func(c *c20SackCase) { c.SynAck = "none" }),
		mk("truncated-timestamps", "handshake-trunc-ts", func(c *c20SackCase) { c.SynAck = "trunc-ts" }),
		mk("filter-fault-synack", "filter-synack", func(c *c20SackCase) { c.FilterErrAt = 0 }),
		mk("filter-fault-tcp", "filter-tcp", func(c *c20SackCase) { c.FilterErrAt = 1 }),
		mk("send-fault", "send", func(c *c20SackCase) { c.SinkFail = true }),
		mk("read-fault-handshake", "handshake-read", func(c *c20SackCase) { c.ReadFault = "handshake" }),
		mk("read-fault-engine", "read", func(c *c20SackCase) { c.ReadFault = "engine"; c.Reply = "none" }),
		mk("deadline-fault", "handshake-deadline", func(c *c20SackCase) { c.DeadlineFault = true }),
		mk("source-sink-fault", "source-sink", func(c *c20SackCase) { c.NewErr = true }),
		mk("silent-path", "", func(c *c20SackCase) { c.Reply = "none" }),
	}
	return cases
}

func c20RealSack(t *testing.T, rep *hx.Report, orc *hx.Oracle, rng *hx.RNG) {
	cases := c20SackCases()
	var lines []string
	for _, c := range cases {
		if c.Failure != "" {
			lines = append(lines, "pol.sack "+c.Failure)
		} else {
			lines = append(lines, "pol.sack dial") // placeholder, unused
		}
	}
	answers, err := orc.Batch(lines)
	if err != nil {
		t.Fatalf("oracle(sack): %v", err)
	}
	want123 := "[1 2 3]"
	for i, c := range cases {
		modelUnsup := c.Failure != "" && strings.HasPrefix(answers[i], "1 ")
		modelDepth := -1
		if modelUnsup {
			fmt.Sscan(strings.Fields(answers[i])[1], &modelDepth)
		}
		for _, method := range []string{"sack", "prefer_sack", "syn"} {
			o := c20RunSack(t, c, method)
			sample := map[string]any{"case": c.Name, "method": method, "listening": c.Listen, "synack": c.SynAck, "reply": c.Reply,
				"filter_fault_at": c.FilterErrAt, "send_fault": c.SinkFail, "read_fault": c.ReadFault, "must_close_port": c.MustClose, "new_source_sink_fault": c.NewErr,
				"ok": o.OK, "error": fmt.Sprint(o.Err), "errors_as_not_supported": o.Unsupported, "not_supported_depth": o.NSDepth,
				"syn_probe_ttls": o.SynProbes, "sack_probe_ttls": o.SackProbes, "destination_found": o.DestFound, "foreign_synack_first": c.ForeignSynAck, "accepted_connections": o.Accepted,
				"model_failure": c.Failure, "model_unsupported": modelUnsup, "model_not_supported_depth": modelDepth}
			rep.Case("real-sack", c.Name+"/"+method, true, sample)
			rep.Hit("real-sack:" + c.Name)
			syn, sk := fmt.Sprint(o.SynProbes), fmt.Sprint(o.SackProbes)
			// a destination reply stops the sender early: a non-empty prefix of 1..3 is a SACK trace
			sackTraceOK := sk == want123 || (c.Reply == "sack" && (sk == "[1]" || sk == "[1 2]"))
			bad := ""
			if o.Panic != "" {
				bad = "panic: " + o.Panic
			} else if !o.DstOK {
				bad = "a probe was addressed to something other than the target"
			} else {
				switch method {
				case "syn":
					// NewErr makes every handle creation fail, so the SYN run fails before probing
					switch {
					case o.Accepted != 0:
						bad = fmt.Sprintf("method syn opened %d TCP connection(s) to the target", o.Accepted)
					case sk != "[]":
						bad = "method syn put SACK probes on the wire"
					case !c.NewErr && (!o.OK || syn != want123):
						bad = fmt.Sprintf("method syn did not produce a SYN trace over TTL 1..3 (ok=%v, SYN probes %s, err %v)", o.OK, syn, o.Err)
					}
				case "sack":
					switch {
					case syn != "[]":
						bad = "method sack put SYN probes on the wire (SACK outcome masked by a SYN trace)"
					case c.Failure == "" && (!o.OK || !sackTraceOK):
						bad = fmt.Sprintf("SACK-capable target but method sack gave ok=%v, SACK probes %s, err %v", o.OK, sk, o.Err)
					case c.Failure == "" && c.Reply == "sack" && !o.DestFound:
						bad = "the target selectively acknowledged every probe of this connection but the SACK trace does not reach it (were the probes sent with this connection's sequence numbers?)"
					case c.Failure != "" && o.OK:
						bad = "method sack returned a trace although the SACK attempt cannot have succeeded"
					}
				case "prefer_sack":
					capability := c.Failure == "dial" || c.Failure == "no-sack-permitted" || c.Failure == "ack-without-sack" || c.Failure == "must-close-port"
					switch {
					case c.Failure == "" && (!o.OK || syn != "[]" || !sackTraceOK):
						bad = fmt.Sprintf("SACK-capable target but prefer_sack gave ok=%v, SYN probes %s, SACK probes %s, err %v", o.OK, syn, sk, o.Err)
					case c.Failure == "" && c.Reply == "sack" && !o.DestFound:
						bad = "the target selectively acknowledged every probe of this connection but the prefer_sack trace does not reach it"
					case capability && (!o.OK || syn != want123):
						bad = fmt.Sprintf("SACK unavailable (%s) but prefer_sack did not produce a SYN trace (ok=%v, SYN probes %s, err %v)", c.Name, o.OK, syn, o.Err)
					case c.Failure != "" && !capability && (o.OK || syn != "[]" || o.Err == nil):
						bad = fmt.Sprintf("non-capability SACK failure (%s) was masked: ok=%v, SYN probes %s", c.Name, o.OK, syn)
					case c.Failure != "" && !capability && (!o.FatalWrapped || o.Unsupported):
						bad = fmt.Sprintf("non-capability SACK failure (%s) not reported as fatal: %v", c.Name, o.Err)
					}
				}
				if bad == "" && method != "syn" && c.Listen && !c.NewErr && !c.MustClose && c.FilterErrAt != 0 && o.Accepted != 1 {
					bad = fmt.Sprintf("expected exactly one TCP connection to the listening target, saw %d", o.Accepted)
				}
			}
			if bad != "" {
				rep.Violate(hx.Violation{Kind: "spec", What: bad, Sig: map[string]string{"stream": "real-sack", "method": method, "case": c.Name}, Replay: sample})
				continue
			}
			if method == "sack" && c.Failure != "" && (o.Unsupported != modelUnsup || (modelUnsup && o.NSDepth != modelDepth)) {
				sample["broken"] = "correspondence stream policy/sack-classification (Lean TRV.Policy.sackChain vs sack.RunSackTraceroute)"
				rep.Violate(hx.Violation{Kind: "correspondence", NoInput: true,
					What: "SACK failure classification differs from the model (" + c.Name + "); the method policy holds on the wire observations",
					Sig:  map[string]string{"stream": "real-sack"}, Replay: sample})
			}
		}
	}
	_ = rng
}

// ---- fresh-process stream --------------------------------------------------------------------------
// "SACK is unavailable FOR THE TARGET" is a fact about one run. Each child process makes a failing
// SACK run the very FIRST SACK run of the process (every failure of the list above in turn: closed
// port, no SACK-permitted, injected filter / send / read / handle-construction faults …) and then
// traces a SACK-capable target: whatever the first run left behind (a remembered verdict, a one-time
// initialisation, a cached capability), the capable target must still get its SACK trace.

func c20FreshChild(t *testing.T, first string) {
	var f c20SackCase
	for _, c := range c20SackCases() {
		if c.Name == first {
			f = c
		}
	}
	if f.Name == "" {
		t.Fatalf("unknown C20 child case %q", first)
	}
	capable := c20SackCases()[0]
	show := func(tag string, c c20SackCase, method string) {
		o := c20RunSack(t, c, method)
		fmt.Printf("C20-CHILD tag=%s method=%s ok=%v syn=%s sack=%s unsupported=%v accepted=%d dest=%v err=%q\n", tag, method, o.OK,
			strings.ReplaceAll(fmt.Sprint(o.SynProbes), " ", ","), strings.ReplaceAll(fmt.Sprint(o.SackProbes), " ", ","), o.Unsupported, o.Accepted, o.DestFound, fmt.Sprint(o.Err))
	}
	show("first", f, hx.Pick(hx.NewRNG(uint64(len(first))), []string{"sack", "prefer_sack"}))
	show("after", capable, "sack")
	show("after", capable, "prefer_sack")
}

func c20FreshProcess(t *testing.T, rep *hx.Report) {
	exe, err := os.Executable()
	if err != nil {
		t.Fatal(err)
	}
	for _, c := range c20SackCases() {
		if c.Failure == "" {
			continue
		}
		cmd := exec.Command(exe, "-test.run", "^TestC20$", "-test.count=1", "-test.timeout=120s")
		cmd.Env = append(os.Environ(), "C20_CHILD="+c.Name)
		out, _ := cmd.CombinedOutput()
		n := 0
		for _, ln := range strings.Split(string(out), "\n") {
			if !strings.HasPrefix(ln, "C20-CHILD tag=after ") {
				continue
			}
			n++
			kv := map[string]string{}
			for _, f := range strings.Fields(ln)[1:] {
				if i := strings.Index(f, "="); i > 0 {
					kv[f[:i]] = f[i+1:]
				}
			}
			sample := map[string]any{"first_sack_run_of_the_process": c.Name, "then": "sack-capable target, method " + kv["method"], "observed": ln}
			rep.Case("fresh-process", c.Name+"/"+kv["method"], true, sample)
			rep.Hit("fresh-process:" + c.Name)
			sk := kv["sack"]
			okTrace := kv["ok"] == "true" && kv["syn"] == "[]" && (sk == "[1,2,3]" || sk == "[1]" || sk == "[1,2]") && kv["accepted"] == "1" && kv["dest"] == "true"
			if !okTrace {
				rep.Violate(hx.Violation{Kind: "spec",
					What: fmt.Sprintf("after a first SACK run of the process that failed (%s), a SACK-capable target no longer gets a SACK trace with method %s: %s", c.Name, kv["method"], ln),
					Sig:  map[string]string{"stream": "fresh-process", "method": kv["method"], "case": c.Name}, Replay: sample})
			}
		}
		if n != 2 {
			rep.Violate(hx.Violation{Kind: "tie", NoInput: true, What: "fresh-process child for " + c.Name + " did not report both runs: " + string(out),
				Sig: map[string]string{"stream": "fresh-process", "case": c.Name}, Replay: map[string]any{"first_sack_run_of_the_process": c.Name, "output": string(out)}})
		}
	}
}
