package corr

// C16, pipeline stream: the property speaks of the FINISHED result — what RunTraceroute hands to
// the caller — not only of Results.Normalize() in isolation. Here the real RunTraceroute assembles
// the document from scripted per-run results (VerifSetRunOnce): 0..3 traceroute runs whose hops are
// stamped from an arbitrary first TTL, 0..6 end-to-end probes (answered, unanswered, all
// unanswered), requests with only runs or only probes included. The finished document is judged by
// the same Lean predicate (`Spec.consistent`, evaluated on the implementation's own output) and the
// identifier clause; the sample values are dyadic rationals, so float rounding plays no part.

import (
	"context"
	"encoding/base64"
	"fmt"
	"math/big"
	"net"
	"sync"
	"testing"
	"testing/synctest"
	"time"

	"github.com/DataDog/datadog-traceroute/result"
	"github.com/DataDog/datadog-traceroute/traceroute"

	"verifharness/hx"
)

func c16PipelineStream(t *testing.T, rep *hx.Report, orc *hx.Oracle, rng *hx.RNG, n int) {
	type item struct {
		key    string
		replay map[string]any
		out    *result.Results
		nRuns  int
		probes []float64
	}
	var items []item
	seenIDs := map[string]bool{}
	for i := 0; i < n; i++ {
		nRuns, nProbes := rng.Intn(4), rng.Intn(7)
		switch i % 5 {
		case 0:
			nRuns = 0 // an end-to-end-only request
			nProbes = rng.Range(1, 6)
		case 1:
			nProbes = 0 // a traceroute-only request
			nRuns = rng.Range(1, 3)
		}
		if nRuns+nProbes == 0 {
			nRuns = 1
		}
		// the request asks for private hops to be removed (RemovePrivateHops runs AFTER Normalize: the
		// finished document must still be self-consistent)
		skipPrivate := rng.Chance(1, 3)
		// scripted runs
		var runs []*result.TracerouteRun
		for k := 0; k < nRuns; k++ {
			first := 1
			if rng.Chance(1, 2) {
				first = rng.Range(2, 40)
			}
			nh := rng.Range(1, 7)
			run := &result.TracerouteRun{Source: result.TracerouteSource{IPAddress: net.IP{192, 0, 2, 2}, Port: 40000},
				Destination: result.TracerouteDestination{IPAddress: net.IP{198, 51, 100, 9}, Port: 33434}}
			for j := 0; j < nh; j++ {
				h := &result.TracerouteHop{TTL: first + j}
				if !rng.Chance(1, 3) {
					h.IPAddress = c16GenAddr(rng, hx.Pick(rng, []string{"v4", "v6", "mapped"}))
					if skipPrivate && rng.Chance(1, 2) {
						h.IPAddress = hx.Pick(rng, []net.IP{{10, 1, 2, 3}, {192, 168, 7, 1}, net.ParseIP("172.16.0.9"), net.ParseIP("fd00::5"), {172, 31, 255, 254}})
					}
					h.RTT = float64(rng.Range(1, 1<<20)) / 8
					h.IsDest = j == nh-1 && rng.Bool()
				}
				run.Hops = append(run.Hops, h)
			}
			runs = append(runs, run)
		}
		// scripted end-to-end samples (0 = unanswered)
		probes := make([]float64, nProbes)
		allLost := rng.Chance(1, 6)
		for k := range probes {
			if !allLost && !rng.Chance(1, 4) {
				probes[k] = float64(rng.Range(1, 1<<20)) / 8
			}
		}
		var out *result.Results
		var err error
		var stubRuns, stubProbes int
		synctest.Test(t, func(t *testing.T) {
			var mu sync.Mutex
			traceroute.VerifSetRunOnce(func(ctx context.Context, p traceroute.TracerouteParams, port int) (*result.TracerouteRun, error) {
				mu.Lock()
				defer mu.Unlock()
				if p.MinTTL == p.MaxTTL { // an end-to-end probe: one hop at the last TTL
					k := stubProbes
					stubProbes++
					if k >= len(probes) {
						return nil, fmt.Errorf("verif: more end-to-end probes than requested")
					}
					hop := &result.TracerouteHop{TTL: p.MaxTTL}
					if probes[k] > 0 {
						hop.IPAddress, hop.RTT, hop.IsDest = net.IP{198, 51, 100, 9}, probes[k], true
					}
					return &result.TracerouteRun{Hops: []*result.TracerouteHop{hop}, Destination: result.TracerouteDestination{IPAddress: net.IP{198, 51, 100, 9}, Port: uint16(port)}}, nil
				}
				k := stubRuns
				stubRuns++
				if k >= len(runs) {
					return nil, fmt.Errorf("verif: more runs than requested")
				}
				cp := *runs[k]
				cp.Hops = nil
				for _, h := range runs[k].Hops {
					cp.Hops = append(cp.Hops, c16CloneHop(h))
				}
				return &cp, nil
			})
			defer traceroute.VerifSetRunOnce(nil)
			tr := traceroute.VerifNewTraceroute(c15Fetcher{mode: "ok"})
			ctx, cancel := context.WithTimeout(context.Background(), time.Hour)
			defer cancel()
			out, err = tr.RunTraceroute(ctx, traceroute.TracerouteParams{Hostname: "198.51.100.9", Port: 33434, Protocol: "udp", MinTTL: 1, MaxTTL: 30,
				Timeout: time.Millisecond, TracerouteQueries: nRuns, E2eQueries: nProbes, SkipPrivateHops: skipPrivate})
		})
		key := fmt.Sprintf("pipe|%d|%d|%v|%d", nRuns, nProbes, probes, i)
		var runToks []string
		for _, r := range runs {
			var hs []string
			for _, h := range r.Hops {
				hs = append(hs, c16HopTok(h))
			}
			runToks = append(runToks, fmt.Sprint(hs))
		}
		replay := map[string]any{"how": "RunTraceroute with VerifSetRunOnce returning these runs / end-to-end samples (0 = unanswered)", "traceroute_queries": nRuns, "e2e_queries": nProbes,
			"scripted_runs": runToks, "skip_private_hops": skipPrivate, "scripted_e2e_samples_ms": fmt.Sprint(probes), "error": fmt.Sprint(err)}
		rep.Case("pipeline", key, true, replay)
		rep.Hit(fmt.Sprintf("pipeline:runs=%d:skip-private=%v:probes=%s", nRuns, skipPrivate, map[bool]string{true: "0", false: ">0"}[nProbes == 0]))
		sig := map[string]string{"site": "pipeline", "class": "gross"}
		if err != nil || out == nil {
			rep.Violate(hx.Violation{Kind: "spec", What: "RunTraceroute failed on scripted successful runs: " + fmt.Sprint(err), Sig: sig, Replay: replay})
			continue
		}
		bad := ""
		switch {
		case len(out.Traceroute.Runs) != nRuns:
			bad = fmt.Sprintf("%d runs requested, %d in the finished document", nRuns, len(out.Traceroute.Runs))
		case len(out.E2eProbe.RTTs) != nProbes:
			bad = fmt.Sprintf("%d end-to-end probes requested, %d samples in the finished document", nProbes, len(out.E2eProbe.RTTs))
		case nProbes > 0 && out.E2eProbe.PacketsSent != nProbes:
			bad = fmt.Sprintf("packets sent is %d, the sample count is %d", out.E2eProbe.PacketsSent, nProbes)
		}
		ids := []string{out.TestRunID}
		for _, r := range out.Traceroute.Runs {
			ids = append(ids, r.RunID)
		}
		for k, id := range ids {
			raw, derr := base64.RawURLEncoding.DecodeString(id)
			if bad == "" && (derr != nil || len(raw) != 16) {
				bad = fmt.Sprintf("identifier %d (%q) of the finished document is not the base64url form of 16 bytes", k, id)
			}
			if bad == "" && seenIDs[id] {
				bad = fmt.Sprintf("identifier %d (%q) was already used", k, id)
			}
			seenIDs[id] = true
		}
		if bad != "" {
			replay["finished_document"] = c16DocTok(out)
			rep.Violate(hx.Violation{Kind: "spec", What: bad, Sig: sig, Replay: replay})
			continue
		}
		items = append(items, item{key, replay, out, nRuns, probes})
	}
	lines := make([]string, len(items))
	for i, it := range items {
		lines[i] = "res.spec.consistent " + c16DocTok(it.out)
	}
	answers, err := orc.Batch(lines)
	if err != nil {
		t.Fatalf("oracle: %v", err)
	}
	for i, it := range items {
		if answers[i] == "bad-op" {
			t.Fatalf("oracle rejected %q", lines[i])
		}
		if answers[i] == "loss" {
			// float32 cannot hold (sent-received)/sent exactly: the nearest float32 is demanded (as in the main stream)
			e := it.out.E2eProbe
			want := big.NewRat(int64(e.PacketsSent-e.PacketsReceived), int64(max(e.PacketsSent, 1)))
			got, _ := c16Rat(float64(e.PacketLossPercentage))
			if e.PacketsSent > 0 && c16Within(got, want, c16Pow2(-24), new(big.Rat)) {
				rep.Hit("pipeline:loss-float32-rounded")
				continue
			}
		}
		if answers[i] != "ok" {
			it.replay["finished_document"] = c16DocTok(it.out)
			it.replay["failing_clauses"] = answers[i]
			it.replay["oracle_line"] = lines[i]
			rep.Violate(hx.Violation{Kind: "spec", What: "the finished document of RunTraceroute is not self-consistent: clause(s) " + answers[i] + " of Spec.consistent are false on it",
				Sig: map[string]string{"site": "pipeline", "class": "gross"}, Replay: it.replay})
		}
	}
}
