package corr

// C11 extra stream (lead): the identifiers concurrently live TCP SYN runs actually put ON THE WIRE
// (IP id of every probe) are pairwise disjoint across runs — whatever first/last TTL each run has
// (end-to-end probes use first = last = MaxTTL) — as long as fewer than 65536 identifiers are live.
// This ties the allocator's block arithmetic to the way the driver uses its block.

import (
	"encoding/binary"
	"fmt"
	"io"
	"testing"
	"testing/synctest"
	"time"

	"github.com/DataDog/datadog-traceroute/packets"

	"verifharness/hx"
)

func c11ExtraWireIDs(t *testing.T, rep *hx.Report, rng *hx.RNG, env hx.Env) {
	for i := 0; i < env.Scale(40, 800); i++ {
		packets.VerifSetPacketIDCounter(hx.Pick(rng, []uint32{0, 0xfff0, 0xffff, 0x1fff0, 0xfffffff0, uint32(rng.U64())}))
		k := rng.Range(2, 8)
		owner := map[uint16]int{}
		var desc []string
		bad := ""
		for run := 0; run < k && bad == ""; run++ {
			c := genCfg(rng, "tcp")
			switch rng.Intn(3) {
			case 0: // an end-to-end probe: first = last
				c.Max = rng.Range(1, 60)
				c.Min = c.Max
			case 1:
				c.Min = 1
				c.Max = rng.Range(1, 60)
			default:
				c.Max = rng.Range(2, 60)
				c.Min = rng.Range(1, c.Max)
			}
			desc = append(desc, fmt.Sprintf("run%d[%d..%d]", run, c.Min, c.Max))
			var ops []drvOp
			for ttl := c.Min; ttl <= c.Max; ttl++ {
				ops = append(ops, drvOp{Send: true, TTL: ttl, Gap: time.Millisecond})
			}
			// NOTE: newDriver pins BaseID/Seq for reproducibility; here the REAL allocation must be used
			steps := runDrvCaseRealAlloc(t, c, ops)
			for _, st := range steps {
				if len(st.Written) < 20 {
					continue
				}
				id := binary.BigEndian.Uint16(st.Written[4:])
				if prev, ok := owner[id]; ok && prev != run {
					bad = fmt.Sprintf("IP id %d is used by run %d and by run %d (TTL %d)", id, prev, run, st.Op.TTL)
					break
				}
				owner[id] = run
			}
		}
		rep.Case("extra/wire-ids", fmt.Sprint(desc, i), true, map[string]any{"runs": desc})
		if bad != "" {
			rep.Violate(hx.Violation{Kind: "spec", What: "identifier ranges of concurrent TCP runs overlap on the wire: " + bad,
				Sig: map[string]string{"stream": "extra", "mode": "wire-ids"}, Replay: map[string]any{"runs": desc, "what": bad}})
		}
	}
}

// c11ExtraFailedRun: identifier blocks stay disjoint across LIVE runs when another run gave up before
// anything left (its first write failed) and was closed while they were still in flight.  Order of
// events: run A is set up, run B is set up and sends, A's first SendProbe fails and A is closed, B
// keeps sending, run C is set up and sends.  B and C are live at the same time: the IP ids they
// put on the wire must not meet, whatever happened to A's block.
func c11ExtraFailedRun(t *testing.T, rep *hx.Report, rng *hx.RNG, env hx.Env) {
	for i := 0; i < env.Scale(30, 400); i++ {
		packets.VerifSetPacketIDCounter(hx.Pick(rng, []uint32{0, 0xfff0, 0xffff, 0x1fff0, 0xfffffff0, uint32(rng.U64())}))
		cfgs := make([]drvCfg, 3)
		for k := range cfgs {
			c := genCfg(rng, "tcp")
			c.Min = 1
			c.Max = rng.Range(2, 40)
			if rng.Chance(1, 4) {
				c.Min = c.Max
			}
			cfgs[k] = c
		}
		failClass := hx.Pick(rng, []string{"enobufs", "fatal"})
		owner := map[uint16]int{}
		bad := ""
		synctest.Test(t, func(t *testing.T) {
			keepRealAlloc = true
			defer func() { keepRealAlloc = false }()
			wires := []*memWire{newMemWire(), newMemWire(), newMemWire()}
			wires[0].faults = []wireFault{{Op: "write", K: 0, Class: failClass}}
			a, errA := newDriver(cfgs[0], wires[0])
			b, errB := newDriver(cfgs[1], wires[1])
			if errA != nil || errB != nil {
				t.Fatalf("driver construction failed: %v %v", errA, errB)
			}
			half := (cfgs[1].Min + cfgs[1].Max) / 2
			for ttl := cfgs[1].Min; ttl <= half; ttl++ {
				_ = b.SendProbe(uint8(ttl))
			}
			_ = a.SendProbe(uint8(cfgs[0].Min)) // fails: nothing of run A ever leaves
			if cl, ok := a.(io.Closer); ok {
				_ = cl.Close()
			}
			c, errC := newDriver(cfgs[2], wires[2])
			if errC != nil {
				t.Fatalf("driver construction failed: %v", errC)
			}
			for ttl := cfgs[2].Min; ttl <= cfgs[2].Max; ttl++ {
				_ = c.SendProbe(uint8(ttl))
			}
			for ttl := half + 1; ttl <= cfgs[1].Max; ttl++ {
				_ = b.SendProbe(uint8(ttl))
			}
			for run, w := range wires {
				w.log.mu.Lock()
				for _, wr := range w.log.writes {
					if len(wr.Pkt) < 20 {
						continue
					}
					id := binary.BigEndian.Uint16(wr.Pkt[4:])
					if prev, ok := owner[id]; ok && prev != run && bad == "" {
						bad = fmt.Sprintf("IP id %d is on the wire for run %c and for run %c, which are live at the same time", id, 'A'+prev, 'A'+run)
					}
					owner[id] = run
				}
				w.log.mu.Unlock()
			}
			for _, d := range []any{b, c} {
				if cl, ok := d.(io.Closer); ok {
					_ = cl.Close()
				}
			}
		})
		desc := fmt.Sprintf("A[%d..%d] first write fails (%s), closed; B[%d..%d] live throughout; C[%d..%d] set up after A was closed", cfgs[0].Min, cfgs[0].Max, failClass, cfgs[1].Min, cfgs[1].Max, cfgs[2].Min, cfgs[2].Max)
		rep.Case("extra/wire-ids-failed-run", fmt.Sprint(desc, i), true, map[string]any{"runs": desc})
		if bad != "" {
			rep.Violate(hx.Violation{Kind: "spec", What: "identifier ranges of concurrent TCP runs overlap on the wire after another run failed and was closed: " + bad,
				Sig: map[string]string{"stream": "extra", "mode": "wire-ids-failed-run"}, Replay: map[string]any{"runs": desc, "what": bad}})
		}
	}
}
