package corr

// C11 extra stream (lead): the identifiers concurrently live TCP SYN runs actually put ON THE WIRE
// (IP id of every probe) are pairwise disjoint across runs — whatever first/last TTL each run has
// (end-to-end probes use first = last = MaxTTL) — as long as fewer than 65536 identifiers are live.
// This ties the allocator's block arithmetic to the way the driver uses its block.

import (
	"encoding/binary"
	"fmt"
	"testing"
	"time"

	"github.com/DataDog/datadog-traceroute/packets"

	"verifharness/hx"
)

func c11ExtraWireIDs(t *testing.T, rep *hx.Report, rng *hx.RNG, env hx.Env) {
	for i := 0; i < env.Scale(40, 800); i++ {
		packets.VerifSetPacketIDCounter(hx.Pick(rng, []uint32{0, 0xfff0, 0xffff, 0x1fff0, 0xfffffff0, uint32(rng.U64())}))
		k := rng.Range(2, 8)
		owner := map[uint16]int{}
		var desc []string
		bad := ""
		for run := 0; run < k && bad == ""; run++ {
			c := genCfg(rng, "tcp")
			switch rng.Intn(3) {
			case 0: // an end-to-end probe: first = last
				c.Max = rng.Range(1, 60)
				c.Min = c.Max
			case 1:
				c.Min = 1
				c.Max = rng.Range(1, 60)
			default:
				c.Max = rng.Range(2, 60)
				c.Min = rng.Range(1, c.Max)
			}
			desc = append(desc, fmt.Sprintf("run%d[%d..%d]", run, c.Min, c.Max))
			var ops []drvOp
			for ttl := c.Min; ttl <= c.Max; ttl++ {
				ops = append(ops, drvOp{Send: true, TTL: ttl, Gap: time.Millisecond})
			}
			// NOTE: newDriver pins BaseID/Seq for reproducibility; here the REAL allocation must be used
			steps := runDrvCaseRealAlloc(t, c, ops)
			for _, st := range steps {
				if len(st.Written) < 20 {
					continue
				}
				id := binary.BigEndian.Uint16(st.Written[4:])
				if prev, ok := owner[id]; ok && prev != run {
					bad = fmt.Sprintf("IP id %d is used by run %d and by run %d (TTL %d)", id, prev, run, st.Op.TTL)
					break
				}
				owner[id] = run
			}
		}
		rep.Case("extra/wire-ids", fmt.Sprint(desc, i), true, map[string]any{"runs": desc})
		if bad != "" {
			rep.Violate(hx.Violation{Kind: "spec", What: "identifier ranges of concurrent TCP runs overlap on the wire: " + bad,
				Sig: map[string]string{"stream": "extra", "mode": "wire-ids"}, Replay: map[string]any{"runs": desc, "what": bad}})
		}
	}
}
