package corr

// Matcher-level machinery shared by C01, C02, C04, C05, C06, C09: the REAL drivers (constructed
// through the verif hooks over the in-memory wire) are driven step by step inside a synctest
// bubble; the same steps are replayed on the Lean driver models by the oracle.

import (
	"encoding/binary"
	"encoding/hex"
	"errors"
	"fmt"
	"net"
	"net/netip"
	"strings"
	"testing"
	"testing/synctest"
	"time"

	"github.com/DataDog/datadog-traceroute/common"
	"github.com/DataDog/datadog-traceroute/icmp"
	"github.com/DataDog/datadog-traceroute/sack"
	"github.com/DataDog/datadog-traceroute/tcp"
	"github.com/DataDog/datadog-traceroute/udp"

	"verifharness/hx"
)

var allVariants = []string{"icmp4", "icmp6", "udp4", "udp6", "tcp", "tcp-paris", "sack"}

// drvCfg is everything that identifies one run of one variant.
type drvCfg struct {
	Variant      string
	Local        netip.Addr
	Target       netip.Addr
	LPort, TPort uint16
	Loosen       bool
	Min, Max     int
	EchoCounter  uint32 // value of the echo-id counter BEFORE the driver is constructed (icmp)
	BaseID       uint16 // tcp default mode
	Seq          uint32 // tcp default mode
	ISN, IAck    uint32 // sack
	TS           bool
	TSVal, TSEcr uint32
}

func (c drvCfg) v6() bool       { return c.Local.Is6() }
func (c drvCfg) kind() string   { return strings.SplitN(strings.TrimRight(c.Variant, "46"), "-", 2)[0] }
func (c drvCfg) echoID() uint16 { return uint16(c.EchoCounter + 1) }
func (c drvCfg) flow() flowInfo {
	return flowInfo{Local: c.Local, Target: c.Target, LPort: c.LPort, TPort: c.TPort, ISN: c.ISN, IAck: c.IAck, V6: c.v6()}
}

func mustAddr(s string) netip.Addr { return netip.MustParseAddr(s) }

func hx2(b []byte) string {
	if len(b) == 0 {
		return "-"
	}
	return hex.EncodeToString(b)
}

// oraclePrefix is the configuration part of the oracle line.
func (c drvCfg) oraclePrefix() string {
	l, t := hx2(c.Local.AsSlice()), hx2(c.Target.AsSlice())
	switch c.kind() {
	case "icmp":
		return fmt.Sprintf("drv.icmp %s %s %d %d %d", l, t, c.echoID(), c.Min, c.Max)
	case "udp":
		return fmt.Sprintf("drv.udp %s %d %s %d %s", l, c.LPort, t, c.TPort, b2s(c.Loosen))
	case "tcp":
		return fmt.Sprintf("drv.tcp %s %d %s %d %s %s %d %d", l, c.LPort, t, c.TPort, b2s(c.Loosen), b2s(c.Variant == "tcp-paris"), c.BaseID, c.Seq)
	default:
		ts := "-"
		if c.TS {
			ts = fmt.Sprintf("%d:%d", c.TSVal, c.TSEcr)
		}
		return fmt.Sprintf("drv.sack %s %d %s %d %s %d %d %d %d %s", l, c.LPort, t, c.TPort, b2s(c.Loosen), c.Min, c.Max, c.ISN, c.IAck, ts)
	}
}

// newDriver constructs the real driver for cfg over wire.
func newDriver(c drvCfg, wire *memWire) (common.TracerouteDriver, error) {
	par := common.TracerouteParallelParams{TracerouteParams: common.TracerouteParams{
		MinTTL: uint8(c.Min), MaxTTL: uint8(c.Max), TracerouteTimeout: time.Second,
		PollFrequency: 50 * time.Millisecond, SendDelay: 10 * time.Millisecond}}
	switch c.kind() {
	case "icmp":
		icmp.VerifSetEchoIDCounter(c.EchoCounter)
		return icmp.VerifNewDriver(icmp.Params{Target: c.Target, ParallelParams: par}, c.Local, wire.Sink(), wire.Source()), nil
	case "udp":
		cfg := udp.NewUDPv4(net.IP(c.Target.AsSlice()), c.TPort, uint8(c.Min), uint8(c.Max), 10*time.Millisecond, time.Second, false)
		cfg.LoosenICMPSrc = c.Loosen
		return udp.VerifNewDriver(cfg, net.IP(c.Local.AsSlice()), c.LPort, wire.Sink(), wire.Source()), nil
	case "tcp":
		cfg := tcp.NewTCPv4(net.IP(c.Target.AsSlice()), c.TPort, uint8(c.Min), uint8(c.Max), 10*time.Millisecond, time.Second, c.Variant == "tcp-paris", false)
		cfg.LoosenICMPSrc = c.Loosen
		d := tcp.VerifNewDriver(cfg, net.IP(c.Local.AsSlice()), c.LPort, wire.Sink(), wire.Source())
		if c.Variant != "tcp-paris" && !keepRealAlloc {
			tcp.VerifSetDriverIDs(d, c.BaseID, c.Seq)
		}
		return d, nil
	default:
		p := sack.Params{Target: netip.AddrPortFrom(c.Target, c.TPort), ParallelParams: par, LoosenICMPSrc: c.Loosen,
			HandshakeTimeout: time.Second, FinTimeout: time.Second}
		d, err := sack.VerifNewDriver(p, c.Local, wire.Sink(), wire.Source())
		if err != nil {
			return nil, err
		}
		sack.VerifSetState(d, sack.VerifState{LocalPort: c.LPort, LocalInitSeq: c.ISN, LocalInitAck: c.IAck, HasTS: c.TS, TSValue: c.TSVal, TSEcr: c.TSEcr})
		return d, nil
	}
}

var v4Hosts = []string{"192.0.2.2", "198.51.100.9", "10.1.2.3", "203.0.113.200", "172.16.0.1", "8.8.8.8", "255.1.128.127"}
var v6Hosts = []string{"fd00::2", "2001:db8::9", "2001:db8:abcd:12::a00:fffe", "2606:4700:4700::1111", "fe80::1"}

func genCfg(r *hx.RNG, variant string) drvCfg {
	c := drvCfg{Variant: variant}
	hosts := v4Hosts
	if strings.HasSuffix(variant, "6") {
		hosts = v6Hosts
	}
	i := r.Intn(len(hosts))
	j := (i + 1 + r.Intn(len(hosts)-1)) % len(hosts)
	c.Local, c.Target = netip.MustParseAddr(hosts[i]), netip.MustParseAddr(hosts[j])
	edge16 := []uint16{1, 2, 80, 443, 0x7fff, 0x8000, 0xff00, 0xfffe, 0xffff, 33434}
	c.LPort, c.TPort = hx.Pick(r, edge16), hx.Pick(r, edge16)
	if r.Bool() {
		c.LPort = uint16(r.Range(1024, 65535))
	}
	if r.Bool() {
		c.TPort = uint16(r.Range(1, 65535))
	}
	c.Loosen = r.Chance(1, 3)
	switch r.Intn(4) {
	case 0:
		c.Min, c.Max = 1, 30
	case 1:
		c.Min = r.Range(1, 255)
		c.Max = r.Range(c.Min, 255)
	case 2:
		c.Min, c.Max = 1, 255
	default:
		c.Min = r.Range(1, 5)
		c.Max = c.Min + r.Range(0, 10)
	}
	edge32 := []uint32{0, 1, 0x7fffffff, 0x80000000, 0xffffff00, 0xfffffffe, 0xffffffff}
	c.EchoCounter = hx.Pick(r, []uint32{0, 1, 0x7ffe, 0xfffd, 0xfffe, 0xffff, 0x10000, 0xfffffffe, 0xffffffff})
	if r.Bool() {
		c.EchoCounter = uint32(r.U64())
	}
	c.BaseID = hx.Pick(r, []uint16{0, 1, 0x7fff, 0xff00, 0xfffe, 0xffff, 41821})
	if r.Bool() {
		c.BaseID = uint16(r.U64())
	}
	c.Seq = hx.Pick(r, edge32)
	if r.Bool() {
		c.Seq = uint32(r.U64())
	}
	c.ISN = hx.Pick(r, edge32)
	if r.Bool() {
		c.ISN = uint32(r.U64())
	}
	c.IAck = uint32(r.U64())
	c.TS = r.Bool()
	c.TSVal, c.TSEcr = hx.Pick(r, edge32), uint32(r.U64())
	return c
}

// drvOp is one step of a matcher-level case.
type drvOp struct {
	Send bool
	TTL  int
	Gap  time.Duration // virtual time to let pass before the step
	Pkt  []byte        // recv
	Tag  string        // where the packet came from (stream / form / perturbation)
	Meta map[string]string
	make makeFn // lazily built packet (from the probes written so far in this case)
}

// makeFn builds an inbound packet from the probes written so far (keyed by TTL).
type makeFn func(written map[int][]byte) ([]byte, map[string]string)

type drvStep struct {
	Op      drvOp
	Now     int64  // virtual ns since case start when the step ran
	Impl    string // implementation token
	OrTok   string // oracle op token
	Written []byte // send: bytes handed to the sink
}

func classifyRecv(resp *common.ProbeResponse, err error, now int64) string {
	if err == nil {
		if resp == nil {
			return "nil"
		}
		return fmt.Sprintf("acc:%d:%s:%s:%d", resp.TTL, ipHex(resp.IP), b2s(resp.IsDest), now-int64(resp.RTT))
	}
	var ns *sack.NotSupportedError
	switch {
	case common.CheckProbeRetryable("verif", err):
		return "retry"
	case errors.As(err, &ns):
		return "nosup"
	default:
		return "fatal"
	}
}

// runDrvCaseRealAlloc is runDrvCase for the TCP default-mode driver WITHOUT pinning the packet-id
// base: the driver keeps whatever packets.AllocPacketID handed it.
func runDrvCaseRealAlloc(t *testing.T, c drvCfg, ops []drvOp) []drvStep {
	keepRealAlloc = true
	defer func() { keepRealAlloc = false }()
	return runDrvCase(t, c, ops)
}

var keepRealAlloc bool

// runDrvCase executes ops on a fresh real driver inside a synctest bubble.
func runDrvCase(t *testing.T, c drvCfg, ops []drvOp) []drvStep {
	steps := make([]drvStep, 0, len(ops))
	synctest.Test(t, func(t *testing.T) {
		wire := newMemWire()
		d, err := newDriver(c, wire)
		if err != nil {
			t.Fatalf("driver construction failed: %v", err)
		}
		start := time.Now()
		written := map[int][]byte{}
		for _, op := range ops {
			if op.make != nil {
				op.Pkt, op.Meta = op.make(written)
			}
			if op.Gap > 0 {
				time.Sleep(op.Gap)
			}
			st := drvStep{Op: op, Now: int64(time.Since(start))}
			func() {
				defer func() {
					if r := recover(); r != nil {
						st.Impl = "panic"
					}
				}()
				if op.Send {
					before := wire.writeCount()
					err := d.SendProbe(uint8(op.TTL))
					st.OrTok = fmt.Sprintf("s:%d:%d", op.TTL, st.Now)
					if err != nil {
						st.Impl = "serr"
						if wire.writeCount() != before {
							st.Impl = "serr-but-wrote"
						}
						return
					}
					st.Written = wire.lastWrite()
					written[op.TTL] = st.Written
					st.Impl = "w:" + hx2(st.Written)
					if c.Variant == "tcp-paris" && len(st.Written) >= 28 {
						st.OrTok += fmt.Sprintf(":%d", binary.BigEndian.Uint32(st.Written[24:28]))
					}
					return
				}
				wire.Inject(op.Pkt)
				resp, err := d.ReceiveProbe(50 * time.Millisecond)
				st.Impl = classifyRecv(resp, err, int64(time.Since(start)))
				st.OrTok = "r:" + hx2(op.Pkt)
			}()
			if st.OrTok == "" {
				if op.Send {
					st.OrTok = fmt.Sprintf("s:%d:%d", op.TTL, st.Now)
				} else {
					st.OrTok = "r:" + hx2(op.Pkt)
				}
			}
			steps = append(steps, st)
		}
	})
	return steps
}

// probeBytes returns the bytes the real driver emits for every TTL in ttls (fresh shadow driver
// with the same identifiers), keyed by TTL; for tcp-paris the random sequence numbers differ from
// the run under test, so callers use the run's own written probes instead.
func probeBytes(t *testing.T, c drvCfg, ttls []int) map[int][]byte {
	out := map[int][]byte{}
	synctest.Test(t, func(t *testing.T) {
		wire := newMemWire()
		d, err := newDriver(c, wire)
		if err != nil {
			return
		}
		for _, ttl := range ttls {
			func() {
				defer func() { _ = recover() }() // a crashing SendProbe is reported by the case run itself
				if err := d.SendProbe(uint8(ttl)); err == nil {
					out[ttl] = wire.lastWrite()
				}
			}()
		}
	})
	return out
}

// seqOfProbe extracts the TCP sequence number of a TCP probe (0 otherwise).
func seqOfProbe(probe []byte) uint32 {
	if len(probe) >= 28 && probe[0]>>4 == 4 && probe[9] == 6 {
		return binary.BigEndian.Uint32(probe[24:28])
	}
	return 0
}

var routers4 = []string{"10.9.8.7", "100.64.0.1", "192.0.2.254", "203.0.113.1"}
var routers6 = []string{"fd00:9::1", "2001:db8:ffff::1", "fe80::9"}

func pickRouter(r *hx.RNG, c drvCfg) netip.Addr {
	if c.v6() {
		return netip.MustParseAddr(hx.Pick(r, routers6))
	}
	return netip.MustParseAddr(hx.Pick(r, routers4))
}

// responderFor says who answers with form f.
func responderFor(r *hx.RNG, c drvCfg, f replyForm) netip.Addr {
	switch f.Kind {
	case "te":
		if r.Chance(1, 8) {
			return c.Target // the target itself answering with time-exceeded (SACK destination case)
		}
		return pickRouter(r, c)
	default:
		return c.Target
	}
}

// canonTokens joins oracle tokens for one case line.
func drvLine(c drvCfg, steps []drvStep) string {
	toks := make([]string, len(steps))
	for i, s := range steps {
		toks[i] = s.OrTok
	}
	return c.oraclePrefix() + " " + strings.Join(toks, " ")
}
