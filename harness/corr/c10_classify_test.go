package corr

// C10 (and the skip/abort decision every engine property rests on): the classification of read
// outcomes. The REAL packets.ReadAndParse is fed by a scripted Source with error values of many shapes
// — the deadline sentinel bare and wrapped the way real handles wrap it, time-out-flavoured failures
// that are NOT the sentinel (ETIMEDOUT, EAGAIN, context.DeadlineExceeded, a net.Error), plain failures,
// errors that already carry one of the marker types, zero-length and unparseable reads — under up to
// four layers of wrapping (%w, *os.PathError, *net.OpError, *os.SyscallError, errors.Join). The REAL
// common.CheckProbeRetryable / errors.As(NotSupportedError) / errors.Is(deadline) verdicts are
// compared with the Lean model TRV.Classify (theorems c10_classification_*), and the property's own
// clause is judged on the real output: a failed read is returned as an error that wraps the cause.

import (
	"context"
	"errors"
	"fmt"
	"net"
	"os"
	"strings"
	"syscall"
	"testing"
	"time"

	"github.com/DataDog/datadog-traceroute/common"
	"github.com/DataDog/datadog-traceroute/packets"
	"github.com/DataDog/datadog-traceroute/sack"

	"verifharness/hx"
)

type clsSource struct {
	data []byte
	err  error
}

func (s *clsSource) SetReadDeadline(time.Time) error                { return nil }
func (s *clsSource) Close() error                                   { return nil }
func (s *clsSource) SetPacketFilter(packets.PacketFilterSpec) error { return nil }
func (s *clsSource) Read(buf []byte) (int, error)                   { return copy(buf, s.data), s.err }

type clsNetTimeout struct{ n int }

func (e clsNetTimeout) Error() string   { return fmt.Sprintf("verif: i/o timeout %d", e.n) }
func (e clsNetTimeout) Timeout() bool   { return true }
func (e clsNetTimeout) Temporary() bool { return true }

// clsBuild turns link tokens (outermost first) into a Go error value; it returns the innermost cause too.
func clsBuild(r *hx.RNG, links []string) (err, cause error) {
	for i := len(links) - 1; i >= 0; i-- {
		l := links[i]
		switch {
		case l == "dl":
			err = os.ErrDeadlineExceeded
			cause = err
		case strings.HasPrefix(l, "c0:"):
			err = fmt.Errorf("verif: plain failure %s", l[3:])
			cause = err
		case strings.HasPrefix(l, "c1:"):
			switch r.Intn(4) {
			case 0:
				err = syscall.ETIMEDOUT
			case 1:
				err = syscall.EAGAIN
			case 2:
				err = context.DeadlineExceeded
			default:
				err = clsNetTimeout{r.Intn(9)}
			}
			cause = err
		case l == "w":
			switch r.Intn(5) {
			case 0:
				err = fmt.Errorf("layer: %w", err)
			case 1:
				err = &os.PathError{Op: "read", Path: "capture", Err: err}
			case 2:
				err = &net.OpError{Op: "read", Net: "ip4", Err: err}
			case 3:
				err = os.NewSyscallError("recvfrom", err)
			default:
				err = errors.Join(err)
			}
		case l == "np":
			err = &common.ReceiveProbeNoPktError{Err: err}
		case l == "bp":
			err = &common.BadPacketError{Err: err}
		case l == "ns":
			err = &sack.NotSupportedError{Err: err}
		}
	}
	return err, cause
}

func clsFlags(err error) string {
	var ns *sack.NotSupportedError
	return fmt.Sprintf("r=%s ns=%s dl=%s", b2s(common.CheckProbeRetryable("verif", err)), b2s(errors.As(err, &ns)), b2s(errors.Is(err, os.ErrDeadlineExceeded)))
}

func c10ClassifyStream(t *testing.T, rep *hx.Report, orc *hx.Oracle, rng *hx.RNG, n int) {
	parser := packets.NewFrameParser()
	buf := make([]byte, 1024)
	a, b := mustAddr("10.9.8.7"), mustAddr("192.0.2.2")
	good := ip4Packet(a, b, 1, 9, 250, 0, 0, nil, icmp4Msg(11, 0, [4]byte{}, ip4Packet(b, a, 1, 7, 1, 0, 0, nil, icmp4Msg(8, 0, [4]byte{0x12, 0x34, 0, 3}, nil))))
	type item struct {
		line, impl, what string
		replay           map[string]any
		bad              string
	}
	var items []item
	causes := func() string {
		switch rng.Intn(3) {
		case 0:
			return "dl"
		case 1:
			return fmt.Sprintf("c1:%d", rng.Range(1, 200))
		}
		return fmt.Sprintf("c0:%d", rng.Range(1, 200))
	}
	for i := 0; i < n; i++ {
		switch i % 4 {
		case 0, 1: // a failed read
			var links []string
			for k := rng.Intn(5); k > 0; k-- {
				links = append(links, "w")
			}
			if rng.Chance(1, 8) { // an error that already carries a marker type (a wrapped Source, a proxy)
				links = append(links, hx.Pick(rng, []string{"np", "bp", "ns"}))
				for k := rng.Intn(2); k > 0; k-- {
					links = append(links, "w")
				}
			}
			links = append(links, causes())
			rerr, cause := clsBuild(rng, links)
			ret := packets.ReadAndParse(&clsSource{err: rerr}, buf, parser)
			verdict := "packet"
			if ret != nil {
				verdict = map[bool]string{true: "skip", false: "abort"}[common.CheckProbeRetryable("verif", ret)]
			}
			it := item{line: "cls.read err " + strings.Join(links, " "), impl: verdict + " " + clsFlags(ret), what: "failed read",
				replay: map[string]any{"read_error_chain_outermost_first": links, "read_error": fmt.Sprint(rerr), "returned": fmt.Sprint(ret)}}
			if ret == nil {
				it.bad = "a failed read was returned as a success"
			} else if !errors.Is(ret, cause) {
				it.bad = "the error returned for a failed read does not wrap its cause (" + fmt.Sprint(cause) + ")"
			}
			items = append(items, it)
			rep.Hit("classify:read-error:" + links[len(links)-1][:2] + ":" + verdict)
		case 2: // bytes without an error
			nb, pe := hx.Pick(rng, []int{0, 0, len(good), 40, 1}), rng.Bool()
			data := append([]byte(nil), good...)
			if pe || nb < len(good) {
				data = rng.Bytes(nb)
				if nb > 0 {
					data[0] = 0x70 // no IP version 7: the parser rejects it
				}
				pe = true
			}
			if nb == 0 {
				data = nil
			}
			ret := packets.ReadAndParse(&clsSource{data: data}, buf, parser)
			verdict := "packet"
			if ret != nil {
				verdict = map[bool]string{true: "skip", false: "abort"}[common.CheckProbeRetryable("verif", ret)]
			}
			items = append(items, item{line: fmt.Sprintf("cls.read data %d %s", len(data), b2s(pe && len(data) > 0)), impl: verdict + " " + clsFlags(ret), what: "read without error",
				replay: map[string]any{"bytes": hx2(data), "returned": fmt.Sprint(ret)}})
			rep.Hit(fmt.Sprintf("classify:data:%s", verdict))
		default: // an arbitrary chain straight into the classifiers (what drivers build around read errors)
			var links []string
			for k := rng.Range(0, 5); k > 0; k-- {
				links = append(links, hx.Pick(rng, []string{"w", "w", "w", "np", "bp", "ns"}))
			}
			links = append(links, causes())
			e, _ := clsBuild(rng, links)
			items = append(items, item{line: "cls.chain " + strings.Join(links, " "), impl: clsFlags(e), what: "error chain",
				replay: map[string]any{"chain_outermost_first": links, "error": fmt.Sprint(e)}})
			rep.Hit("classify:chain:" + clsFlags(e))
		}
	}
	lines := make([]string, len(items))
	for i, it := range items {
		lines[i] = it.line
	}
	answers, err := orc.Batch(lines)
	if err != nil {
		t.Fatalf("oracle(classify): %v", err)
	}
	for i, it := range items {
		rep.Case("classify", it.line+"|"+fmt.Sprint(it.replay["read_error"])+fmt.Sprint(it.replay["error"]), true, it.replay)
		it.replay["oracle_line"], it.replay["model"], it.replay["implementation"] = it.line, answers[i], it.impl
		if it.bad != "" {
			rep.Violate(hx.Violation{Kind: "spec", What: it.bad, Sig: map[string]string{"stream": "classify"}, Replay: it.replay})
			continue
		}
		if answers[i] == "bad-op" {
			t.Fatalf("oracle rejected %q", it.line)
		}
		if answers[i] != it.impl {
			// the deviation itself is a concrete input: an outcome that the engines will skip although it
			// should end the run, or the other way round
			rep.Violate(hx.Violation{Kind: "spec",
				What: fmt.Sprintf("%s classified differently from the reference (ReadAndParse / CheckProbeRetryable): implementation %q, reference %q — a read outcome is skipped that must end the run with its cause, or ends the run although it is only 'no packet yet' / an unparseable packet", it.what, it.impl, answers[i]),
				Sig:  map[string]string{"stream": "classify"}, Replay: it.replay})
		}
	}
}
