package corr

// C19: parameters are honoured exactly or rejected. The real RunTraceroute / runTracerouteOnce / HTTP
// handler run over the simulated wire (packets.NewSourceSink seam) under a virtual clock; every
// packet written to the Sink is decoded by fixed offsets (TTL = byte 8 of IPv4 / byte 7 of IPv6) and
// the observed (TTL list, destination, port, protocol, probe kind) is compared with the request by
// the Lean predicate `Honoured` and with the Lean model `Params.run`. Every case runs in a CHILD
// process (re-exec of this test binary) because a panic in the engine's sender goroutine cannot be
// recovered: a child that dies marks the case it was running as a crash.

import (
	"bufio"
	"bytes"
	"context"
	"encoding/json"
	"fmt"
	"net"
	"net/http/httptest"
	"net/netip"
	"net/url"
	"os"
	"os/exec"
	"path/filepath"
	"regexp"
	"strings"
	"sync"
	"testing"
	"testing/synctest"
	"time"

	"github.com/DataDog/datadog-traceroute/common"
	"github.com/DataDog/datadog-traceroute/sack"
	"github.com/DataDog/datadog-traceroute/server"
	"github.com/DataDog/datadog-traceroute/traceroute"

	"verifharness/hx"
)

type c19Case struct {
	ID     int    `json:"id"`
	Via    string `json:"via"` // run | once | http | sackdriver
	Proto  string `json:"protocol"`
	Method string `json:"tcp_method"`
	Min    int    `json:"min_ttl"`
	Max    int    `json:"max_ttl"`
	Port   int    `json:"port"`
	Target string `json:"target"`
	V6     bool   `json:"target_is_v6"`
	// LitPort: "-" no port in the literal, "g" non-numeric, else the number written in the literal
	LitPort string `json:"literal_port"`
	// Avail (SACK methods only; target is then a loop-back listener and Port its port):
	// capable | unsupported (port closed) | fatal (SYN-ACK never captured)
	Avail string `json:"sack_availability"`
	Delay int    `json:"delay_ms"`
}

type c19Pkt struct {
	TTL   int    `json:"ttl"`
	Proto int    `json:"proto"`
	DPort int    `json:"dport"`
	Flags int    `json:"flags"`
	V6    bool   `json:"v6"`
	Dst   string `json:"dst"`
	SinkP int    `json:"sink_port"`
	SinkA string `json:"sink_addr"`
}

type c19Res struct {
	ID       int      `json:"id"`
	Accepted bool     `json:"accepted"`
	Err      string   `json:"error,omitempty"`
	HTTP     int      `json:"http_status,omitempty"`
	Pkts     []c19Pkt `json:"-"`
	PktsRaw  []c19Pkt `json:"pkts"`
	Port     int      `json:"effective_port"` // the listener's port for SACK cases, else the case's port
	Panic    string   `json:"panic,omitempty"`
	Crashed  bool     `json:"crashed,omitempty"`
	Stderr   string   `json:"stderr_tail,omitempty"`
	// E2eOnly: the same parameters in a request with 0 traceroute queries and 1 end-to-end probe
	// ("" = not tried, "accepted", "rejected: …")
	E2eOnly string `json:"e2e_only,omitempty"`
}

const c19InitSeq = 0x00300000

// c19Exec runs one case against the real code (in the child process).
func c19Exec(t *testing.T, c c19Case) c19Res {
	res := c19Res{ID: c.ID, Port: c.Port}
	loop := netip.MustParseAddr("127.0.0.1")
	var ln net.Listener
	var conns []net.Conn
	if c.Avail != "" {
		var err error
		ln, err = net.Listen("tcp4", "127.0.0.1:0")
		if err != nil {
			t.Fatalf("listen: %v", err)
		}
		res.Port = ln.Addr().(*net.TCPAddr).Port
		if c.Avail == "unsupported" {
			ln.Close()
			ln = nil
		}
	}
	port := res.Port
	twinFrom := -1
	synctest.Test(t, func(t *testing.T) {
		w := &bwWire{}
		w.Configure = func(idx int, addr netip.Addr, src *bwSource, snk *bwSink) {
			if idx != 0 || c.Avail != "capable" {
				return
			}
			var once sync.Once
			src.BeforeRead = func(s *bwSource) {
				once.Do(func() {
					ln.(*net.TCPListener).SetDeadline(time.Now().Add(2 * time.Second))
					cn, err := ln.Accept()
					if err != nil {
						return
					}
					conns = append(conns, cn)
					cp := uint16(cn.RemoteAddr().(*net.TCPAddr).Port)
					s.Inject(c20TCPFrame(loop, loop, uint16(port), cp, 0x00400000, c19InitSeq, 0x12, []byte{2, 4, 0x05, 0xb4, 4, 2}))
				})
			}
		}
		defer bwInstall(w)()
		params := traceroute.TracerouteParams{Hostname: c.Target, Port: port, Protocol: c.Proto, MinTTL: c.Min, MaxTTL: c.Max, Delay: c.Delay,
			Timeout: 30 * time.Millisecond, TCPMethod: traceroute.TCPMethod(c.Method), TracerouteQueries: 1, E2eQueries: 0}
		switch c.Via {
		case "run":
			r, err := traceroute.VerifNewTraceroute(nil).RunTraceroute(context.Background(), params)
			res.Accepted = err == nil && r != nil
			if err != nil {
				res.Err = err.Error()
			}
			if err != nil && c.Avail == "" {
				// whether a parameter set is acceptable does not depend on the kind of query that carries it:
				// the same parameters in an end-to-end-only request must be rejected too
				twinFrom = len(w.AllPackets())
				p2 := params
				p2.TracerouteQueries, p2.E2eQueries = 0, 1
				r2, err2 := traceroute.VerifNewTraceroute(nil).RunTraceroute(context.Background(), p2)
				if err2 == nil && r2 != nil {
					res.E2eOnly = "accepted"
				} else {
					res.E2eOnly = "rejected: " + fmt.Sprint(err2)
				}
			}
		case "once":
			dp := port
			if dp == 0 {
				dp = common.DefaultPort
			}
			r, err := traceroute.VerifRunOnce(context.Background(), params, dp)
			res.Accepted = err == nil && r != nil
			if err != nil {
				res.Err = err.Error()
			}
		case "http":
			q := url.Values{}
			q.Set("target", c.Target)
			q.Set("port", fmt.Sprint(port))
			q.Set("protocol", c.Proto)
			q.Set("max-ttl", fmt.Sprint(c.Max))
			q.Set("tcp-method", c.Method)
			q.Set("traceroute-queries", "1")
			q.Set("e2e-queries", "0")
			q.Set("timeout", "30")
			rec := httptest.NewRecorder()
			server.NewServer().TracerouteHandler(rec, httptest.NewRequest("GET", "/traceroute?"+q.Encode(), nil))
			res.HTTP = rec.Code
			res.Accepted = rec.Code == 200
			if rec.Code != 200 {
				res.Err = strings.TrimSpace(rec.Body.String())
			}
		case "sackdriver":
			// the SACK driver alone: table sized from MaxTTL, then SendProbe for every TTL of the range
			src, snk := bwNewSource(), bwNewSink()
			w.mu.Lock()
			w.Sinks = append(w.Sinks, snk)
			w.mu.Unlock()
			p := sack.Params{Target: netip.AddrPortFrom(netip.MustParseAddr("192.0.2.9"), uint16(port)), HandshakeTimeout: time.Second,
				ParallelParams: common.TracerouteParallelParams{TracerouteParams: common.TracerouteParams{MinTTL: uint8(c.Min), MaxTTL: uint8(c.Max)}}}
			d, err := sack.VerifNewDriver(p, netip.MustParseAddr("192.0.2.2"), snk, src)
			if err != nil {
				res.Err = err.Error()
				return
			}
			sack.VerifSetState(d, sack.VerifState{LocalPort: 40000, LocalInitSeq: c19InitSeq, LocalInitAck: 1})
			func() {
				defer func() {
					if r := recover(); r != nil {
						res.Panic = fmt.Sprint(r)
					}
				}()
				res.Accepted = true
				for ttl := c.Min; ttl <= c.Max; ttl++ {
					if err := d.SendProbe(uint8(ttl)); err != nil {
						res.Err = err.Error()
						res.Accepted = false
						return
					}
				}
			}()
		}
		all := w.AllPackets()
		if twinFrom >= 0 && twinFrom <= len(all) {
			all = all[:twinFrom] // what the twin (end-to-end-only) request wrote is not part of this case's wire
		}
		for _, p := range all {
			h := bwParse(p.Data)
			res.PktsRaw = append(res.PktsRaw, c19Pkt{TTL: h.TTL, Proto: h.Proto, DPort: h.DstPort, Flags: h.Flags, V6: h.V6, Dst: h.Dst.String(),
				SinkP: int(p.Dst.Port()), SinkA: p.Dst.Addr().String()})
		}
	})
	for _, cn := range conns {
		cn.Close()
	}
	if ln != nil {
		ln.Close()
	}
	return res
}

// c19Child is the body of the re-executed test binary: run the cases of the file from index `from`.
func c19Child(t *testing.T, file string) {
	b, err := os.ReadFile(file)
	if err != nil {
		t.Fatal(err)
	}
	var cases []c19Case
	if err := json.Unmarshal(b, &cases); err != nil {
		t.Fatal(err)
	}
	from := 0
	fmt.Sscan(os.Getenv("VERIF_C19_FROM"), &from)
	out := bufio.NewWriter(os.Stdout)
	for _, c := range cases[from:] {
		fmt.Fprintf(out, "C19BEGIN %d\n", c.ID)
		out.Flush()
		r := c19Exec(t, c)
		j, _ := json.Marshal(r)
		fmt.Fprintf(out, "C19RES %s\n", j)
		out.Flush()
	}
}

// c19RunAll executes all cases in child processes, restarting after each crash.
func c19RunAll(t *testing.T, cases []c19Case, rep *hx.Report) []c19Res {
	dir, err := os.MkdirTemp("", "c19")
	if err != nil {
		t.Fatal(err)
	}
	defer os.RemoveAll(dir)
	file := filepath.Join(dir, "cases.json")
	b, _ := json.Marshal(cases)
	os.WriteFile(file, b, 0o644)
	results := make([]c19Res, len(cases))
	done := 0
	spawns := 0
	for done < len(cases) {
		spawns++
		ctx, cancel := context.WithTimeout(context.Background(), 20*time.Minute)
		cmd := exec.CommandContext(ctx, os.Args[0], "-test.run", "^TestC19$", "-test.timeout", "30m")
		cmd.Env = append(os.Environ(), "VERIF_C19_CHILD="+file, fmt.Sprintf("VERIF_C19_FROM=%d", done))
		var stdout, stderr bytes.Buffer
		cmd.Stdout, cmd.Stderr = &stdout, &stderr
		runErr := cmd.Run()
		cancel()
		began := -1
		sc := bufio.NewScanner(&stdout)
		sc.Buffer(make([]byte, 1<<20), 1<<26)
		for sc.Scan() {
			line := sc.Text()
			if strings.HasPrefix(line, "C19BEGIN ") {
				fmt.Sscan(line[9:], &began)
			} else if strings.HasPrefix(line, "C19RES ") {
				var r c19Res
				if json.Unmarshal([]byte(line[7:]), &r) == nil && r.ID == done {
					r.Pkts = r.PktsRaw
					results[done] = r
					done++
					began = -1
				}
			}
		}
		if done >= len(cases) {
			break
		}
		if runErr == nil && began < 0 {
			t.Fatalf("C19 child exited cleanly without finishing (at case %d): %s", done, stderr.String())
		}
		// the child died while running case `done`
		tail := stderr.String()
		if i := strings.Index(tail, "panic:"); i >= 0 {
			tail = tail[i:]
		}
		if len(tail) > 600 {
			tail = tail[:600]
		}
		results[done] = c19Res{ID: done, Crashed: true, Stderr: tail, Port: cases[done].Port}
		done++
	}
	rep.Note("child processes spawned: %d for %d cases", spawns, len(cases))
	return results
}

// c19Facts reads the regenerated facts (lean/TRV/Generated/ParamsFacts.lean).
func c19Facts(env hx.Env) (ttlChecked, sackInt bool, err error) {
	b, err := os.ReadFile(filepath.Join(env.Verif, "lean", "TRV", "Generated", "ParamsFacts.lean"))
	if err != nil {
		return false, false, err
	}
	get := func(name string) (bool, error) {
		m := regexp.MustCompile(`def\s+` + name + `\s*:\s*Bool\s*:=\s*(true|false)`).FindSubmatch(b)
		if m == nil {
			return false, fmt.Errorf("fact %s not found in ParamsFacts.lean", name)
		}
		return string(m[1]) == "true", nil
	}
	if ttlChecked, err = get("ttlRangeChecked"); err != nil {
		return
	}
	sackInt, err = get("sackTableInt")
	return
}

func c19ProtoToken(p string) string {
	switch p {
	case "udp", "tcp", "icmp":
		return p
	}
	return "other"
}

func c19AvailToken(a string) string {
	if a == "" {
		return "capable"
	}
	return a
}

// c19PTokens renders the request as the oracle's P tokens.
func c19PTokens(c c19Case, r c19Res) string {
	min := c.Min
	if c.Via == "http" {
		min = common.DefaultMinTTL
	}
	return fmt.Sprintf("%s %s %d %d %d %s %s %s", c19ProtoToken(c.Proto), c20MethodToken(c.Method), min, c.Max, r.Port, c.LitPort, b2s(c.V6), c19AvailToken(c.Avail))
}

// c19Observed renders what was seen on the wire as a Plan token string: proto kind port v6 ttls
func c19Observed(c c19Case, r c19Res, wantDst string) (string, string) {
	if len(r.Pkts) == 0 {
		return "none none - 0 -", "an accepted run wrote no probe at all"
	}
	first := r.Pkts[0]
	proto, kind, port := "other", "none", "-"
	switch first.Proto {
	case 17:
		proto = "udp"
		port = fmt.Sprint(first.DPort)
	case 6:
		proto = "tcp"
		port = fmt.Sprint(first.DPort)
		switch first.Flags {
		case 0x02:
			kind = "syn"
		case 0x18:
			kind = "sack"
		default:
			kind = "other"
		}
	case 1, 58:
		proto = "icmp"
	}
	ttls := make([]string, len(r.Pkts))
	odd := ""
	for i, p := range r.Pkts {
		ttls[i] = fmt.Sprint(p.TTL)
		if p.Proto != first.Proto || p.DPort != first.DPort || p.Flags != first.Flags || p.V6 != first.V6 {
			odd = fmt.Sprintf("probes of one run differ in protocol/port/kind: %+v vs %+v", first, p)
		}
		if p.Dst != wantDst || p.SinkA != wantDst {
			odd = fmt.Sprintf("probe addressed to %s (sink %s), requested %s", p.Dst, p.SinkA, wantDst)
		}
		if proto != "icmp" && p.SinkP != p.DPort {
			odd = fmt.Sprintf("sink port %d differs from the packet's destination port %d", p.SinkP, p.DPort)
		}
	}
	return fmt.Sprintf("%s %s %s %s %s", proto, kind, port, b2s(first.V6), strings.Join(ttls, ",")), odd
}

type c19Target struct {
	Lit     string
	Host    string
	V6      bool
	LitPort string
}

var c19Targets = []c19Target{
	{"192.0.2.9", "192.0.2.9", false, "-"},
	{"192.0.2.9:443", "192.0.2.9", false, "443"},
	{"[2001:db8::1]", "2001:db8::1", true, "-"},
	{"[2001:db8::1]:443", "2001:db8::1", true, "443"},
	{"2001:db8::1", "2001:db8::1", true, "-"},
}

var c19ExtraTargets = []c19Target{
	{"192.0.2.9:0", "192.0.2.9", false, "0"},
	{"192.0.2.9:1", "192.0.2.9", false, "1"},
	{"192.0.2.9:65535", "192.0.2.9", false, "65535"},
	{"192.0.2.9:65536", "192.0.2.9", false, "65536"},
	{"192.0.2.9:70000", "192.0.2.9", false, "70000"},
	{"192.0.2.9:-5", "192.0.2.9", false, "-5"},
	{"192.0.2.9:http", "192.0.2.9", false, "g"},
	{"[2001:db8::1]:65536", "2001:db8::1", true, "65536"},
	{"[2001:db8::1]:0", "2001:db8::1", true, "0"},
}

var c19TTLGrid = []int{1, 300, 255, 2, 30, 254, 256, 257, 258, 511, 65535, 65536, 65537, 0, -1, -300}
var c19PortGrid = []int{-1, 0, 1, 33434, 65535, 65536}

func c19Cases(env hx.Env, r *hx.RNG) []c19Case {
	var cs []c19Case
	add := func(c c19Case) {
		c.ID = len(cs)
		cs = append(cs, c)
	}
	t0 := c19Targets[0]
	type pm struct{ proto, method, avail string }
	wire := []pm{{"udp", "", ""}, {"tcp", "syn", ""}, {"icmp", "", ""}, {"tcp", "sack", "capable"}}
	// 1. integer grid MinTTL × MaxTTL × protocols through RunTraceroute
	for _, p := range wire {
		for _, mn := range c19TTLGrid {
			for _, mx := range c19TTLGrid {
				c := c19Case{Via: "run", Proto: p.proto, Method: p.method, Min: mn, Max: mx, Port: 33434, Target: t0.Lit, LitPort: "-", Avail: p.avail, Delay: (mn + mx) & 1}
				if p.avail != "" {
					c.Target = "127.0.0.1"
				}
				add(c)
			}
		}
	}
	// 2. ports × target literal forms × protocols (RunTraceroute and runTracerouteOnce directly)
	for _, p := range wire[:3] {
		for _, tg := range append(append([]c19Target{}, c19Targets...), c19ExtraTargets...) {
			for _, port := range c19PortGrid {
				via := "run"
				if (port+len(tg.Lit))%3 == 0 {
					via = "once"
				}
				add(c19Case{Via: via, Proto: p.proto, Method: p.method, Min: 1, Max: 3, Port: port, Target: tg.Lit, V6: tg.V6, LitPort: tg.LitPort})
			}
		}
	}
	// 3. protocol and method strings
	for _, proto := range []string{"udp", "tcp", "icmp", "UDP", "TCP", "", "sctp", "tcp "} {
		for _, m := range []string{"", "syn", "sack", "prefer_sack", "syn_socket", "SYN", "garbage"} {
			for _, tt := range [][2]int{{1, 2}, {2, 300}} {
				c := c19Case{Via: "run", Proto: proto, Method: m, Min: tt[0], Max: tt[1], Port: 33434, Target: t0.Lit, LitPort: "-"}
				if proto == "tcp" && (m == "sack" || m == "prefer_sack") {
					for _, av := range []string{"capable", "unsupported", "fatal"} {
						c2 := c
						c2.Avail, c2.Target = av, "127.0.0.1"
						add(c2)
					}
					continue
				}
				add(c)
			}
		}
	}
	// 4. SACK methods × availability × TTL extremes, and SACK with an IPv6 literal
	for _, m := range []string{"sack", "prefer_sack"} {
		for _, av := range []string{"capable", "unsupported", "fatal"} {
			for _, tt := range [][2]int{{1, 1}, {1, 254}, {1, 255}, {255, 255}, {254, 255}, {1, 256}, {0, 3}, {1, 511}, {-1, 255}, {5, 2}} {
				add(c19Case{Via: "run", Proto: "tcp", Method: m, Min: tt[0], Max: tt[1], Target: "127.0.0.1", LitPort: "-", Avail: av})
			}
		}
		add(c19Case{Via: "run", Proto: "tcp", Method: m, Min: 1, Max: 3, Port: 443, Target: "[2001:db8::1]", V6: true, LitPort: "-", Avail: ""})
	}
	// 5. the HTTP handler: max-ttl grid × protocols, ports × targets
	for _, p := range wire {
		for _, mx := range c19TTLGrid {
			c := c19Case{Via: "http", Proto: p.proto, Method: p.method, Min: 1, Max: mx, Port: 33434, Target: t0.Lit, LitPort: "-", Avail: p.avail}
			if p.avail != "" {
				c.Target = "127.0.0.1"
			}
			add(c)
		}
	}
	for _, p := range wire[:3] {
		for _, tg := range c19Targets {
			for _, port := range c19PortGrid {
				add(c19Case{Via: "http", Proto: p.proto, Method: p.method, Min: 1, Max: 2, Port: port, Target: tg.Lit, V6: tg.V6, LitPort: tg.LitPort})
			}
		}
	}
	// 6. the SACK driver alone (table sized from MaxTTL), every MaxTTL near the 8-bit boundary
	for _, tt := range [][2]int{{1, 1}, {1, 30}, {250, 254}, {254, 254}, {1, 255}, {250, 255}, {255, 255}} {
		add(c19Case{Via: "sackdriver", Proto: "tcp", Method: "sack", Min: tt[0], Max: tt[1], Port: 443, Target: "192.0.2.9", LitPort: "-", Avail: "capable"})
	}
	// 7. random integers (thorough: many)
	for i, n := 0, env.Scale(150, 4000); i < n; i++ {
		pick := func() int {
			switch r.Intn(6) {
			case 0:
				return r.Range(-70000, 70000)
			case 1:
				return r.Range(250, 260)
			case 2:
				return 256*r.Range(0, 300) + r.Range(0, 3)
			default:
				return r.Range(1, 255)
			}
		}
		p := hx.Pick(r, wire)
		c := c19Case{Via: hx.Pick(r, []string{"run", "once"}), Proto: p.proto, Method: p.method, Min: pick(), Max: pick(), Port: hx.Pick(r, []int{0, 1, 443, 33434, 65535}),
			Target: t0.Lit, LitPort: "-", Avail: p.avail, Delay: r.Intn(2)}
		if p.avail != "" {
			c.Target = "127.0.0.1"
		}
		add(c)
	}
	return cs
}

func TestC19(t *testing.T) {
	if f := os.Getenv("VERIF_C19_CHILD"); f != "" {
		c19Child(t, f)
		return
	}
	env := hx.GetEnv()
	rep := hx.NewReport("C19", env, "real RunTraceroute / runTracerouteOnce / HTTP handler over the simulated wire, one child process per crash; "+
		"non-trivial = the request was accepted and probes were observed on the wire, or the process crashed; distinct by (entry point, protocol, method, TTL bounds, port, target literal, SACK availability)")
	defer rep.Write()
	rng := hx.NewRNG(env.Seed ^ 0xC19)
	orc := hx.NewOracle()
	ttlChecked, sackInt, err := c19Facts(env)
	if err != nil {
		t.Fatalf("regenerated facts: %v (run the translator: ./check C19, or harness/bin/extract)", err)
	}
	rep.Note("regenerated facts: ttlRangeChecked=%v sackTableInt=%v", ttlChecked, sackInt)

	cases := c19Cases(env, rng)
	results := c19RunAll(t, cases, rep)

	lines := make([]string, len(cases))
	specLines := make([]string, len(cases))
	obs := make([]string, len(cases))
	odd := make([]string, len(cases))
	for i, c := range cases {
		r := results[i]
		ptoks := c19PTokens(c, r)
		tc, si := ttlChecked, sackInt
		lines[i] = fmt.Sprintf("par.run %s %s %s", b2s(tc), b2s(si), ptoks)
		if c.Via == "sackdriver" {
			lines[i] = fmt.Sprintf("par.sacksend %s %d %d", b2s(si), c.Min, c.Max)
		}
		wantDst := c.Target
		for _, tg := range append(append([]c19Target{}, c19Targets...), c19ExtraTargets...) {
			if tg.Lit == c.Target {
				wantDst = tg.Host
			}
		}
		switch {
		case r.Crashed || r.Panic != "":
			obs[i] = "crash"
		case !r.Accepted:
			obs[i] = "reject"
		default:
			obs[i], odd[i] = c19Observed(c, r, wantDst)
			obs[i] = "plan " + obs[i]
		}
		specLines[i] = fmt.Sprintf("par.spec %s ; %s", ptoks, obs[i])
	}
	answers, err := orc.Batch(lines)
	if err != nil {
		t.Fatalf("oracle: %v", err)
	}
	specAns, err := orc.Batch(specLines)
	if err != nil {
		t.Fatalf("oracle(spec): %v", err)
	}
	perDefect := map[string]int{}
	mismatches, unpredicted := 0, 0
	defer func() {
		rep.Note("model/implementation outcome mismatches among cases that satisfy the spec: %d; among spec-violating cases (model instance for the regenerated facts): %d", mismatches, unpredicted)
		for k, n := range perDefect {
			if n > 3 {
				rep.Note("defect %s: %d failing inputs found, 3 written as replays", k, n)
			}
		}
	}()
	for i, c := range cases {
		r := results[i]
		sample := map[string]any{"case": c, "effective_port": r.Port, "accepted": r.Accepted, "crashed": r.Crashed || r.Panic != "", "error": r.Err,
			"http_status": r.HTTP, "e2e_only_request": r.E2eOnly, "observed": obs[i], "oracle_line": lines[i], "panic": r.Panic + r.Stderr}
		key := fmt.Sprintf("%s|%s|%s|%d|%d|%d|%s|%s", c.Via, c.Proto, c.Method, c.Min, c.Max, c.Port, c.Target, c.Avail)
		rep.Case(c.Via, key, strings.HasPrefix(obs[i], "plan") || obs[i] == "crash", sample)
		rep.Hit("via:" + c.Via)
		rep.Hit("proto:" + c19ProtoToken(c.Proto))
		rep.Hit("outcome:" + strings.Fields(obs[i])[0])
		if c.Via == "sackdriver" {
			// spec: an accepted TTL range must never crash the driver
			if obs[i] == "crash" {
				rep.Violate(hx.Violation{Kind: "spec", What: fmt.Sprintf("SACK driver with TTL range %d..%d panics in SendProbe: %s", c.Min, c.Max, r.Panic),
					Sig: map[string]string{"defect": "sack-table", "via": c.Via}, Replay: sample})
				continue
			}
			want := "ok"
			if answers[i] != want && answers[i] != obs[i] {
				sample["model_result"] = answers[i]
				sample["broken"] = "correspondence stream params/sackdriver (Lean TRV.Params.sackSend vs sack.sackDriver.SendProbe)"
				rep.Violate(hx.Violation{Kind: "correspondence", NoInput: true, What: "SACK send-table model and driver differ; no crash observed",
					Sig: map[string]string{"stream": "sackdriver"}, Replay: sample})
			}
			continue
		}
		bad, sig := "", map[string]string{"via": c.Via}
		minEff := c.Min
		if c.Via == "http" {
			minEff = 1
		}
		switch {
		case r.E2eOnly == "accepted" && obs[i] == "reject" && len(r.Pkts) == 0 && 1 <= minEff && minEff <= c.Max:
			// (an end-to-end probe only uses the last TTL: a first TTL that is out of range or above the
			// last one is not looked at by such a request, which is not a parameter being dishonoured)
			bad = fmt.Sprintf("a request with one traceroute query is rejected (%s) before any probe is sent, but the same parameters (protocol %s method %q TTL %d..%d port %d target %s) are accepted in a request with only an end-to-end probe", r.Err, c.Proto, c.Method, minEff, c.Max, r.Port, c.Target)
			sig["defect"] = "e2e-only-accepts-rejected-parameters"
		case strings.Contains(r.Err, errRunaway.Error()):
			bad = fmt.Sprintf("the run never stops sending: asked protocol %s method %q TTL %d..%d, the simulated wire's guard ended it after 1500 probes", c.Proto, c.Method, minEff, c.Max)
			sig["defect"] = "runaway-loop"
		case obs[i] == "crash":
			bad = fmt.Sprintf("the process crashed on an accepted request (protocol %s method %q TTL %d..%d): %s", c.Proto, c.Method, minEff, c.Max, strings.SplitN(r.Stderr, "\n", 2)[0])
			sig["defect"] = "crash"
			if c.Proto == "tcp" && (c.Method == "sack" || c.Method == "prefer_sack") && ((c.Max%256)+256)%256 == 255 {
				sig["defect"] = "sack-table"
			}
		case strings.HasPrefix(obs[i], "plan") && odd[i] != "":
			bad = odd[i]
			sig["defect"] = "wire"
		case strings.HasPrefix(obs[i], "plan") && specAns[i] != "1":
			bad = fmt.Sprintf("request accepted but not honoured: asked protocol %s method %q TTL %d..%d port %d target %s; wire shows %s", c.Proto, c.Method, minEff, c.Max, r.Port, c.Target, c19Short(obs[i]))
			sig["defect"] = "not-honoured"
			if minEff < 1 || minEff > 255 || c.Max < 1 || c.Max > 255 {
				sig["defect"] = "ttl-wrap"
			}
		}
		if bad != "" {
			// keep the replay files diverse: at most three per defect kind and entry point
			k := sig["defect"] + "/" + c.Via
			perDefect[k]++
			if answers[i] != obs[i] {
				unpredicted++
			}
			if perDefect[k] <= 3 {
				rep.Violate(hx.Violation{Kind: "spec", What: bad, Sig: sig, Replay: sample})
			}
			continue
		}
		if answers[i] != obs[i] {
			mismatches++
			sample["model_result"] = answers[i]
			sample["broken"] = "correspondence stream params/" + c.Via + " (Lean TRV.Params.run vs traceroute.RunTraceroute)"
			rep.Violate(hx.Violation{Kind: "correspondence", NoInput: true,
				What: "parameter model and implementation differ (" + c.Via + "); the implementation's behaviour satisfies Honoured-or-rejected",
				Sig:  map[string]string{"stream": c.Via}, Replay: sample})
		}
	}
	if rep.Failed() {
		t.Fail()
	}
}

func c19Short(s string) string {
	if len(s) > 120 {
		return s[:120] + "…"
	}
	return s
}
