package corr

// C01 (attribution soundness), C02 (recognition completeness), C04 (destination marking),
// C09 (hostile bytes): matcher-level correspondence of the real drivers with the Lean driver
// models over all streams, plus the property-specific spec predicates evaluated on the real
// drivers' own outputs.

import (
	"fmt"
	"strings"
	"testing"

	"verifharness/hx"
)

var streamWeights = map[string]map[string]int{
	"C01": {"genuine": 3, "perturbed": 8, "unsent": 2, "foreign": 4, "own-probe": 1, "dest-other": 2, "noise": 1, "bitflip": 1, "opts-mimic": 1, "other-family": 1, "own-synack": 1},
	"C02": {"genuine": 10, "noise": 1, "foreign": 1, "own-synack": 1},
	"C04": {"genuine": 4, "dest-other": 6, "perturbed": 3, "foreign": 2, "other-family": 1},
	"C09": {"noise": 4, "truncated": 6, "bitflip": 6, "perturbed": 3, "genuine": 1, "quote-ext": 2},
}

func stepJSON(c drvCfg, steps []drvStep, upto int) map[string]any {
	var ops []string
	for i := 0; i <= upto && i < len(steps); i++ {
		ops = append(ops, steps[i].OrTok+" => "+steps[i].Impl)
	}
	return map[string]any{"variant": c.Variant, "oracle_config": c.oraclePrefix(), "steps": ops, "meta": steps[upto].Op.Meta}
}

func runMatcherProperty(t *testing.T, prop string) {
	env := hx.GetEnv()
	rep := hx.NewReport(prop, env, "matcher-level cases: real driver (verif hooks) over the in-memory wire in a synctest bubble, a few SendProbe calls interleaved with inbound packets from the streams "+
		"{genuine catalogue reply, single-field perturbation, reply to an unsent TTL, reply to a foreign run, own outgoing probe, destination-form reply from another host, truncation, bit flips, noise}; "+
		"one evaluation = one inbound packet; non-trivial = the packet parsed as IP (not pure noise) ; distinct by packet bytes + configuration")
	defer rep.Write()
	rng := hx.NewRNG(env.Seed ^ 0xC01)
	orc := hx.NewOracle()
	nCases := env.Scale(300, 3000)
	var cases []*matcherCase
	for _, v := range allVariants {
		for i := 0; i < nCases; i++ {
			mc := genMatcherCase(t, rng, genCfg(rng, v), streamWeights[prop])
			runMatcherCase(t, &mc)
			cases = append(cases, &mc)
		}
	}
	switch prop {
	case "C02":
		for _, v := range allVariants {
			for i := 0; i < env.Scale(6, 60); i++ {
				c := genCfg(rng, v)
				c.Loosen = i%2 == 0
				mc := genCompletenessCase(t, rng, c, env.Scale(4, 40))
				runMatcherCase(t, &mc)
				cases = append(cases, &mc)
			}
		}
		// option lattice: every option string of length 4 over the alphabet in the thorough tier (one
		// variant per seed), random strings in the quick tier
		for vi, v := range allVariants {
			exhaustive := env.Thorough() && vi == int(env.Seed%uint64(len(allVariants)))
			mc := genOptionLatticeCase(t, rng, genCfg(rng, v), env.Scale(60, 600), exhaustive)
			runMatcherCase(t, &mc)
			cases = append(cases, &mc)
		}
	case "C09":
		for _, v := range allVariants {
			mc := genOptionLatticeCase(t, rng, genCfg(rng, v), env.Scale(40, 400), false)
			runMatcherCase(t, &mc)
			cases = append(cases, &mc)
		}
		for _, v := range allVariants {
			for i := 0; i < env.Scale(2, 12); i++ {
				mc := genTruncationCase(t, rng, genCfg(rng, v))
				runMatcherCase(t, &mc)
				cases = append(cases, &mc)
			}
		}
	}
	lines := make([]string, len(cases))
	for i, mc := range cases {
		lines[i] = drvLine(mc.Cfg, mc.Steps)
	}
	answers, err := orc.Batch(lines)
	if err != nil {
		t.Fatalf("oracle: %v", err)
	}
	// spec on implementation output: every outcome the REAL driver accepted is judged by the Lean
	// genuineness predicate (evaluated on the raw packet bytes, with the model's record of what
	// had been sent at that point)
	jlines := make([]string, len(cases))
	for i, mc := range cases {
		toks := make([]string, len(mc.Steps))
		for k, st := range mc.Steps {
			toks[k] = st.OrTok
			if st.Op.Send {
				// the judge sees what the IMPLEMENTATION sent (identifiers read off its bytes), not what
				// the model would have sent; a failed send records nothing
				if len(st.Written) > 0 {
					toks[k] = fmt.Sprintf("S:%d:%d:%s", st.Op.TTL, st.Now, hx2(st.Written))
				} else {
					toks[k] = "r:-" // placeholder step (answers one token, changes nothing)
				}
			}
			if !st.Op.Send && strings.HasPrefix(st.Impl, "acc:") {
				f := strings.Split(st.Impl, ":")
				toks[k] = fmt.Sprintf("j:%s:%s:%s:%s", hx2(st.Op.Pkt), f[1], f[2], f[3])
			}
		}
		jlines[i] = mc.Cfg.oraclePrefix() + " " + strings.Join(toks, " ")
	}
	janswers, err := orc.Batch(jlines)
	if err != nil {
		t.Fatalf("oracle(judge): %v", err)
	}
	for i, mc := range cases {
		mc.Judged = strings.Split(janswers[i], " ")
	}
	for i, mc := range cases {
		want := strings.Split(answers[i], " ")
		if len(want) != len(mc.Steps) {
			rep.Violate(hx.Violation{Kind: "correspondence", NoInput: true, What: "oracle answered " + answers[i], Sig: map[string]string{"stream": "drv"}, Replay: stepJSON(mc.Cfg, mc.Steps, len(mc.Steps)-1)})
			continue
		}
		for k, st := range mc.Steps {
			stream := "send"
			if !st.Op.Send {
				stream = st.Op.Meta["stream"]
			}
			out := summariseOutcome(st.Impl)
			rep.Hit(mc.Cfg.Variant + ":" + stream + ":" + out)
			if !st.Op.Send {
				rep.Case(mc.Cfg.Variant+"/"+stream, mc.Cfg.oraclePrefix()+st.OrTok, len(st.Op.Pkt) >= 20 && stream != "noise", map[string]any{
					"variant": mc.Cfg.Variant, "stream": stream, "meta": st.Op.Meta, "packet": hx2(st.Op.Pkt), "impl": st.Impl})
			}
			if bad := specOnImpl(prop, mc, k); bad != "" {
				rep.Violate(hx.Violation{Kind: "spec", What: bad, Sig: map[string]string{"variant": mc.Cfg.Variant, "stream": stream, "outcome": out,
					"form": st.Op.Meta["form"], "field": st.Op.Meta["field"], "mode": st.Op.Meta["mode"]}, Replay: stepJSON(mc.Cfg, mc.Steps, k)})
				break
			}
			if st.Impl != want[k] {
				rep.Hit("DISAGREE " + mc.Cfg.Variant + " " + stream + " " + st.Op.Meta["field"] + st.Op.Meta["mode"] + " impl=" + out + " model=" + summariseOutcome(want[k]))
				rj := stepJSON(mc.Cfg, mc.Steps, k)
				rj["model"] = want[k]
				rj["broken"] = "correspondence stream drv/" + mc.Cfg.Variant + " (Lean TRV.Drv vs the real driver)"
				rep.Violate(hx.Violation{Kind: "correspondence", NoInput: true,
					What: fmt.Sprintf("driver model and implementation differ (%s); the spec predicates hold on the implementation's outputs", mc.Cfg.Variant),
					Sig:  map[string]string{"variant": mc.Cfg.Variant, "stream": "drv"}, Replay: rj})
				break
			}
		}
	}
	// run-level stream: public entry points over the seam against a scripted path
	if prop == "C01" || prop == "C02" || prop == "C09" {
		runLevelStream(t, rep, rng.Fork(), env.Scale(150, 3000))
	}
	if prop == "C04" {
		c04RunStream(t, rep, rng.Fork(), env.Scale(150, 3000))
	}
	if prop == "C09" {
		c09Frames(t, rep, orc, rng.Fork(), env.Scale(8, 200))
		c09SourceStream(t, rep, orc, rng.Fork())
	}
	if rep.Failed() {
		t.Fail()
	}
}

// specOnImpl evaluates the property's executable spec on the implementation's own output of step k.
// (Filled in per property; returns "" when the spec holds.)
func specOnImpl(prop string, mc *matcherCase, k int) string {
	st := mc.Steps[k]
	if st.Impl == "panic" {
		return "driver panicked on an inbound packet"
	}
	if !st.Op.Send && strings.HasPrefix(st.Impl, "acc:") && k < len(mc.Judged) && mc.Judged[k] == "g:0" && (prop == "C01" || prop == "C04" || prop == "C02") {
		return "the driver accepted " + st.Impl + " but the packet is not a genuine reply to that probe (Spec.genuine* is false on the raw bytes)"
	}
	switch prop {
	case "C02":
		if !st.Op.Send && st.Op.Meta["stream"] == "catalogue" {
			var f replyForm
			for _, g := range catalogueFor(mc.Cfg.kind(), mc.Cfg.v6()) {
				if g.Name == st.Op.Meta["form"] {
					f = g
				}
			}
			ttl := 0
			fmt.Sscan(st.Op.Meta["ttl"], &ttl)
			want, ok := expectedGenuine(mc.Cfg, f, ttl, st.Op.Meta["from"])
			got := st.Impl
			if strings.HasPrefix(got, "acc:") {
				got = got[:strings.LastIndex(got, ":")] // drop the send-time component
			}
			if ok && got != want {
				return fmt.Sprintf("genuine reply of form %s for TTL %d from %s was not recognised: driver returned %s, the property demands %s", f.Name, ttl, st.Op.Meta["from"], st.Impl, want)
			}
		}
	case "C09":
		if !st.Op.Send && len(st.Op.Pkt) == 0 {
			return "" // a zero-length read is a capture-layer fault (C10), not a packet
		}
		if !st.Op.Send && st.Impl == "fatal" {
			return "an inbound packet made ReceiveProbe return a fatal (run-aborting) error"
		}
		if !st.Op.Send && st.Impl == "nosup" {
			// allowed only for SACK: non-SYN/FIN/RST TCP segment on the probed tuple without SACK blocks
			if mc.Cfg.kind() != "sack" {
				return "NotSupported outside the SACK variant"
			}
		}
	}
	return ""
}

func TestC01(t *testing.T) { runMatcherProperty(t, "C01") }
