package corr

// C12 sites stream: what the protocol entry points REALLY ask their capture source to install.  The
// tuple filter must be configured in the direction of the replies: Src = the target's address and the
// probed port, Dst = this run's own address and source port (read off the probes the run wrote) — a
// filter configured the other way round passes the probes and hides every reply.  (The Lean side pins
// the same thing on the source text, `TieFilterSites.c12_sites_config`; this is the run-level check.)

import (
	"encoding/binary"
	"fmt"
	"net/netip"
	"testing"
	"time"

	"github.com/DataDog/datadog-traceroute/packets"

	"verifharness/hx"
)

// c12SackSite: the same question for the SACK entry point, which needs a real connection: a loop-back
// listener, the SYN-ACK staged at the seam (machinery of C08's SACK cases).
func c12SackSite(t *testing.T, rep *hx.Report) {
	_, rerr, acc, _ := c08RunSack(t, c08SackCase{Name: "sack-replies", Listen: true, SynAck: true, Reply: true, Timeout: 300 * time.Millisecond, MaxTTL: 3})
	loop := netip.MustParseAddr("127.0.0.1")
	sample := map[string]any{"protocol": "sack", "target": netip.AddrPortFrom(loop, c08LastSack.Port).String(), "client_port": c08LastSack.ClientPort,
		"filters": fmt.Sprint(c08LastSack.Filters), "run_error": fmt.Sprint(rerr), "accepted_connections": acc}
	rep.Case("sites", fmt.Sprint("sack", c08LastSack.Port, c08LastSack.ClientPort), true, sample)
	rep.Hit("sites:sack")
	if acc == 0 || c08LastSack.ClientPort == 0 {
		rep.Note("sites/sack: the loop-back connection was not established in this sandbox; tuple direction of the SACK site not observed")
		return
	}
	want := packets.FilterConfig{Src: netip.AddrPortFrom(loop, c08LastSack.Port), Dst: netip.AddrPortFrom(loop, c08LastSack.ClientPort)}
	bad, seen := "", false
	for _, f := range c08LastSack.Filters {
		if f.FilterType != packets.FilterTypeTCP {
			continue
		}
		seen = true
		if f.FilterConfig != want {
			bad = fmt.Sprintf("the SACK run installed the tuple filter with Src=%s Dst=%s; replies on its connection come from %s to %s", f.FilterConfig.Src, f.FilterConfig.Dst, want.Src, want.Dst)
		}
	}
	if !seen {
		bad = "the SACK run installed no tuple filter after its handshake"
	}
	if bad != "" {
		sample["what"] = bad
		rep.Violate(hx.Violation{Kind: "spec", What: "capture filter does not cover the run's replies: " + bad, Sig: map[string]string{"stream": "sites", "protocol": "sack"}, Replay: sample})
	}
}

func c12SitesStream(t *testing.T, rep *hx.Report, rng *hx.RNG, n int) {
	c12SackSite(t, rep)
	for i := 0; i < n; i++ {
		c := genRunLevel(rng)
		c.Proto = []string{"tcp", "tcp-paris"}[i%2]
		c.V6 = false
		c.Target = netip.MustParseAddr(hx.Pick(rng, []string{"198.51.100.9", "203.0.113.77", "8.8.4.4"}))
		c.Again, c.Noise, c.SlowLast = 0, 0, false
		o := runRunLevel(t, c)
		sample := map[string]any{"protocol": c.Proto, "target": c.Target.String(), "port": c.Port, "filters": fmt.Sprint(o.Filters)}
		rep.Case("sites", fmt.Sprint(c.Proto, c.Target, c.Port, i), true, sample)
		rep.Hit("sites:" + c.Proto)
		if len(o.FirstProbe) < 24 {
			continue
		}
		local, _ := netip.AddrFromSlice(o.FirstProbe[12:16])
		lport := binary.BigEndian.Uint16(o.FirstProbe[20:22])
		bad := ""
		seen := false
		for _, f := range o.Filters {
			if f.FilterType != packets.FilterTypeTCP {
				continue
			}
			seen = true
			want := packets.FilterConfig{Src: netip.AddrPortFrom(c.Target, c.Port), Dst: netip.AddrPortFrom(local, lport)}
			if f.FilterConfig != want {
				bad = fmt.Sprintf("the TCP run installed the tuple filter with Src=%s Dst=%s; replies to its probes come from %s to %s", f.FilterConfig.Src, f.FilterConfig.Dst, want.Src, want.Dst)
			}
		}
		if !seen {
			bad = "the TCP run installed no tuple filter"
		}
		if bad != "" {
			sample["what"] = bad
			rep.Violate(hx.Violation{Kind: "spec", What: "capture filter does not cover the run's replies: " + bad, Sig: map[string]string{"stream": "sites", "protocol": c.Proto}, Replay: sample})
		}
	}
}
