package corr

// C10 — failure atomicity, cause-preserving errors, handles closed exactly once, no goroutine left.
//
// The four REAL entry points (icmp.RunICMPTraceroute, UDPv4.Traceroute, TCPv4.Traceroute,
// sack.RunSackTraceroute) run through the packets.NewSourceSink seam over the in-memory wire inside
// a synctest bubble. A scripted wire (two routers + destination, built with the hand-rolled
// catalogue encoders from the probes the drivers write) makes the fault-free run a 3-hop success.
// Then every single-fault plan is enumerated: each Source/Sink operation x each call index
// 0..count+1 x each class {fatal, deadline, zero}, plus failing construction of the handles, plus
// configuration cases (MustClosePort, invalid target, target not listening, destination before
// MaxTTL, a silent hop), plus random fault pairs. For each run:
//   - Spec.Atomic (Lean, via the oracle) is evaluated on the real observations (result, error
//     flags, faults triggered, wire call log): a partial path returned as success after a fatal
//     fault, a missing cause, a double close, a use after close or a leaked handle is a VIOLATION
//     with the plan as replay; so are the wire's own use-after-close detector, a goroutine that
//     outlives the call (stack snapshot diff) and a leaked file descriptor (real sockets);
//   - the Lean wrapper model, fed with the observed schedule and deliveries, must reproduce the
//     result class, the error flags, the hops and the wire call log.

import (
	"context"
	"encoding/binary"
	"errors"
	"fmt"
	"net"
	"net/netip"
	"os"
	"regexp"
	"runtime"
	"sort"
	"strings"
	"sync"
	"testing"
	"testing/synctest"
	"time"

	"github.com/DataDog/datadog-traceroute/common"
	"github.com/DataDog/datadog-traceroute/icmp"
	"github.com/DataDog/datadog-traceroute/packets"
	"github.com/DataDog/datadog-traceroute/result"
	"github.com/DataDog/datadog-traceroute/sack"
	"github.com/DataDog/datadog-traceroute/tcp"
	"github.com/DataDog/datadog-traceroute/udp"

	"verifharness/hx"
)

var errC10Construct = fmt.Errorf("construct handles: %w", errWireInjected)

type c10Case struct {
	Variant      string      `json:"variant"` // icmp | udp | tcp | sack
	Faults       []wireFault `json:"faults"`  // Op: read | write | deadline | filter | nss
	MCP          bool        `json:"must_close_port"`
	Invalid      bool        `json:"invalid_target"`
	NotListening bool        `json:"target_not_listening"`
	MaxTTL       int         `json:"max_ttl"`
	DestTTL      int         `json:"dest_ttl"`
	SilentHop    int         `json:"silent_hop"`
	// CancelAtMs > 0: the caller's context is cancelled this many (virtual) milliseconds into the
	// run (icmp and sack take a context). Spec-on-implementation only: the wrapper model has no
	// cancellation input.
	CancelAtMs int `json:"cancel_at_ms,omitempty"`
}

func (c c10Case) planString() string {
	if len(c.Faults) == 0 {
		return "-"
	}
	s := make([]string, len(c.Faults))
	for i, f := range c.Faults {
		s[i] = fmt.Sprintf("%s:%d:%s", f.Op, f.K, f.Class)
	}
	return strings.Join(s, ",")
}

// modelPlan is the plan in the oracle's vocabulary: a timeout-flavoured read failure is a fatal read
// failure (only os.ErrDeadlineExceeded means "no packet yet").
func (c c10Case) modelPlan() string {
	return strings.ReplaceAll(c.planString(), ":fatal-timeout", ":fatal")
}

func (c c10Case) key() string {
	return fmt.Sprintf("%s|%s|%v|%v|%v|%d|%d|%d|%d", c.Variant, c.planString(), c.MCP, c.Invalid, c.NotListening, c.MaxTTL, c.DestTTL, c.SilentHop, c.CancelAtMs)
}

type c10Meta struct {
	Kind string // reply | synack | decoy
	TTL  int
	IP   netip.Addr
	Dest bool
}

type c10ReadRec struct {
	N    int
	Err  error
	Meta *c10Meta
}

// c10Wire wraps a memWire: it is the seam factory, records what every Read returned and orders
// "read returned" events with the wire's own call log.
type c10Wire struct {
	mw         *memWire
	mu         sync.Mutex
	reads      []c10ReadRec
	meta       map[string]c10Meta
	factoryN   int
	nssFail    bool
	mcp        bool
	beforeRead func()
}

type c10Source struct {
	inner packets.Source
	cw    *c10Wire
}

func (s *c10Source) SetReadDeadline(t time.Time) error { return s.inner.SetReadDeadline(t) }
func (s *c10Source) Close() error                      { return s.inner.Close() }
func (s *c10Source) SetPacketFilter(spec packets.PacketFilterSpec) error {
	return s.inner.SetPacketFilter(spec)
}
func (s *c10Source) Read(buf []byte) (int, error) {
	if cb := s.cw.beforeRead; cb != nil {
		cb()
	}
	n, err := s.inner.Read(buf)
	rec := c10ReadRec{N: n, Err: err}
	s.cw.mu.Lock()
	if n > 0 {
		if m, ok := s.cw.meta[string(buf[:n])]; ok {
			rec.Meta = &m
		}
	}
	s.cw.reads = append(s.cw.reads, rec)
	s.cw.mu.Unlock()
	s.cw.mw.log.hit("read-done")
	return n, err
}

func (cw *c10Wire) factory(addr netip.Addr, useDriver bool) (packets.SourceSinkHandle, bool, error) {
	cw.mu.Lock()
	cw.factoryN++
	cw.mu.Unlock()
	if cw.nssFail {
		cw.mw.log.hit("nss-fail")
		return packets.SourceSinkHandle{}, true, errC10Construct
	}
	cw.mw.log.hit("open")
	return packets.SourceSinkHandle{Source: &c10Source{inner: cw.mw.Source(), cw: cw}, Sink: cw.mw.Sink(), MustClosePort: cw.mcp}, true, nil
}

func (cw *c10Wire) inject(pkt []byte, m c10Meta) {
	cw.mu.Lock()
	cw.meta[string(pkt)] = m
	cw.mu.Unlock()
	cw.mw.Inject(pkt)
}

func c10Form(variant, name string) replyForm {
	for _, f := range catalogueFor(variant, false) {
		if f.Name == name {
			return f
		}
	}
	panic("c10: no catalogue form " + variant + " " + name)
}

var c10Routers = []netip.Addr{netip.MustParseAddr("10.9.8.1"), netip.MustParseAddr("10.9.8.2"), netip.MustParseAddr("10.9.8.3"), netip.MustParseAddr("10.9.8.4"), netip.MustParseAddr("10.9.8.5")}

const (
	c10SynAckSeq = 0x00200000
	c10ISN       = 0x00100000
)

type c10Obs struct {
	OK       bool
	Hops     []string
	Err      error
	Inj      bool
	Zero     bool
	NS       bool
	Panic    string
	Calls    []string // the wire's ordered log including open / read-done / nss-fail
	Reads    []c10ReadRec
	Counts   map[string]int
	UseAfter []string
	SrcClose int
	SnkClose int
	Opened   int
	Leaked   []string // stacks of goroutines alive after the call that were not alive before
	FDBefore int
	FDAfter  int
	FDLeaked []string
	Elapsed  time.Duration
	Canceled bool // the returned error wraps context.Canceled
}

var c10GoroutineRe = regexp.MustCompile(`^goroutine (\d+) `)

func c10Goroutines() map[string]string {
	buf := make([]byte, 1<<20)
	for {
		n := runtime.Stack(buf, true)
		if n < len(buf) {
			buf = buf[:n]
			break
		}
		buf = make([]byte, 2*len(buf))
	}
	out := map[string]string{}
	for _, g := range strings.Split(string(buf), "\n\n") {
		if m := c10GoroutineRe.FindStringSubmatch(g); m != nil {
			out[m[1]] = g
		}
	}
	return out
}

// c10FDSnapshot lists the open descriptors of the process with their targets (the descriptor used
// for the listing itself is left out).
func c10FDSnapshot() map[string]string {
	es, err := os.ReadDir("/proc/self/fd")
	if err != nil {
		return nil
	}
	m := map[string]string{}
	for _, e := range es {
		tgt, err := os.Readlink("/proc/self/fd/" + e.Name())
		if err != nil || strings.HasSuffix(tgt, "/fd") {
			continue
		}
		m[e.Name()] = tgt
	}
	return m
}

// c10FDLeaked returns the descriptors open now that were not open in before (same number and same
// target count as already open). A descriptor whose close is still in flight in another goroutine
// of the runtime (a close deferred until a blocked call returns) gets a settling period: only one
// that stays open is a leak. No GC is forced: finalizers would close a leaked handle and hide it.
func c10FDLeaked(before map[string]string) []string {
	if before == nil {
		return nil
	}
	var leaked []string
	for try := 0; try < 40; try++ {
		leaked = leaked[:0]
		for fd, tgt := range c10FDSnapshot() {
			if old, ok := before[fd]; !ok || old != tgt {
				leaked = append(leaked, fd+"->"+tgt)
			}
		}
		if len(leaked) == 0 {
			return nil
		}
		time.Sleep(5 * time.Millisecond)
	}
	sort.Strings(leaked)
	return leaked
}

func c10HopTokens(run *result.TracerouteRun) []string {
	var hs []string
	for _, h := range run.Hops {
		ip := "-"
		if len(h.IPAddress) > 0 {
			if a, ok := netip.AddrFromSlice(h.IPAddress); ok {
				ip = ipHex(a.Unmap())
			}
		}
		hs = append(hs, fmt.Sprintf("%d:%s:0:%s", h.TTL, ip, b2s(h.IsDest)))
	}
	return hs
}

// c10Run executes one case against the real entry point.
func c10Run(t *testing.T, c c10Case) c10Obs {
	var o c10Obs
	fdBefore := c10FDSnapshot()
	o.FDBefore = len(fdBefore)
	target := netip.MustParseAddr("198.51.100.9")
	var ln net.Listener
	var port uint16
	var conns []net.Conn
	var cmu sync.Mutex
	if c.Variant == "sack" {
		target = netip.MustParseAddr("127.0.0.1")
		var err error
		ln, err = net.Listen("tcp4", "127.0.0.1:0")
		if err != nil {
			t.Fatalf("c10: listen: %v", err)
		}
		port = uint16(ln.Addr().(*net.TCPAddr).Port)
		if c.NotListening {
			ln.Close()
		}
	}
	accept := func(wait time.Duration) (net.Conn, bool) {
		if ln == nil || c.NotListening {
			return nil, false
		}
		ln.(*net.TCPListener).SetDeadline(time.Now().Add(wait))
		cn, err := ln.Accept()
		if err != nil {
			return nil, false
		}
		cmu.Lock()
		conns = append(conns, cn)
		cmu.Unlock()
		return cn, true
	}

	body := func(t *testing.T) {
		mw := newMemWire()
		mw.blockWhenEmpty = true
		cw := &c10Wire{mw: mw, meta: map[string]c10Meta{}, mcp: c.MCP}
		for _, f := range c.Faults {
			if f.Op == "nss" {
				cw.nssFail = true
			} else {
				mw.faults = append(mw.faults, f)
			}
		}
		var clientPort uint16
		var synOnce sync.Once
		if c.Variant == "sack" {
			cw.beforeRead = func() {
				synOnce.Do(func() {
					if cn, ok := accept(2 * time.Second); ok {
						clientPort = uint16(cn.RemoteAddr().(*net.TCPAddr).Port)
					}
					lo := target
					decoy := ip4Packet(lo, lo, 6, 0x1111, 64, 0, 0x4000, nil, tcpSegment(lo, lo, port+1, clientPort, 1, 2, 0x12, []byte{4, 2}, nil))
					cw.inject(decoy, c10Meta{Kind: "decoy"})
					syn := ip4Packet(lo, lo, 6, 0x1112, 64, 0, 0x4000, nil, tcpSegment(lo, lo, port, clientPort, c10SynAckSeq, c10ISN, 0x12, []byte{2, 4, 0x05, 0xb4, 4, 2}, nil))
					cw.inject(syn, c10Meta{Kind: "synack"})
				})
			}
		}
		destName := map[string]string{"icmp": "echo", "udp": "du/code3a", "tcp": "synack", "sack": "sack/1blk/ord0"}[c.Variant]
		teForm, destForm := c10Form(c.Variant, "te/qfull"), c10Form(c.Variant, destName)
		mw.onWrite = func(pkt []byte, dst netip.AddrPort) {
			if len(pkt) < 20 || pkt[0]>>4 != 4 {
				return
			}
			ttl := int(pkt[8])
			if ttl == c.SilentHop {
				return
			}
			local, _ := netip.AddrFromSlice(pkt[12:16])
			fl := flowInfo{Local: local, Target: target, ISN: c10ISN, IAck: c10SynAckSeq + 1}
			ihl := int(pkt[0]&0xf) * 4
			if (pkt[9] == 6 || pkt[9] == 17) && len(pkt) >= ihl+4 {
				fl.LPort = binary.BigEndian.Uint16(pkt[ihl:])
				fl.TPort = binary.BigEndian.Uint16(pkt[ihl+2:])
			}
			var reply []byte
			m := c10Meta{Kind: "reply", TTL: ttl}
			if ttl < c.DestTTL {
				m.IP = c10Routers[(ttl-1)%len(c10Routers)]
				reply = teForm.encode(fl, pkt, m.IP, ttl, seqOfProbe(pkt))
			} else {
				m.IP, m.Dest = target, true
				reply = destForm.encode(fl, pkt, target, ttl, seqOfProbe(pkt))
			}
			rtt := time.Duration(ttl)*3*time.Millisecond + time.Duration(7*ttl)*time.Microsecond
			time.AfterFunc(rtt, func() { cw.inject(reply, m) })
		}
		packets.VerifSetSourceSinkFactory(cw.factory)
		defer packets.VerifSetSourceSinkFactory(nil)

		par := common.TracerouteParallelParams{TracerouteParams: common.TracerouteParams{
			MinTTL: 1, MaxTTL: uint8(c.MaxTTL), TracerouteTimeout: 160*time.Millisecond + 17*time.Microsecond,
			PollFrequency: 50*time.Millisecond + 13*time.Microsecond, SendDelay: 10 * time.Millisecond}}
		ctx := context.Background()
		if c.CancelAtMs > 0 {
			cctx, cancel := context.WithCancel(ctx)
			defer cancel()
			tm := time.AfterFunc(time.Duration(c.CancelAtMs)*time.Millisecond+3*time.Microsecond, cancel)
			defer tm.Stop()
			ctx = cctx
		}
		before := c10Goroutines()
		start := time.Now()
		var run *result.TracerouteRun
		var err error
		func() {
			defer func() {
				if r := recover(); r != nil {
					o.Panic = fmt.Sprint(r)
				}
			}()
			switch c.Variant {
			case "icmp":
				tg := target
				if c.Invalid {
					tg = netip.Addr{}
				}
				run, err = icmp.RunICMPTraceroute(ctx, icmp.Params{Target: tg, ParallelParams: par})
			case "udp":
				tg := net.IP(target.AsSlice())
				if c.Invalid {
					tg = net.IP{1, 2, 3}
				}
				run, err = udp.NewUDPv4(tg, 33434, 1, uint8(c.MaxTTL), 10*time.Millisecond, 160*time.Millisecond+17*time.Microsecond, false).Traceroute()
			case "tcp":
				run, err = tcp.NewTCPv4(net.IP(target.AsSlice()), 443, 1, uint8(c.MaxTTL), 10*time.Millisecond, 160*time.Millisecond+17*time.Microsecond, false, false).Traceroute()
			case "sack":
				tg := netip.AddrPortFrom(target, port)
				if c.Invalid {
					tg = netip.AddrPortFrom(netip.MustParseAddr("fd00::9"), port)
				}
				run, err = sack.RunSackTraceroute(ctx, sack.Params{Target: tg, HandshakeTimeout: 500 * time.Millisecond,
					FinTimeout: 500 * time.Millisecond, ParallelParams: par})
			}
		}()
		o.Elapsed = time.Since(start)
		synctest.Wait()
		after := c10Goroutines()
		for id, st := range after {
			// goroutines started by the run belong to the bubble (the runtime labels them); goroutines the
			// runtime creates lazily outside it (finalizer goroutine, ...) are not the run's
			if _, ok := before[id]; !ok && strings.Contains(strings.SplitN(st, "\n", 2)[0], "synctest bubble") {
				o.Leaked = append(o.Leaked, st)
			}
		}
		sort.Strings(o.Leaked)
		o.Err = err
		o.OK = err == nil && run != nil
		if run != nil {
			o.Hops = c10HopTokens(run)
		}
		if err != nil {
			o.Inj = errors.Is(err, errWireInjected)
			o.Canceled = errors.Is(err, context.Canceled)
			o.Zero = strings.Contains(err.Error(), "returned 0 bytes") // small enum: the zero-length read error has no sentinel
			var ns *sack.NotSupportedError
			o.NS = errors.As(err, &ns)
		}
		mw.log.mu.Lock()
		o.Calls = append([]string(nil), mw.log.calls...)
		o.Counts = map[string]int{}
		for k, v := range mw.log.counts {
			o.Counts[k] = v
		}
		mw.log.mu.Unlock()
		mw.mu.Lock()
		o.UseAfter = append([]string(nil), mw.useAfter...)
		o.SrcClose, o.SnkClose = mw.srcClose, mw.snkClose
		mw.mu.Unlock()
		cw.mu.Lock()
		o.Reads = append([]c10ReadRec(nil), cw.reads...)
		cw.mu.Unlock()
		o.Opened = o.Counts["open"]
	}
	func() {
		// a goroutine that never ends makes synctest.Test panic ("blocked goroutines remain") when the
		// bubble's main goroutine returns; the leak has been recorded with its stack by then
		defer func() {
			if r := recover(); r != nil && o.Panic == "" && len(o.Leaked) == 0 {
				o.Panic = fmt.Sprint("synctest: ", r)
			}
		}()
		synctest.Test(t, body)
	}()
	if ln != nil {
		for {
			if _, ok := accept(20 * time.Millisecond); !ok {
				break
			}
		}
		for _, cn := range conns {
			cn.Close()
		}
		if !c.NotListening {
			ln.Close()
		}
	}
	o.FDLeaked = c10FDLeaked(fdBefore)
	o.FDAfter = o.FDBefore + len(o.FDLeaked)
	return o
}

func c10IsWireOp(op string) bool {
	switch op {
	case "open", "filter", "deadline", "read", "write", "close-source", "close-sink":
		return true
	}
	return false
}

func (c c10Case) faulted(op string, k int) (string, bool) {
	for _, f := range c.Faults {
		if f.Op == op && f.K == k {
			return f.Class, true
		}
	}
	return "", false
}

// c10Hits lists the faults of the plan the real run triggered (same rule as the wire: a deadline
// fault exists only in the fatal class).
func c10Hits(c c10Case, o c10Obs) []string {
	var hs []string
	seen := map[string]bool{}
	for _, f := range c.Faults {
		id := fmt.Sprintf("%s:%d", f.Op, f.K)
		if seen[id] {
			continue
		}
		seen[id] = true
		hit := false
		switch f.Op {
		case "nss":
			hit = f.K == 0 && o.Counts["nss-fail"] > 0
		case "deadline":
			hit = f.Class == "fatal" && o.Counts["deadline"] > f.K
		default:
			hit = o.Counts[f.Op] > f.K
		}
		if hit {
			hs = append(hs, fmt.Sprintf("%s:%d:%s", f.Op, f.K, f.Class))
		}
	}
	return hs
}

func c10NatToken(r c10ReadRec) string {
	switch {
	case r.Meta != nil && r.Meta.Kind == "reply":
		return fmt.Sprintf("a:%d:%s:0:%s", r.Meta.TTL, ipHex(r.Meta.IP), b2s(r.Meta.Dest))
	case r.Err != nil && errors.Is(r.Err, os.ErrDeadlineExceeded):
		return "r"
	case r.Meta != nil:
		return "r" // a frame that is not a reply to a probe (decoy, SYN-ACK after the handshake)
	default:
		return "f"
	}
}

// c10ModelLine builds the oracle line: configuration, plan and the environment as observed
// (schedule of sender/receiver steps, what each unfaulted read delivered).
func c10ModelLine(c c10Case, o c10Obs) string {
	valid := b2s(!c.Invalid)
	if c10Cancelled(c, o) {
		valid = "c" // valid target, and the caller's context is done before the engine returns
	}
	cfg := fmt.Sprintf("1 %d %s %s %s", c.MaxTTL, valid, b2s(c.MCP), c.modelPlan())
	// positions in the log
	readIdx, doneIdx := 0, 0
	phase := "pre" // pre | hs | eng
	filters := 0
	var steps, hs []string
	var windows [][]string
	for _, op := range o.Calls {
		switch op {
		case "filter":
			filters++
			if c.Variant == "sack" {
				if filters == 1 {
					phase = "hs"
				} else {
					phase = "eng"
				}
			} else {
				phase = "eng"
			}
		case "write":
			steps = append(steps, "s")
			windows = append(windows, nil)
		case "deadline":
			if phase == "eng" {
				steps = append(steps, "b")
				if len(windows) > 0 {
					windows[len(windows)-1] = append(windows[len(windows)-1], "r")
				}
			}
		case "read":
			if phase == "hs" {
				hs = append(hs, "i") // placeholder, replaced when the read returns unfaulted
			}
			readIdx++
		case "read-done":
			k := doneIdx
			doneIdx++
			if k >= len(o.Reads) {
				continue
			}
			_, faulted := c.faulted("read", k)
			r := o.Reads[k]
			if phase == "hs" {
				if faulted || len(hs) == 0 {
					continue
				}
				tok := "i"
				switch {
				case r.Meta != nil && r.Meta.Kind == "synack":
					tok = "d"
				case r.Err != nil && errors.Is(r.Err, os.ErrDeadlineExceeded):
					tok = "t"
				case r.Err != nil:
					tok = "f"
				}
				hs[len(hs)-1] = tok
				continue
			}
			if faulted {
				continue
			}
			nat := c10NatToken(r)
			steps = append(steps, "e:"+nat)
			if len(windows) > 0 && len(windows[len(windows)-1]) > 0 {
				w := windows[len(windows)-1]
				w[len(w)-1] = nat
			}
		}
	}
	_ = readIdx
	switch c.Variant {
	case "icmp", "udp":
		return strings.TrimRight("wrap."+c.Variant+" "+cfg+" "+strings.Join(steps, " "), " ")
	case "tcp":
		line := "wrap.tcp " + cfg
		for _, w := range windows {
			line += " |"
			if len(w) > 0 {
				line += " " + strings.Join(w, " ")
			}
		}
		return line
	default:
		h := "-"
		if len(hs) > 0 {
			h = strings.Join(hs, ",")
		}
		return strings.TrimRight(fmt.Sprintf("wrap.sack %s %s 1 %s %s", cfg, b2s(!c.NotListening), h, strings.Join(steps, " ")), " ")
	}
}

func c10WireLog(o c10Obs) []string {
	var w []string
	for _, op := range o.Calls {
		if c10IsWireOp(op) {
			w = append(w, op)
		}
	}
	return w
}

func c10SpecLine(c c10Case, o c10Obs) string {
	res := "ok"
	if !o.OK {
		res = fmt.Sprintf("err:%s:%s", b2s(o.Inj), b2s(o.Zero))
	}
	hits := c10Hits(c, o)
	h := "-"
	if len(hits) > 0 {
		h = strings.Join(hits, ",")
	}
	h = strings.ReplaceAll(h, ":fatal-timeout", ":fatal")
	return strings.TrimRight("wrap.spec "+res+" "+h+" "+strings.Join(c10WireLog(o), " "), " ")
}

// c10Cancelled: the case cancels the caller's context and the run was still going then. Only the ICMP
// entry point is compared with the model under cancellation (the SACK wrapper also hands the context to
// the dial and the handshake, which the model does not split by instant).
func c10Cancelled(c c10Case, o c10Obs) bool {
	return c.CancelAtMs > 0 && c.Variant == "icmp" && o.Elapsed >= time.Duration(c.CancelAtMs)*time.Millisecond
}

func c10ImplRes(o c10Obs) string {
	if o.OK {
		h := "-"
		if len(o.Hops) > 0 {
			h = strings.Join(o.Hops, ",")
		}
		return "ok " + h
	}
	return fmt.Sprintf("err inj=%s zero=%s ns=%s", b2s(o.Inj), b2s(o.Zero), b2s(o.NS))
}

func c10Sample(c c10Case, o c10Obs, modelLine, modelAns string) map[string]any {
	return map[string]any{"case": c, "plan": c.planString(), "impl_result": c10ImplRes(o), "impl_error": fmt.Sprint(o.Err),
		"impl_wire_log": strings.Join(c10WireLog(o), ","), "faults_triggered": c10Hits(c, o), "source_closes": o.SrcClose,
		"sink_closes": o.SnkClose, "use_after_close": o.UseAfter, "goroutines_left": len(o.Leaked), "fd_before": o.FDBefore,
		"fd_after": o.FDAfter, "virtual_elapsed": o.Elapsed.String(), "oracle_line": modelLine, "model": modelAns}
}

func TestC10(t *testing.T) {
	env := hx.GetEnv()
	rep := hx.NewReport("C10", env, "single-fault plans enumerated over (operation x call index 0..count+1 x class) for the four real entry points over the "+
		"simulated wire in a synctest bubble, plus handle-construction failure, configuration cases and fault pairs; "+
		"non-trivial = a fault of the plan was triggered or the run is a complete fault-free trace; distinct by (variant, plan, configuration)")
	defer rep.Write()
	rng := hx.NewRNG(env.Seed ^ 0xC10)
	orc := hx.NewOracle()
	classes := []string{"fatal", "deadline", "zero"}
	variants := []string{"icmp", "udp", "tcp", "sack"}

	// warm up lazily created runtime descriptors (netpoll) before any descriptor accounting
	if l, err := net.Listen("tcp4", "127.0.0.1:0"); err == nil {
		if cn, err := net.Dial("tcp4", l.Addr().String()); err == nil {
			cn.Close()
		}
		l.Close()
	}
	c10Run(t, c10Case{Variant: "sack", MaxTTL: 3, DestTTL: 3})
	runtime.GC()

	type item struct {
		c c10Case
		o c10Obs
	}
	var items []item
	runCase := func(c c10Case) c10Obs {
		o := c10Run(t, c)
		items = append(items, item{c, o})
		return o
	}
	for _, v := range variants {
		bases := []c10Case{{Variant: v, MaxTTL: 3, DestTTL: 3}, {Variant: v, MaxTTL: 5, DestTTL: 3}, {Variant: v, MaxTTL: 3, DestTTL: 3, SilentHop: 2}}
		for bi, base := range bases {
			free := runCase(base)
			if !free.OK || len(free.Hops) != 3 {
				rep.Violate(hx.Violation{Kind: "tie", NoInput: true, What: fmt.Sprintf("the fault-free scripted %s run is not a 3-hop success (%s, err %v): the scenario does not exercise the run", v, c10ImplRes(free), free.Err),
					Sig: map[string]string{"stream": "fault-free", "variant": v}, Replay: c10Sample(base, free, "", "")})
				continue
			}
			_ = bi
			for _, op := range []string{"filter", "deadline", "read", "write"} {
				for k := 0; k <= free.Counts[op]+1; k++ {
					for _, cl := range classes {
						c := base
						c.Faults = []wireFault{{Op: op, K: k, Class: cl}}
						runCase(c)
					}
				}
			}
			// a read that FAILS with an error value answering Timeout() == true (not the deadline sentinel)
			for k := 0; k <= free.Counts["read"]+1; k++ {
				c := base
				c.Faults = []wireFault{{Op: "read", K: k, Class: "fatal-timeout"}}
				runCase(c)
			}
			c := base
			c.Faults = []wireFault{{Op: "nss", K: 0, Class: "fatal"}}
			runCase(c)
			// fault pairs
			ops := []string{"filter", "deadline", "read", "write"}
			for i := 0; i < env.Scale(12, 150); i++ {
				c := base
				a, b := hx.Pick(rng, ops), hx.Pick(rng, ops)
				fa := wireFault{Op: a, K: rng.Intn(free.Counts[a] + 1), Class: hx.Pick(rng, classes)}
				fb := wireFault{Op: b, K: rng.Intn(free.Counts[b] + 1), Class: hx.Pick(rng, classes)}
				if fa.Op == fb.Op && fa.K == fb.K {
					continue
				}
				c.Faults = []wireFault{fa, fb}
				runCase(c)
			}
		}
		// configuration cases
		base := c10Case{Variant: v, MaxTTL: 3, DestTTL: 3}
		c := base
		c.MCP = true
		runCase(c)
		c.Faults = []wireFault{{Op: "filter", K: 0, Class: "fatal"}}
		runCase(c)
		c.Faults = []wireFault{{Op: "read", K: 2, Class: "fatal"}}
		runCase(c)
		if v != "tcp" {
			c = base
			c.Invalid = true
			runCase(c)
		}
		if v == "sack" {
			c = base
			c.NotListening = true
			runCase(c)
		}
		// the caller cancels while the run is in flight: during the sends, while the capture read is
		// blocked between replies, and (silent destination) during the long listening phase
		if v == "icmp" || v == "sack" {
			for _, at := range []int{2, 7, 12, 18, 26, 45, 90, 140, 400} {
				for _, silentDest := range []bool{false, true} {
					c = c10Case{Variant: v, MaxTTL: 3, DestTTL: 3, CancelAtMs: at + rng.Intn(3)}
					if silentDest {
						c.SilentHop = 3
					}
					runCase(c)
				}
			}
		}
	}

	lines := make([]string, 0, 2*len(items))
	for _, it := range items {
		lines = append(lines, c10ModelLine(it.c, it.o), c10SpecLine(it.c, it.o))
	}
	answers, err := orc.Batch(lines)
	if err != nil {
		t.Fatalf("oracle: %v", err)
	}
	for i, it := range items {
		c, o := it.c, it.o
		modelLine, modelAns, specAns := lines[2*i], answers[2*i], answers[2*i+1]
		hits := c10Hits(c, o)
		sample := c10Sample(c, o, modelLine, modelAns)
		nontrivial := len(hits) > 0 || (o.OK && len(c.Faults) == 0) || (c.CancelAtMs > 0 && o.Elapsed >= time.Duration(c.CancelAtMs)*time.Millisecond)
		if c.CancelAtMs > 0 {
			rep.Hit("cancel:" + map[bool]string{true: "returned-after-cancel", false: "finished-before-cancel"}[o.Elapsed >= time.Duration(c.CancelAtMs)*time.Millisecond] + ":" + map[bool]string{true: "ok", false: "err"}[o.OK])
		}
		rep.Case(c.Variant, c.key(), nontrivial, sample)
		rep.Hit("variant:" + c.Variant)
		if o.OK {
			rep.Hit("result:ok")
		} else {
			rep.Hit(fmt.Sprintf("result:err inj=%s zero=%s ns=%s", b2s(o.Inj), b2s(o.Zero), b2s(o.NS)))
		}
		for _, h := range hits {
			p := strings.Split(h, ":")
			rep.Hit("hit:" + p[0] + "/" + p[2])
		}
		sig := map[string]string{"variant": c.Variant, "plan": c.planString()}
		bad := ""
		switch {
		case o.Panic != "":
			bad = "the entry point panicked: " + o.Panic
		case specAns == "bad-op":
			t.Fatalf("oracle rejected %q", lines[2*i+1])
		case specAns[0] != '1' && o.OK:
			bad = "a run was returned as a success although a fatal fault was triggered (" + strings.Join(hits, ",") + "): partial path as success"
		case specAns[0] != '1':
			bad = fmt.Sprintf("the returned error does not wrap the cause of the triggered fault (%s): %v", strings.Join(hits, ","), o.Err)
		case specAns[1] != '1':
			bad = fmt.Sprintf("a handle is not closed exactly once (source closed %d times, sink closed %d times, opened %d): %s", o.SrcClose, o.SnkClose, o.Opened, strings.Join(c10WireLog(o), ","))
		case specAns[2] != '1' || len(o.UseAfter) > 0:
			bad = fmt.Sprintf("a handle was used after it was closed (%v): %s", o.UseAfter, strings.Join(c10WireLog(o), ","))
		case o.OK == (o.Err != nil):
			bad = "result and error are both set or both missing"
		case len(o.Leaked) > 0:
			bad = fmt.Sprintf("%d goroutine(s) started by the run outlive the call", len(o.Leaked))
			sample["leaked_goroutines"] = o.Leaked
		case c.CancelAtMs > 0 && o.Err != nil && !o.Canceled && len(hits) == 0:
			bad = "the caller's cancellation made the run fail with an error that does not wrap context.Canceled: " + o.Err.Error()
		case len(o.FDLeaked) > 0:
			bad = fmt.Sprintf("file descriptors leaked: %d open before the run, still open 200 ms after it: %s", o.FDBefore, strings.Join(o.FDLeaked, " "))
		}
		if bad != "" {
			rep.Violate(hx.Violation{Kind: "spec", What: bad, Sig: sig, Replay: sample})
			continue
		}
		if c.CancelAtMs > 0 && c.Variant != "icmp" {
			continue // the wrapper model takes a cancellation input for ICMP only: SACK is judged by the property's own wording
		}
		if modelAns == "bad-op" {
			t.Fatalf("oracle rejected %q", modelLine)
		}
		// correspondence: result class + flags + hops, and the wire call log
		mres := modelAns
		if j := strings.Index(mres, " wire="); j >= 0 {
			mres = mres[:j]
		}
		if j := strings.Index(mres, " cause="); j >= 0 {
			mres = mres[:j]
		}
		mwire := ""
		for _, f := range strings.Fields(modelAns) {
			if strings.HasPrefix(f, "wire=") {
				mwire = strings.TrimPrefix(f, "wire=")
			}
		}
		if mwire == "-" {
			mwire = ""
		}
		if mres != c10ImplRes(o) || mwire != strings.Join(c10WireLog(o), ",") {
			sample["broken"] = "correspondence stream wrapper/" + c.Variant + " (Lean TRV.Wrapper." + c.Variant + " vs the real entry point)"
			rep.Violate(hx.Violation{Kind: "correspondence", NoInput: true,
				What: "wrapper model and implementation differ (" + c.Variant + "); Spec.Atomic holds on the implementation's observations",
				Sig:  map[string]string{"stream": "wrapper", "variant": c.Variant}, Replay: sample})
		}
	}
	c10ExtraStream(t, rep, rng.Fork(), env)
	c10RealSink(t, rep)
	c10ClassifyStream(t, rep, orc, rng.Fork(), env.Scale(2000, 40000))
	if rep.Failed() {
		t.Fail()
	}
}
