package corr

// Basic in-memory Source/Sink pair for the packets.NewSourceSink seam (identifiers prefixed bw).
// The Source blocks in Read until a frame is injected, it is closed, or the read deadline passes
// (then os.ErrDeadlineExceeded), so it works under a synctest virtual clock. The Sink records every
// packet written with its destination.

import (
	"encoding/binary"
	"errors"
	"net"
	"net/netip"
	"sync"
	"time"

	"github.com/DataDog/datadog-traceroute/packets"

	"verifharness/hx"
)

func init() {
	// a runaway loop that the guards below had to stop and that no check attributed to a case
	hx.BeforeWrite = func(r *hx.Report) {
		for _, w := range takeRunaway() {
			r.Violate(hx.Violation{Kind: "spec", NoInput: true, What: "a run had to be stopped by the simulated wire's runaway guard: " + w,
				Sig: map[string]string{"defect": "runaway-loop"}, Replay: map[string]any{"guard": w}})
		}
	}
}

type bwPacket struct {
	Data []byte
	Dst  netip.AddrPort
	At   time.Time
}

// bwSink records writes; FailAt ≥ 0 makes the FailAt-th write (0-based) and all later ones fail.
type bwSink struct {
	mu      sync.Mutex
	pkts    []bwPacket
	FailAt  int
	FailErr error
	closed  int
	OnWrite func(p bwPacket) // called outside the lock after a successful write
}

// errRunaway is returned by the simulated handles when a run keeps writing or reading far beyond
// anything a traceroute can need (more than wireMaxWrites probes on one handle; wireMaxIdleReads
// reads in a row that return at once because the deadline has already passed). It ends the run so
// that the harness can report the runaway loop instead of hanging.
var errRunaway = errors.New("verif: runaway loop on the simulated wire")

const (
	wireMaxWrites    = 1500
	wireMaxIdleReads = 200000
)

var wireRunaway struct {
	mu   sync.Mutex
	what []string
}

func noteRunaway(what string) {
	wireRunaway.mu.Lock()
	if len(wireRunaway.what) < 8 {
		wireRunaway.what = append(wireRunaway.what, what)
	}
	wireRunaway.mu.Unlock()
}

// runawayViolation reports, with the case at hand as the replay, what the guards saw since the last call.
func runawayViolation(rep *hx.Report, sig map[string]string, replay map[string]any) bool {
	w := takeRunaway()
	if len(w) == 0 {
		return false
	}
	s := map[string]string{"defect": "runaway-loop"}
	for k, v := range sig {
		s[k] = v
	}
	rep.Violate(hx.Violation{Kind: "spec", What: "the run did not stop by itself: the simulated wire's guard had to end it (" + w[0] + ")", Sig: s, Replay: replay})
	return true
}

// takeRunaway returns and clears what the guards have seen since the last call.
func takeRunaway() []string {
	wireRunaway.mu.Lock()
	defer wireRunaway.mu.Unlock()
	w := wireRunaway.what
	wireRunaway.what = nil
	return w
}

func (s *bwSink) WriteTo(buf []byte, addr netip.AddrPort) error {
	s.mu.Lock()
	if len(s.pkts) >= wireMaxWrites {
		s.mu.Unlock()
		noteRunaway("more than 1500 probes written to one handle")
		return errRunaway
	}
	if s.FailAt >= 0 && len(s.pkts) >= s.FailAt && s.FailErr != nil {
		s.mu.Unlock()
		return s.FailErr
	}
	p := bwPacket{Data: append([]byte(nil), buf...), Dst: addr, At: time.Now()}
	s.pkts = append(s.pkts, p)
	cb := s.OnWrite
	s.mu.Unlock()
	if cb != nil {
		cb(p)
	}
	return nil
}

func (s *bwSink) Close() error {
	s.mu.Lock()
	s.closed++
	s.mu.Unlock()
	return nil
}

func (s *bwSink) Packets() []bwPacket {
	s.mu.Lock()
	defer s.mu.Unlock()
	return append([]bwPacket(nil), s.pkts...)
}

// bwSource is a Source fed by Inject. FilterErrAt ≥ 0: the FilterErrAt-th SetPacketFilter call fails
// with FilterErr. ReadErr, when set, is returned by the next Read (once) instead of blocking.
type bwSource struct {
	mu          sync.Mutex
	deadline    time.Time
	frames      [][]byte
	wake        chan struct{}
	done        chan struct{}
	closed      int
	Filters     []packets.PacketFilterSpec
	FilterErrAt int
	FilterErr   error
	ReadErr     error
	DeadlineErr error
	Reads       int
	idleReads   int // consecutive reads that returned at once with an expired deadline
	// BeforeRead is called (outside the lock) at the start of every Read; it may Inject frames
	BeforeRead func(src *bwSource)
}

func bwNewSource() *bwSource {
	return &bwSource{wake: make(chan struct{}, 1), done: make(chan struct{}), FilterErrAt: -1}
}

func bwNewSink() *bwSink { return &bwSink{FailAt: -1} }

func (s *bwSource) kick() {
	select {
	case s.wake <- struct{}{}:
	default:
	}
}

// Inject queues a frame (starting at the IP header) for the next Read.
func (s *bwSource) Inject(frame []byte) {
	s.mu.Lock()
	s.frames = append(s.frames, append([]byte(nil), frame...))
	s.mu.Unlock()
	s.kick()
}

func (s *bwSource) SetReadDeadline(t time.Time) error {
	s.mu.Lock()
	if s.DeadlineErr != nil {
		err := s.DeadlineErr
		s.mu.Unlock()
		return err
	}
	s.deadline = t
	s.mu.Unlock()
	s.kick()
	return nil
}

func (s *bwSource) Read(buf []byte) (int, error) {
	if cb := s.BeforeRead; cb != nil {
		cb(s)
	}
	for {
		s.mu.Lock()
		s.Reads++
		if s.closed > 0 {
			s.mu.Unlock()
			return 0, net.ErrClosed
		}
		if s.ReadErr != nil {
			err := s.ReadErr
			s.ReadErr = nil
			s.mu.Unlock()
			return 0, err
		}
		if len(s.frames) > 0 {
			f := s.frames[0]
			s.frames = s.frames[1:]
			s.mu.Unlock()
			return copy(buf, f), nil
		}
		dl := s.deadline
		s.mu.Unlock()
		var timer <-chan time.Time
		if !dl.IsZero() {
			wait := time.Until(dl)
			if wait <= 0 {
				s.mu.Lock()
				s.idleReads++
				n := s.idleReads
				s.mu.Unlock()
				if n > wireMaxIdleReads {
					noteRunaway("more than 200000 reads in a row after the read deadline had passed")
					return 0, errRunaway
				}
				return 0, errWireDeadline()
			}
			s.mu.Lock()
			s.idleReads = 0
			s.mu.Unlock()
			tm := time.NewTimer(wait)
			timer = tm.C
			select {
			case <-s.wake:
			case <-s.done:
			case <-timer:
			}
			tm.Stop()
			continue
		}
		select {
		case <-s.wake:
		case <-s.done:
		}
	}
}

func (s *bwSource) Close() error {
	s.mu.Lock()
	s.closed++
	first := s.closed == 1
	s.mu.Unlock()
	if first {
		close(s.done)
	}
	return nil
}

func (s *bwSource) SetPacketFilter(spec packets.PacketFilterSpec) error {
	s.mu.Lock()
	defer s.mu.Unlock()
	idx := len(s.Filters)
	s.Filters = append(s.Filters, spec)
	if s.FilterErrAt >= 0 && idx == s.FilterErrAt && s.FilterErr != nil {
		return s.FilterErr
	}
	return nil
}

// bwWire collects every Source/Sink pair handed out through the seam during one run.
type bwWire struct {
	mu      sync.Mutex
	Sources []*bwSource
	Sinks   []*bwSink
	Addrs   []netip.Addr
	// Configure is called for each new pair before it is handed to the code under test
	Configure     func(idx int, addr netip.Addr, src *bwSource, snk *bwSink)
	MustClosePort bool
	NewErr        error
}

func (w *bwWire) factory(addr netip.Addr, useDriver bool) (packets.SourceSinkHandle, bool, error) {
	if w.NewErr != nil {
		return packets.SourceSinkHandle{}, true, w.NewErr
	}
	src, snk := bwNewSource(), bwNewSink()
	w.mu.Lock()
	idx := len(w.Sources)
	w.Sources = append(w.Sources, src)
	w.Sinks = append(w.Sinks, snk)
	w.Addrs = append(w.Addrs, addr)
	w.mu.Unlock()
	if w.Configure != nil {
		w.Configure(idx, addr, src, snk)
	}
	return packets.SourceSinkHandle{Source: src, Sink: snk, MustClosePort: w.MustClosePort}, true, nil
}

// bwInstall installs the wire as the NewSourceSink factory; the returned func removes it.
func bwInstall(w *bwWire) func() {
	packets.VerifSetSourceSinkFactory(w.factory)
	return func() { packets.VerifSetSourceSinkFactory(nil) }
}

// AllPackets returns the packets of every sink in creation order.
func (w *bwWire) AllPackets() []bwPacket {
	w.mu.Lock()
	sinks := append([]*bwSink(nil), w.Sinks...)
	w.mu.Unlock()
	var out []bwPacket
	for _, s := range sinks {
		out = append(out, s.Packets()...)
	}
	return out
}

// bwHeader is what the C19/C20 checks read from a written packet.
type bwHeader struct {
	V6      bool
	TTL     int
	Proto   int // 1 ICMP, 6 TCP, 17 UDP, 58 ICMPv6
	Dst     netip.Addr
	DstPort int // -1 when the protocol has no ports
	Flags   int // TCP flags byte, -1 otherwise
	OK      bool
}

// bwParse reads the IP header fields by fixed offsets (byte 8 of an IPv4 header / byte 7 of IPv6 is
// the TTL / hop limit), independent of the repo's own parsers.
func bwParse(b []byte) bwHeader {
	h := bwHeader{DstPort: -1, Flags: -1}
	if len(b) < 1 {
		return h
	}
	var l4 []byte
	switch b[0] >> 4 {
	case 4:
		ihl := int(b[0]&0x0f) * 4
		if len(b) < 20 || ihl < 20 || len(b) < ihl {
			return h
		}
		h.TTL = int(b[8])
		h.Proto = int(b[9])
		h.Dst, _ = netip.AddrFromSlice(b[16:20])
		l4 = b[ihl:]
	case 6:
		if len(b) < 40 {
			return h
		}
		h.V6 = true
		h.TTL = int(b[7])
		h.Proto = int(b[6])
		h.Dst, _ = netip.AddrFromSlice(b[24:40])
		l4 = b[40:]
	default:
		return h
	}
	h.OK = true
	if (h.Proto == 6 || h.Proto == 17) && len(l4) >= 4 {
		h.DstPort = int(binary.BigEndian.Uint16(l4[2:4]))
	}
	if h.Proto == 6 && len(l4) >= 14 {
		h.Flags = int(l4[13])
	}
	return h
}
