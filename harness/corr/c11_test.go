package corr

// C11 — concurrent traceroutes are isolated; identifier ranges never overlap.
//
// (a) allocators: the REAL packets.AllocPacketID / icmp.nextEchoID with the counters preset near the
//     2^32 / 2^16 wrap-arounds: sequential call sequences against the Lean model (alloc.pid /
//     alloc.echo) and the range spec (pairwise disjoint `used` blocks within every window of at most
//     65536 live identifiers) evaluated on the real return values; 16 goroutines allocating
//     concurrently: the returned blocks must be those of SOME sequential order (chain from the start
//     counter, re-executed by the model) and pairwise disjoint.
// (b) isolation: K concurrent REAL runs (real drivers + real engines, synctest bubble) over ONE shared
//     wire: every run has its own memWire and every reply (optionally every outgoing probe too) is
//     injected into ALL runs' wires; scripted routers answer each run's probes with catalogue
//     encodings from per-flow router addresses. Spec on implementation output: every run's hop list
//     (TTL, address, destination flag, RTT in virtual ns) equals the hop list of the same run
//     executed ALONE with the same script. The Lean `FlowsDistinct…` predicates (oracle) label each
//     pair of runs; only scenarios in which every pair is distinct must be isolated.
// (c) F11: the model-level cross-protocol witness replayed on the real matchers, and a run-level
//     scenario aligned the same way.

import (
	"context"
	"encoding/hex"
	"fmt"
	"net/netip"
	"sort"
	"strings"
	"sync"
	"testing"
	"testing/synctest"
	"time"

	"github.com/DataDog/datadog-traceroute/common"
	"github.com/DataDog/datadog-traceroute/icmp"
	trlog "github.com/DataDog/datadog-traceroute/log"
	"github.com/DataDog/datadog-traceroute/packets"

	"verifharness/hx"
)

// ---------------------------------------------------------------------------------------------
// (a) allocators
// ---------------------------------------------------------------------------------------------

// c11Sample keeps one sample per stream for the report (the report stores the first six it is given).
var c11Sampled = map[string]bool{}

func c11Sample(stream string, v any) any {
	keep := map[string]bool{"alloc/pid-seq": true, "alloc/pid-concurrent": true, "isolation/mixed": true, "isolation/request": true, "isolation/aligned": true, "f11/udp-accepts-tcp-quote": true}
	if !keep[stream] || c11Sampled[stream] {
		return nil
	}
	c11Sampled[stream] = true
	return v
}

type c11Block struct {
	Base uint16
	N    int
}

// c11Overlap evaluates the range spec on returned blocks: within every window of consecutive
// allocations that requested at most 65536 identifiers in total, no identifier base+t (1 ≤ t ≤ n,
// 16-bit wrap-around) belongs to two blocks. Returns the indices of two overlapping blocks.
func c11Overlap(bs []c11Block) (int, int, uint16, bool) {
	var owner [65536]int32
	for i := range owner {
		owner[i] = -1
	}
	lo, live := 0, 0
	for j, b := range bs {
		live += b.N
		for live > 65536 {
			for t := 1; t <= bs[lo].N; t++ {
				id := bs[lo].Base + uint16(t)
				if owner[id] == int32(lo) {
					owner[id] = -1
				}
			}
			live -= bs[lo].N
			lo++
		}
		for t := 1; t <= b.N; t++ {
			id := b.Base + uint16(t)
			if o := owner[id]; o >= 0 && int(o) != j {
				return int(o), j, id, true
			}
			owner[id] = int32(j)
		}
	}
	return 0, 0, 0, false
}

func c11BlocksJSON(bs []c11Block) []string {
	out := make([]string, len(bs))
	for i, b := range bs {
		out[i] = fmt.Sprintf("%d:%d", b.Base, b.N)
	}
	return out
}

var c11StartCounters = []uint32{0, 1, 0xffff, 0x10000, 0xfffe, 0xff00, 0x1ffff, 0x7fffffff, 0x80000000,
	0xffffffff, 0xfffffffe, 0xffffff00, 0xffff0000, 0xfffeffff, 0xffffffe2, 41821, 41820}

func c11GenStart(r *hx.RNG) uint32 {
	switch r.Intn(4) {
	case 0:
		return hx.Pick(r, c11StartCounters)
	case 1:
		return uint32(0) - uint32(r.Range(1, 70000)) // 2^32 − k
	case 2:
		return uint32(r.Range(1, 65535))<<16 - uint32(r.Range(0, 600)) // m·2^16 − k
	default:
		return uint32(r.U64())
	}
}

func c11GenReqs(r *hx.RNG, n int) []uint8 {
	reqs := make([]uint8, n)
	mode := r.Intn(4)
	for i := range reqs {
		switch mode {
		case 0:
			reqs[i] = 30 // the default MaxTTL
		case 1:
			reqs[i] = 255
		case 2:
			reqs[i] = hx.Pick(r, []uint8{0, 1, 2, 30, 64, 128, 254, 255})
		default:
			reqs[i] = uint8(r.Intn(256))
		}
	}
	return reqs
}

func c11Alloc(t *testing.T, rep *hx.Report, orc *hx.Oracle, rng *hx.RNG, env hx.Env) {
	type seqCase struct {
		kind  string // pid | echo
		start uint32
		reqs  []uint8
		m     int
		bases []uint16
		final uint32
	}
	var cases []*seqCase
	nSeq := env.Scale(10000, 100000)
	for i := 0; i < nSeq; i++ {
		c := &seqCase{kind: "pid", start: c11GenStart(rng)}
		n := rng.Range(1, 40)
		if rng.Chance(1, 6) {
			n = rng.Range(200, 600) // long enough to exceed 65536 live identifiers
		}
		c.reqs = c11GenReqs(rng, n)
		packets.VerifSetPacketIDCounter(c.start)
		for _, q := range c.reqs {
			c.bases = append(c.bases, packets.AllocPacketID(q))
		}
		c.final = packets.VerifGetPacketIDCounter()
		cases = append(cases, c)
	}
	// wrap sweep: every start value within 700 of a 2^32 / 2^16 / m·2^16 boundary
	for k := 0; k <= env.Scale(700, 70000); k++ {
		for _, st := range []uint32{uint32(0) - uint32(k), uint32(65536 - k%65536), uint32(3<<16) - uint32(k)} {
			c := &seqCase{kind: "pid", start: st, reqs: [][]uint8{{30, 255, 1, 30}, {255, 255, 255}, {30, 30, 30, 30, 30}}[k%3]}
			packets.VerifSetPacketIDCounter(c.start)
			for _, q := range c.reqs {
				c.bases = append(c.bases, packets.AllocPacketID(q))
			}
			c.final = packets.VerifGetPacketIDCounter()
			cases = append(cases, c)
		}
	}
	nEcho := env.Scale(2000, 20000)
	for i := 0; i < nEcho; i++ {
		c := &seqCase{kind: "echo", start: c11GenStart(rng), m: rng.Range(1, 300)}
		if i < 3 {
			c.m = []int{65535, 65536, 65537}[i] // the bound, exactly
			c.start = []uint32{0xffffff00, 0xfffe, 0x7fffffff}[i]
		}
		icmp.VerifSetEchoIDCounter(c.start)
		for k := 0; k < c.m; k++ {
			c.bases = append(c.bases, icmp.VerifNextEchoID())
		}
		// the counter is not exported for reading: one more call reveals its low 16 bits
		c.final = uint32(icmp.VerifNextEchoID())
		cases = append(cases, c)
	}
	lines := make([]string, 0, len(cases))
	for _, c := range cases {
		if c.kind == "pid" {
			toks := make([]string, len(c.reqs))
			for i, q := range c.reqs {
				toks[i] = fmt.Sprint(q)
			}
			lines = append(lines, fmt.Sprintf("alloc.pid %d %s", c.start, strings.Join(toks, " ")))
		} else {
			lines = append(lines, fmt.Sprintf("alloc.echo %d %d", c.start, c.m+1))
		}
	}
	// the Lean range spec (naive, quadratic) on the implementation's blocks for the short cases
	var specIdx []int
	for i, c := range cases {
		live := 0
		for _, q := range c.reqs {
			live += int(q)
		}
		if c.kind == "pid" && len(c.reqs) <= 5 && len(c.reqs) >= 2 && live <= 65536 && len(specIdx) < env.Scale(150, 1500) {
			specIdx = append(specIdx, i)
			bs := make([]string, len(c.reqs))
			for k := range c.reqs {
				bs[k] = fmt.Sprintf("%d:%d", c.bases[k], c.reqs[k])
			}
			lines = append(lines, "alloc.disjoint "+strings.Join(bs, " "))
		}
	}
	answers, err := orc.Batch(lines)
	if err != nil {
		t.Fatalf("oracle: %v", err)
	}
	for i, c := range cases {
		replay := map[string]any{"allocator": c.kind, "start_counter": c.start, "requests": c.reqs, "calls": c.m, "returned": c.bases, "final_counter": c.final}
		wrap := "mid"
		if uint64(c.start)+uint64(65536) > 1<<32 {
			wrap = "near-2^32"
		} else if int(c.start&0xffff) > 65536-600 {
			wrap = "near-2^16"
		}
		rep.Hit("alloc:" + c.kind + ":" + wrap)
		if c.kind == "pid" {
			bs := make([]c11Block, len(c.reqs))
			for k := range c.reqs {
				bs[k] = c11Block{c.bases[k], int(c.reqs[k])}
			}
			var smp any
			if len(c.reqs) >= 2 && len(c.reqs) < 12 {
				smp = c11Sample("alloc/pid-seq", map[string]any{"start": c.start, "requests": fmt.Sprint(c.reqs), "bases": fmt.Sprint(c.bases), "final_counter": c.final})
			}
			rep.Case("alloc/pid-seq", lines[i], len(c.reqs) >= 2, smp)
			if a, b, id, bad := c11Overlap(bs); bad {
				replay["overlap"] = fmt.Sprintf("identifier %d is in block #%d (base %d, n %d) and block #%d (base %d, n %d)", id, a, bs[a].Base, bs[a].N, b, bs[b].Base, bs[b].N)
				rep.Violate(hx.Violation{Kind: "spec", What: "AllocPacketID handed out overlapping identifier blocks while at most 65536 identifiers were live: " + replay["overlap"].(string),
					Sig: map[string]string{"stream": "alloc/pid-seq", "defect": "overlap"}, Replay: replay})
				continue
			}
			toks := make([]string, 0, len(c.bases)+1)
			for _, b := range c.bases {
				toks = append(toks, fmt.Sprint(b))
			}
			toks = append(toks, fmt.Sprintf("c:%d", c.final))
			if got := strings.Join(toks, " "); got != answers[i] {
				replay["model"] = answers[i]
				rep.Violate(hx.Violation{Kind: "correspondence", NoInput: true, What: "stream alloc/pid-seq: AllocPacketID and Alloc.packetID differ", Sig: map[string]string{"stream": "alloc/pid-seq"}, Replay: replay})
			}
			continue
		}
		rep.Case("alloc/echo-seq", lines[i], c.m >= 2, nil)
		// spec: at most 65536 consecutive ids are pairwise distinct (every window of 65536)
		var last [65536]int32
		for k := range last {
			last[k] = -1
		}
		dup := ""
		for k, id := range c.bases {
			if p := last[id]; p >= 0 && k-int(p) < 65536 {
				dup = fmt.Sprintf("calls #%d and #%d both returned %d", p, k, id)
				break
			}
			last[id] = int32(k)
		}
		if c.m == 65537 && dup == "" && c.bases[0] != c.bases[65536] {
			rep.Note("echo ids: 65537th id differs from the first (bound not tight?)")
		}
		if dup != "" {
			replay["duplicate"] = dup
			replay["returned"] = nil
			rep.Violate(hx.Violation{Kind: "spec", What: "nextEchoID returned the same identifier twice within 65536 consecutive calls: " + dup,
				Sig: map[string]string{"stream": "alloc/echo-seq", "defect": "duplicate"}, Replay: replay})
			continue
		}
		toks := make([]string, 0, len(c.bases)+2)
		for _, b := range c.bases {
			toks = append(toks, fmt.Sprint(b))
		}
		toks = append(toks, fmt.Sprint(c.final))
		want := strings.Fields(answers[i])
		if len(want) != len(toks)+1 || strings.Join(want[:len(toks)], " ") != strings.Join(toks, " ") {
			replay["returned"] = nil
			replay["model_tail"] = want[len(want)-1]
			rep.Violate(hx.Violation{Kind: "correspondence", NoInput: true, What: "stream alloc/echo-seq: nextEchoID and Alloc.echoID differ", Sig: map[string]string{"stream": "alloc/echo-seq"}, Replay: replay})
		}
	}
	for k, i := range specIdx {
		if answers[len(cases)+k] != "1" {
			c := cases[i]
			rep.Violate(hx.Violation{Kind: "spec", What: "Spec.pairwiseDisjointB is false on the blocks AllocPacketID returned (answer " + answers[len(cases)+k] + ")",
				Sig: map[string]string{"stream": "alloc/pid-seq", "defect": "overlap"}, Replay: map[string]any{"start_counter": c.start, "requests": c.reqs, "returned": c.bases}})
		}
	}
	rep.Hit(fmt.Sprintf("alloc:lean-spec-evaluated:%d", len(specIdx)))

	// ---- concurrent callers -------------------------------------------------------------------
	const G = 16
	nConc := env.Scale(150, 2000)
	var concLines []string
	type concCase struct {
		start uint32
		per   [][]c11Block
		order []c11Block
		final uint32
	}
	var concCases []*concCase
	for i := 0; i < nConc; i++ {
		start := c11GenStart(rng)
		perReq := make([][]uint8, G)
		total := 0
		for g := range perReq {
			n := rng.Range(20, 60)
			perReq[g] = make([]uint8, n)
			for k := range perReq[g] {
				perReq[g][k] = uint8(rng.Range(1, 60)) // ≥ 1: bases of live blocks are then distinct
				total += int(perReq[g][k])
			}
		}
		if total >= 65536 {
			t.Fatalf("generator: %d identifiers", total)
		}
		packets.VerifSetPacketIDCounter(start)
		per := make([][]c11Block, G)
		gate := make(chan struct{})
		var wg sync.WaitGroup
		for g := 0; g < G; g++ {
			wg.Add(1)
			go func(g int) {
				defer wg.Done()
				<-gate
				out := make([]c11Block, 0, len(perReq[g]))
				for _, q := range perReq[g] {
					out = append(out, c11Block{packets.AllocPacketID(q), int(q)})
				}
				per[g] = out
			}(g)
		}
		close(gate)
		wg.Wait()
		cc := &concCase{start: start, per: per, final: packets.VerifGetPacketIDCounter()}
		concCases = append(concCases, cc)
		perJSON := make([][]string, G)
		var all []c11Block
		for g := range per {
			perJSON[g] = c11BlocksJSON(per[g])
			all = append(all, per[g]...)
		}
		replay := map[string]any{"allocator": "pid", "start_counter": start, "goroutines": G, "returned_per_goroutine(base:n)": perJSON, "final_counter": cc.final}
		rep.Case("alloc/pid-concurrent", fmt.Sprint(start, perJSON), true, c11Sample("alloc/pid-concurrent", map[string]any{"start": start, "goroutines": G, "goroutine0_got(base:n)": strings.Join(perJSON[0], " ")}))
		rep.Hit("alloc:pid:concurrent")
		if a, b, id, bad := c11Overlap(all); bad {
			replay["overlap"] = fmt.Sprintf("identifier %d is in %d:%d and in %d:%d", id, all[a].Base, all[a].N, all[b].Base, all[b].N)
			rep.Violate(hx.Violation{Kind: "spec", What: "concurrent AllocPacketID callers got overlapping blocks (" + replay["overlap"].(string) + ")",
				Sig: map[string]string{"stream": "alloc/pid-concurrent", "defect": "overlap"}, Replay: replay})
			continue
		}
		// linearizability: chain the results from the start counter
		byBase := map[uint16]c11Block{}
		for _, b := range all {
			byBase[b.Base] = b
		}
		cur := start
		for range all {
			b, ok := byBase[uint16(cur)]
			if !ok {
				break
			}
			delete(byBase, uint16(cur))
			cc.order = append(cc.order, b)
			cur += uint32(b.N)
		}
		if len(cc.order) != len(all) || cur != cc.final {
			replay["chain_broke_at_counter"] = cur
			rep.Violate(hx.Violation{Kind: "spec", What: "results of concurrent AllocPacketID callers are not those of any sequential order of the same calls (no returned block starts at the counter value reached, or the final counter is off)",
				Sig: map[string]string{"stream": "alloc/pid-concurrent", "defect": "not-linearizable"}, Replay: replay})
			cc.order = nil
			continue
		}
		toks := make([]string, len(cc.order))
		for k, b := range cc.order {
			toks[k] = fmt.Sprint(b.N)
		}
		concLines = append(concLines, fmt.Sprintf("alloc.pid %d %s", start, strings.Join(toks, " ")))
	}
	canswers, err := orc.Batch(concLines)
	if err != nil {
		t.Fatalf("oracle: %v", err)
	}
	k := 0
	for _, cc := range concCases {
		if cc.order == nil {
			continue
		}
		toks := make([]string, 0, len(cc.order)+1)
		for _, b := range cc.order {
			toks = append(toks, fmt.Sprint(b.Base))
		}
		toks = append(toks, fmt.Sprintf("c:%d", cc.final))
		if strings.Join(toks, " ") != canswers[k] {
			rep.Violate(hx.Violation{Kind: "correspondence", NoInput: true, What: "stream alloc/pid-concurrent: the sequential model execution in the linearization order returns other bases",
				Sig: map[string]string{"stream": "alloc/pid-concurrent"}, Replay: map[string]any{"start_counter": cc.start, "order": c11BlocksJSON(cc.order), "model": canswers[k]}})
		}
		k++
	}
	// echo ids, concurrently: G goroutines × n calls, G·n ≤ 65536 → all distinct, = {start+1 … start+G·n}
	nEchoConc := env.Scale(60, 800)
	for i := 0; i < nEchoConc; i++ {
		start := c11GenStart(rng)
		n := rng.Range(500, 4000)
		icmp.VerifSetEchoIDCounter(start)
		per := make([][]uint16, G)
		gate := make(chan struct{})
		var wg sync.WaitGroup
		for g := 0; g < G; g++ {
			wg.Add(1)
			go func(g int) {
				defer wg.Done()
				<-gate
				out := make([]uint16, n)
				for k := range out {
					out[k] = icmp.VerifNextEchoID()
				}
				per[g] = out
			}(g)
		}
		close(gate)
		wg.Wait()
		next := icmp.VerifNextEchoID()
		rep.Case("alloc/echo-concurrent", fmt.Sprint(start, n), true, nil)
		rep.Hit("alloc:echo:concurrent")
		seen := map[uint16][2]int{}
		bad := ""
		for g := range per {
			for k, id := range per[g] {
				if p, ok := seen[id]; ok {
					bad = fmt.Sprintf("goroutine %d call #%d and goroutine %d call #%d both got echo id %d", p[0], p[1], g, k, id)
				}
				seen[id] = [2]int{g, k}
				if d := id - uint16(start); d == 0 || int(d) > G*n {
					bad = fmt.Sprintf("goroutine %d call #%d got echo id %d, outside start+1..start+%d", g, k, id, G*n)
				}
			}
		}
		if bad == "" && next != uint16(start)+uint16(G*n)+1 {
			bad = fmt.Sprintf("after %d calls the next id is %d, expected %d", G*n, next, uint16(start)+uint16(G*n)+1)
		}
		if bad != "" {
			rep.Violate(hx.Violation{Kind: "spec", What: "concurrent nextEchoID callers: " + bad, Sig: map[string]string{"stream": "alloc/echo-concurrent", "defect": "duplicate"},
				Replay: map[string]any{"allocator": "echo", "start_counter": start, "goroutines": G, "calls_per_goroutine": n, "what": bad}})
		}
	}
}

// ---------------------------------------------------------------------------------------------
// (b) isolation over one shared wire
// ---------------------------------------------------------------------------------------------

type c11Hop struct {
	Kind  string // none | te | dest
	From  netip.Addr
	Delay time.Duration
	Form  replyForm
}

type c11Run struct {
	Cfg     drvCfg
	Start   time.Duration
	Path    map[int]c11Hop // behaviour per probed TTL
	DestTTL int            // probes with TTL ≥ DestTTL reach the target (0: never)
}

type c11Scenario struct {
	Name        string
	Runs        []c11Run
	SeeOutgoing bool // every run's capture also sees every outgoing probe
	Timeout     time.Duration
	// Yield: a logger is installed (public log.SetLogger) whose every entry point lets a little
	// virtual time pass, so that the other runs get to execute at each log point of the code under
	// test — e.g. between building a probe and writing it. Logging must not change any result.
	Yield bool
}

// c11YieldLogger / c11QuietLogger: see c11Scenario.Yield. The quiet one behaves like the package's
// default logger with logging disabled.
func c11YieldLogger(seed uint64) trlog.Logger {
	var mu sync.Mutex
	r := hx.NewRNG(seed)
	yield := func() {
		mu.Lock()
		var d time.Duration
		switch r.Intn(3) {
		case 0:
			d = time.Duration(r.Range(1, 40)) * time.Microsecond
		case 1:
			d = time.Duration(r.Range(100, 2000)) * time.Microsecond
		default: // long enough to span other runs' sends (send delay 10 ms)
			d = time.Duration(r.Range(2000, 15000)) * time.Microsecond
		}
		mu.Unlock()
		time.Sleep(d)
	}
	return trlog.Logger{
		Tracef:    func(string, ...interface{}) { yield() },
		Trace:     func(string) { yield() },
		Infof:     func(string, ...interface{}) { yield() },
		Debugf:    func(string, ...interface{}) { yield() },
		Warnf:     func(f string, a ...interface{}) error { yield(); return fmt.Errorf(f, a...) },
		Errorf:    func(f string, a ...interface{}) error { yield(); return fmt.Errorf(f, a...) },
		TraceFunc: func(func() string) { yield() },
	}
}

func c11QuietLogger() trlog.Logger {
	return trlog.Logger{
		Tracef:    func(string, ...interface{}) {},
		Trace:     func(string) {},
		Infof:     func(string, ...interface{}) {},
		Debugf:    func(string, ...interface{}) {},
		Warnf:     func(f string, a ...interface{}) error { return fmt.Errorf(f, a...) },
		Errorf:    func(f string, a ...interface{}) error { return fmt.Errorf(f, a...) },
		TraceFunc: func(func() string) {},
	}
}

var c11Local = netip.MustParseAddr("192.0.2.2")
var c11Targets = []netip.Addr{netip.MustParseAddr("198.51.100.9"), netip.MustParseAddr("203.0.113.200"), netip.MustParseAddr("8.8.8.8")}

func c11Forms(kind string, want string) []replyForm {
	var out []replyForm
	for _, f := range catalogueFor(kind, false) {
		if f.NATAddr || f.NATPort {
			continue // NAT rewriting of the quoted source is C02's subject; a rewritten port could name another live flow
		}
		if (want == "te") == (f.Kind == "te") {
			out = append(out, f)
		}
	}
	return out
}

// c11Path draws the behaviour of the routers and the target for one run; router addresses are
// per flow (run index) and per TTL so that cross-talk changes an address.
func c11Path(r *hx.RNG, idx int, c drvCfg) (map[int]c11Hop, int) {
	dest := r.Range(c.Min, c.Max+2)
	if dest > c.Max {
		dest = 0
	}
	if r.Chance(1, 6) {
		dest = c.Min
	}
	te, de := c11Forms(c.kind(), "te"), c11Forms(c.kind(), "dest")
	path := map[int]c11Hop{}
	for ttl := c.Min; ttl <= c.Max; ttl++ {
		delay := time.Duration(r.Range(1, 120))*time.Millisecond + time.Duration(2*r.Range(0, 400)+1)*time.Microsecond
		switch {
		case dest > 0 && ttl >= dest:
			if r.Chance(1, 7) {
				path[ttl] = c11Hop{Kind: "none"}
			} else {
				path[ttl] = c11Hop{Kind: "dest", From: c.Target, Delay: delay, Form: hx.Pick(r, de)}
			}
		case r.Chance(3, 10):
			path[ttl] = c11Hop{Kind: "none"}
		default:
			path[ttl] = c11Hop{Kind: "te", From: netip.AddrFrom4([4]byte{10, byte(20 + idx), byte(ttl), byte(1 + r.Intn(3))}), Delay: delay, Form: hx.Pick(r, te)}
		}
	}
	return path, dest
}

// replyFor: what the network answers to one written probe of this run.
func (run *c11Run) replyFor(probe []byte) ([]byte, time.Duration, bool) {
	if len(probe) < 20 || probe[0]>>4 != 4 {
		return nil, 0, false
	}
	ttl := int(probe[8])
	h, ok := run.Path[ttl]
	if !ok || h.Kind == "none" {
		return nil, 0, false
	}
	return h.Form.encode(run.Cfg.flow(), probe, h.From, ttl, seqOfProbe(probe)), h.Delay, true
}

// c11NoRTT drops the RTT field of every hop token ("ttl:ip:dest:rtt").
func c11NoRTT(s string) string {
	f := strings.Fields(s)
	for i, t := range f {
		if p := strings.Split(t, ":"); len(p) == 4 {
			f[i] = strings.Join(p[:3], ":")
		}
	}
	return strings.Join(f, " ")
}

func c11ResultTokens(res []*common.ProbeResponse, err error) string {
	if err != nil {
		return "err:" + classifyErr(err)
	}
	toks := make([]string, len(res))
	for i, p := range res {
		if p == nil {
			toks[i] = "-"
		} else {
			toks[i] = fmt.Sprintf("%d:%s:%s:%d", p.TTL, ipHex(p.IP), b2s(p.IsDest), int64(p.RTT))
		}
	}
	return strings.Join(toks, " ")
}

// c11Exec runs the scenario in one synctest bubble: every run of `only` (nil = all) with the real
// driver and engine; returns the result tokens per run and the number of foreign packets each
// run's Source was handed.
func c11Exec(t *testing.T, sc c11Scenario, only map[int]bool) ([]string, []int) {
	n := len(sc.Runs)
	results := make([]string, n)
	foreign := make([]int, n)
	synctest.Test(t, func(t *testing.T) {
		if sc.Yield {
			trlog.SetLogger(c11YieldLogger(uint64(len(sc.Runs))*7919 + uint64(len(sc.Name))))
			defer trlog.SetLogger(c11QuietLogger())
		}
		wires := make([]*memWire, n)
		drivers := make([]common.TracerouteDriver, n)
		var fmu sync.Mutex
		for i := range sc.Runs {
			if only != nil && !only[i] {
				continue
			}
			w := newMemWire()
			w.blockWhenEmpty = true
			d, err := newDriver(sc.Runs[i].Cfg, w)
			if err != nil {
				results[i] = "err:construct"
				continue
			}
			wires[i], drivers[i] = w, d
		}
		deliver := func(from int, pkt []byte) {
			for j, w := range wires {
				if w != nil {
					if j != from {
						fmu.Lock()
						foreign[j]++
						fmu.Unlock()
					}
					w.Inject(pkt)
				}
			}
		}
		var replies sync.WaitGroup
		for i := range sc.Runs {
			if wires[i] == nil {
				continue
			}
			i, run := i, &sc.Runs[i]
			wires[i].onWrite = func(pkt []byte, _ netip.AddrPort) {
				if sc.SeeOutgoing {
					deliver(i, pkt)
				}
				if reply, delay, ok := run.replyFor(pkt); ok {
					replies.Add(1)
					go func() {
						defer replies.Done()
						time.Sleep(delay)
						deliver(i, reply)
					}()
				}
			}
		}
		var runs sync.WaitGroup
		for i := range sc.Runs {
			if drivers[i] == nil {
				continue
			}
			runs.Add(1)
			go func(i int) {
				defer runs.Done()
				defer func() {
					if r := recover(); r != nil {
						results[i] = fmt.Sprintf("err:panic %v", r)
					}
				}()
				c := sc.Runs[i].Cfg
				time.Sleep(sc.Runs[i].Start)
				p := common.TracerouteParams{MinTTL: uint8(c.Min), MaxTTL: uint8(c.Max), TracerouteTimeout: sc.Timeout,
					PollFrequency: 50 * time.Millisecond, SendDelay: 10 * time.Millisecond}
				var res []*common.ProbeResponse
				var err error
				if c.kind() == "tcp" {
					res, err = common.TracerouteSerial(context.Background(), drivers[i], common.TracerouteSerialParams{TracerouteParams: p})
				} else {
					res, err = common.TracerouteParallel(context.Background(), drivers[i], common.TracerouteParallelParams{TracerouteParams: p})
				}
				results[i] = c11ResultTokens(res, err)
			}(i)
		}
		runs.Wait()
		replies.Wait()
	})
	return results, foreign
}

// c11PortPool hands out distinct local port numbers (what the OS guarantees per protocol; the
// harness makes them distinct across protocols too, except in the F11 scenarios).
type c11Ports struct {
	r    *hx.RNG
	used map[uint16]bool
}

func (p *c11Ports) next() uint16 {
	for {
		v := uint16(p.r.Range(32768, 60999))
		if p.r.Chance(1, 5) {
			v = hx.Pick(p.r, []uint16{32768, 32769, 60999, 40000, 40001, 0x8000 | 0x5a5a})
		}
		if !p.used[v] {
			p.used[v] = true
			return v
		}
	}
}

type c11Gen struct {
	r        *hx.RNG
	ports    *c11Ports
	echoCtr  uint32
	isnBase  uint32
	nextISN  int
	idx      int
	tportFor map[string]uint16
}

func c11NewGen(r *hx.RNG) *c11Gen {
	g := &c11Gen{r: r, ports: &c11Ports{r: r, used: map[uint16]bool{}}}
	g.echoCtr = hx.Pick(r, []uint32{0, 0xfffd, 0xfffffffc, 0x1fffe, 77, uint32(r.U64())})
	g.isnBase = hx.Pick(r, []uint32{0xffffff00, 0xfffffc00, 0, 0x7fffffff, uint32(r.U64())})
	packets.VerifSetPacketIDCounter(hx.Pick(r, []uint32{0xffffffe0, 0xfff0, 0, 41800, uint32(r.U64())}))
	return g
}

// run draws one run of `variant` to `target`; identifiers come from where the real code takes them:
// echo ids from consecutive nextEchoID calls (the counter value before construction is recorded),
// TCP bases from the real AllocPacketID, ports distinct, SACK ISNs ≥ 1000 apart.
func (g *c11Gen) run(variant string, target netip.Addr, tport uint16, min, max int, loosen bool) c11Run {
	r := g.r
	c := drvCfg{Variant: variant, Local: c11Local, Target: target, LPort: g.ports.next(), TPort: tport, Loosen: loosen, Min: min, Max: max}
	switch c.kind() {
	case "icmp":
		c.EchoCounter = g.echoCtr
		g.echoCtr++
	case "tcp":
		c.BaseID = packets.AllocPacketID(uint8(max))
		c.Seq = uint32(r.U64())
	case "sack":
		c.ISN = g.isnBase + uint32(g.nextISN*1000)
		g.nextISN++
		c.IAck = uint32(r.U64())
		c.TS = r.Bool()
		c.TSVal, c.TSEcr = uint32(r.U64()), uint32(r.U64())
	}
	run := c11Run{Cfg: c, Start: time.Duration(r.Range(0, 150))*time.Millisecond + time.Duration(2*r.Range(0, 450))*time.Microsecond}
	run.Path, run.DestTTL = c11Path(r, g.idx, c)
	g.idx++
	return run
}

func c11DefaultPort(kind string, r *hx.RNG) uint16 {
	switch kind {
	case "udp":
		return hx.Pick(r, []uint16{33434, 33434, 53})
	case "icmp":
		return 0
	default:
		return hx.Pick(r, []uint16{443, 443, 80})
	}
}

func c11TTLs(r *hx.RNG) (int, int) {
	min := 1
	if r.Chance(1, 5) {
		min = r.Range(2, 4)
	}
	return min, min + r.Range(1, 6)
}

func c11GenScenario(r *hx.RNG, kind string) c11Scenario {
	g := c11NewGen(r)
	sc := c11Scenario{Name: kind, SeeOutgoing: r.Bool(), Timeout: 400*time.Millisecond + 777*time.Microsecond, Yield: r.Chance(1, 3)}
	variants := []string{"icmp4", "udp4", "tcp", "sack"}
	switch kind {
	case "mixed":
		k := r.Range(2, 6)
		for i := 0; i < k; i++ {
			v := hx.Pick(r, variants)
			min, max := c11TTLs(r)
			kd := strings.TrimRight(v, "46")
			loosen := kd == "sack" && r.Chance(2, 3) || kd == "tcp" && r.Chance(1, 3)
			sc.Runs = append(sc.Runs, g.run(v, hx.Pick(r, c11Targets[:2]), c11DefaultPort(kd, r), min, max, loosen))
		}
	case "request":
		// the shape of one RunTraceroute request: 3 runs + N end-to-end probes (MinTTL = MaxTTL), same
		// protocol and target; the e2e probes of a SACK request are TCP SYN runs
		v := hx.Pick(r, variants)
		kd := strings.TrimRight(v, "46")
		target, tport := hx.Pick(r, c11Targets), c11DefaultPort(kd, r)
		min, max := c11TTLs(r)
		for i := 0; i < 3; i++ {
			sc.Runs = append(sc.Runs, g.run(v, target, tport, min, max, kd == "sack"))
		}
		ev := v
		if v == "sack" {
			ev = "tcp"
		}
		for i, n := 0, r.Range(1, 3); i < n; i++ {
			run := g.run(ev, target, tport, max, max, false)
			run.Start += time.Duration(i) * 130 * time.Millisecond
			sc.Runs = append(sc.Runs, run)
		}
	case "request50":
		// 3 runs + 50 end-to-end probes of one request
		v := hx.Pick(r, variants)
		kd := strings.TrimRight(v, "46")
		target, tport := hx.Pick(r, c11Targets), c11DefaultPort(kd, r)
		min, max := c11TTLs(r)
		for i := 0; i < 3; i++ {
			sc.Runs = append(sc.Runs, g.run(v, target, tport, min, max, kd == "sack"))
		}
		ev := v
		if v == "sack" {
			ev = "tcp"
		}
		for i := 0; i < 50; i++ {
			run := g.run(ev, target, tport, max, max, false)
			run.Start = time.Duration(i)*24*time.Millisecond + time.Duration(2*r.Range(0, 450))*time.Microsecond
			sc.Runs = append(sc.Runs, run)
		}
	case "aligned":
		// same protocol, SAME target, and every per-probe identifier that is not part of
		// FlowsDistinct made EQUAL (TCP base and sequence number, SACK ISN): only the local port
		// (echo id for ICMP) separates the runs
		v := hx.Pick(r, variants)
		kd := strings.TrimRight(v, "46")
		target, tport := hx.Pick(r, c11Targets), c11DefaultPort(kd, r)
		min, max := c11TTLs(r)
		for i, n := 0, r.Range(2, 4); i < n; i++ {
			run := g.run(v, target, tport, min, max, false)
			if i > 0 {
				run.Cfg.BaseID, run.Cfg.Seq = sc.Runs[0].Cfg.BaseID, sc.Runs[0].Cfg.Seq
				run.Cfg.ISN, run.Cfg.IAck = sc.Runs[0].Cfg.ISN, sc.Runs[0].Cfg.IAck
			}
			sc.Runs = append(sc.Runs, run)
		}
	case "burst":
		// several runs of the variants that log between building a probe and writing it (ICMP, SACK),
		// started within the same two milliseconds, always with the yielding logger: their sends interleave
		sc.Yield = true
		for i, n := 0, r.Range(3, 5); i < n; i++ {
			v := hx.Pick(r, []string{"icmp4", "icmp4", "sack", "udp4"})
			kd := strings.TrimRight(v, "46")
			min, max := c11TTLs(r)
			run := g.run(v, hx.Pick(r, c11Targets), c11DefaultPort(kd, r), min, max, r.Bool())
			run.Start = time.Duration(r.Range(0, 2000)) * time.Microsecond
			sc.Runs = append(sc.Runs, run)
		}
	case "alias256":
		// relaxed source checking, same target, identifiers that agree MODULO 256 (and modulo 65536)
		// only: SACK initial sequence numbers 256·k apart, TCP id bases 256·k apart, echo identifiers
		// 256 apart — the runs are FlowsDistinct (disjoint windows) and must stay isolated
		v := hx.Pick(r, []string{"sack", "sack", "tcp", "icmp4"})
		kd := strings.TrimRight(v, "46")
		target, tport := hx.Pick(r, c11Targets), c11DefaultPort(kd, r)
		min, max := c11TTLs(r)
		for i, n := 0, r.Range(2, 3); i < n; i++ {
			run := g.run(v, target, tport, min, max, true)
			if i > 0 {
				k := uint32(r.Range(1, 200))
				run.Cfg.ISN = sc.Runs[0].Cfg.ISN + 256*k*uint32(i)
				run.Cfg.BaseID, run.Cfg.Seq = sc.Runs[0].Cfg.BaseID+uint16(256*uint32(i)), sc.Runs[0].Cfg.Seq
				run.Cfg.EchoCounter = sc.Runs[0].Cfg.EchoCounter + 256*uint32(i)
			}
			sc.Runs = append(sc.Runs, run)
		}
	case "overlap":
		// contrast: two runs that are NOT FlowsDistinct (relaxed source check, same target, same
		// identifiers) — the hypothesis of the isolation theorems is necessary
		v := hx.Pick(r, []string{"udp4", "tcp", "sack"})
		kd := strings.TrimRight(v, "46")
		target, tport := c11Targets[0], c11DefaultPort(kd, r)
		for i := 0; i < 2; i++ {
			run := g.run(v, target, tport, 1, 4, true)
			if i > 0 {
				run.Cfg.BaseID, run.Cfg.Seq, run.Cfg.ISN = sc.Runs[0].Cfg.BaseID, sc.Runs[0].Cfg.Seq, sc.Runs[0].Cfg.ISN
				run.Start = sc.Runs[0].Start + 3*time.Millisecond
			}
			run.DestTTL = 0
			for ttl := 1; ttl <= 4; ttl++ {
				h := run.Path[ttl]
				if i == 0 || ttl%2 == 0 {
					h = c11Hop{Kind: "te", From: netip.AddrFrom4([4]byte{10, byte(20 + i), byte(ttl), 1}), Delay: time.Duration(5+10*ttl+40*i)*time.Millisecond + 13*time.Microsecond, Form: c11Forms(kd, "te")[0]}
				} else {
					h = c11Hop{Kind: "none"}
				}
				run.Path[ttl] = h
			}
			sc.Runs = append(sc.Runs, run)
		}
	case "f11":
		// a UDP run and a TCP SYN run with numerically equal local ports, the same target addr:port,
		// and the TCP block placed so that TCP TTL t+1 carries the IP id of UDP TTL t; the UDP run's
		// own routers are silent at the TTLs in question so that the first-wins rule cannot mask it
		target, tport := c11Targets[0], uint16(33434)
		u := g.run("udp4", target, tport, 1, 5, false)
		c := g.run("tcp", target, tport, 1, 6, false)
		c.Cfg.LPort = u.Cfg.LPort
		c.Cfg.BaseID = 41820
		u.DestTTL, c.DestTTL = 0, 0
		u.Start, c.Start = 1*time.Millisecond, 3*time.Millisecond
		for ttl := 1; ttl <= 6; ttl++ {
			u.Path[ttl] = c11Hop{Kind: "none"}
			c.Path[ttl] = c11Hop{Kind: "te", From: netip.AddrFrom4([4]byte{10, 77, byte(ttl), 1}), Delay: 20*time.Millisecond + 7*time.Microsecond, Form: c11Forms("tcp", "te")[1]}
		}
		u.Path[1] = c11Hop{Kind: "te", From: netip.AddrFrom4([4]byte{10, 66, 1, 1}), Delay: 9*time.Millisecond + 5*time.Microsecond, Form: c11Forms("udp", "te")[0]}
		sc.Runs = []c11Run{u, c}
	}
	return sc
}

func c11CfgTokens(c drvCfg) string {
	l, t := hx2(c.Local.AsSlice()), hx2(c.Target.AsSlice())
	switch c.kind() {
	case "udp":
		return fmt.Sprintf("%s %d %s %d %s", l, c.LPort, t, c.TPort, b2s(c.Loosen))
	case "tcp":
		return fmt.Sprintf("%s %d %s %d %s %d %d %d %d", l, c.LPort, t, c.TPort, b2s(c.Loosen), c.BaseID, c.Seq, c.Min, c.Max)
	case "sack":
		return fmt.Sprintf("%s %d %s %d %s %d %d %d", l, c.LPort, t, c.TPort, b2s(c.Loosen), c.Min, c.Max, c.ISN)
	}
	return ""
}

// c11FlowsLine is the oracle line that evaluates the Lean `FlowsDistinct…` predicate on a pair of
// runs ("" when no theorem covers the pair's variant combination).
func c11FlowsLine(a, b drvCfg) string {
	ka, kb := a.kind(), b.kind()
	switch {
	case ka == "icmp" && kb == "icmp":
		return fmt.Sprintf("alloc.flows.icmp %d %s %d %s", a.echoID(), hx2(a.Target.AsSlice()), b.echoID(), hx2(b.Target.AsSlice()))
	case ka == kb:
		return "alloc.flows." + ka + " " + c11CfgTokens(a) + " " + c11CfgTokens(b)
	case ka == "udp" && kb == "tcp":
		return fmt.Sprintf("alloc.flows.udptcp %s %d %d %s", c11CfgTokens(a), a.Min, a.Max, c11CfgTokens(b))
	case ka == "tcp" && kb == "udp":
		return c11FlowsLine(b, a)
	}
	return ""
}

func c11ScenarioJSON(sc c11Scenario, shared, solo []string, foreign []int) map[string]any {
	runs := make([]map[string]any, len(sc.Runs))
	for i, run := range sc.Runs {
		var path []string
		var ttls []int
		for ttl := range run.Path {
			ttls = append(ttls, ttl)
		}
		sort.Ints(ttls)
		for _, ttl := range ttls {
			h := run.Path[ttl]
			if h.Kind == "none" {
				path = append(path, fmt.Sprintf("%d:silent", ttl))
			} else {
				path = append(path, fmt.Sprintf("%d:%s(%s) from %s after %v", ttl, h.Kind, h.Form.Name, h.From, h.Delay))
			}
		}
		m := map[string]any{"run": i, "config": run.Cfg.oraclePrefix(), "start_after": run.Start.String(), "network_script": path}
		if shared != nil {
			m["hops_on_shared_wire(ttl:ip:dest:rtt_ns)"] = shared[i]
			m["hops_alone"] = solo[i]
			m["foreign_packets_seen"] = foreign[i]
		}
		runs[i] = m
	}
	return map[string]any{"scenario": sc.Name, "see_outgoing": sc.SeeOutgoing, "yield_at_log_points": sc.Yield, "timeout": sc.Timeout.String(), "poll": "50ms", "send_delay": "10ms", "runs": runs,
		"how": "one synctest bubble; one memWire per run; every reply (and, with see_outgoing, every outgoing probe) is injected into ALL runs' wires; TracerouteParallel (TracerouteSerial for tcp) on the real drivers"}
}

func c11Isolation(t *testing.T, rep *hx.Report, orc *hx.Oracle, rng *hx.RNG, env hx.Env) {
	n := env.Scale(3000, 60000)
	kinds := []string{"mixed", "mixed", "mixed", "request", "request", "aligned", "aligned", "overlap", "f11", "alias256", "burst", "burst"}
	var scs []c11Scenario
	for i := 0; i < n; i++ {
		scs = append(scs, c11GenScenario(rng.Fork(), kinds[i%len(kinds)]))
	}
	for i, k := 0, env.Scale(4, 120); i < k; i++ {
		scs = append(scs, c11GenScenario(rng.Fork(), "request50"))
	}
	// label every pair with the Lean FlowsDistinct predicates
	type pairRef struct{ sc, a, b int }
	var lines []string
	var refs []pairRef
	for si, sc := range scs {
		for a := range sc.Runs {
			for b := a + 1; b < len(sc.Runs); b++ {
				if l := c11FlowsLine(sc.Runs[a].Cfg, sc.Runs[b].Cfg); l != "" {
					lines = append(lines, l)
					refs = append(refs, pairRef{si, a, b})
				}
			}
		}
	}
	answers, err := orc.Batch(lines)
	if err != nil {
		t.Fatalf("oracle: %v", err)
	}
	notDistinct := make([][]string, len(scs)) // per scenario: the pairs for which FlowsDistinct is false
	for k, ref := range refs {
		switch answers[k] {
		case "1":
		case "0":
			a, b := scs[ref.sc].Runs[ref.a].Cfg, scs[ref.sc].Runs[ref.b].Cfg
			notDistinct[ref.sc] = append(notDistinct[ref.sc], a.kind()+"/"+b.kind())
		default:
			t.Fatalf("oracle answered %q to %q", answers[k], lines[k])
		}
	}
	for si, sc := range scs {
		shared, foreign := c11Exec(t, sc, nil)
		solo := make([]string, len(sc.Runs))
		for i := range sc.Runs {
			res, _ := c11Exec(t, sc, map[int]bool{i: true})
			solo[i] = res[i]
		}
		var vs []string
		hops, seen := 0, 0
		for i, run := range sc.Runs {
			vs = append(vs, run.Cfg.Variant)
			hops += strings.Count(solo[i], ":0:") + strings.Count(solo[i], ":1:")
			seen += foreign[i]
			rep.Hit("run:" + run.Cfg.Variant + map[bool]string{true: ":loosened", false: ":strict"}[run.Cfg.Loosen])
			if strings.HasPrefix(solo[i], "err:") {
				rep.Hit("run:solo-error:" + solo[i])
			}
		}
		sort.Strings(vs)
		rep.Hit(fmt.Sprintf("scenario:%s:K=%d", sc.Name, len(sc.Runs)))
		var smp any
		if hops > 2 && seen > 0 && len(sc.Runs) >= 3 {
			smp = c11Sample("isolation/"+sc.Name, c11ScenarioJSON(sc, shared, solo, foreign))
		}
		rep.Case("isolation/"+sc.Name, fmt.Sprint(c11ScenarioJSON(sc, shared, solo, foreign)), hops > 0 && seen > 0, smp)
		distinct := len(notDistinct[si]) == 0
		if (sc.Name == "mixed" || strings.HasPrefix(sc.Name, "request") || sc.Name == "aligned") && !distinct {
			rep.Violate(hx.Violation{Kind: "tie", NoInput: true, What: "harness generator produced a scenario that is not FlowsDistinct: " + strings.Join(notDistinct[si], ","),
				Sig: map[string]string{"stream": "isolation/" + sc.Name}, Replay: c11ScenarioJSON(sc, nil, nil, nil)})
			continue
		}
		if (sc.Name == "overlap" || sc.Name == "f11") && distinct {
			rep.Violate(hx.Violation{Kind: "tie", NoInput: true, What: "contrast scenario is FlowsDistinct according to the oracle", Sig: map[string]string{"stream": "isolation/" + sc.Name}, Replay: c11ScenarioJSON(sc, nil, nil, nil)})
			continue
		}
		for i := range sc.Runs {
			same := shared[i] == solo[i]
			if sc.Yield {
				// the yields at the log points shift every instant by some microseconds, differently in
				// the two executions: the hops (TTL, address, destination mark) must agree, not the ns
				same = c11NoRTT(shared[i]) == c11NoRTT(solo[i])
			}
			if same {
				continue
			}
			replay := c11ScenarioJSON(sc, shared, solo, foreign)
			replay["differing_run"] = i
			switch {
			case distinct:
				rep.Violate(hx.Violation{Kind: "spec", What: fmt.Sprintf("run %d (%s) returns other hops on the shared wire than alone: shared [%s] alone [%s]", i, sc.Runs[i].Cfg.Variant, shared[i], solo[i]),
					Sig: map[string]string{"stream": "isolation/" + sc.Name, "variant": sc.Runs[i].Cfg.Variant, "variants": strings.Join(vs, "+")}, Replay: replay})
			case sc.Name == "f11":
				rep.Hit("f11:run-level-cross-match")
				rep.Violate(hx.Violation{Kind: "spec", What: fmt.Sprintf("cross-protocol: run %d (%s) returns other hops next to a run of the other protocol with the same port numbers and aligned IP ids: shared [%s] alone [%s]", i, sc.Runs[i].Cfg.Variant, shared[i], solo[i]),
					Sig: map[string]string{"defect": "cross-protocol-quote", "stream": "isolation/f11", "level": "run"}, Replay: replay})
			default:
				rep.Hit("overlap:cross-talk-without-FlowsDistinct:" + sc.Runs[i].Cfg.Variant)
			}
			break
		}
	}
}

// ---------------------------------------------------------------------------------------------
// (c) F11: the model-level witness on the real matchers
// ---------------------------------------------------------------------------------------------

func c11F11(t *testing.T, rep *hx.Report, orc *hx.Oracle) {
	ans, err := orc.Batch([]string{"alloc.f11"})
	if err != nil {
		t.Fatalf("oracle: %v", err)
	}
	f := strings.Fields(ans[0])
	if len(f) != 5 {
		t.Fatalf("alloc.f11 answered %q", ans[0])
	}
	pkt, _ := hex.DecodeString(f[0])
	revPkt, _ := hex.DecodeString(f[1])
	var seq2 uint32
	fmt.Sscan(f[4], &seq2)
	local, target := netip.MustParseAddr("10.0.0.1"), netip.MustParseAddr("10.0.0.9")
	ucfg := drvCfg{Variant: "udp4", Local: local, Target: target, LPort: 40000, TPort: 443, Min: 1, Max: 30}
	ccfg := drvCfg{Variant: "tcp", Local: local, Target: target, LPort: 40000, TPort: 443, Min: 1, Max: 30, BaseID: 41820, Seq: 7}
	ccfg2 := ccfg
	ccfg2.BaseID, ccfg2.Seq = 41821, seq2
	gap := 5 * time.Millisecond
	type probe struct {
		name string
		cfg  drvCfg
		ops  []drvOp
	}
	cases := []probe{
		{"udp-accepts-tcp-quote", ucfg, []drvOp{{Send: true, TTL: 2, Gap: gap}, {Pkt: pkt, Gap: gap, Meta: map[string]string{"stream": "f11"}}}},
		{"tcp-accepts-own-quote", ccfg, []drvOp{{Send: true, TTL: 3, Gap: gap}, {Pkt: pkt, Gap: gap, Meta: map[string]string{"stream": "f11"}}}},
		{"udp-accepts-own-quote", ucfg, []drvOp{{Send: true, TTL: 2, Gap: gap}, {Pkt: revPkt, Gap: gap, Meta: map[string]string{"stream": "f11"}}}},
		{"tcp-accepts-udp-quote", ccfg2, []drvOp{{Send: true, TTL: 2, Gap: gap}, {Pkt: revPkt, Gap: gap, Meta: map[string]string{"stream": "f11"}}}},
	}
	var lines []string
	steps := make([][]drvStep, len(cases))
	for i, c := range cases {
		steps[i] = runDrvCase(t, c.cfg, c.ops)
		lines = append(lines, drvLine(c.cfg, steps[i]))
	}
	model, err := orc.Batch(lines)
	if err != nil {
		t.Fatalf("oracle: %v", err)
	}
	// the model's TCP probe (quoted inside the witness) is the real driver's TCP probe
	if got := hx2(steps[1][0].Written); got != f[2] {
		rep.Violate(hx.Violation{Kind: "correspondence", NoInput: true, What: "stream f11: the real TCP driver's TTL-3 probe differs from the probe quoted in the model-level witness", Sig: map[string]string{"stream": "f11"},
			Replay: map[string]any{"real": got, "model": f[2]}})
	}
	if got := hx2(steps[0][0].Written); got != f[3] {
		rep.Violate(hx.Violation{Kind: "correspondence", NoInput: true, What: "stream f11: the real UDP driver's TTL-2 probe differs from the model's", Sig: map[string]string{"stream": "f11"},
			Replay: map[string]any{"real": got, "model": f[3]}})
	}
	for i, c := range cases {
		impl := make([]string, len(steps[i]))
		for k, s := range steps[i] {
			impl[k] = s.Impl
		}
		rep.Case("f11/"+c.name, lines[i], true, c11Sample("f11/"+c.name, map[string]any{"case": c.name, "config": c.cfg.oraclePrefix(), "packet": hx2(c.ops[1].Pkt), "real": impl[1], "model": model[i]}))
		if strings.Join(impl, " ") != model[i] {
			rep.Violate(hx.Violation{Kind: "correspondence", NoInput: true, What: "stream f11: driver model and implementation differ on the cross-protocol witness (" + c.name + ")", Sig: map[string]string{"stream": "f11"},
				Replay: map[string]any{"config": c.cfg.oraclePrefix(), "real": impl, "model": model[i]}})
			continue
		}
		rep.Hit("f11:" + c.name + ":" + summariseOutcome(impl[1]))
		cross := c.name == "udp-accepts-tcp-quote" || c.name == "tcp-accepts-udp-quote"
		if cross && strings.HasPrefix(impl[1], "acc:") {
			rep.Violate(hx.Violation{Kind: "spec", What: "cross-protocol: the real " + c.cfg.kind() + " matcher accepted (" + impl[1] + ") a time-exceeded that quotes a probe of a run of the OTHER protocol (equal port numbers, same target addr:port, aligned IP id)",
				Sig: map[string]string{"defect": "cross-protocol-quote", "stream": "f11", "level": "matcher", "case": c.name},
				Replay: map[string]any{"config": c.cfg.oraclePrefix(), "steps": []string{steps[i][0].OrTok + " => " + impl[0], steps[i][1].OrTok + " => " + impl[1]},
					"other_run": map[string]string{"udp-accepts-tcp-quote": ccfg.oraclePrefix(), "tcp-accepts-udp-quote": ucfg.oraclePrefix()}[c.name]}})
		}
	}
}

func TestC11(t *testing.T) {
	env := hx.GetEnv()
	rep := hx.NewReport("C11", env, "allocator streams: one evaluation = one call sequence of the REAL AllocPacketID / nextEchoID from a preset counter (sequential, or 16 goroutines), non-trivial = ≥ 2 calls; "+
		"isolation streams: one evaluation = one scenario of K = 2..6 concurrent REAL runs (real drivers, real engines, virtual clock) over a shared wire on which every run's Source sees every packet, each run re-executed alone with the same network script; "+
		"non-trivial = at least one hop answered and at least one foreign packet seen; distinct by full scenario (configurations, scripts, results); f11 stream: the model-level cross-protocol witness on the real matchers")
	defer rep.Write()
	rng := hx.NewRNG(env.Seed ^ 0xC11)
	orc := hx.NewOracle()
	t0 := time.Now()
	c11Alloc(t, rep, orc, rng.Fork(), env)
	t1 := time.Now()
	c11F11(t, rep, orc)
	// public entry points over the seam: while a UDP / TCP run is live its source port stays reserved
	// (the port is one of the identifiers that separate concurrent runs)
	runLevelStream(t, rep, rng.Fork(), env.Scale(80, 800))
	c11Isolation(t, rep, orc, rng.Fork(), env)
	rep.Note("wall: allocators %.1fs, isolation+f11 %.1fs", t1.Sub(t0).Seconds(), time.Since(t1).Seconds())
	c11ExtraWireIDs(t, rep, rng.Fork(), env)
	c11ExtraFailedRun(t, rep, rng.Fork(), env)
	// the SACK handshake while other connections' SYN-ACKs are on the capture handle
	handshakeStream(t, rep, orc, rng.Fork(), env.Scale(1500, 30000))
	if rep.Failed() {
		t.Fail()
	}
}
