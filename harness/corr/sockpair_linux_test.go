//go:build linux

package corr

// Reading from a real capture Source fed over an AF_UNIX datagram pair, robust against CPU load: a
// short read deadline is what makes "this frame is not handed up" observable, but under load the
// deadline can expire before the read even starts while the frame is still queued. A deadline error
// therefore only counts when nothing is left in the socket (the Source consumed the frame and did not
// hand it up); otherwise the read is repeated with a longer deadline.

import (
	"errors"
	"os"
	"time"

	"github.com/DataDog/datadog-traceroute/packets"
	"golang.org/x/sys/unix"
)

func sockQueued(rxfd int) bool {
	var b [1]byte
	_, _, err := unix.Recvfrom(rxfd, b[:], unix.MSG_DONTWAIT|unix.MSG_PEEK)
	return err == nil
}

// readRobust calls read (which must set no deadline itself) under increasing deadlines while the
// frame is still queued in the socket.
func readRobust(src packets.Source, rxfd int, read func() error) error {
	d := 2 * time.Millisecond
	for try := 0; ; try++ {
		src.SetReadDeadline(time.Now().Add(d))
		err := read()
		if err == nil || !errors.Is(err, os.ErrDeadlineExceeded) || try >= 6 || !sockQueued(rxfd) {
			return err
		}
		d *= 4
	}
}
