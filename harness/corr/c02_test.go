package corr

// C02 (recognition completeness), C04 (destination marking), C09 (hostile bytes): entry points and
// the dedicated exhaustive generators (every catalogue form × TTLs × strict/relaxed for C02; every
// truncation length of every catalogue reply for C09).

import (
	"fmt"
	"strings"
	"testing"
	"time"

	"verifharness/hx"
)

// expectedGenuine is the outcome the property demands for an unperturbed catalogue reply.
func expectedGenuine(c drvCfg, f replyForm, ttl int, from string) (tok string, applicable bool) {
	strictMismatch := !c.Loosen && (f.NATAddr || f.NATPort)
	if c.kind() == "icmp" && (f.NATAddr || f.NATPort) {
		return "", false
	}
	if strictMismatch {
		return "retry", true // strict checking: a NAT-rewritten quoted source is not the probe's own
	}
	dest := false
	switch c.kind() {
	case "icmp":
		dest = f.Kind == "echo"
	case "udp":
		dest = from == c.Target.String()
	case "tcp":
		dest = f.Kind != "te"
	case "sack":
		dest = f.Kind == "sack" || from == c.Target.String()
	}
	return fmt.Sprintf("acc:%d:%s:%s", ttl, strings.ToLower(hx2(mustAddr(from).AsSlice())), b2s(dest)), true
}

// genCompletenessCase: send a set of TTLs, then deliver every catalogue form for every sent TTL.
func genCompletenessCase(t *testing.T, r *hx.RNG, c drvCfg, nTTL int) matcherCase {
	if c.Max == c.Min && c.Max < 255 {
		c.Max++
	}
	lo := c.Min + 1
	if lo > c.Max {
		lo = c.Max
	}
	if c.kind() == "sack" && r.Chance(2, 3) {
		// put the 32-bit wrap INSIDE the run: ISN + ttl crosses 2^32 at a probed TTL > min
		c.ISN = uint32(0) - uint32(r.Range(lo, c.Max))
	}
	if c.Variant == "tcp" && r.Chance(2, 3) {
		c.BaseID = uint16(0) - uint16(r.Range(lo, c.Max)) // 16-bit wrap inside the run
	}
	all := rangeTTLs(c.Min, c.Max)
	pick := map[int]bool{c.Min: true, c.Max: true}
	wrapAt := -1
	if c.kind() == "sack" {
		wrapAt = int(uint32(0) - c.ISN) // TTL at which ISN + ttl wraps to 0
	}
	if c.Variant == "tcp" {
		wrapAt = int(uint16(0) - c.BaseID)
	}
	for _, x := range []int{wrapAt - 1, wrapAt, wrapAt + 1} {
		if wrapAt >= 0 && x >= c.Min && x <= c.Max {
			pick[x] = true
		}
	}
	for len(pick) < nTTL && len(pick) < len(all) {
		pick[hx.Pick(r, all)] = true
	}
	var ttls []int
	for _, x := range all {
		if pick[x] {
			ttls = append(ttls, x)
		}
	}
	var ops []drvOp
	for _, ttl := range ttls {
		ops = append(ops, drvOp{Send: true, TTL: ttl, Gap: 10*time.Millisecond + time.Duration(r.Range(1, 999))*time.Microsecond})
	}
	forms := catalogueFor(c.kind(), c.v6())
	for _, ttl := range ttls {
		for _, f := range forms {
			if c.kind() == "tcp" && f.Kind != "te" && ttl != ttls[len(ttls)-1] {
				continue // direct TCP replies are credited to the last sent probe (C01 caveat)
			}
			ttl, f := ttl, f
			rr := r.Fork()
			ops = append(ops, drvOp{Gap: time.Millisecond}.withMake(func(w map[int][]byte) ([]byte, map[string]string) {
				from := responderFor(rr, c, f)
				pkt := f.encode(c.flow(), w[ttl], from, ttl, seqOfProbe(w[ttl]))
				return pkt, map[string]string{"stream": "catalogue", "form": f.Name, "ttl": fmt.Sprint(ttl), "from": from.String()}
			}))
		}
	}
	return matcherCase{Cfg: c, Ops: ops}
}

// optLatticeAlphabet: option kinds and lengths at the decision points of the three option loops
// (IPv4 options, TCP options, IPv6 hop-by-hop TLVs): end-of-list, NOP / Pad1, lengths 0..4 and beyond,
// record route / timestamp / router alert / SACK / jumbo kinds.
var optLatticeAlphabet = []byte{0, 1, 2, 3, 4, 5, 6, 7, 8, 68, 148, 0xc2, 0xff}

// genOptionLatticeCase: one probe, then genuine replies whose OPTION BYTES run over a lattice — in
// the outer IPv4 header, in the quoted IPv4 header, in the TCP header of direct replies, in an outer
// IPv6 hop-by-hop header. Well-formed and malformed option lists alike: the real decoders and their
// models (ip4OptsOK, tcpOpts, hbhTLVs — the hypotheses of the byte-level theorems of C02) must agree
// on every one of them, and no option list may abort the run (C09).
// exhaustive = every string of length 4 over the alphabet in each slot; otherwise n random strings
// (length 4, 8 or 12; for hop-by-hop 6 or 14) per slot.
func genOptionLatticeCase(t *testing.T, r *hx.RNG, c drvCfg, n int, exhaustive bool) matcherCase {
	ttl := c.Min
	ops := []drvOp{{Send: true, TTL: ttl, Gap: 5 * time.Millisecond}}
	forms := catalogueFor(c.kind(), c.v6())
	pickForm := func(kind string) (replyForm, bool) {
		for _, f := range forms {
			if f.Kind == kind && len(f.OuterOpts)+len(f.QOpts)+len(f.TCPOpts)+len(f.OuterHBH) == 0 && !f.NATAddr && !f.NATPort && f.QTTL < 0 && (kind != "te" || f.Quote == quoteFull) && (kind != "sack" || f.SackN == 1) {
				return f, true
			}
		}
		return replyForm{}, false
	}
	type slot struct {
		name string
		base replyForm
		set  func(f *replyForm, o []byte)
		lens []int
	}
	var slots []slot
	if te, ok := pickForm("te"); ok {
		if !c.v6() {
			slots = append(slots, slot{"outer", te, func(f *replyForm, o []byte) { f.OuterOpts = o }, []int{4, 8, 12}})
			slots = append(slots, slot{"quoted", te, func(f *replyForm, o []byte) { f.QOpts = o }, []int{4, 8}})
		} else {
			slots = append(slots, slot{"hbh", te, func(f *replyForm, o []byte) { f.OuterHBH = o }, []int{6, 14}})
		}
	}
	for _, k := range []string{"synack", "rst", "sack", "echo"} {
		if d, ok := pickForm(k); ok {
			switch {
			case k == "echo" && c.v6():
				slots = append(slots, slot{"hbh-echo", d, func(f *replyForm, o []byte) { f.OuterHBH = o }, []int{6, 14}})
			case k == "echo":
				slots = append(slots, slot{"outer-echo", d, func(f *replyForm, o []byte) { f.OuterOpts = o }, []int{4, 8}})
			default:
				slots = append(slots, slot{"tcp-" + k, d, func(f *replyForm, o []byte) { f.TCPOpts = o }, []int{4, 8, 12}})
			}
		}
	}
	add := func(sl slot, o []byte) {
		f := sl.base
		sl.set(&f, append([]byte(nil), o...))
		rr := r.Fork()
		ops = append(ops, drvOp{Gap: time.Millisecond}.withMake(func(w map[int][]byte) ([]byte, map[string]string) {
			from := responderFor(rr, c, f)
			pkt := f.encode(c.flow(), w[ttl], from, ttl, seqOfProbe(w[ttl]))
			return pkt, map[string]string{"stream": "opts-lattice", "form": f.Name, "slot": sl.name, "options": hx2(o), "ttl": fmt.Sprint(ttl), "from": from.String()}
		}))
	}
	for _, sl := range slots {
		if exhaustive && !strings.HasPrefix(sl.name, "hbh") {
			A := optLatticeAlphabet
			for _, a := range A {
				for _, b := range A {
					for _, c3 := range A {
						for _, d := range A {
							add(sl, []byte{a, b, c3, d})
						}
					}
				}
			}
			continue
		}
		for i := 0; i < n; i++ {
			o := make([]byte, hx.Pick(r, sl.lens))
			for j := range o {
				o[j] = hx.Pick(r, optLatticeAlphabet)
				if r.Chance(1, 10) {
					o[j] = byte(r.Intn(256))
				}
			}
			add(sl, o)
		}
	}
	return matcherCase{Cfg: c, Ops: ops}
}

// genTruncationCase: every truncation length of every catalogue reply for one sent TTL.
func genTruncationCase(t *testing.T, r *hx.RNG, c drvCfg) matcherCase {
	ttl := hx.Pick(r, rangeTTLs(c.Min, c.Max))
	ops := []drvOp{{Send: true, TTL: ttl, Gap: 5 * time.Millisecond}}
	shadow := probeBytes(t, c, []int{ttl})
	probe := shadow[ttl]
	if probe == nil {
		return matcherCase{Cfg: c, Ops: ops}
	}
	for _, f := range catalogueFor(c.kind(), c.v6()) {
		from := responderFor(r, c, f)
		if c.Variant == "tcp-paris" {
			continue // probe bytes differ per run (random sequence numbers); covered by the lazy streams
		}
		full := f.encode(c.flow(), probe, from, ttl, seqOfProbe(probe))
		for n := 1; n <= len(full); n++ {
			ops = append(ops, drvOp{Pkt: append([]byte(nil), full[:n]...), Meta: map[string]string{"stream": "truncated", "form": f.Name, "cut": fmt.Sprint(n), "ttl": fmt.Sprint(ttl)}})
		}
	}
	return matcherCase{Cfg: c, Ops: ops}
}

func TestC02(t *testing.T) { runMatcherProperty(t, "C02") }
func TestC04(t *testing.T) { runMatcherProperty(t, "C04") }
func TestC09(t *testing.T) { runMatcherProperty(t, "C09") }
