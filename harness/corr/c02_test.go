package corr

// C02 (recognition completeness), C04 (destination marking), C09 (hostile bytes): entry points and
// the dedicated exhaustive generators (every catalogue form × TTLs × strict/relaxed for C02; every
// truncation length of every catalogue reply for C09).

import (
	"fmt"
	"strings"
	"testing"
	"time"

	"verifharness/hx"
)

// expectedGenuine is the outcome the property demands for an unperturbed catalogue reply.
func expectedGenuine(c drvCfg, f replyForm, ttl int, from string) (tok string, applicable bool) {
	strictMismatch := !c.Loosen && (f.NATAddr || f.NATPort)
	if c.kind() == "icmp" && (f.NATAddr || f.NATPort) {
		return "", false
	}
	if strictMismatch {
		return "retry", true // strict checking: a NAT-rewritten quoted source is not the probe's own
	}
	dest := false
	switch c.kind() {
	case "icmp":
		dest = f.Kind == "echo"
	case "udp":
		dest = from == c.Target.String()
	case "tcp":
		dest = f.Kind != "te"
	case "sack":
		dest = f.Kind == "sack" || from == c.Target.String()
	}
	return fmt.Sprintf("acc:%d:%s:%s", ttl, strings.ToLower(hx2(mustAddr(from).AsSlice())), b2s(dest)), true
}

// genCompletenessCase: send a set of TTLs, then deliver every catalogue form for every sent TTL.
func genCompletenessCase(t *testing.T, r *hx.RNG, c drvCfg, nTTL int) matcherCase {
	if c.Max == c.Min && c.Max < 255 {
		c.Max++
	}
	lo := c.Min + 1
	if lo > c.Max {
		lo = c.Max
	}
	if c.kind() == "sack" && r.Chance(2, 3) {
		// put the 32-bit wrap INSIDE the run: ISN + ttl crosses 2^32 at a probed TTL > min
		c.ISN = uint32(0) - uint32(r.Range(lo, c.Max))
	}
	if c.Variant == "tcp" && r.Chance(2, 3) {
		c.BaseID = uint16(0) - uint16(r.Range(lo, c.Max)) // 16-bit wrap inside the run
	}
	all := rangeTTLs(c.Min, c.Max)
	pick := map[int]bool{c.Min: true, c.Max: true}
	wrapAt := -1
	if c.kind() == "sack" {
		wrapAt = int(uint32(0) - c.ISN) // TTL at which ISN + ttl wraps to 0
	}
	if c.Variant == "tcp" {
		wrapAt = int(uint16(0) - c.BaseID)
	}
	for _, x := range []int{wrapAt - 1, wrapAt, wrapAt + 1} {
		if wrapAt >= 0 && x >= c.Min && x <= c.Max {
			pick[x] = true
		}
	}
	for len(pick) < nTTL && len(pick) < len(all) {
		pick[hx.Pick(r, all)] = true
	}
	var ttls []int
	for _, x := range all {
		if pick[x] {
			ttls = append(ttls, x)
		}
	}
	var ops []drvOp
	for _, ttl := range ttls {
		ops = append(ops, drvOp{Send: true, TTL: ttl, Gap: 10*time.Millisecond + time.Duration(r.Range(1, 999))*time.Microsecond})
	}
	forms := catalogueFor(c.kind(), c.v6())
	for _, ttl := range ttls {
		for _, f := range forms {
			if c.kind() == "tcp" && f.Kind != "te" && ttl != ttls[len(ttls)-1] {
				continue // direct TCP replies are credited to the last sent probe (C01 caveat)
			}
			ttl, f := ttl, f
			rr := r.Fork()
			ops = append(ops, drvOp{Gap: time.Millisecond}.withMake(func(w map[int][]byte) ([]byte, map[string]string) {
				from := responderFor(rr, c, f)
				pkt := f.encode(c.flow(), w[ttl], from, ttl, seqOfProbe(w[ttl]))
				return pkt, map[string]string{"stream": "catalogue", "form": f.Name, "ttl": fmt.Sprint(ttl), "from": from.String()}
			}))
		}
	}
	return matcherCase{Cfg: c, Ops: ops}
}

// genTruncationCase: every truncation length of every catalogue reply for one sent TTL.
func genTruncationCase(t *testing.T, r *hx.RNG, c drvCfg) matcherCase {
	ttl := hx.Pick(r, rangeTTLs(c.Min, c.Max))
	ops := []drvOp{{Send: true, TTL: ttl, Gap: 5 * time.Millisecond}}
	shadow := probeBytes(t, c, []int{ttl})
	probe := shadow[ttl]
	if probe == nil {
		return matcherCase{Cfg: c, Ops: ops}
	}
	for _, f := range catalogueFor(c.kind(), c.v6()) {
		from := responderFor(r, c, f)
		if c.Variant == "tcp-paris" {
			continue // probe bytes differ per run (random sequence numbers); covered by the lazy streams
		}
		full := f.encode(c.flow(), probe, from, ttl, seqOfProbe(probe))
		for n := 1; n <= len(full); n++ {
			ops = append(ops, drvOp{Pkt: append([]byte(nil), full[:n]...), Meta: map[string]string{"stream": "truncated", "form": f.Name, "cut": fmt.Sprint(n), "ttl": fmt.Sprint(ttl)}})
		}
	}
	return matcherCase{Cfg: c, Ops: ops}
}

func TestC02(t *testing.T) { runMatcherProperty(t, "C02") }
func TestC04(t *testing.T) { runMatcherProperty(t, "C04") }
func TestC09(t *testing.T) { runMatcherProperty(t, "C09") }
