package corr

// C14 — the SEARCH for a concrete data race (the proof side is lean/TRV/Props/C14.lean over the
// regenerated access table).  This test is built with -race (checks.d/C14.json "race": true).
//
// The parent re-executes the test binary once per (scenario, seed) with
// GORACE="halt_on_error=1 exitcode=66"; a child drives the REAL drivers (sack, icmp, udp) under the
// REAL common.TracerouteParallel over an in-memory, *unsynchronised* wire (c14Source / c14Sink share
// no state, so the wire adds no happens-before edge between sender and receiver) that is
// pre-seeded with replies for probes NOT YET SENT (stale duplicates / spoofed early replies), so the
// receiver looks up send-time state while the sender is writing it; plus K runs at once
// (allocators) and the real runTracerouteMulti / GetReverseDnsForIPs with stubs.  A
// "WARNING: DATA RACE" on the child's stderr becomes a VIOLATION whose replay is the report (two
// stacks) and whose signature names the field the top frames touch.  The "control" scenario races
// on purpose: if it is *not* reported the binary was not built with -race and the search is blind.

import (
	"bytes"
	"context"
	"encoding/binary"
	"errors"
	"fmt"
	"net"
	"net/netip"
	"os"
	"os/exec"
	"regexp"
	"strconv"
	"strings"
	"sync"
	"testing"
	"time"

	"github.com/google/gopacket"
	"github.com/google/gopacket/layers"

	"github.com/DataDog/datadog-traceroute/common"
	"github.com/DataDog/datadog-traceroute/icmp"
	"github.com/DataDog/datadog-traceroute/packets"
	"github.com/DataDog/datadog-traceroute/result"
	"github.com/DataDog/datadog-traceroute/reversedns"
	"github.com/DataDog/datadog-traceroute/sack"
	"github.com/DataDog/datadog-traceroute/traceroute"
	"github.com/DataDog/datadog-traceroute/udp"

	"verifharness/hx"
)

// ---- the unsynchronised in-memory wire ------------------------------------------------------------

// c14Source serves the pre-seeded packets cyclically (budget reads in total), then stays silent.
// Only the goroutine that calls ReceiveProbe touches it.
type c14Source struct {
	pkts         [][]byte
	next, budget int
	deadline     time.Time
}

func (s *c14Source) SetReadDeadline(t time.Time) error { s.deadline = t; return nil }
func (s *c14Source) Close() error                      { return nil }
func (s *c14Source) SetPacketFilter(packets.PacketFilterSpec) error {
	return nil
}
func (s *c14Source) Read(buf []byte) (int, error) {
	if !time.Now().Before(s.deadline) {
		return 0, os.ErrDeadlineExceeded
	}
	if s.next < s.budget && len(s.pkts) > 0 {
		p := s.pkts[s.next%len(s.pkts)]
		s.next++
		return copy(buf, p), nil
	}
	time.Sleep(time.Until(s.deadline))
	return 0, os.ErrDeadlineExceeded
}

// c14Sink discards; only the goroutine that calls SendProbe touches it. failAt >= 0: that write fails
// (scenario sendfail: the error path of SendProbe runs while the receiver is handling replies).
type c14Sink struct {
	sent   int
	failAt int
}

var errC14SendFail = errors.New("c14: injected send failure")

func (s *c14Sink) WriteTo([]byte, netip.AddrPort) error {
	s.sent++
	if s.failAt > 0 && s.sent == s.failAt {
		return errC14SendFail
	}
	return nil
}
func (s *c14Sink) Close() error { return nil }

// ---- reply builders (gopacket) ------------------------------------------------------------------

var (
	c14Local  = netip.MustParseAddrPort("192.0.2.10:41234")
	c14Target = netip.MustParseAddrPort("198.51.100.9:443")
)

func c14Serialize(ls ...gopacket.SerializableLayer) []byte {
	buf := gopacket.NewSerializeBuffer()
	if err := gopacket.SerializeLayers(buf, gopacket.SerializeOptions{FixLengths: true, ComputeChecksums: true}, ls...); err != nil {
		panic(err)
	}
	return append([]byte(nil), buf.Bytes()...)
}

func c14IP(src, dst netip.Addr, proto layers.IPProtocol, id uint16) *layers.IPv4 {
	return &layers.IPv4{Version: 4, IHL: 5, TTL: 64, Id: id, Protocol: proto, SrcIP: src.AsSlice(), DstIP: dst.AsSlice()}
}

// c14SackAck: TCP ACK target:port -> local:port with a SACK block whose left edge is ISN+ttl.
func c14SackAck(isn uint32, ttl uint8) []byte {
	ip := c14IP(c14Target.Addr(), c14Local.Addr(), layers.IPProtocolTCP, 7)
	block := make([]byte, 8)
	binary.BigEndian.PutUint32(block, isn+uint32(ttl))
	binary.BigEndian.PutUint32(block[4:], isn+uint32(ttl)+1)
	tcp := &layers.TCP{SrcPort: layers.TCPPort(c14Target.Port()), DstPort: layers.TCPPort(c14Local.Port()), ACK: true,
		Seq: 9000, Ack: isn, Window: 1024,
		Options: []layers.TCPOption{{OptionType: layers.TCPOptionKindSACK, OptionLength: 10, OptionData: block}}}
	tcp.SetNetworkLayerForChecksum(ip)
	return c14Serialize(ip, tcp)
}

// c14EchoReply: ICMP echo reply from the target with the driver's identifier, seq = ttl.
func c14EchoReply(id uint16, ttl uint8) []byte {
	return c14Serialize(c14IP(c14Target.Addr(), c14Local.Addr(), layers.IPProtocolICMPv4, 8),
		&layers.ICMPv4{TypeCode: layers.CreateICMPv4TypeCode(layers.ICMPv4TypeEchoReply, 0), Id: id, Seq: uint16(ttl)},
		gopacket.Payload([]byte{ttl}))
}

// c14UDPTimeExceeded: ICMP time-exceeded from a router quoting the UDP probe with IP id 41821+ttl;
// for the last TTL a port-unreachable from the target (destination reply).
func c14UDPTimeExceeded(ttl, maxTTL uint8) []byte {
	inIP := c14IP(c14Local.Addr(), c14Target.Addr(), layers.IPProtocolUDP, 41821+uint16(ttl))
	inUDP := &layers.UDP{SrcPort: layers.UDPPort(c14Local.Port()), DstPort: layers.UDPPort(c14Target.Port())}
	inUDP.SetNetworkLayerForChecksum(inIP)
	inner := c14Serialize(inIP, inUDP, gopacket.Payload([]byte("NSMNC\x00\x00\x00")))
	from, tc := netip.AddrFrom4([4]byte{10, 0, 0, ttl}), layers.CreateICMPv4TypeCode(layers.ICMPv4TypeTimeExceeded, layers.ICMPv4CodeTTLExceeded)
	if ttl == maxTTL {
		from, tc = c14Target.Addr(), layers.CreateICMPv4TypeCode(layers.ICMPv4TypeDestinationUnreachable, layers.ICMPv4CodePort)
	}
	return c14Serialize(c14IP(from, c14Local.Addr(), layers.IPProtocolICMPv4, 9), &layers.ICMPv4{TypeCode: tc}, gopacket.Payload(inner))
}

var (
	c14Local6  = netip.MustParseAddr("2001:db8::10")
	c14Target6 = netip.MustParseAddr("2001:db8:9::9")
)

// c14Icmp6TimeExceeded: ICMPv6 time-exceeded from a router quoting our echo request (id, seq = ttl);
// for the last TTL an echo reply from the target.
func c14Icmp6TimeExceeded(id uint16, ttl, maxTTL uint8) []byte {
	rest := [4]byte{byte(id >> 8), byte(id), 0, ttl}
	if ttl == maxTTL {
		return ip6Packet(c14Target6, c14Local6, 58, 60, icmp6Msg(c14Target6, c14Local6, 129, 0, rest, []byte{ttl}))
	}
	q := ip6Packet(c14Local6, c14Target6, 58, 1, icmp6Msg(c14Local6, c14Target6, 128, 0, rest, []byte{ttl}))
	from := netip.MustParseAddr(fmt.Sprintf("fd00:14::%x", ttl))
	return ip6Packet(from, c14Local6, 58, 60, icmp6Msg(from, c14Local6, 3, 0, [4]byte{}, q))
}

// ---- one run of a real driver under the real parallel engine -------------------------------------

type c14Stats struct{ runs, sends, reads, accepted int }

func (a *c14Stats) add(b c14Stats) {
	a.runs, a.sends, a.reads, a.accepted = a.runs+b.runs, a.sends+b.sends, a.reads+b.reads, a.accepted+b.accepted
}

func c14EngineParams(r *hx.RNG, maxTTL uint8) common.TracerouteParallelParams {
	return common.TracerouteParallelParams{TracerouteParams: common.TracerouteParams{MinTTL: 1, MaxTTL: maxTTL,
		TracerouteTimeout: time.Duration(r.Range(4, 12)) * time.Millisecond, PollFrequency: time.Millisecond,
		SendDelay: time.Duration(r.Range(20, 400)) * time.Microsecond}}
}

// c14Order: the reply order on the wire — TTLs from..max in descending order (replies for probes
// not yet sent come first), perturbed by the seed, every reply several times (stale duplicates).
// Destination-type replies (SACK ACK, echo reply) stop the sender once accepted, so they start at
// a TTL the sender only reaches after a few probes.
func c14Order(r *hx.RNG, from, maxTTL uint8, mk func(ttl uint8) []byte) [][]byte {
	var out [][]byte
	from = min(from, maxTTL)
	for round := 0; round < 3; round++ {
		for t := int(maxTTL); t >= int(from); t-- {
			ttl := uint8(t)
			if r.Chance(1, 4) {
				ttl = uint8(r.Range(int(from), int(maxTTL)))
			}
			out = append(out, mk(ttl))
		}
	}
	return out
}

// c14Run builds one driver of the given kind over a fresh wire and runs the real engine on it.
func c14Run(r *hx.RNG, kind string) (c14Stats, []*common.ProbeResponse, common.TracerouteParams, error) {
	maxTTL := uint8(r.Range(6, 16))
	pp := c14EngineParams(r, maxTTL)
	src, sink := &c14Source{budget: r.Range(200, 3000)}, &c14Sink{}
	if strings.HasSuffix(kind, "+sendfail") {
		kind = strings.TrimSuffix(kind, "+sendfail")
		sink.failAt = r.Range(2, int(maxTTL))
	}
	var drv common.TracerouteDriver
	switch kind {
	case "sack":
		d, err := sack.VerifNewDriver(sack.Params{Target: c14Target, ParallelParams: pp}, c14Local.Addr(), sink, src)
		if err != nil {
			return c14Stats{}, nil, pp.TracerouteParams, err
		}
		isn := uint32(r.U64())
		sack.VerifSetState(d, sack.VerifState{LocalPort: c14Local.Port(), LocalInitSeq: isn, LocalInitAck: 77})
		src.pkts = c14Order(r, uint8(r.Range(2, 6)), maxTTL, func(ttl uint8) []byte { return c14SackAck(isn, ttl) })
		drv = d
	case "icmp":
		drv = icmp.VerifNewDriver(icmp.Params{Target: c14Target.Addr(), ParallelParams: pp}, c14Local.Addr(), sink, src)
		id := icmp.VerifEchoID(drv)
		src.pkts = c14Order(r, uint8(r.Range(2, 6)), maxTTL, func(ttl uint8) []byte { return c14EchoReply(id, ttl) })
	case "icmp6":
		drv = icmp.VerifNewDriver(icmp.Params{Target: c14Target6, ParallelParams: pp}, c14Local6, sink, src)
		id := icmp.VerifEchoID(drv)
		src.pkts = c14Order(r, 1, maxTTL, func(ttl uint8) []byte { return c14Icmp6TimeExceeded(id, ttl, maxTTL) })
	case "udp":
		cfg := udp.NewUDPv4(net.IP(c14Target.Addr().AsSlice()), c14Target.Port(), 1, maxTTL, pp.SendDelay, pp.TracerouteTimeout, false)
		drv = udp.VerifNewDriver(cfg, net.IP(c14Local.Addr().AsSlice()), c14Local.Port(), sink, src)
		src.pkts = c14Order(r, 1, maxTTL, func(ttl uint8) []byte { return c14UDPTimeExceeded(ttl, maxTTL) })
	default:
		return c14Stats{}, nil, pp.TracerouteParams, fmt.Errorf("unknown driver kind %q", kind)
	}
	packets.AllocPacketID(maxTTL) // the packet-id allocator, as the TCP constructor uses it
	res, err := common.TracerouteParallel(context.Background(), drv, pp)
	if sink.failAt > 0 && errors.Is(err, errC14SendFail) {
		err = nil // the injected failure ends the run with its cause, as it must
	}
	if c, ok := drv.(interface{ Close() }); ok {
		c.Close()
	} else if c, ok := drv.(interface{ Close() error }); ok {
		c.Close()
	}
	st := c14Stats{runs: 1, sends: sink.sent, reads: src.next}
	for _, p := range res {
		if p != nil {
			st.accepted++
		}
	}
	return st, res, pp.TracerouteParams, err
}

// ---- child: one scenario -------------------------------------------------------------------------

type c14Fetcher struct{}

func (c14Fetcher) GetIP(context.Context) (net.IP, error) { return net.IPv4(203, 0, 113, 5), nil }

var c14ControlVar int

// c14FiltersScenario is set on Linux (c14_filters_linux_test.go).
var c14FiltersScenario func(r *hx.RNG) (c14Stats, error)

func c14Child(t *testing.T, scenario string) {
	seed, _ := strconv.ParseUint(os.Getenv("C14_SEED"), 10, 64)
	budgetMs, _ := strconv.Atoi(os.Getenv("C14_BUDGET_MS"))
	r := hx.NewRNG(seed ^ 0xC14)
	end := time.Now().Add(time.Duration(budgetMs) * time.Millisecond)
	var total c14Stats
	fail := func(err error) {
		if err != nil && !errors.Is(err, context.Canceled) && !errors.Is(err, context.DeadlineExceeded) {
			t.Errorf("C14 child %s: %v", scenario, err)
		}
	}
	for first := true; first || time.Now().Before(end); first = false {
		switch scenario {
		case "control": // positive control: an intentional write/write race the detector must report
			var wg sync.WaitGroup
			for i := 0; i < 2; i++ {
				wg.Add(1)
				go func() { defer wg.Done(); c14ControlVar++ }()
			}
			wg.Wait()
			total.runs++
		case "sack", "icmp", "udp", "icmp6":
			st, _, _, err := c14Run(r.Fork(), scenario)
			fail(err)
			total.add(st)
		case "sendfail": // a SendProbe fails while replies (also for that TTL) are being handled
			for _, kind := range []string{"sack", "udp", "icmp", "icmp6"} {
				st, _, _, err := c14Run(r.Fork(), kind+"+sendfail")
				fail(err)
				total.add(st)
			}
		case "concurrent": // K runs at once: per-run state is separate, allocators are shared
			var wg sync.WaitGroup
			stats := make([]c14Stats, 6)
			for k := range stats {
				rk, kind := r.Fork(), []string{"icmp", "udp", "sack", "icmp", "icmp6", "icmp6"}[k]
				wg.Add(1)
				go func() {
					defer wg.Done()
					st, _, _, err := c14Run(rk, kind)
					fail(err)
					stats[k] = st
				}()
			}
			wg.Wait()
			for _, st := range stats {
				total.add(st)
			}
		case "filters": // concurrent capture-filter configuration on separate real sources
			if c14FiltersScenario == nil {
				total.runs++
				break
			}
			st, err := c14FiltersScenario(r.Fork())
			if err != nil {
				t.Errorf("C14 child filters: %v", err)
			}
			total.add(st)
		case "multi": // the real runTracerouteMulti + EnrichWithReverseDns -> GetReverseDnsForIPs
			it, base := total.runs, r.U64()
			// the stubs share nothing with each other (no harness-made happens-before between runs)
			traceroute.VerifSetRunOnce(func(ctx context.Context, p traceroute.TracerouteParams, port int) (*result.TracerouteRun, error) {
				rk := hx.NewRNG(base ^ uint64(time.Now().UnixNano()))
				if rk.Chance(1, 6) {
					return nil, errors.New("c14: injected run failure")
				}
				_, res, tp, err := c14Run(rk, hx.Pick(rk, []string{"udp", "icmp"}))
				if err != nil {
					return nil, err
				}
				hops, err := common.ToHops(tp, res)
				for _, h := range hops { // distinct addresses per iteration: reverse-DNS cache misses
					if len(h.IPAddress) == 4 {
						h.IPAddress[1], h.IPAddress[2] = byte(it), byte(it>>8)
					}
				}
				return &result.TracerouteRun{Hops: hops, Destination: result.TracerouteDestination{IPAddress: net.IP(c14Target.Addr().AsSlice())}}, err
			})
			reversedns.LookupAddrFn = func(_ context.Context, addr string) ([]string, error) {
				if strings.HasSuffix(addr, ".3") {
					return nil, errors.New("c14: no such host")
				}
				return []string{"host-" + addr + ".example."}, nil
			}
			tr := traceroute.VerifNewTraceroute(c14Fetcher{})
			res, err := tr.RunTraceroute(context.Background(), traceroute.TracerouteParams{Hostname: c14Target.Addr().String(), Port: 443,
				Protocol: "udp", MinTTL: 1, MaxTTL: 8, Timeout: 2 * time.Millisecond, TracerouteQueries: r.Range(2, 5), E2eQueries: r.Range(0, 3),
				ReverseDns: true, CollectSourcePublicIP: r.Chance(3, 4)})
			traceroute.VerifSetRunOnce(nil)
			total.runs++ // one aggregation
			if res != nil {
				total.accepted += len(res.Traceroute.Runs)
			}
			if err != nil && !strings.Contains(err.Error(), "c14: injected") {
				fail(err)
			}
		default:
			t.Fatalf("unknown C14 scenario %q", scenario)
		}
	}
	fmt.Printf("C14-CHILD scenario=%s seed=%d runs=%d sends=%d reads=%d accepted=%d\n", scenario, seed, total.runs, total.sends, total.reads, total.accepted)
}

// ---- parent: run the children, turn race reports into violations --------------------------------

var (
	c14AccessRe = regexp.MustCompile(`(?m)^(Write|Read|Previous write|Previous read|Atomic[^\n]*?) at 0x[0-9a-f]+ by [^\n]*:\n((?:  [^\n]*\n)+)`)
	c14FrameRe  = regexp.MustCompile(`(?m)^  (\S+)\(\)\n      (\S+):(\d+)`)
	c14SelRe    = regexp.MustCompile(`\b\w+\.(\w+)`)
	c14OwnerRe  = regexp.MustCompile(`\.\(\*?(\w+)\)\.|\.(\w+)\.func\d`) // receiver type, or the function enclosing a closure
)

// c14Location names what the two racing accesses touch: the field selected in both source lines
// of the first repository frame of each stack, qualified by the receiver type (or enclosing
// function), e.g. "sackDriver.sendTimes"; falls back to the two sites.
func c14Location(stacks []string) string {
	var lines, owners, sites []string
	for _, st := range stacks {
		for _, fr := range c14FrameRe.FindAllStringSubmatch(st, -1) {
			if !strings.Contains(fr[1], "datadog-traceroute/") {
				continue // runtime / library frame
			}
			sites = append(sites, fr[2][strings.LastIndex(fr[2], "/")+1:]+":"+fr[3])
			if o := c14OwnerRe.FindStringSubmatch(fr[1]); o != nil {
				owners = append(owners, o[1]+o[2])
			}
			n, _ := strconv.Atoi(fr[3])
			src, _ := os.ReadFile(fr[2])
			if ls := strings.Split(string(src), "\n"); n >= 1 && n <= len(ls) {
				lines = append(lines, ls[n-1])
			}
			break
		}
	}
	if len(lines) == 2 && len(owners) > 0 {
		for _, a := range c14SelRe.FindAllStringSubmatch(lines[0], -1) {
			for _, b := range c14SelRe.FindAllStringSubmatch(lines[1], -1) {
				if a[1] == b[1] {
					return owners[0] + "." + a[1]
				}
			}
		}
	}
	return strings.Join(sites, "|")
}

func TestC14(t *testing.T) {
	if sc := os.Getenv("C14_SCENARIO"); sc != "" {
		c14Child(t, sc)
		return
	}
	env := hx.GetEnv()
	rep := hx.NewReport("C14", env, "one case = one run of a real driver under the real TracerouteParallel (on average >= 2 sends and >= 1 receiver read per run; scenario multi: one real runTracerouteMulti aggregation) in a child process built with -race; distinct by scenario, seed and run index")
	defer rep.Write()
	exe, err := os.Executable()
	if err != nil {
		t.Fatal(err)
	}
	runChild := func(scenario string, seed uint64, budget time.Duration) (out, errOut string, exit int) {
		cmd := exec.Command(exe, "-test.run", "^TestC14$", "-test.count=1", "-test.timeout=300s")
		cmd.Env = append(os.Environ(), "C14_SCENARIO="+scenario, fmt.Sprintf("C14_SEED=%d", seed),
			fmt.Sprintf("C14_BUDGET_MS=%d", budget.Milliseconds()), "GORACE=halt_on_error=1 exitcode=66")
		var so, se bytes.Buffer
		cmd.Stdout, cmd.Stderr = &so, &se
		if err := cmd.Run(); err != nil {
			exit = -1
			var ee *exec.ExitError
			if errors.As(err, &ee) {
				exit = ee.ExitCode()
			}
		}
		return so.String(), se.String(), exit
	}
	// positive control: the detector must see an intentional race
	if _, se, _ := runChild("control", 1, 0); !strings.Contains(se, "WARNING: DATA RACE") {
		rep.Violate(hx.Violation{Kind: "tie", NoInput: true, What: "race detector inactive: the intentional race of the control scenario was not reported (harness must be built with -race)",
			Sig: map[string]string{"location": "control"}})
		t.Fatal("C14: control race not reported; is the test binary built with -race?")
	}
	rep.Hit("control:race-reported")
	scenarios := []string{"sack", "icmp", "udp", "icmp6", "sendfail", "concurrent", "multi", "filters"}
	budget, rounds, deadline := 1500*time.Millisecond, 2, time.Now().Add(time.Hour)
	if env.Thorough() {
		budget, rounds, deadline = 5*time.Second, 1<<30, time.Now().Add(10*time.Minute)
	}
	reported := map[string]bool{}
	for round := 0; round < rounds && time.Now().Before(deadline); round++ {
		if round >= 2 && len(reported) > 0 {
			break // a race with its replay is in hand: no need to soak
		}
		for si, sc := range scenarios {
			seed := env.Seed*1000003 + uint64(round)*131 + uint64(si)
			so, se, exit := runChild(sc, seed, budget)
			var runs, sends, reads, accepted int
			if i := strings.Index(so, "C14-CHILD "); i >= 0 {
				var s2 string
				var sd uint64
				fmt.Sscanf(so[i:], "C14-CHILD scenario=%s seed=%d runs=%d sends=%d reads=%d accepted=%d", &s2, &sd, &runs, &sends, &reads, &accepted)
			}
			for i := 0; i < max(runs, 1); i++ {
				rep.Case(sc, fmt.Sprintf("%d/%d", seed, i), runs > 0 && (sc == "multi" || sc == "filters" || sends >= 2*runs && reads >= runs),
					map[string]any{"scenario": sc, "seed": seed, "runs": runs, "sends": sends, "receiver_reads": reads, "accepted": accepted})
			}
			rep.Hit("scenario:" + sc)
			if accepted > 0 {
				rep.Hit("accepted-replies:" + sc)
			}
			if strings.Contains(se, "WARNING: DATA RACE") {
				var stacks []string
				for _, m := range c14AccessRe.FindAllStringSubmatch(se, 2) {
					stacks = append(stacks, m[1]+":\n"+m[2])
				}
				loc := c14Location(stacks)
				rep.Hit("race:" + loc)
				if !reported[loc] {
					reported[loc] = true
					if len(se) > 6000 {
						se = se[:6000] + "\n…"
					}
					rep.Violate(hx.Violation{Kind: "spec", What: "data race on " + loc + " (Go race detector, scenario " + sc + ")",
						Sig: map[string]string{"location": loc},
						Replay: map[string]any{"scenario": sc, "child_seed": seed, "stacks": stacks, "race_report": se,
							"rerun": fmt.Sprintf("C14_SCENARIO=%s C14_SEED=%d C14_BUDGET_MS=%d GORACE='halt_on_error=1 exitcode=66' %s -test.run '^TestC14$'", sc, seed, budget.Milliseconds(), exe)}})
				}
			} else if exit != 0 && sc == "filters" && strings.Contains(so+se, "C14 child filters:") {
				msg := so + se
				if i := strings.Index(msg, "C14 child filters:"); i >= 0 {
					msg = strings.SplitN(msg[i:], "\n", 2)[0]
				}
				rep.Violate(hx.Violation{Kind: "spec", What: "concurrent runs configuring their capture filters interfere (shared state in the filter construction): " + msg,
					Sig:    map[string]string{"location": "capture-filter construction"},
					Replay: map[string]any{"scenario": sc, "child_seed": seed, "output": msg,
						"rerun": fmt.Sprintf("C14_SCENARIO=%s C14_SEED=%d C14_BUDGET_MS=%d %s -test.run '^TestC14$'", sc, seed, budget.Milliseconds(), exe)}})
			} else if exit != 0 {
				rep.Note("child %s seed %d exited %d without a race report: %s", sc, seed, exit, strings.TrimSpace(so+se))
				t.Errorf("C14 child %s seed %d failed (exit %d) without a race report:\n%s\n%s", sc, seed, exit, so, se)
			}
		}
	}
	if rep.Failed() {
		t.Fail()
	}
}
