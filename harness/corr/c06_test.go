package corr

// C06: probe emission. (1) byte-exact tie of every probe the REAL drivers hand to the sink with
// the Lean builders, for every TTL of the run, plus the Lean well-formedness predicate and an
// independent Go checksum verifier evaluated on the real bytes, plus identifier uniqueness;
// (2) order / pacing / stop-after-destination of the real engines over the simulated wire under
// the virtual clock; (3) reported endpoints = endpoints on the wire (public entry points over
// the NewSourceSink seam).

import (
	"context"
	"encoding/binary"
	"fmt"
	"net"
	"net/netip"
	"strings"
	"testing"
	"testing/synctest"
	"time"

	"github.com/DataDog/datadog-traceroute/common"
	"github.com/DataDog/datadog-traceroute/icmp"
	"github.com/DataDog/datadog-traceroute/packets"
	"github.com/DataDog/datadog-traceroute/tcp"
	"github.com/DataDog/datadog-traceroute/udp"

	"verifharness/hx"
)

// c06VerifyGo is an independent (Go, hand-rolled) verifier of lengths and checksums.
func c06VerifyGo(p []byte, c drvCfg, ttl int) string {
	if len(p) < 20 {
		return "shorter than an IP header"
	}
	if !c.v6() {
		if p[0] != 0x45 {
			return fmt.Sprintf("version/IHL byte %#x", p[0])
		}
		if int(binary.BigEndian.Uint16(p[2:])) != len(p) {
			return "IPv4 total length != actual length"
		}
		if int(p[8]) != ttl {
			return fmt.Sprintf("TTL %d != %d", p[8], ttl)
		}
		if csumFold(csumAdd(0, p[:20])) != 0 {
			return "IPv4 header checksum does not verify"
		}
		if netip.AddrFrom4([4]byte(p[12:16])) != c.Local || netip.AddrFrom4([4]byte(p[16:20])) != c.Target {
			return "addresses differ from the configuration"
		}
		l4 := p[20:]
		switch p[9] {
		case 1:
			if csumFold(csumAdd(0, l4)) != 0 {
				return "ICMP checksum does not verify"
			}
		case 6, 17:
			if csumFold(csumAdd(pseudoSum(c.Local, c.Target, p[9], len(l4)), l4)) != 0 {
				return "transport checksum does not verify"
			}
			if binary.BigEndian.Uint16(l4[0:]) != c.LPort || binary.BigEndian.Uint16(l4[2:]) != c.TPort {
				return "ports differ from the configuration"
			}
		default:
			return fmt.Sprintf("unexpected protocol %d", p[9])
		}
		return ""
	}
	if len(p) < 40 || p[0]>>4 != 6 {
		return "not an IPv6 packet"
	}
	if int(binary.BigEndian.Uint16(p[4:])) != len(p)-40 {
		return "IPv6 payload length != actual length"
	}
	if int(p[7]) != ttl {
		return fmt.Sprintf("hop limit %d != %d", p[7], ttl)
	}
	if netip.AddrFrom16([16]byte(p[8:24])) != c.Local || netip.AddrFrom16([16]byte(p[24:40])) != c.Target {
		return "addresses differ from the configuration"
	}
	l4 := p[40:]
	if csumFold(csumAdd(pseudoSum(c.Local, c.Target, p[6], len(l4)), l4)) != 0 {
		return "transport checksum does not verify"
	}
	if p[6] == 17 && (binary.BigEndian.Uint16(l4[0:]) != c.LPort || binary.BigEndian.Uint16(l4[2:]) != c.TPort) {
		return "ports differ from the configuration"
	}
	return ""
}

// c06ProbeID extracts the per-probe identifier a router would quote back.
func c06ProbeID(p []byte, c drvCfg) string {
	switch c.kind() {
	case "icmp":
		if c.v6() {
			return fmt.Sprint(binary.BigEndian.Uint16(p[46:]))
		}
		return fmt.Sprint(binary.BigEndian.Uint16(p[26:]))
	case "udp":
		if c.v6() {
			return fmt.Sprint(binary.BigEndian.Uint16(p[4:]))
		}
		return fmt.Sprint(binary.BigEndian.Uint16(p[4:]))
	case "tcp":
		return fmt.Sprintf("%d/%d", binary.BigEndian.Uint16(p[4:]), binary.BigEndian.Uint32(p[24:]))
	default:
		return fmt.Sprint(binary.BigEndian.Uint32(p[24:]))
	}
}

// scriptedNet answers probes written to a memWire: routers (time-exceeded) below destHop, the
// destination at destHop and beyond; per-hop delays; silent hops.
type scriptedNet struct {
	cfg     drvCfg
	destHop int
	delay   func(ttl int) time.Duration
	silent  map[int]bool
	wire    *memWire
	dup     map[int]time.Duration // extra duplicate of hop ttl after this additional delay
	// routerFirst: the probe with TTL destHop is answered TWICE — a router's time-exceeded (a copy of the
	// probe that expired one hop earlier on another path) this long BEFORE the destination's own answer
	routerFirst time.Duration
}

func (n *scriptedNet) attach() {
	forms := catalogueFor(n.cfg.kind(), n.cfg.v6())
	var te, dst replyForm
	for _, f := range forms {
		if f.Kind == "te" && te.Name == "" {
			te = f
		}
		if f.Kind != "te" && dst.Name == "" && !f.NATAddr && !f.NATPort {
			dst = f
		}
	}
	n.wire.onWrite = func(p []byte, _ netip.AddrPort) {
		ttl := int(p[8])
		if n.cfg.v6() {
			ttl = int(p[7])
		}
		if n.silent[ttl] {
			return
		}
		var pkt []byte
		if ttl < n.destHop {
			r := netip.MustParseAddr(fmt.Sprintf("10.77.%d.1", ttl))
			if n.cfg.v6() {
				r = netip.MustParseAddr(fmt.Sprintf("fd00:77::%x", ttl))
			}
			pkt = te.encode(n.cfg.flow(), p, r, ttl, seqOfProbe(p))
		} else {
			pkt = dst.encode(n.cfg.flow(), p, n.cfg.Target, ttl, seqOfProbe(p))
		}
		d := n.delay(ttl)
		if ttl == n.destHop && n.routerFirst > 0 && n.routerFirst < d {
			r := netip.MustParseAddr(fmt.Sprintf("10.77.%d.1", ttl))
			if n.cfg.v6() {
				r = netip.MustParseAddr(fmt.Sprintf("fd00:77::%x", ttl))
			}
			early := te.encode(n.cfg.flow(), p, r, ttl, seqOfProbe(p))
			time.AfterFunc(d-n.routerFirst, func() { n.wire.Inject(early) })
		}
		time.AfterFunc(d, func() { n.wire.Inject(pkt) })
		if extra, ok := n.dup[ttl]; ok {
			time.AfterFunc(d+extra, func() { n.wire.Inject(pkt) })
		}
	}
}

func TestC06(t *testing.T) {
	env := hx.GetEnv()
	rep := hx.NewReport("C06", env, "stream bytes: every probe of a run (all TTLs min..max) written by the REAL driver vs the Lean builder, judged by Spec.wf* and an independent Go verifier; "+
		"stream engine: real engine + real driver over the simulated wire under the virtual clock (order, pacing, stop after the destination answer); stream endpoints: public entry points over the seam; "+
		"one evaluation = one emitted probe; non-trivial = every probe; distinct by bytes")
	defer rep.Write()
	rng := hx.NewRNG(env.Seed ^ 0xC06)
	orc := hx.NewOracle()

	// (1) bytes ------------------------------------------------------------------------------
	type item struct {
		c     drvCfg
		steps []drvStep
	}
	var items []item
	for _, v := range allVariants {
		for i := 0; i < env.Scale(12, 400); i++ {
			c := genCfg(rng, v)
			if i%4 == 0 {
				c.Min, c.Max = 1, 255 // exhaustive over the TTL range
			}
			var ops []drvOp
			for ttl := c.Min; ttl <= c.Max; ttl++ {
				ops = append(ops, drvOp{Send: true, TTL: ttl, Gap: time.Millisecond})
			}
			items = append(items, item{c, runDrvCase(t, c, ops)})
		}
	}
	lines := make([]string, 0, 2*len(items))
	for _, it := range items {
		lines = append(lines, drvLine(it.c, it.steps))
		toks := make([]string, len(it.steps))
		for k, st := range it.steps {
			toks[k] = fmt.Sprintf("k:%s:%d", hx2(st.Written), st.Op.TTL)
			if it.c.Variant == "tcp-paris" && len(st.Written) >= 28 {
				toks[k] += fmt.Sprintf(":%d", binary.BigEndian.Uint32(st.Written[24:28]))
			}
		}
		lines = append(lines, it.c.oraclePrefix()+" "+strings.Join(toks, " "))
	}
	ans, err := orc.Batch(lines)
	if err != nil {
		t.Fatalf("oracle: %v", err)
	}
	for i, it := range items {
		model := strings.Split(ans[2*i], " ")
		wf := strings.Split(ans[2*i+1], " ")
		ids := map[string]int{}
		for k, st := range it.steps {
			rep.Hit(it.c.Variant + ":" + summariseOutcome(st.Impl))
			rep.Case("bytes/"+it.c.Variant, st.Impl, true, map[string]any{"variant": it.c.Variant, "config": it.c.oraclePrefix(), "ttl": st.Op.TTL, "probe": hx2(st.Written)})
			replay := map[string]any{"variant": it.c.Variant, "config": it.c.oraclePrefix(), "ttl": st.Op.TTL, "probe": hx2(st.Written), "impl": st.Impl}
			if !strings.HasPrefix(st.Impl, "w:") {
				rep.Violate(hx.Violation{Kind: "spec", What: "SendProbe failed or panicked for an in-range TTL: " + st.Impl, Sig: map[string]string{"variant": it.c.Variant, "stream": "bytes"}, Replay: replay})
				break
			}
			bad := c06VerifyGo(st.Written, it.c, st.Op.TTL)
			if bad == "" && k < len(wf) && wf[k] != "q:1" {
				bad = "Spec.wf* (Lean) is false on the emitted probe"
			}
			id := c06ProbeID(st.Written, it.c)
			if prev, dup := ids[id]; dup && bad == "" {
				bad = fmt.Sprintf("per-probe identifier %s shared by TTL %d and TTL %d", id, prev, st.Op.TTL)
			}
			ids[id] = st.Op.TTL
			if bad != "" {
				rep.Violate(hx.Violation{Kind: "spec", What: "malformed probe: " + bad, Sig: map[string]string{"variant": it.c.Variant, "stream": "bytes"}, Replay: replay})
				break
			}
			if k < len(model) && model[k] != st.Impl {
				replay["model"] = model[k]
				replay["broken"] = "correspondence stream build/" + it.c.Variant + " (Lean TRV.Build vs the real serializer)"
				rep.Violate(hx.Violation{Kind: "correspondence", NoInput: true, What: "probe bytes differ from the Lean builder (" + it.c.Variant + ") although the probe is well-formed",
					Sig: map[string]string{"variant": it.c.Variant, "stream": "build"}, Replay: replay})
				break
			}
		}
	}

	// (2) engine: order, pacing, stop after destination ------------------------------------------
	for _, v := range []string{"icmp4", "icmp6", "udp4", "udp6", "sack", "tcp", "tcp-paris"} {
		for i := 0; i < env.Scale(25, 600); i++ {
			c := genCfg(rng, v)
			c.Min = rng.Range(1, 3)
			c.Max = c.Min + rng.Range(2, 27)
			destHop := rng.Range(c.Min, c.Max+3)
			delayMs := rng.Range(1, 60)
			sendDelay := time.Duration(rng.Range(0, 50)) * time.Millisecond
			base := rng.Range(1, 40)
			jit := rng.Range(0, 200)
			silent := map[int]bool{}
			for k := rng.Intn(3); k > 0; k-- {
				silent[rng.Range(c.Min, c.Max)] = true
			}
			delete(silent, destHop)
			// duplicates of some router replies, delivered later (for the serial engine: while it waits for
			// a later TTL or sleeps between two probes) — emission must stay ordered and paced
			dup := map[int]time.Duration{}
			if rng.Chance(1, 2) {
				for k := rng.Range(1, 3); k > 0; k-- {
					dup[rng.Range(c.Min, c.Max)] = time.Duration(rng.Range(1, 80))*time.Millisecond + sendDelay/2 + time.Duration(rng.Range(1, 999))*time.Microsecond
				}
			}
			// the first destination answer of the run lands on a slot a router's answer already filled
			routerFirst := time.Duration(0)
			if i%3 == 1 {
				routerFirst = time.Duration(rng.Range(100, 900)) * time.Microsecond
			}
			// serial engine: the destination's answer is read by the poll that STRADDLES the per-TTL time-out
			// (the last ReceiveProbe call starts before the time-out and returns the answer after it)
			straddle := time.Duration(0)
			if strings.HasPrefix(v, "tcp") && i%3 == 2 && destHop <= c.Max {
				delayMs |= 1 // time-out = 10 ms mod 20 ms: the last poll ends 10 ms after it
				straddle = time.Duration(rng.Range(1, 9))*time.Millisecond + 137*time.Microsecond
				routerFirst = 0
				dup = map[int]time.Duration{}
			}
			var writes []wireWrite
			var runErr error
			var hops []*common.ProbeResponse
			var destSeenAt time.Duration = -1 // the destination answer was DELIVERED to the capture handle
			var destReadAt time.Duration = -1 // the engine SAW it (ReceiveProbe returned it)
			synctest.Test(t, func(t *testing.T) {
				wire := newMemWire()
				wire.blockWhenEmpty = true
				inner, err := newDriver(c, wire)
				if err != nil {
					t.Fatal(err)
				}
				d := &c05Tap{inner: inner, start: wire.log.start}
				defer func() {
					d.mu.Lock()
					for _, a := range d.accepts {
						if a.Dest && destReadAt < 0 {
							destReadAt = a.ReadAt
						}
					}
					d.mu.Unlock()
				}()
				net := &scriptedNet{cfg: c, destHop: destHop, silent: silent, wire: wire, dup: dup, routerFirst: routerFirst,
					delay: func(ttl int) time.Duration {
						if straddle > 0 && ttl == destHop {
							return time.Duration(delayMs*10+200)*time.Millisecond + straddle
						}
						return time.Duration(base+(ttl*jit)%97)*time.Millisecond + time.Duration(ttl*13+7)*time.Microsecond
					}}
				net.attach()
				params := common.TracerouteParams{MinTTL: uint8(c.Min), MaxTTL: uint8(c.Max), TracerouteTimeout: time.Duration(delayMs*10+200) * time.Millisecond,
					PollFrequency: 20 * time.Millisecond, SendDelay: sendDelay}
				if strings.HasPrefix(v, "tcp") {
					hops, runErr = common.TracerouteSerial(context.Background(), d, common.TracerouteSerialParams{TracerouteParams: params})
				} else {
					hops, runErr = common.TracerouteParallel(context.Background(), d, common.TracerouteParallelParams{TracerouteParams: params})
				}
				wire.log.mu.Lock()
				writes = append(writes, wire.log.writes...)
				wire.log.mu.Unlock()
				// when did the destination reply become visible to the receiver? (delivery time)
				if destHop <= c.Max && !silent[destHop] {
					for _, w := range writes {
						ttl := int(w.Pkt[8])
						if c.v6() {
							ttl = int(w.Pkt[7])
						}
						if ttl >= destHop && !silent[ttl] {
							at := w.At + net.delay(ttl)
							if destSeenAt < 0 || at < destSeenAt {
								destSeenAt = at
							}
						}
					}
				}
			})
			replay := map[string]any{"variant": v, "config": c.oraclePrefix(), "dest_hop": destHop, "send_delay": sendDelay.String(), "silent": fmt.Sprint(silent), "duplicates_after": fmt.Sprint(dup), "router_answer_before_destination_answer_same_ttl": routerFirst.String(), "destination_answer_after_the_ttl_timeout_by": straddle.String()}
			var ttls []int
			bad := ""
			for k, w := range writes {
				ttl := int(w.Pkt[8])
				if c.v6() {
					ttl = int(w.Pkt[7])
				}
				ttls = append(ttls, ttl)
				if ttl != c.Min+k {
					bad = fmt.Sprintf("probe #%d has TTL %d, expected %d (increasing from the first TTL, one per TTL)", k, ttl, c.Min+k)
				}
				if k > 0 && w.At-writes[k-1].At < sendDelay {
					bad = fmt.Sprintf("probes %d and %d are %s apart, less than the configured delay %s", k-1, k, w.At-writes[k-1].At, sendDelay)
				}
				rep.Case("engine/"+v, fmt.Sprintf("%s|%d|%d|%d", c.oraclePrefix(), destHop, k, w.At), true, nil)
			}
			replay["ttls"] = ttls
			if runErr != nil {
				bad = "engine run failed: " + runErr.Error()
			}
			after := 0
			if destReadAt >= 0 {
				afterRead := 0
				for _, w := range writes {
					if w.At > destReadAt {
						afterRead++
					}
				}
				// sends are instantaneous on this wire, so no probe can be "in flight" when the answer is
				// seen: a probe that leaves at a later (virtual) instant was sent after the engine knew
				if afterRead > 0 {
					bad = fmt.Sprintf("%d probe(s) emitted after the engine had seen the destination answer at %s — none was in flight at that instant (the sends of this run return at once)", afterRead, destReadAt)
				}
			}
			if destSeenAt >= 0 {
				for _, w := range writes {
					if w.At > destSeenAt {
						after++
					}
				}
				// without late duplicates the engine is reading whenever a reply arrives: delivered = seen.
				// (A late duplicate read by the serial engine ends a window, and the answer waits in the
				// queue while the next probe goes out: then only the instant the engine saw it counts.)
				if after > 1 && len(dup) == 0 && routerFirst == 0 {
					bad = fmt.Sprintf("%d probes emitted after the destination answer was delivered at %s (at most one in flight allowed)", after, destSeenAt)
				}
			} else if len(writes) != c.Max-c.Min+1 && runErr == nil {
				bad = fmt.Sprintf("destination never answered but only %d of %d TTLs were probed", len(writes), c.Max-c.Min+1)
			}
			_ = hops
			rep.Hit(fmt.Sprintf("engine:%s:after-dest=%d", v, after))
			rep.Hit(fmt.Sprintf("engine:router-first=%v", routerFirst > 0))
			rep.Hit(fmt.Sprintf("engine:straddle=%v:dest-read=%v", straddle > 0, destReadAt >= 0))
			if bad != "" {
				rep.Violate(hx.Violation{Kind: "spec", What: "emission discipline violated: " + bad, Sig: map[string]string{"variant": v, "stream": "engine"}, Replay: replay})
			}
		}
	}

	// (2b) pacing with slow sends: scripted driver whose SendProbe calls take scripted (sometimes long)
	// durations; consecutive emissions must still be at least the configured delay apart and in order
	for i := 0; i < env.Scale(400, 8000); i++ {
		eng := []string{"par", "ser"}[i%2]
		c := engCase{Engine: eng, Parallel: true, SendErrAt: -1, Min: rng.Range(1, 3), Timeout: time.Duration(rng.Range(50, 400)) * time.Millisecond,
			Delay: time.Duration(rng.Range(1, 60)) * time.Millisecond, Poll: 20 * time.Millisecond}
		c.Max = c.Min + rng.Range(1, 8)
		switch i % 8 {
		case 2, 3:
			// the per-TTL listening time is shorter than the send delay and nothing answers: only the
			// delay keeps the serial engine's probes apart
			c.Timeout = time.Duration(rng.Range(5, 40)) * time.Millisecond
			c.Delay = c.Timeout + time.Duration(rng.Range(20, 200))*time.Millisecond
			c.Poll = time.Duration(rng.Range(2, 10)) * time.Millisecond
		case 4, 5:
			// the run ends at TTL 255, the last value the 8-bit TTL can take: exactly Min..255, once each
			c.Max = 255
			c.Min = rng.Range(247, 254)
		}
		for k := 0; k <= c.Max-c.Min; k++ {
			d := time.Duration(0)
			switch rng.Intn(4) {
			case 0:
				d = c.Delay*time.Duration(rng.Range(1, 4)) + time.Duration(rng.Range(1, 999))*time.Microsecond // slower than the delay
			case 1:
				d = time.Duration(rng.Range(1, 900)) * time.Microsecond
			}
			c.SendDurs = append(c.SendDurs, d)
		}
		o := runEngineCase(t, c)
		bad := ""
		for k := range o.Sends {
			if int(o.Sends[k]) != c.Min+k {
				bad = fmt.Sprintf("probe #%d has TTL %d, expected %d", k, o.Sends[k], c.Min+k)
			}
			if k > 0 && o.SendAt[k]-o.SendAt[k-1] < c.Delay {
				bad = fmt.Sprintf("probes for TTL %d and %d were emitted %s apart, less than the configured delay %s (SendProbe durations %v)", o.Sends[k-1], o.Sends[k], o.SendAt[k]-o.SendAt[k-1], c.Delay, c.SendDurs)
			}
		}
		if bad == "" && eng == "ser" && strings.HasPrefix(o.Res, "ok") && len(o.Sends) != c.Max-c.Min+1 { // (the parallel sender stops at the overall timeout)
			bad = fmt.Sprintf("nothing answered, yet %d probes were emitted for the %d TTLs %d..%d", len(o.Sends), c.Max-c.Min+1, c.Min, c.Max)
		}
		rep.Case("pacing/"+eng, fmt.Sprintf("%d|%d|%v|%v|%v", c.Min, c.Max, c.Delay, c.Timeout, c.SendDurs), true, nil)
		rep.Hit(fmt.Sprintf("pacing:%s:max255=%v:timeout<delay=%v", eng, c.Max == 255, c.Timeout < c.Delay))
		if bad != "" {
			rep.Violate(hx.Violation{Kind: "spec", What: "emission discipline violated: " + bad, Sig: map[string]string{"stream": "pacing", "engine": eng},
				Replay: map[string]any{"engine": eng, "min": c.Min, "max": c.Max, "delay": c.Delay.String(), "send_durations": fmt.Sprint(c.SendDurs), "send_at": fmt.Sprint(o.SendAt)}})
		}
	}

	// (2c) the bytes handed to the sink belong to the probe until the write returns: while run A's
	// write is in progress another run of the same process (same variant, its own driver and wire)
	// builds and sends a probe of its own — A's buffer must not change under the sink's hands
	// (builders that recycle their serialisation buffers too early hand out bytes they no longer own)
	for _, v := range []string{"icmp4", "icmp6", "udp4", "udp6", "sack", "tcp", "tcp-paris"} {
		for i := 0; i < env.Scale(6, 60); i++ {
			ca, cb := genCfg(rng, v), genCfg(rng, v)
			ca.Min, ca.Max, cb.Min, cb.Max = 1, 30, 1, 30
			var clob []string
			var wroteB int
			synctest.Test(t, func(t *testing.T) {
				wa, wb := newMemWire(), newMemWire()
				da, errA := newDriver(ca, wa)
				db, errB := newDriver(cb, wb)
				if errA != nil || errB != nil {
					t.Fatalf("driver construction failed: %v %v", errA, errB)
				}
				next := 1
				wa.onWrite = func([]byte, netip.AddrPort) {
					if next <= 30 {
						_ = db.SendProbe(uint8(next)) // run B sends while A's write is in progress
						next++
					}
				}
				for ttl := 1; ttl <= 12; ttl++ {
					_ = da.SendProbe(uint8(ttl))
				}
				wa.mu.Lock()
				clob = append(clob, wa.clobbered...)
				wa.mu.Unlock()
				wroteB = wb.writeCount()
			})
			rep.Case("reentrant/"+v, fmt.Sprint(ca.oraclePrefix(), cb.oraclePrefix()), true, nil)
			rep.Hit(fmt.Sprintf("reentrant:%s:b-wrote=%v", v, wroteB > 0))
			if len(clob) > 0 {
				rep.Violate(hx.Violation{Kind: "spec", What: "a probe changed while it was being written: another run of the process sent a probe of its own during the write, and the buffer handed to the sink was overwritten (" + clob[0] + ")",
					Sig: map[string]string{"variant": v, "stream": "reentrant"}, Replay: map[string]any{"variant": v, "run_a": ca.oraclePrefix(), "run_b": cb.oraclePrefix(), "clobbered": clob}})
			}
		}
	}

	// (3) endpoints reported = endpoints on the wire ----------------------------------------------
	c06Endpoints(t, rep, rng, env)

	if rep.Failed() {
		t.Fail()
	}
}

// c06Endpoints runs the public entry points over the seam and compares run.Source/Destination with
// the addresses and ports of the packets on the wire.
func c06Endpoints(t *testing.T, rep *hx.Report, rng *hx.RNG, env hx.Env) {
	if c, err := net.Dial("udp", "198.51.100.9:33434"); err != nil {
		rep.Note("no route for LocalAddrForHost in this sandbox: endpoint stream skipped (%v)", err)
		return
	} else {
		c.Close()
	}
	for i := 0; i < env.Scale(6, 60); i++ {
		for _, proto := range []string{"icmp", "udp", "tcp"} {
			target := netip.MustParseAddr(hx.Pick(rng, []string{"198.51.100.9", "203.0.113.77", "8.8.4.4"}))
			port := uint16(rng.Range(1, 65535))
			// the UDP and TCP entry points are objects: a caller may run the same object again (the server
			// does one object per run, a library user need not) — every run must put ITS endpoints on the wire
			paris := rng.Bool()
			udpObj := udp.NewUDPv4(net.IP(target.AsSlice()), port, 1, 3, time.Millisecond, 30*time.Millisecond, false)
			tcpObj := tcp.NewTCPv4(net.IP(target.AsSlice()), port, 1, 3, time.Millisecond, 30*time.Millisecond, paris, false)
			reps := 1
			if proto != "icmp" {
				reps = rng.Range(1, 3)
			}
			for rep_ := 0; rep_ < reps; rep_++ {
				var wire *memWire
				packets.VerifSetSourceSinkFactory(func(addr netip.Addr, _ bool) (packets.SourceSinkHandle, bool, error) {
					wire = newMemWire()
					wire.blockWhenEmpty = true
					return wire.Handle(), true, nil
				})
				var src, dst net.IP
				var sport, dport uint16
				var err error
				// virtual clock: the entry points only touch real sockets for non-blocking calls (UDP
				// connect, TCP listen), so they can run inside a bubble and are immune to CPU load
				synctest.Test(t, func(t *testing.T) {
					switch proto {
					case "icmp":
						r, e := icmp.RunICMPTraceroute(context.Background(), icmp.Params{Target: target, ParallelParams: common.TracerouteParallelParams{TracerouteParams: common.TracerouteParams{
							MinTTL: 1, MaxTTL: 3, TracerouteTimeout: 30 * time.Millisecond, PollFrequency: 10 * time.Millisecond, SendDelay: time.Millisecond}}})
						err = e
						if e == nil {
							src, dst = r.Source.IPAddress, r.Destination.IPAddress
						}
					case "udp":
						r, e := udpObj.Traceroute()
						err = e
						if e == nil {
							src, dst, sport, dport = r.Source.IPAddress, r.Destination.IPAddress, r.Source.Port, r.Destination.Port
						}
					case "tcp":
						r, e := tcpObj.Traceroute()
						err = e
						if e == nil {
							src, dst, sport, dport = r.Source.IPAddress, r.Destination.IPAddress, r.Source.Port, r.Destination.Port
						}
					}
				})
				packets.VerifSetSourceSinkFactory(nil)
				replay := map[string]any{"protocol": proto, "target": target.String(), "port": port, "run_on_the_same_object": rep_ + 1}
				if err != nil || wire == nil {
					rep.Violate(hx.Violation{Kind: "spec", What: fmt.Sprintf("entry point failed over the seam: %v", err), Sig: map[string]string{"stream": "endpoints", "protocol": proto}, Replay: replay})
					continue
				}
				wire.log.mu.Lock()
				ws := append([]wireWrite(nil), wire.log.writes...)
				wire.log.mu.Unlock()
				for _, w := range ws {
					rep.Case("endpoints/"+proto, hx2(w.Pkt), true, nil)
					p := w.Pkt
					bad := ""
					if !net.IP(p[12:16]).Equal(src) || !net.IP(p[16:20]).Equal(dst) {
						bad = fmt.Sprintf("reported %s -> %s but the wire carried %s -> %s", src, dst, net.IP(p[12:16]), net.IP(p[16:20]))
					}
					if proto != "icmp" && (binary.BigEndian.Uint16(p[20:]) != sport || binary.BigEndian.Uint16(p[22:]) != dport) {
						bad = fmt.Sprintf("reported ports %d -> %d but the wire carried %d -> %d", sport, dport, binary.BigEndian.Uint16(p[20:]), binary.BigEndian.Uint16(p[22:]))
					}
					if proto != "icmp" && dport != port {
						bad = fmt.Sprintf("requested port %d but probes went to %d", port, dport)
					}
					if bad != "" {
						replay["probe"] = hx2(p)
						rep.Violate(hx.Violation{Kind: "spec", What: "reported endpoints are not the ones on the wire: " + bad, Sig: map[string]string{"stream": "endpoints", "protocol": proto}, Replay: replay})
						break
					}
				}
				if len(ws) != 3 {
					rep.Violate(hx.Violation{Kind: "spec", What: fmt.Sprintf("expected 3 probes on the wire, saw %d", len(ws)), Sig: map[string]string{"stream": "endpoints", "protocol": proto}, Replay: replay})
				}
				rep.Hit(fmt.Sprintf("endpoints:%s:run-%d-on-the-object", proto, rep_+1))
			}
		}
	}
}
