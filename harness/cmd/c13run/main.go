// Command c13run is the helper of the C13 check (Linux kernel conformance). It is executed inside
// network namespaces (`ip netns exec <ns> c13run …`) by harness/corr/c13_test.go:
//
//	c13run listen <addr:port>            TCP listener that accepts and drains connections (destination ns)
//	c13run dial <addr:port> <timeout ms> exit 0 once a TCP connection could be opened (poll from the client ns)
//	c13run trace <json params>           traceroute.NewTraceroute().RunTraceroute with the given parameters
//	                                     (exposes MinTTL, Delay and the unexported-in-JSON IsDest flag), optionally
//	                                     capturing every IPv4 packet the namespace sees with the repository's own
//	                                     packets.NewAFPacketSource()
//
// It prints one JSON object on stdout and always exits 0 in trace mode (errors are part of the object).
package main

import (
	"context"
	"encoding/hex"
	"encoding/json"
	"errors"
	"fmt"
	"io"
	"net"
	"os"
	"strconv"
	"sync"
	"time"

	"github.com/DataDog/datadog-traceroute/packets"
	"github.com/DataDog/datadog-traceroute/sack"
	"github.com/DataDog/datadog-traceroute/traceroute"
)

type c13Params struct {
	Hostname  string `json:"hostname"`
	Port      int    `json:"port"`
	Protocol  string `json:"protocol"`
	MinTTL    int    `json:"min_ttl"`
	MaxTTL    int    `json:"max_ttl"`
	DelayMs   int    `json:"delay_ms"`
	TimeoutMs int    `json:"timeout_ms"`
	TCPMethod string `json:"tcp_method"`
	Queries   int    `json:"queries"`
	E2e       int    `json:"e2e"`
	Capture   bool   `json:"capture"`
	Paris     bool   `json:"paris"`
}

type c13Hop struct {
	TTL       int     `json:"ttl"`
	IP        string  `json:"ip"`
	RTTMs     float64 `json:"rtt_ms"`
	IsDest    bool    `json:"is_dest"`
	Reachable bool    `json:"reachable"`
}

type c13Run struct {
	SrcIP   string   `json:"src_ip"`
	SrcPort int      `json:"src_port"`
	DstIP   string   `json:"dst_ip"`
	DstPort int      `json:"dst_port"`
	Hops    []c13Hop `json:"hops"`
}

type c13Pkt struct {
	AtUs int64  `json:"at_us"` // microseconds since the capture started
	Hex  string `json:"hex"`   // the IP packet (ethernet header stripped by the repository's source)
}

type c13Out struct {
	Error        string    `json:"error"`
	NotSupported bool      `json:"not_supported"`
	Runs         []c13Run  `json:"runs"`
	E2eRTTs      []float64 `json:"e2e_rtts"`
	Captured     []c13Pkt  `json:"captured"`
	CaptureError string    `json:"capture_error"`
}

func c13Listen(addr string) {
	ln, err := net.Listen("tcp4", addr)
	if err != nil {
		fmt.Println("listen-error", err)
		os.Exit(1)
	}
	fmt.Println("listening")
	for {
		c, err := ln.Accept()
		if err != nil {
			continue
		}
		go func() {
			defer c.Close()
			io.Copy(io.Discard, c)
		}()
	}
}

func c13Dial(addr string, timeoutMs int) {
	c, err := net.DialTimeout("tcp4", addr, time.Duration(timeoutMs)*time.Millisecond)
	if err != nil {
		fmt.Println("dial-error", err)
		os.Exit(1)
	}
	c.Close()
	fmt.Println("connected")
}

func c13Capture(stop <-chan struct{}, out *c13Out, wg *sync.WaitGroup, ready chan<- struct{}) {
	defer wg.Done()
	src, err := packets.NewAFPacketSource()
	if err != nil {
		out.CaptureError = err.Error()
		close(ready)
		return
	}
	defer src.Close()
	close(ready)
	start := time.Now()
	buf := make([]byte, 4096)
	for {
		select {
		case <-stop:
			return
		default:
		}
		src.SetReadDeadline(time.Now().Add(50 * time.Millisecond))
		n, err := src.Read(buf)
		if err != nil || n == 0 {
			continue
		}
		if len(out.Captured) < 4000 {
			out.Captured = append(out.Captured, c13Pkt{AtUs: time.Since(start).Microseconds(), Hex: hex.EncodeToString(buf[:n])})
		}
	}
}

func c13Trace(raw string) {
	var p c13Params
	var out c13Out
	enc := json.NewEncoder(os.Stdout)
	if err := json.Unmarshal([]byte(raw), &p); err != nil {
		out.Error = "bad params: " + err.Error()
		enc.Encode(out)
		return
	}
	var wg sync.WaitGroup
	stop := make(chan struct{})
	if p.Capture {
		ready := make(chan struct{})
		wg.Add(1)
		go c13Capture(stop, &out, &wg, ready)
		<-ready
	}
	params := traceroute.TracerouteParams{
		Hostname:          p.Hostname,
		Port:              p.Port,
		Protocol:          p.Protocol,
		MinTTL:            p.MinTTL,
		MaxTTL:            p.MaxTTL,
		Delay:             p.DelayMs,
		Timeout:           time.Duration(p.TimeoutMs) * time.Millisecond,
		TCPMethod:         traceroute.TCPMethod(p.TCPMethod),
		TracerouteQueries: p.Queries,
		E2eQueries:        p.E2e,

		TCPSynParisTracerouteMode: p.Paris,
	}
	res, err := traceroute.NewTraceroute().RunTraceroute(context.Background(), params)
	if p.Capture {
		time.Sleep(60 * time.Millisecond) // let trailing kernel replies (RSTs, late ICMP) arrive
		close(stop)
		wg.Wait()
	}
	if err != nil {
		out.Error = err.Error()
		var ns *sack.NotSupportedError
		out.NotSupported = errors.As(err, &ns)
		enc.Encode(out)
		return
	}
	for _, r := range res.Traceroute.Runs {
		run := c13Run{SrcIP: r.Source.IPAddress.String(), SrcPort: int(r.Source.Port),
			DstIP: r.Destination.IPAddress.String(), DstPort: int(r.Destination.Port)}
		for _, h := range r.Hops {
			ip := ""
			if len(h.IPAddress) > 0 {
				ip = h.IPAddress.String()
			}
			run.Hops = append(run.Hops, c13Hop{TTL: h.TTL, IP: ip, RTTMs: h.RTT, IsDest: h.IsDest, Reachable: h.Reachable})
		}
		out.Runs = append(out.Runs, run)
	}
	out.E2eRTTs = res.E2eProbe.RTTs
	enc.Encode(out)
}

func main() {
	if len(os.Args) < 3 {
		fmt.Fprintln(os.Stderr, "usage: c13run listen|dial|trace …")
		os.Exit(2)
	}
	switch os.Args[1] {
	case "listen":
		c13Listen(os.Args[2])
	case "dial":
		to := 300
		if len(os.Args) > 3 {
			if v, err := strconv.Atoi(os.Args[3]); err == nil {
				to = v
			}
		}
		c13Dial(os.Args[2], to)
	case "trace":
		c13Trace(os.Args[2])
	default:
		os.Exit(2)
	}
}
