#!/usr/bin/env python3
"""Writes MANIFEST.json from checks.d/*.json + manifest_meta.json (edit those, then run this)."""
import json, os, subprocess, sys
ROOT = os.path.dirname(os.path.abspath(__file__))
checks = {f[:-5]: json.load(open(os.path.join(ROOT, "checks.d", f))) for f in sorted(os.listdir(os.path.join(ROOT, "checks.d"))) if f.endswith(".json")}
meta = json.load(open(os.path.join(ROOT, "manifest_meta.json")))
for a in sys.argv[1:]:
    if a.startswith("--exclude="):
        for x in a.split("=", 1)[1].split(","):
            checks.pop(x, None)
props = [json.loads(l) for l in open(os.path.join(ROOT, "properties.jsonl"))]
hooks = subprocess.run(["git", "-C", "/repo", "log", "--format=%H %s"], capture_output=True, text=True).stdout.strip().split("\n")
hook_commits = [l.split()[0] for l in hooks if " verif hook:" in l]
m = {
 "version": 1,
 "setup_cmd": "cd /verif && ./check --setup",
 "hooks": {
  "guard": "verif",
  "enable": "go build/test -tags verif (the harness module /verif/harness has `replace github.com/DataDog/datadog-traceroute => /repo`)",
  "baseline_off_cmd": "cd /repo && GOFLAGS=-mod=mod GOPROXY=off go test -json -vet=off -count=1 -timeout 25m ./...",
  "source_commits": hook_commits,
  "add_only": True,
 },
 "engines": [
  {"name": "lean-model", "path": "/verif/lean", "serves_properties": sorted(checks), "kind_free_text": "Lean 4 models, executable spec predicates, property theorems (TRV.Props.*), native oracle trv_oracle"},
  {"name": "go-harness", "path": "/verif/harness", "serves_properties": sorted(checks), "kind_free_text": "in-process correspondence harness (real code vs Lean oracle over a line protocol), translator harness/extract, spec-on-implementation search"},
 ],
 "checks": [],
 "notes": meta.get("notes", ""),
 "not_applicable": [],
}
for p in props:
    pid = p["id"]
    if pid in checks:
        mc = checks[pid]
        m["checks"].append({
          "property_id": pid,
          "quick_cmd": f"./check {pid} quick",
          "thorough_cmd": f"./check {pid} thorough",
          "evidence_file": f"/verif/evidence/{pid}.json",
          "replay_cmd_template": "./check --replay {path}",
          "engine": "lean-model + go-harness",
          "level_claimed": {"category": "proof", "text": mc["text"], "design_ref": f"§{pid}"},
          "level_note": mc["note"],
          "technique": mc["technique"],
        })
    else:
        m["not_applicable"].append({"property_id": pid, "reason": meta["not_claimed"].get(pid, "check not built yet in this round; not claimed")})
json.dump(m, open(os.path.join(ROOT, "MANIFEST.json"), "w"), indent=1)
print("checks:", [c["property_id"] for c in m["checks"]], "not claimed:", [n["property_id"] for n in m["not_applicable"]])
