-- Root of the `TRV` library: every model, spec, proof and property module.
import TRV.Basic.Bytes
import TRV.Model.Engine
import TRV.Spec.Engine
import TRV.Proofs.Engine
import TRV.Model.EngineLTS
import TRV.Proofs.EngineLTS
import TRV.Props.C03
import TRV.Props.C07
import TRV.Oracle.Util
import TRV.Oracle.Engine
