-- Root of the `TRV` library. Property modules (TRV.Props.*) are built on demand by `./check`;
-- this root lists the shared model/spec/proof/oracle modules so that `lake build` covers them.
import TRV.Basic.Bytes
import TRV.Model.Engine
import TRV.Model.EngineLTS
import TRV.Spec.Engine
import TRV.Proofs.Engine
import TRV.Proofs.EngineLTS
