import TRV.Proofs.Timed
import TRV.Proofs.Sound
set_option linter.unusedSimpArgs false
set_option linter.unusedVariables false
/-!
# C05 — RTT fidelity: probe-send to first-accepted-reply, same probe

Property theorems only (helper lemmas are in `TRV.Proofs.Timed`, `TRV.Proofs.Sound`,
`TRV.Proofs.Engine`).  Models: `TRV.Drv` (the matchers: `accept ttl ip dest sentAt`, the RTT is
`now − sentAt`), `TRV.Engine` (the engines' slot rules), `TRV.Timed.e2eOnce`.
-/
namespace TRV.Props.C05
open TRV TRV.Wire TRV.Drv TRV.Engine TRV.Spec TRV.Spec.Timed TRV.Timed TRV.Proofs TRV.Proofs.Timed

/-! ## the RTT is measured against the send time recorded for the reply's own TTL -/

/-- ICMP/IPv4: the send time an accepted reply is measured against is the one recorded for the TTL
    the reply is attributed to. -/
theorem c05_rtt_same_probe_icmp4 {s : IcmpSt} {pkt : Bytes} {t : Nat} {a : Bytes} {d : Bool} {tm : Nat}
    (h : icmpRecv s pkt = .accept t a d tm) (hv4 : ∃ b0, u8 pkt 0 = some b0 ∧ b0 / 16 = 4) :
    ∃ p ∈ s.sent, p.ttl = t ∧ p.time = tm := (icmp4_sound h hv4).2

/-- ICMP/IPv6 (unrestricted since the fix for F11, see `c01_icmp6_sound`). -/
theorem c05_rtt_same_probe_icmp6 {s : IcmpSt} {pkt : Bytes} {t : Nat} {a : Bytes} {d : Bool} {tm : Nat}
    (hmin : 1 ≤ s.cfg.min)
    (h : icmpRecv s pkt = .accept t a d tm) (hv6 : ∃ b0, u8 (pkt.take bufSize) 0 = some b0 ∧ b0 / 16 = 6) :
    ∃ p ∈ s.sent, p.ttl = t ∧ p.time = tm := (icmp6_sound hmin h hv6).2

/-- UDP/IPv4. -/
theorem c05_rtt_same_probe_udp4 {s : UdpSt} {pkt : Bytes} {t : Nat} {a : Bytes} {d : Bool} {tm : Nat}
    (hinv : UdpInv s) (h4 : s.cfg.target.length = 4)
    (h : udpRecv s pkt = .accept t a d tm) (hv4 : ∃ b0, u8 (pkt.take bufSize) 0 = some b0 ∧ b0 / 16 = 4) :
    ∃ p ∈ s.sent, p.ttl = t ∧ p.time = tm := (udp4_sound hinv h4 h hv4).2

/-- UDP/IPv6. -/
theorem c05_rtt_same_probe_udp6 {s : UdpSt} {pkt : Bytes} {t : Nat} {a : Bytes} {d : Bool} {tm : Nat}
    (hinv : UdpInv s) (h6 : s.cfg.target.length ≠ 4)
    (h : udpRecv s pkt = .accept t a d tm) (hv6 : ∃ b0, u8 (pkt.take bufSize) 0 = some b0 ∧ b0 / 16 = 6) :
    ∃ p ∈ s.sent, p.ttl = t ∧ p.time = tm := (udp6_sound hinv h6 h hv6).2

/-- TCP SYN (a direct reply of the target is credited to the most recent probe: `t` is then that
    probe's TTL and `tm` its send time). -/
theorem c05_rtt_same_probe_tcp {s : TcpSt} {pkt : Bytes} {t : Nat} {a : Bytes} {d : Bool} {tm : Nat}
    (h : tcpRecv s pkt = .accept t a d tm) (hv4 : ∃ b0, u8 (pkt.take bufSize) 0 = some b0 ∧ b0 / 16 = 4) :
    ∃ p ∈ s.sent, p.ttl = t ∧ p.time = tm := (tcp_sound h hv4).2

/-- SACK. -/
theorem c05_rtt_same_probe_sack {s : SackSt} {pkt : Bytes} {t : Nat} {a : Bytes} {d : Bool} {tm : Nat}
    (h : sackRecv s pkt = .accept t a d tm) (hv4 : ∃ b0, u8 (pkt.take bufSize) 0 = some b0 ∧ b0 / 16 = 4) :
    ∃ p ∈ s.sent, p.ttl = t ∧ p.time = tm := (sack_sound h hv4).2

/-- **Same probe, never another probe's send time.**  When every TTL was probed once (what both
    engines do), the conclusion of the per-variant theorems pins the send time down: it is the
    send time of *the* probe with TTL `t`; whatever is recorded for any other TTL is not used. -/
theorem c05_rtt_same_probe {sent : List Sent} {t tm : Nat} (honce : SentOnce sent)
    (h : ∃ p ∈ sent, p.ttl = t ∧ p.time = tm) :
    ∀ q ∈ sent, q.ttl = t → q.time = tm := by
  obtain ⟨p, hp, hpt, hpm⟩ := h
  intro q hq hqt
  have := honce p hp q hq (by omega)
  subst this; exact hpm

/-! ## never negative -/

/-- `SendProbe` records the current time: the monotone-clock invariant is kept by every send of
    every variant and by the passage of time. -/
theorem c05_clock_invariant :
    (∀ (s s' : IcmpSt) ttl now now' pkt, SentBefore now s.sent → icmpSend s ttl now = .ok s' pkt → now ≤ now' →
      SentBefore now' s'.sent) ∧
    (∀ (s s' : UdpSt) ttl now now' pkt, SentBefore now s.sent → udpSend s ttl now = .ok s' pkt → now ≤ now' →
      SentBefore now' s'.sent) ∧
    (∀ (s s' : TcpSt) ttl now now' rnd pkt, SentBefore now s.sent → tcpSend s ttl now rnd = .ok s' pkt → now ≤ now' →
      SentBefore now' s'.sent) ∧
    (∀ (s s' : SackSt) ttl now now' pkt, SentBefore now s.sent → sackSend s ttl now = .ok s' pkt → now ≤ now' →
      SentBefore now' s'.sent) := by
  refine ⟨?_, ?_, ?_, ?_⟩
  · intro s s' ttl now now' pkt hb hs hle
    unfold icmpSend at hs
    split at hs; · simp at hs
    split at hs; · simp at hs
    simp only [SendRes.ok.injEq] at hs
    obtain ⟨rfl, _⟩ := hs
    intro p hp
    simp only [List.mem_append, List.mem_singleton] at hp
    rcases hp with hp | rfl
    · have := hb p hp; omega
    · simpa using hle
  · intro s s' ttl now now' pkt hb hs hle
    unfold udpSend at hs
    simp only at hs
    split at hs; · simp at hs
    simp only [SendRes.ok.injEq] at hs
    obtain ⟨rfl, _⟩ := hs
    intro p hp
    simp only [List.mem_append, List.mem_singleton] at hp
    rcases hp with hp | rfl
    · have := hb p hp; omega
    · simpa using hle
  · intro s s' ttl now now' rnd pkt hb hs hle
    unfold tcpSend at hs
    simp only [SendRes.ok.injEq] at hs
    obtain ⟨rfl, _⟩ := hs
    intro p hp
    simp only [List.mem_append, List.mem_singleton] at hp
    rcases hp with hp | rfl
    · have := hb p hp; omega
    · simpa using hle
  · intro s s' ttl now now' pkt hb hs hle
    unfold sackSend at hs
    split at hs; · simp at hs
    split at hs; · simp at hs
    simp only [SendRes.ok.injEq] at hs
    obtain ⟨rfl, _⟩ := hs
    intro p hp
    simp only [List.mem_append, List.mem_singleton] at hp
    rcases hp with hp | rfl
    · have := hb p hp; omega
    · simpa using hle

/-- **Never negative.**  On a monotone clock (every recorded probe was sent at or before `now`) an
    accepted reply — whose send time is a recorded one by the theorems above — has
    `rtt = now − sentAt ≥ 0`. -/
theorem c05_rtt_nonneg {sent : List Sent} {now t tm : Nat} (hmono : SentBefore now sent)
    (hacc : ∃ p ∈ sent, p.ttl = t ∧ p.time = tm) : 0 ≤ rttOf now tm := by
  obtain ⟨p, hp, _, hpm⟩ := hacc
  have := hmono p hp
  unfold rttOf; omega

/-! ## which reply's RTT a hop reports -/

/-- **Parallel engine: first accepted reply wins, except the destination override.**  For every
    sequence σ of accepted replies (with their RTTs) and every TTL `t`: if no destination reply for
    `t` was accepted the slot holds the earliest reply for `t`; if one was, it holds the earliest
    *destination* reply for `t` — which is the earliest reply for `t` whenever that one is already
    from the destination.  The reported RTT is that reply's. -/
theorem c05_parallel_first_wins (σ : List Probe) (t : Nat) :
    (firstDest σ t = none → merge σ t = firstAccepted σ t) ∧
    (∀ d, firstDest σ t = some d → merge σ t = some d) ∧
    (∀ q, firstAccepted σ t = some q → q.dest = true → merge σ t = some q) := by
  rw [merge_eq_best]
  refine ⟨?_, ?_, ?_⟩
  · intro h; simp [best, h, firstAny, firstAccepted]
  · intro d h; simp [best, h]
  · intro q hq hd
    have hfd : firstDest σ t = some q := by
      unfold firstDest firstAccepted at *
      induction σ with
      | nil => simp at hq
      | cons p σ ih =>
        simp only [List.find?] at hq ⊢
        by_cases hp : p.ttl = t
        · simp only [hp, decide_true] at hq
          cases hq
          simp [hp, hd]
        · simp only [hp, decide_false] at hq
          simp only [hp, decide_false, Bool.false_and]
          exact ih hq
    simp [best, hfd]

/-- The same at the level of what `TracerouteParallel` returns: the slot list is `best` of the
    accepted replies over `min..cut` (C07), so each reported RTT is the one selected above. -/
theorem c05_parallel_result_rtt {min max : Nat} {outs : List ROut} {r : List (Option Probe)}
    (h : parallelRun min max true outs false false = .ok r) (i : Nat) (p : Probe)
    (hi : r[i]? = some (some p)) :
    merge (accepted outs) (min + i) = some p := by
  have hr := (parallel_result h).1
  subst hr
  rw [merge_eq_best]
  unfold expected at hi
  rw [List.getElem?_map] at hi
  cases hg : (List.range' min (cutOf (accepted outs) max + 1 - min))[i]? with
  | none => simp [hg] at hi
  | some t =>
    rw [hg] at hi
    simp only [Option.map_some, Option.some.injEq] at hi
    have : t = min + i := by
      obtain ⟨hl, _⟩ := List.getElem?_eq_some_iff.mp hg
      have hlen : i < cutOf (accepted outs) max + 1 - min := by simpa using hl
      rw [List.getElem?_range' hlen] at hg
      simp at hg; omega
    subst this; exact hi

/-- **Serial engine, full statement**: for every list of per-TTL windows — replies may arrive
    after their own window, duplicates with a larger delay included — each slot of the serial
    engine follows the same rule as the parallel engine over the replies the engine accepted, in
    order: the earliest reply accepted for the TTL, except that a destination reply replaces a
    router reply.  (Before the `fix:` for finding F10 the serial engine overwrote the slot, and a
    late duplicate replaced the reported RTT; the refutation of this statement for that code is
    kept below as `c05_serial_overwrite_refuted`.) -/
theorem c05_serial_first_wins {min max : Nat} {ws : List (List ROut)} {s : Slots}
    (h : serialLoop min max emptySlots ws = .ok s) (t : Nat) :
    (firstDest (serialAccepted min max ws) t = none →
      s t = firstAccepted (serialAccepted min max ws) t) ∧
    (∀ d, firstDest (serialAccepted min max ws) t = some d → s t = some d) ∧
    (∀ q, firstAccepted (serialAccepted min max ws) t = some q → q.dest = true → s t = some q) := by
  rw [serialLoop_merge h]
  exact c05_parallel_first_wins _ t

private def w1 : Probe := { ttl := 1, ip := [10, 0, 0, 1], rtt := 5000000, dest := false }
private def w2 : Probe := { ttl := 2, ip := [10, 0, 0, 2], rtt := 7000000, dest := false }
/-- a late duplicate of hop 2's reply, read in window 3 (RTT measured against probe 2) -/
private def w2' : Probe := { ttl := 2, ip := [10, 0, 0, 2], rtt := 900000000, dest := false }

/-- the slot rule the serial engine had before the fix for F10: `results[probe.TTL] = probe` -/
def overwrite (s : Slots) (p : Probe) : Slots := fun t => if t = p.ttl then some p else s t

/-- **Finding F10 (fixed)**: under the old rule the statement above is false.  Witness: TTLs 1..3;
    windows 1 and 2 accept their own replies; a duplicate of hop 2's reply arrives in window 3:
    hop 2 then reports 900 ms instead of 7 ms.  The correspondence stream `wire-ser-latedup` runs
    this history (and random ones of its kind) against the real engine. -/
theorem c05_serial_overwrite_refuted :
    ([w1, w2, w2'].foldl overwrite emptySlots) 2 ≠ firstAccepted [w1, w2, w2'] 2 ∧
    (merge [w1, w2, w2']) 2 = firstAccepted [w1, w2, w2'] 2 := by
  decide

/-- **Serial engine under the C02 restriction** (no reply arrives after its own window, i.e. the
    reply accepted in the window of TTL `k` has TTL `k`): every slot holds the earliest reply
    accepted for its TTL — which is then the only one, destination or not — and empty slots are
    exactly the TTLs without an accepted reply. -/
theorem c05_serial_first_wins_aligned {min max : Nat} {ws : List (List ROut)} {s : Slots}
    (hal : Aligned min max min ws) (h : serialLoop min max emptySlots ws = .ok s) :
    ∀ t, s t = firstAccepted (serialAccepted min max ws) t := by
  intro t
  have := serialLoop_aligned ws min emptySlots s hal (fun _ _ => rfl) h t
  rw [this]
  cases firstAccepted (serialAccepted min max ws) t <;> simp [emptySlots]

/-! ## end-to-end sample -/

/-- **End-to-end RTT = destination hop's RTT, 0 = no answer.**  `runE2eProbeOnce` runs one
    traceroute with `MinTTL := MaxTTL` and returns the RTT of the first hop marked as destination
    (`GetDestinationHop`), `0` if there is none; an error of the run is passed on.  For the one-hop
    list such a run yields (C03) this is: that hop's RTT if it is the destination, else 0. -/
theorem c05_e2e {ε : Type} (runOnce : Nat → Nat → Except ε (List Hop)) (max : Nat) :
    (∀ e, runOnce max max = .error e → e2eOnce runOnce max = .error e) ∧
    (∀ hops, runOnce max max = .ok hops → e2eOnce runOnce max = .ok (e2eSpec hops)) ∧
    (∀ h, runOnce max max = .ok [h] → e2eOnce runOnce max = .ok (if h.dest then h.rtt else 0)) := by
  have key : ∀ hops : List Hop,
      (match destHop hops with | none => (0 : Int) | some h => h.rtt) = e2eSpec hops := by
    intro hops
    unfold destHop e2eSpec
    induction hops with
    | nil => simp
    | cons a rest ih =>
      by_cases ha : a.dest = true
      · simp [List.find?, List.filter, ha]
      · simp only [Bool.not_eq_true] at ha
        simp only [List.find?, List.filter, ha]
        exact ih
  refine ⟨?_, ?_, ?_⟩
  · intro e he; simp [e2eOnce, he]
  · intro hops hh
    simp only [e2eOnce, hh]
    rw [← key hops]
    cases destHop hops <;> rfl
  · intro h hh
    simp only [e2eOnce, hh, destHop, List.find?]
    cases h.dest <;> simp

/-! ## non-vacuity -/

/-- the F10 witness history run end to end: the untimed serial engine keeps hop 2's first reply
    (7 ms); window 3 was consumed by the duplicate, hop 3 stays empty -/
example : serialRun 1 3 [[.accept w1], [.retry, .accept w2], [.accept w2']] false false =
    .ok [some w1, some w2, none] := by rfl

/-- the same replies under the parallel rule: hop 2 keeps 7 ms -/
example : (merge [w1, w2, w2'] 2).map (·.rtt) = some 7000000 := by decide

/-- aligned windows: the partial theorem's hypothesis is satisfiable and non-trivial -/
example : Aligned 1 3 1 [[.accept w1], [.retry, .accept w2], []] := by
  refine ⟨?_, ?_, ?_, trivial⟩ <;> intro p hp <;> simp [serialWindow, validProbe, w1, w2] at hp <;>
    (try subst hp) <;> rfl

/-- an end-to-end probe whose single hop is the destination, and one without answer -/
example : e2eOnce (ε := Unit) (fun a _ => .ok [{ ttl := a, ip := [1, 2, 3, 4], rtt := 12345678, dest := true }]) 30
    = .ok 12345678 := by rfl
example : e2eOnce (ε := Unit) (fun a _ => .ok [{ ttl := a, ip := [], rtt := 0, dest := false }]) 30 = .ok 0 := by rfl

example : rttOf 1000 400 = 600 := by decide

#print axioms c05_rtt_same_probe_icmp4
#print axioms c05_rtt_same_probe_icmp6
#print axioms c05_rtt_same_probe_udp4
#print axioms c05_rtt_same_probe_udp6
#print axioms c05_rtt_same_probe_tcp
#print axioms c05_rtt_same_probe_sack
#print axioms c05_rtt_same_probe
#print axioms c05_clock_invariant
#print axioms c05_rtt_nonneg
#print axioms c05_parallel_first_wins
#print axioms c05_parallel_result_rtt
#print axioms c05_serial_first_wins
#print axioms c05_serial_overwrite_refuted
#print axioms c05_serial_first_wins_aligned
#print axioms c05_e2e
end TRV.Props.C05
