import TRV.Proofs.Result
/-!
# C16 — Result document is self-consistent (exact arithmetic) and identifiers are distinct

Property theorems only (helper lemmas are in `TRV.Proofs.Result`).  `normalize draws d` is the model
of `Results.Normalize()` (`draws` = the values `uuid.New` returned), over exact rationals; the
`float64`/`float32` rounding of the real code is enveloped by the correspondence harness
(`harness/corr/c16_test.go`), which is where finding F8 (ulp-level `avg > max`) lives.

Hypotheses, all explicit:
* `FreshHops d` / `FreshE2e d.e2e` / `Fresh d` — the document is as `runTracerouteMulti` builds it
  (no derived field written yet).  `Normalize` never *clears* a field, so without this the
  statements are false (`c16_reachable_iff_addr_full_false`).
* `RunsNonempty d` — every run has at least one hop (C03).  Without it the `hopsMin == 0` idiom
  breaks `min ≤ avg` (`c16_hopcount_bounds_full_false`).
-/
namespace TRV.Props.C16
open TRV TRV.Result TRV.ResSpec TRV.Proofs.Result

/-- The Go expression `!hop.IPAddress.Equal(net.IP{})` is "the address field is not empty", for
    byte strings of every length (0, 4, 16 and the lengths that are not addresses at all). -/
theorem c16_equal_empty_ip (ip : Bytes) : hasAddrGo ip = true ↔ ip ≠ [] :=
  hasAddrGo_iff ip

/-- After `Normalize`, every hop of every run is reachable iff it has an address — for documents
    whose hops came from `ToHops` (`Reachable` not set beforehand). -/
theorem c16_reachable_iff_addr (draws : List Nat) (d : Doc) (hf : FreshHops d) :
    ReachableIffAddr (normalize draws d) :=
  reachable_iff_addr draws d hf

/-- the same statement without the freshness hypothesis … -/
def c16_reachable_iff_addr_full : Prop := ∀ (draws : List Nat) (d : Doc), ReachableIffAddr (normalize draws d)

/-- … is false of the code: `Normalize` only ever sets `Reachable`, it never clears it.
    Go input: `Results{Traceroute:{Runs:[{Hops:[{TTL:1, Reachable:true}]}]}}`. -/
theorem c16_reachable_iff_addr_full_false : ¬ c16_reachable_iff_addr_full := by
  intro h
  have := h [] { runs := [{ hops := [{ ttl := 1, reachable := true }] }] }
  revert this; decide +kernel

/-- Hop-count statistics: for at least one run, every run having at least one hop,
    `1 ≤ min ≤ avg ≤ max ≤ longest run`. -/
theorem c16_hopcount_bounds (draws : List Nat) (d : Doc) (hne : d.runs ≠ []) (h1 : RunsNonempty d) :
    let o := normalize draws d
    1 ≤ o.hopCount.min ∧ (o.hopCount.min : Rat) ≤ o.hopCount.avg ∧
    o.hopCount.avg ≤ (o.hopCount.max : Rat) ∧ o.hopCount.max ≤ longestRun d.runs := by
  intro o
  have h := hopcount_bounds draws d hne h1
  simp only [normalize_longestRun] at h
  exact h

/-- the same statement without "every run has at least one hop" … -/
def c16_hopcount_bounds_full : Prop :=
  ∀ (draws : List Nat) (d : Doc), d.runs ≠ [] →
    let o := normalize draws d
    1 ≤ o.hopCount.min ∧ (o.hopCount.min : Rat) ≤ o.hopCount.avg ∧
    o.hopCount.avg ≤ (o.hopCount.max : Rat) ∧ o.hopCount.max ≤ longestRun d.runs

/-- … is false of the code: a run with zero hops has hop count 0, which the loop
    `if hopsCount < hopsMin || hopsMin == 0` then takes for "unset".  Runs with hop counts 0, 1 give
    min = 1 > avg = 1/2.  Go input: `Runs:[{Hops:nil},{Hops:[{TTL:1,IPAddress:1.1.1.1}]}]`. -/
theorem c16_hopcount_bounds_full_false : ¬ c16_hopcount_bounds_full := by
  intro h
  have := h [] { runs := [{ hops := [] }, { hops := [{ ttl := 1, ip := [1, 1, 1, 1] }] }] } (by simp)
  revert this; decide +kernel

/-- Packets: sent = number of samples, received = number of positive samples,
    loss = (sent − received)/sent (0 when there are no samples). -/
theorem c16_packets (draws : List Nat) (d : Doc) (hf : FreshE2e d.e2e) :
    PacketsOK (normalize draws d).e2e := by
  rw [normalize_e2e]; exact packets_fresh d.e2e hf

/-- RTT statistics: min ≤ avg ≤ max; when there is a positive sample, min and max are the least and
    greatest positive sample and avg is their arithmetic mean. -/
theorem c16_rtt_order (draws : List Nat) (d : Doc) (hf : FreshE2e d.e2e) :
    let e := (normalize draws d).e2e
    RttOrder e ∧ RttExtremes e ∧ RttMean e := by
  intro e
  simp only [e, normalize_e2e]
  refine ⟨(rtt_jitter_fresh d.e2e hf).1, ?_, ?_⟩
  · intro hp; rw [nE_rtts] at hp; exact (rtt_some d.e2e hp).2.1 (by rw [nE_rtts]; exact hp)
  · intro hp; rw [nE_rtts] at hp; exact (rtt_some d.e2e hp).2.2 (by rw [nE_rtts]; exact hp)

/-- Jitter (mean absolute difference of consecutive positive samples): 0 ≤ jitter ≤ max − min. -/
theorem c16_jitter_bounds (draws : List Nat) (d : Doc) (hf : FreshE2e d.e2e) :
    JitterBounds (normalize draws d).e2e := by
  rw [normalize_e2e]; exact (rtt_jitter_fresh d.e2e hf).2

/-- The order-insensitive statistics do not depend on the order of the samples: for two documents
    whose sample lists are permutations of each other, sent, received, loss, min, avg and max agree.
    (Jitter is defined on consecutive samples and is excluded.) -/
theorem c16_perm_invariant (draws₁ draws₂ : List Nat) (d₁ d₂ : Doc)
    (hf₁ : FreshE2e d₁.e2e) (hf₂ : FreshE2e d₂.e2e) (p : d₁.e2e.rtts.Perm d₂.e2e.rtts) :
    let e₁ := (normalize draws₁ d₁).e2e
    let e₂ := (normalize draws₂ d₂).e2e
    e₁.sent = e₂.sent ∧ e₁.received = e₂.received ∧ e₁.loss = e₂.loss ∧
    e₁.min = e₂.min ∧ e₁.avg = e₂.avg ∧ e₁.max = e₂.max := by
  intro e₁ e₂
  simp only [e₁, e₂, normalize_e2e]
  obtain ⟨a1, a2, a3, _, a5, a6, a7⟩ := hf₁
  obtain ⟨b1, b2, b3, _, b5, b6, b7⟩ := hf₂
  exact perm_invariant d₁.e2e d₂.e2e p
    ⟨by rw [a1, b1], by rw [a2, b2], by rw [a3, b3], by rw [a5, b5], by rw [a6, b6], by rw [a7, b7]⟩

/-- Identifiers: given distinct UUID draws (one per test and per run), the test id and all run ids
    of the normalised document are pairwise distinct.  (That `uuid.New` returns distinct values is
    an assumption; the harness checks it on every generated document.) -/
theorem c16_ids_distinct (draws : List Nat) (d : Doc) (hnd : draws.Nodup)
    (hlen : d.runs.length + 1 ≤ draws.length) : IdsDistinct (normalize draws d) :=
  ids_distinct draws d hnd hlen

/-- All clauses together: a fresh document whose runs all have at least one hop is `Consistent`
    after `Normalize` (0 runs and 0 samples included). -/
theorem c16_consistent (draws : List Nat) (d : Doc) (hf : Fresh d) (h1 : RunsNonempty d) :
    Consistent (normalize draws d) := by
  obtain ⟨fh, fc, fe⟩ := hf
  have hr := c16_rtt_order draws d fe
  refine ⟨c16_reachable_iff_addr draws d fh, ?_, ?_, c16_packets draws d fe, hr.1, hr.2.1,
    c16_jitter_bounds draws d fe⟩
  · by_cases hne : d.runs = []
    · unfold HopCountOrder
      rw [normalize_hopCount_empty draws d hne, fc]; decide
    · have := hopcount_bounds draws d hne h1
      exact ⟨this.2.1, this.2.2.1⟩
  · intro hne'
    have hne : d.runs ≠ [] := by
      intro h0
      have := normalize_runs_length draws d
      rw [h0] at this
      exact hne' (List.length_eq_zero_iff.mp this)
    have := hopcount_bounds draws d hne h1
    exact ⟨this.1, this.2.2.2⟩

/-! non-vacuity: a document with three runs (trailing empty hops, a v4-mapped and an IPv6 address,
    one run without any answering hop) and samples with losses, checked by evaluation -/

def exDoc : Doc :=
  { runs := [ { hops := [{ ttl := 1, ip := [10, 0, 0, 1], rtt := 3/2 }, { ttl := 2 },
                         { ttl := 3, ip := [8, 8, 8, 8], rtt := 7, isDest := true }] },
              { hops := [{ ttl := 1, ip := [0, 0, 0, 0, 0, 0, 0, 0, 0, 0, 0xff, 0xff, 10, 0, 0, 1] },
                         { ttl := 2, ip := [0x20, 1, 0xd, 0xb8, 0, 0, 0, 0, 0, 0, 0, 0, 0, 0, 0, 1] },
                         { ttl := 3 }, { ttl := 4 }] },
              { hops := [{ ttl := 1 }, { ttl := 2 }] } ],
    e2e := { rtts := [1/10, 0, 3/10, 1/10, 0, 2/10] } }

example : Fresh exDoc ∧ RunsNonempty exDoc := by decide +kernel
example : (normalize [1, 2, 3, 4] exDoc).hopCount = { avg := 7/3, min := 2, max := 3 } := by decide +kernel
example :
    let e := (normalize [1, 2, 3, 4] exDoc).e2e
    e.sent = 6 ∧ e.received = 4 ∧ e.loss = 1/3 ∧ e.min = 1/10 ∧ e.avg = 7/40 ∧ e.max = 3/10 ∧
    e.jitter = 1/6 := by decide +kernel
example : Consistent (normalize [1, 2, 3, 4] exDoc) ∧ IdsDistinct (normalize [1, 2, 3, 4] exDoc) := by
  decide +kernel
/-- exact arithmetic has no F8: the mean of 0.1, 0.1, 0.1 is 0.1 -/
example : (normalize [] { e2e := { rtts := [1/10, 1/10, 1/10] } }).e2e.avg = 1/10 := by decide +kernel

#print axioms c16_equal_empty_ip
#print axioms c16_reachable_iff_addr
#print axioms c16_reachable_iff_addr_full_false
#print axioms c16_hopcount_bounds
#print axioms c16_hopcount_bounds_full_false
#print axioms c16_packets
#print axioms c16_rtt_order
#print axioms c16_jitter_bounds
#print axioms c16_perm_invariant
#print axioms c16_ids_distinct
#print axioms c16_consistent
end TRV.Props.C16
