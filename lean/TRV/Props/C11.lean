import TRV.Proofs.Isolation6
/-!
# C11 — Concurrent traceroutes are isolated; identifier ranges never overlap

Property theorems only (helper lemmas are in `TRV.Proofs.Alloc`).

Layout of the argument:

1. allocators (`packets.AllocPacketID`, `icmp.nextEchoID`): blocks / ids handed out from ANY start
   counter are pairwise disjoint / distinct while at most 65536 identifiers were handed out
   (`c11_blocks_disjoint`, `c11_echo_distinct`); concurrent callers get what SOME sequential order
   of the same calls gets (`c11_linearizable`), hence disjoint blocks too
   (`c11_concurrent_blocks_disjoint`).
2. isolation on raw bytes: under `FlowsDistinct…` no packet is genuine (`Spec.genuine*`) for two
   concurrent runs (`c11_isolation_*`).
3. matchers: with the `*_sound` theorems, a packet accepted by one run's matcher is not accepted by
   the other run's matcher (`c11_not_both_accepted_*`); it is classified `retry` there
   (`c11_foreign_is_retry_*`).
4. engines: outcome lists that differ only by `retry` entries give the same result
   (`c11_run_alone_eq`, `c11_run_alone_eq_serial`): the run on the shared wire returns what it
   returns alone.
5. cross-protocol (finding F11, repaired): on the pinned tree the quoted IP protocol was not looked
   at and a UDP run and a TCP run with equal port numbers and aligned IP ids cross-matched.  Since
   the fix the matchers demand the quoted protocol, the genuineness predicates include it, and runs
   of different protocols are isolated with NO hypothesis on their flows (`c11_cross_protocol_*`);
   the former witnesses are kept as regression statements (`c11_f11_*_fixed`).
-/
namespace TRV.Props.C11
open TRV TRV.Alloc TRV.Spec TRV.Drv TRV.Wire TRV.Engine TRV.Proofs

/-! ## 1. Identifier ranges -/

/-- For EVERY start value of the 32-bit counter (including values next to the 2^32 and 2^16
    wrap-arounds) and every list of requested block sizes whose sum is at most 65536 (in particular
    "fewer than 65536 identifiers live"), the identifier sets `{base + t | 1 ≤ t ≤ n}` (16-bit
    wrap-around) of distinct allocations of the sequence are pairwise disjoint. -/
theorem c11_blocks_disjoint (cur : BitVec 32) (reqs : List (BitVec 8)) (h : total reqs ≤ 65536) :
    PairwiseDisjoint (allocSeq cur reqs).1 := by
  rw [allocSeq_blocks]; exact blocks_pairwise reqs cur h

/-- The base `AllocPacketID` returns is the low 16 bits of the counter BEFORE the call, and the
    counter advances by the block size (mod 2^32): `uint16(cur.Add(n) − n)`. -/
theorem c11_packetID_value (cur : BitVec 32) (n : BitVec 8) :
    packetID cur n = (cur.truncate 16, cur + n.zeroExtend 32) := by
  rw [← packetID_base, ← packetID_ctr]

/-- At most 65536 consecutive `nextEchoID` results are pairwise distinct, from every start value. -/
theorem c11_echo_distinct (cur : BitVec 32) (m : Nat) (h : m ≤ 65536) : Distinct (echoSeq cur m).1 := by
  rw [echoSeq_ids]; exact echoIds_pairwise m cur h

/-- The linear-time forms the oracle evaluates (`blocks`, `echoIds`, counter-only folds) are the
    fold models `allocSeq` / `echoSeq` the theorems are about. -/
theorem c11_oracle_forms (cur : BitVec 32) (reqs : List (BitVec 8)) (m : Nat) :
    (allocSeq cur reqs).1 = blocks cur reqs ∧
    (allocSeq cur reqs).2 = reqs.foldl (fun c n => (packetID c n).2) cur ∧
    (echoSeq cur m).1 = echoIds cur m ∧ (echoSeq cur m).2 = cur + BitVec.ofNat 32 m :=
  ⟨allocSeq_blocks cur reqs, allocSeq_ctr cur reqs, echoSeq_ids cur m, echoSeq_ctr cur m⟩

/-- Linearizability of the allocator under concurrent callers: for EVERY schedule of the two steps
    of each calling goroutine (atomic `Add`; later the local `uint16(next − n)` and return), once
    every caller has returned, the multiset of (caller, block) results is that of the SEQUENTIAL
    execution of the same calls in the order of their `Add` steps — a permutation of the request
    order. -/
theorem c11_linearizable (req : Nat → BitVec 8) (cur : BitVec 32) (sched : List Step)
    (hdone : (concRun req cur sched).pend = []) :
    (concRun req cur sched).done.Perm (seqRun req cur (addOrder sched)).1 ∧
    (concRun req cur sched).ctr = (seqRun req cur (addOrder sched)).2 := by
  obtain ⟨h1, h2⟩ := concInv_run req cur sched
  rw [hdone] at h2
  exact ⟨by simpa using h2, h1⟩

/-- At every point of every schedule: blocks already returned plus the blocks the goroutines
    between their two steps are going to return = the sequential results (as multisets). -/
theorem c11_linearizable_prefix (req : Nat → BitVec 8) (cur : BitVec 32) (sched : List Step) :
    ((concRun req cur sched).done ++ (concRun req cur sched).pend.map (retOf req)).Perm
      (seqRun req cur (addOrder sched)).1 :=
  (concInv_run req cur sched).2

/-- Hence: blocks returned to concurrent callers are pairwise disjoint while the callers that
    performed their `Add` requested at most 65536 identifiers in total. -/
theorem c11_concurrent_blocks_disjoint (req : Nat → BitVec 8) (cur : BitVec 32) (sched : List Step)
    (h : total ((addOrder sched).map req) ≤ 65536) :
    PairwiseDisjoint (((concRun req cur sched).done ++ (concRun req cur sched).pend.map (retOf req)).map (·.2)) := by
  have hp := (c11_linearizable_prefix req cur sched).map (·.2)
  rw [seqRun_blocks] at hp
  exact hp.symm.pairwise (blocks_pairwise _ cur h) (fun h => disjoint_symm h)

/-! ## 2. Isolation on the raw-offset genuineness predicates -/

/-- ICMP/IPv4: if the echo identifiers differ or the targets differ, no packet is a genuine reply
    for both runs (whatever TTL, responder and destination flag it is credited with). -/
theorem c11_isolation_icmp4 {A B : IcmpCfg} {sA sB : List Sent} {t t' : Nat} {a a' : Bytes} {d d' : Bool} {p : Bytes}
    (hd : FlowsDistinctIcmp A B) (hA : genuineIcmp4 A sA t a d p = true) :
    genuineIcmp4 B sB t' a' d' p = false := isolation_icmp4 hd hA

/-- UDP/IPv4: target addr:port differ, or both runs strict and local addr:port differ. -/
theorem c11_isolation_udp4 {A B : UdpCfg} {sA sB : List Sent} {t t' : Nat} {a a' : Bytes} {d d' : Bool} {p : Bytes}
    (hd : FlowsDistinctUdp A B) (hA : genuineUdp4 A sA t a d p = true) :
    genuineUdp4 B sB t' a' d' p = false := isolation_udp4 hd hA

/-- TCP SYN: target addr:port differ, or local addr:port differ and (both strict or the probes'
    (IP id, seq) pairs are disjoint). -/
theorem c11_isolation_tcp {A B : TcpCfg} {sA sB : List Sent} {t t' : Nat} {a a' : Bytes} {d d' : Bool} {p : Bytes}
    (hd : FlowsDistinctTcp A B sA sB) (hA : genuineTcp A sA t a d p = true) :
    genuineTcp B sB t' a' d' p = false := isolation_tcp hd hA

/-- SACK: target addr:port differ, or local addr:port differ and (both strict or the sequence-number
    windows ISN + [min,max] are disjoint). -/
theorem c11_isolation_sack {A B : SackCfg} {sA sB : List Sent} {t t' : Nat} {a a' : Bytes} {d d' : Bool} {p : Bytes}
    (hd : FlowsDistinctSack A B) (hA : genuineSack A sA t a d p = true) :
    genuineSack B sB t' a' d' p = false := isolation_sack hd hA

/-- Cross-protocol, IPv4, on raw bytes: a packet genuine for a run of one protocol is not genuine
    for a run of another protocol, whatever addresses, ports, identifiers and sent probes the two
    runs have (equal port numbers and aligned IP ids included — the F11 scenario).  ICMP vs UDP,
    ICMP vs TCP SYN, ICMP vs SACK, UDP vs TCP SYN, UDP vs SACK; each statement is symmetric (it says
    "not both").  TCP SYN vs SACK share protocol 6 and are separated by the OS port space
    (`FlowsDistinct…` hypotheses as for two runs of one protocol). -/
theorem c11_cross_protocol_genuine {I : IcmpCfg} {U : UdpCfg} {C : TcpCfg} {S : SackCfg}
    {sI sU sC sS : List Sent} {p : Bytes} :
    (∀ t a d t' a' d', genuineIcmp4 I sI t a d p = true → genuineUdp4 U sU t' a' d' p = false) ∧
    (∀ t a d t' a' d', genuineIcmp4 I sI t a d p = true → genuineTcp C sC t' a' d' p = false) ∧
    (∀ t a d t' a' d', genuineIcmp4 I sI t a d p = true → genuineSack S sS t' a' d' p = false) ∧
    (∀ t a d t' a' d', genuineUdp4 U sU t a d p = true → genuineTcp C sC t' a' d' p = false) ∧
    (∀ t a d t' a' d', genuineUdp4 U sU t a d p = true → genuineSack S sS t' a' d' p = false) := by
  refine ⟨?_, ?_, ?_, ?_, ?_⟩ <;> intro t a d t' a' d' h
  · cases h' : genuineUdp4 U sU t' a' d' p with
    | false => rfl
    | true => exact (icmp_udp_excl (sig_icmp4 h) (sig_udp4 h')).elim
  · cases h' : genuineTcp C sC t' a' d' p with
    | false => rfl
    | true => exact (icmp_tcp_excl (sig_icmp4 h) (sig_tcp h')).elim
  · cases h' : genuineSack S sS t' a' d' p with
    | false => rfl
    | true => exact (icmp_tcp_excl (sig_icmp4 h) (sig_sack h')).elim
  · cases h' : genuineTcp C sC t' a' d' p with
    | false => rfl
    | true => exact (udp_tcp_excl (sig_udp4 h) (sig_tcp h')).elim
  · cases h' : genuineSack S sS t' a' d' p with
    | false => rfl
    | true => exact (udp_tcp_excl (sig_udp4 h) (sig_sack h')).elim

/-- UDP vs TCP SYN in the form used before the fix (then under `FlowsDistinctUdpTcp`): no
    hypothesis is needed any more. -/
theorem c11_isolation_udp4_tcp {U : UdpCfg} {C : TcpCfg} {sU sC : List Sent} {t t' : Nat} {a a' : Bytes} {d d' : Bool} {p : Bytes}
    (hC : genuineTcp C sC t a d p = true) :
    genuineUdp4 U sU t' a' d' p = false := isolation_udp4_tcp hC

/-! ### IPv6, and TCP SYN next to SACK -/

/-- ICMPv6: the echo identifiers differ, or the targets differ -/
theorem c11_isolation_icmp6 {A B : IcmpCfg} {sA sB : List Sent} {t t' : Nat} {a a' : Bytes} {d d' : Bool} {p : Bytes}
    (hd : FlowsDistinctIcmp A B) (hA : genuineIcmp6 A sA t a d p = true) :
    genuineIcmp6 B sB t' a' d' p = false := isolation_icmp6 hd hA

/-- UDP over IPv6: as over IPv4 -/
theorem c11_isolation_udp6 {A B : UdpCfg} {sA sB : List Sent} {t t' : Nat} {a a' : Bytes} {d d' : Bool} {p : Bytes}
    (hd : FlowsDistinctUdp A B) (hA : genuineUdp6 A sA t a d p = true) :
    genuineUdp6 B sB t' a' d' p = false := isolation_udp6 hd hA

/-- ICMPv6 vs UDPv6: no hypothesis on the flows (quoted next header 58 vs 17; an echo reply is not
    an error message) -/
theorem c11_cross_protocol_genuine6 {I : IcmpCfg} {U : UdpCfg} {sI sU : List Sent} {p : Bytes}
    (t : Nat) (a : Bytes) (d : Bool) (t' : Nat) (a' : Bytes) (d' : Bool)
    (h : genuineIcmp6 I sI t a d p = true) : genuineUdp6 U sU t' a' d' p = false := by
  cases h' : genuineUdp6 U sU t' a' d' p with
  | false => rfl
  | true => exact (icmp6_udp6_excl (sig_icmp6 h) (sig_udp6 h')).elim

/-- TCP SYN next to SACK (both protocol 6): under `FlowsDistinctTcpSack` — target addr:port
    differs, or the local addr:port differs (what the OS gives two TCP sockets) and both are strict
    or the SYN run's sequence numbers lie outside the SACK run's window — no packet is genuine for
    both.  With `c11_cross_protocol_genuine` this covers every pair of IPv4 variants. -/
theorem c11_isolation_tcp_sack {C : TcpCfg} {S : SackCfg} {sC sS : List Sent} {t t' : Nat} {a a' : Bytes} {d d' : Bool} {p : Bytes}
    (hd : FlowsDistinctTcpSack C S sC) (hC : genuineTcp C sC t a d p = true) :
    genuineSack S sS t' a' d' p = false := isolation_tcp_sack hd hC

/-- Matcher level, IPv6 and TCP-SYN/SACK: one packet is accepted by at most one of two concurrent
    runs. -/
theorem c11_not_both_accepted_more {sI sI' : IcmpSt} {sU sU' : UdpSt} {sC : TcpSt} {sS : SackSt} {pkt : Bytes}
    (hmin : 1 ≤ sI.cfg.min) (hmin' : 1 ≤ sI'.cfg.min)
    (hiU : UdpInv sU) (hiU' : UdpInv sU') (h6 : sU.cfg.target.length ≠ 4) (h6' : sU'.cfg.target.length ≠ 4) :
    ((∃ b0, u8 (pkt.take bufSize) 0 = some b0 ∧ b0 / 16 = 6) →
      (FlowsDistinctIcmp sI.cfg sI'.cfg →
        ¬ ((∃ t a d tm, icmpRecv sI pkt = .accept t a d tm) ∧ (∃ t a d tm, icmpRecv sI' pkt = .accept t a d tm))) ∧
      (FlowsDistinctUdp sU.cfg sU'.cfg →
        ¬ ((∃ t a d tm, udpRecv sU pkt = .accept t a d tm) ∧ (∃ t a d tm, udpRecv sU' pkt = .accept t a d tm))) ∧
      ¬ ((∃ t a d tm, icmpRecv sI pkt = .accept t a d tm) ∧ (∃ t a d tm, udpRecv sU pkt = .accept t a d tm))) ∧
    ((∃ b0, u8 (pkt.take bufSize) 0 = some b0 ∧ b0 / 16 = 4) →
      FlowsDistinctTcpSack sC.cfg sS.cfg sC.sent →
        ¬ ((∃ t a d tm, tcpRecv sC pkt = .accept t a d tm) ∧ (∃ t a d tm, sackRecv sS pkt = .accept t a d tm))) := by
  refine ⟨fun hv6 => ⟨?_, ?_, ?_⟩, ?_⟩
  · rintro hd ⟨⟨_, _, _, _, hA⟩, ⟨_, _, _, _, hB⟩⟩
    have gA := (icmp6_sound hmin hA hv6).1
    have gB := (icmp6_sound hmin' hB hv6).1
    rw [isolation_icmp6 hd gA] at gB; cases gB
  · rintro hd ⟨⟨_, _, _, _, hA⟩, ⟨_, _, _, _, hB⟩⟩
    have gA := (udp6_sound hiU h6 hA hv6).1
    have gB := (udp6_sound hiU' h6' hB hv6).1
    rw [isolation_udp6 hd gA] at gB; cases gB
  · rintro ⟨⟨_, _, _, _, hA⟩, ⟨_, _, _, _, hB⟩⟩
    exact icmp6_udp6_excl (sig_icmp6 (icmp6_sound hmin hA hv6).1) (sig_udp6 (udp6_sound hiU h6 hB hv6).1)
  · rintro hv4 hd ⟨⟨_, _, _, _, hA⟩, ⟨_, _, _, _, hB⟩⟩
    have gA := (tcp_sound hA hv4).1
    have gB := (sack_sound hB hv4).1
    rw [isolation_tcp_sack hd gA] at gB; cases gB

/-- Disjoint `AllocPacketID` blocks discharge the `IdsDisjoint` disjunct of `FlowsDistinctTcp` in
    the default (non-Paris) mode: two runs whose probes carry ids `base + ttl` from disjoint blocks
    (TTLs within the block) never share an (IP id, seq) pair. -/
theorem c11_blocks_give_idsDisjoint {ba bb : Block} (hdis : Disjoint ba bb) {sa sb : List Sent}
    (ha : ∀ x ∈ sa, 1 ≤ x.ttl ∧ x.ttl ≤ ba.2 ∧ x.id = (idOf ba.1 x.ttl).toNat)
    (hb : ∀ y ∈ sb, 1 ≤ y.ttl ∧ y.ttl ≤ bb.2 ∧ y.id = (idOf bb.1 y.ttl).toNat) :
    IdsDisjoint sa sb := by
  intro x hx y hy ⟨hid, _⟩
  obtain ⟨a1, a2, a3⟩ := ha x hx
  obtain ⟨b1, b2, b3⟩ := hb y hy
  have he : idOf ba.1 x.ttl = idOf bb.1 y.ttl := BitVec.eq_of_toNat_eq (by rw [← a3, ← b3, hid])
  exact hdis _ (mem_used.mpr ⟨x.ttl, a1, a2, rfl⟩) (mem_used.mpr ⟨y.ttl, b1, b2, he⟩)

/-- The executable form of `FlowsDistinctSack` the oracle evaluates on the harness' scenarios is the
    `Prop` used above (the other `FlowsDistinct…` are evaluated through their `Decidable` instances). -/
theorem c11_flowsDistinctSackB_iff (a b : SackCfg) : flowsDistinctSackB a b = true ↔ FlowsDistinctSack a b :=
  flowsDistinctSackB_iff a b

/-! ## 3. Matchers: a packet accepted by one run is never accepted by a concurrent run -/

theorem c11_not_both_accepted_icmp4 {sA sB : IcmpSt} {pkt : Bytes} {t : Nat} {a : Bytes} {d : Bool} {tm : Nat}
    (hd : FlowsDistinctIcmp sA.cfg sB.cfg) (hv4 : ∃ b0, u8 pkt 0 = some b0 ∧ b0 / 16 = 4)
    (hA : icmpRecv sA pkt = .accept t a d tm) (t' : Nat) (a' : Bytes) (d' : Bool) (tm' : Nat) :
    icmpRecv sB pkt ≠ .accept t' a' d' tm' := not_both_icmp4 hd hv4 hA t' a' d' tm'

/-- `UdpInv` = the recorded ids are the ids of the recorded TTLs (holds in every state reached by
    `udpSend` from the empty state: `udpInv_init`, `udpInv_send`). -/
theorem c11_not_both_accepted_udp4 {sA sB : UdpSt} {pkt : Bytes} {t : Nat} {a : Bytes} {d : Bool} {tm : Nat}
    (hd : FlowsDistinctUdp sA.cfg sB.cfg) (hiA : UdpInv sA) (hiB : UdpInv sB)
    (h4A : sA.cfg.target.length = 4) (h4B : sB.cfg.target.length = 4)
    (hv4 : ∃ b0, u8 (pkt.take bufSize) 0 = some b0 ∧ b0 / 16 = 4)
    (hA : udpRecv sA pkt = .accept t a d tm) (t' : Nat) (a' : Bytes) (d' : Bool) (tm' : Nat) :
    udpRecv sB pkt ≠ .accept t' a' d' tm' := not_both_udp4 hd hiA hiB h4A h4B hv4 hA t' a' d' tm'

theorem c11_not_both_accepted_tcp {sA sB : TcpSt} {pkt : Bytes} {t : Nat} {a : Bytes} {d : Bool} {tm : Nat}
    (hd : FlowsDistinctTcp sA.cfg sB.cfg sA.sent sB.sent)
    (hv4 : ∃ b0, u8 (pkt.take bufSize) 0 = some b0 ∧ b0 / 16 = 4)
    (hA : tcpRecv sA pkt = .accept t a d tm) (t' : Nat) (a' : Bytes) (d' : Bool) (tm' : Nat) :
    tcpRecv sB pkt ≠ .accept t' a' d' tm' := not_both_tcp hd hv4 hA t' a' d' tm'

theorem c11_not_both_accepted_sack {sA sB : SackSt} {pkt : Bytes} {t : Nat} {a : Bytes} {d : Bool} {tm : Nat}
    (hd : FlowsDistinctSack sA.cfg sB.cfg)
    (hv4 : ∃ b0, u8 (pkt.take bufSize) 0 = some b0 ∧ b0 / 16 = 4)
    (hA : sackRecv sA pkt = .accept t a d tm) (t' : Nat) (a' : Bytes) (d' : Bool) (tm' : Nat) :
    sackRecv sB pkt ≠ .accept t' a' d' tm' := not_both_sack hd hv4 hA t' a' d' tm'

theorem c11_not_both_accepted_udp4_tcp {sU : UdpSt} {sC : TcpSt} {pkt : Bytes} {t : Nat} {a : Bytes} {d : Bool} {tm : Nat}
    (hiU : UdpInv sU) (h4U : sU.cfg.target.length = 4)
    (hv4 : ∃ b0, u8 (pkt.take bufSize) 0 = some b0 ∧ b0 / 16 = 4)
    (hC : tcpRecv sC pkt = .accept t a d tm) (t' : Nat) (a' : Bytes) (d' : Bool) (tm' : Nat) :
    udpRecv sU pkt ≠ .accept t' a' d' tm' := not_both_udp4_tcp hiU h4U hv4 hC t' a' d' tm'

/-- Matcher level, any mix of protocols on IPv4: one packet is accepted by the matchers of at most
    one of an ICMP run, a UDP run and a TCP-SYN-or-SACK run, for ALL states of the runs (no
    hypothesis on flows or identifiers). -/
theorem c11_cross_protocol_matchers {sI : IcmpSt} {sU : UdpSt} {sC : TcpSt} {sS : SackSt} {pkt : Bytes}
    (hiU : UdpInv sU) (h4U : sU.cfg.target.length = 4)
    (hv4 : ∃ b0, u8 (pkt.take bufSize) 0 = some b0 ∧ b0 / 16 = 4)
    (hv4' : ∃ b0, u8 pkt 0 = some b0 ∧ b0 / 16 = 4) :
    let accI := ∃ t a d tm, icmpRecv sI pkt = .accept t a d tm
    let accU := ∃ t a d tm, udpRecv sU pkt = .accept t a d tm
    let accC := ∃ t a d tm, tcpRecv sC pkt = .accept t a d tm
    let accS := ∃ t a d tm, sackRecv sS pkt = .accept t a d tm
    ¬ (accI ∧ accU) ∧ ¬ (accI ∧ accC) ∧ ¬ (accI ∧ accS) ∧ ¬ (accU ∧ accC) ∧ ¬ (accU ∧ accS) := by
  intro accI accU accC accS
  have gI : accI → SigQuoted (pkt.take bufSize) 1 ∨ SigEcho (pkt.take bufSize) :=
    fun ⟨_, _, _, _, h⟩ => sig_icmp4 (icmp4_sound h hv4').1
  have gU : accU → SigQuoted (pkt.take bufSize) 17 :=
    fun ⟨_, _, _, _, h⟩ => sig_udp4 (udp4_sound hiU h4U h hv4).1
  have gC : accC → SigQuoted (pkt.take bufSize) 6 ∨ SigTcp (pkt.take bufSize) :=
    fun ⟨_, _, _, _, h⟩ => sig_tcp (tcp_sound h hv4).1
  have gS : accS → SigQuoted (pkt.take bufSize) 6 ∨ SigTcp (pkt.take bufSize) :=
    fun ⟨_, _, _, _, h⟩ => sig_sack (sack_sound h hv4).1
  exact ⟨fun ⟨a, b⟩ => icmp_udp_excl (gI a) (gU b), fun ⟨a, b⟩ => icmp_tcp_excl (gI a) (gC b),
    fun ⟨a, b⟩ => icmp_tcp_excl (gI a) (gS b), fun ⟨a, b⟩ => udp_tcp_excl (gU a) (gC b),
    fun ⟨a, b⟩ => udp_tcp_excl (gU a) (gS b)⟩

/-- A reply accepted by run B is a `retry` (ignored packet: neither a hop, nor a fatal error, nor
    `NotSupported`) for a concurrent run A. -/
theorem c11_foreign_is_retry_icmp4 {sA sB : IcmpSt} {pkt : Bytes} {t : Nat} {a : Bytes} {d : Bool} {tm : Nat}
    (hd : FlowsDistinctIcmp sA.cfg sB.cfg) (hv4 : ∃ b0, u8 pkt 0 = some b0 ∧ b0 / 16 = 4)
    (hB : icmpRecv sB pkt = .accept t a d tm) : icmpRecv sA pkt = .retry := foreign_retry_icmp4 hd hv4 hB

theorem c11_foreign_is_retry_udp4 {sA sB : UdpSt} {pkt : Bytes} {t : Nat} {a : Bytes} {d : Bool} {tm : Nat}
    (hd : FlowsDistinctUdp sA.cfg sB.cfg) (hiA : UdpInv sA) (hiB : UdpInv sB)
    (h4A : sA.cfg.target.length = 4) (h4B : sB.cfg.target.length = 4)
    (hv4 : ∃ b0, u8 (pkt.take bufSize) 0 = some b0 ∧ b0 / 16 = 4)
    (hB : udpRecv sB pkt = .accept t a d tm) : udpRecv sA pkt = .retry :=
  foreign_retry_udp4 hd hiA hiB h4A h4B hv4 hB

/-- TCP SYN (serial engine: a probe has been sent before anything is received) -/
theorem c11_foreign_is_retry_tcp {sA sB : TcpSt} {pkt : Bytes} {t : Nat} {a : Bytes} {d : Bool} {tm : Nat}
    (hd : FlowsDistinctTcp sA.cfg sB.cfg sA.sent sB.sent) (hsent : sA.sent ≠ [])
    (hv4 : ∃ b0, u8 (pkt.take bufSize) 0 = some b0 ∧ b0 / 16 = 4)
    (hB : tcpRecv sB pkt = .accept t a d tm) : tcpRecv sA pkt = .retry := foreign_retry_tcp hd hsent hv4 hB

/-- SACK: in particular a foreign reply never ends run A with `NotSupported` -/
theorem c11_foreign_is_retry_sack {sA sB : SackSt} {pkt : Bytes} {t : Nat} {a : Bytes} {d : Bool} {tm : Nat}
    (hd : FlowsDistinctSack sA.cfg sB.cfg)
    (hv4 : ∃ b0, u8 (pkt.take bufSize) 0 = some b0 ∧ b0 / 16 = 4)
    (hB : sackRecv sB pkt = .accept t a d tm) : sackRecv sA pkt = .retry := foreign_retry_sack hd hv4 hB

/-! ## 4. Engines: the result on the shared wire is the result alone -/

/-- `TracerouteParallel`: two consumed outcome lists that differ only by `retry` entries (the
    foreign packets of the shared wire, by section 3) give the same return value — the same hop
    list or the same error. -/
theorem c11_run_alone_eq {min max : Nat} {sp : Bool} {shared alone : List ROut} {sendErr extCancel : Bool}
    (h : SameUpToRetries shared alone) :
    parallelRun min max sp shared sendErr extCancel = parallelRun min max sp alone sendErr extCancel := by
  rw [← parallelRun_dropRetry min max sp shared, ← parallelRun_dropRetry min max sp alone, h]

/-- The same through C07: both runs succeed with `expected` of the same accepted sequence. -/
theorem c11_run_alone_eq_expected {min max : Nat} {shared alone : List ROut} {r : List (Option Probe)}
    (h : SameUpToRetries shared alone)
    (hr : parallelRun min max true shared false false = .ok r) :
    r = Spec.expected min max (accepted alone) := by
  have := (parallel_result hr).1
  rw [this, ← accepted_dropRetry shared, h, accepted_dropRetry]

/-- `TracerouteSerial` (TCP SYN): per-TTL windows that differ only by `retry` entries. -/
theorem c11_run_alone_eq_serial {min max : Nat} {shared alone : List (List ROut)} {sendErr extCancel : Bool}
    (h : shared.map dropRetry = alone.map dropRetry) :
    serialRun min max shared sendErr extCancel = serialRun min max alone sendErr extCancel := by
  unfold serialRun
  rw [← serialLoop_dropRetry min max shared, ← serialLoop_dropRetry min max alone, h]

/-! ## 5. Cross-protocol quote (finding F11, repaired): the former witness as a regression statement

Local host 10.0.0.1, target 10.0.0.9:443.  A strict UDP run and a strict TCP-SYN run both use local
port number 40000 (UDP and TCP port spaces are separate, the OS may hand out the same number).  The
TCP run's `AllocPacketID` base is 41820, so its TTL-3 SYN carries IP id 41823 = 41821 + 2, the id
of the UDP run's TTL-2 datagram.  Router 10.9.9.3 (the TCP run's third hop) answers the SYN with a
time-exceeded quoting it.  On the pinned tree the UDP run accepted that packet as its hop 2. -/

/-- ONE packet — the reply to the TCP run's TTL-3 probe — is accepted by the TCP run (hop 3 =
    10.9.9.3) and ignored by the UDP run. -/
theorem c11_f11_witness_fixed :
    tcpRecv f11TcpSt.1 f11Pkt = .accept 3 f11Router false 6 ∧
    udpRecv f11UdpSt f11Pkt = .retry := by decide

/-- … and by the raw-offset predicates (which now include the quoted protocol) it is genuine for
    the TCP run only. -/
theorem c11_f11_genuine_only_for_own :
    genuineTcp f11TcpCfg f11TcpSt.1.sent 3 f11Router false f11Pkt = true ∧
    genuineUdp4 f11UdpCfg f11UdpSt.sent 2 f11Router false f11Pkt = false := by decide

/-- The reverse direction (a TCP run whose constant sequence number equals the UDP header's length
    and checksum words, base 41821): the reply to the UDP run's TTL-2 probe is accepted by the UDP
    run and ignored by that TCP run. -/
theorem c11_f11_reverse_fixed :
    udpRecv f11UdpSt (f11TE f11Router f11Local f11UdpProbe) = .accept 2 f11Router false 5 ∧
    tcpRecv f11TcpSt' (f11TE f11Router f11Local f11UdpProbe) = .retry := by decide +kernel

/-! ## Non-vacuity -/

/-- allocations across the 2^32 AND 2^16 wrap: counter 2^32 − 3, requests 30, 255, 1, 30 -/
example : (allocSeq 0xfffffffd#32 [30#8, 255#8, 1#8, 30#8]).1 =
    [(0xfffd#16, 30), (0x001b#16, 255), (0x011a#16, 1), (0x011b#16, 30)] := by decide

example : PairwiseDisjoint (allocSeq 0xfffffffd#32 [30#8, 255#8, 1#8, 30#8]).1 :=
  c11_blocks_disjoint _ _ (by decide)

/-- the bound is about identifiers, not calls: the ids of a block wrap past 0xffff -/
example : used 0xfffd#16 4 = [0xfffe#16, 0xffff#16, 0x0000#16, 0x0001#16] := by decide

/-- echo ids across the wrap: counter 0xfffffffe → 0xffff, 0x0000, 0x0001 -/
example : (echoSeq 0xfffffffe#32 3).1 = [0xffff#16, 0x0000#16, 0x0001#16] := by decide

/-- tightness: the 65537th echo id repeats the first -/
example (c : BitVec 32) : (echoID (c + 65536#32)).1 = (echoID c).1 := by
  simp only [echoID]; bv_omega

/-- a schedule in which goroutine 1's `Add` overtakes goroutine 0's between 0's two steps: results
    are those of the sequential order [0, 1] -/
example :
    let req : Nat → BitVec 8 := fun t => if t = 0 then 30#8 else 5#8
    (concRun req 0xfffffff0#32 [.add 0, .add 1, .ret 1, .ret 0]).done = [(1, (0x000e#16, 5)), (0, (0xfff0#16, 30))] ∧
    (seqRun req 0xfffffff0#32 [0, 1]).1 = [(0, (0xfff0#16, 30)), (1, (0x000e#16, 5))] := by decide

/-- contrast (the mutation "load + store instead of Add"): two goroutines that both load before
    either stores get the SAME echo id -/
example : (racyRun 7#32 [.load 0, .load 1, .store 0, .store 1]).out = [8#16, 8#16] := by decide

/-- isolation hypotheses are satisfiable and the conclusion is not vacuous: the F11 packet is
    genuine for the TCP run, and a second TCP run with another local port rejects it -/
example : genuineTcp { f11TcpCfg with lport := 40001 } f11TcpSt.1.sent 3 f11Router false f11Pkt = false :=
  c11_isolation_tcp (A := f11TcpCfg) (sA := f11TcpSt.1.sent)
    (Or.inr ⟨Or.inr (by decide), Or.inl ⟨rfl, rfl⟩⟩) c11_f11_genuine_only_for_own.1

/-- the TCP/SACK hypothesis is satisfiable in the way the OS provides it: same target, another local
    port, both strict -/
example : FlowsDistinctTcpSack f11TcpCfg
    { localA := f11Local, lport := 40001, target := f11Target, tport := 443, loosen := false, min := 1, max := 30, isn := 7, iack := 0, ts := none }
    f11TcpSt.1.sent :=
  Or.inr ⟨Or.inr (by decide), Or.inl ⟨rfl, rfl⟩⟩

example : dropRetry [.retry, .accept ⟨1, [10,0,0,1], 5, false⟩, .retry, .retry] = dropRetry [.accept ⟨1, [10,0,0,1], 5, false⟩] := by
  rfl

#print axioms c11_blocks_disjoint
#print axioms c11_packetID_value
#print axioms c11_echo_distinct
#print axioms c11_oracle_forms
#print axioms c11_linearizable
#print axioms c11_linearizable_prefix
#print axioms c11_concurrent_blocks_disjoint
#print axioms c11_isolation_icmp4
#print axioms c11_isolation_udp4
#print axioms c11_isolation_tcp
#print axioms c11_isolation_sack
#print axioms c11_cross_protocol_genuine
#print axioms c11_cross_protocol_matchers
#print axioms c11_isolation_udp4_tcp
#print axioms c11_isolation_icmp6
#print axioms c11_isolation_udp6
#print axioms c11_cross_protocol_genuine6
#print axioms c11_isolation_tcp_sack
#print axioms c11_not_both_accepted_more
#print axioms c11_blocks_give_idsDisjoint
#print axioms c11_flowsDistinctSackB_iff
#print axioms c11_not_both_accepted_icmp4
#print axioms c11_not_both_accepted_udp4
#print axioms c11_not_both_accepted_tcp
#print axioms c11_not_both_accepted_sack
#print axioms c11_not_both_accepted_udp4_tcp
#print axioms c11_foreign_is_retry_icmp4
#print axioms c11_foreign_is_retry_udp4
#print axioms c11_foreign_is_retry_tcp
#print axioms c11_foreign_is_retry_sack
#print axioms c11_run_alone_eq
#print axioms c11_run_alone_eq_expected
#print axioms c11_run_alone_eq_serial
#print axioms c11_f11_witness_fixed
#print axioms c11_f11_genuine_only_for_own
#print axioms c11_f11_reverse_fixed
end TRV.Props.C11
