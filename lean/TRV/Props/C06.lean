import TRV.Proofs.Probe
import TRV.Proofs.EngineLTS
import TRV.Model.Drivers
import TRV.Proofs.Pacing
/-!
# C06 — Probe emission: well-formed, right TTL, constant flow, unique ids, ordered, stops

* `c06_*_wf`: every probe builder (gopacket `SerializeLayers` with FixLengths+ComputeChecksums,
  re-derived in `TRV.Build`) yields, for EVERY TTL 1..255, every address, port, identifier base and
  sequence number, a packet satisfying the raw-byte well-formedness predicate of `TRV.Spec.Probe`:
  version/IHL, total (payload) length = actual length, TTL/hop limit = the probed TTL, protocol,
  source/destination addresses and ports = the configuration (hence constant for the whole run),
  IPv4 header checksum and ICMP/UDP/TCP checksum (with pseudo-header) verifying.
* `c06_id_injective_*`: the per-probe identifier of each deterministic scheme is injective on
  TTL 0..255, at every base (wrap-around included).
* `c06_order`, `c06_one_per_ttl`, `c06_stop_after_dest`: in every reachable state of the
  interleaving model of the parallel engine the probes emitted so far are exactly
  `min, min+1, …` (increasing, no repetition) and at most one probe is emitted after the receiver
  has seen a destination reply.
* `c06_paced_parallel`, `c06_paced_serial`, `c06_paced_pairwise`: pacing.  In the timed models of both
  engines (`TRV.Timed.parallelT` / `serialT`: `SendProbe` for TTL `i` lasts `sd i`, any script of
  `ReceiveProbe` outcomes and durations, any cancellation instant, send failures) the emissions are
  `(min, t₀), (min+1, t₁), …` with `tⱼ + SendDelay ≤ tⱼ₊₁` — measured between the instants at which
  consecutive `SendProbe` calls START, so a slow send never shortens the next gap — and any two
  emissions `k` TTLs apart are at least `k · SendDelay` apart.  The timed models are tied to the real
  engines on the virtual clock by the send-time comparison of C05/C08 (`TestC05`/`TestC08`, scripted
  send durations included) and the spacing is measured again on the real engines by `TestC06`.
-/
namespace TRV.Props.C06
open TRV TRV.Build TRV.Spec TRV.Proofs TRV.LTS TRV.Drv

theorem c06_icmp4_wf {src dst : Bytes} {echoId ttl : Nat} (hs : src.length = 4) (hd : dst.length = 4)
    (hid : echoId < 65536) (httl : ttl < 256) :
    wfIcmp4 (Build.icmp4 src dst echoId ttl) src dst echoId ttl = true := icmp4_wf hs hd hid httl

theorem c06_icmp6_wf {src dst : Bytes} {echoId ttl : Nat} (hs : src.length = 16) (hd : dst.length = 16)
    (hid : echoId < 65536) (httl : ttl < 256) :
    wfIcmp6 (Build.icmp6 src dst echoId ttl) src dst echoId ttl = true := icmp6_wf hs hd hid httl

theorem c06_udp4_wf {src dst : Bytes} {sport dport ttl : Nat} (hs : src.length = 4) (hd : dst.length = 4)
    (hsp : sport < 65536) (hdp : dport < 65536) (httl : ttl < 256) :
    wfUdp4 (Build.udp4 src dst sport dport ttl) src dst sport dport ttl = true := udp4_wf hs hd hsp hdp httl

theorem c06_udp6_wf {src dst : Bytes} {sport dport ttl : Nat} (hs : src.length = 16) (hd : dst.length = 16)
    (hsp : sport < 65536) (hdp : dport < 65536) (httl : ttl < 256) :
    wfUdp6 (Build.udp6 src dst sport dport ttl) src dst sport dport ttl = true := udp6_wf hs hd hsp hdp httl

theorem c06_tcpSyn_wf {src dst : Bytes} {sport dport id seq ttl : Nat} (hs : src.length = 4) (hd : dst.length = 4)
    (hsp : sport < 65536) (hdp : dport < 65536) (hid : id < 65536) (hseq : seq < 4294967296) (httl : ttl < 256) :
    wfTcpSyn (Build.tcpSyn src dst sport dport id seq ttl) src dst sport dport id seq ttl = true :=
  tcpSyn_wf hs hd hsp hdp hid hseq httl

theorem c06_sack_wf {src dst : Bytes} {sport dport isn ack ttl : Nat} {ts : Option (Nat × Nat)}
    (hs : src.length = 4) (hd : dst.length = 4) (hsp : sport < 65536) (hdp : dport < 65536)
    (hack : ack < 4294967296) (httl : ttl < 256) (hts : ∀ v e, ts = some (v, e) → e < 4294967296) :
    wfSack (Build.sack src dst sport dport isn ack ttl ts) src dst sport dport ((isn + ttl) % 4294967296) ack ttl = true :=
  sack_wf hs hd hsp hdp hack httl hts

/-- what the ICMP driver model hands to the sink is the well-formed probe for its configuration -/
theorem c06_icmp_send_wf {s s' : IcmpSt} {ttl now : Nat} {pkt : Bytes}
    (h4 : s.cfg.localA.length = 4 ∧ s.cfg.target.length = 4) (hid : s.cfg.echoId < 65536) (hmax : s.cfg.max ≤ 255)
    (h : icmpSend s ttl now = .ok s' pkt) :
    wfIcmp4 pkt s.cfg.localA s.cfg.target s.cfg.echoId ttl = true ∧ s.cfg.min ≤ ttl ∧ ttl ≤ s.cfg.max := by
  unfold icmpSend at h
  split at h; · simp at h
  rename_i hr
  split at h; · simp at h
  simp only [SendRes.ok.injEq] at h
  obtain ⟨_, rfl⟩ := h
  have h16 : ¬ s.cfg.localA.length = 16 := by omega
  simp only [h16, if_false]
  exact ⟨icmp4_wf h4.1 h4.2 hid (by omega), by omega, by omega⟩

/-- UDP/IPv4 identifier 41821 + t (mod 2^16) is injective on TTLs 0..255 -/
theorem c06_id_injective_udp4 {t t' : Nat} (ht : t ≤ 255) (ht' : t' ≤ 255) (h : udp4Id t = udp4Id t') : t = t' := by
  unfold udp4Id at h; omega

/-- UDP/IPv6 identifier (payload length 13 + t) is injective -/
theorem c06_id_injective_udp6 {t t' : Nat} (h : udp6Id t = udp6Id t') : t = t' := by
  unfold udp6Id at h; omega

/-- TCP default mode: IP id = base + t (mod 2^16) is injective on TTLs 0..255 for EVERY base -/
theorem c06_id_injective_tcp (cfg : TcpCfg) (hp : cfg.paris = false) {t t' r r' : Nat} (ht : t ≤ 255) (ht' : t' ≤ 255)
    (h : (tcpIds cfg t r).1 = (tcpIds cfg t' r').1) : t = t' := by
  unfold tcpIds at h
  simp only [hp, Bool.false_eq_true, if_false] at h
  omega

/-- TCP Paris mode: the per-probe identifier is the (random) sequence number; distinct draws give
    distinct identifiers (uniqueness holds up to 32-bit collisions of the draws, as C06 states) -/
theorem c06_id_paris (cfg : TcpCfg) (hp : cfg.paris = true) {t t' r r' : Nat} (hr : r ≠ r') :
    (tcpIds cfg t r).2 ≠ (tcpIds cfg t' r').2 := by
  unfold tcpIds; simp [hp, hr]

/-- SACK: sequence number ISN + t (mod 2^32) is injective on TTLs 0..255 for EVERY ISN -/
theorem c06_id_injective_sack {isn t t' : Nat} (ht : t ≤ 255) (ht' : t' ≤ 255)
    (h : (isn + t) % 4294967296 = (isn + t') % 4294967296) : t = t' := by omega

/-- ICMP: the sequence number IS the TTL -/
theorem c06_id_injective_icmp {s : IcmpSt} {t t' now : Nat} {s1 s2 : IcmpSt} {p1 p2 : Bytes}
    (h1 : icmpSend s t now = .ok s1 p1) (h2 : icmpSend s1 t' now = .ok s2 p2) : t ≠ t' := by
  unfold icmpSend at h1 h2
  split at h1; · simp at h1
  split at h1; · simp at h1
  simp only [SendRes.ok.injEq] at h1
  obtain ⟨rfl, _⟩ := h1
  split at h2; · simp at h2
  split at h2
  · simp at h2
  · rename_i hf
    intro heq; subst heq
    apply hf
    simp [IcmpSt.find, List.find?_append]

/-- order: in every reachable state of the interleaving model the probes sent so far are exactly
    min, min+1, …, next−1 in this order -/
theorem c06_order {minT maxT : Nat} {s : St} (hv : minT ≤ maxT) (h : Reach minT maxT s) :
    s.sends.reverse = List.range' minT (s.next - minT) ∧ s.next ≤ maxT + 1 := by
  obtain ⟨h1, _, _, h4⟩ := sends_in_order hv h
  exact ⟨by rw [h1]; simp, h4⟩

/-- at most one probe per TTL -/
theorem c06_one_per_ttl {minT maxT : Nat} {s : St} (hv : minT ≤ maxT) (h : Reach minT maxT s) :
    s.sends.Nodup := by
  obtain ⟨h1, _, _, _⟩ := sends_in_order hv h
  rw [h1]
  have := List.nodup_range' (s := minT) (n := s.next - minT)
  unfold List.Nodup at *
  rw [List.pairwise_reverse]
  exact this.imp (fun h => Ne.symm h)

/-- none after the destination answer was seen, one already in flight excepted -/
theorem c06_stop_after_dest {minT maxT : Nat} {s : St} (h : Reach minT maxT s) : s.sendsAfterCancel ≤ 1 :=
  (sends_after_cancel h).1

/-- pacing, parallel engine: TTLs go up by one from the first TTL and consecutive `SendProbe` calls
    start at least `SendDelay` apart, for every script, send duration, failure and cancellation -/
theorem c06_paced_parallel (c : Timed.Cfg) (cancel : Option Nat) (sd : Nat → Nat) (sfail : Nat → Bool)
    (start : Nat) (script : List Timed.RCall) :
    Paced c.delay (Timed.parallelT c cancel sd sfail start script).sends ∧
    ∀ a ∈ (Timed.parallelT c cancel sd sfail start script).sends.head?, a.1 = c.min ∧ start ≤ a.2 :=
  parallelT_paced c cancel sd sfail start script

/-- pacing, serial engine -/
theorem c06_paced_serial (c : Timed.Cfg) (cancel : Option Nat) (sd : Nat → Nat) (sfail : Nat → Bool)
    (start : Nat) (script : List Timed.RCall) :
    Paced c.delay (Timed.serialT c cancel sd sfail start script).sends ∧
    ∀ a ∈ (Timed.serialT c cancel sd sfail start script).sends.head?, a.1 = c.min ∧ start ≤ a.2 :=
  serialT_paced c cancel sd sfail start script

/-- pairwise form of `Paced`: emissions `k` positions apart are `k` TTLs and ≥ `k · d` apart -/
theorem c06_paced_pairwise {d : Nat} (l : List (Nat × Nat)) (j k : Nat) (a b : Nat × Nat)
    (hp : Paced d l) (ha : l[j]? = some a) (hb : l[j + k]? = some b) : b.1 = a.1 + k ∧ a.2 + k * d ≤ b.2 :=
  paced_get l j k a b hp ha hb

/-- non-vacuity: a 4-hop parallel run with a slow second send (7 ms against a 5 ms delay) emits
    four probes, the gap after the slow one is NOT shortened -/
example :
    (Timed.parallelT { min := 1, max := 4, timeout := 100, delay := 5, poll := 1 } none
        (fun i => if i = 2 then 7 else 0) (fun _ => false) 0 []).sends = [(1, 0), (2, 5), (3, 17), (4, 22)] := by
  decide +kernel

#print axioms c06_paced_parallel
#print axioms c06_paced_serial
#print axioms c06_paced_pairwise
#print axioms c06_icmp4_wf
#print axioms c06_icmp6_wf
#print axioms c06_udp4_wf
#print axioms c06_udp6_wf
#print axioms c06_tcpSyn_wf
#print axioms c06_sack_wf
#print axioms c06_icmp_send_wf
#print axioms c06_id_injective_udp4
#print axioms c06_id_injective_udp6
#print axioms c06_id_injective_tcp
#print axioms c06_id_paris
#print axioms c06_id_injective_sack
#print axioms c06_id_injective_icmp
#print axioms c06_order
#print axioms c06_one_per_ttl
#print axioms c06_stop_after_dest
end TRV.Props.C06
