import TRV.Proofs.Params
import TRV.Generated.ParamsFacts
/-!
# C19 — Parameters are honoured exactly or rejected, never wrapped; no crash

`run ttlRangeChecked sackTableInt p` is the parameter-path model; the two booleans describe the
code and are REGENERATED from the source (`TRV.Generated.ParamsFacts`, written by
`harness/extract/params.go` on every check).

* `c19_honoured_or_rejected_full tc si` / `c19_no_crash_full tc si` — the two statements for a given
  code description; proved for the fixed code `(true, true)`, refuted (with concrete witnesses) for
  every unfixed description;
* `c19_honoured_or_rejected`, `c19_no_crash` — the headline theorems, stated for the REGENERATED
  description.  They are proved by first establishing `Generated.ttlRangeChecked = true` and
  `Generated.sackTableInt = true` by `rfl`: on a tree where a fact is `false` these do not compile,
  which is the intended red state (findings F1/F2), not a vacuous pass.
-/
namespace TRV.Props.C19
open TRV.Params TRV.Spec.Params TRV.Proofs.Params
open TRV.Policy (Method)

/-- every request is rejected, or its probes are exactly the requested ones -/
def c19_honoured_or_rejected_full (tc si : Bool) : Prop :=
  ∀ p : P, run tc si p = .reject ∨ ∃ pl, run tc si p = .plan pl ∧ Honoured p pl

/-- no request makes the process crash -/
def c19_no_crash_full (tc si : Bool) : Prop := ∀ p : P, run tc si p ≠ .crash

private theorem acceptable_fixed (p : P) : acceptable p (run true true p) = true := by
  unfold run runOnce
  by_cases hr : (ttlInRange p.minTTL && ttlInRange p.maxTTL) = true
  · have hb : (1 ≤ p.minTTL ∧ p.minTTL ≤ 255) ∧ (1 ≤ p.maxTTL ∧ p.maxTTL ≤ 255) := by
      simpa [ttlInRange_iff] using hr
    obtain ⟨⟨h1, h2⟩, ⟨h3, h4⟩⟩ := hb
    simp only [hr, Bool.not_true, Bool.and_false, Bool.false_eq_true, if_false,
      u8_of_inRange h1 h2, u8_of_inRange h3 h4]
    -- the generic plan obligation
    have plan_ok : ∀ (pl : Plan), engineValid p.minTTL.toNat p.maxTTL.toNat = true →
        pl.ttls = ttlList p.minTTL.toNat p.maxTTL.toNat → portHonoured p pl = true →
        protoHonoured p pl = true → methodHonoured p pl = true → acceptable p (.plan pl) = true := by
      intro pl hv ht hp hpr hm
      simp [acceptable, honoured, ttlsHonoured_of h1 h4 hv ht, hp, hpr, hm]
    cases hproto : p.proto with
    | other => simp [acceptable]
    | udp =>
      simp only []
      cases hpt : parseTarget p.litPort (destPort p.port) with
      | none => simp [acceptable]
      | some q =>
        simp only []
        by_cases hv : engineValid p.minTTL.toNat p.maxTTL.toNat = true
        · simp only [hv, Bool.not_true, Bool.false_eq_true, if_false]
          apply plan_ok _ hv rfl
          · exact portHonoured_of_parse (by simp [hproto]) hpt rfl
          · simp [protoHonoured, hproto]
          · simp [methodHonoured, hproto]
        · simp [hv, acceptable]
    | icmp =>
      simp only []
      cases hpt : parseTarget p.litPort 80 with
      | none => simp [acceptable]
      | some q =>
        simp only []
        by_cases hv : engineValid p.minTTL.toNat p.maxTTL.toNat = true
        · simp only [hv, Bool.not_true, Bool.false_eq_true, if_false]
          apply plan_ok _ hv rfl
          · simp [portHonoured, hproto]
          · simp [protoHonoured, hproto]
          · simp [methodHonoured, hproto]
        · simp [hv, acceptable]
    | tcp =>
      simp only []
      cases hpt : parseTarget p.litPort (destPort p.port) with
      | none => simp [acceptable]
      | some q =>
        simp only []
        have hport : ∀ pl : Plan, pl.port = some q → portHonoured p pl = true :=
          fun pl h => portHonoured_of_parse (by simp [hproto]) hpt h
        -- the two TCP runners
        have syn_ok : (p.method = .empty ∨ p.method = .syn ∨ p.method = .preferSack) →
            acceptable p (synRun p.minTTL.toNat p.maxTTL.toNat q p.v6) = true := by
          intro hm
          unfold synRun
          by_cases hv : engineValid p.minTTL.toNat p.maxTTL.toNat = true
          · cases h6 : p.v6
            · simp only [hv, Bool.not_true, Bool.false_eq_true, if_false]
              apply plan_ok _ hv rfl (hport _ rfl)
              · simp [protoHonoured, hproto, h6]
              · rcases hm with hm | hm | hm <;> simp [methodHonoured, hproto, hm]
            · simp [hv, acceptable]
          · simp [hv, acceptable]
        have sack_ok : (p.method = .sack ∨ p.method = .preferSack) → p.v6 = false →
            acceptable p (sackRun true p.minTTL.toNat p.maxTTL.toNat q) = true := by
          intro hm h6
          unfold sackRun
          by_cases hv : engineValid p.minTTL.toNat p.maxTTL.toNat = true
          · simp only [hv, Bool.not_true, Bool.false_eq_true, if_false, sackSend_int]
            apply plan_ok _ hv rfl (hport _ rfl)
            · simp [protoHonoured, hproto, h6]
            · rcases hm with hm | hm <;> simp [methodHonoured, hproto, hm]
          · simp [hv, acceptable]
        cases hm : p.method with
        | empty => simpa [hm] using syn_ok (Or.inl hm)
        | syn => simpa [hm] using syn_ok (Or.inr (Or.inl hm))
        | synSocket => simp [acceptable]
        | other => simp [acceptable]
        | sack =>
          cases h6 : p.v6
          · cases ha : p.avail
            · simpa [sackAttempt, hm] using sack_ok (Or.inl hm) h6
            · simp [sackAttempt, acceptable]
            · simp [sackAttempt, acceptable]
          · simp [sackAttempt, acceptable]
        | preferSack =>
          cases h6 : p.v6
          · cases ha : p.avail
            · simpa [sackAttempt, hm] using sack_ok (Or.inr hm) h6
            · simpa [sackAttempt, hm, h6] using syn_ok (Or.inr (Or.inr hm))
            · simp [sackAttempt, acceptable]
          · simp [sackAttempt, acceptable]
  · have hr' : (ttlInRange p.minTTL && ttlInRange p.maxTTL) = false := by simpa using hr
    simp [hr', acceptable]

private theorem of_acceptable {p : P} {o : Outcome} (h : acceptable p o = true) :
    (o = .reject ∨ ∃ pl, o = .plan pl ∧ Honoured p pl) ∧ o ≠ .crash := by
  cases o with
  | reject => exact ⟨Or.inl rfl, by simp⟩
  | plan pl => exact ⟨Or.inr ⟨pl, rfl, h⟩, by simp⟩
  | crash => simp [acceptable] at h

/-- For code that range-checks the TTL bounds and sizes the SACK table in `int`: every request is
    rejected or honoured exactly — all integers for both TTL bounds and the port, every protocol and
    method, every target literal shape, every SACK availability. -/
theorem c19_honoured_or_rejected_fixed : c19_honoured_or_rejected_full true true :=
  fun p => (of_acceptable (acceptable_fixed p)).1

/-- … and no request crashes the process. -/
theorem c19_no_crash_fixed : c19_no_crash_full true true :=
  fun p => (of_acceptable (acceptable_fixed p)).2

/-- witness F1a: UDP, TTL 1..300 -/
def witnessWrap : P :=
  { proto := .udp, method := .empty, minTTL := 1, maxTTL := 300, port := 0, litPort := .absent, v6 := false, avail := .capable }
/-- witness F1b: UDP, TTL −1..−1 -/
def witnessNeg : P :=
  { proto := .udp, method := .empty, minTTL := -1, maxTTL := -1, port := 0, litPort := .absent, v6 := false, avail := .capable }
/-- witness F2: SACK-capable target, method sack, TTL 1..255 -/
def witnessSack : P :=
  { proto := .tcp, method := .sack, minTTL := 1, maxTTL := 255, port := 443, litPort := .absent, v6 := false, avail := .capable }

/-- F1, concretely: without the range check MaxTTL = 300 is accepted and probes TTL 1..44, and
    MinTTL = MaxTTL = −1 is accepted and probes TTL 255 -/
theorem c19_unchecked_wraps (si : Bool) :
    run false si witnessWrap = .plan { proto := .udp, kind := .none, port := some 33434, v6 := false, ttls := List.range' 1 44 } ∧
    run false si witnessNeg = .plan { proto := .udp, kind := .none, port := some 33434, v6 := false, ttls := [255] } := by
  cases si <;> decide

/-- Without the TTL range check the honoured-or-rejected statement is FALSE (whatever the SACK table). -/
theorem c19_unchecked_refuted (si : Bool) : ¬ c19_honoured_or_rejected_full false si := by
  intro h
  rcases h witnessWrap with hrej | ⟨pl, hpl, hh⟩
  · rw [(c19_unchecked_wraps si).1] at hrej; cases hrej
  · rw [(c19_unchecked_wraps si).1] at hpl
    cases hpl
    have hf : honoured witnessWrap
        { proto := .udp, kind := .none, port := some 33434, v6 := false, ttls := List.range' 1 44 } = false := by decide
    simp [Honoured, hf] at hh

/-- F2, concretely: with the table sized in 8-bit arithmetic, SACK with MaxTTL = 255 crashes. -/
theorem c19_sack_table_crashes (tc : Bool) : run tc false witnessSack = .crash := by
  cases tc <;> decide

/-- With the 8-bit SACK table both statements are FALSE (whatever the range check). -/
theorem c19_sack8_refuted (tc : Bool) :
    ¬ c19_no_crash_full tc false ∧ ¬ c19_honoured_or_rejected_full tc false := by
  refine ⟨fun h => h witnessSack (c19_sack_table_crashes tc), fun h => ?_⟩
  rcases h witnessSack with hrej | ⟨pl, hpl, _⟩
  · rw [c19_sack_table_crashes tc] at hrej; cases hrej
  · rw [c19_sack_table_crashes tc] at hpl; cases hpl

/-- HEADLINE (about the code as it is now, through the regenerated facts): every request is rejected
    or honoured exactly. Does not compile while a regenerated fact is `false`. -/
theorem c19_honoured_or_rejected :
    ∀ p : P, run Generated.ttlRangeChecked Generated.sackTableInt p = .reject ∨
      ∃ pl, run Generated.ttlRangeChecked Generated.sackTableInt p = .plan pl ∧ Honoured p pl := by
  have h1 : Generated.ttlRangeChecked = true := rfl
  have h2 : Generated.sackTableInt = true := rfl
  rw [h1, h2]
  exact c19_honoured_or_rejected_fixed

/-- HEADLINE: no accepted value — including the extremes 1 and 255 — crashes the process. -/
theorem c19_no_crash :
    ∀ p : P, run Generated.ttlRangeChecked Generated.sackTableInt p ≠ .crash := by
  have h1 : Generated.ttlRangeChecked = true := rfl
  have h2 : Generated.sackTableInt = true := rfl
  rw [h1, h2]
  exact c19_no_crash_fixed

/-- non-vacuity: the extremes are honoured by the fixed code, and an honoured SACK run at MaxTTL 255 -/
example : run true true { witnessSack with minTTL := 254 } =
    .plan { proto := .tcp, kind := .sack, port := some 443, v6 := false, ttls := [254, 255] } := by decide
example : run true true witnessWrap = .reject ∧ run true true witnessNeg = .reject := by decide
example : honoured { witnessSack with minTTL := 254 }
    { proto := .tcp, kind := .sack, port := some 443, v6 := false, ttls := [254, 255] } = true := by decide

#print axioms c19_honoured_or_rejected_fixed
#print axioms c19_no_crash_fixed
#print axioms c19_unchecked_wraps
#print axioms c19_unchecked_refuted
#print axioms c19_sack_table_crashes
#print axioms c19_sack8_refuted
#print axioms c19_honoured_or_rejected
#print axioms c19_no_crash
end TRV.Props.C19
