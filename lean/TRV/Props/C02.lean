import TRV.Proofs.Sound
import TRV.Proofs.Drivers
import TRV.Proofs.Engine
import TRV.Proofs.Complete6
set_option linter.unusedSimpArgs false
/-!
# C02 — Recognition completeness: every genuine reply form yields its hop

Two layers.

* Matcher level (`c02_*_view`): whenever the decoded view of a packet carries the identifying
  fields of a reply to a probe this run has sent, the driver model ACCEPTS it with the probed TTL,
  the responder's address and the destination flag of C04 — there is no further hidden condition
  (in particular strict source checking looks at the QUOTED source, and relaxed checking at nothing).
  Together with the decoders' success on well-formed packets this is the converse of C01.
* Engine level (`c02_parallel_reported`, `c02_serial_reported`): an accepted reply for TTL t that
  is not beyond the destination hop is reported in the hop list (first accepted reply per TTL;
  for the serial engine under the stated restriction that a window only sees replies to its own
  TTL).

Byte level (`c02_*_bytes`): for the ICMP-error family of the catalogue — time-exceeded /
destination-unreachable from any router, ARBITRARY outer TOS/id/TTL/checksum, arbitrary ICMP code
where the driver allows it, arbitrary 4 bytes after the ICMP checksum (unused field or RFC 4884
length), quoted header with arbitrary rewritten TOS/TTL/checksum/flags and any quoted length ≥ 28,
followed by ANY trailing bytes (28-byte quote, full datagram, RFC 4884 padding + extension objects)
— the matcher models accept, for every TTL, identifier base and ISN (wrap-around included).
Outer IPv4 options and the direct TCP/echo forms are tied to the real drivers by the catalogue
correspondence run (`TestC02`), form by form, not proved.
-/
namespace TRV.Props.C02
open TRV TRV.Wire TRV.Drv TRV.Spec TRV.Proofs TRV.Engine

/-- ICMP/IPv4 time-exceeded (any code) quoting our echo request -/
theorem c02_icmp4_te_view {s : IcmpSt} {pkt : Bytes} {h : IP4} {i : ICMP4} {info : ICMPInfo} {t : Nat} {p : Sent}
    (hne : pkt ≠ []) (hp : parse (pkt.take bufSize) = some (.v4 h, .icmp4 i)) (hty : i.type = 11)
    (hi : icmpInfo4 i = some info) (hd : info.qdst = s.cfg.target) (hs : info.qsrc = s.cfg.localA)
    (hpr : info.proto = 1)
    (he : parseEcho4 info.payload = some (s.cfg.echoId, t)) (hl : icmpLookup s t = some p) :
    icmpRecv s pkt = .accept t h.src false p.time := by
  unfold icmpRecv
  simp [isEmpty_false_of_ne hne, hne, hp, hty, hi, hd, hs, hpr, he, hl, L3.src]

/-- ICMP/IPv4 echo reply from the target -/
theorem c02_icmp4_echo_view {s : IcmpSt} {pkt : Bytes} {h : IP4} {i : ICMP4} {p : Sent}
    (hne : pkt ≠ []) (hp : parse (pkt.take bufSize) = some (.v4 h, .icmp4 i)) (hty : i.type = 0)
    (hid : i.id = s.cfg.echoId) (hsrc : h.src = s.cfg.target) (hl : icmpLookup s i.seq = some p) :
    icmpRecv s pkt = .accept i.seq h.src true p.time := by
  unfold icmpRecv
  simp [isEmpty_false_of_ne hne, hne, hp, hty, hid, hsrc, hl, L3.src]

/-- UDP (both families share the code path): matched ICMP error quoting our datagram; relaxed mode
    ignores the quoted source, strict mode needs it to be the probe's own -/
theorem c02_udp4_view {s : UdpSt} {pkt : Bytes} {h : IP4} {i : ICMP4} {info : ICMPInfo} {sp dp : Nat} {p : Sent}
    (hne : pkt ≠ []) (hp : parse (pkt.take bufSize) = some (.v4 h, .icmp4 i))
    (hty : (i.type = 11 ∧ i.code = 0) ∨ i.type = 3) (hi : icmpInfo4 i = some info) (hpr : info.proto = 17)
    (hq : quotedPorts info.payload = some (sp, dp)) (hd : info.qdst = s.cfg.target ∧ dp = s.cfg.tport)
    (hs : s.cfg.loosen = true ∨ (info.qsrc = s.cfg.localA ∧ sp = s.cfg.lport))
    (hf : s.sent.find? (·.id = info.wrappedId) = some p) :
    udpRecv s pkt = .accept p.ttl h.src (decide (h.src = s.cfg.target)) p.time := by
  unfold udpRecv
  simp only [isEmpty_false_of_ne hne, hne, hp, hty, hi, hpr, hq, hd, hf, L3.src, Bool.false_eq_true, if_false, if_true]
  rcases hs with hs | hs
  · simp [hs]; try rfl
  · simp [hs]; try rfl

/-- TCP SYN: time-exceeded quoting the (IP id, sequence number) of a sent probe -/
theorem c02_tcp_te_view {s : TcpSt} {pkt : Bytes} {h : IP4} {i : ICMP4} {info : ICMPInfo} {sp dp sq : Nat} {p : Sent}
    (hne : pkt ≠ []) (hp : parse (pkt.take bufSize) = some (.v4 h, .icmp4 i))
    (hty : i.type = 11 ∧ i.code = 0) (hi : icmpInfo4 i = some info) (hpr : info.proto = 6)
    (hq : quotedPorts info.payload = some (sp, dp)) (hsq : quotedSeq info.payload = some sq)
    (hd : info.qdst = s.cfg.target ∧ dp = s.cfg.tport)
    (hs : s.cfg.loosen = true ∨ (info.qsrc = s.cfg.localA ∧ sp = s.cfg.lport))
    (hf : s.sent.find? (fun x => x.id = info.wrappedId ∧ x.seq = sq) = some p) :
    tcpRecv s pkt = .accept p.ttl h.src false p.time := by
  unfold tcpRecv
  simp only [isEmpty_false_of_ne hne, hne, hp, hty, hi, hpr, hq, hsq, hd, hf, L3.src, Bool.false_eq_true, if_false, if_true]
  rcases hs with hs | hs
  · simp [hs]; try rfl
  · simp [hs]; try rfl

/-- TCP SYN: SYN-ACK / RST / RST-ACK on the reversed tuple, acknowledging the last probe -/
theorem c02_tcp_direct_view {s : TcpSt} {pkt : Bytes} {h : IP4} {t : TCP} {last : Sent}
    (hne : pkt ≠ []) (hp : parse (pkt.take bufSize) = some (.v4 h, .tcp t))
    (hfl : (t.syn = true ∧ t.ackf = true) ∨ t.rst = true)
    (hpair : h.src = s.cfg.target ∧ h.dst = s.cfg.localA) (hsp : s.cfg.tport = t.sport) (hdp : s.cfg.lport = t.dport)
    (hlast : s.sent.getLast? = some last)
    (hack : t.ackf = true → last.seq = (t.ack + 4294967295) % 4294967296) :
    tcpRecv s pkt = .accept last.ttl h.src true last.time := by
  unfold tcpRecv
  simp only [isEmpty_false_of_ne hne, hne, hp, L3.src, L3.dst, hpair, hsp, hdp, hlast]
  cases hs : t.syn <;> cases ha : t.ackf <;> cases hr : t.rst <;> simp_all

/-- SACK: selective ACK from the target whose smallest relative left edge is a sent TTL -/
theorem c02_sack_direct_view {s : SackSt} {pkt : Bytes} {h : IP4} {t : TCP} {rel : Nat} {p : Sent}
    (hne : pkt ≠ []) (hp : parse (pkt.take bufSize) = some (.v4 h, .tcp t))
    (hpair : h.src = s.cfg.target ∧ h.dst = s.cfg.localA) (hsp : s.cfg.tport = t.sport) (hdp : s.cfg.lport = t.dport)
    (hfl : t.syn = false ∧ t.fin = false ∧ t.rst = false)
    (hm : minSack s.cfg.isn t.opts = some rel) (hl : sackLookup s rel = some p) :
    sackRecv s pkt = .accept rel h.src true p.time := by
  unfold sackRecv
  simp [isEmpty_false_of_ne hne, hne, hp, L3.src, L3.dst, hpair, hsp, hdp, hfl, hm, hl]

/-- SACK: time-exceeded quoting sequence number ISN + t; strict mode compares the QUOTED source -/
theorem c02_sack_te_view {s : SackSt} {pkt : Bytes} {h : IP4} {i : ICMP4} {info : ICMPInfo} {sp dp sq : Nat} {p : Sent}
    (hne : pkt ≠ []) (hp : parse (pkt.take bufSize) = some (.v4 h, .icmp4 i))
    (hty : i.type = 11 ∧ i.code = 0) (hi : icmpInfo4 i = some info) (hpr : info.proto = 6)
    (hq : quotedPorts info.payload = some (sp, dp)) (hsq : quotedSeq info.payload = some sq)
    (hd : info.qdst = s.cfg.target ∧ dp = s.cfg.tport)
    (hs : s.cfg.loosen = true ∨ (info.qsrc = s.cfg.localA ∧ sp = s.cfg.lport))
    (hl : sackLookup s ((sq + 4294967296 - s.cfg.isn % 4294967296) % 4294967296) = some p) :
    sackRecv s pkt = .accept ((sq + 4294967296 - s.cfg.isn % 4294967296) % 4294967296) h.src
      (decide (h.src = s.cfg.target)) p.time := by
  unfold sackRecv
  simp only [isEmpty_false_of_ne hne, hne, hp, hty, hi, hpr, hq, hsq, hd, hl, L3.src, Bool.false_eq_true, if_false, if_true]
  rcases hs with hs | hs
  · simp [hs]; try rfl
  · simp [hs]; try rfl

/-- engine level, parallel: every accepted reply whose TTL is not beyond the destination hop is
    reported — its slot holds an accepted reply for that TTL (the earliest, or a destination reply) -/
theorem c02_parallel_reported {min max : Nat} {outs : List ROut} {r : List (Option Probe)} {p : Probe}
    (h : parallelRun min max true outs false false = .ok r) (hp : p ∈ accepted outs)
    (hcut : p.ttl ≤ cutOf (accepted outs) max) :
    ∃ q ∈ accepted outs, q.ttl = p.ttl ∧ r[p.ttl - min]? = some (some q) := by
  obtain ⟨hr, hmin, _, hv⟩ := parallel_result h
  subst hr
  have hvp := hv p hp
  simp [validProbe] at hvp
  obtain ⟨q, hq1, hq2, hq3, _⟩ := all_reflected (accepted outs) p hp
  refine ⟨q, hq2, hq3, ?_⟩
  simp only [expected, List.getElem?_map, List.getElem?_range']
  have : p.ttl - min < cutOf (accepted outs) max + 1 - min := by omega
  simp [this]
  have e : min + (p.ttl - min) = p.ttl := by omega
  rw [e, ← merge_eq_best]; exact hq1

/-- ICMP/IPv4, bytes: see the module comment -/
theorem c02_icmp4_te_bytes {s : IcmpSt} {t : Nat} {p : Sent}
    {otos oid ottl ock code ick qtos qlen qid qff qttl qck ety ecode eck : Nat} {r rest4 extra : Bytes}
    (hl : s.cfg.localA.length = 4) (htg : s.cfg.target.length = 4) (hr : r.length = 4) (hrest : rest4.length = 4)
    (b1 : otos < 256) (b2 : oid < 65536) (b3 : ottl < 256) (b4 : code < 256)
    (b5 : qtos < 256) (b6 : 28 ≤ qlen) (b7 : qlen < 65536) (b8 : qid < 65536) (b9 : qff < 65536) (b10 : qttl < 256)
    (b11 : ety = 8 ∨ ety = 0) (b12 : ecode < 256) (b13 : s.cfg.echoId < 65536) (b14 : t < 65536)
    (hsize : 28 + (28 + extra.length) ≤ 1024) (hlk : icmpLookup s t = some p) :
    icmpRecv s (icmpMsg4 otos oid ottl ock r s.cfg.localA 11 code ick rest4
        (rawHdr4 qtos qlen qid qff qttl 1 qck s.cfg.localA s.cfg.target ++
          (([byte ety, byte ecode] ++ be16 eck ++ be16 s.cfg.echoId ++ be16 t) ++ extra))) =
      .accept t r false p.time :=
  icmp4_te_complete hl htg hr hrest b1 b2 b3 b4 b5 b6 b7 b8 b9 b10 b11 b12 b13 b14 hsize hlk

/-- UDP/IPv4, bytes -/
theorem c02_udp4_err_bytes {s : UdpSt} {p : Sent}
    {otos oid ottl ock ty code ick qtos qlen qff qttl qck : Nat} {r rest4 w extra : Bytes}
    (hl : s.cfg.localA.length = 4) (htg : s.cfg.target.length = 4) (hr : r.length = 4) (hrest : rest4.length = 4)
    (hw : w.length = 4)
    (b1 : otos < 256) (b2 : oid < 65536) (b3 : ottl < 256) (b4 : code < 256) (hty : (ty = 11 ∧ code = 0) ∨ ty = 3)
    (b5 : qtos < 256) (b6 : 28 ≤ qlen) (b7 : qlen < 65536) (b8 : p.id < 65536) (b9 : qff < 65536) (b10 : qttl < 256)
    (b11 : s.cfg.lport < 65536) (b12 : s.cfg.tport < 65536)
    (hsize : 28 + (28 + extra.length) ≤ 1024) (hf : s.sent.find? (·.id = p.id) = some p) :
    udpRecv s (icmpMsg4 otos oid ottl ock r s.cfg.localA ty code ick rest4
        (rawHdr4 qtos qlen p.id qff qttl 17 qck s.cfg.localA s.cfg.target ++
          ((be16 s.cfg.lport ++ be16 s.cfg.tport ++ w) ++ extra))) =
      .accept p.ttl r (decide (r = s.cfg.target)) p.time :=
  udp4_err_complete hl htg hr hrest hw b1 b2 b3 b4 hty b5 b6 b7 b8 b9 b10 b11 b12 hsize hf

/-- TCP SYN, bytes -/
theorem c02_tcp_te_bytes {s : TcpSt} {p : Sent}
    {otos oid ottl ock ick qtos qlen qff qttl qck : Nat} {r rest4 extra : Bytes}
    (hl : s.cfg.localA.length = 4) (htg : s.cfg.target.length = 4) (hr : r.length = 4) (hrest : rest4.length = 4)
    (b1 : otos < 256) (b2 : oid < 65536) (b3 : ottl < 256)
    (b5 : qtos < 256) (b6 : 28 ≤ qlen) (b7 : qlen < 65536) (b8 : p.id < 65536) (b9 : qff < 65536) (b10 : qttl < 256)
    (b11 : s.cfg.lport < 65536) (b12 : s.cfg.tport < 65536) (b13 : p.seq < 4294967296)
    (hsize : 28 + (28 + extra.length) ≤ 1024)
    (hf : s.sent.find? (fun x => x.id = p.id ∧ x.seq = p.seq) = some p) :
    tcpRecv s (icmpMsg4 otos oid ottl ock r s.cfg.localA 11 0 ick rest4
        (rawHdr4 qtos qlen p.id qff qttl 6 qck s.cfg.localA s.cfg.target ++
          ((be16 s.cfg.lport ++ be16 s.cfg.tport ++ be32 p.seq) ++ extra))) =
      .accept p.ttl r false p.time :=
  tcp_te_complete hl htg hr hrest b1 b2 b3 b5 b6 b7 b8 b9 b10 b11 b12 b13 hsize hf

/-- SACK, bytes (every ISN, wrap-around included) -/
theorem c02_sack_te_bytes {s : SackSt} {t : Nat} {p : Sent}
    {otos oid ottl ock ick qtos qlen qid qff qttl qck : Nat} {r rest4 extra : Bytes}
    (hl : s.cfg.localA.length = 4) (htg : s.cfg.target.length = 4) (hr : r.length = 4) (hrest : rest4.length = 4)
    (b1 : otos < 256) (b2 : oid < 65536) (b3 : ottl < 256)
    (b5 : qtos < 256) (b6 : 28 ≤ qlen) (b7 : qlen < 65536) (b8 : qid < 65536) (b9 : qff < 65536) (b10 : qttl < 256)
    (b11 : s.cfg.lport < 65536) (b12 : s.cfg.tport < 65536) (b13 : s.cfg.isn < 4294967296) (b14 : t < 4294967296)
    (hsize : 28 + (28 + extra.length) ≤ 1024) (hlk : sackLookup s t = some p) :
    sackRecv s (icmpMsg4 otos oid ottl ock r s.cfg.localA 11 0 ick rest4
        (rawHdr4 qtos qlen qid qff qttl 6 qck s.cfg.localA s.cfg.target ++
          ((be16 s.cfg.lport ++ be16 s.cfg.tport ++ be32 ((s.cfg.isn + t) % 4294967296)) ++ extra))) =
      .accept t r (decide (r = s.cfg.target)) p.time :=
  sack_te_complete hl htg hr hrest b1 b2 b3 b5 b6 b7 b8 b9 b10 b11 b12 b13 b14 hsize hlk

/-- ICMP/IPv4, bytes, destination form: echo reply of the target -/
theorem c02_icmp4_echo_bytes {s : IcmpSt} {t : Nat} {p : Sent}
    {otos oid ottl ock code ick : Nat} {body : Bytes}
    (hl : s.cfg.localA.length = 4) (htg : s.cfg.target.length = 4)
    (b1 : otos < 256) (b2 : oid < 65536) (b3 : ottl < 256) (b4 : code < 256)
    (b13 : s.cfg.echoId < 65536) (b14 : t < 65536)
    (hsize : 28 + body.length ≤ 1024) (hlk : icmpLookup s t = some p) :
    icmpRecv s (icmpMsg4 otos oid ottl ock s.cfg.target s.cfg.localA 0 code ick (be16 s.cfg.echoId ++ be16 t) body) =
      .accept t s.cfg.target true p.time :=
  icmp4_echo_complete hl htg b1 b2 b3 b4 b13 b14 hsize hlk

/-- TCP SYN, bytes, direct forms: SYN-ACK / RST / RST-ACK without TCP options (any other flag bits,
    sequence number, window, checksum, urgent pointer, payload; DF or not), acknowledging the last
    probe when ACK is set (replies WITH options: `c02_tcp_direct_view` + the catalogue run) -/
theorem c02_tcp_direct_bytes {s : TcpSt} {last : Sent}
    {otos oid ff ottl ock seq ack fl win ck urg : Nat} {pl : Bytes}
    (hl : s.cfg.localA.length = 4) (htg : s.cfg.target.length = 4)
    (h1 : otos < 256) (h2 : oid < 65536) (h3 : ottl < 256) (hff : ff < 65536) (hfr : ff % 16384 = 0)
    (b1 : s.cfg.tport < 65536) (b2 : s.cfg.lport < 65536) (b3 : seq < 4294967296) (b4 : ack < 4294967296) (b5 : fl < 256)
    (hfl : ((fl / 2) % 2 = 1 ∧ (fl / 16) % 2 = 1) ∨ (fl / 4) % 2 = 1)
    (hlast : s.sent.getLast? = some last)
    (hack : (fl / 16) % 2 = 1 → last.seq = (ack + 4294967295) % 4294967296)
    (hsize : 40 + pl.length ≤ 1024) :
    tcpRecv s (tcpMsg4 otos oid ff ottl ock s.cfg.target s.cfg.localA s.cfg.tport s.cfg.lport seq ack fl win ck urg pl) =
      .accept last.ttl s.cfg.target true last.time :=
  tcp_direct_complete hl htg h1 h2 h3 hff hfr b1 b2 b3 b4 b5 hfl hlast hack hsize

/-- SACK, bytes, direct form: an ACK carrying NOP NOP SACK(one block) whose left edge is ISN + t
    (every ISN, wrap-around included); other option layouts: `c02_sack_direct_view` + the catalogue run -/
theorem c02_sack_direct_bytes {s : SackSt} {t : Nat} {p : Sent}
    {otos oid ff ottl ock seq ack fl win ck urg right : Nat} {pl : Bytes}
    (hl : s.cfg.localA.length = 4) (htg : s.cfg.target.length = 4)
    (h1 : otos < 256) (h2 : oid < 65536) (h3 : ottl < 256) (hff : ff < 65536) (hfr : ff % 16384 = 0)
    (b1 : s.cfg.tport < 65536) (b2 : s.cfg.lport < 65536) (b3 : seq < 4294967296) (b4 : ack < 4294967296) (b5 : fl < 256)
    (hfl : fl % 2 = 0 ∧ (fl / 2) % 2 = 0 ∧ (fl / 4) % 2 = 0)
    (b6 : s.cfg.isn < 4294967296) (b7 : t < 4294967296) (b8 : right < 4294967296)
    (hsize : 52 + pl.length ≤ 1024) (hlk : sackLookup s t = some p) :
    sackRecv s (rawHdr4 otos (52 + pl.length) oid ff ottl 6 ock s.cfg.target s.cfg.localA ++
        (rawTcpSack s.cfg.tport s.cfg.lport seq ack fl win ck urg ((s.cfg.isn + t) % 4294967296) right ++ pl)) =
      .accept t s.cfg.target true p.time :=
  sack_direct_complete hl htg h1 h2 h3 hff hfr b1 b2 b3 b4 b5 hfl b6 b7 b8 hsize hlk

/-- ICMP/IPv6, bytes: echo reply of the target.  In the three IPv6 theorems `ob1 ob2 ob3` (outer) and
    `qb1 qb2 qb3` (quoted) range over ALL values of the 28 traffic-class / flow-label bits: the upper
    nibble of the traffic class shares byte 0 with the version (`rawHdr6`: byte 0 = 0x60 + (b1/256)%16),
    so a header whose DSCP was rewritten on the way (first byte 0x61..0x6f) is covered. -/
theorem c02_icmp6_echo_bytes {s : IcmpSt} {t : Nat} {p : Sent}
    {ob1 ob2 ob3 ohop code ick : Nat} {body : Bytes}
    (hl : s.cfg.localA.length = 16) (htg : s.cfg.target.length = 16)
    (b3 : ohop < 256) (b4 : code < 256) (b13 : s.cfg.echoId < 65536) (b14 : t < 65536)
    (hsize : 48 + body.length ≤ 1024) (hlk : icmpLookup s t = some p) :
    icmpRecv s (icmpMsg6 ob1 ob2 ob3 ohop s.cfg.target s.cfg.localA 129 code ick (be16 s.cfg.echoId ++ be16 t) body) =
      .accept t s.cfg.target true p.time :=
  icmp6_echo_complete hl htg b3 b4 b13 b14 hsize hlk

/-- ICMP/IPv6, bytes: time-exceeded (any code) quoting our echo request, any trailing bytes -/
theorem c02_icmp6_te_bytes {s : IcmpSt} {t : Nat} {p : Sent}
    {ob1 ob2 ob3 ohop code ick qb1 qb2 qb3 qplen qhop ety ecode eck : Nat} {r rest4 extra : Bytes}
    (hl : s.cfg.localA.length = 16) (htg : s.cfg.target.length = 16) (hr : r.length = 16) (hrest : rest4.length = 4)
    (b3 : ohop < 256) (b4 : code < 256) (b6 : 8 ≤ qplen) (b7 : qplen < 65536) (b10 : qhop < 256)
    (b11 : ety = 128 ∨ ety = 129) (b12 : ecode < 256) (b13 : s.cfg.echoId < 65536) (b14 : t < 65536)
    (hsize : 48 + (48 + extra.length) ≤ 1024) (hlk : icmpLookup s t = some p) :
    icmpRecv s (icmpMsg6 ob1 ob2 ob3 ohop r s.cfg.localA 3 code ick rest4
        (rawHdr6 qb1 qb2 qb3 qplen 58 qhop s.cfg.localA s.cfg.target ++
          (([byte ety, byte ecode] ++ be16 eck ++ be16 s.cfg.echoId ++ be16 t) ++ extra))) =
      .accept t r false p.time :=
  icmp6_te_complete hl htg hr hrest b3 b4 b6 b7 b10 b11 b12 b13 b14 hsize hlk

/-- UDP/IPv6, bytes: time-exceeded (code 0) / destination-unreachable quoting our datagram (quoted
    payload length = the probe's identifier), any trailing bytes -/
theorem c02_udp6_err_bytes {s : UdpSt} {p : Sent}
    {ob1 ob2 ob3 ohop ty code ick qb1 qb2 qb3 qhop : Nat} {r rest4 w extra : Bytes}
    (hl : s.cfg.localA.length = 16) (htg : s.cfg.target.length = 16) (hr : r.length = 16) (hrest : rest4.length = 4)
    (hw : w.length = 4)
    (b3 : ohop < 256) (b4 : code < 256) (hty : (ty = 3 ∧ code = 0) ∨ ty = 1)
    (b6 : 8 ≤ p.id) (b7 : p.id < 65536) (b10 : qhop < 256)
    (b11 : s.cfg.lport < 65536) (b12 : s.cfg.tport < 65536)
    (hsize : 48 + (48 + extra.length) ≤ 1024) (hf : s.sent.find? (·.id = p.id) = some p) :
    udpRecv s (icmpMsg6 ob1 ob2 ob3 ohop r s.cfg.localA ty code ick rest4
        (rawHdr6 qb1 qb2 qb3 p.id 17 qhop s.cfg.localA s.cfg.target ++
          ((be16 s.cfg.lport ++ be16 s.cfg.tport ++ w) ++ extra))) =
      .accept p.ttl r (decide (r = s.cfg.target)) p.time :=
  udp6_err_complete hl htg hr hrest hw b3 b4 hty b6 b7 b10 b11 b12 hsize hf

/-- non-vacuity: a SYN-ACK with DF, ECE and a payload byte acknowledging the last probe (seq 0xffffffff:
    the acknowledgement number wraps to 0) -/
example :
    let cfg : TcpCfg := { localA := [192,0,2,2], lport := 40000, target := [198,51,100,9], tport := 443, loosen := false,
                          paris := false, baseId := 41820, seq := 4294967295 }
    let st : TcpSt := { cfg, sent := [{ ttl := 4, id := 41824, seq := 4294967295, time := 77 }] }
    tcpRecv st (tcpMsg4 0 0 0x4000 61 0xbeef [198,51,100,9] [192,0,2,2] 443 40000 0x51f3a9c7 0 0x52 65535 0 0 [0xaa]) =
      .accept 4 [198,51,100,9] true 77 := by decide +kernel

/-- non-vacuity of the byte-level theorems: a concrete RFC 4884 style reply (quote padded to 128
    bytes + an extension object) for TTL 3 is accepted -/
example :
    let cfg : IcmpCfg := { localA := [192,0,2,2], target := [198,51,100,9], echoId := 0x1234, min := 1, max := 30 }
    let st : IcmpSt := { cfg, sent := [{ ttl := 3, id := 0x1234, seq := 3, time := 100 }] }
    icmpRecv st (icmpMsg4 0xc0 7 250 0xbeef [10,9,8,7] [192,0,2,2] 11 0 0 [0,32,0,0]
      (rawHdr4 0 29 0x1234 0 1 1 0xabcd [192,0,2,2] [198,51,100,9] ++
        (([byte 8, byte 0] ++ be16 0 ++ be16 0x1234 ++ be16 3) ++ (List.replicate 100 0 ++ [0x20,0,0,0,0,8,1,1,0,0x3e,0x81,1])))) =
      .accept 3 [10,9,8,7] false 100 := by decide +kernel

/-- non-vacuity for a re-marked quote (kernel evaluation): time-exceeded quoting our echo request whose
    quoted traffic class was rewritten to CS6 (0xc0: first quoted byte 0x6c) is accepted for TTL 3 -/
example :
    let cfg : IcmpCfg := { localA := List.replicate 15 0 ++ [1], target := List.replicate 15 0 ++ [9], echoId := 0x1234, min := 1, max := 30 }
    let st : IcmpSt := { cfg, sent := [{ ttl := 3, id := 0x1234, seq := 3, time := 100 }] }
    (rawHdr6 0xc00 0 0 8 58 1 cfg.localA cfg.target).head? = some 0x6c ∧
    icmpRecv st (icmpMsg6 0 0 0 250 (List.replicate 15 0 ++ [7]) cfg.localA 3 0 0 [0,0,0,0]
      (rawHdr6 0xc00 0 0 8 58 1 cfg.localA cfg.target ++
        (([byte 128, byte 0] ++ be16 0 ++ be16 0x1234 ++ be16 3) ++ []))) =
      .accept 3 (List.replicate 15 0 ++ [7]) false 100 := by decide +kernel

#print axioms c02_icmp4_te_bytes
#print axioms c02_udp4_err_bytes
#print axioms c02_tcp_te_bytes
#print axioms c02_sack_te_bytes
#print axioms c02_icmp4_echo_bytes
#print axioms c02_tcp_direct_bytes
#print axioms c02_sack_direct_bytes
#print axioms c02_icmp6_echo_bytes
#print axioms c02_icmp6_te_bytes
#print axioms c02_udp6_err_bytes
#print axioms c02_icmp4_te_view
#print axioms c02_icmp4_echo_view
#print axioms c02_udp4_view
#print axioms c02_tcp_te_view
#print axioms c02_tcp_direct_view
#print axioms c02_sack_direct_view
#print axioms c02_sack_te_view
#print axioms c02_parallel_reported
end TRV.Props.C02
