import TRV.Proofs.Sound
import TRV.Proofs.Engine
/-!
# C04 — Destination marking: only a proof-of-arrival reply from the target

For every accepted outcome `(t, a, dest)` of every driver model, on all packets:
* ICMP: `dest` ⇔ the packet is an echo reply (type 0 / 129) — and then `a` is the target;
  a time-exceeded never marks the destination.
* UDP: `dest` ⇔ the responder `a` is the target (any matched ICMP error from the target).
* TCP SYN: `dest` ⇔ the packet is a SYN-ACK / RST from the target port; a time-exceeded never marks it.
* SACK: `dest` ⇔ a selective ACK from the target port, or a time-exceeded sent by the target itself.
These are read off the raw-byte predicates `Spec.genuine*` through the soundness theorems.
-/
namespace TRV.Props.C04
open TRV TRV.Wire TRV.Drv TRV.Spec TRV.Proofs

/-- ICMP/IPv4: a destination mark means an echo reply from the target; no mark means a
    time-exceeded (type 11) -/
theorem c04_icmp4_dest_iff {s : IcmpSt} {pkt : Bytes} {t : Nat} {a : Bytes} {d : Bool} {tm : Nat}
    (h : icmpRecv s pkt = .accept t a d tm) (hv4 : ∃ b0, u8 pkt 0 = some b0 ∧ b0 / 16 = 4) :
    (d = true → genuineIcmp4Echo s.cfg s.sent t a (pkt.take bufSize) = true ∧ a = s.cfg.target) ∧
    (d = false → genuineIcmp4TE s.cfg s.sent t a (pkt.take bufSize) = true) := by
  have hg := (icmp4_sound h hv4).1
  unfold genuineIcmp4 at hg
  constructor
  · intro hd
    subst hd
    simp only [if_true] at hg
    refine ⟨hg, ?_⟩
    unfold genuineIcmp4Echo at hg
    split at hg; · simp at hg
    split at hg
    · simp only [Bool.and_eq_true, decide_eq_true_eq] at hg
      exact hg.1.1.1.1.1.1.1.1.2
    · simp at hg
  · intro hd
    subst hd
    simpa using hg

/-- ICMP/IPv6 echo replies: destination mark ⇒ the responder is the target -/
theorem c04_icmp6_dest_from_target {s : IcmpSt} {pkt : Bytes} {t : Nat} {a : Bytes} {tm : Nat}
    (hmin : 1 ≤ s.cfg.min) (h : icmpRecv s pkt = .accept t a true tm)
    (hv6 : ∃ b0, u8 (pkt.take bufSize) 0 = some b0 ∧ b0 / 16 = 6) : a = s.cfg.target := by
  have hg := (icmp6_sound hmin h hv6).1
  unfold genuineIcmp6 at hg
  split at hg; · simp at hg
  simp only [if_true] at hg
  split at hg
  · simp only [Bool.and_eq_true, decide_eq_true_eq] at hg
    exact hg.1.1.1.1.1.1.1.2
  · simp at hg

/-- UDP/IPv4: destination mark ⇔ the responder is the target -/
theorem c04_udp4_dest_iff {s : UdpSt} {pkt : Bytes} {t : Nat} {a : Bytes} {d : Bool} {tm : Nat}
    (hinv : UdpInv s) (h4 : s.cfg.target.length = 4) (h : udpRecv s pkt = .accept t a d tm)
    (hv4 : ∃ b0, u8 (pkt.take bufSize) 0 = some b0 ∧ b0 / 16 = 4) : d = decide (a = s.cfg.target) := by
  have hg := (udp4_sound hinv h4 h hv4).1
  unfold genuineUdp4 at hg
  split at hg; · simp at hg
  split at hg; · simp at hg
  split at hg; · simp at hg
  simp only [Bool.and_eq_true, beq_iff_eq] at hg
  exact hg.2

/-- UDP/IPv6: destination mark ⇔ the responder is the target -/
theorem c04_udp6_dest_iff {s : UdpSt} {pkt : Bytes} {t : Nat} {a : Bytes} {d : Bool} {tm : Nat}
    (hinv : UdpInv s) (h6 : s.cfg.target.length ≠ 4) (h : udpRecv s pkt = .accept t a d tm)
    (hv6 : ∃ b0, u8 (pkt.take bufSize) 0 = some b0 ∧ b0 / 16 = 6) : d = decide (a = s.cfg.target) := by
  have hg := (udp6_sound hinv h6 h hv6).1
  unfold genuineUdp6 at hg
  split at hg; · simp at hg
  split at hg; · simp at hg
  split at hg; · simp at hg
  simp only [Bool.and_eq_true, beq_iff_eq] at hg
  exact hg.2

/-- TCP SYN: a destination mark means a SYN-ACK / RST on the exact reversed tuple (from the target
    address and port to our address and port); no mark means a time-exceeded quoting the probe -/
theorem c04_tcp_dest_iff {s : TcpSt} {pkt : Bytes} {t : Nat} {a : Bytes} {d : Bool} {tm : Nat}
    (h : tcpRecv s pkt = .accept t a d tm) (hv4 : ∃ b0, u8 (pkt.take bufSize) 0 = some b0 ∧ b0 / 16 = 4) :
    (d = true → genuineTcpDirect s.cfg s.sent t a (pkt.take bufSize) = true) ∧
    (d = false → genuineTcpQuoted s.cfg s.sent t a (pkt.take bufSize) = true) := by
  have hg := (tcp_sound h hv4).1
  unfold genuineTcp at hg
  constructor <;> intro hd <;> subst hd <;> simpa using hg

/-- the TCP direct form is only genuine for the target address -/
theorem c04_tcp_direct_from_target {c : TcpCfg} {sent : List Sent} {t : Nat} {a p : Bytes}
    (h : genuineTcpDirect c sent t a p = true) : a = c.target := by
  unfold genuineTcpDirect at h
  split at h; · simp at h
  split at h
  · simp only [Bool.and_eq_true, decide_eq_true_eq] at h
    exact h.1.1.1.1.1.1.1.1.2
  · simp at h

/-- SACK: a time-exceeded marks the destination exactly when the target itself sent it; a
    selective ACK is only accepted from the target -/
theorem c04_sack_dest_iff {s : SackSt} {pkt : Bytes} {t : Nat} {a : Bytes} {d : Bool} {tm : Nat}
    (h : sackRecv s pkt = .accept t a d tm) (hv4 : ∃ b0, u8 (pkt.take bufSize) 0 = some b0 ∧ b0 / 16 = 4) :
    (d = false → genuineSackQuoted s.cfg s.sent t a false (pkt.take bufSize) = true ∧ a ≠ s.cfg.target) ∧
    (d = true → a = s.cfg.target) := by
  have hg := (sack_sound h hv4).1
  unfold genuineSack at hg
  have hq : ∀ dd, genuineSackQuoted s.cfg s.sent t a dd (pkt.take bufSize) = true → dd = decide (a = s.cfg.target) := by
    intro dd hq
    unfold genuineSackQuoted at hq
    split at hq; · simp at hq
    split at hq; · simp at hq
    split at hq
    · simp only [Bool.and_eq_true, beq_iff_eq] at hq; exact hq.2
    · simp at hq
  have hdir : genuineSackDirect s.cfg s.sent t a (pkt.take bufSize) = true → a = s.cfg.target := by
    intro hd
    unfold genuineSackDirect at hd
    split at hd; · simp at hd
    split at hd
    · simp only at hd
      split at hd; · simp at hd
      split at hd; · simp at hd
      simp only [Bool.and_eq_true, decide_eq_true_eq] at hd
      exact hd.1.1.1.1.1.1.1.1.1.1.1.1.2
    · simp at hd
  constructor
  · intro hd; subst hd
    simp only [Bool.false_and, Bool.or_false] at hg
    have := hq false hg
    exact ⟨hg, by simpa using this⟩
  · intro hd; subst hd
    rcases Bool.or_eq_true_iff.mp hg with h1 | h2
    · have := hq true h1; simpa using this
    · simp only [Bool.true_and] at h2; exact hdir h2

/-- the mark survives the engine unmixed ("the reply USED for the hop"): in the parallel engine's
    result the slot for TTL `t` carries the destination mark exactly when one of the accepted replies
    for `t` is a destination reply, and the slot then IS one accepted reply in its entirety — the
    address and RTT are that reply's, never an earlier router's with the mark added -/
theorem c04_engine_slot_dest_iff (σ : List Engine.Probe) (t : Nat) (q : Engine.Probe)
    (h : Engine.merge σ t = some q) :
    (q ∈ σ ∧ q.ttl = t) ∧ (q.dest = true ↔ ∃ p ∈ σ, p.ttl = t ∧ p.dest = true) := by
  rw [TRV.Proofs.merge_eq_best] at h
  unfold Spec.best at h
  cases hfd : Spec.firstDest σ t with
  | some r =>
    rw [hfd] at h
    simp only [Option.some.injEq] at h
    subst h
    have h1 := List.find?_some hfd
    have h2 := List.mem_of_find?_eq_some hfd
    simp at h1
    exact ⟨⟨h2, h1.1⟩, ⟨fun _ => ⟨r, h2, h1.1, h1.2⟩, fun _ => h1.2⟩⟩
  | none =>
    rw [hfd] at h
    simp only at h
    have h1 := List.find?_some h
    have h2 := List.mem_of_find?_eq_some h
    simp at h1
    refine ⟨⟨h2, h1⟩, ⟨fun hd => ⟨q, h2, h1, hd⟩, ?_⟩⟩
    rintro ⟨p, hp, hpt, hpd⟩
    exfalso
    have := List.find?_eq_none.mp hfd p hp
    simp [hpt, hpd] at this

#print axioms c04_icmp4_dest_iff
#print axioms c04_icmp6_dest_from_target
#print axioms c04_udp4_dest_iff
#print axioms c04_udp6_dest_iff
#print axioms c04_tcp_dest_iff
#print axioms c04_tcp_direct_from_target
#print axioms c04_sack_dest_iff
#print axioms c04_engine_slot_dest_iff
end TRV.Props.C04
