import TRV.Proofs.CompleteOpts
import TRV.Proofs.MinSack
set_option linter.unusedVariables false
/-!
# C02, byte level, IPv4 headers with options ("outer IP options" of the property text)

Each theorem is the options-carrying counterpart of a `c02_*_bytes` theorem of `Props/C02.lean`:
for EVERY outer header length `oihl ∈ 5..15` with ANY option bytes `oopts` the IPv4 decoder accepts,
and — for the ICMP-error forms — every quoted header length `qihl ∈ 5..15` with any accepted option
bytes `qopts` (a probe that picked up a record-route or router-alert option on the way, quoted back),
the real reply form is turned into the hop of its probe, with the responder's address, whatever the
other header fields, the checksums, and the bytes that follow the identifying ones.
The option hypothesis `ip4OptsOK … = true` is exactly "gopacket's option loop does not return a decode
error" (the model of `IPv4.DecodeFromBytes`, tied by the matcher streams of C01/C02/C09 whose
catalogue carries option lists); `c02_opts_hyp_nops` / `c02_opts_hyp_eol` show that it holds for
NOP padding of every length and for an end-of-options byte followed by arbitrary bytes.
-/
namespace TRV.Props.C02Opts
open TRV TRV.Wire TRV.Build TRV.Drv TRV.Proofs

theorem c02_icmp4_te_bytes_opts {s : IcmpSt} {t : Nat} {p : Sent}
    {oihl qihl otos oid ottl ock code ick qtos qlen qid qff qttl qck ety ecode eck : Nat} {r rest4 oopts qopts extra : Bytes}
    (hl : s.cfg.localA.length = 4) (htg : s.cfg.target.length = 4) (hr : r.length = 4) (hrest : rest4.length = 4)
    (o1 : 5 ≤ oihl) (o2 : oihl ≤ 15) (o3 : oopts.length = oihl * 4 - 20) (o4 : ip4OptsOK (oihl * 4 - 20) oopts = true)
    (q1 : 5 ≤ qihl) (q2 : qihl ≤ 15) (q3 : qopts.length = qihl * 4 - 20) (q4 : ip4OptsOK (qihl * 4 - 20) qopts = true)
    (b1 : otos < 256) (b2 : oid < 65536) (b3 : ottl < 256) (b4 : code < 256)
    (b5 : qtos < 256) (b6 : qihl * 4 + 8 ≤ qlen) (b7 : qlen < 65536) (b8 : qid < 65536) (b9 : qff < 65536) (b10 : qttl < 256)
    (b11 : ety = 8 ∨ ety = 0) (b12 : ecode < 256) (b13 : s.cfg.echoId < 65536) (b14 : t < 65536)
    (hsize : oihl * 4 + 8 + (qihl * 4 + 8 + extra.length) ≤ 1024) (hlk : icmpLookup s t = some p) :
    icmpRecv s (icmpMsg4o oihl otos oid ottl ock r s.cfg.localA oopts 11 code ick rest4
        (rawHdr4o qihl qtos qlen qid qff qttl 1 qck s.cfg.localA s.cfg.target qopts ++
          (([byte ety, byte ecode] ++ be16 eck ++ be16 s.cfg.echoId ++ be16 t) ++ extra))) =
      .accept t r false p.time :=
  icmp4_te_complete_opts hl htg hr hrest o1 o2 o3 o4 q1 q2 q3 q4 b1 b2 b3 b4 b5 b6 b7 b8 b9 b10 b11 b12 b13 b14 hsize hlk

theorem c02_udp4_err_bytes_opts {s : UdpSt} {p : Sent}
    {oihl qihl otos oid ottl ock ty code ick qtos qlen qff qttl qck : Nat} {r rest4 w oopts qopts extra : Bytes}
    (hl : s.cfg.localA.length = 4) (htg : s.cfg.target.length = 4) (hr : r.length = 4) (hrest : rest4.length = 4)
    (hw : w.length = 4)
    (o1 : 5 ≤ oihl) (o2 : oihl ≤ 15) (o3 : oopts.length = oihl * 4 - 20) (o4 : ip4OptsOK (oihl * 4 - 20) oopts = true)
    (q1 : 5 ≤ qihl) (q2 : qihl ≤ 15) (q3 : qopts.length = qihl * 4 - 20) (q4 : ip4OptsOK (qihl * 4 - 20) qopts = true)
    (b1 : otos < 256) (b2 : oid < 65536) (b3 : ottl < 256) (b4 : code < 256) (hty : (ty = 11 ∧ code = 0) ∨ ty = 3)
    (b5 : qtos < 256) (b6 : qihl * 4 + 8 ≤ qlen) (b7 : qlen < 65536) (b8 : p.id < 65536) (b9 : qff < 65536) (b10 : qttl < 256)
    (b11 : s.cfg.lport < 65536) (b12 : s.cfg.tport < 65536)
    (hsize : oihl * 4 + 8 + (qihl * 4 + 8 + extra.length) ≤ 1024) (hf : s.sent.find? (·.id = p.id) = some p) :
    udpRecv s (icmpMsg4o oihl otos oid ottl ock r s.cfg.localA oopts ty code ick rest4
        (rawHdr4o qihl qtos qlen p.id qff qttl 17 qck s.cfg.localA s.cfg.target qopts ++
          ((be16 s.cfg.lport ++ be16 s.cfg.tport ++ w) ++ extra))) =
      .accept p.ttl r (decide (r = s.cfg.target)) p.time :=
  udp4_err_complete_opts hl htg hr hrest hw o1 o2 o3 o4 q1 q2 q3 q4 b1 b2 b3 b4 hty b5 b6 b7 b8 b9 b10 b11 b12 hsize hf

theorem c02_tcp_te_bytes_opts {s : TcpSt} {p : Sent}
    {oihl qihl otos oid ottl ock ick qtos qlen qff qttl qck : Nat} {r rest4 oopts qopts extra : Bytes}
    (hl : s.cfg.localA.length = 4) (htg : s.cfg.target.length = 4) (hr : r.length = 4) (hrest : rest4.length = 4)
    (o1 : 5 ≤ oihl) (o2 : oihl ≤ 15) (o3 : oopts.length = oihl * 4 - 20) (o4 : ip4OptsOK (oihl * 4 - 20) oopts = true)
    (q1 : 5 ≤ qihl) (q2 : qihl ≤ 15) (q3 : qopts.length = qihl * 4 - 20) (q4 : ip4OptsOK (qihl * 4 - 20) qopts = true)
    (b1 : otos < 256) (b2 : oid < 65536) (b3 : ottl < 256)
    (b5 : qtos < 256) (b6 : qihl * 4 + 8 ≤ qlen) (b7 : qlen < 65536) (b8 : p.id < 65536) (b9 : qff < 65536) (b10 : qttl < 256)
    (b11 : s.cfg.lport < 65536) (b12 : s.cfg.tport < 65536) (b13 : p.seq < 4294967296)
    (hsize : oihl * 4 + 8 + (qihl * 4 + 8 + extra.length) ≤ 1024)
    (hf : s.sent.find? (fun x => x.id = p.id ∧ x.seq = p.seq) = some p) :
    tcpRecv s (icmpMsg4o oihl otos oid ottl ock r s.cfg.localA oopts 11 0 ick rest4
        (rawHdr4o qihl qtos qlen p.id qff qttl 6 qck s.cfg.localA s.cfg.target qopts ++
          ((be16 s.cfg.lport ++ be16 s.cfg.tport ++ be32 p.seq) ++ extra))) =
      .accept p.ttl r false p.time :=
  tcp_te_complete_opts hl htg hr hrest o1 o2 o3 o4 q1 q2 q3 q4 b1 b2 b3 b5 b6 b7 b8 b9 b10 b11 b12 b13 hsize hf

theorem c02_sack_te_bytes_opts {s : SackSt} {t : Nat} {p : Sent}
    {oihl qihl otos oid ottl ock ick qtos qlen qid qff qttl qck : Nat} {r rest4 oopts qopts extra : Bytes}
    (hl : s.cfg.localA.length = 4) (htg : s.cfg.target.length = 4) (hr : r.length = 4) (hrest : rest4.length = 4)
    (o1 : 5 ≤ oihl) (o2 : oihl ≤ 15) (o3 : oopts.length = oihl * 4 - 20) (o4 : ip4OptsOK (oihl * 4 - 20) oopts = true)
    (q1 : 5 ≤ qihl) (q2 : qihl ≤ 15) (q3 : qopts.length = qihl * 4 - 20) (q4 : ip4OptsOK (qihl * 4 - 20) qopts = true)
    (b1 : otos < 256) (b2 : oid < 65536) (b3 : ottl < 256)
    (b5 : qtos < 256) (b6 : qihl * 4 + 8 ≤ qlen) (b7 : qlen < 65536) (b8 : qid < 65536) (b9 : qff < 65536) (b10 : qttl < 256)
    (b11 : s.cfg.lport < 65536) (b12 : s.cfg.tport < 65536) (b13 : s.cfg.isn < 4294967296) (b14 : t < 4294967296)
    (hsize : oihl * 4 + 8 + (qihl * 4 + 8 + extra.length) ≤ 1024) (hlk : sackLookup s t = some p) :
    sackRecv s (icmpMsg4o oihl otos oid ottl ock r s.cfg.localA oopts 11 0 ick rest4
        (rawHdr4o qihl qtos qlen qid qff qttl 6 qck s.cfg.localA s.cfg.target qopts ++
          ((be16 s.cfg.lport ++ be16 s.cfg.tport ++ be32 ((s.cfg.isn + t) % 4294967296)) ++ extra))) =
      .accept t r (decide (r = s.cfg.target)) p.time :=
  sack_te_complete_opts hl htg hr hrest o1 o2 o3 o4 q1 q2 q3 q4 b1 b2 b3 b5 b6 b7 b8 b9 b10 b11 b12 b13 b14 hsize hlk

theorem c02_icmp4_echo_bytes_opts {s : IcmpSt} {t : Nat} {p : Sent}
    {oihl otos oid ottl ock code ick : Nat} {oopts body : Bytes}
    (hl : s.cfg.localA.length = 4) (htg : s.cfg.target.length = 4)
    (o1 : 5 ≤ oihl) (o2 : oihl ≤ 15) (o3 : oopts.length = oihl * 4 - 20) (o4 : ip4OptsOK (oihl * 4 - 20) oopts = true)
    (b1 : otos < 256) (b2 : oid < 65536) (b3 : ottl < 256) (b4 : code < 256)
    (b13 : s.cfg.echoId < 65536) (b14 : t < 65536)
    (hsize : oihl * 4 + 8 + body.length ≤ 1024) (hlk : icmpLookup s t = some p) :
    icmpRecv s (icmpMsg4o oihl otos oid ottl ock s.cfg.target s.cfg.localA oopts 0 code ick (be16 s.cfg.echoId ++ be16 t) body) =
      .accept t s.cfg.target true p.time :=
  icmp4_echo_complete_opts hl htg o1 o2 o3 o4 b1 b2 b3 b4 b13 b14 hsize hlk

theorem c02_tcp_direct_bytes_opts {s : TcpSt} {last : Sent}
    {oihl otos oid ff ottl ock seq ack fl win ck urg : Nat} {oopts pl : Bytes}
    (hl : s.cfg.localA.length = 4) (htg : s.cfg.target.length = 4)
    (o1 : 5 ≤ oihl) (o2 : oihl ≤ 15) (o3 : oopts.length = oihl * 4 - 20) (o4 : ip4OptsOK (oihl * 4 - 20) oopts = true)
    (h1 : otos < 256) (h2 : oid < 65536) (h3 : ottl < 256) (hff : ff < 65536) (hfr : ff % 16384 = 0)
    (b1 : s.cfg.tport < 65536) (b2 : s.cfg.lport < 65536) (b3 : seq < 4294967296) (b4 : ack < 4294967296) (b5 : fl < 256)
    (hfl : ((fl / 2) % 2 = 1 ∧ (fl / 16) % 2 = 1) ∨ (fl / 4) % 2 = 1)
    (hlast : s.sent.getLast? = some last)
    (hack : (fl / 16) % 2 = 1 → last.seq = (ack + 4294967295) % 4294967296)
    (hsize : oihl * 4 + 20 + pl.length ≤ 1024) :
    tcpRecv s (tcpMsg4o oihl otos oid ff ottl ock s.cfg.target s.cfg.localA oopts s.cfg.tport s.cfg.lport seq ack fl win ck urg pl) =
      .accept last.ttl s.cfg.target true last.time :=
  tcp_direct_complete_opts hl htg o1 o2 o3 o4 h1 h2 h3 hff hfr b1 b2 b3 b4 b5 hfl hlast hack hsize

theorem c02_sack_direct_bytes_opts {s : SackSt} {t : Nat} {p : Sent}
    {oihl otos oid ff ottl ock seq ack fl win ck urg right : Nat} {oopts pl : Bytes}
    (hl : s.cfg.localA.length = 4) (htg : s.cfg.target.length = 4)
    (o1 : 5 ≤ oihl) (o2 : oihl ≤ 15) (o3 : oopts.length = oihl * 4 - 20) (o4 : ip4OptsOK (oihl * 4 - 20) oopts = true)
    (h1 : otos < 256) (h2 : oid < 65536) (h3 : ottl < 256) (hff : ff < 65536) (hfr : ff % 16384 = 0)
    (b1 : s.cfg.tport < 65536) (b2 : s.cfg.lport < 65536) (b3 : seq < 4294967296) (b4 : ack < 4294967296) (b5 : fl < 256)
    (hfl : fl % 2 = 0 ∧ (fl / 2) % 2 = 0 ∧ (fl / 4) % 2 = 0)
    (b6 : s.cfg.isn < 4294967296) (b7 : t < 4294967296) (b8 : right < 4294967296)
    (hsize : oihl * 4 + 32 + pl.length ≤ 1024) (hlk : sackLookup s t = some p) :
    sackRecv s (rawHdr4o oihl otos (oihl * 4 + 32 + pl.length) oid ff ottl 6 ock s.cfg.target s.cfg.localA oopts ++
        (rawTcpSack s.cfg.tport s.cfg.lport seq ack fl win ck urg ((s.cfg.isn + t) % 4294967296) right ++ pl)) =
      .accept t s.cfg.target true p.time :=
  sack_direct_complete_opts hl htg o1 o2 o3 o4 h1 h2 h3 hff hfr b1 b2 b3 b4 b5 hfl b6 b7 b8 hsize hlk

/-- TCP SYN, direct forms, bytes: SYN-ACK / RST / RST-ACK whose TCP header carries ANY option bytes the
    decoder accepts (data offset 5..15: MSS, SACK-permitted, timestamps, window scale, padding — what
    real stacks put on a SYN-ACK), inside an IP header with any accepted options -/
theorem c02_tcp_direct_bytes_allopts {s : TcpSt} {last : Sent}
    {oihl otos oid ff ottl ock doff seq ack fl win ck urg : Nat} {oopts topts pl : Bytes} {parsed : List (Nat × Bytes)}
    (hl : s.cfg.localA.length = 4) (htg : s.cfg.target.length = 4)
    (o1 : 5 ≤ oihl) (o2 : oihl ≤ 15) (o3 : oopts.length = oihl * 4 - 20) (o4 : ip4OptsOK (oihl * 4 - 20) oopts = true)
    (d5 : 5 ≤ doff) (d15 : doff ≤ 15) (hol : topts.length = doff * 4 - 20) (hok : tcpOpts (doff * 4 - 20) topts = some parsed)
    (h1 : otos < 256) (h2 : oid < 65536) (h3 : ottl < 256) (hff : ff < 65536) (hfr : ff % 16384 = 0)
    (b1 : s.cfg.tport < 65536) (b2 : s.cfg.lport < 65536) (b3 : seq < 4294967296) (b4 : ack < 4294967296) (b5 : fl < 256)
    (hfl : ((fl / 2) % 2 = 1 ∧ (fl / 16) % 2 = 1) ∨ (fl / 4) % 2 = 1)
    (hlast : s.sent.getLast? = some last)
    (hack : (fl / 16) % 2 = 1 → last.seq = (ack + 4294967295) % 4294967296)
    (hsize : oihl * 4 + (doff * 4 + pl.length) ≤ 1024) :
    tcpRecv s (tcpMsg4oo oihl otos oid ff ottl ock s.cfg.target s.cfg.localA oopts doff s.cfg.tport s.cfg.lport seq ack fl win ck urg topts pl) =
      .accept last.ttl s.cfg.target true last.time :=
  tcp_direct_complete_allopts hl htg o1 o2 o3 o4 d5 d15 hol hok h1 h2 h3 hff hfr b1 b2 b3 b4 b5 hfl hlast hack hsize

/-- SACK, direct form, bytes: an ACK whose TCP options — ANY bytes the decoder accepts: several SACK
    blocks in any order, timestamps, padding — have `t` as their smallest relative left edge
    (`minSack`, the model of `getMinSack`, for every ISN) is the destination's answer for TTL `t` -/
theorem c02_sack_direct_bytes_allopts {s : SackSt} {t : Nat} {p : Sent}
    {oihl otos oid ff ottl ock doff seq ack fl win ck urg : Nat} {oopts topts pl : Bytes} {parsed : List (Nat × Bytes)}
    (hl : s.cfg.localA.length = 4) (htg : s.cfg.target.length = 4)
    (o1 : 5 ≤ oihl) (o2 : oihl ≤ 15) (o3 : oopts.length = oihl * 4 - 20) (o4 : ip4OptsOK (oihl * 4 - 20) oopts = true)
    (d5 : 5 ≤ doff) (d15 : doff ≤ 15) (hol : topts.length = doff * 4 - 20) (hok : tcpOpts (doff * 4 - 20) topts = some parsed)
    (hms : minSack s.cfg.isn parsed = some t)
    (h1 : otos < 256) (h2 : oid < 65536) (h3 : ottl < 256) (hff : ff < 65536) (hfr : ff % 16384 = 0)
    (b1 : s.cfg.tport < 65536) (b2 : s.cfg.lport < 65536) (b3 : seq < 4294967296) (b4 : ack < 4294967296) (b5 : fl < 256)
    (hfl : fl % 2 = 0 ∧ (fl / 2) % 2 = 0 ∧ (fl / 4) % 2 = 0)
    (hsize : oihl * 4 + (doff * 4 + pl.length) ≤ 1024) (hlk : sackLookup s t = some p) :
    sackRecv s (tcpMsg4oo oihl otos oid ff ottl ock s.cfg.target s.cfg.localA oopts doff s.cfg.tport s.cfg.lport seq ack fl win ck urg topts pl) =
      .accept t s.cfg.target true p.time :=
  sack_direct_complete_allopts hl htg o1 o2 o3 o4 d5 d15 hol hok hms h1 h2 h3 hff hfr b1 b2 b3 b4 b5 hfl hsize hlk

/-- SACK: what `getMinSack` returns is the LEAST relative left edge over every complete 8-byte block of
    every SACK option of the segment — any number of options and blocks, in any order, on either side of
    the 2^32 sequence wrap (the edge is made relative to the ISN BEFORE the comparison). With
    `c02_sack_direct_bytes_allopts`: the destination's acknowledgement is attributed to the lowest
    probed TTL it selectively acknowledges. -/
theorem c02_sack_min_is_least_block {isn : Nat} {opts : List (Nat × Bytes)} {m : Nat} (h : minSack isn opts = some m) :
    (∃ d k l, (5, d) ∈ opts ∧ 8 * k + 8 ≤ d.length ∧ u32 d (8 * k) = some l ∧ m = relEdge isn l) ∧
    (∀ d k l, (5, d) ∈ opts → 8 * k + 8 ≤ d.length → u32 d (8 * k) = some l → m ≤ relEdge isn l) :=
  minSack_is_least_block h

/-- … and "no SACK blocks" (the one inbound segment allowed to end a run, C09/C20) is reported exactly
    when no SACK option of the segment holds a complete block -/
theorem c02_sack_none_iff_no_block {isn : Nat} {opts : List (Nat × Bytes)} :
    minSack isn opts = none ↔ ∀ d, (5, d) ∈ opts → d.length < 8 :=
  minSack_none_iff_no_block

/-- non-vacuity across the wrap: ISN 2^32 - 3, blocks at ISN+4 (= 1 after the wrap) and ISN+2
    (= 2^32 - 1, before it): the least RELATIVE edge is 2 although the least raw edge is 1 -/
example : minSack 0xfffffffd [(1, []), (5, ([0,0,0,1, 0,0,0,2, 0xff,0xff,0xff,0xff, 0,0,0,0] : List Nat).map byte)] = some 2 := by
  decide +kernel

/-- non-vacuity of the option hypotheses (kernel evaluation): the 20 option bytes Linux puts on a SYN-ACK
    (MSS 1460, SACK-permitted, timestamps, NOP, window scale 7) are accepted by the TCP option loop, and
    an ACK carrying NOP NOP timestamps + NOP NOP SACK with two blocks (the second one lower) has the lower
    block's left edge as its smallest relative edge, across the 2^32 wrap (ISN 0xfffffffe, edges ISN+5, ISN+3) -/
example :
    (tcpOpts 20 [2,4,5,0xb4, 4,2, 8,10,0,0,0,1,0,0,0,2, 1, 3,3,7]).isSome = true ∧
    (tcpOpts 32 [1,1,8,10,0,0,0,9,0,0,0,8, 1,1,5,18, 0,0,0,3, 0,0,0,4, 0,0,0,1, 0,0,0,2]).map (minSack 0xfffffffe) =
      some (some 3) := by decide +kernel

/-- the option hypothesis holds for NOP padding of every header length … -/
theorem c02_opts_hyp_nops (ihl : Nat) :
    (List.replicate (ihl * 4 - 20) (byte 1)).length = ihl * 4 - 20 ∧
    ip4OptsOK (ihl * 4 - 20) (List.replicate (ihl * 4 - 20) (byte 1)) = true :=
  ⟨by simp, ip4OptsOK_nops _ _⟩

/-- … and for an end-of-options byte followed by any bytes -/
theorem c02_opts_hyp_eol (m : Nat) (rest : Bytes) : ip4OptsOK m (byte 0 :: rest) = true := ip4OptsOK_eol m rest

/-- non-vacuity (evaluated by the kernel): a time-exceeded whose outer header carries a record-route
    option (ihl 7: type 7, length 7, pointer 4, one slot, end-of-options) and whose quoted probe
    header carries a router-alert option (ihl 6: 0x94 4 0 0) is accepted for TTL 3 -/
example :
    let cfg : IcmpCfg := { localA := [192,0,2,2], target := [198,51,100,9], echoId := 0x1234, min := 1, max := 30 }
    let st : IcmpSt := { cfg, sent := [{ ttl := 3, id := 0x1234, seq := 3, time := 100 }] }
    ip4OptsOK 8 [7,7,4,0,0,0,0,0] = true ∧ ip4OptsOK 4 [0x94,4,0,0] = true ∧
    icmpRecv st (icmpMsg4o 7 0xc0 7 250 0xbeef [10,9,8,7] [192,0,2,2] [7,7,4,0,0,0,0,0] 11 0 0 [0,0,0,0]
      (rawHdr4o 6 0 32 0x1234 0 1 1 0xabcd [192,0,2,2] [198,51,100,9] [0x94,4,0,0] ++
        (([byte 8, byte 0] ++ be16 0 ++ be16 0x1234 ++ be16 3) ++ []))) =
      .accept 3 [10,9,8,7] false 100 := by decide +kernel

/-- the hypothesis is not decoration: with option bytes the decoder rejects (option length 1) the
    same packet is NOT turned into a hop — the model's counterpart of gopacket's decode error -/
example :
    let cfg : IcmpCfg := { localA := [192,0,2,2], target := [198,51,100,9], echoId := 0x1234, min := 1, max := 30 }
    let st : IcmpSt := { cfg, sent := [{ ttl := 3, id := 0x1234, seq := 3, time := 100 }] }
    ip4OptsOK 4 [7,1,0,0] = false ∧
    icmpRecv st (icmpMsg4o 6 0xc0 7 250 0xbeef [10,9,8,7] [192,0,2,2] [7,1,0,0] 11 0 0 [0,0,0,0]
      (rawHdr4o 5 0 28 0x1234 0 1 1 0xabcd [192,0,2,2] [198,51,100,9] [] ++
        (([byte 8, byte 0] ++ be16 0 ++ be16 0x1234 ++ be16 3) ++ []))) ≠
      .accept 3 [10,9,8,7] false 100 := by decide +kernel

#print axioms c02_icmp4_te_bytes_opts
#print axioms c02_udp4_err_bytes_opts
#print axioms c02_tcp_te_bytes_opts
#print axioms c02_sack_te_bytes_opts
#print axioms c02_icmp4_echo_bytes_opts
#print axioms c02_tcp_direct_bytes_opts
#print axioms c02_sack_direct_bytes_opts
#print axioms c02_opts_hyp_nops
#print axioms c02_opts_hyp_eol
#print axioms c02_tcp_direct_bytes_allopts
#print axioms c02_sack_direct_bytes_allopts
#print axioms c02_sack_min_is_least_block
#print axioms c02_sack_none_iff_no_block
end TRV.Props.C02Opts
