import TRV.Proofs.Drivers
import TRV.Proofs.Engine
import TRV.Proofs.Link
/-!
# C09 — Malformed or hostile inbound bytes never crash or abort a run

The driver models are TOTAL functions on byte strings (every Go slice index in repository code is
guarded in the model exactly as in the code, so there is no panic outcome), and for every non-empty
byte string delivered by the capture layer the outcome is `accept` or `retry` — never `fatal` —
with the single SACK-specific exception stated by the property (`notSupported` for a TCP segment
on the probed connection without SACK blocks).  A zero-length read is a capture-layer fault
(C10), not a packet.  At the engine level, retryable outcomes inserted anywhere in a history do not
change the result.
-/
namespace TRV.Props.C09
open TRV TRV.Wire TRV.Drv TRV.Proofs TRV.Engine

theorem c09_icmp_never_fatal (s : IcmpSt) (pkt : Bytes) (h : pkt ≠ []) :
    icmpRecv s pkt ≠ .fatal ∧ icmpRecv s pkt ≠ .notSupported := icmpRecv_class s pkt h

theorem c09_udp_never_fatal (s : UdpSt) (pkt : Bytes) (h : pkt ≠ []) :
    udpRecv s pkt ≠ .fatal ∧ udpRecv s pkt ≠ .notSupported := udpRecv_class s pkt h

/-- TCP SYN: once a probe has been sent (the engines always send before they receive) no packet is
    fatal -/
theorem c09_tcp_never_fatal (s : TcpSt) (pkt : Bytes) (h : pkt ≠ []) (hs : s.sent ≠ []) :
    tcpRecv s pkt ≠ .fatal ∧ tcpRecv s pkt ≠ .notSupported :=
  ⟨(tcpRecv_class s pkt h).2 hs, (tcpRecv_class s pkt h).1⟩

theorem c09_sack_never_fatal (s : SackSt) (pkt : Bytes) (h : pkt ≠ []) : sackRecv s pkt ≠ .fatal :=
  sackRecv_class s pkt h

/-- **From frames**: whatever frames the kernel queues on the capture socket — runts, frames with
    nothing behind the Ethernet header, other EtherTypes, anything — a read of the capture source
    (after the `fix:` for finding F13) hands the drivers a NON-EMPTY packet, so the outcome of every
    matcher on it is `accept` or `retry` (and `notSupported` in the one SACK case), never `fatal`.
    Before the fix a 14-byte IP frame came back as a zero-length read and a shorter one as a decoder
    error, and either aborted the run. -/
theorem c09_frames_never_fatal (q : List Bytes) (p : Bytes) (rest : List Bytes)
    (h : Link.readNext q = some (p, rest)) :
    p ≠ [] ∧
    (∀ s : IcmpSt, icmpRecv s p ≠ .fatal) ∧ (∀ s : UdpSt, udpRecv s p ≠ .fatal) ∧
    (∀ s : TcpSt, s.sent ≠ [] → tcpRecv s p ≠ .fatal) ∧ (∀ s : SackSt, sackRecv s p ≠ .fatal) := by
  have hne := TRV.Proofs.Link.readNext_nonempty q p rest h
  exact ⟨hne, fun s => (c09_icmp_never_fatal s p hne).1, fun s => (c09_udp_never_fatal s p hne).1,
    fun s hs => (c09_tcp_never_fatal s p hne hs).1, fun s => c09_sack_never_fatal s p hne⟩

/-- the only inbound packet that may end a run early: the target acknowledging on the probed
    connection (reversed tuple, not SYN/FIN/RST) without any SACK block -/
theorem c09_sack_abort_iff (s : SackSt) (pkt : Bytes) (h : pkt ≠ []) :
    sackRecv s pkt = .notSupported ↔
      ∃ l3 t, parse (pkt.take bufSize) = some (l3, .tcp t) ∧ l3.src = s.cfg.target ∧ l3.dst = s.cfg.localA ∧
        t.sport = s.cfg.tport ∧ t.dport = s.cfg.lport ∧ t.syn = false ∧ t.fin = false ∧ t.rst = false ∧
        minSack s.cfg.isn t.opts = none :=
  sackRecv_notSupported_iff s pkt h

/-- noise is irrelevant (parallel engine): inserting a retryable outcome anywhere in the receiver's
    history leaves the result unchanged -/
theorem c09_noise_irrelevant_parallel (min max : Nat) (a b : List ROut) (se ec : Bool) :
    parallelRun min max true (a ++ .retry :: b) se ec = parallelRun min max true (a ++ b) se ec := by
  have key : ∀ (a : List ROut) (s : Slots),
      recvLoop min max s (a ++ .retry :: b) = recvLoop min max s (a ++ b) := by
    intro a
    induction a with
    | nil => intro s; simp [recvLoop]
    | cons o a ih =>
      intro s
      cases o with
      | retry => simpa [recvLoop] using ih s
      | fatal => simp [recvLoop]
      | nilProbe => simp [recvLoop]
      | accept p =>
        simp only [List.cons_append, recvLoop]
        split
        · exact ih _
        · rfl
  unfold parallelRun
  rw [key]

/-- noise is irrelevant (serial engine): inserting a retryable outcome anywhere inside a window
    leaves that window's outcome unchanged -/
theorem c09_noise_irrelevant_serial (min max : Nat) (a b : List ROut) :
    serialWindow min max (a ++ .retry :: b) = serialWindow min max (a ++ b) := by
  induction a with
  | nil => simp [serialWindow]
  | cons o a ih =>
    cases o with
    | retry => simpa [serialWindow] using ih
    | fatal => simp [serialWindow]
    | nilProbe => simp [serialWindow]
    | accept p => simp [serialWindow]

/-- non-vacuity: classic hostile inputs are retryable for every driver — a 10-byte frame, an IPv4
    header with IHL 4, a wrong version nibble -/
example :
    let st : UdpSt := { cfg := { localA := [192,0,2,2], lport := 4000, target := [198,51,100,9], tport := 33434, loosen := false }, sent := [] }
    udpRecv st [0x45, 0, 0, 10, 0, 0, 0, 0, 64, 1] = .retry ∧
    udpRecv st (0x44 :: List.replicate 39 0) = .retry ∧
    udpRecv st (0x75 :: List.replicate 39 0) = .retry := by decide

#print axioms c09_icmp_never_fatal
#print axioms c09_udp_never_fatal
#print axioms c09_tcp_never_fatal
#print axioms c09_sack_never_fatal
#print axioms c09_frames_never_fatal
#print axioms c09_sack_abort_iff
#print axioms c09_noise_irrelevant_parallel
#print axioms c09_noise_irrelevant_serial
end TRV.Props.C09
