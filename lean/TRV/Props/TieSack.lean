import TRV.Model.Drivers
import TRV.Generated.LogicSack
import TRV.Generated.LogicCommon
import TRV.Proofs.BeNat
/-!
# Tie theorems: the SACK matcher model equals the decision tree REGENERATED from `sack/sack_driver.go`

Same method as the other `Tie*` modules.  `tie_sack_handle`: for every driver state (with
`MaxTTL ≤ 255`, which the `uint8` parameter type guarantees) and every parsed packet, the model's
`sackRecv` (after `ReadAndParse`) is the regenerated tree of `sackDriver.handleProbeLayers`: address
pair and ports, control segments ignored, "no SACK block" = `NotSupportedError`, the relative
sequence number range-checked (`getRTTFromRelSeq`) BEFORE it is narrowed to the TTL, and the
time-exceeded arm with `seq - localInitSeq` in `uint32`.  `getMinSack` itself contains a loop and is
not translated: it stays an atom, instantiated with the model's `minSack` (characterised by
`c02_sack_min_is_least_block`, tied by the matcher streams).  `tie_sack_getRTT`: `getRTTFromRelSeq`
is the model's `sackLookup`.
-/
namespace TRV.Props.TieSack
open TRV TRV.Wire TRV.Drv TRV.Logic TRV.Generated

def kindOf (k : String) : String :=
  match (LogicSack.sentinels ++ LogicCommon.sentinels.map (fun p => ("common." ++ p.1, "common." ++ p.2))).find? (·.1 = k) with
  | some p => p.2
  | none => k

def retryableKind (k : String) : Bool := k = "common.BadPacketError" || k = "common.ReceiveProbeNoPktError"

def interp (probe : Option Sent) (src : Bytes) (r : R) : Out :=
  match r.get "1" with
  | some V.nil =>
    match r.get "0.TTL", r.get "0.IsDest", r.get "0.IP", probe with
    | some (V.int t), some (V.bool d), some (V.ref ip), some p =>
      if ip = "parser.GetIPPair().0.SrcAddr" then .accept t.toNat src d p.time else .fatal
    | _, _, _, _ => .fatal
  | some (V.err k) =>
    if retryableKind (kindOf k) then .retry
    else if kindOf k = "NotSupportedError" then .notSupported
    else .fatal
  | _ => .fatal

/-- the part of `sackRecv` after a successful `ReadAndParse` -/
def handle (s : SackSt) (l3 : L3) (l4 : L4) : Out :=
  match l4 with
  | .tcp t =>
    if ¬ (l3.src = s.cfg.target ∧ l3.dst = s.cfg.localA) then .retry
    else if s.cfg.tport ≠ t.sport ∨ s.cfg.lport ≠ t.dport then .retry
    else if t.syn || t.fin || t.rst then .retry
    else match minSack s.cfg.isn t.opts with
      | none => .notSupported
      | some rel =>
        match sackLookup s rel with
        | none => .retry
        | some p => .accept rel l3.src true p.time
  | .icmp4 i =>
    if ¬ (i.type = 11 ∧ i.code = 0) then .retry
    else match icmpInfo4 i with
      | none => .retry
      | some info =>
        if info.proto ≠ 6 then .retry else
        match quotedPorts info.payload, quotedSeq info.payload with
        | some (sp, dp), some sq =>
          if ¬ (info.qdst = s.cfg.target ∧ dp = s.cfg.tport) then .retry
          else if !s.cfg.loosen ∧ ¬ (info.qsrc = s.cfg.localA ∧ sp = s.cfg.lport) then .retry
          else
            let rel := (sq + 4294967296 - s.cfg.isn % 4294967296) % 4294967296
            match sackLookup s rel with
            | none => .retry
            | some p => .accept rel l3.src (l3.src = s.cfg.target) p.time
        | _, _ => .retry
  | .icmp6 _ => .retry

theorem sackRecv_eq_handle (s : SackSt) (pkt : Bytes) :
    sackRecv s pkt = if pkt.isEmpty then .fatal else
      match parse (pkt.take bufSize) with
      | none => .retry
      | some (l3, l4) => handle s l3 l4 := by
  unfold sackRecv
  by_cases h : pkt.isEmpty = true
  · simp [h]
  · simp only [h]
    cases parse (pkt.take bufSize) with
    | none => rfl
    | some v =>
      obtain ⟨l3, l4⟩ := v
      cases l4 <;> rfl

def dInfo : ICMPInfo := ⟨0, 0, [], [], []⟩
def dTcp : TCP := ⟨0, 0, 0, 0, 0, [], []⟩

def tOf : L4 → TCP
  | .tcp t => t
  | _ => dTcp

def infoOf : L4 → Option ICMPInfo
  | .icmp4 i => icmpInfo4 i
  | _ => none

def isTE : L4 → Bool
  | .icmp4 i => decide (i.type = 11 ∧ i.code = 0)
  | _ => false

/-- relative sequence number of the quoted segment (`seq - localInitSeq` in `uint32`) -/
def relQ (s : SackSt) (l4 : L4) : Nat :=
  ((quotedSeq ((infoOf l4).getD dInfo).payload).getD 0 + 4294967296 - s.cfg.isn % 4294967296) % 4294967296

/-- the record an accepted outcome is credited to -/
def credited (s : SackSt) (l4 : L4) : Option Sent :=
  match l4 with
  | .tcp t => sackLookup s ((minSack s.cfg.isn t.opts).getD 0)
  | _ => sackLookup s (relQ s l4)

def cmp (a b : Bytes) : Int := if a = b then 0 else 1

def atoms (s : SackSt) (l3 : L3) (l4 : L4) : LogicSack.handleProbeLayers.Atoms :=
  let t := tOf l4
  let info := (infoOf l4).getD dInfo
  let ports := (quotedPorts info.payload).getD (0, 0)
  let ms := minSack s.cfg.isn t.opts
  { «parser.GetIPPair().1 == nil» := true
    «parser.GetTransportLayer()» := match l4 with | .icmp4 _ => 1 | .icmp6 _ => 2 | .tcp _ => 3
    «layers.LayerTypeTCP» := 3
    «layers.LayerTypeICMPv4» := 1
    «parser.GetIPPair().0 == s.ExpectedIPPair()» := decide (l3.src = s.cfg.target ∧ l3.dst = s.cfg.localA)
    «s.params.Target.Port()» := s.cfg.tport
    «parser.TCP.SrcPort» := t.sport
    «s.localPort» := s.cfg.lport
    «parser.TCP.DstPort» := t.dport
    «parser.TCP.SYN» := t.syn
    «parser.TCP.FIN» := t.fin
    «parser.TCP.RST» := t.rst
    «getMinSack(s.state.localInitSeq, parser.TCP.Options).0» := ms.getD 0
    «getMinSack(s.state.localInitSeq, parser.TCP.Options).1 == nil» := ms.isSome
    «s.getRTTFromRelSeq(getMinSack(s.state.localInitSeq, parser.TCP.Options).0).0» := 0
    «s.getRTTFromRelSeq(getMinSack(s.state.localInitSeq, parser.TCP.Options).0).1 == nil» := (sackLookup s (ms.getD 0)).isSome
    «parser.IsTTLExceeded()» := isTE l4
    «parser.GetICMPInfo().1 == nil» := (infoOf l4).isSome
    «parser.GetICMPInfo().0.WrappedProtocol» := info.proto
    «packets.ParseTCPFirstBytes(parser.GetICMPInfo().0.Payload).1 == nil» := (quotedPorts info.payload).isSome && (quotedSeq info.payload).isSome
    «netip.AddrPortFrom(parser.GetICMPInfo().0.ICMPPair.DstAddr, packets.ParseTCPFirstBytes(parser.GetICMPInfo().0.Payload).0.DstPort) == s.params.Target» :=
      decide (info.qdst = s.cfg.target ∧ ports.2 = s.cfg.tport)
    «s.params.LoosenICMPSrc» := s.cfg.loosen
    «netip.AddrPortFrom(parser.GetICMPInfo().0.ICMPPair.SrcAddr, packets.ParseTCPFirstBytes(parser.GetICMPInfo().0.Payload).0.SrcPort) == netip.AddrPortFrom(s.localAddr, s.localPort)» :=
      decide (info.qsrc = s.cfg.localA ∧ ports.1 = s.cfg.lport)
    «packets.ParseTCPFirstBytes(parser.GetICMPInfo().0.Payload).0.Seq» := (quotedSeq info.payload).getD 0
    «s.state.localInitSeq» := s.cfg.isn
    «s.getRTTFromRelSeq(packets.ParseTCPFirstBytes(parser.GetICMPInfo().0.Payload).0.Seq - s.state.localInitSeq).0» := 0
    «s.getRTTFromRelSeq(packets.ParseTCPFirstBytes(parser.GetICMPInfo().0.Payload).0.Seq - s.state.localInitSeq).1 == nil» := (sackLookup s (relQ s l4)).isSome
    «parser.GetIPPair().0.SrcAddr.Compare(s.params.Target.Addr())» := cmp l3.src s.cfg.target }

theorem kind_bad : retryableKind (kindOf "common.BadPacketError") = true := by decide
theorem kind_nomatch : retryableKind (kindOf "errPacketDidNotMatchTraceroute") = true := by decide
theorem kind_ns1 : retryableKind (kindOf "NotSupportedError") = false := by decide
theorem kind_ns2 : kindOf "NotSupportedError" = "NotSupportedError" := by decide

theorem interp_err (probe : Option Sent) (src : Bytes) (e : List String) (k : String) (h : retryableKind (kindOf k) = true) :
    interp probe src ⟨e, [("0", V.nil), ("1", V.err k)]⟩ = .retry := by
  simp [interp, R.get, h]

theorem interp_ns (probe : Option Sent) (src : Bytes) (e : List String) :
    interp probe src ⟨e, [("0", V.nil), ("1", V.err "NotSupportedError")]⟩ = .notSupported := by
  have h1 := kind_ns1
  have h2 := kind_ns2
  rw [h2] at h1
  simp [interp, R.get, h1, h2]

theorem interp_ok (p : Sent) (src : Bytes) (e : List String) (t rtt : Int) (d : Bool) :
    interp (some p) src ⟨e, [("0", V.ref "new common.ProbeResponse"), ("0.TTL", V.int t), ("0.IP", V.ref "parser.GetIPPair().0.SrcAddr"),
      ("0.RTT", V.int rtt), ("0.IsDest", V.bool d), ("1", V.nil)]⟩ = .accept t.toNat src d p.time := by
  simp [interp, R.get]

theorem toNat_mod (x : Nat) : (((x : Nat) : Int) % 4294967296).toNat = x % 4294967296 := by omega

theorem lookup_le {s : SackSt} {rel : Nat} {p : Sent} (h : sackLookup s rel = some p) : rel ≤ s.cfg.max := by
  unfold sackLookup at h
  split at h
  · cases h
  · omega

/-- `getRTTFromRelSeq` produces an RTT exactly when the model's `sackLookup` finds the probe -/
theorem tie_sack_getRTT (s : SackSt) (rel : Nat) (rtt : Int) :
    (LogicSack.getRTTFromRelSeq.run
      { «relSeq» := rel
        «s.params.ParallelParams.MinTTL» := s.cfg.min
        «s.params.ParallelParams.MaxTTL» := s.cfg.max
        «s.findSendTime(relSeq).IsZero()» := (s.find rel).isNone
        «time.Since(s.findSendTime(relSeq))» := rtt }).okAt "1" = (sackLookup s rel).isSome := by
  unfold LogicSack.getRTTFromRelSeq.run sackLookup
  by_cases h : rel < s.cfg.min ∨ rel > s.cfg.max
  · rcases h with h | h <;> simp [h, R.okAt, R.get]
  · have h1 : ¬ rel < s.cfg.min := by omega
    have h2 : ¬ rel > s.cfg.max := by omega
    cases s.find rel <;> simp [h1, h2, R.okAt, R.get]

theorem tie_sack_handle (s : SackSt) (hmax : s.cfg.max ≤ 255) (l3 : L3) (l4 : L4) :
    interp (credited s l4) l3.src (LogicSack.handleProbeLayers.run (atoms s l3 l4)) = handle s l3 l4 := by
  cases l4 with
  | icmp6 i => simp [LogicSack.handleProbeLayers.run, atoms, handle, interp_err, kind_nomatch]
  | tcp t =>
    simp only [credited]
    by_cases hp : l3.src = s.cfg.target ∧ l3.dst = s.cfg.localA
    · by_cases h12 : s.cfg.tport ≠ t.sport ∨ s.cfg.lport ≠ t.dport
      · rcases h12 with h | h <;>
          simp [LogicSack.handleProbeLayers.run, atoms, handle, tOf, hp, h, interp_err, kind_nomatch]
      · have h1 : s.cfg.tport = t.sport := by
          apply Classical.byContradiction; intro h; exact h12 (Or.inl h)
        have h2 : s.cfg.lport = t.dport := by
          apply Classical.byContradiction; intro h; exact h12 (Or.inr h)
        by_cases hf : (t.syn || t.fin || t.rst) = true
        · simp only [atoms, tOf, handle]
          unfold LogicSack.handleProbeLayers.run
          simp only [hf]
          simp [hp, h1, h2, interp_err, kind_nomatch]
        · have hf' : (t.syn || t.fin || t.rst) = false := by simpa using hf
          rcases hm : minSack s.cfg.isn t.opts with _ | rel
          · simp only [atoms, tOf, handle]
            unfold LogicSack.handleProbeLayers.run
            simp only [hf']
            simp [hp, h1, h2, hm, interp_ns]
          · rcases hl : sackLookup s rel with _ | p
            · simp only [atoms, tOf, handle]
              unfold LogicSack.handleProbeLayers.run
              simp only [hf']
              simp [hp, h1, h2, hm, hl, interp_err, kind_bad]
            · have hr : rel % 256 = rel := by have := lookup_le hl; omega
              simp only [atoms, tOf, handle]
              unfold LogicSack.handleProbeLayers.run
              simp only [hf']
              simp [hp, h1, h2, hm, hl, hr, interp_ok]
    · simp [LogicSack.handleProbeLayers.run, atoms, handle, tOf, hp, interp_err, kind_nomatch]
  | icmp4 i =>
    simp only [credited]
    by_cases hte : i.type = 11 ∧ i.code = 0
    · rcases hi : icmpInfo4 i with _ | info
      · simp [LogicSack.handleProbeLayers.run, atoms, handle, isTE, infoOf, hte, hi, interp_err, kind_bad]
      · by_cases hp : info.proto = 6
        · rcases hq : quotedPorts info.payload with _ | ⟨sp, dp⟩
          · simp [LogicSack.handleProbeLayers.run, atoms, handle, isTE, infoOf, hte, hi, hp, hq, interp_err, kind_bad]
          · rcases hs : quotedSeq info.payload with _ | sq
            · simp [LogicSack.handleProbeLayers.run, atoms, handle, isTE, infoOf, hte, hi, hp, hq, hs, interp_err, kind_bad]
            · have hrel : relQ s (.icmp4 i) = (sq + 4294967296 - s.cfg.isn % 4294967296) % 4294967296 := by
                simp [relQ, infoOf, hi, hs]
              have hmod : (sq % 4294967296 + 4294967296 - s.cfg.isn % 4294967296) % 4294967296
                  = (sq + 4294967296 - s.cfg.isn % 4294967296) % 4294967296 := by omega
              by_cases hd : info.qdst = s.cfg.target ∧ dp = s.cfg.tport
              · by_cases hsrc : (!s.cfg.loosen) = true ∧ ¬ (info.qsrc = s.cfg.localA ∧ sp = s.cfg.lport)
                · obtain ⟨hs1, hs2⟩ := hsrc
                  have hl0 : s.cfg.loosen = false := by simpa using hs1
                  simp [LogicSack.handleProbeLayers.run, atoms, handle, isTE, infoOf, hte, hi, hp, hq, hs, hd, hl0, hs2, interp_err, kind_nomatch]
                · have hs' : s.cfg.loosen = true ∨ (info.qsrc = s.cfg.localA ∧ sp = s.cfg.lport) := by
                    by_cases hl1 : s.cfg.loosen = true
                    · exact Or.inl hl1
                    · right
                      have : (!s.cfg.loosen) = true := by simpa using hl1
                      exact Classical.byContradiction (fun h => hsrc ⟨this, h⟩)
                  rcases hf : sackLookup s ((sq + 4294967296 - s.cfg.isn % 4294967296) % 4294967296) with _ | p
                  · rcases hs' with h1 | h1 <;>
                      simp [LogicSack.handleProbeLayers.run, atoms, handle, isTE, infoOf, hrel, hte, hi, hp, hq, hs, hd, h1, hf, interp_err, kind_bad]
                  · have hr : (sq + 4294967296 - s.cfg.isn % 4294967296) % 4294967296 % 256
                        = (sq + 4294967296 - s.cfg.isn % 4294967296) % 4294967296 := by
                      have := lookup_le hf; omega
                    by_cases hsrcT : l3.src = s.cfg.target <;> rcases hs' with h1 | h1 <;>
                      simp [LogicSack.handleProbeLayers.run, atoms, handle, isTE, infoOf, cmp, hrel, hmod, hr, hte, hi, hp, hq, hs, hd, h1, hf, hsrcT, interp_ok] <;> exact toNat_mod _
              · simp [LogicSack.handleProbeLayers.run, atoms, handle, isTE, infoOf, hte, hi, hp, hq, hs, hd, interp_err, kind_nomatch]
        · simp [LogicSack.handleProbeLayers.run, atoms, handle, isTE, infoOf, hte, hi, hp, interp_err, kind_nomatch]
    · simp [LogicSack.handleProbeLayers.run, atoms, handle, isTE, hte, interp_err, kind_nomatch]

/-! ## `getMinSack`: one iteration of its block loop, regenerated, and the loops it drives -/

theorem toNat_mod32 (x : Nat) : (((x : Nat) : Int) % 4294967296).toNat = x % 4294967296 := by omega


/-- meaning of one iteration of `for data := opt.OptionData; len(data) >= 8; data = data[8:]`:
    `none` = the loop ends; otherwise the remaining data, `foundSack` and the running minimum -/
def stepSem (isn : Nat) (data : Bytes) (m : Nat) : Option (Bytes × Bool × Nat) :=
  if data.length < 8 then none else
  match u32 data 0 with
  | some l =>
    let rel := (l + 4294967296 - isn % 4294967296) % 4294967296
    some (data.drop 8, true, Nat.min m rel)
  | none => none

/-- what the regenerated iteration returns, in those terms -/
def interpStep (data : Bytes) (m : Nat) (r : R) : Option (Bytes × Bool × Nat) :=
  if r.effects = ["loopExit()"] then none else
  match r.get "foundSack'", r.get "data'" with
  | some (V.bool f), some (V.ref t) =>
    if t = "data[8:]" then
      match r.get "minSack'" with
      | some (V.int v) => some (data.drop 8, f, v.toNat)
      | _ => some (data.drop 8, f, m)          -- not assigned on this path: unchanged
    else none
  | _, _ => none

theorem u32_some_of_len {b : Bytes} (h : 4 ≤ b.length) : ∃ v, u32 b 0 = some v := by
  obtain ⟨a, ha⟩ := Proofs.BeNat.u16_some_of_len (b := b) (k := 0) (by omega)
  obtain ⟨c, hc⟩ := Proofs.BeNat.u16_some_of_len (b := b) (k := 2) (by omega)
  exact ⟨a * 65536 + c, by simp [u32, ha, hc]⟩

/-- one iteration of the SACK-block loop of `getMinSack` (regenerated) is `stepSem`: the loop needs 8
    octets, reads the left edge as a big-endian 32-bit number at octet 0, makes it relative to the
    initial sequence number in `uint32`, keeps the smaller of it and the running minimum, and moves on
    by 8 octets -/
theorem tie_getMinSack_step (isn : Nat) (data : Bytes) (m : Nat) :
    interpStep data m (LogicSack.getMinSackStep.run { «data» := data, «localInitSeq» := isn, «minSack» := m })
      = stepSem isn data m := by
  unfold stepSem
  by_cases hl : data.length < 8
  · have hlI : ¬ (((data.length : Nat) : Int) ≥ 8) := by omega
    simp [LogicSack.getMinSackStep.run, interpStep, hl, hlI]
  · have hlI : ((data.length : Nat) : Int) ≥ 8 := by omega
    obtain ⟨l, hu⟩ := u32_some_of_len (b := data) (by omega)
    have e : Logic.be (data.take 4) 4 = l := by simpa using Proofs.BeNat.be32_of_u32 hu
    have hm : (l % 4294967296 + 4294967296 - isn % 4294967296) % 4294967296
        = (l + 4294967296 - isn % 4294967296) % 4294967296 := by omega
    by_cases hlt : (l + 4294967296 - isn % 4294967296) % 4294967296 < m
    · have : Nat.min m ((l + 4294967296 - isn % 4294967296) % 4294967296) = (l + 4294967296 - isn % 4294967296) % 4294967296 := by
        simp [Nat.min_def]; omega
      simp [LogicSack.getMinSackStep.run, interpStep, R.get, hl, hlI, hu, e, hm, hlt, this]
      exact toNat_mod32 _
    · have : Nat.min m ((l + 4294967296 - isn % 4294967296) % 4294967296) = m := by
        simp [Nat.min_def]; omega
      simp [LogicSack.getMinSackStep.run, interpStep, R.get, hl, hlI, hu, e, hm, hlt, this]

/-- the block loop: iterate `stepSem` (fuel = an upper bound of the number of iterations) -/
def innerLoop (isn : Nat) : Nat → Bytes → Bool × Nat → Bool × Nat
  | 0, _, st => st
  | fuel+1, data, st =>
    match stepSem isn data st.2 with
    | none => st
    | some (d, f, m) => innerLoop isn fuel d (f, m)

theorem innerLoop_eq (isn : Nat) : ∀ (fuel : Nat) (data : Bytes) (f : Bool) (m : Nat),
    innerLoop isn fuel data (f, m)
      = (f || !(sackEdges isn fuel data).isEmpty, (sackEdges isn fuel data).foldl Nat.min m) := by
  intro fuel
  induction fuel with
  | zero => intro data f m; simp [innerLoop, sackEdges]
  | succ n ih =>
    intro data f m
    unfold innerLoop sackEdges stepSem
    by_cases hl : data.length < 8
    · simp [hl]
    · cases hu : u32 data 0 with
      | none => simp [hl, hu]
      | some l => simp [hl, hu, ih]

/-- the option loop of `getMinSack`: `continue` unless the option is a SACK option (kind 5) -/
def outerLoop (isn : Nat) (opts : List (Nat × Bytes)) (st : Bool × Nat) : Bool × Nat :=
  opts.foldl (fun st o => if o.1 = 5 then innerLoop isn o.2.length o.2 st else st) st

theorem outerLoop_eq (isn : Nat) : ∀ (opts : List (Nat × Bytes)) (f : Bool) (m : Nat),
    outerLoop isn opts (f, m)
      = (f || !((opts.filter (·.1 = 5)).flatMap (fun o => sackEdges isn o.2.length o.2)).isEmpty,
         ((opts.filter (·.1 = 5)).flatMap (fun o => sackEdges isn o.2.length o.2)).foldl Nat.min m) := by
  intro opts
  induction opts with
  | nil => intro f m; simp [outerLoop]
  | cons o rest ih =>
    intro f m
    unfold outerLoop at ih ⊢
    by_cases h5 : o.1 = 5
    · simp only [List.foldl_cons, h5, if_true]
      rw [innerLoop_eq, ih]
      simp [List.filter_cons, h5, List.flatMap_cons, List.foldl_append, Bool.or_assoc]
      cases sackEdges isn o.2.length o.2 <;> simp
    · simp only [List.foldl_cons, h5, if_false]
      rw [ih]
      simp [List.filter_cons, h5]

theorem sackEdges_lt (isn : Nat) : ∀ (fuel : Nat) (data : Bytes) (e : Nat), e ∈ sackEdges isn fuel data → e < 4294967296 := by
  intro fuel
  induction fuel with
  | zero => intro data e h; simp [sackEdges] at h
  | succ n ih =>
    intro data e h
    unfold sackEdges at h
    by_cases hl : data.length < 8
    · simp [hl] at h
    · cases hu : u32 data 0 with
      | none => simp [hl, hu] at h
      | some l =>
        simp [hl, hu] at h
        rcases h with h | h
        · omega
        · exact ih _ _ h

/-- `getMinSack` as the Go code computes it — both loops, starting from `MaxUint32` and `false`,
    "no SACK options" when nothing was found — is the model's `minSack` -/
theorem getMinSack_loops_eq_minSack (isn : Nat) (opts : List (Nat × Bytes)) :
    (let st := outerLoop isn opts (false, 4294967295)
     if st.1 then some st.2 else none) = minSack isn opts := by
  rw [outerLoop_eq]
  unfold minSack
  generalize hE : (opts.filter (·.1 = 5)).flatMap (fun o => sackEdges isn o.2.length o.2) = edges
  have hlt : ∀ e ∈ edges, e < 4294967296 := by
    intro e he
    rw [← hE] at he
    simp only [List.mem_flatMap] at he
    obtain ⟨o, _, ho⟩ := he
    exact sackEdges_lt isn _ _ _ ho
  cases edges with
  | nil => simp
  | cons e es =>
    have : e < 4294967296 := hlt e (by simp)
    have hmin : Nat.min 4294967295 e = e := by simp [Nat.min_def]; omega
    simp [List.foldl_cons, hmin]

#print axioms toNat_mod32
#print axioms u32_some_of_len
#print axioms tie_getMinSack_step
#print axioms innerLoop_eq
#print axioms outerLoop_eq
#print axioms sackEdges_lt
#print axioms getMinSack_loops_eq_minSack
#print axioms sackRecv_eq_handle
#print axioms kind_bad
#print axioms kind_nomatch
#print axioms kind_ns1
#print axioms kind_ns2
#print axioms interp_err
#print axioms interp_ns
#print axioms interp_ok
#print axioms toNat_mod
#print axioms lookup_le
#print axioms tie_sack_getRTT
#print axioms tie_sack_handle

end TRV.Props.TieSack
