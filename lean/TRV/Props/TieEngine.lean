import TRV.Model.Engine
import TRV.Model.Timed
import TRV.Model.Classify
import TRV.Generated.LogicCommon
/-!
# Tie theorems: the engine model equals the decision trees REGENERATED from `common/*.go`

`TRV.Generated.LogicCommon` is rewritten from the Go source on every run by the translator
(`harness/extract/logic.go`): for each listed function the decision logic is a Lean function
`run : Atoms → R`, where the fields of `Atoms` are the uninterpreted sub-expressions of the Go
code, named by their canonical Go text.  Each theorem below instantiates the atoms from the
hand-written model's own variables and proves, for ALL values, that the hand-written model function
and the regenerated function agree.  A change of the Go code that alters a decisive comparison, its
polarity, an integer width or conversion, a constant, or which field is read, makes the structure
literal ill-typed or the equality unprovable: `lake build` fails and the check is red.

These theorems connect `TRV.Engine.validParams / validProbe / writeProbe / serialWrite / clipList`,
`TRV.Timed.Cfg.count`, the `MaxTimeout` term of `TRV.Timed.parT` and `TRV.Classify.retryable` to the
source text; C03, C05, C07, C08, C10 list this module.
-/
namespace TRV.Props.TieEngine
open TRV TRV.Engine TRV.Logic TRV.Generated.LogicCommon

/-- `TracerouteParams.validate` returns nil exactly when the model's `validParams` holds -/
theorem tie_validate (min max : Nat) (_h1 : min < 256) (_h2 : max < 256) :
    (validate.run { «p.MinTTL» := min, «p.MaxTTL» := max }).okAt "0" = validParams min max := by
  unfold validate.run validParams
  (repeat' split) <;> simp_all [R.okAt, R.get] <;> omega

/-- `validateProbe` on a non-nil probe returns nil exactly when the model's `validProbe` holds -/
theorem tie_validateProbe (min max : Nat) (p : Probe) (_h1 : min < 256) (_h2 : max < 256) (_h3 : p.ttl < 256) :
    (validateProbe.run { «probe == nil» := false, «probe.TTL» := p.ttl,
                         «p.MinTTL» := min, «p.MaxTTL» := max }).okAt "0" = validProbe min max p := by
  unfold validateProbe.run validProbe
  (repeat' split) <;> simp_all [R.okAt, R.get] <;> omega

/-- a nil probe is an error whatever the other atoms are (the model's `ROut.nilProbe` outcome) -/
theorem tie_validateProbe_nil (ttl min max : Nat) :
    (validateProbe.run { «probe == nil» := true, «probe.TTL» := ttl,
                         «p.MinTTL» := min, «p.MaxTTL» := max }).okAt "0" = false := by
  simp [validateProbe.run, R.okAt, R.get]

/-- `ProbeCount` is the model's `Cfg.count`, computed in `int` after widening both TTLs (no uint8
    wrap-around) -/
theorem tie_probeCount (c : Timed.Cfg) (_h1 : c.min < 256) (_h2 : c.max < 256) :
    (ProbeCount.run { «p.MinTTL» := c.min, «p.MaxTTL» := c.max }).rets = [("0", V.int (c.count : Int))] := by
  unfold ProbeCount.run Timed.Cfg.count
  (repeat' split) <;> simp_all <;> omega

/-- `MaxTimeout` = `TracerouteTimeout + SendDelay * ProbeCount()`: the overall deadline used by the
    timed model of the parallel engine (`Timed.parT`: `start + c.timeout + c.count * c.delay`) -/
theorem tie_maxTimeout (c : Timed.Cfg) :
    (MaxTimeout.run { «p.SendDelay» := c.delay, «p.ProbeCount()» := c.count,
                      «p.TracerouteTimeout» := c.timeout }).rets
      = [("0", V.int ((c.timeout + c.count * c.delay : Nat) : Int))] := by
  simp [MaxTimeout.run, Int.mul_comm]

/-- interpretation of a write decision: the slot array after the effects of the path -/
def applyWrite (s : Slots) (p : Probe) (r : R) : Slots :=
  if r.effects = ["results[probe.TTL] = probe"] then (fun t => if t = p.ttl then some p else s t)
  else if r.effects = [] then s
  else emptySlots    -- an effect the model does not know: never equal to the model below

/-- the atoms of the write decision, read off the model's state -/
def writeAtoms (s : Slots) (p : Probe) : writeProbe.Atoms :=
  { «results[probe.TTL] == nil» := (s p.ttl).isNone
    «results[probe.TTL].IsDest» := isDestSlot (s p.ttl)
    «probe.IsDest» := p.dest }

/-- the `writeProbe` closure of `TracerouteParallel` is the model's `writeProbe` -/
theorem tie_writeProbe (s : Slots) (p : Probe) :
    applyWrite s p (writeProbe.run (writeAtoms s p)) = Engine.writeProbe s p := by
  funext t
  unfold applyWrite writeProbe.run writeAtoms Engine.writeProbe isDestSlot
  cases h : s p.ttl with
  | none => by_cases ht : t = p.ttl <;> simp [h, ht]
  | some prev =>
    by_cases ht : t = p.ttl <;> cases hp : prev.dest <;> cases p.dest <;> simp [h, ht, hp]

/-- the slot update inside `TracerouteSerial` is the model's `serialWrite` (same rule, written as one
    condition in the Go source) -/
theorem tie_serialWrite (s : Slots) (p : Probe) :
    applyWrite s p (serialWrite.run
      { «results[probe.TTL] == nil» := (s p.ttl).isNone
        «results[probe.TTL].IsDest» := isDestSlot (s p.ttl)
        «probe.IsDest» := p.dest }) = Engine.serialWrite s p := by
  funext t
  unfold applyWrite serialWrite.run Engine.serialWrite Engine.writeProbe isDestSlot
  cases h : s p.ttl with
  | none => by_cases ht : t = p.ttl <;> simp [h, ht]
  | some prev =>
    by_cases ht : t = p.ttl <;> cases hp : prev.dest <;> cases p.dest <;> simp [h, ht, hp]

/-- `slices.IndexFunc(results, pr != nil && pr.IsDest)` on the model's slot list -/
def destIdx (rs : List (Option Probe)) : Int :=
  match rs.findIdx? isDestSlot with
  | some i => (i : Int)
  | none => -1

/-- interpretation of what `clipResults` returns: the two slice expressions of the source -/
def applyClip (min : Nat) (rs : List (Option Probe)) (r : R) : Option (List (Option Probe)) :=
  let cut (l : List (Option Probe)) := if min ≤ l.length then some (l.drop min) else none
  match r.get "0" with
  | some (V.ref t) =>
    if t = "results[minTTL:]" then cut rs
    else if t = "slices.Clip(results[:slices.IndexFunc(results, func(pr *ProbeResponse) bool { return pr != nil && pr.IsDest }) + 1])[minTTL:]"
      then cut (rs.take ((destIdx rs + 1).toNat))
    else none
  | _ => none

/-- `clipResults` is the model's `clipList` (the slice-bounds panic of `results[minTTL:]` included) -/
theorem tie_clipResults (min : Nat) (rs : List (Option Probe)) :
    applyClip min rs (clipResults.run
      { «slices.IndexFunc(results, func(pr *ProbeResponse) bool { return pr != nil && pr.IsDest })» := destIdx rs })
      = clipList min rs := by
  unfold applyClip clipResults.run clipList destIdx
  cases h : rs.findIdx? isDestSlot with
  | none => simp [R.get]
  | some i =>
    have h1 : ((i : Int) != -1) = true := by simp
    have h2 : ((i : Int) + 1).toNat = i + 1 := by omega
    simp [R.get, h1, h2]

/-- `CheckProbeRetryable` is the model's `retryable` over the error chain -/
theorem tie_checkProbeRetryable (c : Classify.Chain) :
    (CheckProbeRetryable.run
      { «errors.As(err, &&ReceiveProbeNoPktError{})» := c.contains .noPkt
        «errors.As(err, &&BadPacketError{})» := c.contains .badPkt }).rets
      = [("0", V.bool (Classify.retryable c))] := by
  unfold CheckProbeRetryable.run Classify.retryable
  cases c.contains Classify.Link.noPkt <;> cases c.contains Classify.Link.badPkt <;> simp

/-! non-vacuity: concrete instances evaluate as expected -/
example : (validate.run { «p.MinTTL» := 0, «p.MaxTTL» := 30 }).okAt "0" = false := by decide
example : (validate.run { «p.MinTTL» := 1, «p.MaxTTL» := 255 }).okAt "0" = true := by decide
example : (ProbeCount.run { «p.MinTTL» := 1, «p.MaxTTL» := 255 }).rets = [("0", V.int 255)] := by decide

#print axioms tie_validate
#print axioms tie_validateProbe
#print axioms tie_validateProbe_nil
#print axioms tie_probeCount
#print axioms tie_maxTimeout
#print axioms tie_writeProbe
#print axioms tie_serialWrite
#print axioms tie_clipResults
#print axioms tie_checkProbeRetryable

end TRV.Props.TieEngine
