import TRV.Model.Drivers
import TRV.Generated.LogicTcp
import TRV.Generated.LogicCommon
/-!
# Tie theorems: the TCP SYN matcher model equals the decision tree REGENERATED from `tcp/tcp_driver.go`

Same method as `TRV/Props/TieIcmp.lean` / `TieUdp.lean`.  `tie_tcp_handle`: for every driver state and
every parsed packet the model's `tcpRecv` (after `ReadAndParse`) is the regenerated tree of
`tcpDriver.handleProbeLayers` — flag test, expected address pair, ports, `Ack - 1` in `uint32`
against the LAST sent probe's sequence number, and the ICMP time-exceeded arm with the quoted
protocol, ports, strict/relaxed source check and the (IP id, sequence number) lookup.
`tie_tcp_ids`: `getNextPacketIDAndSeqNum` is the model's `tcpIds` (`basePacketID + ttl` in `uint16`).

Assumption about code outside the tree: a stored `probeData` is never the zero value.
-/
namespace TRV.Props.TieTcp
open TRV TRV.Wire TRV.Drv TRV.Logic TRV.Generated

def kindOf (k : String) : String :=
  match (LogicTcp.sentinels ++ LogicCommon.sentinels.map (fun p => ("common." ++ p.1, "common." ++ p.2))).find? (·.1 = k) with
  | some p => p.2
  | none => k

def retryableKind (k : String) : Bool := k = "common.BadPacketError" || k = "common.ReceiveProbeNoPktError"

def interp (probe : Option Sent) (src : Bytes) (r : R) : Out :=
  match r.get "1" with
  | some V.nil =>
    match r.get "0.TTL", r.get "0.IsDest", r.get "0.IP", probe with
    | some (V.int t), some (V.bool d), some (V.ref ip), some p =>
      if ip = "t.parser.GetIPPair().0.SrcAddr" then .accept t.toNat src d p.time else .fatal
    | _, _, _, _ => .fatal
  | some (V.err k) => if retryableKind (kindOf k) then .retry else .fatal
  | _ => .fatal

/-- the part of `tcpRecv` after a successful `ReadAndParse` -/
def handle (s : TcpSt) (l3 : L3) (l4 : L4) : Out :=
  match l4 with
  | .tcp t =>
    let isSynack := t.syn && t.ackf
    let isRst := t.rst
    let isRstAck := t.rst && t.ackf
    if !isSynack && !isRst && !isRstAck then .retry
    else if ¬ (l3.src = s.cfg.target ∧ l3.dst = s.cfg.localA) then .retry
    else if s.cfg.tport ≠ t.sport then .retry
    else if s.cfg.lport ≠ t.dport then .retry
    else
      match s.sent.getLast? with
      | none => .fatal
      | some last =>
        let expectedSeq := (t.ack + 4294967295) % 4294967296
        if (isSynack || isRstAck) && last.seq ≠ expectedSeq then .retry
        else .accept last.ttl l3.src true last.time
  | .icmp4 i =>
    if ¬ (i.type = 11 ∧ i.code = 0) then .retry
    else match icmpInfo4 i with
      | none => .retry
      | some info =>
        if info.proto ≠ 6 then .retry else
        match quotedPorts info.payload, quotedSeq info.payload with
        | some (sp, dp), some sq =>
          if ¬ (info.qdst = s.cfg.target ∧ dp = s.cfg.tport) then .retry
          else if !s.cfg.loosen ∧ ¬ (info.qsrc = s.cfg.localA ∧ sp = s.cfg.lport) then .retry
          else match s.sent.find? (fun p => p.id = info.wrappedId ∧ p.seq = sq) with
            | none => .retry
            | some p => .accept p.ttl l3.src false p.time
        | _, _ => .retry
  | .icmp6 _ => .retry

theorem tcpRecv_eq_handle (s : TcpSt) (pkt : Bytes) :
    tcpRecv s pkt = if pkt.isEmpty then .fatal else
      match parse (pkt.take bufSize) with
      | none => .retry
      | some (l3, l4) => handle s l3 l4 := by
  unfold tcpRecv
  by_cases h : pkt.isEmpty = true
  · simp [h]
  · simp only [h]
    cases parse (pkt.take bufSize) with
    | none => rfl
    | some v =>
      obtain ⟨l3, l4⟩ := v
      cases l4 <;> rfl

def dInfo : ICMPInfo := ⟨0, 0, [], [], []⟩
def dSent : Sent := ⟨0, 0, 0, 0⟩
def dTcp : TCP := ⟨0, 0, 0, 0, 0, [], []⟩

def tOf : L4 → TCP
  | .tcp t => t
  | _ => dTcp

def infoOf : L4 → Option ICMPInfo
  | .icmp4 i => icmpInfo4 i
  | _ => none

def isTE : L4 → Bool
  | .icmp4 i => decide (i.type = 11 ∧ i.code = 0)
  | _ => false

/-- the record the lookup atoms of the ICMP arm stand for -/
def foundQ (s : TcpSt) (l4 : L4) : Option Sent :=
  let info := (infoOf l4).getD dInfo
  s.sent.find? (fun p => p.id = info.wrappedId ∧ p.seq = (quotedSeq info.payload).getD 0)

/-- the record an accepted outcome is credited to: the last sent probe for a TCP segment, the looked-up
    one for an ICMP error -/
def credited (s : TcpSt) (l4 : L4) : Option Sent :=
  match l4 with
  | .tcp _ => s.sent.getLast?
  | _ => foundQ s l4

def atoms (s : TcpSt) (l3 : L3) (l4 : L4) : LogicTcp.handleProbeLayers.Atoms :=
  let t := tOf l4
  let info := (infoOf l4).getD dInfo
  let ports := (quotedPorts info.payload).getD (0, 0)
  let last := (s.sent.getLast?).getD dSent
  { «t.parser.GetIPPair().1 == nil» := true
    «t.parser.GetTransportLayer()» := match l4 with | .icmp4 _ => 1 | .icmp6 _ => 2 | .tcp _ => 3
    «layers.LayerTypeTCP» := 3
    «layers.LayerTypeICMPv4» := 1
    «t.parser.TCP.SYN» := t.syn
    «t.parser.TCP.ACK» := t.ackf
    «t.parser.TCP.RST» := t.rst
    «t.parser.GetIPPair().0 == t.ExpectedIPPair()» := decide (l3.src = s.cfg.target ∧ l3.dst = s.cfg.localA)
    «t.config.DestPort» := s.cfg.tport
    «t.parser.TCP.SrcPort» := t.sport
    «t.config.srcPort» := s.cfg.lport
    «t.parser.TCP.DstPort» := t.dport
    «t.parser.TCP.Ack» := t.ack
    «t.getLastSentProbe().1 == nil» := (s.sent.getLast?).isSome
    «t.getLastSentProbe().0.seqNum» := last.seq
    «t.config.ParisTracerouteMode» := s.cfg.paris
    «t.getLastSentProbe().0 == probeData{}» := false
    «time.Since(t.getLastSentProbe().0.sendTime)» := 0
    «t.getLastSentProbe().0.ttl» := last.ttl
    «t.parser.IsTTLExceeded()» := isTE l4
    «t.parser.GetICMPInfo().1 == nil» := (infoOf l4).isSome
    «t.parser.GetICMPInfo().0.WrappedProtocol» := info.proto
    «packets.ParseTCPFirstBytes(t.parser.GetICMPInfo().0.Payload).1 == nil» := (quotedPorts info.payload).isSome && (quotedSeq info.payload).isSome
    «netip.AddrPortFrom(t.parser.GetICMPInfo().0.ICMPPair.DstAddr, packets.ParseTCPFirstBytes(t.parser.GetICMPInfo().0.Payload).0.DstPort) == t.getTargetAddrPort()» :=
      decide (info.qdst = s.cfg.target ∧ ports.2 = s.cfg.tport)
    «t.config.LoosenICMPSrc» := s.cfg.loosen
    «netip.AddrPortFrom(t.parser.GetICMPInfo().0.ICMPPair.SrcAddr, packets.ParseTCPFirstBytes(t.parser.GetICMPInfo().0.Payload).0.SrcPort) == t.getLocalAddrPort()» :=
      decide (info.qsrc = s.cfg.localA ∧ ports.1 = s.cfg.lport)
    «t.findMatchingProbe(t.parser.GetICMPInfo().0.WrappedPacketID, packets.ParseTCPFirstBytes(t.parser.GetICMPInfo().0.Payload).0.Seq) == probeData{}» := (foundQ s l4).isNone
    «time.Since(t.findMatchingProbe(t.parser.GetICMPInfo().0.WrappedPacketID, packets.ParseTCPFirstBytes(t.parser.GetICMPInfo().0.Payload).0.Seq).sendTime)» := 0
    «t.findMatchingProbe(t.parser.GetICMPInfo().0.WrappedPacketID, packets.ParseTCPFirstBytes(t.parser.GetICMPInfo().0.Payload).0.Seq).ttl» := ((foundQ s l4).getD dSent).ttl }

theorem kind_bad : retryableKind (kindOf "common.BadPacketError") = true := by decide
theorem kind_nomatch : retryableKind (kindOf "common.ErrPacketDidNotMatchTraceroute") = true := by decide
theorem kind_wrap : retryableKind (kindOf "fmt.Errorf %w t.getLastSentProbe().1") = false := by decide

theorem interp_err (probe : Option Sent) (src : Bytes) (e : List String) (k : String) (h : retryableKind (kindOf k) = true) :
    interp probe src ⟨e, [("0", V.nil), ("1", V.err k)]⟩ = .retry := by
  simp [interp, R.get, h]

theorem interp_fatal (probe : Option Sent) (src : Bytes) (e : List String) (k : String) (h : retryableKind (kindOf k) = false) :
    interp probe src ⟨e, [("0", V.nil), ("1", V.err k)]⟩ = .fatal := by
  simp [interp, R.get, h]

theorem interp_ok (p : Sent) (src : Bytes) (e : List String) (t rtt : Int) (d : Bool) :
    interp (some p) src ⟨e, [("0", V.ref "new common.ProbeResponse"), ("0.TTL", V.int t), ("0.IP", V.ref "t.parser.GetIPPair().0.SrcAddr"),
      ("0.RTT", V.int rtt), ("0.IsDest", V.bool d), ("1", V.nil)]⟩ = .accept t.toNat src d p.time := by
  simp [interp, R.get]

/-- `getNextPacketIDAndSeqNum` is the model's `tcpIds` (per-probe random sequence number as an input) -/
theorem tie_tcp_ids (cfg : TcpCfg) (ttl rnd : Nat) :
    (LogicTcp.getNextPacketIDAndSeqNum.run
      { «t.config.ParisTracerouteMode» := cfg.paris, «rand.Uint32()» := rnd, «t.basePacketID» := cfg.baseId,
        «ttl» := ttl, «t.seqNum» := cfg.seq }).rets
      = [("0", V.int ((tcpIds cfg ttl rnd).1 : Int)), ("1", V.int ((tcpIds cfg ttl rnd).2 : Int))] := by
  unfold LogicTcp.getNextPacketIDAndSeqNum.run tcpIds
  cases cfg.paris <;> simp

/-- the TCP-segment arm of the model with the flags as plain Booleans -/
def armT (s : TcpSt) (src : Bytes) (syn ackf rst pairOK : Bool) (sport dport ack : Nat) : Out :=
  if !(syn && ackf) && !rst && !(rst && ackf) then .retry
  else if !pairOK then .retry
  else if s.cfg.tport ≠ sport then .retry
  else if s.cfg.lport ≠ dport then .retry
  else
    match s.sent.getLast? with
    | none => .fatal
    | some last =>
      if ((syn && ackf) || (rst && ackf)) && last.seq ≠ (ack + 4294967295) % 4294967296 then .retry
      else .accept last.ttl src true last.time

/-- the regenerated tree on a TCP segment, with the flags as plain Booleans -/
theorem coreT (s : TcpSt) (l3 : L3) (t : TCP) :
    interp (s.sent.getLast?) l3.src (LogicTcp.handleProbeLayers.run (atoms s l3 (.tcp t)))
      = armT s l3.src t.syn t.ackf t.rst (decide (l3.src = s.cfg.target ∧ l3.dst = s.cfg.localA)) t.sport t.dport t.ack := by
  have hm : (t.ack % 4294967296 + 4294967296 - 1 % 4294967296) % 4294967296 = (t.ack + 4294967295) % 4294967296 := by omega
  rcases hl : s.sent.getLast? with _ | last
  all_goals
    simp only [atoms, tOf, infoOf, isTE, foundQ, hl]
    generalize t.syn = syn
    generalize t.ackf = ackf
    generalize t.rst = rst
    generalize decide (l3.src = s.cfg.target ∧ l3.dst = s.cfg.localA) = pairOK
    unfold armT LogicTcp.handleProbeLayers.run
    simp only [hm]
    by_cases hf : (!(syn && ackf) && !rst && !(rst && ackf)) = true
    · simp only [hf]; simp [interp_err, kind_nomatch]
    · have hf' : (!(syn && ackf) && !rst && !(rst && ackf)) = false := by simpa using hf
      simp only [hf']
      cases pairOK
      · simp [interp_err, kind_nomatch]
      · generalize s.cfg.tport = tp
        generalize t.sport = sp
        generalize s.cfg.lport = lp
        generalize t.dport = dq
        by_cases h1 : tp = sp
        · subst h1
          by_cases h2 : lp = dq
          · subst h2
            simp [hl, interp_fatal, kind_wrap, dSent]
            try (
              by_cases hq : (syn = true ∧ ackf = true ∨ rst = true ∧ ackf = true) ∧ ¬last.seq = (t.ack + 4294967295) % 4294967296
              · cases s.cfg.paris <;> simp [hq, interp_err, kind_nomatch]
              · simp [hq, interp_ok])
          · simp [h2, Ne.symm h2, interp_err, kind_nomatch]
        · simp [h1, Ne.symm h1, interp_err, kind_nomatch]

/-- the time-exceeded arm of the model once the quoted information is known -/
def restI (s : TcpSt) (src : Bytes) (info : ICMPInfo) : Out :=
  if info.proto ≠ 6 then .retry else
  match quotedPorts info.payload, quotedSeq info.payload with
  | some (sp, dp), some sq =>
    if ¬ (info.qdst = s.cfg.target ∧ dp = s.cfg.tport) then .retry
    else if !s.cfg.loosen ∧ ¬ (info.qsrc = s.cfg.localA ∧ sp = s.cfg.lport) then .retry
    else match s.sent.find? (fun p => p.id = info.wrappedId ∧ p.seq = sq) with
      | none => .retry
      | some p => .accept p.ttl src false p.time
  | _, _ => .retry

/-- for every driver state and every parsed packet, the model's TCP SYN matcher is the decision tree
    regenerated from `tcpDriver.handleProbeLayers` -/
theorem tie_tcp_handle (s : TcpSt) (l3 : L3) (l4 : L4) :
    interp (credited s l4) l3.src (LogicTcp.handleProbeLayers.run (atoms s l3 l4)) = handle s l3 l4 := by
  cases l4 with
  | icmp6 i => simp [LogicTcp.handleProbeLayers.run, atoms, handle, interp_err, kind_nomatch]
  | tcp t =>
    simp only [credited]
    rw [coreT]
    by_cases hp : l3.src = s.cfg.target ∧ l3.dst = s.cfg.localA <;> simp [armT, handle, hp]
  | icmp4 i =>
    simp only [credited]
    by_cases hte : i.type = 11 ∧ i.code = 0
    · rcases hi : icmpInfo4 i with _ | info
      · simp [LogicTcp.handleProbeLayers.run, atoms, handle, isTE, infoOf, hte, hi, interp_err, kind_bad]
      · by_cases hp : info.proto = 6
        · rcases hq : quotedPorts info.payload with _ | ⟨sp, dp⟩
          · simp [LogicTcp.handleProbeLayers.run, atoms, handle, isTE, infoOf, hte, hi, hp, hq, interp_err, kind_bad]
          · rcases hs : quotedSeq info.payload with _ | sq
            · simp [LogicTcp.handleProbeLayers.run, atoms, handle, isTE, infoOf, hte, hi, hp, hq, hs, interp_err, kind_bad]
            · by_cases hd : info.qdst = s.cfg.target ∧ dp = s.cfg.tport
              · by_cases hsrc : (!s.cfg.loosen) = true ∧ ¬ (info.qsrc = s.cfg.localA ∧ sp = s.cfg.lport)
                · obtain ⟨hs1, hs2⟩ := hsrc
                  have hl0 : s.cfg.loosen = false := by simpa using hs1
                  simp [LogicTcp.handleProbeLayers.run, atoms, handle, isTE, infoOf, hte, hi, hp, hq, hs, hd, hl0, hs2, interp_err, kind_nomatch]
                · have hs' : s.cfg.loosen = true ∨ (info.qsrc = s.cfg.localA ∧ sp = s.cfg.lport) := by
                    by_cases hl1 : s.cfg.loosen = true
                    · exact Or.inl hl1
                    · right
                      have : (!s.cfg.loosen) = true := by simpa using hl1
                      exact Classical.byContradiction (fun h => hsrc ⟨this, h⟩)
                  rcases hf : s.sent.find? (fun p => decide (p.id = info.wrappedId) && decide (p.seq = sq)) with _ | p
                  · rcases hs' with h1 | h1 <;>
                      simp [LogicTcp.handleProbeLayers.run, atoms, handle, isTE, infoOf, foundQ, dInfo, hte, hi, hp, hq, hs, hd, h1, hf, interp_err, kind_nomatch]
                  · rcases hs' with h1 | h1 <;>
                      simp [LogicTcp.handleProbeLayers.run, atoms, handle, isTE, infoOf, foundQ, dInfo, hte, hi, hp, hq, hs, hd, h1, hf, interp_ok]
              · simp [LogicTcp.handleProbeLayers.run, atoms, handle, isTE, infoOf, hte, hi, hp, hq, hs, hd, interp_err, kind_nomatch]
        · simp [LogicTcp.handleProbeLayers.run, atoms, handle, isTE, infoOf, hte, hi, hp, interp_err, kind_nomatch]
    · simp [LogicTcp.handleProbeLayers.run, atoms, handle, isTE, hte, interp_err, kind_nomatch]

#print axioms tcpRecv_eq_handle
#print axioms kind_bad
#print axioms kind_nomatch
#print axioms kind_wrap
#print axioms interp_err
#print axioms interp_fatal
#print axioms interp_ok
#print axioms tie_tcp_ids
#print axioms coreT
#print axioms tie_tcp_handle

end TRV.Props.TieTcp
