import TRV.Proofs.Complete6Hbh
set_option linter.unusedVariables false
/-!
# C02, byte level, IPv6 replies behind a hop-by-hop extension header

The IPv6 counterpart of "outer IP options": the three IPv6 reply families of `Props/C02.lean` again
with ANY hop-by-hop header between the IPv6 header and the ICMPv6 message — any length
(`hlen*8 + 8` bytes), any option bytes gopacket's TLV loop accepts (`hbhTLVs … = some opts`, the
model of `IPv6HopByHop.DecodeFromBytes`), no jumbo option.  `c02_hbh_hyp_padn` shows the hypothesis
holds for the PadN header of the catalogue's `outer-hbh` forms, whatever follows it.
(The ICMP capture filter does not let such frames through — finding F12 of C12; these theorems are
about the matchers, which see them on platforms and sockets without that filter.)
-/
namespace TRV.Props.C02Hbh
open TRV TRV.Wire TRV.Build TRV.Drv TRV.Proofs

theorem c02_icmp6_echo_bytes_hbh {s : IcmpSt} {t : Nat} {p : Sent}
    {ob1 ob2 ob3 ohop hlen code ick : Nat} {tlvs body : Bytes} {opts : List (Nat × Bytes)}
    (hl : s.cfg.localA.length = 16) (htg : s.cfg.target.length = 16)
    (b3 : ohop < 256) (b4 : code < 256) (hh : hlen < 256) (htl : tlvs.length = hlen * 8 + 6)
    (htlv : hbhTLVs (hlen * 8 + 8) ([byte 58, byte hlen] ++ tlvs ++
      (([byte 129, byte code] ++ be16 ick ++ (be16 s.cfg.echoId ++ be16 t)) ++ body)) 2 (hlen * 8 + 8) = some opts)
    (hj : hbhJumbo opts = some none)
    (b13 : s.cfg.echoId < 65536) (b14 : t < 65536)
    (hsize : 40 + (hlen * 8 + 8 + (8 + body.length)) ≤ 1024) (hlk : icmpLookup s t = some p) :
    icmpRecv s (icmpMsg6h ob1 ob2 ob3 ohop s.cfg.target s.cfg.localA hlen tlvs 129 code ick (be16 s.cfg.echoId ++ be16 t) body) =
      .accept t s.cfg.target true p.time :=
  icmp6_echo_complete_hbh hl htg b3 b4 hh htl htlv hj b13 b14 hsize hlk

theorem c02_icmp6_te_bytes_hbh {s : IcmpSt} {t : Nat} {p : Sent}
    {ob1 ob2 ob3 ohop hlen code ick qb1 qb2 qb3 qplen qhop ety ecode eck : Nat} {r rest4 tlvs extra : Bytes} {opts : List (Nat × Bytes)}
    (hl : s.cfg.localA.length = 16) (htg : s.cfg.target.length = 16) (hr : r.length = 16) (hrest : rest4.length = 4)
    (b3 : ohop < 256) (b4 : code < 256) (hh : hlen < 256) (htl : tlvs.length = hlen * 8 + 6)
    (b6 : 8 ≤ qplen) (b7 : qplen < 65536) (b10 : qhop < 256)
    (b11 : ety = 128 ∨ ety = 129) (b12 : ecode < 256) (b13 : s.cfg.echoId < 65536) (b14 : t < 65536)
    (htlv : hbhTLVs (hlen * 8 + 8) ([byte 58, byte hlen] ++ tlvs ++
      (([byte 3, byte code] ++ be16 ick ++ rest4) ++ (rawHdr6 qb1 qb2 qb3 qplen 58 qhop s.cfg.localA s.cfg.target ++
          (([byte ety, byte ecode] ++ be16 eck ++ be16 s.cfg.echoId ++ be16 t) ++ extra)))) 2 (hlen * 8 + 8) = some opts)
    (hj : hbhJumbo opts = some none)
    (hsize : 40 + (hlen * 8 + 8 + (8 + (48 + extra.length))) ≤ 1024) (hlk : icmpLookup s t = some p) :
    icmpRecv s (icmpMsg6h ob1 ob2 ob3 ohop r s.cfg.localA hlen tlvs 3 code ick rest4
        (rawHdr6 qb1 qb2 qb3 qplen 58 qhop s.cfg.localA s.cfg.target ++
          (([byte ety, byte ecode] ++ be16 eck ++ be16 s.cfg.echoId ++ be16 t) ++ extra))) =
      .accept t r false p.time :=
  icmp6_te_complete_hbh hl htg hr hrest b3 b4 hh htl b6 b7 b10 b11 b12 b13 b14 htlv hj hsize hlk

theorem c02_udp6_err_bytes_hbh {s : UdpSt} {p : Sent}
    {ob1 ob2 ob3 ohop hlen ty code ick qb1 qb2 qb3 qhop : Nat} {r rest4 w tlvs extra : Bytes} {opts : List (Nat × Bytes)}
    (hl : s.cfg.localA.length = 16) (htg : s.cfg.target.length = 16) (hr : r.length = 16) (hrest : rest4.length = 4)
    (hw : w.length = 4)
    (b3 : ohop < 256) (b4 : code < 256) (hty : (ty = 3 ∧ code = 0) ∨ ty = 1) (hh : hlen < 256) (htl : tlvs.length = hlen * 8 + 6)
    (b6 : 8 ≤ p.id) (b7 : p.id < 65536) (b10 : qhop < 256)
    (b11 : s.cfg.lport < 65536) (b12 : s.cfg.tport < 65536)
    (htlv : hbhTLVs (hlen * 8 + 8) ([byte 58, byte hlen] ++ tlvs ++
      (([byte ty, byte code] ++ be16 ick ++ rest4) ++ (rawHdr6 qb1 qb2 qb3 p.id 17 qhop s.cfg.localA s.cfg.target ++
          ((be16 s.cfg.lport ++ be16 s.cfg.tport ++ w) ++ extra)))) 2 (hlen * 8 + 8) = some opts)
    (hj : hbhJumbo opts = some none)
    (hsize : 40 + (hlen * 8 + 8 + (8 + (48 + extra.length))) ≤ 1024) (hf : s.sent.find? (·.id = p.id) = some p) :
    udpRecv s (icmpMsg6h ob1 ob2 ob3 ohop r s.cfg.localA hlen tlvs ty code ick rest4
        (rawHdr6 qb1 qb2 qb3 p.id 17 qhop s.cfg.localA s.cfg.target ++
          ((be16 s.cfg.lport ++ be16 s.cfg.tport ++ w) ++ extra))) =
      .accept p.ttl r (decide (r = s.cfg.target)) p.time :=
  udp6_err_complete_hbh hl htg hr hrest hw b3 b4 hty hh htl b6 b7 b10 b11 b12 htlv hj hsize hf

/-- the TLV hypothesis holds for the 8-byte PadN header, whatever follows it -/
theorem c02_hbh_hyp_padn (l4 : Bytes) :
    hbhTLVs 8 ([byte 58, byte 0] ++ [1, 4, 0, 0, 0, 0] ++ l4) 2 8 = some [(1, [0, 0, 0, 0])] ∧
    hbhJumbo [(1, [0, 0, 0, 0])] = some none := hbh_padn_ok l4

/-- non-vacuity (kernel evaluation): an echo reply behind a 16-byte hop-by-hop header (router alert,
    then PadN) is accepted -/
example :
    let cfg : IcmpCfg := { localA := List.replicate 15 0 ++ [1], target := List.replicate 15 0 ++ [9], echoId := 0x1234, min := 1, max := 30 }
    let st : IcmpSt := { cfg, sent := [{ ttl := 3, id := 0x1234, seq := 3, time := 100 }] }
    icmpRecv st (icmpMsg6h 0 0 0 60 cfg.target cfg.localA 1 [5, 2, 0, 0, 1, 6, 0, 0, 0, 0, 0, 0, 1, 0] 129 0 0 (be16 0x1234 ++ be16 3) [0xaa, 0xbb]) =
      .accept 3 cfg.target true 100 := by decide +kernel

#print axioms c02_icmp6_echo_bytes_hbh
#print axioms c02_icmp6_te_bytes_hbh
#print axioms c02_udp6_err_bytes_hbh
#print axioms c02_hbh_hyp_padn
end TRV.Props.C02Hbh
