import TRV.Proofs.Net
set_option linter.unusedSimpArgs false
/-!
# C13 — Linux kernel conformance: real routers, real sockets, true path (partial)

Property theorems only.  They are about the abstract network `TRV.Net` (Linux-like forwarding: TTL
decrement per router, time-exceeded from the router where the TTL expires unless it is silent, the
destination's protocol-specific answer for every probe that reaches it) composed with the *existing*
engine models `Engine.parallelRun` / `Engine.serialRun` and the TCP method policy `Policy.fallback`.
The kernel itself is not modelled: it is sampled by `harness/corr/c13_test.go` (network-namespace
chains), which compares the real CLI's output with `expectedHops` for the same topology.

Scope of the quantifiers: every number of routers `N ≥ 0`, every silent subset, every address
assignment in which no router shares the destination's address, every `1 ≤ min ≤ max` (the Go code
restricts TTLs to `≤ 255`; nothing here depends on that bound), every arrival order of the replies —
and every duplication of replies and every amount of interleaved retryable noise —, every point
`last` at which the sender stopped once the destination had been reached, every timing in which probes
are sent in TTL order and a reply is delivered after its probe was sent, and for SACK every order in
which the probes reach the destination (`low`).
-/
namespace TRV.Props.C13
open TRV TRV.Engine TRV.Net TRV.Spec.Net TRV.Proofs.Net

/-- Linux-like forwarding, spelled out: a probe sent with TTL `t ≤ N` expires at router `t`, which
    answers with time-exceeded from its own address unless it is silent; a probe sent with TTL
    `≥ N+1` reaches the destination and gets the destination's answer; TTL 0 gets nothing. -/
theorem c13_respond_linux (n : Net) (v : Variant) :
    (∀ t, 1 ≤ t → t ≤ n.routers.length → ∃ r, n.routers[t - 1]? = some r ∧
        respond n v t = if r.silent then none else some (.timeExceeded r.addr)) ∧
    (∀ t, n.routers.length + 1 ≤ t → respond n v t = some (destReply n.dest v)) ∧
    respond n v 0 = none := by
  refine ⟨?_, ?_, ?_⟩
  · intro t h1 h2
    obtain ⟨r, hr, hf⟩ := forward_router (destReply n.dest v) n.routers t h1 h2
    exact ⟨r, hr, by simpa [respond, routerReply] using hf⟩
  · intro t ht; exact forward_dest _ _ _ ht
  · unfold respond; cases n.routers <;> simp [forward]

/-- **Parallel engine (ICMP, UDP, SACK).**  (The statement holds for the reply rule of every variant
    `v`; the code runs the parallel engine for these three.)  Let the probes `min..last` have been sent (`last = max`,
    or the sender stopped early, which it only does after the destination answered: `destTTL ≤ last`),
    and let the receiver have consumed `outs`: any list of acceptances and retryable outcomes whose
    acceptances are — as a set — exactly the replies the network produces for those probes (so: in
    any order, each any number of times).  Then the engine succeeds, `ToHops` succeeds, and the hop
    list is exactly the reference list: router `t`'s address for each probed `t ≤ N` (empty where
    silent), then the destination at the first probed TTL that reaches it, marked destination, nothing
    after it; every RTT is non-negative. -/
theorem c13_path_trace_parallel (n : Net) (v : Variant) (low : Nat → Nat) (tm : Timing)
    (min max last : Nat) (outs : List ROut)
    (hwf : ∀ r ∈ n.routers, r.addr ≠ n.dest.addr)
    (hsack : v = .sack → n.dest.sackEnabled = true)
    (hlow : v = .sack → LowOK n min low)
    (htm : tm.OK)
    (h1 : 1 ≤ min) (h2 : min ≤ last) (h3 : last ≤ max)
    (hsent : last = max ∨ destTTL n min ≤ last)
    (hclean : ∀ o ∈ outs, o = .retry ∨ ∃ p, o = .accept p)
    (hmem : ∀ p, p ∈ accepted outs ↔ p ∈ replies n v low tm min last) :
    ∃ r hops, parallelRun min max true outs false false = .ok r ∧ toHops min r = some hops ∧
      hops.map erase = expectedHops n min max ∧ ∀ h ∈ hops, 0 ≤ h.rtt :=
  parallel_trace
    { wf := hwf, sackOn := hsack, lowOK := hlow, timing := htm, min1 := h1, minLast := h2,
      lastMax := h3, sentAll := hsent } hclean hmem

/-- … in particular for every permutation of the replies (every arrival order). -/
theorem c13_path_trace_parallel_perm (n : Net) (v : Variant) (low : Nat → Nat) (tm : Timing)
    (min max last : Nat) (σ : List Probe)
    (hwf : ∀ r ∈ n.routers, r.addr ≠ n.dest.addr)
    (hsack : v = .sack → n.dest.sackEnabled = true)
    (hlow : v = .sack → LowOK n min low)
    (htm : tm.OK)
    (h1 : 1 ≤ min) (h2 : min ≤ last) (h3 : last ≤ max)
    (hsent : last = max ∨ destTTL n min ≤ last)
    (hperm : σ.Perm (replies n v low tm min last)) :
    ∃ r hops, parallelRun min max true (σ.map .accept) false false = .ok r ∧ toHops min r = some hops ∧
      hops.map erase = expectedHops n min max ∧ ∀ h ∈ hops, 0 ≤ h.rtt := by
  have hacc : ∀ l : List Probe, accepted (l.map ROut.accept) = l := by
    intro l
    induction l with
    | nil => rfl
    | cons p l ih => simp [accepted, ih]
  apply c13_path_trace_parallel n v low tm min max last _ hwf hsack hlow htm h1 h2 h3 hsent
  · intro o ho
    obtain ⟨p, _, rfl⟩ := List.mem_map.mp ho
    exact Or.inr ⟨p, rfl⟩
  · intro p; rw [hacc σ]; exact hperm.mem_iff

/-- **Serial engine (TCP SYN, open or closed port).**  One window per TTL from `min`, each with any
    number of retryable outcomes before the reply (or only those, where the router is silent and the
    window times out), ending with the window of the first TTL that reaches the destination; whatever
    windows `extra` might follow are never consumed.  The engine succeeds and the hop list is exactly
    the reference list, RTTs non-negative. -/
theorem c13_path_trace_serial (n : Net) (tm : Timing) (noise : Nat → Nat) (min max : Nat)
    (extra : List (List ROut))
    (hwf : ∀ r ∈ n.routers, r.addr ≠ n.dest.addr)
    (htm : tm.OK)
    (h1 : 1 ≤ min) (h2 : min ≤ max)
    (hextra : max < destTTL n min → extra = []) :
    ∃ r hops, serialRun min max (synWindows n tm noise min max ++ extra) false false = .ok r ∧
      toHops min r = some hops ∧ hops.map erase = expectedHops n min max ∧ ∀ h ∈ hops, 0 ≤ h.rtt :=
  serial_trace hwf htm h1 h2 extra hextra

/-- **The reference list says what the property says**: consecutive TTLs from `min`; every entry
    marked destination is the last entry, carries the destination's address and sits at the first
    probed TTL that reaches the destination; if that TTL is within `max` the list does end with it;
    every entry before it is the corresponding router's address, or empty where that router is
    silent. -/
theorem c13_expected_shape (n : Net) (min max : Nat) (h1 : 1 ≤ min) :
    (expectedHops n min max).length = Nat.min (destTTL n min) max + 1 - min ∧
    (∀ i h, (expectedHops n min max)[i]? = some h → h.ttl = min + i) ∧
    (∀ i h, (expectedHops n min max)[i]? = some h → h.dest = true →
        i + 1 = (expectedHops n min max).length ∧ h.ip = n.dest.addr ∧ h.ttl = destTTL n min) ∧
    (destTTL n min ≤ max → (expectedHops n min max).getLast? = some (destHop n (destTTL n min))) ∧
    (∀ i h, (expectedHops n min max)[i]? = some h → h.dest = false →
        ∃ r, n.routers[min + i - 1]? = some r ∧ h.ip = if r.silent then [] else r.addr) := by
  have hdge := destTTL_ge_min n min
  have hdlen := destTTL_gt_len n min
  -- entries of the router part
  have hrouter : ∀ i, i < Nat.min (destTTL n min) (max + 1) - min →
      (expectedHops n min max)[i]? = some (routerHop n (min + i)) := by
    intro i hi
    unfold expectedHops
    rw [List.getElem?_append_left (by simpa using hi)]
    simp [List.getElem?_map, List.getElem?_range', hi]
  have hlen : (expectedHops n min max).length =
      (Nat.min (destTTL n min) (max + 1) - min) + (if destTTL n min ≤ max then 1 else 0) := by
    unfold expectedHops
    by_cases hd : destTTL n min ≤ max <;> simp [hd]
  have hk : destTTL n min ≤ max → Nat.min (destTTL n min) (max + 1) = destTTL n min :=
    fun h => Nat.min_eq_left (by omega)
  have hk' : max < destTTL n min → Nat.min (destTTL n min) (max + 1) = max + 1 :=
    fun h => Nat.min_eq_right (by omega)
  have hdest : destTTL n min ≤ max →
      (expectedHops n min max)[destTTL n min - min]? = some (destHop n (destTTL n min)) := by
    intro hd
    unfold expectedHops
    rw [List.getElem?_append_right (by simp [hk hd])]
    simp [hd, hk hd]
  have hrttl : ∀ t, (routerHop n t).ttl = t := by
    intro t; unfold routerHop; split <;> rfl
  -- classification of an index
  have hidx : ∀ i h, (expectedHops n min max)[i]? = some h →
      (i < Nat.min (destTTL n min) (max + 1) - min ∧ h = routerHop n (min + i)) ∨
      (destTTL n min ≤ max ∧ i = destTTL n min - min ∧ h = destHop n (destTTL n min)) := by
    intro i h hi
    have hlt : i < (expectedHops n min max).length := (List.getElem?_eq_some_iff.mp hi).1
    by_cases hr : i < Nat.min (destTTL n min) (max + 1) - min
    · left; rw [hrouter i hr] at hi; cases hi; exact ⟨hr, rfl⟩
    · right
      rw [hlen] at hlt
      by_cases hd : destTTL n min ≤ max
      · simp only [hd, if_true, hk hd] at hlt hr
        have hie : i = destTTL n min - min := by omega
        subst hie
        rw [hdest hd] at hi; cases hi
        exact ⟨hd, rfl, rfl⟩
      · simp only [hd, if_false] at hlt; omega
  refine ⟨?_, ?_, ?_, ?_, ?_⟩
  · rw [hlen]
    rcases Nat.lt_or_ge max (destTTL n min) with hgt | hle
    · have e : Nat.min (destTTL n min) max = max := Nat.min_eq_right (Nat.le_of_lt hgt)
      have : ¬ destTTL n min ≤ max := by omega
      rw [hk' hgt, e]; simp [this]
    · have e : Nat.min (destTTL n min) max = destTTL n min := Nat.min_eq_left hle
      rw [hk hle, e]; simp [hle]; omega
  · intro i h hi
    rcases hidx i h hi with ⟨_, rfl⟩ | ⟨_, rfl, rfl⟩
    · exact hrttl _
    · simp [destHop]; omega
  · intro i h hi hd
    rcases hidx i h hi with ⟨_, rfl⟩ | ⟨hdm, rfl, rfl⟩
    · rw [routerHop_dest] at hd; cases hd
    · refine ⟨?_, rfl, rfl⟩
      rw [hlen, hk hdm]; simp [hdm] <;> omega
  · intro hd
    unfold expectedHops
    simp [hd]
  · intro i h hi hd
    rcases hidx i h hi with ⟨hlt, rfl⟩ | ⟨_, _, rfl⟩
    · have hN : min + i ≤ n.routers.length := by
        rcases destTTL_cases n min with e | e
        · rw [e] at hlt
          have : Nat.min min (max + 1) ≤ min := Nat.min_le_left _ _
          omega
        · rw [e] at hlt
          have : Nat.min (n.routers.length + 1) (max + 1) ≤ n.routers.length + 1 := Nat.min_le_left _ _
          omega
      have hlt' : min + i - 1 < n.routers.length := by omega
      obtain ⟨r, hr⟩ : ∃ r, n.routers[min + i - 1]? = some r :=
        ⟨n.routers[min + i - 1], List.getElem?_eq_getElem hlt'⟩
      exact ⟨r, hr, by simp [routerHop, hr]⟩
    · simp [destHop] at hd

/-- **Closed port ⇒ reached via RST.**  On a closed TCP port every SYN probe that reaches the
    destination is answered with an RST from the destination's address, the driver marks it
    destination, and so the SYN trace is the full reference list — ending with the destination
    whenever its TTL is within `max`.  (The SACK attempt cannot connect: see `c13_no_sack`.) -/
theorem c13_closed_port_reached (n : Net) (tm : Timing) (noise : Nat → Nat) (min max : Nat)
    (hclosed : n.dest.port = .closed)
    (hwf : ∀ r ∈ n.routers, r.addr ≠ n.dest.addr) (htm : tm.OK) (h1 : 1 ≤ min) (h2 : min ≤ max) :
    (∀ t, n.routers.length + 1 ≤ t → respond n .tcpSyn t = some (.rst n.dest.addr) ∧
        seenAt n .tcpSyn id tm t =
          some (.probe { ttl := t, ip := n.dest.addr, rtt := rttOf tm t t, dest := true })) ∧
    (∃ r hops, serialRun min max (synWindows n tm noise min max) false false = .ok r ∧
        toHops min r = some hops ∧ hops.map erase = expectedHops n min max ∧ (∀ h ∈ hops, 0 ≤ h.rtt) ∧
        (destTTL n min ≤ max → (hops.map erase).getLast? = some (destHop n (destTTL n min)))) := by
  refine ⟨?_, ?_⟩
  · intro t ht
    have hr : respond n .tcpSyn t = some (.rst n.dest.addr) := by
      unfold respond; rw [forward_dest _ _ _ ht]; simp [destReply, hclosed]
    exact ⟨hr, by simp [seenAt, hr, seen]⟩
  · obtain ⟨r, hops, a, b, c, d⟩ := serial_trace (noise := noise) hwf htm h1 h2 [] (fun _ => rfl)
    rw [List.append_nil] at a
    exact ⟨r, hops, a, b, c, d, fun hd => by rw [c]; exact (c13_expected_shape n min max h1).2.2.2.1 hd⟩

/-- **No SACK at the destination ⇒ `sack` fails, `prefer_sack` falls back.**  For a destination whose
    port is closed (cannot connect) or that has SACK disabled (its SYN-ACK carries no SACK-permitted):
    the SACK attempt ends in a `NotSupportedError`; with method `sack` the CLI reports that error (no
    trace); with `prefer_sack` it reports the SYN trace — which is the reference list by
    `c13_path_trace_serial`.  And should the probes run all the same against a SACK-disabled
    destination, every probe that reaches it is answered by an ACK without SACK blocks, the driver
    returns `NotSupported`, and the engine fails (never a trace) as soon as the receiver consumes one. -/
theorem c13_no_sack (n : Net) (hno : n.dest.port = .closed ∨ n.dest.sackEnabled = false) :
    (∃ f, sackHandshake n = some f ∧ Policy.isCapability f = true) ∧
    (∃ c, reported n (.tcp .sack) = .error c ∧ Policy.hasNS c = true) ∧
    reported n (.tcp .preferSack) = .trace .tcpSyn ∧
    (n.dest.sackEnabled = false → ∀ (low : Nat → Nat) (tm : Timing) (min max : Nat) (t : Nat),
        n.routers.length + 1 ≤ t →
        seenAt n .sack low tm t = some .notSupported ∧
        ∀ (pre post : List ROut), (∀ o ∈ pre, o = .retry ∨ ∃ p, o = .accept p) →
          (∀ p ∈ accepted pre, validProbe min max p = true) →
          parallelRun min max true (pre ++ outAt n .sack low tm t ++ post) false false
            = .error .recvFailed ∨
          parallelRun min max true (pre ++ outAt n .sack low tm t ++ post) false false
            = .error .invalidParams) := by
  have hhs : ∃ f, sackHandshake n = some f ∧ Policy.isCapability f = true := by
    unfold sackHandshake
    rcases hno with h | h
    · exact ⟨.dial, by simp [h], rfl⟩
    · cases hp : n.dest.port
      · exact ⟨.noSackPermitted, by simp [h], rfl⟩
      · exact ⟨.dial, by simp, rfl⟩
  obtain ⟨f, hf, hcap⟩ := hhs
  refine ⟨⟨f, hf, hcap⟩, ?_, ?_, ?_⟩
  · refine ⟨Policy.sackChain f, ?_, ?_⟩
    · simp [reported, Policy.fallback, hf, Policy.sackOut]
    · cases f <;> first | rfl | (simp [Policy.isCapability] at hcap)
  · have hns : Policy.hasNS (Policy.sackChain f) = true := by
      cases f <;> first | rfl | (simp [Policy.isCapability] at hcap)
    simp [reported, Policy.fallback, hf, Policy.sackOut, hns, markSyn]
  · intro hs low tm min max t ht
    obtain ⟨a, b⟩ := seenAt_plainAck (low := low) (tm := tm) hs ht
    refine ⟨a, ?_⟩
    intro pre post hc hv
    rw [b]
    unfold parallelRun
    by_cases hvp : validParams min max = true
    · left
      have := recvLoop_fatal (min := min) (max := max) pre post emptySlots hc hv
      simp only [List.append_assoc, List.singleton_append]
      simp [hvp, this]
    · right; simp [hvp]

/-- **SACK available ⇒ both `sack` and `prefer_sack` report the SACK trace** (which is the reference
    list by `c13_path_trace_parallel` with `v = sack`); `syn` and the default method report the SYN
    trace whatever the destination. -/
theorem c13_sack_supported (n : Net) :
    (n.dest.port = .opened → n.dest.sackEnabled = true →
      reported n (.tcp .sack) = .trace .sack ∧ reported n (.tcp .preferSack) = .trace .sack) ∧
    reported n (.tcp .syn) = .trace .tcpSyn ∧ reported n (.tcp .empty) = .trace .tcpSyn ∧
    reported n .icmp = .trace .icmp ∧ reported n .udp = .trace .udp := by
  refine ⟨?_, ?_, ?_, rfl, rfl⟩
  · intro hp hs
    simp [reported, Policy.fallback, sackHandshake, hp, hs, Policy.sackOut, markSack, markSyn]
  · simp [reported, Policy.fallback, markSyn]
  · simp [reported, Policy.fallback, markSyn]

/-- **The model the oracle runs** (`Net.cli`: protocol switch, method policy, engine model on the
    canonical arrival order) returns the reference list for all five variants whenever a trace is due,
    and `notSupported` for method `sack` when SACK is unavailable. -/
theorem c13_cli (n : Net) (p : Proto) (min max : Nat)
    (hwf : ∀ r ∈ n.routers, r.addr ≠ n.dest.addr) (h1 : 1 ≤ min) (h2 : min ≤ max)
    (hp : p = .icmp ∨ p = .udp ∨ p = .tcp .syn ∨ p = .tcp .sack ∨ p = .tcp .preferSack) :
    (p = .tcp .sack ∧ (n.dest.port = .closed ∨ n.dest.sackEnabled = false) ∧
        cli n p min max = .notSupported) ∨
    (∃ hops, cli n p min max = .hops hops ∧ traceOK n min max hops = true) := by
  have hok : ∀ v, (v = .sack → n.dest.sackEnabled = true) → reported n p = .trace v →
      ∃ hops, cli n p min max = .hops hops ∧ traceOK n min max hops = true := by
    intro v hv hr
    obtain ⟨hops, a, b, c⟩ := runEngine_spec (v := v) hwf hv h1 h2
    refine ⟨hops, by simp [cli, hr, a], ?_⟩
    simp only [traceOK, Bool.and_eq_true, beq_iff_eq, List.all_eq_true, decide_eq_true_eq]
    exact ⟨b, c⟩
  have hsup := c13_sack_supported n
  by_cases hno : n.dest.port = .closed ∨ n.dest.sackEnabled = false
  · obtain ⟨_, ⟨c, hc, hns⟩, hpref, _⟩ := c13_no_sack n hno
    rcases hp with rfl | rfl | rfl | rfl | rfl
    · exact Or.inr (hok .icmp (fun h => by cases h) rfl)
    · exact Or.inr (hok .udp (fun h => by cases h) rfl)
    · exact Or.inr (hok .tcpSyn (fun h => by cases h) hsup.2.1)
    · exact Or.inl ⟨rfl, hno, by simp [cli, hc, hns]⟩
    · exact Or.inr (hok .tcpSyn (fun h => by cases h) hpref)
  · have hopen : n.dest.port = .opened := by
      cases hpp : n.dest.port
      · rfl
      · exact absurd (Or.inl hpp) hno
    have hs : n.dest.sackEnabled = true := by
      cases hss : n.dest.sackEnabled
      · exact absurd (Or.inr hss) hno
      · rfl
    obtain ⟨h5, h6⟩ := hsup.1 hopen hs
    rcases hp with rfl | rfl | rfl | rfl | rfl
    · exact Or.inr (hok .icmp (fun h => by cases h) rfl)
    · exact Or.inr (hok .udp (fun h => by cases h) rfl)
    · exact Or.inr (hok .tcpSyn (fun h => by cases h) hsup.2.1)
    · exact Or.inr (hok .sack (fun _ => hs) h5)
    · exact Or.inr (hok .sack (fun _ => hs) h6)

/-! ## Non-vacuity: a three-router chain with router 2 silent -/

private def r1 : Router := { addr := [10, 1, 0, 2], silent := false }
private def r2 : Router := { addr := [10, 1, 1, 2], silent := true }
private def r3 : Router := { addr := [10, 1, 2, 2], silent := false }
private def net3 (p : PortState) (s : Bool) : Net :=
  { routers := [r1, r2, r3], dest := { addr := [10, 1, 3, 2], port := p, sackEnabled := s } }

/-- ICMP, replies consumed in reverse order with noise and a duplicate: routers 1 and 3, hop 2 empty,
    destination at 4 and nothing after it although probes 5 and 6 were answered too -/
example :
    let n := net3 .opened true
    let σ := (replies n .icmp id oracleTiming 1 6).reverse
    (parallelRun 1 6 true (.retry :: σ.map .accept ++ [.retry] ++ σ.map .accept) false false).toOption.bind
        (fun r => (toHops 1 r).map (·.map erase))
      = some [⟨1, [10, 1, 0, 2], false⟩, ⟨2, [], false⟩, ⟨3, [10, 1, 2, 2], false⟩, ⟨4, [10, 1, 3, 2], true⟩] ∧
    expectedHops n 1 6
      = [⟨1, [10, 1, 0, 2], false⟩, ⟨2, [], false⟩, ⟨3, [10, 1, 2, 2], false⟩, ⟨4, [10, 1, 3, 2], true⟩] := by
  decide

/-- first TTL 3, last TTL 3: only router 3; first TTL 5 (beyond the destination): the destination at 5 -/
example : expectedHops (net3 .opened true) 3 3 = [⟨3, [10, 1, 2, 2], false⟩] ∧
    expectedHops (net3 .opened true) 5 9 = [⟨5, [10, 1, 3, 2], true⟩] := by decide

/-- closed port: SYN trace reaches the destination via RST; `sack` is refused as unsupported,
    `prefer_sack` yields the SYN trace; SACK on an open, SACK-enabled port yields the trace -/
example :
    (match cli (net3 .closed true) (.tcp .syn) 1 6 with
      | .hops hs => hs.map erase | _ => []) = expectedHops (net3 .closed true) 1 6 ∧
    respond (net3 .closed true) .tcpSyn 4 = some (.rst [10, 1, 3, 2]) ∧
    cli (net3 .closed true) (.tcp .sack) 1 6 = .notSupported ∧
    cli (net3 .opened false) (.tcp .sack) 1 6 = .notSupported ∧
    cli (net3 .opened false) (.tcp .preferSack) 1 6 = cli (net3 .opened false) (.tcp .syn) 1 6 ∧
    (match cli (net3 .opened true) (.tcp .sack) 2 6 with
      | .hops hs => hs.map erase | _ => []) = expectedHops (net3 .opened true) 2 6 := by
  decide

#print axioms c13_respond_linux
#print axioms c13_path_trace_parallel
#print axioms c13_path_trace_parallel_perm
#print axioms c13_path_trace_serial
#print axioms c13_expected_shape
#print axioms c13_closed_port_reached
#print axioms c13_no_sack
#print axioms c13_sack_supported
#print axioms c13_cli
end TRV.Props.C13
