import TRV.Proofs.Lockset
import TRV.Generated.Access
/-!
# C14 — No data races between sending, receiving and concurrent runs (partial)

Property theorems only (definitions: `TRV.Model.Sync`; lemmas: `TRV.Proofs.Lockset`).

What is proved: in the interleaving model of goroutines, mutexes, atomics, `go` and `Wait`, every
execution described by the access table is free of data races, for **any** number of threads,
object instances and steps and any schedule — provided the table passes the decidable discipline —
and the table the translator regenerates from the current Go source passes it
(`c14_table_disciplined`; `decide +kernel` is plain `decide` evaluated by the kernel only, no
compiler, no extra axiom: the elaborator's own evaluator exceeds its recursion limit on ~250 rows).

What is *not* proved (partial, see DESIGN §C14): that the table lists every access (syntactic
extraction, lexical lock sets, no alias analysis, library internals trusted) and that the real
threads are used as the roles say (one goroutine constructs a driver, runs `TracerouteParallel`
and closes it).  The race-detector harness (`harness/corr/c14_test.go`) searches for a witness
against exactly these assumptions.
-/
namespace TRV.Props.C14
open TRV.Sync TRV.Proofs.Lockset

/-- Lock hand-off (DESIGN B.8 on the full event type): in a well-formed history, if thread `t` owns
    mutex `m` after `es` and another thread `u` owns it after `fs ++ es`, then `fs` contains an
    acquire of `m` by `u` and, older than it, a release of `m` by `t`. -/
theorem c14_handoff {X M : Type} [DecidableEq M] (m : M) (t u : Tid) (hne : t ≠ u)
    (fs es : History X M) (hwf : WF (fs ++ es)) (ht : owner m es = some t)
    (hu : owner m (fs ++ es) = some u) :
    ∃ f1 f2, fs = f1 ++ Ev.acq u m :: f2 ∧ Ev.rel t m ∈ f2 :=
  handoff m t u hne fs es hwf ht hu

/-- Mutex core: two accesses by different threads that are both made while holding the same mutex
    are ordered by happens-before (program order, then the release→acquire edge of the hand-off,
    then program order). -/
theorem c14_common_mutex_orders {X M : Type} [DecidableEq M] {a b : Ev X M} {s₁ s₂ : History X M}
    {m : M} (hwf : WF s₂) (hs : (a :: s₁) <:+ s₂) (hacc : a.acc.isSome) (hne : a.tid ≠ b.tid)
    (ha : owner m s₁ = some a.tid) (hb : owner m s₂ = some b.tid) : HB (a :: s₁) (b :: s₂) :=
  lock_orders hwf hs hacc hne ha hb

/-- **Lockset soundness (full statement, with atomics and fork/join phases).**  If an access table
    is disciplined — every two rows on one location with a write-like one are both atomic, or share
    a mutex, or are ordered by phase (`init` → `mid` → `final`) or belong to one single-threaded
    role — then every execution the table describes is race free.  General in the number of threads,
    instances and steps. -/
theorem c14_lockset_sound {L K : Type} [DecidableEq L] [DecidableEq K] (tbl : List (Row L K))
    (hd : Disciplined tbl = true) : ∀ h, Exec tbl h → RaceFree h :=
  fun h hex => lockset_sound tbl hd h hex

/-- The access table **regenerated from the current source** is disciplined. -/
theorem c14_table_disciplined : Disciplined TRV.Generated.Access.table = true := by decide +kernel

/-- Hence: every execution of the repository's drivers, engines and allocators that the regenerated
    table describes is free of data races. -/
theorem c14_repo_race_free : ∀ h, Exec TRV.Generated.Access.table h → RaceFree h :=
  c14_lockset_sound _ c14_table_disciplined

/-! ## Non-vacuity (the demo table, history and `hist_exec` are in `TRV.Proofs.Lockset.Demo`) -/


/-- non-vacuity 1: the demo table is disciplined, the demo history is one of its executions, so the
    theorem applies to a history with real concurrency -/
example : Disciplined Demo.tbl = true ∧ Exec Demo.tbl Demo.hist ∧ RaceFree Demo.hist :=
  ⟨by decide, Demo.hist_exec, c14_lockset_sound Demo.tbl (by decide) _ Demo.hist_exec⟩

/-- non-vacuity 2: the discipline rejects the F7 shape (sender write / receiver read, no lock) and
    accepts it once both sides hold `mu` -/
example :
    Disciplined ([⟨"sendTimes", .run, .sender, .mid, .wr, [], false, "sack_driver.go:75"⟩,
                  ⟨"sendTimes", .run, .receiver, .mid, .rd, [], false, "sack_driver.go:158"⟩]
                  : List (Row String String)) = false ∧
    Disciplined ([⟨"sendTimes", .run, .sender, .mid, .wr, ["mu"], false, "sack_driver.go:75"⟩,
                  ⟨"sendTimes", .run, .receiver, .mid, .rd, ["mu"], false, "sack_driver.go:158"⟩]
                  : List (Row String String)) = true := by decide

/-- non-vacuity 3: `RaceFree` is not trivially true — two unsynchronised writes by different
    threads are a race -/
example : ¬ RaceFree ([.wr 2 ("x", 0) "b", .wr 1 ("x", 0) "a"] : History (String × Nat) (String × Nat)) := by
  intro h
  refine no_hb_adjacent (by rfl) (by rfl) (by decide)
    (h _ _ _ _ (List.suffix_refl _) (List.suffix_refl _) ?_)
  exact ⟨by decide, ("x", 0), .wr, "a", .wr, "b", rfl, rfl, Or.inl (by decide), by decide⟩

#print axioms c14_handoff
#print axioms c14_common_mutex_orders
#print axioms c14_lockset_sound
#print axioms c14_table_disciplined
#print axioms c14_repo_race_free
end TRV.Props.C14
