import TRV.Props.C12
import TRV.Proofs.Compose
import TRV.Proofs.Link
/-!
# C12, composition with the matchers: "enabling filtering never changes results"

`TRV.Props.C12` proves what each (regenerated) filter program accepts.  This module composes that
with the driver models: **whenever a matcher turns a packet into a hop, the program that variant
has installed while it reads replies accepts the frame** (Ethernet header + that packet), for
every state of the run and every byte string.

* IPv4, all variants (`c12_compose_icmp4`, `c12_compose_udp4`, `c12_compose_tcp`,
  `c12_compose_sack`): proved with no restriction.  The argument goes through the raw-offset
  genuineness predicates: an accepted packet is genuine (`*_sound`), a genuine packet has outer
  protocol 1, or is a TCP segment at fragment offset 0 on the configured tuple, and the filter
  accepts exactly those (`c12_*_covers_ip`).
* IPv6 (`c12_compose_icmp6_partial`, `c12_compose_udp6_partial`): proved for packets whose IPv6
  header is directly followed by ICMPv6.  The full statement is FALSE of the code as it is
  (`c12_compose_icmp6_full_false`, finding F12): the matchers accept an ICMPv6 message behind a
  hop-by-hop extension header (gopacket decodes the extension header in place), the ICMP filter
  only looks at the fixed header's next-header field (58, or 44 followed by 58) and drops it.
-/
namespace TRV.Props.C12
open TRV TRV.Bpf TRV.Spec TRV.Spec.Filters TRV.Generated.Filters TRV.Proofs.Bpf TRV.Drv TRV.Wire TRV.Proofs

/-! ## ICMP and UDP over IPv4: the ICMP filter -/

/-- **ICMP/IPv4**: every packet the ICMP matcher turns into a hop passes the ICMP filter. -/
theorem c12_compose_icmp4 {s : IcmpSt} {pkt eth : Bytes} {t : Nat} {a : Bytes} {d : Bool} {tm : Nat}
    (hlen : eth.length = 14) (het : u16 eth 12 = some 0x0800)
    (hv4 : ∃ b0, u8 pkt 0 = some b0 ∧ b0 / 16 = 4)
    (h : icmpRecv s pkt = .accept t a d tm) :
    accepts icmp (eth ++ pkt) = true := by
  have hp : u8 (pkt.take bufSize) 9 = some 1 := by
    rcases sig_icmp4 (icmp4_sound h hv4).1 with hq | he
    · exact sigQuoted_proto hq
    · exact sigEcho_proto he
  exact c12_icmp_covers_ip eth pkt hlen (Or.inl ⟨het, take_u8 hp⟩)

/-- **UDP/IPv4**: every packet the UDP matcher turns into a hop passes the ICMP filter (the filter
    the UDP variant installs). -/
theorem c12_compose_udp4 {s : UdpSt} {pkt eth : Bytes} {t : Nat} {a : Bytes} {d : Bool} {tm : Nat}
    (hlen : eth.length = 14) (het : u16 eth 12 = some 0x0800)
    (hinv : UdpInv s) (h4 : s.cfg.target.length = 4)
    (hv4 : ∃ b0, u8 (pkt.take bufSize) 0 = some b0 ∧ b0 / 16 = 4)
    (h : udpRecv s pkt = .accept t a d tm) :
    accepts icmp (eth ++ pkt) = true := by
  have hp := sigQuoted_proto (sig_udp4 (udp4_sound hinv h4 h hv4).1)
  exact c12_icmp_covers_ip eth pkt hlen (Or.inl ⟨het, take_u8 hp⟩)

/-! ## TCP SYN and SACK: the tuple filter with Src = target, Dst = local -/

/-- the tuple filter configured as the variants configure it accepts a direct reply with these
    raw facts -/
private theorem tuple_accepts_direct {eth pkt : Bytes} {target localA : Bytes} {tport lport b0 ff n : Nat}
    (hlen : eth.length = 14) (het : u16 eth 12 = some 0x0800)
    (h0 : u8 (pkt.take n) 0 = some b0) (hff : u16 (pkt.take n) 6 = some ff) (hf0 : ff % 16384 = 0)
    (hp6 : u8 (pkt.take n) 9 = some 6)
    (hs : raw (pkt.take n) 12 4 = some target) (hd : raw (pkt.take n) 16 4 = some localA)
    (hsp : u16 (pkt.take n) ((b0 % 16) * 4) = some tport)
    (hdp : u16 (pkt.take n) ((b0 % 16) * 4 + 2) = some lport) :
    accepts (tcpTuple (beNat target) (beNat localA) tport lport) (eth ++ pkt) = true := by
  apply c12_tuple_covers_ip (beNat target) (beNat localA) tport lport eth pkt b0 ff hlen het
    (take_u8 h0) (take_u16 hff) (by omega) (take_u8 hp6) (take_u32 (u32_of_raw hs)) (take_u32 (u32_of_raw hd))
  · rw [Nat.mul_comm]; exact take_u16 hsp
  · rw [Nat.mul_comm]; exact take_u16 hdp

/-- **TCP SYN**: every packet the TCP matcher turns into a hop — a time-exceeded quoting a probe,
    or a SYN-ACK / RST of the target — passes the tuple filter `Src = target:port,
    Dst = local:port` that `TCPv4.Traceroute` installs (`c12_sites_config`). -/
theorem c12_compose_tcp {s : TcpSt} {pkt eth : Bytes} {t : Nat} {a : Bytes} {d : Bool} {tm : Nat}
    (hlen : eth.length = 14) (het : u16 eth 12 = some 0x0800)
    (hv4 : ∃ b0, u8 (pkt.take bufSize) 0 = some b0 ∧ b0 / 16 = 4)
    (h : tcpRecv s pkt = .accept t a d tm) :
    accepts (tcpTuple (beNat s.cfg.target) (beNat s.cfg.localA) s.cfg.tport s.cfg.lport) (eth ++ pkt) = true := by
  have g := (tcp_sound h hv4).1
  unfold genuineTcp at g
  cases d <;> simp only [Bool.false_eq_true, if_false, if_true] at g
  · have hq : SigQuoted (pkt.take bufSize) 6 := by
      rcases sig_tcp (c := s.cfg) (s := s.sent) (t := t) (a := a) (d := false) (by simpa [genuineTcp] using g) with hq | ht
      · exact hq
      · exfalso
        obtain ⟨v, q, sp, dp, sq, hv, _, _, _, h1, _⟩ := tcpQuoted_inv g
        obtain ⟨v', hv', h6⟩ := ht
        rw [hv] at hv'; cases hv'; omega
    exact c12_tuple_covers_icmp_ip _ _ _ _ eth pkt hlen het (take_u8 (sigQuoted_proto hq))
  · obtain ⟨b0, ff, h0, hff, hf0, hp6, hs, hd, hsp, hdp⟩ := tcpDirect_reads g
    exact tuple_accepts_direct hlen het h0 hff hf0 hp6 hs hd hsp hdp

/-- **SACK, probing phase**: every packet the SACK matcher turns into a hop passes the tuple
    filter `Src = target, Dst = local` installed after the handshake. -/
theorem c12_compose_sack {s : SackSt} {pkt eth : Bytes} {t : Nat} {a : Bytes} {d : Bool} {tm : Nat}
    (hlen : eth.length = 14) (het : u16 eth 12 = some 0x0800)
    (hv4 : ∃ b0, u8 (pkt.take bufSize) 0 = some b0 ∧ b0 / 16 = 4)
    (h : sackRecv s pkt = .accept t a d tm) :
    accepts (tcpTuple (beNat s.cfg.target) (beNat s.cfg.localA) s.cfg.tport s.cfg.lport) (eth ++ pkt) = true := by
  have g := (sack_sound h hv4).1
  unfold genuineSack at g
  simp only [Bool.or_eq_true, Bool.and_eq_true] at g
  rcases g with g | ⟨_, g⟩
  · have hq : SigQuoted (pkt.take bufSize) 6 := by
      unfold genuineSackQuoted at g
      split at g; · simp at g
      rename_i v hv
      split at g; · simp at g
      rename_i q hq
      split at g
      · simp only [Bool.and_eq_true, decide_eq_true_eq, Bool.or_eq_true, and_assoc] at g
        obtain ⟨_, h1, _, h11, _, hp, _⟩ := g
        exact ⟨v, q, hv, hq, h1, Or.inl h11, hp⟩
      · simp at g
    exact c12_tuple_covers_icmp_ip _ _ _ _ eth pkt hlen het (take_u8 (sigQuoted_proto hq))
  · obtain ⟨b0, ff, h0, hff, hf0, hp6, hs, hd, hsp, hdp⟩ := sackDirect_reads g
    exact tuple_accepts_direct hlen het h0 hff hf0 hp6 hs hd hsp hdp

/-! ## IPv6: partial, and the refuted full statement (finding F12) -/

/-- **ICMP/IPv6, partial**: a packet the ICMPv6 matcher turns into a hop passes the ICMP filter
    when the ICMPv6 message directly follows the IPv6 header. -/
theorem c12_compose_icmp6_partial {s : IcmpSt} {pkt eth : Bytes} {t : Nat} {a : Bytes} {d : Bool} {tm : Nat}
    (hlen : eth.length = 14) (het : u16 eth 12 = some 0x86dd) (hmin : 1 ≤ s.cfg.min)
    (hv6 : ∃ b0, u8 (pkt.take bufSize) 0 = some b0 ∧ b0 / 16 = 6)
    (hdirect : u8 (pkt.take bufSize) 6 ≠ some 0)
    (h : icmpRecv s pkt = .accept t a d tm) :
    accepts icmp (eth ++ pkt) = true := by
  have g := (icmp6_sound hmin h hv6).1
  have h58 : u8 (pkt.take bufSize) 6 = some 58 := by
    unfold genuineIcmp6 at g
    split at g; · simp at g
    rename_i v hv
    have hu := view6_direct hv hdirect
    split at g
    · split at g
      · simp only [Bool.and_eq_true, decide_eq_true_eq, and_assoc] at g
        rw [hu, g.2.2.1]
      · simp at g
    · split at g; · simp at g
      split at g
      · simp only [Bool.and_eq_true, decide_eq_true_eq, Bool.or_eq_true, and_assoc] at g
        rw [hu, g.2.1]
      · simp at g
  exact c12_icmp_covers_ip eth pkt hlen (Or.inr (Or.inl ⟨het, take_u8 h58⟩))

/-- **UDP/IPv6, partial**: likewise for the UDP variant over IPv6. -/
theorem c12_compose_udp6_partial {s : UdpSt} {pkt eth : Bytes} {t : Nat} {a : Bytes} {d : Bool} {tm : Nat}
    (hlen : eth.length = 14) (het : u16 eth 12 = some 0x86dd)
    (hinv : UdpInv s) (h6 : s.cfg.target.length ≠ 4)
    (hv6 : ∃ b0, u8 (pkt.take bufSize) 0 = some b0 ∧ b0 / 16 = 6)
    (hdirect : u8 (pkt.take bufSize) 6 ≠ some 0)
    (h : udpRecv s pkt = .accept t a d tm) :
    accepts icmp (eth ++ pkt) = true := by
  have g := (udp6_sound hinv h6 h hv6).1
  have h58 : u8 (pkt.take bufSize) 6 = some 58 := by
    unfold genuineUdp6 at g
    split at g; · simp at g
    rename_i v hv
    have hu := view6_direct hv hdirect
    split at g; · simp at g
    split at g; · simp at g
    simp only [Bool.and_eq_true, decide_eq_true_eq, Bool.or_eq_true, and_assoc] at g
    rw [hu, g.2.1]
  exact c12_icmp_covers_ip eth pkt hlen (Or.inr (Or.inl ⟨het, take_u8 h58⟩))

/-- the full IPv6 statement: no restriction on extension headers -/
def c12_compose_icmp6_full : Prop :=
  ∀ (s : IcmpSt) (pkt eth : Bytes) (t : Nat) (a : Bytes) (d : Bool) (tm : Nat),
    eth.length = 14 → u16 eth 12 = some 0x86dd → 1 ≤ s.cfg.min →
    (∃ b0, u8 (pkt.take bufSize) 0 = some b0 ∧ b0 / 16 = 6) →
    icmpRecv s pkt = .accept t a d tm → accepts icmp (eth ++ pkt) = true

private def f12Local : Bytes := [0x20, 0x01, 0x0d, 0xb8, 0, 0, 0, 0, 0, 0, 0, 0, 0, 0, 0, 1]
private def f12Target : Bytes := [0x20, 0x01, 0x0d, 0xb8, 0, 0, 0, 0, 0, 0, 0, 0, 0, 0, 0, 9]
private def f12Cfg : IcmpCfg := { localA := f12Local, target := f12Target, echoId := 0x616b, min := 1, max := 8 }
private def f12St : IcmpSt := { cfg := f12Cfg, sent := [{ ttl := 5, id := 0x616b, seq := 5, time := 10 }] }
/-- echo reply of the target for sequence number 5, travelling behind a hop-by-hop header that
    carries one PadN option: IPv6 (next header 0) ++ HBH (next 58, length 0, PadN 4) ++ ICMPv6 129 -/
private def f12Pkt : Bytes :=
  [0x60, 0, 0, 0, 0, 16, 0, 57] ++ f12Target ++ f12Local ++
  [58, 0, 1, 4, 0, 0, 0, 0] ++ [129, 0, 0, 0, 0x61, 0x6b, 0, 5]
private def f12Eth : Bytes := [2, 0, 0, 0, 0, 1, 2, 0, 0, 0, 0, 2, 0x86, 0xdd]

/-- **Finding F12**: the full statement is false.  Witness: the echo reply above is turned into the
    destination hop by the matcher and dropped by the ICMP filter (the harness replays such frames
    on the real driver, the real program in x/net/bpf's VM and the kernel: stream `compose`). -/
theorem c12_compose_icmp6_full_false : ¬ c12_compose_icmp6_full := by
  intro h
  have := h f12St f12Pkt f12Eth 5 f12Target true 10 (by decide) (by decide) (by decide)
    ⟨0x60, by decide, by decide⟩ (by decide)
  rw [c12_icmp_exact] at this
  revert this
  decide

/-! ## From the frame: what the capture source hands up, and which program is attached -/

/-- **Frame level, IPv4**: if the capture source hands the packet `pkt` up for the frame `f`
    (`stripEthernetHeader`), the frame's EtherType is IPv4, and a matcher turns `pkt` into a hop,
    then the program that variant installs accepts `f` itself. -/
theorem c12_frame_compose_v4 {f pkt : Bytes} (hs : Link.strip f = .packet pkt) (het : u16 f 12 = some 0x0800) :
    (∀ (s : IcmpSt) t a d tm, (∃ b0, u8 pkt 0 = some b0 ∧ b0 / 16 = 4) →
        icmpRecv s pkt = .accept t a d tm → accepts icmp f = true) ∧
    (∀ (s : UdpSt) t a d tm, UdpInv s → s.cfg.target.length = 4 →
        (∃ b0, u8 (pkt.take bufSize) 0 = some b0 ∧ b0 / 16 = 4) →
        udpRecv s pkt = .accept t a d tm → accepts icmp f = true) ∧
    (∀ (s : TcpSt) t a d tm, (∃ b0, u8 (pkt.take bufSize) 0 = some b0 ∧ b0 / 16 = 4) →
        tcpRecv s pkt = .accept t a d tm →
        accepts (tcpTuple (beNat s.cfg.target) (beNat s.cfg.localA) s.cfg.tport s.cfg.lport) f = true) ∧
    (∀ (s : SackSt) t a d tm, (∃ b0, u8 (pkt.take bufSize) 0 = some b0 ∧ b0 / 16 = 4) →
        sackRecv s pkt = .accept t a d tm →
        accepts (tcpTuple (beNat s.cfg.target) (beNat s.cfg.localA) s.cfg.tport s.cfg.lport) f = true) := by
  obtain ⟨eth, hlen, _, rfl⟩ := TRV.Proofs.Link.strip_packet_iff.mp hs
  have het' : u16 eth 12 = some 0x0800 := by
    rw [← TRV.Proofs.Bpf.u16_append_left (a := eth) (b := pkt) (off := 12) (by omega)]; exact het
  exact ⟨fun s t a d tm hv h => c12_compose_icmp4 hlen het' hv h,
    fun s t a d tm hinv h4 hv h => c12_compose_udp4 hlen het' hinv h4 hv h,
    fun s t a d tm hv h => c12_compose_tcp hlen het' hv h,
    fun s t a d tm hv h => c12_compose_sack hlen het' hv h⟩

/-- the frame-level statement without the EtherType hypothesis -/
def c12_frame_compose_full : Prop :=
  ∀ (f pkt : Bytes) (s : IcmpSt) (t : Nat) (a : Bytes) (d : Bool) (tm : Nat),
    Link.strip f = .packet pkt → (∃ b0, u8 pkt 0 = some b0 ∧ b0 / 16 = 4) →
    icmpRecv s pkt = .accept t a d tm → accepts icmp f = true

private def f12bCfg : IcmpCfg := { localA := [192, 0, 2, 2], target := [198, 51, 100, 9], echoId := 0x4230, min := 1, max := 8 }
private def f12bSt : IcmpSt := { cfg := f12bCfg, sent := [{ ttl := 1, id := 0x4230, seq := 1, time := 10 }] }
/-- echo reply of the target for sequence number 1 — an IPv4 packet -/
private def f12bPkt : Bytes :=
  [0x45, 0, 0, 28, 0, 0, 0, 0, 57, 1, 0, 0] ++ [198, 51, 100, 9] ++ [192, 0, 2, 2] ++ [0, 0, 0, 0, 0x42, 0x30, 0, 1]
/-- … behind an Ethernet header whose EtherType says IPv6 -/
private def f12bFrame : Bytes := [2, 0, 0, 0, 0, 1, 2, 0, 0, 0, 0, 2, 0x86, 0xdd] ++ f12bPkt

/-- **Finding F12b**: the full frame-level statement is false.  The capture source hands up the
    packet of a frame whose EtherType names the other IP version (it only requires an IP EtherType),
    the matcher goes by the version nibble and accepts, the filter dispatches on the EtherType and
    drops (replayed on the real code by the `compose` stream, framing
    `ethertype-of-the-other-ip-version`). -/
theorem c12_frame_compose_full_false : ¬ c12_frame_compose_full := by
  intro h
  have := h f12bFrame f12bPkt f12bSt 1 [198, 51, 100, 9] true 10 (by decide) ⟨0x45, by decide, by decide⟩ (by decide)
  rw [c12_icmp_exact] at this
  revert this
  decide

/-- **Which program is attached**: after any sequence of `SetPacketFilter` calls (and frames arriving
    in between) the program attached to the capture socket is the one of the LAST call — nothing
    after `FilterTypeNone` — and every frame waiting in the socket's queue was accepted by it
    (attaching drains what was queued under the previous program). -/
theorem c12_source_attached_and_queue (evs : List (Link.Ev (List Instr))) :
    (evs.foldl (Link.Source.step accepts) { attached := none, queue := [] }).attached =
      Link.lastSet none evs ∧
    ∀ q, (evs.foldl (Link.Source.step accepts) { attached := none, queue := [] }).attached = some q →
      ∀ f ∈ (evs.foldl (Link.Source.step accepts) { attached := none, queue := [] }).queue, accepts q f = true := by
  refine ⟨?_, ?_⟩
  · exact TRV.Proofs.Link.attached_is_last accepts evs { attached := none, queue := [] }
  · exact TRV.Proofs.Link.queue_accepted accepts evs { attached := none, queue := [] } (fun q hq => by simp at hq)

/-! ## Non-vacuity -/

/-- the F12b packet behind the matching EtherType: handed up, accepted by the matcher, and passed by
    the filter (through the frame-level theorem) -/
example : accepts icmp ([2, 0, 0, 0, 0, 1, 2, 0, 0, 0, 0, 2, 0x08, 0x00] ++ f12bPkt) = true :=
  (c12_frame_compose_v4 (f := [2, 0, 0, 0, 0, 1, 2, 0, 0, 0, 0, 2, 0x08, 0x00] ++ f12bPkt) (pkt := f12bPkt)
    (by decide) (by decide)).1 f12bSt 1 [198, 51, 100, 9] true 10 ⟨0x45, by decide, by decide⟩ (by decide)


/-- the same echo reply directly behind the IPv6 header: accepted by the matcher, and then (by the
    partial theorem) by the filter -/
private def f12PktDirect : Bytes :=
  [0x60, 0, 0, 0, 0, 8, 58, 57] ++ f12Target ++ f12Local ++ [129, 0, 0, 0, 0x61, 0x6b, 0, 5]

example : icmpRecv f12St f12PktDirect = .accept 5 f12Target true 10 := by decide

example : accepts icmp (f12Eth ++ f12PktDirect) = true :=
  c12_compose_icmp6_partial (s := f12St) (t := 5) (a := f12Target) (d := true) (tm := 10)
    (by decide) (by decide) (by decide) ⟨0x60, by decide, by decide⟩ (by decide) (by decide)

#print axioms c12_compose_icmp4
#print axioms c12_compose_udp4
#print axioms c12_compose_tcp
#print axioms c12_compose_sack
#print axioms c12_compose_icmp6_partial
#print axioms c12_compose_udp6_partial
#print axioms c12_compose_icmp6_full_false
#print axioms c12_frame_compose_v4
#print axioms c12_frame_compose_full_false
#print axioms c12_source_attached_and_queue

end TRV.Props.C12
